-- Root of the `StirVerif` library: one sub-directory per property (C01 … C20).
import StirVerif.C11.Model
import StirVerif.C11.Lemmas
import StirVerif.C11.Proofs
import StirVerif.C11.Props
import StirVerif.C06.Props
import StirVerif.C01.Props
import StirVerif.C18.Props
import StirVerif.C13.Props
import StirVerif.C14.Props
import StirVerif.C02.Props
import StirVerif.C16.Props
import StirVerif.C10.Props
import StirVerif.C20.Props
import StirVerif.C19.Props
import StirVerif.C04.Props
import StirVerif.C05.Props
