import StirVerif.C20.ProofsIter
import StirVerif.C20.ProofsPos
import Mathlib.Algebra.Order.Field.Basic
import Mathlib.Tactic.Ring
import Mathlib.Tactic.Linarith
/-! # C20 — generic facts about the loops of `make_geo_data`, `apply_geo_norm`, `iterate_geo_norm`

Value containers only (no geometry): accumulation loops, write loops (last write wins), read-modify-write loops over distinct
keys, `find_max`, and the scalar fixed point of the thresholded class ratio. -/
namespace StirVerif.C20
set_option linter.unusedSectionVars false

section
variable {K : Type} [Field K] [DecidableEq K]

/-- a sum over a duplicate-free list of a function that vanishes except at one element -/
theorem list_sum_eq_single {α : Type} (l : List α) (f : α → K) (c : α) (hl : l.Nodup) (hc : c ∈ l)
    (h0 : ∀ x ∈ l, x ≠ c → f x = 0) : (l.map f).sum = f c := by
  induction l with
  | nil => simp at hc
  | cons x l ih =>
    rw [List.nodup_cons] at hl
    rw [List.map_cons, List.sum_cons]
    by_cases hx : x = c
    · subst hx
      have : (l.map f).sum = 0 := by
        apply List.sum_eq_zero
        intro v hv
        obtain ⟨y, hy, rfl⟩ := List.mem_map.1 hv
        exact h0 y (by simp [hy]) (fun h => hl.1 (h ▸ hy))
      rw [this, add_zero]
    · have hcl : c ∈ l := by
        rcases List.mem_cons.1 hc with h | h
        · exact absurd h.symm hx
        · exact h
      rw [h0 x (by simp) hx, zero_add]
      exact ih hl.2 hcl (fun y hy => h0 y (by simp [hy]))

theorem list_sum_eq_zero_of {α : Type} (l : List α) (f : α → K) (h0 : ∀ x ∈ l, f x = 0) : (l.map f).sum = 0 := by
  apply List.sum_eq_zero
  intro v hv
  obtain ⟨y, hy, rfl⟩ := List.mem_map.1 hv
  exact h0 y hy

/-! ## accumulation loops -/

/-- inner accumulation loop: `for y: if (cond) G[key] += val` -/
theorem acc_inner_get {β : Type} (m : List β) (cond : β → Bool) (key : β → Key) (val : β → K) (G0 : Fan K) (k : Key) :
    (m.foldl (fun G y => if cond y then G.set (key y) (G.get (key y) + val y) else G) G0).get k =
      G0.get k + (m.map fun y => if cond y = true ∧ key y = k then val y else 0).sum := by
  induction m generalizing G0 with
  | nil => simp
  | cons y m ih =>
    rw [List.foldl_cons, ih, List.map_cons, List.sum_cons]
    by_cases hc : cond y = true
    · rw [if_pos hc, Fan.get_set]
      by_cases hk : key y = k
      · subst hk
        simp only [hc, true_and, if_true]
        ring
      · simp only [hk, and_false, if_false]
        ring
    · rw [if_neg hc, if_neg (fun h => hc h.1)]
      ring

/-- the doubly nested accumulation loop of `make_geo_data` -/
theorem acc_nested_get {α β : Type} (l : List α) (m : List β) (cond : α → β → Bool) (key : α → β → Key) (val : α → β → K)
    (G0 : Fan K) (k : Key) :
    (l.foldl (fun G x => m.foldl (fun G y => if cond x y then G.set (key x y) (G.get (key x y) + val x y) else G) G) G0).get k =
      G0.get k + (l.map fun x => (m.map fun y => if cond x y = true ∧ key x y = k then val x y else 0).sum).sum := by
  induction l generalizing G0 with
  | nil => simp
  | cons x l ih =>
    rw [List.foldl_cons, ih, acc_inner_get, List.map_cons, List.sum_cons]
    ring

/-! ## write loops -/

/-- after a sequence of writes an element holds `0` if it was never written, otherwise the value of one of the writes to it -/
theorem writes_get (ws : List (Key × K)) (W0 : Fan K) (k : Key) :
    ((∀ w ∈ ws, w.1 ≠ k) → (ws.foldl (fun W w => W.set w.1 w.2) W0).get k = W0.get k) ∧
      ((∃ w ∈ ws, w.1 = k) → ∃ w ∈ ws, w.1 = k ∧ (ws.foldl (fun W w => W.set w.1 w.2) W0).get k = w.2) := by
  induction ws generalizing W0 with
  | nil => exact ⟨fun _ => rfl, fun ⟨w, hw, _⟩ => by simp at hw⟩
  | cons w ws ih =>
    rw [List.foldl_cons]
    obtain ⟨ih1, ih2⟩ := ih (W0.set w.1 w.2)
    constructor
    · intro h
      rw [ih1 (fun w' hw' => h w' (by simp [hw']))]
      exact Fan.get_set_ne _ _ (h w (by simp))
    · intro _
      by_cases hlater : ∃ w' ∈ ws, w'.1 = k
      · obtain ⟨w', hw', hk, hv⟩ := ih2 hlater
        exact ⟨w', by simp [hw'], hk, hv⟩
      · have hnone : ∀ w' ∈ ws, w'.1 ≠ k := fun w' hw' hk => hlater ⟨w', hw', hk⟩
        have hw : w.1 = k := by
          rename_i hex
          obtain ⟨w', hw', hk⟩ := hex
          rcases List.mem_cons.1 hw' with h | h
          · rw [← h]; exact hk
          · exact absurd hk (hnone w' h)
        refine ⟨w, by simp, hw, ?_⟩
        rw [ih1 hnone, ← hw, Fan.get_set_eq]

/-- the nested write loop of `apply_geo_norm` (part 1), flattened -/
theorem nested_writes_eq {α β : Type} (l : List α) (m : List β) (tg : α → β → List Key) (v : α → K) (W0 : Fan K) :
    l.foldl (fun W x => m.foldl (fun W y => (tg x y).foldl (fun W t => W.set t (v x)) W) W) W0 =
      (l.flatMap fun x => m.flatMap fun y => (tg x y).map fun t => (t, v x)).foldl (fun W w => W.set w.1 w.2) W0 := by
  rw [List.foldl_flatMap]
  congr 1
  funext W x
  rw [List.foldl_flatMap]
  congr 1
  funext W y
  rw [List.foldl_map]

/-- what the nested write loop leaves in an element: `0` if no index pair targets it, else the value of one that does -/
theorem nested_writes_get {α β : Type} (l : List α) (m : List β) (tg : α → β → List Key) (v : α → K) (k : Key) :
    ((¬ ∃ x ∈ l, ∃ y ∈ m, k ∈ tg x y) →
        (l.foldl (fun W x => m.foldl (fun W y => (tg x y).foldl (fun W t => W.set t (v x)) W) W) ({} : Fan K)).get k = 0) ∧
      ((∃ x ∈ l, ∃ y ∈ m, k ∈ tg x y) → ∃ x ∈ l, (∃ y ∈ m, k ∈ tg x y) ∧
        (l.foldl (fun W x => m.foldl (fun W y => (tg x y).foldl (fun W t => W.set t (v x)) W) W) ({} : Fan K)).get k = v x) := by
  rw [nested_writes_eq]
  have hmem : ∀ w : Key × K, w ∈ (l.flatMap fun x => m.flatMap fun y => (tg x y).map fun t => (t, v x)) ↔
      ∃ x ∈ l, ∃ y ∈ m, w.1 ∈ tg x y ∧ w.2 = v x := by
    intro w
    simp only [List.mem_flatMap, List.mem_map]
    constructor
    · rintro ⟨x, hx, y, hy, t, ht, rfl⟩
      exact ⟨x, hx, y, hy, ht, rfl⟩
    · rintro ⟨x, hx, y, hy, ht, hv⟩
      exact ⟨x, hx, y, hy, w.1, ht, Prod.ext rfl hv.symm⟩
  obtain ⟨h1, h2⟩ := writes_get (l.flatMap fun x => m.flatMap fun y => (tg x y).map fun t => (t, v x)) ({} : Fan K) k
  constructor
  · intro hno
    rw [h1 ?_, Fan.get_empty]
    intro w hw hk
    obtain ⟨x, hx, y, hy, ht, _⟩ := (hmem w).1 hw
    exact hno ⟨x, hx, y, hy, hk ▸ ht⟩
  · rintro ⟨x, hx, y, hy, ht⟩
    obtain ⟨w, hw, hk, hv⟩ := h2 ⟨(k, v x), (hmem _).2 ⟨x, hx, y, hy, ht, rfl⟩, rfl⟩
    obtain ⟨x', hx', y', hy', ht', hv'⟩ := (hmem w).1 hw
    exact ⟨x', hx', ⟨y', hy', hk ▸ ht'⟩, hv.trans hv'⟩

/-! ## read-modify-write loops over distinct keys -/

theorem rmw_get (key : Key → Key) (f : Key → K → K) (l : List Key) (G0 : Fan K) :
    (∀ k, (∀ c ∈ l, key c ≠ k) → (l.foldl (fun G c => G.set (key c) (f c (G.get (key c)))) G0).get k = G0.get k) ∧
      (l.Nodup → (∀ c ∈ l, ∀ c' ∈ l, key c = key c' → c = c') → ∀ c ∈ l,
        (l.foldl (fun G c => G.set (key c) (f c (G.get (key c)))) G0).get (key c) = f c (G0.get (key c))) := by
  induction l generalizing G0 with
  | nil => exact ⟨fun _ _ => rfl, fun _ _ c hc => by simp at hc⟩
  | cons x l ih =>
    obtain ⟨ih1, ih2⟩ := ih (G0.set (key x) (f x (G0.get (key x))))
    constructor
    · intro k hk
      rw [List.foldl_cons, ih1 k (fun c hc => hk c (by simp [hc]))]
      exact Fan.get_set_ne _ _ (hk x (by simp))
    · intro hnd hinj c hc
      rw [List.nodup_cons] at hnd
      rw [List.foldl_cons]
      rcases List.mem_cons.1 hc with h | h
      · subst h
        rw [ih1 (key c) (fun c' hc' hk => hnd.1 ((hinj c' (by simp [hc']) c (by simp) hk) ▸ hc')), Fan.get_set_eq]
      · rw [ih2 hnd.2 (fun c₁ h₁ c₂ h₂ => hinj c₁ (by simp [h₁]) c₂ (by simp [h₂])) c h]
        have hne : key x ≠ key c := fun hk => hnd.1 ((hinj x (by simp) c (by simp [h]) hk) ▸ h)
        rw [Fan.get_set_ne _ _ hne]

end

/-! ## `find_max` and the thresholded ratio -/

section ordered
variable {K : Type} [Field K] [LinearOrder K] [IsStrictOrderedRing K]

theorem findMax_step (m v : K) : (if m < v then v else m) = max m v := by
  rcases lt_or_ge m v with h | h
  · rw [if_pos h, max_eq_right h.le]
  · rw [if_neg (not_lt.2 h), max_eq_left h]

theorem findMax_fold_mono {α : Type} (l : List α) (f f' : α → K) (hff : ∀ x ∈ l, f x ≤ f' x) (m m' : K) (hm : m ≤ m') :
    (l.map f).foldl (fun m v => if m < v then v else m) m ≤ (l.map f').foldl (fun m v => if m < v then v else m) m' := by
  induction l generalizing m m' with
  | nil => exact hm
  | cons x l ih =>
    rw [List.map_cons, List.map_cons, List.foldl_cons, List.foldl_cons, findMax_step, findMax_step]
    exact ih (fun y hy => hff y (by simp [hy])) _ _ (max_le_max hm (hff x (by simp)))

/-- `find_max` is monotone in the data -/
theorem findMax_mono {α : Type} (l : List α) (f f' : α → K) (hff : ∀ x ∈ l, f x ≤ f' x) :
    findMax (l.map f) ≤ findMax (l.map f') := by
  unfold findMax
  exact findMax_fold_mono l f f' hff 0 0 le_rfl

/-- **fixed point of the thresholded class ratio**: let `γ` be the factor that `iterate_geo_norm` computes from the measured
class sum `M ≥ 0` and the model class sum `S ≥ 0` (`M = 0` when the class is empty, `S = 0`) with threshold `thr`.  Then the data
`γ·S` generated from it are not larger than `M`, and with any threshold `thr' ≤ thr` the update returns `γ` again. -/
theorem ratioOrZero_refixed (thr thr' M S : K) (hM : 0 ≤ M) (hS : 0 ≤ S) (hS0 : S = 0 → M = 0) (hthr : thr' ≤ thr) :
    ratioOrZero thr' (ratioOrZero thr M S * S) S = ratioOrZero thr M S ∧ ratioOrZero thr M S * S ≤ M := by
  rcases hS.eq_or_lt with hS' | hS'
  · -- empty class
    have hM' : M = 0 := hS0 hS'.symm
    subst hM'
    rw [← hS']
    have h0 : ∀ t : K, ratioOrZero t 0 0 = 0 := by
      intro t
      unfold ratioOrZero
      split <;> simp
    rw [h0, zero_mul, h0]
    exact ⟨rfl, le_rfl⟩
  · by_cases h1 : M < 10000 * S
    · -- the ratio is below the hard-wired bound
      have hγ : ratioOrZero thr M S = M / S := by
        unfold ratioOrZero
        simp [h1]
      rw [hγ]
      have hlt : M / S < 10000 := by rwa [div_lt_iff₀ hS']
      exact ⟨ratioOrZero_fixed thr' S (M / S) hS' hlt, by rw [div_mul_cancel₀ _ hS'.ne']⟩
    · by_cases h2 : M < thr
      · -- thresholded to 0
        have hγ : ratioOrZero thr M S = 0 := by
          unfold ratioOrZero
          simp [h1, h2]
        rw [hγ, zero_mul]
        refine ⟨?_, hM⟩
        have := ratioOrZero_fixed thr' S 0 hS' (by norm_num)
        rwa [zero_mul] at this
      · -- above the threshold
        have hγ : ratioOrZero thr M S = M / S := by
          unfold ratioOrZero
          simp [h2]
        rw [hγ, div_mul_cancel₀ _ hS'.ne']
        refine ⟨?_, le_rfl⟩
        have h3 : ¬ M < thr' := not_lt.2 (le_trans hthr (not_lt.1 h2))
        unfold ratioOrZero
        simp [h3]

end ordered
end StirVerif.C20
