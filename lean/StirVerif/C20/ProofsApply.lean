import StirVerif.C20.ProofsStore
import Mathlib.Algebra.BigOperators.Group.List.Basic
import Mathlib.Algebra.Field.Basic
import Mathlib.Tactic.FieldSimp
/-! # C20 — applying and un-applying factors (`apply_efficiencies`, `apply_block_norm`, `apply_geo_norm`) over any field -/
namespace StirVerif.C20
set_option linter.unusedSectionVars false

section
variable {K : Type} [Field K] [DecidableEq K]

/-- in a field the `if (x == 0) continue;` is invisible: `x *= f` -/
theorem applyFactor_true (v f : K) : applyFactor true v f = v * f := by
  unfold applyFactor
  by_cases h : v = 0
  · simp [h]
  · simp [h]

/-- … and `x /= f` -/
theorem applyFactor_false (v f : K) : applyFactor false v f = v / f := by
  unfold applyFactor
  by_cases h : v = 0
  · simp [h]
  · simp [h]

/-- product of the factors of all visits of the loop nest `cs` to the array element `k` -/
def visitProd (key : Key → Key) (f : Key → K) (cs : List Key) (k : Key) : K :=
  ((cs.filter fun c => key c = k).map f).prod

theorem visitProd_cons (key : Key → Key) (f : Key → K) (c : Key) (cs : List Key) (k : Key) :
    visitProd key f (c :: cs) k = (if key c = k then f c else 1) * visitProd key f cs k := by
  unfold visitProd
  by_cases h : key c = k
  · simp [h]
  · simp [h]

/-- the loop nest multiplies every array element by the product of the factors of the visits to it -/
theorem factorFold_true (key : Key → Key) (f : Key → K) (cs : List Key) (F : Fan K) (k : Key) :
    (cs.foldl (factorStep key f true) F).get k = F.get k * visitProd key f cs k := by
  induction cs generalizing F with
  | nil => simp [visitProd]
  | cons c cs ih =>
    rw [List.foldl_cons, ih, visitProd_cons]
    unfold factorStep
    rw [Fan.get_set, applyFactor_true]
    by_cases h : key c = k
    · simp only [h, if_true]
      ring
    · simp only [h, if_false]
      ring

theorem factorFold_false (key : Key → Key) (f : Key → K) (cs : List Key) (F : Fan K) (k : Key) :
    (cs.foldl (factorStep key f false) F).get k = F.get k / visitProd key f cs k := by
  induction cs generalizing F with
  | nil => simp [visitProd]
  | cons c cs ih =>
    rw [List.foldl_cons, ih, visitProd_cons]
    unfold factorStep
    rw [Fan.get_set, applyFactor_false]
    by_cases h : key c = k
    · simp only [h, if_true]
      rw [div_div]
    · simp only [h, if_false, one_mul]

theorem visitProd_ne_zero (key : Key → Key) (f : Key → K) (cs : List Key) (k : Key) (hf : ∀ c ∈ cs, f c ≠ 0) :
    visitProd key f cs k ≠ 0 := by
  induction cs with
  | nil => simp [visitProd]
  | cons c cs ih =>
    rw [visitProd_cons]
    refine mul_ne_zero ?_ (ih fun c' hc' => hf c' (by simp [hc']))
    split
    · exact hf c (by simp)
    · exact one_ne_zero

/-- **apply then un-apply restores every array element**, for any loop nest, any index map, non-zero factors, any field. -/
theorem factorFold_unapply_apply (key : Key → Key) (f : Key → K) (cs : List Key) (F : Fan K) (hf : ∀ c ∈ cs, f c ≠ 0)
    (k : Key) : (cs.foldl (factorStep key f false) (cs.foldl (factorStep key f true) F)).get k = F.get k := by
  rw [factorFold_false, factorFold_true]
  exact mul_div_cancel_right₀ _ (visitProd_ne_zero key f cs k hf)

/-- … and the other way round. -/
theorem factorFold_apply_unapply (key : Key → Key) (f : Key → K) (cs : List Key) (F : Fan K) (hf : ∀ c ∈ cs, f c ≠ 0)
    (k : Key) : (cs.foldl (factorStep key f true) (cs.foldl (factorStep key f false) F)).get k = F.get k := by
  rw [factorFold_true, factorFold_false]
  exact div_mul_cancel₀ _ (visitProd_ne_zero key f cs k hf)

theorem filter_eq_singleton {α : Type} (p : α → Bool) (l : List α) (c : α) (hl : l.Nodup) (hc : c ∈ l) (hpc : p c = true)
    (huniq : ∀ c' ∈ l, p c' = true → c' = c) : l.filter p = [c] := by
  induction l with
  | nil => simp at hc
  | cons x l ih =>
    rw [List.nodup_cons] at hl
    by_cases hx : x = c
    · subst hx
      rw [List.filter_cons, if_pos hpc]
      congr 1
      apply List.filter_eq_nil_iff.2
      intro y hy hpy
      have := huniq y (by simp [hy]) hpy
      exact hl.1 (this ▸ hy)
    · have hcl : c ∈ l := by
        rcases List.mem_cons.1 hc with h | h
        · exact absurd h.symm hx
        · exact h
      have hpx : ¬ p x = true := fun h => hx (huniq x (by simp) h)
      rw [List.filter_cons, if_neg hpx]
      exact ih hl.2 hcl (fun c' hc' => huniq c' (by simp [hc']))

/-- on well-formed dimensions every array element is visited once: the product of the visits is the one factor -/
theorem visitProd_canon {d : Dims} (wf : d.WF) (f : Key → K) {c : Key} (hc : c ∈ d.canon) :
    visitProd d.key f d.canon (d.key c) = f c := by
  unfold visitProd
  rw [filter_eq_singleton (fun c' => decide (d.key c' = d.key c)) d.canon c (canon_nodup d) hc (by simp)
    (fun c' hc' h => key_injOn_canon wf hc' hc (by simpa using h))]
  simp

/-- elements outside the allocated range are not touched -/
theorem visitProd_of_not_mem (key : Key → Key) (f : Key → K) (cs : List Key) (k : Key) (h : ∀ c ∈ cs, key c ≠ k) :
    visitProd key f cs k = 1 := by
  unfold visitProd
  rw [List.filter_eq_nil_iff.2 (fun c hc => by simpa using h c hc)]
  simp

/-! ### `apply_efficiencies` -/

theorem mem_dets {d : Dims} {x : Int × Int} : x ∈ d.dets ↔ (0 ≤ x.1 ∧ x.1 ≤ d.R - 1) ∧ (0 ≤ x.2 ∧ x.2 ≤ d.N - 1) := by
  obtain ⟨ra, a⟩ := x
  unfold Dims.dets
  simp only [List.mem_flatMap, List.mem_map, mem_intRange, Prod.mk.injEq]
  constructor
  · rintro ⟨ra', h1, a', h2, rfl, rfl⟩
    exact ⟨h1, h2⟩
  · rintro ⟨h1, h2⟩
    exact ⟨ra, h1, a, h2, rfl, rfl⟩

/-- the efficiency factor of a loop index tuple is non-zero when the efficiencies of all detectors are -/
theorem effFactor_ne_zero {d : Dims} (wf : d.WF) (eff : Tab K) (hne : ∀ x ∈ d.dets, eff.get x ≠ 0) {c : Key} (hc : c ∈ d.canon) :
    effFactor d eff c ≠ 0 := by
  obtain ⟨⟨h1, h2, h3, h4, _, _, h7, h8, h9, h10, _⟩, _⟩ := inWindow_of_mem_canon wf hc
  unfold effFactor
  exact mul_ne_zero (hne _ (mem_dets.2 ⟨⟨h1, by omega⟩, ⟨h7, by omega⟩⟩)) (hne _ (mem_dets.2 ⟨⟨h3, by omega⟩, ⟨h9, by omega⟩⟩))

theorem applyEff_unapply {d : Dims} (wf : d.WF) (F : Fan K) (eff : Tab K) (hne : ∀ x ∈ d.dets, eff.get x ≠ 0) (k : Key) :
    (applyEff d (applyEff d F eff true) eff false).get k = F.get k := by
  unfold applyEff
  exact factorFold_unapply_apply _ _ _ _ (fun c hc => effFactor_ne_zero wf eff hne hc) k

theorem applyEff_apply_of_unapply {d : Dims} (wf : d.WF) (F : Fan K) (eff : Tab K) (hne : ∀ x ∈ d.dets, eff.get x ≠ 0) (k : Key) :
    (applyEff d (applyEff d F eff false) eff true).get k = F.get k := by
  unfold applyEff
  exact factorFold_apply_unapply _ _ _ _ (fun c hc => effFactor_ne_zero wf eff hne hc) k

/-- array-element form: the element addressed by the loop indices `c` is multiplied by `eff[ra][a] * eff[rb][b % N]` -/
theorem applyEff_get_key {d : Dims} (wf : d.WF) (F : Fan K) (eff : Tab K) {c : Key} (hc : c ∈ d.canon) :
    (applyEff d F eff true).get (d.key c) = F.get (d.key c) * effFactor d eff c := by
  unfold applyEff
  rw [factorFold_true, visitProd_canon wf _ hc]

/-- **each detector-pair entry is multiplied by the product of the factors of its two detectors** (whichever detector is
named first, any pair inside the window). -/
theorem applyEff_at {d : Dims} (wf : d.WF) (F : Fan K) (eff : Tab K) {ra a rb b : Int} (h : d.inWindow ra a rb b) :
    (applyEff d F eff true).at d ra a rb b = F.at d ra a rb b * (eff.get (ra, a) * eff.get (rb, b)) := by
  obtain ⟨c, hc, hkey, hcoords⟩ := exists_canon_of_inWindow wf h
  unfold Fan.at
  rw [← hkey, applyEff_get_key wf F eff hc]
  unfold effFactor
  rcases hcoords with ⟨e1, e2, e3, e4⟩ | ⟨e1, e2, e3, e4⟩
  · rw [e1, e2, e3, e4]
  · rw [e1, e2, e3, e4, mul_comm (eff.get (rb, b))]

theorem unapplyEff_at {d : Dims} (wf : d.WF) (F : Fan K) (eff : Tab K) {ra a rb b : Int} (h : d.inWindow ra a rb b) :
    (applyEff d F eff false).at d ra a rb b = F.at d ra a rb b / (eff.get (ra, a) * eff.get (rb, b)) := by
  obtain ⟨c, hc, hkey, hcoords⟩ := exists_canon_of_inWindow wf h
  unfold Fan.at
  rw [← hkey]
  unfold applyEff
  rw [factorFold_false, visitProd_canon wf _ hc]
  unfold effFactor
  rcases hcoords with ⟨e1, e2, e3, e4⟩ | ⟨e1, e2, e3, e4⟩
  · rw [e1, e2, e3, e4]
  · rw [e1, e2, e3, e4, mul_comm (eff.get (rb, b))]

/-! ### `apply_block_norm`, `apply_geo_norm` -/

theorem applyBlock_unapply {d bd : Dims} (F blk : Fan K) (hne : ∀ c ∈ d.canon, blockFactor d bd blk c ≠ 0) (k : Key) :
    (applyBlock d bd (applyBlock d bd F blk true) blk false).get k = F.get k := by
  unfold applyBlock
  exact factorFold_unapply_apply _ _ _ _ hne k

theorem applyBlock_get_key {d bd : Dims} (wf : d.WF) (F blk : Fan K) {c : Key} (hc : c ∈ d.canon) :
    (applyBlock d bd F blk true).get (d.key c) = F.get (d.key c) * blockFactor d bd blk c := by
  unfold applyBlock
  rw [factorFold_true, visitProd_canon wf _ hc]

/-- the table `work` of `apply_geo_norm` is the same for `apply = true` and `false`, so un-applying restores the data
whenever every factor that is used is non-zero. -/
theorem applyGeo_unapply {d : Dims} {g : GeoDims} (F geo : Fan K) (hne : ∀ c ∈ d.canon, geoFactor d (geoWork d g geo) c ≠ 0)
    (k : Key) : (applyGeo d g (applyGeo d g F geo true) geo false).get k = F.get k := by
  unfold applyGeo
  exact factorFold_unapply_apply _ _ _ _ hne k

theorem applyGeo_get_key {d : Dims} {g : GeoDims} (wf : d.WF) (F geo : Fan K) {c : Key} (hc : c ∈ d.canon) :
    (applyGeo d g F geo true).get (d.key c) = F.get (d.key c) * geoFactor d (geoWork d g geo) c := by
  unfold applyGeo
  rw [factorFold_true, visitProd_canon wf _ hc]

end
end StirVerif.C20
