import Std.Data.HashMap
/-!
# C20 — component-based normalisation (`stir/ML_norm.h`, `buildblock/ML_norm.cxx`): executable model

Core Lean only.  One `def` per C++ function that matters; the C++ name and source line are in the doc comment.
The code is transcribed as it is: loops are `List.foldl`s over the index lists the C++ loops run through, in the
same order; `a / b`, `a % b` on `int` are `Int.tdiv`, `Int.tmod`; the `assert`s of the C++ (compiled out in the
baseline) are *not* modelled as checks; `error(...)` is `Except.error`.

Numbers: everything that carries values is generic in the number type `K` (executed at `Rat` — every `float` is a
dyadic rational — and, where a sweep would make exact rationals explode or `log` is needed, at `Float`; the theorems
instantiate the same text at an arbitrary field / at `ℝ`).

Storage: `FanProjData` is a jagged `Array<4,float>` addressed through `operator()(ra,a,rb,b)`, which maps the
*logical* detector pair to a *storage* index `[·][·][·][·]` (only half of the ring pairs are stored).  The model keeps
the storage index map (`Dims.storeKey`) and represents the array by a finite map from storage indices to values
(`Fan K`, default `0` = the constructor's `fill(0)`); out-of-range accesses (undefined behaviour in the C++, the
range `assert`s are compiled out) are simply other keys of the map — that they do not happen is a theorem
(`C20_storeKey_allocated`), not a check.
-/
namespace StirVerif.C20

/-! ## loops -/

/-- `[lo, lo+1, …, hi]` (empty when `hi < lo`): the index list of `for (int x = lo; x <= hi; ++x)` -/
def intRange (lo hi : Int) : List Int := (List.range (hi + 1 - lo).toNat).map (fun (i : Nat) => lo + (i : Int))

/-! ## gap index maps -/

/-- `x_in_block = x % crystals_per_block; if (x_in_block >= num_physical_crystals_per_block) continue;`
(ML_norm.cxx:1110-1113, 1116-1118, 1121-1123, 1126-1128; identical text in `set_fan_data_add_gaps_help` :1218-1236),
with `num_physical = crystals_per_block - num_virtual` (:1077-1080). -/
def isVirtual (x cpb v : Int) : Bool := decide (Int.tmod x cpb ≥ cpb - v)

/-- `new_x = x - (x / crystals_per_block) * num_virtual_crystals_per_block` (ML_norm.cxx:1114, 1119, 1124, 1129). -/
def removeGap (x cpb v : Int) : Int := x - (Int.tdiv x cpb) * v

/-- Inverse of `removeGap` on physical crystals (not in the C++; used to state losslessness):
`y + (y / num_physical_crystals_per_block) * num_virtual`. -/
def addGap (y cpb v : Int) : Int := y + (Int.tdiv y (cpb - v)) * v

/-! ## scanner / projection-data numbers read by the code -/

/-- what the functions read from `Scanner` and `ProjDataInfo` -/
structure Scn where
  /-- `get_num_detectors_per_ring()` (virtual crystals included) -/
  N : Int
  /-- `get_num_rings()` (virtual crystals included) -/
  R : Int
  /-- `get_num_transaxial_crystals_per_block()` (virtual included) -/
  tcpb : Int
  /-- `get_num_axial_crystals_per_block()` (virtual included) -/
  acpb : Int
  /-- `get_num_virtual_transaxial_crystals_per_block()` -/
  vt : Int
  /-- `get_num_virtual_axial_crystals_per_block()` -/
  va : Int
  /-- `get_num_transaxial_blocks()` -/
  ntb : Int
  /-- `get_num_axial_blocks()` -/
  nab : Int
  /-- `get_min_tangential_pos_num()` -/
  minTang : Int
  /-- `get_max_tangential_pos_num()` -/
  maxTang : Int
  /-- `get_max_segment_num()` -/
  maxSeg : Int
  /-- `dynamic_cast<const ProjDataInfoCylindrical*>` succeeds -/
  cyl : Bool := true
  /-- `get_view_mashing_factor()` -/
  viewMash : Int := 1
  /-- `get_max_ring_difference(0)` -/
  maxRd0 : Int := 0
  /-- `is_tof_data()` -/
  tof : Bool := false
deriving Repr

/-- dimensions of a `FanProjData` (members `num_rings`, `num_detectors_per_ring`, `max_ring_diff`, `half_fan_size`) -/
structure Dims where
  R : Int
  N : Int
  md : Int
  h : Int
deriving Repr, BEq, DecidableEq

/-- `FanProjData::FanProjData(num_rings, num_detectors_per_ring, max_ring_diff, fan_size)` (ML_norm.cxx:723-728):
`half_fan_size(fan_size / 2)`. -/
def Dims.ofCtor (R N md fanSize : Int) : Dims := ⟨R, N, md, Int.tdiv fanSize 2⟩

/-- `get_fan_info` (ML_norm.cxx:973-995): `(num_rings, num_detectors_per_ring, max_ring_diff, fan_size)`;
the three `error(...)` branches in the order of the code. -/
def getFanInfo (s : Scn) : Except String (Int × Int × Int × Int) :=
  if !s.cyl then .error "err"
  else if s.viewMash > 1 then .error "err"
  else if s.maxRd0 > 0 then .error "err"
  else
    let halfFan := min s.maxTang (-s.minTang)
    .ok (s.R, s.N, s.maxSeg, 2 * halfFan + 1)

/-- dimensions of the `FanProjData` made by `make_fan_data_remove_gaps_help` (ML_norm.cxx:1082-1090) from the
numbers of `get_fan_info`. -/
def physDims (s : Scn) (maxDelta fanSize : Int) : Dims :=
  let nBlocksInFan := Int.tdiv fanSize s.tcpb
  let newFanSize := fanSize - nBlocksInFan * s.vt
  let newHalfFan := Int.tdiv newFanSize 2
  let nAxBlocksInMaxDelta := Int.tdiv maxDelta s.acpb
  let newMaxDelta := maxDelta - nAxBlocksInMaxDelta * s.va
  let nPhysDets := s.N - s.ntb * s.vt
  let nPhysRings := s.R - (s.nab - 1) * s.va
  Dims.ofCtor nPhysRings nPhysDets newMaxDelta (2 * newHalfFan + 1)

/-- `make_fan_data_remove_gaps` (ML_norm.cxx:1137-1165) up to the construction of the fan data: TOF check, then
`get_fan_info`, then the dimensions. -/
def fanDimsOf (s : Scn) : Except String Dims :=
  if s.tof then .error "err"
  else match getFanInfo s with
    | .error e => .error e
    | .ok (_, _, md, fs) => .ok (physDims s md fs)

/-! ## `FanProjData`: index ranges and the storage map -/

/-- `get_min_b(a)`: first index of the innermost dimension, `a + num_detectors_per_ring/2 - half_fan_size` (:746, :857) -/
def Dims.minB (d : Dims) (a : Int) : Int := a + Int.tdiv d.N 2 - d.h
/-- `get_max_b(a)` (:746, :863) -/
def Dims.maxB (d : Dims) (a : Int) : Int := a + Int.tdiv d.N 2 + d.h
/-- `get_min_rb(ra) = max(ra - max_ring_diff, 0)` (:843-845) -/
def Dims.minRb (d : Dims) (ra : Int) : Int := max (ra - d.md) 0
/-- `get_max_rb(ra)`: last index of `[ra][·]`, `min(ra + max_ring_diff, num_rings - 1)` (:738, :851) -/
def Dims.maxRb (d : Dims) (ra : Int) : Int := min (ra + d.md) (d.R - 1)
/-- first stored `rb` of `[ra][a]`: `max(ra, min_rb)` (:743) -/
def Dims.loRb (d : Dims) (ra : Int) : Int := max ra (d.minRb ra)

/-- a storage index `[k1][k2][k3][k4]` of the underlying `Array<4,float>` -/
abbrev Key := Int × Int × Int × Int

/-- `FanProjData::operator()(ra, a, rb, b)` (ML_norm.cxx:764-782): the storage index that is accessed. -/
def Dims.storeKey (d : Dims) (ra a rb b : Int) : Key :=
  if ra < rb then (ra, Int.tmod a d.N, rb, if b < d.minB a then b + d.N else b)
  else (rb, Int.tmod b d.N, ra, if a < d.minB (Int.tmod b d.N) then a + d.N else a)

/-- the index range allocated by the constructor (ML_norm.cxx:733-749) -/
def Dims.allocated (d : Dims) (k : Key) : Bool :=
  decide (0 ≤ k.1 ∧ k.1 ≤ d.R - 1 ∧ 0 ≤ k.2.1 ∧ k.2.1 ≤ d.N - 1 ∧
          d.loRb k.1 ≤ k.2.2.1 ∧ k.2.2.1 ≤ d.maxRb k.1 ∧ d.minB k.2.1 ≤ k.2.2.2 ∧ k.2.2.2 ≤ d.maxB k.2.1)

/-- `FanProjData::is_in_data(ra, a, rb, b)` (ML_norm.cxx:784-795) -/
def Dims.isInData (d : Dims) (ra a rb b : Int) : Bool :=
  if rb < d.loRb ra || rb > d.maxRb ra then false
  else if b ≥ d.minB a then decide (b ≤ d.maxB a)
  else decide (b + d.N ≤ d.maxB a)

/-- the index list of the loop nest used by every function below
(`for ra = get_min_ra()..get_max_ra(); for a = get_min_a()..get_max_a(); for rb = max(ra, get_min_rb(ra))..get_max_rb(ra);
for b = get_min_b(a)..get_max_b(a)`, e.g. ML_norm.cxx:1417-1421) — `b` is *not* reduced mod `N`. -/
def Dims.canon (d : Dims) : List Key :=
  (intRange 0 (d.R - 1)).flatMap fun ra =>
    (intRange 0 (d.N - 1)).flatMap fun a =>
      (intRange (max ra (d.minRb ra)) (d.maxRb ra)).flatMap fun rb =>
        (intRange (d.minB a) (d.maxB a)).map fun b => (ra, a, rb, b)

/-! ## value containers -/

/-- the 4-dimensional array behind a `FanProjData` / `GeoData3D`: storage index ↦ value, `0` where nothing was written -/
structure Fan (K : Type) where
  m : Std.HashMap Key K := {}

/-- a 2-dimensional array `[ring][detector]` (`DetectorEfficiencies`, fan sums) -/
structure Tab (K : Type) where
  m : Std.HashMap (Int × Int) K := {}

section values
variable {K : Type}

def Fan.get [OfNat K 0] (F : Fan K) (k : Key) : K := F.m.getD k 0
def Fan.set (F : Fan K) (k : Key) (v : K) : Fan K := ⟨F.m.insert k v⟩
def Tab.get [OfNat K 0] (T : Tab K) (k : Int × Int) : K := T.m.getD k 0
def Tab.set (T : Tab K) (k : Int × Int) (v : K) : Tab K := ⟨T.m.insert k v⟩

/-- read through `FanProjData::operator()` -/
def Fan.at [OfNat K 0] (F : Fan K) (d : Dims) (ra a rb b : Int) : K := F.get (d.storeKey ra a rb b)
/-- write through `FanProjData::operator()` -/
def Fan.put (F : Fan K) (d : Dims) (ra a rb b : Int) (v : K) : Fan K := F.set (d.storeKey ra a rb b) v

/-! ## projection data ↔ fan data -/

/-- a detector pair as returned by `get_det_pair_for_bin(a, ra, b, rb, bin)` (indices include virtual crystals) -/
structure DetPair where
  a : Int
  ra : Int
  b : Int
  rb : Int
deriving Repr, BEq, DecidableEq

/-- the body of the bin loop of `make_fan_data_remove_gaps_help` / `set_fan_data_add_gaps_help`
(ML_norm.cxx:1110-1129 / 1218-1237): `none` = one of the four `continue`s (a crystal of the pair is virtual), otherwise
`(new_ra, new_a, new_rb, new_b)`. -/
def newCoords (s : Scn) (p : DetPair) : Option Key :=
  if isVirtual p.a s.tcpb s.vt then none
  else
    let newA := removeGap p.a s.tcpb s.vt
    if isVirtual p.ra s.acpb s.va then none
    else
      let newRa := removeGap p.ra s.acpb s.va
      if isVirtual p.b s.tcpb s.vt then none
      else
        let newB := removeGap p.b s.tcpb s.vt
        if isVirtual p.rb s.acpb s.va then none
        else
          let newRb := removeGap p.rb s.acpb s.va
          some (newRa, newA, newRb, newB)

/-- one bin of the loop of `make_fan_data_remove_gaps_help` (ML_norm.cxx:1131-1132):
`fan_data(new_ra,new_a,new_rb,new_b) = fan_data(new_rb,new_b,new_ra,new_a) = value` -/
def makeFanStep (s : Scn) (d : Dims) (F : Fan K) (pv : DetPair × K) : Fan K :=
  match newCoords s pv.1 with
  | none => F
  | some (nra, na, nrb, nb) => (F.put d nrb nb nra na pv.2).put d nra na nrb nb pv.2

/-- `make_fan_data_remove_gaps_help` (ML_norm.cxx:1053-1135).  `bins` = the bins of the loop nest
(segment, axial position, view `0..N/2-1`, tangential position `-half_fan_size..half_fan_size`) in loop order, each
with the detector pair the geometry gives it (`get_det_pair_for_bin`, property C01 — a parameter here) and its value. -/
def makeFan (s : Scn) (d : Dims) (bins : List (DetPair × K)) : Fan K :=
  bins.foldl (makeFanStep s d) {}

/-- `set_fan_data_add_gaps_help` (ML_norm.cxx:1169-1244): the value written to each bin of the same loop nest. -/
def setFan [OfNat K 0] (s : Scn) (d : Dims) (F : Fan K) (gap : K) (bins : List DetPair) : List K :=
  bins.map fun p =>
    match newCoords s p with
    | none => gap
    | some (nra, na, nrb, nb) => F.at d nra na nrb nb

/-! ## applying factors -/

/-- `if (x == 0) continue; if (apply) x *= f; else x /= f;` -/
def applyFactor [OfNat K 0] [BEq K] [Mul K] [Div K] (apply : Bool) (v f : K) : K :=
  if v == 0 then v else if apply then v * f else v / f

/-- the storage index addressed by an index tuple of the loop nest -/
def Dims.key (d : Dims) (c : Key) : Key := d.storeKey c.1 c.2.1 c.2.2.1 c.2.2.2

/-- body of the loop nest of the three `apply_*` functions:
`if (fan_data(ra,a,rb,b) == 0) continue; if (apply) fan_data(ra,a,rb,b) *= f; else fan_data(ra,a,rb,b) /= f;`
with the factor `f` a function of the loop indices. -/
def factorStep [OfNat K 0] [BEq K] [Mul K] [Div K] (key : Key → Key) (f : Key → K) (apply : Bool) (F : Fan K) (c : Key) : Fan K :=
  F.set (key c) (applyFactor apply (F.get (key c)) (f c))

/-- the factor of `apply_efficiencies`: `efficiencies[ra][a] * efficiencies[rb][b % num_detectors_per_ring]` (ML_norm.cxx:1426) -/
def effFactor [OfNat K 0] [Mul K] (d : Dims) (eff : Tab K) (c : Key) : K :=
  eff.get (c.1, c.2.1) * eff.get (c.2.2.1, Int.tmod c.2.2.2 d.N)

/-- `apply_efficiencies(FanProjData&, const DetectorEfficiencies&, bool apply)` (ML_norm.cxx:1413-1430) -/
def applyEff [OfNat K 0] [BEq K] [Mul K] [Div K] (d : Dims) (F : Fan K) (eff : Tab K) (apply : Bool) : Fan K :=
  d.canon.foldl (factorStep d.key (effFactor d eff) apply) F

/-- the factor of `apply_block_norm`: `block_data(ra / num_axial_crystals_per_block, a / num_tangential_crystals_per_block,
rb / num_axial_crystals_per_block, b / num_tangential_crystals_per_block)` (ML_norm.cxx:1295-1298), the crystals per block
computed as `num_axial_detectors / num_axial_blocks` etc. (:1280-1282) -/
def blockFactor [OfNat K 0] (d bd : Dims) (blk : Fan K) (c : Key) : K :=
  let acpb := Int.tdiv d.R bd.R
  let tcpb := Int.tdiv d.N bd.N
  blk.at bd (Int.tdiv c.1 acpb) (Int.tdiv c.2.1 tcpb) (Int.tdiv c.2.2.1 acpb) (Int.tdiv c.2.2.2 tcpb)

/-- `apply_block_norm(FanProjData&, const BlockData3D&, bool apply)` (ML_norm.cxx:1273-1305); `bd` = dimensions of the
block data (itself a `FanProjData` over blocks). -/
def applyBlock [OfNat K 0] [BEq K] [Mul K] [Div K] (d bd : Dims) (F : Fan K) (blk : Fan K) (apply : Bool) : Fan K :=
  d.canon.foldl (factorStep d.key (blockFactor d bd blk) apply) F

/-- dimensions of a `GeoData3D` (members `num_axial_crystals_per_block`, `half_num_transaxial_crystals_per_block`,
`num_rings`, `num_detectors_per_ring`) -/
structure GeoDims where
  acpb : Int
  half : Int
  R : Int
  N : Int
deriving Repr, BEq, DecidableEq

/-- `GeoData3D::operator()(ra, a, rb, b)` (ML_norm.cxx:512-530): `[ra][a % N][rb][b < get_min_b(a) ? b + N : b]`,
`get_min_b(a) = a` (index range `a .. a+N-1`, :469). -/
def GeoDims.storeKey (g : GeoDims) (ra a rb b : Int) : Key :=
  (ra, Int.tmod a g.N, rb, if b < a then b + g.N else b)

/-- the loop nest over the geometric factors (`ra < num_axial_crystals_per_block`, `a < num_transaxial_crystals_per_block/2`,
`rb = max(ra, get_min_rb(ra))..get_max_rb(ra)`, `b = get_min_b(a)..get_max_b(a)` of the *fan* data; e.g. :1352-1356) -/
def geoLoop (d : Dims) (g : GeoDims) : List Key :=
  let tcpb := g.half * 2
  (intRange 0 (g.acpb - 1)).flatMap fun ra =>
    (intRange 0 (Int.tdiv tcpb 2 - 1)).flatMap fun a =>
      (intRange (max ra (d.minRb ra)) (d.maxRb ra)).flatMap fun rb =>
        (intRange (d.minB a) (d.maxB a)).map fun b => (ra, a, rb, b)

/-- the block translations `(axial_block_num, transaxial_block_num)` of the inner loops (:1361-1364) -/
def blockShifts (d : Dims) (g : GeoDims) : List (Int × Int) :=
  let tcpb := g.half * 2
  let ntb := Int.tdiv d.N tcpb
  let nab := Int.tdiv d.R g.acpb
  (intRange 0 (nab - 1)).flatMap fun axb => (intRange 0 (ntb - 1)).map fun trb => (axb, trb)

/-- first part of `apply_geo_norm` (ML_norm.cxx:1349-1395): the table `work` of factors per fan entry, filled from the
geometric factors by block translation and the two mirror symmetries (later writes overwrite earlier ones). -/
def geoWork [OfNat K 0] (d : Dims) (g : GeoDims) (geo : Fan K) : Fan K :=
  let tcpb := g.half * 2
  (geoLoop d g).foldl (fun W c =>
    let (ra, a, rb, b) := c
    (blockShifts d g).foldl (fun W sh =>
      let (axb, trb) := sh
      let tinc := trb * tcpb
      let na := Int.tmod (a + tinc) d.N
      let nb := Int.tmod (b + tinc) d.N
      let ainc := axb * g.acpb
      let nra := ra + ainc
      let nrb := rb + ainc
      let ma := d.N - 1 - na
      let mb := Int.tmod (2 * d.N - 1 - nb) d.N
      let mra := d.R - 1 - nra
      let mrb := d.R - 1 - nrb
      let v := geo.get (g.storeKey ra a rb (Int.tmod b d.N))
      let W := if d.isInData nra na nrb nb then W.put d nra na nrb nb v else W
      let W := if d.isInData nra ma nrb mb then W.put d nra ma nrb mb v else W
      let W := if d.isInData mra na mrb nb then W.put d mra na mrb nb v else W
      let W := if d.isInData mra ma mrb mb then W.put d mra ma mrb mb v else W
      W) W) {}

/-- the factor of the second part of `apply_geo_norm`: `work(ra, a, rb, b % num_transaxial_detectors)` (ML_norm.cxx:1407) -/
def geoFactor [OfNat K 0] (d : Dims) (W : Fan K) (c : Key) : K :=
  W.at d c.1 c.2.1 c.2.2.1 (Int.tmod c.2.2.2 d.N)

/-- `apply_geo_norm(FanProjData&, const GeoData3D&, bool apply)` (ML_norm.cxx:1337-1411) -/
def applyGeo [OfNat K 0] [BEq K] [Mul K] [Div K] (d : Dims) (g : GeoDims) (F : Fan K) (geo : Fan K) (apply : Bool) : Fan K :=
  d.canon.foldl (factorStep d.key (geoFactor d (geoWork d g geo)) apply) F

/-! ## sums -/

/-- `FanProjData::sum(ra, a)` (ML_norm.cxx:879-888) -/
def fanSum [OfNat K 0] [Add K] (d : Dims) (F : Fan K) (ra a : Int) : K :=
  (intRange (d.minRb ra) (d.maxRb ra)).foldl (fun s rb =>
    (intRange (d.minB a) (d.maxB a)).foldl (fun s b => s + F.at d ra a rb (Int.tmod b d.N)) s) 0

/-- all detectors `(ra, a)` in the order of `for ra … for a …` -/
def Dims.dets (d : Dims) : List (Int × Int) :=
  (intRange 0 (d.R - 1)).flatMap fun ra => (intRange 0 (d.N - 1)).map fun a => (ra, a)

/-- `make_fan_sum_data(Array<2,float>&, const FanProjData&)` (ML_norm.cxx:1432-1438) -/
def makeFanSums [OfNat K 0] [Add K] (d : Dims) (F : Fan K) : Tab K :=
  d.dets.foldl (fun T ra_a => T.set ra_a (fanSum d F ra_a.1 ra_a.2)) {}

/-- `make_block_data(BlockData3D&, const FanProjData&)` (ML_norm.cxx:1602-1627) -/
def makeBlock [OfNat K 0] [Add K] (d bd : Dims) (F : Fan K) : Fan K :=
  let acpb := Int.tdiv d.R bd.R
  let tcpb := Int.tdiv d.N bd.N
  d.canon.foldl (fun B c =>
    let (ra, a, rb, b) := c
    let (i, j, k, l) := (Int.tdiv ra acpb, Int.tdiv a tcpb, Int.tdiv rb acpb, Int.tdiv b tcpb)
    B.put bd i j k l (B.at bd i j k l + F.at d ra a rb b)) {}

/-- `if (ra != mra || rb != mrb)` (ML_norm.cxx:1562): are the two axially mirrored LORs added as well?
(All four terms unless the LOR is its own axial mirror, i.e. both rings are the central ring.) -/
def Dims.fourTerms (d : Dims) (ra rb : Int) : Bool := ra != d.R - 1 - ra || rb != d.R - 1 - rb

/-- first part of `make_geo_data` (ML_norm.cxx:1547-1567): the mirror-summed copy `work` -/
def geoMirrorSum [OfNat K 0] [Add K] (d : Dims) (F : Fan K) : Fan K :=
  d.canon.foldl (fun W c =>
    let (ra, a, rb, b) := c
    let ma := d.N - 1 - a
    let mb := Int.tmod (2 * d.N - 1 - b) d.N
    let mra := d.R - 1 - ra
    let mrb := d.R - 1 - rb
    if d.fourTerms ra rb then
      W.put d ra a rb b (F.at d ra a rb b + F.at d ra ma rb mb + F.at d mra a mrb b + F.at d mra ma mrb mb)
    else
      W.put d ra a rb b (F.at d ra a rb b + F.at d ra ma rb mb)) {}

/-- `make_geo_data(GeoData3D&, const FanProjData&)` (ML_norm.cxx:1534-1600) -/
def makeGeo [OfNat K 0] [Add K] (d : Dims) (g : GeoDims) (F : Fan K) : Fan K :=
  let tcpb := g.half * 2
  let work := geoMirrorSum d F
  (geoLoop d g).foldl (fun G c =>
    let (ra, a, rb, b) := c
    (blockShifts d g).foldl (fun G sh =>
      let (axb, trb) := sh
      let tinc := trb * tcpb
      let na := Int.tmod (a + tinc) d.N
      let nb := Int.tmod (b + tinc) d.N
      let ainc := axb * g.acpb
      let nra := ra + ainc
      let nrb := rb + ainc
      if d.isInData nra na nrb nb then
        let k := g.storeKey ra a rb (Int.tmod b d.N)
        G.set k (G.get k + work.at d nra na nrb nb)
      else G) G) {}

/-! ## the maximum-likelihood iterations -/

/-- the denominator loop of `iterate_efficiencies` (ML_norm.cxx:1644-1647) -/
def effDenominator [OfNat K 0] [Add K] [Mul K] (d : Dims) (model : Fan K) (eff : Tab K) (ra a : Int) : K :=
  (intRange (d.minRb ra) (d.maxRb ra)).foldl (fun s rb =>
    (intRange (d.minB a) (d.maxB a)).foldl (fun s b => s + eff.get (rb, Int.tmod b d.N) * model.at d ra a rb b) s) 0

/-- body of the detector loop of `iterate_efficiencies` (ML_norm.cxx:1639-1650): the array is updated **in place**, so
detectors later in the loop see the new values of earlier ones. -/
def effStep [OfNat K 0] [BEq K] [Add K] [Mul K] [Div K] (d : Dims) (sums : Tab K) (model : Fan K) (eff : Tab K)
    (ra_a : Int × Int) : Tab K :=
  if sums.get ra_a == 0 then eff.set ra_a 0
  else eff.set ra_a (sums.get ra_a / effDenominator d model eff ra_a.1 ra_a.2)

/-- `iterate_efficiencies(DetectorEfficiencies&, const Array<2,float>& data_fan_sums, const FanProjData& model)`
(ML_norm.cxx:1629-1651) -/
def iterateEff [OfNat K 0] [BEq K] [Add K] [Mul K] [Div K] (d : Dims) (eff sums : Tab K) (model : Fan K) : Tab K :=
  d.dets.foldl (effStep d sums model) eff

/-- `find_max()` of non-negative data that was `fill(0)`ed: maximum over the listed entries and `0` -/
def findMax [OfNat K 0] [LT K] [DecidableLT K] (vals : List K) : K :=
  vals.foldl (fun m v => if m < v then v else m) 0

/-- `(measured >= threshold || measured < 10000 * norm) ? measured / norm : 0` (ML_norm.cxx:1719-1722, 1738-1741) -/
def ratioOrZero [OfNat K 0] [OfNat K 10000] [LT K] [DecidableLT K] [Mul K] [Div K] (thr measured norm : K) : K :=
  if !(decide (measured < thr)) || decide (measured < 10000 * norm) then measured / norm else 0

/-- `iterate_block_norm(BlockData3D& norm, const BlockData3D& measured, const FanProjData& model)` (ML_norm.cxx:1726-1743) -/
def iterateBlock [OfNat K 0] [OfNat K 10000] [LT K] [DecidableLT K] [Add K] [Mul K] [Div K]
    (d bd : Dims) (measured : Fan K) (model : Fan K) : Fan K :=
  let norm := makeBlock d bd model
  let thr := findMax (bd.canon.map fun c => measured.at bd c.1 c.2.1 c.2.2.1 c.2.2.2) / 10000
  bd.canon.foldl (fun B c =>
    let (ra, a, rb, b) := c
    B.put bd ra a rb b (ratioOrZero thr (measured.at bd ra a rb b) (B.at bd ra a rb b))) norm

/-- `iterate_geo_norm(GeoData3D& norm, const GeoData3D& measured, const FanProjData& model)` (ML_norm.cxx:1700-1724) -/
def iterateGeo [OfNat K 0] [OfNat K 10000] [LT K] [DecidableLT K] [Add K] [Mul K] [Div K]
    (d : Dims) (g : GeoDims) (measured : Fan K) (model : Fan K) : Fan K :=
  let norm := makeGeo d g model
  let thr := findMax ((geoLoop d g).map fun c => measured.get (g.storeKey c.1 c.2.1 c.2.2.1 c.2.2.2)) / 10000
  (geoLoop d g).foldl (fun G c =>
    let (ra, a, rb, b) := c
    let k := g.storeKey ra a rb b
    G.set k (ratioOrZero thr (measured.get k) (G.get k))) norm

/-! ## Kullback-Leibler distance -/

/-- `KL(const double a, const double b, const double threshold_a)` (ML_norm.h:243-257):
`a <= threshold_a ? b : a*(log(a) - log(b)) + b - a`; `log` is a parameter. -/
def klTerm [LT K] [DecidableLT K] [Add K] [Sub K] [Mul K] (log : K → K) (a b thr : K) : K :=
  if !(decide (thr < a)) then b else a * (log a - log b) + b - a

/-- `KL(const FanProjData& d1, const FanProjData& d2, const double threshold)` (ML_norm.cxx:1745-1767), with the same
nesting of partial sums. -/
def klFan [OfNat K 0] [LT K] [DecidableLT K] [Add K] [Sub K] [Mul K] (log : K → K) (d : Dims) (F1 F2 : Fan K) (thr : K) : K :=
  (intRange 0 (d.R - 1)).foldl (fun sum ra =>
    sum + (intRange 0 (d.N - 1)).foldl (fun asum a =>
      asum + (intRange (max ra (d.minRb ra)) (d.maxRb ra)).foldl (fun rbsum rb =>
        rbsum + (intRange (d.minB a) (d.maxB a)).foldl (fun bsum b =>
          bsum + klTerm log (F1.at d ra a rb b) (F2.at d ra a rb b) thr) 0) 0) 0) 0

/-- Not in the C++ (specification helper): the Kullback-Leibler distance summed **once per detector pair** — the index
tuples of the loop nest with `rb > ra`, and for `rb = ra` only those with `a < b % N` (`(ra,a,ra,b)` and `(ra,b,ra,a)` are
the same LOR but two storage entries, both visited by the loop nest of `klFan`). -/
def klPairs [OfNat K 0] [LT K] [DecidableLT K] [Add K] [Sub K] [Mul K] (log : K → K) (d : Dims) (F1 F2 : Fan K) (thr : K) : K :=
  (d.canon.filter fun c => decide (c.1 < c.2.2.1) || decide (c.2.1 < Int.tmod c.2.2.2 d.N)).foldl
    (fun s c => s + klTerm log (F1.get (d.key c)) (F2.get (d.key c)) thr) 0

/-! ## the model-free versions (uniform model: every LOR of the window has model value 1) -/

/-- the inner double loop of `make_fan_sum_data(Array<2,float>&, const DetectorEfficiencies&, max_ring_diff, half_fan_size)`
(ML_norm.cxx:1526-1529) and of the model-free `iterate_efficiencies` (:1672-1676): `Σ_rb Σ_b efficiencies[rb][b % N]` over
`rb = max(ra - max_ring_diff, 0) .. min(ra + max_ring_diff, num_rings - 1)`, `b = a + N/2 - half_fan_size .. a + N/2 + half_fan_size`
(`num_rings`, `N` = the lengths of the fan-sum array). -/
def effDenominatorNM [OfNat K 0] [Add K] (d : Dims) (eff : Tab K) (ra a : Int) : K :=
  (intRange (d.minRb ra) (d.maxRb ra)).foldl (fun s rb =>
    (intRange (d.minB a) (d.maxB a)).foldl (fun s b => s + eff.get (rb, Int.tmod b d.N)) s) 0

/-- `make_fan_sum_data(Array<2,float>& data_fan_sums, const DetectorEfficiencies& efficiencies, const int max_ring_diff,
const int half_fan_size)` (ML_norm.cxx:1513-1532): `data_fan_sums[ra][a] = efficiencies[ra][a] * fan_sum`. -/
def makeFanSumsNM [OfNat K 0] [Add K] [Mul K] (d : Dims) (eff : Tab K) : Tab K :=
  d.dets.foldl (fun T ra_a => T.set ra_a (eff.get ra_a * effDenominatorNM d eff ra_a.1 ra_a.2)) {}

/-- body of the detector loop of the model-free `iterate_efficiencies` (ML_norm.cxx:1668-1678), in place -/
def effStepNM [OfNat K 0] [BEq K] [Add K] [Div K] (d : Dims) (sums : Tab K) (eff : Tab K) (ra_a : Int × Int) : Tab K :=
  if sums.get ra_a == 0 then eff.set ra_a 0
  else eff.set ra_a (sums.get ra_a / effDenominatorNM d eff ra_a.1 ra_a.2)

/-- `iterate_efficiencies(DetectorEfficiencies&, const Array<2,float>& data_fan_sums, const int max_ring_diff,
const int half_fan_size)` (ML_norm.cxx:1654-1698, "version without model") -/
def iterateEffNM [OfNat K 0] [BEq K] [Add K] [Div K] (d : Dims) (eff sums : Tab K) : Tab K :=
  d.dets.foldl (effStepNM d sums) eff

/-! ## `DetPairData`: the detector pairs of one sinogram pair (segment `±s` at one axial position)

`DetPairData` is a jagged `Array<2,float>` `[a][b]`, `a = 0..N-1`, `b = a + N/2 - h .. a + N/2 + h` (not reduced mod `N`),
addressed through `operator()(a,b)`.  The model keeps it in the same container as the 4-dimensional arrays, at index
`(0, a, 0, b)`.  The one-dimensional arrays (`Array<1,float>` efficiencies, fan sums) are `Tab`s at `(0, a)`, the two-dimensional
`GeoData` / `BlockData` (`Array<2,float>`) are `Tab`s at `(i, j)`. -/

/-- `num_detectors` and the half fan size of a `DetPairData` -/
structure DPDims where
  N : Int
  h : Int
deriving Repr, BEq, DecidableEq

/-- `make_det_pair_data_help(DetPairData&, const TProjDataInfo&, segment_num, ax_pos_num)` (ML_norm.cxx:147-170):
`fan_size = 2 * max(max_tangential_pos_num, -min_tangential_pos_num) + 1`, `half_fan_size = fan_size / 2`
(note `max` where `get_fan_info` has `min`). -/
def dpDimsOf (N minTang maxTang : Int) : DPDims := ⟨N, Int.tdiv (2 * max maxTang (-minTang) + 1) 2⟩

/-- `get_min_index(a)`: `a + num_detectors/2 - half_fan_size` (:166) -/
def DPDims.minB (d : DPDims) (a : Int) : Int := a + Int.tdiv d.N 2 - d.h
/-- `get_max_index(a)` (:166) -/
def DPDims.maxB (d : DPDims) (a : Int) : Int := a + Int.tdiv d.N 2 + d.h

/-- `DetPairData::operator()(a, b)` (ML_norm.cxx:59-69): `(*this)[a][b < get_min_index(a) ? b + num_detectors : b]` -/
def DPDims.storeKey (d : DPDims) (a b : Int) : Key := (0, a, 0, if b < d.minB a then b + d.N else b)

/-- `DetPairData::is_in_data(a, b)` (ML_norm.cxx:71-78) -/
def DPDims.isInData (d : DPDims) (a b : Int) : Bool :=
  if b ≥ d.minB a then decide (b ≤ d.maxB a) else decide (b + d.N ≤ d.maxB a)

/-- the loop nest `for a = get_min_index()..get_max_index(); for b = get_min_index(a)..get_max_index(a)` (e.g. :292-293),
as index tuples `(0, a, 0, b)` -/
def DPDims.canon (d : DPDims) : List Key :=
  (intRange 0 (d.N - 1)).flatMap fun a => (intRange (d.minB a) (d.maxB a)).map fun b => (0, a, 0, b)

/-- the array element addressed by an index tuple of the loop nest -/
def DPDims.key (d : DPDims) (c : Key) : Key := d.storeKey c.2.1 c.2.2.2

/-- read through `DetPairData::operator()` -/
def Fan.at2 [OfNat K 0] (F : Fan K) (d : DPDims) (a b : Int) : K := F.get (d.storeKey a b)
/-- write through `DetPairData::operator()` -/
def Fan.put2 (F : Fan K) (d : DPDims) (a b : Int) (v : K) : Fan K := F.set (d.storeKey a b) v

/-- one `(view, tangential position)` of the loop of `make_det_pair_data_help` (ML_norm.cxx:217-220):
`det_pair_data(det_num_a, det_num_b) = pos_sino[view][tang]; det_pair_data(det_num_b, det_num_a) = neg_sino[view][tang];`
`e = ((det_num_a, det_num_b), (pos value, neg value))`. -/
def makeDPStep (d : DPDims) (F : Fan K) (e : (Int × Int) × (K × K)) : Fan K :=
  (F.put2 d e.1.1 e.1.2 e.2.1).put2 d e.1.2 e.1.1 e.2.2

/-- `make_det_pair_data(DetPairData&, const ProjData&, segment_num, ax_pos_num)` (ML_norm.cxx:192-239).  `bins` = the loop
`view = 0..N/2-1`, `tang = min..max` in loop order, each with the detector pair the geometry gives it
(`get_det_num_pair_for_view_tangential_pos_num`, property C01 — a parameter here) and the values of the sinograms of
segment `+s` and `-s` (for `s = 0` the same sinogram, :205-206). -/
def makeDP (d : DPDims) (bins : List ((Int × Int) × (K × K))) : Fan K :=
  bins.foldl (makeDPStep d) {}

/-- `set_det_pair_data` (ML_norm.cxx:997-1049): the values written to `pos_sino[view][tang]` and — `if (segment_num != 0)` —
to `neg_sino[view][tang]`, for the same loop. -/
def setDP [OfNat K 0] (d : DPDims) (F : Fan K) (segNonzero : Bool) (bins : List (Int × Int)) : List (K × Option K) :=
  bins.map fun p => (F.at2 d p.1 p.2, if segNonzero then some (F.at2 d p.2 p.1) else none)

/-- the factor of `apply_efficiencies(DetPairData&, …)`: `efficiencies[a] * efficiencies[b % num_detectors]` (ML_norm.cxx:298) -/
def dpEffFactor [OfNat K 0] [Mul K] (d : DPDims) (eff : Tab K) (c : Key) : K :=
  eff.get (0, c.2.1) * eff.get (0, Int.tmod c.2.2.2 d.N)

/-- `apply_efficiencies(DetPairData&, const Array<1,float>&, bool apply)` (ML_norm.cxx:288-302) -/
def dpApplyEff [OfNat K 0] [BEq K] [Mul K] [Div K] (d : DPDims) (F : Fan K) (eff : Tab K) (apply : Bool) : Fan K :=
  d.canon.foldl (factorStep d.key (dpEffFactor d eff) apply) F

/-- the factor of `apply_block_norm(DetPairData&, …)`: `block_data[a / num_crystals_per_block][(b / num_crystals_per_block) % num_blocks]`,
`num_crystals_per_block = num_detectors / num_blocks` (ML_norm.cxx:244-246, 256) -/
def dpBlockFactor [OfNat K 0] (d : DPDims) (nb : Int) (blk : Tab K) (c : Key) : K :=
  let cpb := Int.tdiv d.N nb
  blk.get (Int.tdiv c.2.1 cpb, Int.tmod (Int.tdiv c.2.2.2 cpb) nb)

/-- `apply_block_norm(DetPairData&, const BlockData&, bool apply)` (ML_norm.cxx:241-260); `nb = block_data.get_length()` -/
def dpApplyBlock [OfNat K 0] [BEq K] [Mul K] [Div K] (d : DPDims) (nb : Int) (F : Fan K) (blk : Tab K) (apply : Bool) : Fan K :=
  d.canon.foldl (factorStep d.key (dpBlockFactor d nb blk) apply) F

/-- the index pair of the geometric factor of `apply_geo_norm(DetPairData&, …)` (ML_norm.cxx:273-282): translate to the first
block, mirror into its first half. -/
def dpGeoIndex (d : DPDims) (half : Int) (a b : Int) : Int × Int :=
  let cpb := half * 2
  let newa := Int.tmod a cpb
  let newb := b - (a - newa)
  if newa > cpb - 1 - newa then (cpb - 1 - newa, Int.tmod (2 * d.N + (-newb + cpb - 1)) d.N)
  else (newa, Int.tmod (2 * d.N + newb) d.N)

/-- the factor of `apply_geo_norm(DetPairData&, …)` -/
def dpGeoFactor [OfNat K 0] (d : DPDims) (half : Int) (geo : Tab K) (c : Key) : K :=
  geo.get (dpGeoIndex d half c.2.1 c.2.2.2)

/-- `apply_geo_norm(DetPairData&, const GeoData&, bool apply)` (ML_norm.cxx:262-286); `half = geo_data.get_length()` -/
def dpApplyGeo [OfNat K 0] [BEq K] [Mul K] [Div K] (d : DPDims) (half : Int) (F : Fan K) (geo : Tab K) (apply : Bool) : Fan K :=
  d.canon.foldl (factorStep d.key (dpGeoFactor d half geo) apply) F

/-- `DetPairData::sum(a)` (ML_norm.cxx:123-127): the sum of row `[a]` -/
def dpFanSum [OfNat K 0] [Add K] (d : DPDims) (F : Fan K) (a : Int) : K :=
  (intRange (d.minB a) (d.maxB a)).foldl (fun s b => s + F.get (0, a, 0, b)) 0

/-- `make_fan_sum_data(Array<1,float>&, const DetPairData&)` (ML_norm.cxx:304-309) -/
def dpMakeFanSums [OfNat K 0] [Add K] (d : DPDims) (F : Fan K) : Tab K :=
  (intRange 0 (d.N - 1)).foldl (fun T a => T.set (0, a) (dpFanSum d F a)) {}

/-- all index pairs `[i][j]`, `i < n`, `j < m` of an `Array<2,float>` -/
def grid (n m : Int) : List (Int × Int) :=
  (intRange 0 (n - 1)).flatMap fun i => (intRange 0 (m - 1)).map fun j => (i, j)

/-- first loop of `make_geo_data(GeoData&, const DetPairData&)` (ML_norm.cxx:323-328): the mirror-summed copy `work` -/
def dpMirrorSum [OfNat K 0] [Add K] (d : DPDims) (F : Fan K) : Fan K :=
  d.canon.foldl (fun W c =>
    let a := c.2.1
    let b := c.2.2.2
    W.put2 d a b (F.at2 d a b + F.at2 d (d.N - 1 - a) (Int.tmod (2 * d.N - 1 - b) d.N))) {}

/-- `make_geo_data(GeoData&, const DetPairData&)` (ML_norm.cxx:311-347); `half = geo_data.get_length()`; `cast` = `int → float`
(`geo_data /= 2 * num_blocks`). -/
def dpMakeGeo [OfNat K 0] [Add K] [Div K] (cast : Int → K) (d : DPDims) (half : Int) (F : Fan K) : Tab K :=
  let cpb := half * 2
  let nb := Int.tdiv d.N cpb
  let work := dpMirrorSum d F
  let G : Tab K := (intRange 0 (Int.tdiv cpb 2 - 1)).foldl (fun G ca =>
    (intRange (d.minB ca) (d.maxB ca)).foldl (fun G db =>
      (intRange 0 (nb - 1)).foldl (fun G blk =>
        let inc := blk * cpb
        let na := Int.tmod (ca + inc) d.N
        let nbb := Int.tmod (db + inc) d.N
        if d.isInData na nbb then G.set (ca, Int.tmod db d.N) (G.get (ca, Int.tmod db d.N) + work.at2 d na nbb) else G) G) G) {}
  (grid half d.N).foldl (fun G k => G.set k (G.get k / cast (2 * nb))) G

/-- `make_block_data(BlockData&, const DetPairData&)` (ML_norm.cxx:349-366); `nb = block_data.get_length()`
(`block_data /= square(num_crystals_per_block)`). -/
def dpMakeBlock [OfNat K 0] [Add K] [Div K] (cast : Int → K) (d : DPDims) (nb : Int) (F : Fan K) : Tab K :=
  let cpb := Int.tdiv d.N nb
  let B : Tab K := d.canon.foldl (fun B c =>
    let k := (Int.tdiv c.2.1 cpb, Int.tmod (Int.tdiv c.2.2.2 cpb) nb)
    B.set k (B.get k + F.at2 d c.2.1 c.2.2.2)) {}
  (grid nb nb).foldl (fun B k => B.set k (B.get k / cast (cpb * cpb))) B

/-- the denominator loop of `iterate_efficiencies(Array<1,float>&, …, const DetPairData& model)` (ML_norm.cxx:380-382) -/
def dpEffDenominator [OfNat K 0] [Add K] [Mul K] (d : DPDims) (model : Fan K) (eff : Tab K) (a : Int) : K :=
  (intRange (d.minB a) (d.maxB a)).foldl (fun s b => s + eff.get (0, Int.tmod b d.N) * model.at2 d a b) 0

/-- body of the detector loop (ML_norm.cxx:373-385), in place -/
def dpEffStep [OfNat K 0] [BEq K] [Add K] [Mul K] [Div K] (d : DPDims) (sums : Tab K) (model : Fan K) (eff : Tab K) (a : Int) : Tab K :=
  if sums.get (0, a) == 0 then eff.set (0, a) 0
  else eff.set (0, a) (sums.get (0, a) / dpEffDenominator d model eff a)

/-- `iterate_efficiencies(Array<1,float>& efficiencies, const Array<1,float>& data_fan_sums, const DetPairData& model)`
(ML_norm.cxx:368-386); `num_detectors = efficiencies.get_length()` is the `N` of `d`. -/
def dpIterateEff [OfNat K 0] [BEq K] [Add K] [Mul K] [Div K] (d : DPDims) (eff sums : Tab K) (model : Fan K) : Tab K :=
  (intRange 0 (d.N - 1)).foldl (dpEffStep d sums model) eff

/-- `iterate_geo_norm(GeoData& norm, const GeoData& measured, const DetPairData& model)` (ML_norm.cxx:388-403) -/
def dpIterateGeo [OfNat K 0] [OfNat K 10000] [LT K] [DecidableLT K] [Add K] [Mul K] [Div K] (cast : Int → K)
    (d : DPDims) (half : Int) (measured : Tab K) (model : Fan K) : Tab K :=
  let norm := dpMakeGeo cast d half model
  let cpb := half * 2
  let thr := findMax ((grid half d.N).map measured.get) / 10000
  (grid (Int.tdiv cpb 2) d.N).foldl (fun G k => G.set k (ratioOrZero thr (measured.get k) (G.get k))) norm

/-- `iterate_block_norm(BlockData& norm, const BlockData& measured, const DetPairData& model)` (ML_norm.cxx:405-420);
`num_blocks = norm_block_data.get_length()` -/
def dpIterateBlock [OfNat K 0] [OfNat K 10000] [LT K] [DecidableLT K] [Add K] [Mul K] [Div K] (cast : Int → K)
    (d : DPDims) (nb : Int) (measured : Tab K) (model : Fan K) : Tab K :=
  let norm := dpMakeBlock cast d nb model
  let thr := findMax ((grid nb nb).map measured.get) / 10000
  (grid nb nb).foldl (fun B k => B.set k (ratioOrZero thr (measured.get k) (B.get k))) norm

/-- `KL(const DetPairData& d1, const DetPairData& d2, const double threshold)` (ML_norm.cxx:422-434), same nesting of the
partial sums -/
def dpKL [OfNat K 0] [LT K] [DecidableLT K] [Add K] [Sub K] [Mul K] (log : K → K) (d : DPDims) (F1 F2 : Fan K) (thr : K) : K :=
  (intRange 0 (d.N - 1)).foldl (fun sum a =>
    sum + (intRange (d.minB a) (d.maxB a)).foldl (fun bsum b => bsum + klTerm log (F1.at2 d a b) (F2.at2 d a b) thr) 0) 0

end values
end StirVerif.C20
