import StirVerif.C20.ProofsStore
import StirVerif.C20.ProofsApply
import StirVerif.C20.ProofsIter
import StirVerif.C20.ProofsKL
import StirVerif.C20.ProofsPos
import Mathlib.Algebra.BigOperators.Group.Finset.Basic
import Mathlib.Algebra.BigOperators.Group.Finset.Sigma
import Mathlib.Data.Fintype.Sets
import Mathlib.Tactic.Ring
import Mathlib.Tactic.Linarith
/-! # C20 — the executable `iterate_efficiencies` refines the abstract coordinate-descent sweep

`ProofsKL.lean` proves, for an arbitrary finite detector type `ι` and symmetric data/model `y m : ι → ι → ℝ`, that a sweep of
coordinate updates (`effSweep`) does not increase `klObjective`.  Here the executable model is tied to it:

* detectors: `Det d` = the elements of `d.dets` (as a `Finset` coerced to a type);
* `y a b` = `data.at d ra a rb b` inside the fan / ring-difference window, `0` outside (`pairVal`), same for the model;
* `loop_sum_eq`: the doubly nested loop `for rb = get_min_rb(ra)..get_max_rb(ra); for b = get_min_b(a)..get_max_b(a)` of
  `FanProjData::sum` and of the denominator of `iterate_efficiencies` visits every detector in the window of `(ra,a)` exactly
  once (as `(rb, b % N)`), so both are sums over all detectors of the window-restricted values;
* `effStep_refines` / `sweep_refines`: one step of the in-place detector loop is `effUpdate`, the loop is `effSweep`;
* `klPairs_eq` / `klObjective_eq_two_mul_klPairs`: the loop nest filtered by `ra < rb ∨ a < b % N` names every unordered
  detector pair of the window exactly once, so `klObjective = 2 · klPairs`;
* `iterateEff_descends_klPairs`: the property.
-/
namespace StirVerif.C20
set_option linter.unusedSectionVars false
open Finset

noncomputable section

/-! ## detectors, window, window-restricted values -/

/-- the finite set of detectors `(ring, detector)` -/
def Dims.detSet (d : Dims) : Finset (Int × Int) := d.dets.toFinset

theorem mem_detSet {d : Dims} {x : Int × Int} : x ∈ d.detSet ↔ x ∈ d.dets := List.mem_toFinset

/-- the detectors as a finite type -/
abbrev Det (d : Dims) : Type := {x : Int × Int // x ∈ d.detSet}

/-- the detector pair `x`–`x'` is inside the fan / ring-difference window -/
def Dims.win (d : Dims) (x x' : Int × Int) : Prop := d.inWindow x.1 x.2 x'.1 x'.2

instance (d : Dims) (x x' : Int × Int) : Decidable (d.win x x') := by unfold Dims.win; infer_instance

/-- the value of the detector pair in a `FanProjData`, `0` outside the window -/
def pairVal (d : Dims) (F : Fan ℝ) (x x' : Int × Int) : ℝ := if d.win x x' then F.at d x.1 x.2 x'.1 x'.2 else 0

/-- the data / model as a function of two detectors -/
def yOf (d : Dims) (F : Fan ℝ) : Det d → Det d → ℝ := fun a b => pairVal d F a.1 b.1

/-- the efficiencies as a function of the detector -/
def epsOf (d : Dims) (T : Tab ℝ) : Det d → ℝ := fun a => T.get a.1

theorem win_symm {d : Dims} (wf : d.WF) {x x' : Int × Int} : d.win x x' ↔ d.win x' x :=
  ⟨fun h => inWindow_symm wf h, fun h => inWindow_symm wf h⟩

theorem not_win_self {d : Dims} (wf : d.WF) (x : Int × Int) : ¬ d.win x x := by
  have := wf.heven
  have := wf.hfan
  unfold Dims.win Dims.inWindow Dims.inFan Dims.minB Dims.maxB
  omega

theorem mem_dets_of_win {d : Dims} {x x' : Int × Int} (h : d.win x x') : x ∈ d.dets ∧ x' ∈ d.dets := by
  obtain ⟨h1, h2, h3, h4, _, _, h7, h8, h9, h10, _⟩ := h
  exact ⟨mem_dets.2 ⟨⟨h1, by omega⟩, ⟨h7, by omega⟩⟩, mem_dets.2 ⟨⟨h3, by omega⟩, ⟨h9, by omega⟩⟩⟩

/-- the hypotheses of the property give the hypotheses of the abstract descent theorem -/
theorem pairData_of_model {d : Dims} (wf : d.WF) (data model : Fan ℝ)
    (hpos : ∀ c ∈ d.canon, 0 ≤ data.get (d.key c) ∧ 0 < model.get (d.key c))
    (hsym : ∀ ra a rb b, d.inWindow ra a rb b →
      data.at d ra a rb b = data.at d rb b ra a ∧ model.at d ra a rb b = model.at d rb b ra a) :
    PairData (yOf d data) (yOf d model) := by
  have hval : ∀ {x x' : Int × Int}, d.win x x' →
      0 ≤ data.at d x.1 x.2 x'.1 x'.2 ∧ 0 < model.at d x.1 x.2 x'.1 x'.2 := by
    intro x x' h
    obtain ⟨c, hc, hkey, _⟩ := exists_canon_of_inWindow wf h
    unfold Fan.at
    rw [← hkey]
    exact hpos c hc
  have hsymm : ∀ (F : Fan ℝ), (∀ ra a rb b, d.inWindow ra a rb b → F.at d ra a rb b = F.at d rb b ra a) →
      ∀ x x', pairVal d F x x' = pairVal d F x' x := by
    intro F hF x x'
    unfold pairVal
    by_cases h : d.win x x'
    · rw [if_pos h, if_pos ((win_symm wf).1 h)]
      exact hF _ _ _ _ h
    · rw [if_neg h, if_neg (fun h' => h ((win_symm wf).1 h'))]
  refine ⟨?_, ?_, ?_, ?_, ?_, ?_, ?_⟩
  · intro a b
    unfold yOf pairVal
    split
    · exact (hval ‹_›).1
    · exact le_rfl
  · intro a b
    unfold yOf pairVal
    split
    · exact (hval ‹_›).2.le
    · exact le_rfl
  · intro a b
    exact hsymm data (fun ra a rb b h => (hsym ra a rb b h).1) _ _
  · intro a b
    exact hsymm model (fun ra a rb b h => (hsym ra a rb b h).2) _ _
  · intro a
    unfold yOf pairVal
    rw [if_neg (not_win_self wf _)]
  · intro a
    unfold yOf pairVal
    rw [if_neg (not_win_self wf _)]
  · intro a b
    unfold yOf pairVal
    by_cases h : d.win a.1 b.1
    · rw [if_pos h, if_pos h]
      exact fun _ => (hval h).2
    · rw [if_neg h]
      exact fun h0 => absurd h0 (lt_irrefl _)

/-! ## the inner loops visit the window of a detector exactly once -/

theorem tmod_inj_window {d : Dims} (wf : d.WF) {a b b' : Int} (ha : 0 ≤ a ∧ a ≤ d.N - 1)
    (hb : d.minB a ≤ b ∧ b ≤ d.maxB a) (hb' : d.minB a ≤ b' ∧ b' ≤ d.maxB a) (h : Int.tmod b d.N = Int.tmod b' d.N) :
    b = b' := by
  have := wf.heven
  have := wf.hfan
  have := wf.hh
  unfold Dims.minB Dims.maxB at hb hb'
  rw [tmod_window (b := b) (N := d.N) (by omega) (by omega), tmod_window (b := b') (N := d.N) (by omega) (by omega)] at h
  split_ifs at h <;> omega

/-- the detectors `(rb, b % N)` named by the two inner loops for the first detector `x` -/
def Dims.fanList (d : Dims) (x : Int × Int) : List (Int × Int) :=
  (intRange (d.minRb x.1) (d.maxRb x.1)).flatMap fun rb =>
    (intRange (d.minB x.2) (d.maxB x.2)).map fun b => (rb, Int.tmod b d.N)

theorem fanList_nodup {d : Dims} (wf : d.WF) {x : Int × Int} (hx : x ∈ d.dets) : (d.fanList x).Nodup := by
  obtain ⟨_, ha⟩ := mem_dets.1 hx
  unfold Dims.fanList
  refine nodup_flatMap_of_tag _ _ (fun y => y.1) (nodup_intRange _ _) (fun rb _ => ?_) (fun rb _ y hy => ?_)
  · refine List.Nodup.map_on ?_ (nodup_intRange _ _)
    intro b hb b' hb' h
    exact tmod_inj_window wf ha (mem_intRange.1 hb) (mem_intRange.1 hb') (Prod.ext_iff.1 h).2
  · obtain ⟨b, _, rfl⟩ := List.mem_map.1 hy
    rfl

theorem mem_fanList {d : Dims} (wf : d.WF) {x x' : Int × Int} (hx : x ∈ d.dets) :
    x' ∈ d.fanList x ↔ d.win x x' := by
  obtain ⟨hra, ha⟩ := mem_dets.1 hx
  unfold Dims.fanList
  simp only [List.mem_flatMap, List.mem_map, mem_intRange]
  constructor
  · rintro ⟨rb, hrb, b, hb, rfl⟩
    exact (loop_inWindow wf hra ha hrb hb).1
  · intro h
    obtain ⟨h1, h2, h3, h4, h5, h6, h7, h8, h9, h10, h11⟩ := h
    have := wf.heven
    have := wf.hfan
    have := wf.hmd
    refine ⟨x'.1, by unfold Dims.minRb Dims.maxRb; omega, ?_⟩
    rcases h11 with h11 | h11
    · exact ⟨x'.2, h11, by rw [Int.tmod_eq_of_lt h9 h10]⟩
    · refine ⟨x'.2 + d.N, h11, ?_⟩
      unfold Dims.minB Dims.maxB at h11
      rw [tmod_window (b := x'.2 + d.N) (N := d.N) (by omega) (by omega), if_neg (by omega)]
      exact Prod.ext rfl (by simp)

theorem nested_sum_eq_flatMap {α β γ : Type} (l : List α) (m : List β) (f : α → β → γ) (G : γ → ℝ) :
    (l.map fun x => (m.map fun y => G (f x y)).sum).sum = ((l.flatMap fun x => m.map fun y => f x y).map G).sum := by
  induction l with
  | nil => simp
  | cons x l ih =>
    rw [List.map_cons, List.sum_cons, ih, List.flatMap_cons, List.map_append, List.sum_append, List.map_map]
    rfl

/-- **the two inner loops of `FanProjData::sum` / of the denominator of `iterate_efficiencies` are a sum over all detectors of
the window-restricted summand**: every detector of the window of `x` is named exactly once, as `(rb, b % N)`. -/
theorem loop_sum_eq {d : Dims} (wf : d.WF) {x : Int × Int} (hx : x ∈ d.dets) (G : Int × Int → ℝ) :
    ((intRange (d.minRb x.1) (d.maxRb x.1)).map fun rb =>
      ((intRange (d.minB x.2) (d.maxB x.2)).map fun b => G (rb, Int.tmod b d.N)).sum).sum =
      ∑ x' ∈ d.detSet, if d.win x x' then G x' else 0 := by
  rw [nested_sum_eq_flatMap _ _ (fun rb b => (rb, Int.tmod b d.N)) G]
  change ((d.fanList x).map G).sum = _
  rw [← List.sum_toFinset G (fanList_nodup wf hx), ← Finset.sum_filter]
  apply Finset.sum_congr _ (fun _ _ => rfl)
  ext x'
  rw [List.mem_toFinset, mem_fanList wf hx, Finset.mem_filter, mem_detSet]
  exact ⟨fun h => ⟨(mem_dets_of_win h).2, h⟩, fun h => h.2⟩

/-! ## fan sums and denominators -/

theorem fanSumR_eq {d : Dims} (wf : d.WF) (data : Fan ℝ) (k : Det d) :
    fanSumR (yOf d data) k = (makeFanSums d data).get k.1 := by
  have hk : k.1 ∈ d.dets := mem_detSet.1 k.2
  unfold fanSumR yOf
  rw [Finset.sum_coe_sort d.detSet (fun x' => pairVal d data k.1 x'), makeFanSums_get d _ hk, fanSum_eq]
  exact ((loop_sum_eq wf hk (fun x' => data.at d k.1.1 k.1.2 x'.1 x'.2)).trans rfl).symm

theorem denomR_eq {d : Dims} (wf : d.WF) (model : Fan ℝ) (T : Tab ℝ) (k : Det d) :
    denomR (yOf d model) (epsOf d T) k = effDenominator d model T k.1.1 k.1.2 := by
  have hk : k.1 ∈ d.dets := mem_detSet.1 k.2
  obtain ⟨hra, ha⟩ := mem_dets.1 hk
  unfold denomR yOf epsOf
  rw [Finset.sum_coe_sort d.detSet (fun x' => T.get x' * pairVal d model k.1 x'), effDenominator_eq]
  have h1 : ((intRange (d.minRb k.1.1) (d.maxRb k.1.1)).map fun rb =>
      ((intRange (d.minB k.1.2) (d.maxB k.1.2)).map fun b =>
        T.get (rb, Int.tmod b d.N) * model.at d k.1.1 k.1.2 rb b).sum).sum =
      ((intRange (d.minRb k.1.1) (d.maxRb k.1.1)).map fun rb =>
      ((intRange (d.minB k.1.2) (d.maxB k.1.2)).map fun b =>
        (fun x' : Int × Int => T.get x' * model.at d k.1.1 k.1.2 x'.1 x'.2) (rb, Int.tmod b d.N)).sum).sum := by
    apply sum_map_congr
    intro rb hrb
    apply sum_map_congr
    intro b hb
    obtain ⟨_, hkey⟩ := loop_inWindow wf hra ha (mem_intRange.1 hrb) (mem_intRange.1 hb)
    show _ * model.at d k.1.1 k.1.2 rb b = _ * model.at d k.1.1 k.1.2 rb (Int.tmod b d.N)
    unfold Fan.at
    rw [hkey]
  rw [h1]
  refine Eq.trans ?_ (loop_sum_eq wf hk (fun x' : Int × Int => T.get x' * model.at d k.1.1 k.1.2 x'.1 x'.2)).symm
  apply Finset.sum_congr rfl
  intro x' _
  unfold pairVal
  split
  · rfl
  · rw [mul_zero]

/-! ## one step of the detector loop is the abstract coordinate update; the loop is the sweep -/

theorem epsOf_set (d : Dims) (T : Tab ℝ) (k : Det d) (v : ℝ) : epsOf d (T.set k.1 v) = Function.update (epsOf d T) k v := by
  funext a
  unfold epsOf
  rw [Tab.get_set]
  by_cases h : a = k
  · subst h
    simp
  · rw [Function.update_of_ne h, if_neg (fun h' => h (Subtype.ext h'.symm))]

/-- **refinement of one step**: the body of the detector loop of `iterate_efficiencies` for detector `k` (in place, on the
current table `T`) changes exactly the entry of `k`, to `fan_sum_k / Σ_b ε_b m_kb` (`0` where the fan sum is `0`): it is the
abstract coordinate update `effUpdate`. -/
theorem effStep_refines {d : Dims} (wf : d.WF) (data model : Fan ℝ) (T : Tab ℝ) (k : Det d) :
    epsOf d (effStep d (makeFanSums d data) model T k.1) = effUpdate (yOf d data) (yOf d model) (epsOf d T) k := by
  unfold effStep effUpdate
  rw [fanSumR_eq wf data k, denomR_eq wf model T k]
  by_cases h : (makeFanSums d data).get k.1 = 0
  · have h' : ((makeFanSums d data).get k.1 == 0) = true := by simpa using h
    rw [if_pos h', if_pos h, epsOf_set]
  · have h' : ¬ ((makeFanSums d data).get k.1 == 0) = true := by simpa using h
    rw [if_neg h', if_neg h, epsOf_set]

/-- **refinement of the loop**: the in-place detector loop over any list of detectors is the abstract sweep. -/
theorem sweep_refines {d : Dims} (wf : d.WF) (data model : Fan ℝ) (l : List (Det d)) (T : Tab ℝ) :
    epsOf d ((l.map Subtype.val).foldl (effStep d (makeFanSums d data) model) T) =
      effSweep (yOf d data) (yOf d model) (epsOf d T) l := by
  induction l generalizing T with
  | nil => rfl
  | cons k l ih =>
    rw [List.map_cons, List.foldl_cons, ih]
    unfold effSweep
    rw [List.foldl_cons, effStep_refines wf]

/-- the detectors in loop order, as elements of `Det d` -/
def Dims.detList (d : Dims) : List (Det d) := d.dets.attach.map fun x => ⟨x.1, mem_detSet.2 x.2⟩

theorem detList_map_val (d : Dims) : d.detList.map Subtype.val = d.dets := by
  unfold Dims.detList
  rw [List.map_map]
  exact List.attach_map_subtype_val d.dets

/-- **`iterate_efficiencies` is the abstract sweep over all detectors in loop order.** -/
theorem iterateEff_refines {d : Dims} (wf : d.WF) (data model : Fan ℝ) (eff : Tab ℝ) :
    epsOf d (iterateEff d eff (makeFanSums d data) model) = effSweep (yOf d data) (yOf d model) (epsOf d eff) d.detList := by
  unfold iterateEff
  rw [← sweep_refines wf, detList_map_val]

/-! ## `klPairs` is half the abstract objective -/

/-- the Kullback-Leibler term of the detector pair `x`–`x'` for the product model with efficiencies `E` -/
def klF (d : Dims) (data model : Fan ℝ) (E : Tab ℝ) (x x' : Int × Int) : ℝ :=
  kl0 (pairVal d data x x') (E.get x * E.get x' * pairVal d model x x')

theorem klObjective_eq (d : Dims) (data model : Fan ℝ) (E : Tab ℝ) :
    klObjective (yOf d data) (yOf d model) (epsOf d E) = ∑ x ∈ d.detSet, ∑ x' ∈ d.detSet, klF d data model E x x' := by
  unfold klObjective
  rw [← Finset.sum_coe_sort d.detSet (fun x => ∑ x' ∈ d.detSet, klF d data model E x x')]
  apply Finset.sum_congr rfl
  intro a _
  rw [← Finset.sum_coe_sort d.detSet (fun x' => klF d data model E a.1 x')]
  rfl

/-- a symmetric double sum is twice the sum over the pairs selected by a relation that picks one order of every pair on which the
summand does not vanish -/
theorem sum_sum_symm {α : Type} [DecidableEq α] (D : Finset α) (f : α → α → ℝ) (r : α → α → Prop) [DecidableRel r]
    (hsymm : ∀ x x', f x x' = f x' x)
    (hsplit : ∀ x x', f x x' = (if r x x' then f x x' else 0) + (if r x' x then f x x' else 0)) :
    ∑ x ∈ D, ∑ x' ∈ D, f x x' = 2 * ∑ p ∈ (D ×ˢ D).filter (fun p => r p.1 p.2), f p.1 p.2 := by
  have hA : ∑ p ∈ (D ×ˢ D).filter (fun p => r p.1 p.2), f p.1 p.2 = ∑ x ∈ D, ∑ x' ∈ D, if r x x' then f x x' else 0 := by
    rw [Finset.sum_filter, Finset.sum_product]
  have hB : ∑ x ∈ D, ∑ x' ∈ D, (if r x' x then f x x' else 0) = ∑ x ∈ D, ∑ x' ∈ D, if r x x' then f x x' else 0 := by
    rw [Finset.sum_comm]
    apply Finset.sum_congr rfl
    intro x _
    apply Finset.sum_congr rfl
    intro x' _
    rw [hsymm x' x]
  rw [hA]
  calc ∑ x ∈ D, ∑ x' ∈ D, f x x'
      = ∑ x ∈ D, ∑ x' ∈ D, ((if r x x' then f x x' else 0) + (if r x' x then f x x' else 0)) :=
        Finset.sum_congr rfl fun x _ => Finset.sum_congr rfl fun x' _ => hsplit x x'
    _ = (∑ x ∈ D, ∑ x' ∈ D, if r x x' then f x x' else 0) + ∑ x ∈ D, ∑ x' ∈ D, if r x' x then f x x' else 0 := by
        simp only [Finset.sum_add_distrib]
    _ = 2 * ∑ x ∈ D, ∑ x' ∈ D, if r x x' then f x x' else 0 := by rw [hB]; ring

/-- the index tuples over which `klPairs` sums -/
def Dims.pairList (d : Dims) : List Key :=
  d.canon.filter fun c => decide (c.1 < c.2.2.1) || decide (c.2.1 < Int.tmod c.2.2.2 d.N)

/-- the detector pair named by an index tuple of the loop nest -/
def Dims.pairOf (d : Dims) (c : Key) : (Int × Int) × (Int × Int) := ((c.1, c.2.1), (c.2.2.1, Int.tmod c.2.2.2 d.N))

/-- `x` before `x'` (ring, then detector) and the pair is in the window -/
def Dims.ltw (d : Dims) (x x' : Int × Int) : Prop := (x.1 < x'.1 ∨ (x.1 = x'.1 ∧ x.2 < x'.2)) ∧ d.win x x'

instance (d : Dims) : DecidableRel d.ltw := fun x x' => by unfold Dims.ltw; infer_instance

theorem mem_pairList {d : Dims} {c : Key} :
    c ∈ d.pairList ↔ c ∈ d.canon ∧ (c.1 < c.2.2.1 ∨ c.2.1 < Int.tmod c.2.2.2 d.N) := by
  unfold Dims.pairList
  simp [List.mem_filter]

theorem pairList_map_nodup {d : Dims} (wf : d.WF) : (d.pairList.map d.pairOf).Nodup := by
  refine List.Nodup.map_on ?_ ((canon_nodup d).filter _)
  intro c hc c' hc' h
  have hc := (mem_pairList.1 hc).1
  have hc' := (mem_pairList.1 hc').1
  obtain ⟨_, ha, _, hb⟩ := mem_canon.1 hc
  obtain ⟨_, _, _, hb'⟩ := mem_canon.1 hc'
  unfold Dims.pairOf at h
  simp only [Prod.mk.injEq] at h
  obtain ⟨⟨e1, e2⟩, e3, e4⟩ := h
  rw [← e2] at hb'
  have e5 := tmod_inj_window wf ha hb hb' e4
  exact Prod.ext e1 (Prod.ext e2 (Prod.ext e3 e5))

/-- **the loop nest filtered by `ra < rb ∨ a < b % N` names every unordered detector pair of the window exactly once** -/
theorem mem_pairList_map {d : Dims} (wf : d.WF) (p : (Int × Int) × (Int × Int)) :
    p ∈ (d.pairList.map d.pairOf).toFinset ↔ p ∈ (d.detSet ×ˢ d.detSet).filter (fun p => d.ltw p.1 p.2) := by
  rw [List.mem_toFinset, List.mem_map, Finset.mem_filter, Finset.mem_product, mem_detSet, mem_detSet]
  constructor
  · rintro ⟨c, hc, rfl⟩
    obtain ⟨hc, hf⟩ := mem_pairList.1 hc
    obtain ⟨hw, hle⟩ := inWindow_of_mem_canon wf hc
    have hw' : d.win (d.pairOf c).1 (d.pairOf c).2 := hw
    refine ⟨mem_dets_of_win hw', ?_, hw'⟩
    show c.1 < c.2.2.1 ∨ (c.1 = c.2.2.1 ∧ c.2.1 < Int.tmod c.2.2.2 d.N)
    omega
  · rintro ⟨_, hlt, hw⟩
    obtain ⟨⟨ra, a⟩, ⟨rb, b⟩⟩ := p
    have hw0 := hw
    obtain ⟨h1, h2, h3, h4, h5, h6, h7, h8, h9, h10, h11⟩ := hw
    simp only at h1 h2 h3 h4 h5 h6 h7 h8 h9 h10 h11 hlt
    have := wf.heven
    have := wf.hfan
    have := wf.hmd
    unfold Dims.inFan Dims.minB Dims.maxB at h11
    have hmod : Int.tmod (if b < d.minB a then b + d.N else b) d.N = b := by
      unfold Dims.minB
      split
      · rw [tmod_window (b := b + d.N) (N := d.N) (by omega) (by omega), if_neg (by omega)]
        omega
      · exact Int.tmod_eq_of_lt h9 h10
    refine ⟨(ra, a, rb, if b < d.minB a then b + d.N else b), mem_pairList.2 ⟨mem_canon.2 ⟨⟨h1, by show ra ≤ d.R - 1; omega⟩, ⟨h7, by show a ≤ d.N - 1; omega⟩, ?_, ?_⟩, ?_⟩, ?_⟩
    · show max ra (d.minRb ra) ≤ rb ∧ rb ≤ d.maxRb ra
      unfold Dims.minRb Dims.maxRb
      omega
    · show d.minB a ≤ (if b < d.minB a then b + d.N else b) ∧ (if b < d.minB a then b + d.N else b) ≤ d.maxB a
      unfold Dims.minB Dims.maxB
      split <;> omega
    · show ra < rb ∨ a < Int.tmod (if b < d.minB a then b + d.N else b) d.N
      rw [hmod]
      omega
    · unfold Dims.pairOf
      show ((ra, a), (rb, Int.tmod (if b < d.minB a then b + d.N else b) d.N)) = ((ra, a), (rb, b))
      rw [hmod]

/-- the summand of `klPairs` at an index tuple of the loop nest is the term of the detector pair it names -/
theorem klPairs_term {d : Dims} (wf : d.WF) (data model : Fan ℝ) (E : Tab ℝ) {c : Key} (hc : c ∈ d.canon) :
    klTerm Real.log (data.get (d.key c)) ((applyEff d model E true).get (d.key c)) 0 =
      klF d data model E (d.pairOf c).1 (d.pairOf c).2 := by
  have hw : d.win (d.pairOf c).1 (d.pairOf c).2 := (inWindow_of_mem_canon wf hc).1
  unfold klF pairVal
  rw [if_pos hw, if_pos hw, applyEff_get_key wf model E hc, key_eq_storeKey_tmod wf hc]
  unfold kl0 effFactor Fan.at Dims.pairOf
  congr 1
  ring

theorem klPairs_eq {d : Dims} (wf : d.WF) (data model : Fan ℝ) (E : Tab ℝ) :
    klPairs Real.log d data (applyEff d model E true) 0 =
      ∑ p ∈ (d.detSet ×ˢ d.detSet).filter (fun p => d.ltw p.1 p.2), klF d data model E p.1 p.2 := by
  unfold klPairs
  change d.pairList.foldl _ 0 = _
  rw [foldl_add_eq_sum (fun c => klTerm Real.log (data.get (d.key c)) ((applyEff d model E true).get (d.key c)) 0), zero_add,
    sum_map_congr _ (fun c => klF d data model E (d.pairOf c).1 (d.pairOf c).2) _
      (fun c hc => klPairs_term wf data model E (mem_pairList.1 hc).1),
    ← Finset.sum_congr (Finset.ext (mem_pairList_map wf)) (fun _ _ => rfl),
    List.sum_toFinset (fun p => klF d data model E p.1 p.2) (pairList_map_nodup wf), List.map_map]
  rfl

/-- **`klPairs` is the abstract Kullback-Leibler objective** (which counts every detector pair twice) -/
theorem klObjective_eq_two_mul_klPairs {d : Dims} (wf : d.WF) (data model : Fan ℝ) (E : Tab ℝ)
    (hsym : ∀ ra a rb b, d.inWindow ra a rb b →
      data.at d ra a rb b = data.at d rb b ra a ∧ model.at d ra a rb b = model.at d rb b ra a) :
    klObjective (yOf d data) (yOf d model) (epsOf d E) = 2 * klPairs Real.log d data (applyEff d model E true) 0 := by
  have hpv : ∀ (F : Fan ℝ), (∀ ra a rb b, d.inWindow ra a rb b → F.at d ra a rb b = F.at d rb b ra a) →
      ∀ x x', pairVal d F x x' = pairVal d F x' x := by
    intro F hF x x'
    unfold pairVal
    by_cases h : d.win x x'
    · rw [if_pos h, if_pos ((win_symm wf).1 h)]
      exact hF _ _ _ _ h
    · rw [if_neg h, if_neg (fun h' => h ((win_symm wf).1 h'))]
  rw [klObjective_eq, klPairs_eq wf]
  apply sum_sum_symm
  · intro x x'
    unfold klF
    rw [hpv data (fun ra a rb b h => (hsym ra a rb b h).1) x x', hpv model (fun ra a rb b h => (hsym ra a rb b h).2) x x',
      mul_comm (E.get x) (E.get x')]
  · intro x x'
    by_cases hw : d.win x x'
    · have hw' := (win_symm wf).1 hw
      have hne : x ≠ x' := fun h => not_win_self wf x (h ▸ hw)
      have hne' : ¬ (x.1 = x'.1 ∧ x.2 = x'.2) := fun h => hne (Prod.ext h.1 h.2)
      by_cases hlt : x.1 < x'.1 ∨ (x.1 = x'.1 ∧ x.2 < x'.2)
      · have h1 : d.ltw x x' := ⟨hlt, hw⟩
        have h2 : ¬ d.ltw x' x := fun h => by have := h.1; omega
        rw [if_pos h1, if_neg h2, add_zero]
      · have h1 : ¬ d.ltw x x' := fun h => hlt h.1
        have h2 : d.ltw x' x := ⟨by omega, hw'⟩
        rw [if_neg h1, if_pos h2, zero_add]
    · have h1 : ¬ d.ltw x x' := fun h => hw h.2
      have h2 : ¬ d.ltw x' x := fun h => hw ((win_symm wf).1 h.2)
      rw [if_neg h1, if_neg h2, add_zero]
      unfold klF pairVal
      rw [if_neg hw, if_neg hw, mul_zero]
      exact kl0_of_nonpos le_rfl 0

/-! ## the property -/

/-- **every efficiency iteration of the executable model leaves the Kullback-Leibler distance (summed once per detector pair)
between symmetric data and the product model no larger than before.** -/
theorem iterateEff_descends_klPairs {d : Dims} (wf : d.WF) (data model : Fan ℝ) (eff : Tab ℝ)
    (hpos : ∀ c ∈ d.canon, 0 ≤ data.get (d.key c) ∧ 0 < model.get (d.key c))
    (hsym : ∀ ra a rb b, d.inWindow ra a rb b →
      data.at d ra a rb b = data.at d rb b ra a ∧ model.at d ra a rb b = model.at d rb b ra a)
    (heff : ∀ x ∈ d.dets, 0 < eff.get x ∧ 0 < (makeFanSums d data).get x) :
    klPairs Real.log d data (applyEff d model (iterateEff d eff (makeFanSums d data) model) true) 0 ≤
      klPairs Real.log d data (applyEff d model eff true) 0 := by
  have P := pairData_of_model wf data model hpos hsym
  have hl : ∀ k ∈ d.detList, 0 < fanSumR (yOf d data) k := by
    intro k _
    rw [fanSumR_eq wf]
    exact (heff k.1 (mem_detSet.1 k.2)).2
  have hε : ∀ a : Det d, 0 < epsOf d eff a := fun a => (heff a.1 (mem_detSet.1 a.2)).1
  have hdesc := (effSweep_descends P d.detList hl hε).1
  rw [← iterateEff_refines wf, klObjective_eq_two_mul_klPairs wf data model _ hsym,
    klObjective_eq_two_mul_klPairs wf data model _ hsym] at hdesc
  linarith


/-! ## satisfiability of the hypotheses (used by the non-vacuity example of `Props.lean`) -/

/-- data that is positive on every stored detector pair has positive fan sums -/
theorem makeFanSums_pos {d : Dims} (wf : d.WF) (data : Fan ℝ) (hdata : ∀ c ∈ d.canon, 0 < data.get (d.key c))
    {x : Int × Int} (hx : x ∈ d.dets) : 0 < (makeFanSums d data).get x := by
  obtain ⟨hra, ha⟩ := mem_dets.1 hx
  rw [makeFanSums_get d _ hx, fanSum_eq]
  have hrng1 : d.minRb x.1 ≤ d.maxRb x.1 := by
    have := wf.hmd
    unfold Dims.minRb Dims.maxRb
    omega
  have hrng2 : d.minB x.2 ≤ d.maxB x.2 := by
    have := wf.hh
    unfold Dims.minB Dims.maxB
    omega
  apply list_sum_pos_of_pos _ _ (intRange_ne_nil hrng1)
  intro rb hrb
  apply list_sum_pos_of_pos _ _ (intRange_ne_nil hrng2)
  intro b hb
  obtain ⟨hw, _⟩ := loop_inWindow wf hra ha (mem_intRange.1 hrb) (mem_intRange.1 hb)
  obtain ⟨c, hc, hkey, _⟩ := exists_canon_of_inWindow wf hw
  unfold Fan.at
  rw [← hkey]
  exact hdata c hc

end

section
variable {K : Type} [OfNat K 0]

/-- the fan data holding `f c` in the array element addressed by the index tuple `c` of the loop nest -/
def Fan.ofFun (d : Dims) (f : Key → K) : Fan K := d.canon.foldl (fun F c => F.set (d.key c) (f c)) {}

theorem foldl_set_key_get (key : Key → Key) (f : Key → K) (l : List Key) (F : Fan K)
    (hinj : ∀ c ∈ l, ∀ c' ∈ l, key c = key c' → c = c') {c : Key} (hc : c ∈ l) :
    (l.foldl (fun F c => F.set (key c) (f c)) F).get (key c) = f c := by
  have hstay : ∀ (l : List Key) (F : Fan K) (k : Key), (∀ c' ∈ l, key c' ≠ k) →
      (l.foldl (fun F c => F.set (key c) (f c)) F).get k = F.get k := by
    intro l
    induction l with
    | nil => intro F k _; rfl
    | cons z l ih =>
      intro F k hz
      rw [List.foldl_cons, ih _ _ (fun c' hc' => hz c' (by simp [hc']))]
      exact Fan.get_set_ne _ _ (hz z (by simp))
  induction l generalizing F with
  | nil => simp at hc
  | cons y l ih =>
    rw [List.foldl_cons]
    by_cases hl : c ∈ l
    · exact ih _ (fun c₁ h₁ c₂ h₂ => hinj c₁ (by simp [h₁]) c₂ (by simp [h₂])) hl
    · have hy : c = y := by
        rcases List.mem_cons.1 hc with h | h
        · exact h
        · exact absurd h hl
      subst hy
      rw [hstay l _ _ (fun c' hc' hk => hl ((hinj c' (by simp [hc']) c (by simp) hk) ▸ hc')), Fan.get_set_eq]

theorem Fan.ofFun_get {d : Dims} (wf : d.WF) (f : Key → K) {c : Key} (hc : c ∈ d.canon) : (Fan.ofFun d f).get (d.key c) = f c :=
  foldl_set_key_get d.key f d.canon {} (fun _ h₁ _ h₂ h => key_injOn_canon wf h₁ h₂ h) hc

/-- fan data given by a symmetric function of the two rings: the same value whichever detector is named first -/
theorem Fan.ofFun_at_rings {d : Dims} (wf : d.WF) (g : Int → Int → K) (hg : ∀ r r', g r r' = g r' r) {ra a rb b : Int}
    (h : d.inWindow ra a rb b) : (Fan.ofFun d fun c => g c.1 c.2.2.1).at d ra a rb b = g ra rb := by
  obtain ⟨c, hc, hkey, hcoords⟩ := exists_canon_of_inWindow wf h
  unfold Fan.at
  rw [← hkey, Fan.ofFun_get wf _ hc]
  rcases hcoords with ⟨e1, _, e3, _⟩ | ⟨e1, _, e3, _⟩
  · rw [e1, e3]
  · rw [e1, e3, hg]

theorem Fan.const_at {d : Dims} (wf : d.WF) (v : K) {ra a rb b : Int} (h : d.inWindow ra a rb b) :
    (Fan.const d v).at d ra a rb b = v := by
  obtain ⟨c, hc, hkey, _⟩ := exists_canon_of_inWindow wf h
  unfold Fan.at
  rw [← hkey, Fan.const_get d v hc]

end

end StirVerif.C20
