import StirVerif.C20.ProofsGap
import StirVerif.C20.ProofsStore
import StirVerif.C20.ProofsFan
import StirVerif.C20.ProofsApply
import StirVerif.C20.ProofsIter
import StirVerif.C20.ProofsPos
import StirVerif.C20.ProofsBlock
import StirVerif.C20.ProofsGuard
import StirVerif.C20.ProofsKL
import StirVerif.C20.ProofsDescentModel
import StirVerif.C20.ProofsGeoClass
import StirVerif.C20.ProofsGeoStructure
import StirVerif.C20.ProofsDetPair
import StirVerif.C20.ProofsDetPairDescent
import StirVerif.C20.ProofsNoModel
/-!
# C20 — component-based normalisation: data conversions are lossless, ML steps descend.  Property theorems.

All statements are about the executable model `StirVerif.C20` (`Model.lean`, tied to `buildblock/ML_norm.cxx` by the
correspondence run of `checks/c20.py`), for all scanner sizes, crystals per block, numbers of virtual crystals, fan sizes,
ring differences and all values in an arbitrary field (ordered field / `ℝ` where stated).  Equality of arrays is
*observational*: equality of every element read through `get`.

The descent of the efficiency iteration (§6) is proved twice: abstractly, for any finite set of detectors
(`C20_eff_coordinate_update_descends`, `C20_eff_iteration_descends`), and for the executable model itself
(`C20_eff_iteration_descends_on_model`, by the refinement `ProofsDescentModel.lean`: the in-place detector loop of `iterateEff`
is the abstract sweep, `klPairs` is half the abstract objective).  The fixed point of the geometric factors (§5,
`C20_geo_fixed_point`) rests on the class structure of the index maps of `make_geo_data` and `apply_geo_norm`
(`C20_geo_class_structure`, `ProofsGeoFold/Class/Orbit/Mirror/Structure.lean`).  §7 states the conversion, apply/un-apply,
fixed-point and descent clauses for the two-dimensional `DetPairData` family (one sinogram pair; the descent by refinement to the
one-ring `FanProjData` model, `ProofsDetPairDescent.lean`), §8 shows that the "version without model" of
`iterate_efficiencies` / `make_fan_sum_data` is the version with the model of ones, so that the fixed-point and descent theorems
of §5–§6 apply to it.  Nothing in this file is stated without proof.
-/
namespace StirVerif.C20

/-! ## 1. The gap index maps ("gaps are filled as requested": which crystal is a gap, and nothing else is lost) -/

/-- *"Converting … to the detector-pair representation … and back is lossless"* — index level:
adding the gaps back after removing them returns the crystal index, for every physical crystal, any crystals-per-block `c`,
any number `v < c` of virtual crystals per block, any (unbounded) index. -/
theorem C20_addGap_removeGap {x c v : Int} (hx : 0 ≤ x) (hv : 0 ≤ v) (hvc : v < c) (hphys : isVirtual x c v = false) :
    addGap (removeGap x c v) c v = x :=
  addGap_removeGap hx hv hvc hphys

/-- … and every physical index comes from exactly one physical crystal: `removeGap ∘ addGap = id`, `addGap` never produces a
virtual crystal. -/
theorem C20_removeGap_addGap {y c v : Int} (hy : 0 ≤ y) (hv : 0 ≤ v) (hvc : v < c) :
    removeGap (addGap y c v) c v = y ∧ isVirtual (addGap y c v) c v = false ∧ 0 ≤ addGap y c v :=
  removeGap_addGap hy hv hvc

/-- `removeGap` is injective on physical crystals (no two crystals share a fan-data index). -/
theorem C20_removeGap_injective_on_physical {x x' c v : Int} (hx : 0 ≤ x) (hx' : 0 ≤ x') (hv : 0 ≤ v) (hvc : v < c)
    (hp : isVirtual x c v = false) (hp' : isVirtual x' c v = false) (h : removeGap x c v = removeGap x' c v) : x = x' :=
  removeGap_injective_on_physical hx hx' hv hvc hp hp' h

/-- The physical index of a physical crystal of a ring of `nb` blocks lies in `0 .. nb·(c-v) - 1`
(= the `num_physical_detectors_per_ring` of the fan data) and the order of the crystals is kept. -/
theorem C20_removeGap_range {x x' c v nb : Int} (hx : 0 ≤ x) (hv : 0 ≤ v) (hvc : v < c) (hxn : x < nb * c)
    (hp : isVirtual x c v = false) (hp' : isVirtual x' c v = false) (hlt : x < x') :
    0 ≤ removeGap x c v ∧ removeGap x c v < nb * (c - v) ∧ removeGap x c v < removeGap x' c v :=
  ⟨(removeGap_bounds hx hv hvc).1, removeGap_lt hx hv hvc hxn hp, removeGap_strictMono_on_physical hx hv hvc hp hp' hlt⟩

/-- Detector pairs: two physical detector pairs with the same four fan-data indices are the same pair. -/
theorem C20_newCoords_injective {s : Scn} (ws : s.WF) {p p' : DetPair} (hp : p.nonneg) (hp' : p'.nonneg) {c : Key}
    (h : newCoords s p = some c) (h' : newCoords s p' = some c) : p = p' :=
  newCoords_injective ws hp hp' h h'

example : isVirtual 7 5 1 = false ∧ addGap (removeGap 7 5 1) 5 1 = 7 ∧ removeGap 7 5 1 = 6 ∧ isVirtual 9 5 1 = true := by decide
example : removeGap 13 6 2 = 9 ∧ addGap 9 6 2 = 13 ∧ removeGap (addGap 11 6 2) 6 2 = 11 := by decide
example : (⟨20, 5, 5, 3, 1, 1, 4, 2, -5, 5, 4, true, 1, 0, false⟩ : Scn).WF := by decide

/-! ## 2. The fan window and the symmetric storage of `FanProjData` -/

/-- The fan window is symmetric: `b` is in the fan of `a` iff `a` is in the fan of `b`
(so a LOR can be addressed from either of its detectors). -/
theorem C20_fan_window_symmetric {d : Dims} (wf : d.WF) {a b : Int} (ha : 0 ≤ a ∧ a < d.N) (hb : 0 ≤ b ∧ b < d.N) :
    d.inFan a b ↔ d.inFan b a :=
  inFan_symm wf ha hb

/-- *Symmetric storage identity*: for detectors in different rings `fan(ra,a,rb,b)` and `fan(rb,b,ra,a)` are the same array
element (only half of the ring pairs is stored). -/
theorem C20_symmetric_storage (d : Dims) {ra a rb b : Int} (hne : ra ≠ rb) (ha : 0 ≤ a ∧ a < d.N) (hb : 0 ≤ b ∧ b < d.N) :
    d.storeKey ra a rb b = d.storeKey rb b ra a :=
  storeKey_symm d hne ha hb

/-- … but within one ring `fan(ra,a,ra,b)` and `fan(ra,b,ra,a)` are two different elements: an in-ring LOR is stored twice. -/
theorem C20_in_ring_pairs_stored_twice (d : Dims) {ra a b : Int} (ha : 0 ≤ a ∧ a < d.N) (hb : 0 ≤ b ∧ b < d.N) (hab : a ≠ b) :
    d.storeKey ra a ra b ≠ d.storeKey ra b ra a :=
  storeKey_same_ring_ne d ha hb hab

/-- Inside the fan / max-ring-difference window `operator()` stays inside the index range allocated by the constructor
(the range checks of the C++ are `assert`s, compiled out). -/
theorem C20_storeKey_allocated {d : Dims} (wf : d.WF) {ra a rb b : Int} (h : d.inWindow ra a rb b) :
    d.allocated (d.storeKey ra a rb b) = true :=
  storeKey_allocated wf h

/-- Two detector pairs of the window share an array element iff they are the same pair, or the same pair named the other
way round with the detectors in different rings. -/
theorem C20_storeKey_eq_iff {d : Dims} (wf : d.WF) {ra a rb b ra' a' rb' b' : Int} (h : d.inWindow ra a rb b)
    (h' : d.inWindow ra' a' rb' b') :
    d.storeKey ra a rb b = d.storeKey ra' a' rb' b' ↔
      (ra' = ra ∧ a' = a ∧ rb' = rb ∧ b' = b) ∨ (ra ≠ rb ∧ ra' = rb ∧ a' = b ∧ rb' = ra ∧ b' = a) :=
  storeKey_eq_iff wf h h'

/-- *Which `(ra,a,rb,b)` are stored*: the loop nest `for ra, a, rb ≥ ra, b` used by every function visits every allocated
array element exactly once (no repetition, no two index tuples on one element, every allocated element reached). -/
theorem C20_stored_entries_visited_once {d : Dims} (wf : d.WF) :
    d.canon.Nodup ∧ (∀ c ∈ d.canon, ∀ c' ∈ d.canon, d.key c = d.key c' → c = c') ∧
      (∀ k, d.allocated k = true → ∃ c ∈ d.canon, d.key c = k) ∧ (∀ c ∈ d.canon, d.allocated (d.key c) = true) :=
  ⟨canon_nodup d, fun _ hc _ hc' h => key_injOn_canon wf hc hc' h, fun _ hk => exists_canon_of_allocated wf hk, fun c hc => by
    rw [key_eq_storeKey_tmod wf hc]
    exact storeKey_allocated wf (inWindow_of_mem_canon wf hc).1⟩

example : (Dims.ofCtor 4 16 3 9).WF := by decide
example : (Dims.ofCtor 4 16 3 9).inWindow 3 15 1 9 ∧ ¬ (Dims.ofCtor 4 16 3 9).inWindow 0 0 0 3 := by decide
example : (Dims.ofCtor 4 16 3 9).storeKey 3 15 1 9 = (1, 9, 3, 15) ∧ (Dims.ofCtor 4 16 3 9).storeKey 1 9 3 15 = (1, 9, 3, 15) := by
  decide

/-! ## 3. Projection data → fan data → projection data -/

section roundtrip
variable {K : Type} [OfNat K 0]

/-- *"each entry is the value of the bin that the geometry assigns to that detector pair"*: after
`make_fan_data_remove_gaps` the fan entry of the physical detector pair of a bin — addressed either way round — holds the
value of that bin.  `bins` is the loop of the C++ (any order); the detector-pair ↔ bin map is the parameter `Prod.fst`
(property C01): no two bins with different values may be the same unordered detector pair. -/
theorem C20_fan_entry_is_bin_value {d : Dims} (wf : d.WF) {s : Scn} (ws : s.WF) (bins : List (DetPair × K))
    (hnn : ∀ pv ∈ bins, pv.1.nonneg) (hwin : ∀ pv ∈ bins, winOK s d pv.1 = true)
    (hdist : ∀ pv ∈ bins, ∀ pv' ∈ bins, (pv'.1 = pv.1 ∨ pv'.1 = pv.1.swap) → pv'.2 = pv.2)
    {pv : DetPair × K} (hpv : pv ∈ bins) {nra na nrb nb : Int} (hc : newCoords s pv.1 = some (nra, na, nrb, nb)) :
    (makeFan s d bins).at d nra na nrb nb = pv.2 ∧ (makeFan s d bins).at d nrb nb nra na = pv.2 :=
  makeFan_at wf s bins (fun pv hpv c hc => winOK_spec (hwin pv hpv) c hc) (hinj_of_detPairs ws bins hnn hdist) hpv hc

/-- *"Converting projection data to the detector-pair ('fan') representation … and back is lossless … and gaps are filled as
requested"*: `set_fan_data_add_gaps ∘ make_fan_data_remove_gaps` returns, for every bin of the window, its own value, and the
requested gap value for the bins with a virtual crystal. -/
theorem C20_fan_roundtrip {d : Dims} (wf : d.WF) {s : Scn} (ws : s.WF) (bins : List (DetPair × K)) (gap : K)
    (hnn : ∀ pv ∈ bins, pv.1.nonneg) (hwin : ∀ pv ∈ bins, winOK s d pv.1 = true)
    (hdist : ∀ pv ∈ bins, ∀ pv' ∈ bins, (pv'.1 = pv.1 ∨ pv'.1 = pv.1.swap) → pv'.2 = pv.2) :
    setFan s d (makeFan s d bins) gap (bins.map Prod.fst) =
      bins.map fun pv => if (newCoords s pv.1).isNone then gap else pv.2 :=
  fan_roundtrip wf s bins gap (fun pv hpv c hc => winOK_spec (hwin pv hpv) c hc) (hinj_of_detPairs ws bins hnn hdist)

end roundtrip

example : fanDimsOf exampleScn = .ok ⟨1, 4, 0, 1⟩ := by decide
example : (⟨1, 4, 0, 1⟩ : Dims).WF ∧ exampleScn.WF := by decide
example : (∀ pv ∈ exampleBins, pv.1.nonneg) ∧ (∀ pv ∈ exampleBins, winOK exampleScn ⟨1, 4, 0, 1⟩ pv.1 = true) ∧
    (∀ pv ∈ exampleBins, ∀ pv' ∈ exampleBins, (pv'.1 = pv.1 ∨ pv'.1 = pv.1.swap) → pv'.2 = pv.2) := by decide
example : exampleBins.map (fun pv => if (newCoords exampleScn pv.1).isNone then (-3 : Int) else pv.2) = [-3, 2, -3, 4, 5, 6, -3, -3, -3] := by
  decide

/-! ## 4. Applying factors -/

section apply
variable {K : Type} [Field K] [DecidableEq K]

/-- *"'un-applying' restores the data"* — efficiencies: `apply_efficiencies(·, eff, false)` after `apply_efficiencies(·, eff, true)`
returns every array element, for non-zero efficiencies, any field.  (Holds for any loop nest and index map: see
`factorFold_unapply_apply` — the same lemma gives the `DetPairData` overloads, `C20_dp_apply_unapply_id`.) -/
theorem C20_apply_unapply_id_efficiencies {d : Dims} (wf : d.WF) (F : Fan K) (eff : Tab K) (hne : ∀ x ∈ d.dets, eff.get x ≠ 0)
    (k : Key) : (applyEff d (applyEff d F eff true) eff false).get k = F.get k ∧
      (applyEff d (applyEff d F eff false) eff true).get k = F.get k :=
  ⟨applyEff_unapply wf F eff hne k, applyEff_apply_of_unapply wf F eff hne k⟩

/-- … block factors (`apply_block_norm`), for non-zero factors of the block pairs that occur. -/
theorem C20_apply_unapply_id_block {d bd : Dims} (F blk : Fan K) (hne : ∀ c ∈ d.canon, blockFactor d bd blk c ≠ 0) (k : Key) :
    (applyBlock d bd (applyBlock d bd F blk true) blk false).get k = F.get k :=
  applyBlock_unapply F blk hne k

/-- … geometric factors (`apply_geo_norm`): the table `work` of factors per entry does not depend on `apply`. -/
theorem C20_apply_unapply_id_geo {d : Dims} {g : GeoDims} (F geo : Fan K)
    (hne : ∀ c ∈ d.canon, geoFactor d (geoWork d g geo) c ≠ 0) (k : Key) :
    (applyGeo d g (applyGeo d g F geo true) geo false).get k = F.get k :=
  applyGeo_unapply F geo hne k

/-- *"Applying efficiencies … multiplies each detector-pair entry by the product of the factors of its two detectors"*:
for every detector pair inside the window, whichever detector is named first; and un-applying divides by it. -/
theorem C20_apply_is_product_of_two_detectors {d : Dims} (wf : d.WF) (F : Fan K) (eff : Tab K) {ra a rb b : Int}
    (h : d.inWindow ra a rb b) :
    (applyEff d F eff true).at d ra a rb b = F.at d ra a rb b * (eff.get (ra, a) * eff.get (rb, b)) ∧
      (applyEff d F eff false).at d ra a rb b = F.at d ra a rb b / (eff.get (ra, a) * eff.get (rb, b)) :=
  ⟨applyEff_at wf F eff h, unapplyEff_at wf F eff h⟩

/-- *"… (or its geometric class)"*: the entry addressed by the loop indices `c` is multiplied exactly once, by the factor of the
pair of blocks of its detectors (`apply_block_norm`) / by the entry of `work` (`apply_geo_norm`). -/
theorem C20_apply_block_geo_factor {d bd : Dims} {g : GeoDims} (wf : d.WF) (F X : Fan K) {c : Key} (hc : c ∈ d.canon) :
    (applyBlock d bd F X true).get (d.key c) = F.get (d.key c) * blockFactor d bd X c ∧
      (applyGeo d g F X true).get (d.key c) = F.get (d.key c) * geoFactor d (geoWork d g X) c :=
  ⟨applyBlock_get_key wf F X hc, applyGeo_get_key wf F X hc⟩

/-! ## 5. Fixed points of the maximum-likelihood iterations -/

/-- Fan sums of data generated exactly from the model: `Σ_b ε_a ε_b m_ab = ε_a · Σ_b ε_b m_ab`
(`make_fan_sum_data ∘ apply_efficiencies`, the same `Σ` as the denominator of `iterate_efficiencies`). -/
theorem C20_fan_sums_of_model_data {d : Dims} (wf : d.WF) (model : Fan K) (eff : Tab K) {x : Int × Int} (hx : x ∈ d.dets) :
    (makeFanSums d (applyEff d model eff true)).get x = eff.get x * effDenominator d model eff x.1 x.2 := by
  rw [makeFanSums_get d _ hx]
  exact fanSum_applyEff wf model eff hx

/-- *"For data generated exactly from a model, the model parameters are a fixed point of the maximum-likelihood iterations"* —
efficiencies: the in-place sweep of `iterate_efficiencies` on the fan sums of `ε_a ε_b m_ab` returns `ε` (non-zero
efficiencies and denominators, any field).  With `model = Fan.const d 1` this is also the model-free overload
`iterate_efficiencies(efficiencies, data_fan_sums, max_ring_diff, half_fan_size)` (`C20_no_model_is_model_of_ones`,
`C20_eff_fixed_point_no_model`); the `DetPairData` overload is `C20_dp_eff_fixed_point`. -/
theorem C20_eff_fixed_point {d : Dims} (wf : d.WF) (model : Fan K) (eff : Tab K) (hne : ∀ x ∈ d.dets, eff.get x ≠ 0)
    (hden : ∀ x ∈ d.dets, effDenominator d model eff x.1 x.2 ≠ 0) (k : Int × Int) :
    (iterateEff d eff (makeFanSums d (applyEff d model eff true)) model).get k = eff.get k :=
  iterateEff_fixed wf model eff hne hden k

/-- *"0 where the fan sum is 0"*: a detector with fan sum `0` gets efficiency `0` in its step of the sweep. -/
theorem C20_dead_detector_gets_zero (d : Dims) (sums : Tab K) (model : Fan K) (T : Tab K) (x : Int × Int) (h : sums.get x = 0) :
    (effStep d sums model T x).get x = 0 :=
  effStep_dead d sums model T x h

end apply

section ordered
variable {K : Type} [Field K] [LinearOrder K] [IsStrictOrderedRing K]

/-- The same with the natural hypotheses: positive efficiencies and a model that is positive on every detector pair of the
window (then all denominators are positive). -/
theorem C20_eff_fixed_point_positive {d : Dims} (wf : d.WF) (model : Fan K) (eff : Tab K) (heff : ∀ x ∈ d.dets, 0 < eff.get x)
    (hmodel : ∀ c ∈ d.canon, 0 < model.get (d.key c)) (k : Int × Int) :
    (iterateEff d eff (makeFanSums d (applyEff d model eff true)) model).get k = eff.get k := by
  classical
  exact iterateEff_fixed wf model eff (fun x hx => (heff x hx).ne') (fun x hx => (effDenominator_pos wf model eff heff hmodel hx).ne') k

/-- Geometric and block factors — the algebraic core shared by `iterate_geo_norm` and `iterate_block_norm`: if the measured
class sum is `g` times the class sum `S > 0` of the model, the update
`(measured >= threshold || measured < 10000*norm) ? measured/norm : 0` returns `g`, for any threshold, provided `g < 10000`
(the constant hard-wired in the code) … -/
theorem C20_class_ratio_fixed_point (thr S g : K) (hS : 0 < S) (hg : g < 10000) : ratioOrZero thr (g * S) S = g :=
  ratioOrZero_fixed thr S g hS hg

/-- … and the bound is sharp: a factor `≥ 10000` of a class below the threshold is replaced by `0`. -/
theorem C20_class_ratio_threshold (thr S g : K) (hS : 0 < S) (hg : 10000 ≤ g) (hthr : g * S < thr) :
    ratioOrZero thr (g * S) S = 0 :=
  ratioOrZero_zero thr S g hS hg hthr

/-- *"For data generated exactly from a model, the model parameters are a fixed point of the maximum-likelihood iterations"* —
**exactly when the clause holds for one class** of `iterate_geo_norm` / `iterate_block_norm` (2D and 3D versions share the guard):
with a model class sum `S > 0` and measured class sum `g·S`, the factor `g` is reproduced iff the class is at or above
`threshold = find_max()/10000`, or `g < 10000`, or `g = 0`.  In particular the dynamic range of the class sums (compact source: a
few counts at the fan edge; exponentially decaying factors) is irrelevant as long as the *factors* stay below `10000`.
(Round 4: the harness now generates such data — class sums spanning 1e5..1e8 — for the FanProjData and DetPairData versions, so
this theorem and `C20_class_ratio_fixed_point` describe executed branches: classes below the threshold that are kept because of
the second disjunct.) -/
theorem C20_class_ratio_fixed_point_iff (thr S g : K) (hS : 0 < S) :
    ratioOrZero thr (g * S) S = g ↔ (thr ≤ g * S ∨ g < 10000 ∨ g = 0) :=
  ratioOrZero_fixed_iff thr S g hS

/-- the guard as such: it returns `measured/norm` iff `measured ≥ threshold`, or `measured < 10000·norm`, or the ratio is `0` anyway -/
theorem C20_class_ratio_returns_ratio_iff (thr m n : K) :
    ratioOrZero thr m n = m / n ↔ (thr ≤ m ∨ m < 10000 * n ∨ m / n = 0) :=
  ratioOrZero_eq_div_iff thr m n

/-- classes without counts: measured class sum exactly `0` gives the factor `0` for any model class sum (also `0`) and any
threshold.  (Field convention `0/0 = 0`; the C++ computes `0.F/0.F = NaN` only if `threshold = 0`, i.e. if **all** measured class
sums are `0` — the harness does not generate that; with some counts anywhere `0 >= threshold` and `0 < 10000·0` are both false
and the result is the literal `0`.) -/
theorem C20_class_ratio_empty_class (thr n : K) : ratioOrZero thr 0 n = 0 :=
  ratioOrZero_zero_measured thr n

/-- fixed point of one class when the model may have no counts in it (`S ≥ 0`): `g` where the model has counts, `0` where it has none -/
theorem C20_class_ratio_fixed_point_nonneg (thr S g : K) (hS : 0 ≤ S) (hg : g < 10000) :
    ratioOrZero thr (g * S) S = if S = 0 then 0 else g :=
  ratioOrZero_fixed_nonneg thr S g hS hg

/-- **negative witness for the `&&` variant** of the guard (`ratioAndVariant`: a refactoring of the duplicated condition into a
helper that combines `measured >= threshold` and `measured < 10000*norm` with `&&` instead of `||`; seeded in round 3, missed by
the flat generators): every class below the threshold comes back as `0`, so no positive factor of such a class is a fixed point of
it — while the code's guard reproduces it. -/
theorem C20_class_ratio_and_variant_fails (thr S g : K) (hS : 0 < S) (hg0 : 0 < g) (hg : g < 10000) (hthr : g * S < thr) :
    ratioAndVariant thr (g * S) S ≠ g ∧ ratioOrZero thr (g * S) S = g :=
  ratioAndVariant_not_fixed thr S g hS hg0 hg hthr

end ordered

/-- a class 10^6 below the largest one (threshold `10^6/10^4 = 100`, class sum `3/2 · 1`): kept by the code, zeroed by the `&&` variant -/
example : ratioOrZero (100 : ℚ) ((3 / 2) * 1) 1 = 3 / 2 ∧ ratioAndVariant (100 : ℚ) ((3 / 2) * 1) 1 ≠ 3 / 2 :=
  ⟨C20_class_ratio_fixed_point 100 1 (3 / 2) (by norm_num) (by norm_num),
    (C20_class_ratio_and_variant_fails 100 1 (3 / 2) (by norm_num) (by norm_num) (by norm_num) (by norm_num)).1⟩

/-- both directions of `C20_class_ratio_fixed_point_iff` are inhabited: a factor `20000` on a class at the threshold is kept,
below it (and only there) it is lost -/
example : ratioOrZero (5 : ℚ) (20000 * 1) 1 = 20000 ∧ ratioOrZero (30000 : ℚ) (20000 * 1) 1 ≠ 20000 := by
  constructor
  · exact (C20_class_ratio_fixed_point_iff 5 1 20000 (by norm_num)).2 (Or.inl (by norm_num))
  · intro h
    rcases (C20_class_ratio_fixed_point_iff 30000 1 20000 (by norm_num)).1 h with h | h | h <;> norm_num at h

example : ratioOrZero (7 : ℚ) 0 0 = 0 ∧ ratioOrZero (7 : ℚ) 0 3 = 0 ∧ ratioOrZero (7 : ℚ) ((5 / 8) * 0) 0 = 0 :=
  ⟨C20_class_ratio_empty_class 7 0, C20_class_ratio_empty_class 7 3, by
    rw [C20_class_ratio_fixed_point_nonneg 7 0 (5 / 8) le_rfl (by norm_num)]; simp⟩

/-- hypotheses of `C20_eff_fixed_point_positive` are satisfiable (2 rings of 8 detectors, ring difference 1, half fan 2) -/
example : ∃ (eff : Tab ℚ) (model : Fan ℚ), (⟨2, 8, 1, 2⟩ : Dims).WF ∧ (∀ x ∈ (⟨2, 8, 1, 2⟩ : Dims).dets, 0 < eff.get x) ∧
    (∀ c ∈ (⟨2, 8, 1, 2⟩ : Dims).canon, 0 < model.get ((⟨2, 8, 1, 2⟩ : Dims).key c)) :=
  ⟨Tab.const _ 1, Fan.const _ 3, by decide, fun x hx => by rw [Tab.const_get _ _ hx]; norm_num,
    fun c hc => by rw [Fan.const_get _ _ hc]; norm_num⟩

example : ratioOrZero (5 : ℚ) ((3 / 2) * 4) 4 = 3 / 2 := C20_class_ratio_fixed_point 5 4 (3 / 2) (by norm_num) (by norm_num)

section block
variable {K : Type} [Field K] [LinearOrder K] [IsStrictOrderedRing K]

/-- *"… the model parameters are a fixed point of the maximum-likelihood iterations"* — block factors: for data generated exactly
as `block factor × model` (`apply_block_norm`), `iterate_block_norm` on the measured block data (`make_block_data`) returns the
block factor of every pair of blocks that has a LOR in the window.  Hypotheses: positive model, factors below the hard-wired
`10000`, and `halloc`: the block pairs of the window lie inside the index range of the block data
(`BlockData3D(num_axial_blocks, num_transaxial_blocks, num_axial_blocks-1, num_transaxial_blocks-1)`). -/
theorem C20_block_fixed_point {d bd : Dims} (wf : d.WF) (wfb : bd.WF) (model blk : Fan K)
    (hmodel : ∀ c ∈ d.canon, 0 < model.get (d.key c))
    (halloc : ∀ c ∈ d.canon, bd.allocated (blockKey d bd c) = true)
    (hblk : ∀ c ∈ d.canon, blk.get (blockKey d bd c) < 10000) {c : Key} (hc : c ∈ d.canon) :
    (iterateBlock d bd (makeBlock d bd (applyBlock d bd model blk true)) model).get (blockKey d bd c)
      = blk.get (blockKey d bd c) :=
  iterateBlock_fixed wf wfb model blk hmodel halloc hblk hc

/-- The same for **models with empty classes and any dynamic range** (compact source; round 4): a non-negative model, block
factors below `10000` (zero allowed — a dead block pair): `iterate_block_norm` returns the block factor of every block pair in
which the model has counts and `0` where it has none, however many orders of magnitude the measured block sums span (the
`find_max()/10000` threshold never decides, cf. `C20_class_ratio_fixed_point_iff`).  The harness oracle
`fixed-point-block-wide` / `…-zero-class` evaluates this statement on the implementation. -/
theorem C20_block_fixed_point_nonneg_model {d bd : Dims} (wf : d.WF) (wfb : bd.WF) (model blk : Fan K)
    (hmodel : ∀ c ∈ d.canon, 0 ≤ model.get (d.key c))
    (halloc : ∀ c ∈ d.canon, bd.allocated (blockKey d bd c) = true)
    (hblk : ∀ c ∈ d.canon, blk.get (blockKey d bd c) < 10000) {c : Key} (hc : c ∈ d.canon) :
    (iterateBlock d bd (makeBlock d bd (applyBlock d bd model blk true)) model).get (blockKey d bd c)
      = if (makeBlock d bd model).get (blockKey d bd c) = 0 then 0 else blk.get (blockKey d bd c) :=
  iterateBlock_fixed_nonneg wf wfb model blk hmodel halloc hblk hc

end block

/-- `halloc` holds e.g. for 2 rings of 8 detectors (half fan 1) in 2 × 4 blocks of 1 × 2 crystals … -/
example : (⟨2, 8, 1, 1⟩ : Dims).WF ∧ (Dims.ofCtor 2 4 1 3).WF ∧
    ∀ c ∈ (⟨2, 8, 1, 1⟩ : Dims).canon, (Dims.ofCtor 2 4 1 3).allocated (blockKey ⟨2, 8, 1, 1⟩ (Dims.ofCtor 2 4 1 3) c) = true := by
  decide

/-- … and fails when the fan contains two crystals of one block (8 detectors in 2 blocks of 4, half fan 2: detectors 0 and 2):
there `apply_block_norm` / `make_block_data` index the block data out of range (confirmed on the implementation with
AddressSanitizer: heap-buffer-overflow in `FanProjData::operator()`, ML_norm.cxx:779; the harness does not generate such
configurations). -/
theorem C20_block_data_index_range_fails :
    ¬ ∀ c ∈ (⟨1, 8, 0, 2⟩ : Dims).canon, (Dims.ofCtor 1 2 0 1).allocated (blockKey ⟨1, 8, 0, 2⟩ (Dims.ofCtor 1 2 0 1) c) = true := by
  decide

/-- *The class structure of the geometric factors* (index maps only, no values): for every well-formed `FanProjData` and every
`GeoData3D` made for it (`g.Fits d`: `g.N = d.N`, the transaxial blocks tile the ring, `2·half ∣ N`, the axial blocks tile the
rings, `acpb ∣ R`), every array element that `make_geo_data` sums into a geometric factor `c` (`geoTermKeys`: block translations
that stay in the data, each with its 2 or 4 mirror images) is written by `apply_geo_norm` (`geoWriteTargets`), and every factor
`c'` that is written to it — whichever write is the last — sums the same elements as `c`, with the same multiplicities.
Proof (`ProofsGeoOrbit/Mirror/Structure.lean`): the summed entries of `c` are the index tuples of the loop nest in the lattice class
of `c` (`mem_geoOrbit`); two entries sharing one of their four elements are equal or axial mirror images of each other, named from
the other detector when the rings differ (`key_eq_cases`; `is_in_data` makes `apply_geo_norm` write axial mirror images of in-ring
entries only); these mirror images are involutions of the loop nest that respect the lattice and permute the four elements
(`terms_perm_of_map`). -/
theorem C20_geo_class_structure {d : Dims} (wf : d.WF) {g : GeoDims} (fits : g.Fits d) : GeoClassOK d g :=
  geoClassOK wf fits

section geo
variable {K : Type} [Field K] [LinearOrder K] [IsStrictOrderedRing K]

/-- *"For data generated exactly from a model, the model parameters are a fixed point of the maximum-likelihood iterations"* —
geometric factors: for positive model and data, any ordered field, the ML estimate
`ĝ = iterate_geo_norm(make_geo_data(data), model)` is reproduced — every element of the `GeoData3D` — by `iterate_geo_norm` from the
data `apply_geo_norm(model, ĝ)` generated with it.  (Arbitrary geometric factors are *not* a fixed point: several of them describe
one class and `apply_geo_norm` lets the last one win — hence the statement is about an ML estimate.)
Value level (`ProofsGeoFold/Class.lean`): `make_geo_data` is the sum over `geoTermKeys` (`makeGeo_get`), the table `work` of
`apply_geo_norm` holds the factor of one of the writers (`geoWork_get`), `iterate_geo_norm` is the thresholded ratio
(`iterateGeo_get`); by the class structure all writers of a class have the same `ĝ`, so the class sums of the generated data are
`ĝ·S ≤` the measured ones, the `find_max()/10000` threshold can only go down, and a factor that was kept (`≥ threshold` or
`< 10000`) or zeroed is kept or zeroed again (`ratioOrZero_refixed`).

`g.Fits d` is necessary.  Without it the statement fails on the model (evaluated with `#eval` at `ℚ`, pseudo-random positive model
and data): `d = ⟨2,6,1,0⟩, g = ⟨1,2,2,6⟩` (blocks of 4 crystals on a ring of 6: the mirror images written by `apply_geo_norm` do not
cover the ring), `d = ⟨5,8,2,1⟩, g = ⟨3,1,5,8⟩` (3 rings per block, 5 rings: `make_geo_data` sums the axial mirror image of a cross-ring
LOR, `apply_geo_norm` never writes it) and `d = ⟨2,4,1,1⟩, g = ⟨1,2,2,6⟩` (`g.N ≠ d.N`: `make_geo_data` and `iterate_geo_norm` address
different elements).  Every `GeoData3D` that STIR builds from a scanner fits. -/
theorem C20_geo_fixed_point {d : Dims} (wf : d.WF) {g : GeoDims} (fits : g.Fits d)
    (model data : Fan K) (hpos : ∀ c ∈ d.canon, 0 < model.get (d.key c) ∧ 0 < data.get (d.key c)) (k : Key) :
    (iterateGeo d g (makeGeo d g (applyGeo d g model (iterateGeo d g (makeGeo d g data) model) true)) model).get k =
      (iterateGeo d g (makeGeo d g data) model).get k :=
  geo_fixed_point_of_class wf fits (geoClassOK wf fits) model data hpos k

end geo

/-- The same in the form in which it was first stated (over `ℚ`; the oracle of `harness/c20_mlnorm.cxx` checks it on every generated
configuration, odd and even ring counts, with and without gaps) — with the hypothesis `g.Fits d` that was missing. -/
theorem C20_geo_fixed_point_statement :
  ∀ (d : Dims) (g : GeoDims) (model data : Fan ℚ), d.WF → g.Fits d →
    (∀ c ∈ d.canon, 0 < model.get (d.key c) ∧ 0 < data.get (d.key c)) →
    let ghat := iterateGeo d g (makeGeo d g data) model
    ∀ k, (iterateGeo d g (makeGeo d g (applyGeo d g model ghat true)) model).get k = ghat.get k :=
  fun _ _ model data wf fits hpos k => C20_geo_fixed_point wf fits model data hpos k

/-- hypotheses of `C20_geo_fixed_point` are satisfiable (2 rings of 8 detectors in blocks of 1 × 4 crystals, ring difference 1,
half fan 2; model 3, data 5) -/
example : ∃ (model data : Fan ℚ), (⟨2, 8, 1, 2⟩ : Dims).WF ∧ (⟨1, 2, 2, 8⟩ : GeoDims).Fits ⟨2, 8, 1, 2⟩ ∧
    (∀ c ∈ (⟨2, 8, 1, 2⟩ : Dims).canon, 0 < model.get ((⟨2, 8, 1, 2⟩ : Dims).key c) ∧ 0 < data.get ((⟨2, 8, 1, 2⟩ : Dims).key c)) :=
  ⟨Fan.const _ 3, Fan.const _ 5, by decide, by decide,
    fun c hc => ⟨by rw [Fan.const_get _ _ hc]; norm_num, by rw [Fan.const_get _ _ hc]; norm_num⟩⟩

/-- the class structure evaluated by the kernel on a small scanner (3 rings of 4 detectors — a central ring — blocks of 1 × 4
crystals, all ring differences): an independent check of the definitions behind `C20_geo_class_structure` -/
example : (⟨3, 4, 2, 0⟩ : Dims).WF ∧ (⟨1, 2, 3, 4⟩ : GeoDims).Fits ⟨3, 4, 2, 0⟩ ∧ GeoClassOK ⟨3, 4, 2, 0⟩ ⟨1, 2, 3, 4⟩ := by decide

/-- dimensions that do not fit: blocks of 4 crystals on a ring of 6, 3 rings per block on 5 rings -/
example : ¬ (⟨1, 2, 2, 6⟩ : GeoDims).Fits ⟨2, 6, 1, 0⟩ ∧ ¬ (⟨3, 1, 5, 8⟩ : GeoDims).Fits ⟨5, 8, 2, 1⟩ ∧
    ¬ (⟨1, 2, 2, 6⟩ : GeoDims).Fits ⟨2, 4, 1, 1⟩ := by decide

/-! ### the mirror condition of `make_geo_data` -/

/-- `make_geo_data` adds the two axially mirrored LORs `if (ra != mra || rb != mrb)`: they are left out exactly when the LOR is
its own axial mirror (both rings are the central ring), for every number of rings and every ring pair — so no LOR is dropped
and none is counted twice. -/
theorem C20_geo_mirror_condition (d : Dims) (ra rb : Int) :
    d.fourTerms ra rb = false ↔ (d.R - 1 - ra = ra ∧ d.R - 1 - rb = rb) := by
  unfold Dims.fourTerms
  simp only [Bool.or_eq_false_iff, bne_eq_false_iff_eq]
  constructor
  · rintro ⟨h1, h2⟩; exact ⟨h1.symm, h2.symm⟩
  · rintro ⟨h1, h2⟩; exact ⟨h1.symm, h2.symm⟩

/-- Regression witness for the code before commit 58079aa5c (`&&` instead of `||`, `Dims.fourTermsOld`): it also dropped the
mirrored terms when exactly one ring is the central ring — 5 rings, LOR between rings 1 and 2 (mirror: rings 3 and 2) — which
broke the geometric fixed point for odd ring counts ≥ 5; the present condition does not. -/
theorem C20_geo_mirror_condition_old_code_fails :
    ¬ (∀ (d : Dims) (ra rb : Int), d.fourTermsOld ra rb = false → d.R - 1 - ra = ra ∧ d.R - 1 - rb = rb) ∧
      (⟨5, 8, 2, 2⟩ : Dims).fourTerms 1 2 = true := by
  refine ⟨fun h => ?_, by decide⟩
  exact absurd (h ⟨5, 8, 2, 2⟩ 1 2 (by decide)) (by decide)

example : (⟨5, 8, 2, 2⟩ : Dims).fourTerms 2 2 = false ∧ (⟨5, 8, 2, 2⟩ : Dims).fourTerms 2 3 = true ∧
    (⟨4, 8, 2, 2⟩ : Dims).fourTerms 1 2 = true := by decide

/-! ## 6. The efficiency iteration descends -/

section kl
variable {ι : Type} [Fintype ι] [DecidableEq ι]

/-- One assignment `ε_k ← fan_sum_k / Σ_b ε_b m_kb` (`0` where the fan sum is `0`) of `iterate_efficiencies`, with the current
values of all other detectors, does not increase the Kullback-Leibler distance `Σ KL(y_ab, ε_a ε_b m_ab, 0)` between symmetric
data and the product model: it is the exact minimiser in that coordinate (`log x ≥ 1 - 1/x`).  Abstract formulation: any
finite set of detectors, `y`/`m` zero outside the fan window. -/
theorem C20_eff_coordinate_update_descends {y m : ι → ι → ℝ} (P : PairData y m) {ε : ι → ℝ} (hε : ∀ a, 0 < ε a) (k : ι) :
    klObjective y m (effUpdate y m ε k) ≤ klObjective y m ε :=
  effUpdate_descends P hε k

/-- *"every efficiency iteration leaves the Kullback-Leibler distance between symmetric data and the product model no larger than
before"*: the in-place sweep over any sequence `l` of detectors (later detectors see the earlier updates), all of them with a
positive fan sum; the efficiencies stay positive. -/
theorem C20_eff_iteration_descends {y m : ι → ι → ℝ} (P : PairData y m) (l : List ι) (hl : ∀ k ∈ l, 0 < fanSumR y k) {ε : ι → ℝ}
    (hε : ∀ a, 0 < ε a) : klObjective y m (effSweep y m ε l) ≤ klObjective y m ε ∧ ∀ a, 0 < effSweep y m ε l a :=
  effSweep_descends P l hl hε

end kl

/-- hypotheses of the descent theorems are satisfiable: two detectors, data 3, model 2 -/
example : PairData (ι := Fin 2) (fun a b => if a = b then 0 else 3) (fun a b => if a = b then 0 else 2) where
  y_nonneg := by intro a b; split <;> norm_num
  m_nonneg := by intro a b; split <;> norm_num
  y_symm := by intro a b; simp [eq_comm]
  m_symm := by intro a b; simp [eq_comm]
  y_diag := by simp
  m_diag := by simp
  supp := by intro a b; split <;> norm_num

/-- *"every efficiency iteration leaves the Kullback-Leibler distance between symmetric data and the product model no larger than
before"* — **for the executable model**: the Kullback-Leibler distance summed once per detector pair (`klPairs`) between the data
and `ε_a ε_b m_ab` (`apply_efficiencies` on the model) does not increase under `iterate_efficiencies` (`iterateEff`: the in-place
loop over the detectors on the `FanProjData` / `Array<2,float>` storage, fan sums from `make_fan_sum_data`), for every
well-formed `FanProjData` geometry (any numbers of rings and detectors, ring difference, fan size).  Hypotheses: non-negative data
and positive model on every stored entry, data and model symmetric (the two stored copies of an in-ring LOR agree), positive
efficiencies, every detector has a positive fan sum.
Proof (`ProofsDescentModel.lean`): refinement to the abstract theorem `C20_eff_iteration_descends` with `ι` = the detectors,
`y_ab` / `m_ab` = `data.at` / `model.at` inside the window and `0` outside — the two inner loops of `FanProjData::sum` and of the
denominator visit every detector of the window exactly once (`loop_sum_eq`), one pass of the loop body is the coordinate update
(`effStep_refines`), the loop is the sweep (`iterateEff_refines`), and the filtered loop nest of `klPairs` names every unordered
pair of the window exactly once, so the abstract objective is `2 · klPairs` (`klObjective_eq_two_mul_klPairs`).
Since `iterateEffNM = iterateEff … (Fan.const d 1)` (`C20_no_model_is_model_of_ones`) the theorem also covers the model-free overload of
`iterate_efficiencies` (`C20_eff_iteration_descends_no_model`). -/
theorem C20_eff_iteration_descends_on_model :
  ∀ (d : Dims) (data model : Fan ℝ) (eff : Tab ℝ), d.WF →
    (∀ c ∈ d.canon, 0 ≤ data.get (d.key c) ∧ 0 < model.get (d.key c)) →
    (∀ ra a rb b, d.inWindow ra a rb b → data.at d ra a rb b = data.at d rb b ra a ∧ model.at d ra a rb b = model.at d rb b ra a) →
    (∀ x ∈ d.dets, 0 < eff.get x ∧ 0 < (makeFanSums d data).get x) →
    klPairs Real.log d data (applyEff d model (iterateEff d eff (makeFanSums d data) model) true) 0 ≤
      klPairs Real.log d data (applyEff d model eff true) 0 :=
  fun _ data model eff wf hpos hsym heff => iterateEff_descends_klPairs wf data model eff hpos hsym heff

/-- The refinement behind it, one step: the body of the detector loop of `iterate_efficiencies` for detector `k`, run in place on
the current table `T`, changes exactly the entry of `k` — to `fan_sum_k / Σ_b ε_b m_kb` with the current `ε`, `0` where the fan
sum is `0` — i.e. it is the abstract coordinate update `effUpdate` on `ι` = detectors of `d`; and the whole loop is the abstract
sweep over the detectors in loop order. -/
theorem C20_eff_iteration_refines_abstract {d : Dims} (wf : d.WF) (data model : Fan ℝ) (T : Tab ℝ) :
    (∀ k : Det d, epsOf d (effStep d (makeFanSums d data) model T k.1) = effUpdate (yOf d data) (yOf d model) (epsOf d T) k) ∧
      epsOf d (iterateEff d T (makeFanSums d data) model) = effSweep (yOf d data) (yOf d model) (epsOf d T) d.detList ∧
      d.detList.map Subtype.val = d.dets :=
  ⟨fun k => effStep_refines wf data model T k, iterateEff_refines wf data model T, detList_map_val d⟩

/-- hypotheses of `C20_eff_iteration_descends_on_model` are satisfiable by non-constant data: 2 rings of 8 detectors, ring
difference 1, half fan 2; data `ra + rb + 1` (1 and 3 within the rings, 2 between them), model 2, efficiencies 1/2 -/
example : ∃ (data model : Fan ℝ) (eff : Tab ℝ), (⟨2, 8, 1, 2⟩ : Dims).WF ∧
    (∀ c ∈ (⟨2, 8, 1, 2⟩ : Dims).canon, 0 ≤ data.get ((⟨2, 8, 1, 2⟩ : Dims).key c) ∧ 0 < model.get ((⟨2, 8, 1, 2⟩ : Dims).key c)) ∧
    (∀ ra a rb b, (⟨2, 8, 1, 2⟩ : Dims).inWindow ra a rb b →
      data.at ⟨2, 8, 1, 2⟩ ra a rb b = data.at ⟨2, 8, 1, 2⟩ rb b ra a ∧ model.at ⟨2, 8, 1, 2⟩ ra a rb b = model.at ⟨2, 8, 1, 2⟩ rb b ra a) ∧
    (∀ x ∈ (⟨2, 8, 1, 2⟩ : Dims).dets, 0 < eff.get x ∧ 0 < (makeFanSums ⟨2, 8, 1, 2⟩ data).get x) ∧
    data.at ⟨2, 8, 1, 2⟩ 0 0 0 3 ≠ data.at ⟨2, 8, 1, 2⟩ 0 0 1 3 := by
  have wf : (⟨2, 8, 1, 2⟩ : Dims).WF := by decide
  have hg : ∀ r r' : Int, ((r + r' + 1 : Int) : ℝ) = ((r' + r + 1 : Int) : ℝ) := fun r r' => by rw [add_comm r r']
  have hdata : ∀ c ∈ (⟨2, 8, 1, 2⟩ : Dims).canon,
      0 < (Fan.ofFun ⟨2, 8, 1, 2⟩ fun c => ((c.1 + c.2.2.1 + 1 : Int) : ℝ)).get ((⟨2, 8, 1, 2⟩ : Dims).key c) := by
    intro c hc
    rw [Fan.ofFun_get wf _ hc]
    obtain ⟨⟨h1, _⟩, _, ⟨h3, _⟩, _⟩ := mem_canon.1 hc
    have h3' : 0 ≤ c.2.2.1 := le_trans h1 (le_trans (le_max_left _ _) h3)
    exact_mod_cast (by omega : 0 < c.1 + c.2.2.1 + 1)
  refine ⟨Fan.ofFun _ fun c => ((c.1 + c.2.2.1 + 1 : Int) : ℝ), Fan.const _ 2, Tab.const _ (1 / 2), wf,
    fun c hc => ⟨(hdata c hc).le, by rw [Fan.const_get _ _ hc]; norm_num⟩,
    fun ra a rb b h => ⟨?_, ?_⟩, fun x hx => ⟨by rw [Tab.const_get _ _ hx]; norm_num, makeFanSums_pos wf _ hdata hx⟩, ?_⟩
  · rw [Fan.ofFun_at_rings wf (fun r r' => ((r + r' + 1 : Int) : ℝ)) hg h,
      Fan.ofFun_at_rings wf (fun r r' => ((r + r' + 1 : Int) : ℝ)) hg (inWindow_symm wf h)]
    exact hg ra rb
  · rw [Fan.const_at wf _ h, Fan.const_at wf _ (inWindow_symm wf h)]
  · rw [Fan.ofFun_at_rings wf (fun r r' => ((r + r' + 1 : Int) : ℝ)) hg (by decide),
      Fan.ofFun_at_rings wf (fun r r' => ((r + r' + 1 : Int) : ℝ)) hg (by decide)]
    norm_num

/-- The library's own `KL(const FanProjData&, const FanProjData&, …)` (`klFan`) is *not* that distance: its loop nest visits an
in-ring LOR twice (as `(ra,a,ra,b)` and `(ra,b,ra,a)`, two array elements) and a LOR between rings once — e.g. 1 ring of 4
detectors, half fan 1: `(0,0,0,2)` and `(0,2,0,4)` are the same LOR.  (With several rings it therefore weights in-ring LORs
double and can go up under an efficiency iteration: `KNOWN-CANDIDATE kl-descent…` of the oracle.) -/
theorem C20_klFan_visits_each_pair_once_fails :
    ¬ ∀ c ∈ (⟨1, 4, 0, 1⟩ : Dims).canon, ∀ c' ∈ (⟨1, 4, 0, 1⟩ : Dims).canon,
        (c'.1 = c.2.2.1 ∧ c'.2.2.1 = c.1 ∧ c'.2.1 = Int.tmod c.2.2.2 4 ∧ Int.tmod c'.2.2.2 4 = c.2.1) → c' = c := by
  decide

/-! ## 7. The two-dimensional detector-pair representation (`DetPairData`: one sinogram pair `±s` at one axial position) -/

section detpair
variable {K : Type} [OfNat K 0]

/-- *"each entry is the value of the bin that the geometry assigns to that detector pair"* — `make_det_pair_data`: after the loop
over `(view, tangential position)` the entry `(a, b)` of the detector pair of a bin holds the value of that bin in the sinogram of
segment `+s`, and the entry `(b, a)` its value in the sinogram of segment `-s`.  The detector-pair ↔ bin map
(`get_det_num_pair_for_view_tangential_pos_num`, property C01) is the parameter `Prod.fst`; `DPConsistent`: detector numbers inside
the ring and no two bins with different values on one ordered detector pair. -/
theorem C20_dp_entry_is_bin_value {d : DPDims} (wf : d.WF) (bins : List ((Int × Int) × (K × K))) (hc : DPConsistent d bins)
    {e : (Int × Int) × (K × K)} (he : e ∈ bins) :
    (makeDP d bins).at2 d e.1.1 e.1.2 = e.2.1 ∧ (makeDP d bins).at2 d e.1.2 e.1.1 = e.2.2 :=
  makeDP_at wf bins hc he

/-- *"Converting projection data to the detector-pair … representation … and back is lossless"* — `set_det_pair_data ∘
make_det_pair_data` returns to every bin of the two sinograms its own value (for `s = 0` only one sinogram is written). -/
theorem C20_dp_roundtrip {d : DPDims} (wf : d.WF) (bins : List ((Int × Int) × (K × K))) (hc : DPConsistent d bins) (segNonzero : Bool) :
    setDP d (makeDP d bins) segNonzero (bins.map Prod.fst) = bins.map fun e => (e.2.1, if segNonzero then some e.2.2 else none) :=
  dp_roundtrip wf bins hc segNonzero

end detpair

example : dpDimsOf 8 (-2) 2 = ⟨8, 2⟩ ∧ dpDimsOf 8 (-3) 2 = ⟨8, 3⟩ ∧ (⟨8, 3⟩ : DPDims).WF ∧ ¬ (dpDimsOf 8 (-4) 3).WF := by decide
example : (⟨8, 2⟩ : DPDims).inData 7 2 ∧ (⟨8, 2⟩ : DPDims).inData 2 7 ∧ ¬ (⟨8, 2⟩ : DPDims).inData 7 0 := by decide
/-- `DPConsistent` is satisfiable by bins with distinct values (segment `s ≠ 0`: two sinograms) … -/
example : DPConsistent (K := Int) ⟨4, 1⟩ [((0, 2), (5, 6)), ((1, 3), (7, 8)), ((0, 1), (2, 3)), ((1, 2), (4, 9))] := by
  unfold DPConsistent; decide
/-- … and fails when two bins claim the same ordered detector pair with different values -/
example : ¬ DPConsistent (K := Int) ⟨4, 1⟩ [((0, 2), (5, 6)), ((2, 0), (7, 8))] := by
  unfold DPConsistent; decide

/-- `DetPairData::is_in_data(a, b)` is **not** "`b` lies in the fan of `a`": for `b` below `get_min_index(a)` only the upper end is
tested (`b + num_detectors <= get_max_index(a)`), so detector 0 is reported in the data of detector 7 (8 detectors, half fan 1, fan of
7 = {2,3,4}) although `operator()(7, 0)` addresses `[7][8]`, outside `[7][10..12]`.  (`FanProjData::is_in_data` has the same test.  The
functions of `ML_norm.cxx` call it only with pairs for which it is right; not a clause of the property.) -/
theorem C20_dp_is_in_data_not_fan_membership :
    (⟨8, 1⟩ : DPDims).isInData 7 0 = true ∧ ¬ (⟨8, 1⟩ : DPDims).inData 7 0 ∧ (⟨1, 8, 0, 1⟩ : Dims).isInData 0 7 0 0 = true ∧
      ¬ (⟨1, 8, 0, 1⟩ : Dims).inWindow 0 7 0 0 := by decide

section detpair_field
variable {K : Type} [Field K] [DecidableEq K]

/-- *"'un-applying' restores the data"* — the `DetPairData` overloads of `apply_efficiencies`, `apply_block_norm`, `apply_geo_norm`:
every array element, non-zero factors, any field. -/
theorem C20_dp_apply_unapply_id {d : DPDims} (wf : d.WF) (F : Fan K) (eff blk geo : Tab K) (nb half : Int)
    (hne : ∀ a, 0 ≤ a → a < d.N → eff.get (0, a) ≠ 0) (hblk : ∀ c ∈ d.canon, dpBlockFactor d nb blk c ≠ 0)
    (hgeo : ∀ c ∈ d.canon, dpGeoFactor d half geo c ≠ 0) (k : Key) :
    (dpApplyEff d (dpApplyEff d F eff true) eff false).get k = F.get k ∧
      (dpApplyBlock d nb (dpApplyBlock d nb F blk true) blk false).get k = F.get k ∧
      (dpApplyGeo d half (dpApplyGeo d half F geo true) geo false).get k = F.get k :=
  ⟨factorFold_unapply_apply _ _ _ _ (fun _ hc => dpEffFactor_ne_zero wf eff hne hc) k, factorFold_unapply_apply _ _ _ _ hblk k,
    factorFold_unapply_apply _ _ _ _ hgeo k⟩

/-- *"Applying efficiencies … multiplies each detector-pair entry by the product of the factors of its two detectors"* —
`apply_efficiencies(DetPairData&, …)`: every detector pair of the ring inside the fan, addressed through `operator()`; un-applying
divides by it. -/
theorem C20_dp_apply_is_product_of_two_detectors {d : DPDims} (wf : d.WF) (F : Fan K) (eff : Tab K) {a b : Int} (h : d.inData a b) :
    (dpApplyEff d F eff true).at2 d a b = F.at2 d a b * (eff.get (0, a) * eff.get (0, b)) ∧
      (dpApplyEff d F eff false).at2 d a b = F.at2 d a b / (eff.get (0, a) * eff.get (0, b)) :=
  ⟨dpApplyEff_at wf F eff h, dpUnapplyEff_at wf F eff h⟩

/-- *"… (or its geometric class)"*: every entry of the loop nest is multiplied exactly once, by
`block_data[a / cpb][(b / cpb) % num_blocks]` (`apply_block_norm`) / by the geometric factor of its class, `dpGeoIndex`: translated
to the first block and mirrored into its first half (`apply_geo_norm`). -/
theorem C20_dp_apply_block_geo_factor {d : DPDims} (F X : Fan K) (T : Tab K) (nb half : Int) {c : Key} (hc : c ∈ d.canon) :
    (dpApplyBlock d nb F T true).get (d.key c) = F.get (d.key c) * dpBlockFactor d nb T c ∧
      (dpApplyGeo d half X T true).get (d.key c) = X.get (d.key c) * T.get (dpGeoIndex d half c.2.1 c.2.2.2) := by
  constructor
  · unfold dpApplyBlock
    rw [factorFold_true, dpVisitProd_canon _ hc]
  · unfold dpApplyGeo
    rw [factorFold_true, dpVisitProd_canon _ hc]
    rfl

/-- *"For data generated exactly from a model, the model parameters are a fixed point of the maximum-likelihood iterations"* —
`iterate_efficiencies(Array<1,float>&, fan sums, const DetPairData& model)` on the fan sums (`make_fan_sum_data`) of
`apply_efficiencies(model, ε)` returns `ε` (in-place sweep; non-zero efficiencies and denominators, any field). -/
theorem C20_dp_eff_fixed_point (d : DPDims) (model : Fan K) (eff : Tab K) (hne : ∀ a, 0 ≤ a → a ≤ d.N - 1 → eff.get (0, a) ≠ 0)
    (hden : ∀ a, 0 ≤ a → a ≤ d.N - 1 → dpEffDenominator d model eff a ≠ 0) (k : Int × Int) :
    (dpIterateEff d eff (dpMakeFanSums d (dpApplyEff d model eff true)) model).get k = eff.get k :=
  dpIterateEff_fixed d model eff hne hden k

/-- *"0 where the fan sum is 0"* for the `DetPairData` overload -/
theorem C20_dp_dead_detector_gets_zero (d : DPDims) (sums : Tab K) (model : Fan K) (T : Tab K) (a : Int) (h : sums.get (0, a) = 0) :
    (dpEffStep d sums model T a).get (0, a) = 0 :=
  dpEffStep_dead d sums model T a h

end detpair_field

/-- the geometric class of `apply_geo_norm(DetPairData&)` on 8 detectors in blocks of 4 (half fan 2): the entry `(1, 5)` of the first
half block, its translation by one block `(5, 9)`, its mirror image in the ring `(6, 2)` and its mirror image in the block `(2, 6)`
all use the geometric factor `[1][5]` -/
example : dpGeoIndex ⟨8, 2⟩ 2 1 5 = (1, 5) ∧ dpGeoIndex ⟨8, 2⟩ 2 5 9 = (1, 5) ∧ dpGeoIndex ⟨8, 2⟩ 2 6 2 = (1, 5) ∧
    dpGeoIndex ⟨8, 2⟩ 2 2 6 = (1, 5) := by decide

/-- *"every efficiency iteration leaves the Kullback-Leibler distance between symmetric data and the product model no larger than
before"* — the `DetPairData` overload `iterate_efficiencies(Array<1,float>&, fan sums, const DetPairData& model)`: the distance summed
once per detector pair (`dpKLPairs`: the entries `(a,b)` of the loop nest with `a < b % N`) between the data and `ε_a ε_b m_ab`
(`apply_efficiencies` on the model) does not increase, for every `DetPairData` geometry with a fan smaller than the ring.  Hypotheses:
non-negative data and positive model on every entry, data and model symmetric (`(a,b)` and `(b,a)`: segment 0), positive efficiencies,
every detector has a positive fan sum.
Proof (`ProofsDetPairDescent.lean`): refinement to `C20_eff_iteration_descends_on_model` on the `FanProjData` geometry of one ring
`⟨1, N, 0, h⟩` — the loop nests are the same lists of index tuples (`ring_canon`), and for fan data `F` holding the detector-pair data
`P` (`Rep`) the denominators, fan sums, in-place sweeps (`rep_iterateEff`: the same table), `apply_efficiencies` (`rep_applyEff`) and the
Kullback-Leibler sums (`rep_klPairs`) coincide.  (The library's `KL(const DetPairData&, …)`, `dpKL`, visits `(a,b)` and `(b,a)`: for
symmetric data it is twice this sum — checked on the implementation by the oracle `dp-kl-descent`, not stated here.) -/
theorem C20_dp_eff_iteration_descends {dp : DPDims} (wf : dp.WF) (data model : Fan ℝ) (eff : Tab ℝ)
    (hpos : ∀ c ∈ dp.canon, 0 ≤ data.get c ∧ 0 < model.get c)
    (hsym : ∀ a b, dp.inData a b → data.at2 dp a b = data.at2 dp b a ∧ model.at2 dp a b = model.at2 dp b a)
    (heff : ∀ a, 0 ≤ a → a ≤ dp.N - 1 → 0 < eff.get (0, a) ∧ 0 < (dpMakeFanSums dp data).get (0, a)) :
    dpKLPairs Real.log dp data (dpApplyEff dp model (dpIterateEff dp eff (dpMakeFanSums dp data) model) true) 0 ≤
      dpKLPairs Real.log dp data (dpApplyEff dp model eff true) 0 :=
  dpIterateEff_descends wf data model eff hpos hsym heff

/-- The refinement behind it: for one-ring fan data `F` holding the detector-pair data `P`, `iterate_efficiencies` on `FanProjData`
and on `DetPairData` compute the same table (fan sums that agree on the detectors), `apply_efficiencies` keeps the representation and
the once-per-pair Kullback-Leibler sums agree. -/
theorem C20_dp_is_one_ring_fan {dp : DPDims} (wf : dp.WF) {P F : Fan ℝ} (hrep : Rep dp P F) (eff sums : Tab ℝ) :
    iterateEff dp.ring eff sums F = dpIterateEff dp eff sums P ∧ Rep dp (dpApplyEff dp P eff true) (applyEff dp.ring F eff true) ∧
      (∀ a, 0 ≤ a ∧ a ≤ dp.N - 1 → (makeFanSums dp.ring F).get (0, a) = (dpMakeFanSums dp P).get (0, a)) ∧
      ∀ {P2 F2 : Fan ℝ}, Rep dp P2 F2 → klPairs Real.log dp.ring F F2 0 = dpKLPairs Real.log dp P P2 0 :=
  ⟨rep_iterateEff wf hrep eff sums sums (fun _ _ => rfl), rep_applyEff wf hrep eff, fun _ ha => rep_makeFanSums wf hrep ha,
    fun h2 => rep_klPairs wf hrep h2 Real.log 0⟩

/-- hypotheses of `C20_dp_eff_iteration_descends` are satisfiable: 8 detectors, half fan 2, data 3, model 2, efficiencies 1/2 -/
example : ∃ (data model : Fan ℝ) (eff : Tab ℝ), (⟨8, 2⟩ : DPDims).WF ∧
    (∀ c ∈ (⟨8, 2⟩ : DPDims).canon, 0 ≤ data.get c ∧ 0 < model.get c) ∧
    (∀ a b, (⟨8, 2⟩ : DPDims).inData a b →
      data.at2 ⟨8, 2⟩ a b = data.at2 ⟨8, 2⟩ b a ∧ model.at2 ⟨8, 2⟩ a b = model.at2 ⟨8, 2⟩ b a) ∧
    (∀ a, 0 ≤ a → a ≤ (⟨8, 2⟩ : DPDims).N - 1 → 0 < eff.get (0, a) ∧ 0 < (dpMakeFanSums ⟨8, 2⟩ data).get (0, a)) := by
  have wf : (⟨8, 2⟩ : DPDims).WF := by decide
  have hdata : ∀ c ∈ (⟨8, 2⟩ : DPDims).canon, 0 < (dpConst ⟨8, 2⟩ 3).get c := fun c hc => by rw [dpConst_get _ _ hc]; norm_num
  refine ⟨dpConst _ 3, dpConst _ 2, Tab.const ⟨1, 8, 0, 2⟩ (1 / 2), wf, fun c hc => ⟨(hdata c hc).le, by rw [dpConst_get _ _ hc]; norm_num⟩,
    fun a b h => ?_, fun a h0 h1 => ⟨?_, dpMakeFanSums_pos wf _ hdata ⟨h0, h1⟩⟩⟩
  · rw [dpConst_at2 wf _ h, dpConst_at2 wf _ (dpInData_symm wf h), dpConst_at2 wf _ h, dpConst_at2 wf _ (dpInData_symm wf h)]
    exact ⟨rfl, rfl⟩
  · rw [Tab.const_get ⟨1, 8, 0, 2⟩ _ (mem_dets.2 ⟨⟨le_refl _, by show (0 : Int) ≤ 1 - 1; decide⟩, ⟨h0, h1⟩⟩)]
    norm_num

/-! ## 8. The versions without model -/

section nomodel
variable {K : Type} [Field K] [DecidableEq K]

/-- `iterate_efficiencies(efficiencies, data_fan_sums, max_ring_diff, half_fan_size)` ("version without model") **is**
`iterate_efficiencies(efficiencies, data_fan_sums, model)` with the `FanProjData` that holds `1` in every element, and
`make_fan_sum_data(fan_sums, efficiencies, max_ring_diff, half_fan_size)` gives the fan sums of `apply_efficiencies` on that model —
for every well-formed geometry, any field.  Hence every theorem of §5–§6 about `iterateEff` / `makeFanSums` holds for them. -/
theorem C20_no_model_is_model_of_ones {d : Dims} (wf : d.WF) (eff sums : Tab K) :
    iterateEffNM d eff sums = iterateEff d eff sums (Fan.const d 1) ∧
      ∀ x ∈ d.dets, (makeFanSumsNM d eff).get x = (makeFanSums d (applyEff d (Fan.const d 1) eff true)).get x :=
  ⟨iterateEffNM_eq wf eff sums, fun _ hx => makeFanSumsNM_eq_model wf eff hx⟩

end nomodel

section nomodel_ordered
variable {K : Type} [Field K] [LinearOrder K] [IsStrictOrderedRing K]

/-- *"For data generated exactly from a model, the model parameters are a fixed point …"* — the model-free pair: fan sums made by
`make_fan_sum_data(…, efficiencies, max_ring_diff, half_fan_size)` from positive efficiencies are reproduced by the model-free
`iterate_efficiencies`. -/
theorem C20_eff_fixed_point_no_model {d : Dims} (wf : d.WF) (eff : Tab K) (heff : ∀ x ∈ d.dets, 0 < eff.get x) (k : Int × Int) :
    (iterateEffNM d eff (makeFanSumsNM d eff)).get k = eff.get k :=
  iterateEffNM_fixed wf eff heff k

end nomodel_ordered

/-- *"every efficiency iteration leaves the Kullback-Leibler distance between symmetric data and the product model no larger than
before"* — the model-free overload: product model `ε_a ε_b` on every LOR of the window. -/
theorem C20_eff_iteration_descends_no_model {d : Dims} (wf : d.WF) (data : Fan ℝ) (eff : Tab ℝ)
    (hpos : ∀ c ∈ d.canon, 0 ≤ data.get (d.key c))
    (hsym : ∀ ra a rb b, d.inWindow ra a rb b → data.at d ra a rb b = data.at d rb b ra a)
    (heff : ∀ x ∈ d.dets, 0 < eff.get x ∧ 0 < (makeFanSums d data).get x) :
    klPairs Real.log d data (applyEff d (Fan.const d 1) (iterateEffNM d eff (makeFanSums d data)) true) 0 ≤
      klPairs Real.log d data (applyEff d (Fan.const d 1) eff true) 0 :=
  iterateEffNM_descends_klPairs wf data eff hpos hsym heff

/-- hypotheses of `C20_eff_fixed_point_no_model` / `C20_eff_iteration_descends_no_model` are satisfiable (2 rings of 8 detectors, ring
difference 1, half fan 2; efficiencies 1/2, data 3) -/
example : ∃ (eff : Tab ℝ) (data : Fan ℝ), (⟨2, 8, 1, 2⟩ : Dims).WF ∧
    (∀ c ∈ (⟨2, 8, 1, 2⟩ : Dims).canon, 0 ≤ data.get ((⟨2, 8, 1, 2⟩ : Dims).key c)) ∧
    (∀ ra a rb b, (⟨2, 8, 1, 2⟩ : Dims).inWindow ra a rb b → data.at ⟨2, 8, 1, 2⟩ ra a rb b = data.at ⟨2, 8, 1, 2⟩ rb b ra a) ∧
    (∀ x ∈ (⟨2, 8, 1, 2⟩ : Dims).dets, 0 < eff.get x ∧ 0 < (makeFanSums ⟨2, 8, 1, 2⟩ data).get x) := by
  have wf : (⟨2, 8, 1, 2⟩ : Dims).WF := by decide
  have hdata : ∀ c ∈ (⟨2, 8, 1, 2⟩ : Dims).canon, 0 < (Fan.const ⟨2, 8, 1, 2⟩ (3 : ℝ)).get ((⟨2, 8, 1, 2⟩ : Dims).key c) := fun c hc => by
    rw [Fan.const_get _ _ hc]; norm_num
  exact ⟨Tab.const _ (1 / 2), Fan.const _ 3, wf, fun c hc => (hdata c hc).le,
    fun ra a rb b h => by rw [Fan.const_at wf _ h, Fan.const_at wf _ (inWindow_symm wf h)],
    fun x hx => ⟨by rw [Tab.const_get _ _ hx]; norm_num, makeFanSums_pos wf _ hdata hx⟩⟩

end StirVerif.C20
