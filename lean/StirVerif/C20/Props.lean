import StirVerif.C20.Model
namespace StirVerif.C20
end StirVerif.C20
