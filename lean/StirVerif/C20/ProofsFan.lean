import StirVerif.C20.ProofsStore
import StirVerif.C20.ProofsGap
/-! # C20 — projection data → fan data → projection data (`make_fan_data_remove_gaps`, `set_fan_data_add_gaps`) -/
namespace StirVerif.C20
set_option linter.unusedSectionVars false

/-- the detector pair named the other way round -/
def DetPair.swap (p : DetPair) : DetPair := ⟨p.b, p.rb, p.a, p.ra⟩

/-- `(ra,a,rb,b) ↦ (rb,b,ra,a)` -/
def swapKey (c : Key) : Key := (c.2.2.1, c.2.2.2, c.1, c.2.1)

theorem newCoords_eq_some_iff (s : Scn) (p : DetPair) (c : Key) :
    newCoords s p = some c ↔
      isVirtual p.a s.tcpb s.vt = false ∧ isVirtual p.ra s.acpb s.va = false ∧ isVirtual p.b s.tcpb s.vt = false ∧
        isVirtual p.rb s.acpb s.va = false ∧
        c = (removeGap p.ra s.acpb s.va, removeGap p.a s.tcpb s.vt, removeGap p.rb s.acpb s.va, removeGap p.b s.tcpb s.vt) := by
  unfold newCoords
  cases h1 : isVirtual p.a s.tcpb s.vt <;> cases h2 : isVirtual p.ra s.acpb s.va <;>
    cases h3 : isVirtual p.b s.tcpb s.vt <;> cases h4 : isVirtual p.rb s.acpb s.va <;> simp [eq_comm]

theorem newCoords_eq_none_iff (s : Scn) (p : DetPair) :
    newCoords s p = none ↔
      (isVirtual p.a s.tcpb s.vt = true ∨ isVirtual p.ra s.acpb s.va = true ∨ isVirtual p.b s.tcpb s.vt = true ∨
        isVirtual p.rb s.acpb s.va = true) := by
  unfold newCoords
  cases h1 : isVirtual p.a s.tcpb s.vt <;> cases h2 : isVirtual p.ra s.acpb s.va <;>
    cases h3 : isVirtual p.b s.tcpb s.vt <;> cases h4 : isVirtual p.rb s.acpb s.va <;> simp

theorem newCoords_swap (s : Scn) (p : DetPair) (c : Key) (h : newCoords s p = some c) :
    newCoords s p.swap = some (swapKey c) := by
  obtain ⟨h1, h2, h3, h4, rfl⟩ := (newCoords_eq_some_iff s p c).1 h
  exact (newCoords_eq_some_iff s p.swap _).2 ⟨h3, h4, h1, h2, rfl⟩

/-- a scanner whose blocks have at least one physical crystal each way -/
structure Scn.WF (s : Scn) : Prop where
  hvt : 0 ≤ s.vt ∧ s.vt < s.tcpb
  hva : 0 ≤ s.va ∧ s.va < s.acpb

instance (s : Scn) : Decidable s.WF :=
  decidable_of_iff ((0 ≤ s.vt ∧ s.vt < s.tcpb) ∧ (0 ≤ s.va ∧ s.va < s.acpb)) ⟨fun ⟨a, b⟩ => ⟨a, b⟩, fun ⟨a, b⟩ => ⟨a, b⟩⟩

/-- detector indices are non-negative -/
def DetPair.nonneg (p : DetPair) : Prop := 0 ≤ p.a ∧ 0 ≤ p.ra ∧ 0 ≤ p.b ∧ 0 ≤ p.rb

instance (p : DetPair) : Decidable p.nonneg := by unfold DetPair.nonneg; infer_instance

/-- **gap removal loses nothing**: two physical detector pairs with the same physical indices are the same pair. -/
theorem newCoords_injective {s : Scn} (ws : s.WF) {p p' : DetPair} (hp : p.nonneg) (hp' : p'.nonneg) {c : Key}
    (h : newCoords s p = some c) (h' : newCoords s p' = some c) : p = p' := by
  obtain ⟨h1, h2, h3, h4, e⟩ := (newCoords_eq_some_iff s p c).1 h
  obtain ⟨g1, g2, g3, g4, e'⟩ := (newCoords_eq_some_iff s p' c).1 h'
  rw [e] at e'
  simp only [Prod.mk.injEq] at e'
  obtain ⟨e1, e2, e3, e4⟩ := e'
  obtain ⟨a, ra, b, rb⟩ := p
  obtain ⟨a', ra', b', rb'⟩ := p'
  obtain ⟨n1, n2, n3, n4⟩ := hp
  obtain ⟨m1, m2, m3, m4⟩ := hp'
  simp only at *
  have := removeGap_injective_on_physical n1 m1 ws.hvt.1 ws.hvt.2 h1 g1 e2
  have := removeGap_injective_on_physical n2 m2 ws.hva.1 ws.hva.2 h2 g2 e1
  have := removeGap_injective_on_physical n3 m3 ws.hvt.1 ws.hvt.2 h3 g3 e4
  have := removeGap_injective_on_physical n4 m4 ws.hva.1 ws.hva.2 h4 g4 e3
  subst_vars
  rfl

section
variable {K : Type} [OfNat K 0]

/-- does the bin `pv` write the array element `k`? (both orders of the detector pair are written) -/
def writesTo (s : Scn) (d : Dims) (p : DetPair) (k : Key) : Prop :=
  ∃ c, newCoords s p = some c ∧ (d.key c = k ∨ d.key (swapKey c) = k)

theorem makeFanStep_get (s : Scn) (d : Dims) (F : Fan K) (pv : DetPair × K) (k : Key) :
    (writesTo s d pv.1 k → (makeFanStep s d F pv).get k = pv.2) ∧
      (¬ writesTo s d pv.1 k → (makeFanStep s d F pv).get k = F.get k) := by
  unfold makeFanStep
  cases h : newCoords s pv.1 with
  | none =>
    have hn : ¬ writesTo s d pv.1 k := by rintro ⟨c, hc, _⟩; rw [h] at hc; cases hc
    exact ⟨fun hw => absurd hw hn, fun _ => rfl⟩
  | some c =>
    obtain ⟨nra, na, nrb, nb⟩ := c
    simp only [Fan.put]
    rw [Fan.get_set, Fan.get_set]
    by_cases h1 : d.storeKey nra na nrb nb = k
    · have hw : writesTo s d pv.1 k := ⟨_, h, Or.inl h1⟩
      exact ⟨fun _ => by simp [h1], fun hn => absurd hw hn⟩
    · by_cases h2 : d.storeKey nrb nb nra na = k
      · have hw : writesTo s d pv.1 k := ⟨_, h, Or.inr h2⟩
        exact ⟨fun _ => by simp [h1, h2], fun hn => absurd hw hn⟩
      · have hn : ¬ writesTo s d pv.1 k := by
          rintro ⟨c, hc, hk⟩
          rw [h] at hc
          cases hc
          rcases hk with hk | hk
          · exact h1 hk
          · exact h2 hk
        exact ⟨fun hw => absurd hw hn, fun _ => by simp [h1, h2]⟩

/-- after the bin loop an array element holds the common value of the bins that wrote it -/
theorem makeFan_fold_get (s : Scn) (d : Dims) (bins : List (DetPair × K)) (k : Key) (v : K)
    (hall : ∀ pv ∈ bins, writesTo s d pv.1 k → pv.2 = v) (F : Fan K)
    (h0 : F.get k = v ∨ ∃ pv ∈ bins, writesTo s d pv.1 k) : (bins.foldl (makeFanStep s d) F).get k = v := by
  classical
  induction bins generalizing F with
  | nil =>
    rcases h0 with h | ⟨pv, hpv, _⟩
    · exact h
    · simp at hpv
  | cons pv rest ih =>
    rw [List.foldl_cons]
    apply ih (fun pv' hpv' => hall pv' (by simp [hpv']))
    obtain ⟨hyes, hno⟩ := makeFanStep_get s d F pv k
    by_cases hw : writesTo s d pv.1 k
    · left
      rw [hyes hw, hall pv (by simp) hw]
    · rcases h0 with h | ⟨pv', hpv', hw'⟩
      · left
        rw [hno hw, h]
      · rcases List.mem_cons.1 hpv' with e | e
        · subst e
          exact absurd hw' hw
        · right
          exact ⟨pv', e, hw'⟩

/-- **each fan entry is the value of the bin that the geometry assigns to that detector pair**: after
`make_fan_data_remove_gaps`, `fan_data(new_ra,new_a,new_rb,new_b)` — and `fan_data(new_rb,new_b,new_ra,new_a)` — hold the
value of the bin, provided the physical detector pairs are inside the window (`hwin`) and no other bin of the loop is the same
unordered physical pair with a different value (`hinj`: the detector-pair ↔ bin map is a bijection, property C01). -/
theorem makeFan_at {d : Dims} (wf : d.WF) (s : Scn) (bins : List (DetPair × K))
    (hwin : ∀ pv ∈ bins, ∀ c, newCoords s pv.1 = some c → d.inWindow c.1 c.2.1 c.2.2.1 c.2.2.2)
    (hinj : ∀ pv ∈ bins, ∀ pv' ∈ bins, ∀ c c', newCoords s pv.1 = some c → newCoords s pv'.1 = some c' →
      (c' = c ∨ c' = swapKey c) → pv'.2 = pv.2)
    {pv : DetPair × K} (hpv : pv ∈ bins) {c : Key} (hc : newCoords s pv.1 = some c) :
    (makeFan s d bins).get (d.key c) = pv.2 ∧ (makeFan s d bins).get (d.key (swapKey c)) = pv.2 := by
  have hwc := hwin pv hpv c hc
  have hwc' : d.inWindow (swapKey c).1 (swapKey c).2.1 (swapKey c).2.2.1 (swapKey c).2.2.2 := inWindow_symm wf hwc
  -- any bin writing key c or key (swap c) is the same unordered pair
  have key_cases : ∀ (c₀ : Key), (c₀ = c ∨ c₀ = swapKey c) → ∀ pv' ∈ bins, writesTo s d pv'.1 (d.key c₀) → pv'.2 = pv.2 := by
    intro c₀ hc₀ pv' hpv' ⟨c', hc', hk⟩
    have hw' := hwin pv' hpv' c' hc'
    have hw'' : d.inWindow (swapKey c').1 (swapKey c').2.1 (swapKey c').2.2.1 (swapKey c').2.2.2 := inWindow_symm wf hw'
    have hw₀ : d.inWindow c₀.1 c₀.2.1 c₀.2.2.1 c₀.2.2.2 := by
      rcases hc₀ with rfl | rfl
      · exact hwc
      · exact hwc'
    apply hinj pv hpv pv' hpv' c c' hc hc'
    -- from equal storage indices to equal / swapped index tuples
    have hrel : c' = c₀ ∨ c' = swapKey c₀ := by
      rcases hk with hk | hk
      · rcases (storeKey_eq_iff wf hw' hw₀).1 hk with ⟨e1, e2, e3, e4⟩ | ⟨_, e1, e2, e3, e4⟩
        · left
          exact Prod.ext e1.symm (Prod.ext e2.symm (Prod.ext e3.symm e4.symm))
        · right
          exact Prod.ext e3.symm (Prod.ext e4.symm (Prod.ext e1.symm e2.symm))
      · rcases (storeKey_eq_iff wf hw'' hw₀).1 hk with ⟨e1, e2, e3, e4⟩ | ⟨_, e1, e2, e3, e4⟩
        · right
          exact Prod.ext e3.symm (Prod.ext e4.symm (Prod.ext e1.symm e2.symm))
        · left
          exact Prod.ext e1.symm (Prod.ext e2.symm (Prod.ext e3.symm e4.symm))
    rcases hc₀ with rfl | rfl
    · exact hrel
    · rcases hrel with h | h
      · right; exact h
      · left; rw [h]; rfl
  unfold makeFan
  constructor
  · exact makeFan_fold_get s d bins _ _ (key_cases c (Or.inl rfl)) _ (Or.inr ⟨pv, hpv, c, hc, Or.inl rfl⟩)
  · exact makeFan_fold_get s d bins _ _ (key_cases _ (Or.inr rfl)) _ (Or.inr ⟨pv, hpv, c, hc, Or.inr rfl⟩)

/-- **projection data → fan data → projection data is the identity on the bins of the window, and the bins of virtual
crystals get the requested gap value.** -/
theorem fan_roundtrip {d : Dims} (wf : d.WF) (s : Scn) (bins : List (DetPair × K)) (gap : K)
    (hwin : ∀ pv ∈ bins, ∀ c, newCoords s pv.1 = some c → d.inWindow c.1 c.2.1 c.2.2.1 c.2.2.2)
    (hinj : ∀ pv ∈ bins, ∀ pv' ∈ bins, ∀ c c', newCoords s pv.1 = some c → newCoords s pv'.1 = some c' →
      (c' = c ∨ c' = swapKey c) → pv'.2 = pv.2) :
    setFan s d (makeFan s d bins) gap (bins.map Prod.fst) =
      bins.map fun pv => if (newCoords s pv.1).isNone then gap else pv.2 := by
  unfold setFan
  rw [List.map_map]
  apply List.map_congr_left
  intro pv hpv
  simp only [Function.comp]
  cases hc : newCoords s pv.1 with
  | none => simp
  | some c =>
    obtain ⟨nra, na, nrb, nb⟩ := c
    simp only [Option.isNone_some, Bool.false_eq_true, if_false]
    exact (makeFan_at wf s bins hwin hinj hpv hc).1

/-- the bijection hypothesis in terms of the detector pairs themselves (this is what property C01 provides for the bins of
one data set): gap removal is injective, so distinct unordered detector pairs stay distinct. -/
theorem hinj_of_detPairs {s : Scn} (ws : s.WF) (bins : List (DetPair × K)) (hnn : ∀ pv ∈ bins, pv.1.nonneg)
    (hdist : ∀ pv ∈ bins, ∀ pv' ∈ bins, (pv'.1 = pv.1 ∨ pv'.1 = pv.1.swap) → pv'.2 = pv.2) :
    ∀ pv ∈ bins, ∀ pv' ∈ bins, ∀ c c', newCoords s pv.1 = some c → newCoords s pv'.1 = some c' →
      (c' = c ∨ c' = swapKey c) → pv'.2 = pv.2 := by
  intro pv hpv pv' hpv' c c' hc hc' hrel
  apply hdist pv hpv pv' hpv'
  rcases hrel with rfl | rfl
  · left
    exact newCoords_injective ws (hnn pv' hpv') (hnn pv hpv) hc' hc
  · right
    have hsw := newCoords_swap s pv.1 c hc
    have hnn' : pv.1.swap.nonneg := by
      obtain ⟨h1, h2, h3, h4⟩ := hnn pv hpv
      exact ⟨h3, h4, h1, h2⟩
    exact newCoords_injective ws (hnn pv' hpv') hnn' hc' hsw

end
/-- the physical detector pair of a bin is inside the window of the fan data (always the case for at most one virtual crystal
per block — what STIR's scanners have; checked on every bin by the harness) -/
def winOK (s : Scn) (d : Dims) (p : DetPair) : Bool :=
  match newCoords s p with
  | none => true
  | some c => decide (d.inWindow c.1 c.2.1 c.2.2.1 c.2.2.2)

theorem winOK_spec {s : Scn} {d : Dims} {p : DetPair} (h : winOK s d p = true) (c : Key) (hc : newCoords s p = some c) :
    d.inWindow c.1 c.2.1 c.2.2.1 c.2.2.2 := by
  unfold winOK at h
  rw [hc] at h
  simpa using h


/-! ### example data (used by the non-vacuity examples of `Props.lean`) -/

/-- a ring of 2 blocks of 2+1 crystals (6 detectors, 4 physical), 3 views × tangential positions -1..1 with the detector
pairs of STIR's `get_det_pair_for_bin` and distinct values -/
def exampleScn : Scn := ⟨6, 1, 3, 1, 1, 0, 2, 1, -1, 1, 0, true, 1, 0, false⟩
def exampleBins : List (DetPair × Int) :=
  [(⟨5, 0, 3, 0⟩, 1), (⟨0, 0, 3, 0⟩, 2), (⟨0, 0, 2, 0⟩, 3), (⟨0, 0, 4, 0⟩, 4), (⟨1, 0, 4, 0⟩, 5), (⟨1, 0, 3, 0⟩, 6),
   (⟨1, 0, 5, 0⟩, 7), (⟨2, 0, 5, 0⟩, 8), (⟨2, 0, 4, 0⟩, 9)]


end StirVerif.C20
