import StirVerif.C20.ProofsPos
/-! # C20 — block factors: `make_block_data` as class sums, fixed point of `iterate_block_norm` -/
namespace StirVerif.C20
set_option linter.unusedSectionVars false

/-- the element of the block data addressed for the fan-data loop indices `c`:
`block_data(ra / num_axial_crystals_per_block, a / …, rb / …, b / …)` -/
def blockKey (d bd : Dims) (c : Key) : Key :=
  bd.storeKey (Int.tdiv c.1 (Int.tdiv d.R bd.R)) (Int.tdiv c.2.1 (Int.tdiv d.N bd.N)) (Int.tdiv c.2.2.1 (Int.tdiv d.R bd.R))
    (Int.tdiv c.2.2.2 (Int.tdiv d.N bd.N))

section
variable {K : Type} [Field K] [LinearOrder K] [IsStrictOrderedRing K]

theorem blockFactor_eq (d bd : Dims) (blk : Fan K) (c : Key) : blockFactor d bd blk c = blk.get (blockKey d bd c) := rfl

/-- accumulation loop: every element ends up with its initial value plus the sum of the contributions addressed to it -/
theorem accFold_get (bk : Key → Key) (v : Key → K) (cs : List Key) (B : Fan K) (k : Key) :
    (cs.foldl (fun B c => B.set (bk c) (B.get (bk c) + v c)) B).get k
      = B.get k + ((cs.filter fun c => bk c = k).map v).sum := by
  induction cs generalizing B with
  | nil => simp
  | cons c cs ih =>
    rw [List.foldl_cons, ih, Fan.get_set]
    by_cases h : bk c = k
    · simp only [h, if_true, List.filter_cons, decide_true, List.map_cons, List.sum_cons]
      ring
    · simp [h]

theorem makeBlock_eq_fold (d bd : Dims) (F : Fan K) :
    makeBlock d bd F = d.canon.foldl (fun B c => B.set (blockKey d bd c) (B.get (blockKey d bd c) + F.get (d.key c))) {} := by
  unfold makeBlock
  congr 1

/-- `make_block_data`: each element of the block data is the sum of the fan entries of its pair of blocks -/
theorem makeBlock_get (d bd : Dims) (F : Fan K) (k : Key) :
    (makeBlock d bd F).get k = ((d.canon.filter fun c => blockKey d bd c = k).map fun c => F.get (d.key c)).sum := by
  rw [makeBlock_eq_fold, accFold_get, Fan.get_empty, zero_add]

/-- an update loop that visits every element once replaces each visited element by the function of its old value -/
theorem updFold_get (key : Key → Key) (φ : Key → K → K) (cs : List Key) (hn : cs.Nodup)
    (hinj : ∀ c ∈ cs, ∀ c' ∈ cs, key c = key c' → c = c') (B : Fan K) {c : Key} (hc : c ∈ cs) :
    (cs.foldl (fun B c => B.set (key c) (φ c (B.get (key c)))) B).get (key c) = φ c (B.get (key c)) := by
  have hstay : ∀ (l : List Key) (B : Fan K) (k : Key), (∀ c' ∈ l, key c' ≠ k) →
      (l.foldl (fun B c => B.set (key c) (φ c (B.get (key c)))) B).get k = B.get k := by
    intro l
    induction l with
    | nil => intro B k _; rfl
    | cons z l ih =>
      intro B k hz
      rw [List.foldl_cons, ih _ _ (fun c' hc' => hz c' (by simp [hc']))]
      exact Fan.get_set_ne _ _ (hz z (by simp))
  induction cs generalizing B with
  | nil => simp at hc
  | cons x l ih =>
    rw [List.nodup_cons] at hn
    rw [List.foldl_cons]
    by_cases hx : c = x
    · subst hx
      rw [hstay l _ _ (fun c' hc' hk => hn.1 ((hinj c' (by simp [hc']) c (by simp) hk) ▸ hc')), Fan.get_set_eq]
    · have hcl : c ∈ l := by
        rcases List.mem_cons.1 hc with h | h
        · exact absurd h hx
        · exact h
      rw [ih hn.2 (fun a ha b hb => hinj a (by simp [ha]) b (by simp [hb])) _ hcl]
      have hne : key x ≠ key c := fun hk => hx (hinj x (by simp) c (by simp [hcl]) hk).symm
      rw [Fan.get_set_ne _ _ hne]

theorem iterateBlock_eq_fold (d bd : Dims) (measured model : Fan K) :
    iterateBlock d bd measured model =
      bd.canon.foldl (fun B c => B.set (bd.key c)
        (ratioOrZero (findMax (bd.canon.map fun c => measured.at bd c.1 c.2.1 c.2.2.1 c.2.2.2) / 10000) (measured.get (bd.key c))
          (B.get (bd.key c)))) (makeBlock d bd model) := by
  unfold iterateBlock
  congr 1

/-- **fixed point of `iterate_block_norm`**: for data generated exactly as `block factor × model`, the iteration returns the
block factor of every pair of blocks that has a LOR inside the window — provided the block pairs of the window are inside the
index range of the block data (`halloc`; violated exactly when the fan contains two crystals of one block, where the C++ reads
out of range), the model is positive and the factors are below the hard-wired `10000`. -/
theorem iterateBlock_fixed {d bd : Dims} (wf : d.WF) (wfb : bd.WF) (model blk : Fan K)
    (hmodel : ∀ c ∈ d.canon, 0 < model.get (d.key c))
    (halloc : ∀ c ∈ d.canon, bd.allocated (blockKey d bd c) = true)
    (hblk : ∀ c ∈ d.canon, blk.get (blockKey d bd c) < 10000) {c : Key} (hc : c ∈ d.canon) :
    (iterateBlock d bd (makeBlock d bd (applyBlock d bd model blk true)) model).get (blockKey d bd c)
      = blk.get (blockKey d bd c) := by
  classical
  obtain ⟨c', hc', hk'⟩ := exists_canon_of_allocated wfb (halloc c hc)
  rw [iterateBlock_eq_fold, ← hk',
    updFold_get bd.key _ bd.canon (canon_nodup bd) (fun a ha b hb h => key_injOn_canon wfb ha hb h) _ hc', hk']
  -- measured class sum = factor × model class sum
  have hmeas : (makeBlock d bd (applyBlock d bd model blk true)).get (blockKey d bd c)
      = blk.get (blockKey d bd c) * (makeBlock d bd model).get (blockKey d bd c) := by
    rw [makeBlock_get, makeBlock_get, ← sum_map_mul_left']
    apply sum_map_congr
    intro x hx
    obtain ⟨hxc, hxk⟩ := List.mem_filter.1 hx
    have hxk' : blockKey d bd x = blockKey d bd c := by simpa using hxk
    rw [applyBlock_get_key wf model blk hxc, blockFactor_eq, hxk']
    ring
  have hpos : 0 < (makeBlock d bd model).get (blockKey d bd c) := by
    rw [makeBlock_get]
    apply list_sum_pos_of_pos
    · intro hnil
      have : c ∈ d.canon.filter fun x => blockKey d bd x = blockKey d bd c := List.mem_filter.2 ⟨hc, by simp⟩
      rw [hnil] at this
      simp at this
    · intro x hx
      exact hmodel x (List.mem_filter.1 hx).1
  rw [hmeas]
  exact ratioOrZero_fixed _ _ _ hpos (hblk c hc)

end
end StirVerif.C20
