import StirVerif.C20.Model
import Mathlib.Analysis.SpecialFunctions.Log.Basic
import Mathlib.Algebra.BigOperators.Group.Finset.Basic
import Mathlib.Algebra.Order.BigOperators.Group.Finset
import Mathlib.Tactic.Ring
import Mathlib.Tactic.Linarith
import Mathlib.Tactic.FieldSimp
/-! # C20 — the efficiency update is exact coordinate descent of the Kullback-Leibler distance

Abstract formulation over `ℝ`: detectors are an arbitrary finite type `ι`, `y a b` the (symmetric) data and `m a b` the
(symmetric) model of the detector pair `{a,b}`, `0` for pairs outside the fan window.  The distance is summed over ordered
pairs, i.e. every detector pair counts twice — a constant factor.  `kl0` is the model's `klTerm` (the C++ `KL(a, b, 0)`)
with `log := Real.log`.  `effUpdate` is the assignment of `iterate_efficiencies` to one detector with the *current* values
of all the others (the loop is in place), `effSweep` a sequence of such assignments. -/
namespace StirVerif.C20
set_option linter.unusedSectionVars false
open Finset

/-- `KL(a, b, 0)` of `ML_norm.h` over the reals -/
noncomputable def kl0 (a b : ℝ) : ℝ := klTerm Real.log a b 0

theorem kl0_of_nonpos {a : ℝ} (ha : a ≤ 0) (b : ℝ) : kl0 a b = b := by
  unfold kl0 klTerm
  simp [not_lt.2 ha]

theorem kl0_of_pos {a : ℝ} (ha : 0 < a) (b : ℝ) : kl0 a b = a * (Real.log a - Real.log b) + b - a := by
  unfold kl0 klTerm
  simp [ha]

section
variable {ι : Type} [Fintype ι] [DecidableEq ι]

/-- the fan sum of detector `k` -/
def fanSumR (y : ι → ι → ℝ) (k : ι) : ℝ := ∑ b, y k b
/-- the denominator of `iterate_efficiencies` for detector `k` -/
def denomR (m : ι → ι → ℝ) (ε : ι → ℝ) (k : ι) : ℝ := ∑ b, ε b * m k b

/-- one assignment of `iterate_efficiencies`: `ε_k ← fan_sum_k == 0 ? 0 : fan_sum_k / Σ_b ε_b·m_kb` -/
noncomputable def effUpdate (y m : ι → ι → ℝ) (ε : ι → ℝ) (k : ι) : ι → ℝ :=
  Function.update ε k (if fanSumR y k = 0 then 0 else fanSumR y k / denomR m ε k)

/-- the in-place sweep over the detectors `l` -/
noncomputable def effSweep (y m : ι → ι → ℝ) (ε : ι → ℝ) (l : List ι) : ι → ℝ := l.foldl (effUpdate y m) ε

/-- Kullback-Leibler distance between the data and the product model `ε_a ε_b m_ab` (ordered pairs) -/
noncomputable def klObjective (y m : ι → ι → ℝ) (ε : ι → ℝ) : ℝ := ∑ a, ∑ b, kl0 (y a b) (ε a * ε b * m a b)

/-- the hypotheses on data and model: non-negative, symmetric, no detector paired with itself, data only where the model
is positive -/
structure PairData (y m : ι → ι → ℝ) : Prop where
  y_nonneg : ∀ a b, 0 ≤ y a b
  m_nonneg : ∀ a b, 0 ≤ m a b
  y_symm : ∀ a b, y a b = y b a
  m_symm : ∀ a b, m a b = m b a
  y_diag : ∀ a, y a a = 0
  m_diag : ∀ a, m a a = 0
  supp : ∀ a b, 0 < y a b → 0 < m a b

/-- a sum over ordered pairs of a function that vanishes off row and column `k`, is symmetric and vanishes at `(k,k)` -/
theorem sum_cross (δ : ι → ι → ℝ) (k : ι) (h0 : ∀ a b, a ≠ k → b ≠ k → δ a b = 0) (hs : ∀ a, δ a k = δ k a) (hkk : δ k k = 0) :
    ∑ a, ∑ b, δ a b = 2 * ∑ b, δ k b := by
  have hrow : ∀ a, ∑ b, δ a b = δ a k + if a = k then ∑ b, δ k b else 0 := by
    intro a
    by_cases ha : a = k
    · subst ha
      simp [hkk]
    · simp only [ha, if_false, add_zero]
      exact Finset.sum_eq_single k (fun b _ hb => h0 a b ha hb) (fun h => absurd (Finset.mem_univ k) h)
  rw [Finset.sum_congr rfl (fun a _ => hrow a), Finset.sum_add_distrib, Finset.sum_ite_eq' Finset.univ k,
    Finset.sum_congr rfl (fun a _ => hs a)]
  simp only [Finset.mem_univ, if_true]
  ring

/-- the change of one term when the efficiency of one of its detectors changes from `t` to `t'` -/
theorem kl0_diff {yv c t t' : ℝ} (hy : 0 ≤ yv) (_hc : 0 ≤ c) (hsupp : 0 < yv → 0 < c) (ht : 0 < t) (ht' : 0 < yv → 0 < t') :
    kl0 yv (t' * c) - kl0 yv (t * c) = -yv * (Real.log t' - Real.log t) + (t' - t) * c := by
  rcases hy.eq_or_lt with h | h
  · rw [← h, kl0_of_nonpos le_rfl, kl0_of_nonpos le_rfl]
    ring
  · have hc' := hsupp h
    have ht'' := ht' h
    rw [kl0_of_pos h, kl0_of_pos h, Real.log_mul ht''.ne' hc'.ne', Real.log_mul ht.ne' hc'.ne']
    ring

theorem denomR_pos {y m : ι → ι → ℝ} (P : PairData y m) {ε : ι → ℝ} (hε : ∀ a, 0 < ε a) {k : ι} (hS : 0 < fanSumR y k) :
    0 < denomR m ε k := by
  unfold fanSumR at hS
  obtain ⟨b, _, hb⟩ := Finset.exists_lt_of_sum_lt (s := Finset.univ) (f := fun _ => (0 : ℝ)) (g := fun b => y k b) (by simpa using hS)
  have hmb := P.supp k b hb
  unfold denomR
  calc (0 : ℝ) < ε b * m k b := mul_pos (hε b) hmb
    _ ≤ ∑ b, ε b * m k b :=
      Finset.single_le_sum (f := fun b => ε b * m k b) (fun b _ => mul_nonneg (hε b).le (P.m_nonneg k b)) (Finset.mem_univ b)

/-- **one assignment of `iterate_efficiencies` does not increase the Kullback-Leibler distance** between symmetric data and the
product model (it is the exact minimiser in that coordinate). -/
theorem effUpdate_descends {y m : ι → ι → ℝ} (P : PairData y m) {ε : ι → ℝ} (hε : ∀ a, 0 < ε a) (k : ι) :
    klObjective y m (effUpdate y m ε k) ≤ klObjective y m ε := by
  set S := fanSumR y k with hSdef
  set D := denomR m ε k with hDdef
  set t' : ℝ := if S = 0 then 0 else S / D with ht'def
  set ε' := effUpdate y m ε k with hε'def
  have hε'k : ε' k = t' := by simp [hε'def, effUpdate, ht'def, hSdef, hDdef]
  have hε'ne : ∀ a, a ≠ k → ε' a = ε a := by
    intro a ha
    simp [hε'def, effUpdate, Function.update_of_ne ha]
  have hS0 : 0 ≤ S := Finset.sum_nonneg fun b _ => P.y_nonneg k b
  have hD0 : 0 ≤ D := Finset.sum_nonneg fun b _ => mul_nonneg (hε b).le (P.m_nonneg k b)
  -- the difference of the two objectives, term by term
  let δ : ι → ι → ℝ := fun a b => kl0 (y a b) (ε' a * ε' b * m a b) - kl0 (y a b) (ε a * ε b * m a b)
  have hdiff : klObjective y m ε' - klObjective y m ε = ∑ a, ∑ b, δ a b := by
    unfold klObjective
    rw [← Finset.sum_sub_distrib]
    exact Finset.sum_congr rfl fun a _ => by rw [← Finset.sum_sub_distrib]
  have h0 : ∀ a b, a ≠ k → b ≠ k → δ a b = 0 := by
    intro a b ha hb
    simp only [δ, hε'ne a ha, hε'ne b hb, sub_self]
  have hs : ∀ a, δ a k = δ k a := by
    intro a
    simp only [δ]
    rw [P.y_symm a k, P.m_symm a k, mul_comm (ε' a) (ε' k), mul_comm (ε a) (ε k)]
  have hkk : δ k k = 0 := by
    simp only [δ, P.m_diag k, mul_zero, sub_self]
  rw [← sub_nonpos, hdiff, sum_cross δ k h0 hs hkk]
  -- row k
  have ht'pos : 0 < S → 0 < t' := by
    intro hS
    have hD : 0 < D := denomR_pos P hε hS
    simp only [ht'def, hS.ne', if_false]
    exact div_pos hS hD
  have hrow : ∀ b, δ k b = -(y k b) * (Real.log t' - Real.log (ε k)) + (t' - ε k) * (ε b * m k b) := by
    intro b
    by_cases hb : b = k
    · subst hb
      rw [hkk, P.y_diag, P.m_diag]
      ring
    · simp only [δ, hε'k, hε'ne b hb]
      have hypos : 0 < y k b → 0 < t' := fun h =>
        ht'pos (lt_of_lt_of_le h (Finset.single_le_sum (f := fun b => y k b) (fun b _ => P.y_nonneg k b) (Finset.mem_univ b)))
      have := kl0_diff (yv := y k b) (c := ε b * m k b) (t := ε k) (t' := t') (P.y_nonneg k b)
        (mul_nonneg (hε b).le (P.m_nonneg k b)) (fun h => mul_pos (hε b) (P.supp k b h)) (hε k) hypos
      rw [show t' * ε b * m k b = t' * (ε b * m k b) by ring, show ε k * ε b * m k b = ε k * (ε b * m k b) by ring]
      exact this
  have hsum : ∑ b, δ k b = -S * (Real.log t' - Real.log (ε k)) + (t' - ε k) * D := by
    simp_rw [hrow]
    rw [Finset.sum_add_distrib, ← Finset.sum_mul, ← Finset.mul_sum, Finset.sum_neg_distrib]
    rfl
  rw [hsum]
  -- the scalar inequality
  suffices hmain : -S * (Real.log t' - Real.log (ε k)) + (t' - ε k) * D ≤ 0 by linarith
  rcases hS0.eq_or_lt with hS | hS
  · -- dead detector: efficiency 0
    have ht' : t' = 0 := by simp [ht'def, ← hS]
    rw [ht', ← hS]
    have := mul_nonneg (hε k).le hD0
    linarith
  · have hD : 0 < D := denomR_pos P hε hS
    have ht' : t' = S / D := by simp [ht'def, hS.ne']
    have hx : 0 < S / (D * ε k) := div_pos hS (mul_pos hD (hε k))
    have hlog := Real.one_sub_inv_le_log_of_pos hx
    have hlogeq : Real.log t' - Real.log (ε k) = Real.log (S / (D * ε k)) := by
      rw [ht', ← Real.log_div (div_pos hS hD).ne' (hε k).ne', div_div]
    rw [hlogeq, ht']
    have h1 : S * (1 - (S / (D * ε k))⁻¹) = S - D * ε k := by
      field_simp
    have h2 : S * (1 - (S / (D * ε k))⁻¹) ≤ S * Real.log (S / (D * ε k)) := mul_le_mul_of_nonneg_left hlog hS.le
    have h3 : (S / D - ε k) * D = S - ε k * D := by
      field_simp
    rw [h3]
    linarith

theorem effUpdate_pos {y m : ι → ι → ℝ} (P : PairData y m) {ε : ι → ℝ} (hε : ∀ a, 0 < ε a) {k : ι} (hS : 0 < fanSumR y k) :
    ∀ a, 0 < effUpdate y m ε k a := by
  intro a
  unfold effUpdate
  by_cases ha : a = k
  · subst ha
    simp only [Function.update_self, hS.ne', if_false]
    exact div_pos hS (denomR_pos P hε hS)
  · rw [Function.update_of_ne ha]
    exact hε a

/-- **every (in-place) efficiency iteration leaves the Kullback-Leibler distance no larger than before**: any sequence of
detector assignments, each seeing the new values of the earlier ones; all detectors with positive fan sum. -/
theorem effSweep_descends {y m : ι → ι → ℝ} (P : PairData y m) (l : List ι) (hl : ∀ k ∈ l, 0 < fanSumR y k) {ε : ι → ℝ}
    (hε : ∀ a, 0 < ε a) : klObjective y m (effSweep y m ε l) ≤ klObjective y m ε ∧ ∀ a, 0 < effSweep y m ε l a := by
  induction l generalizing ε with
  | nil => exact ⟨le_rfl, hε⟩
  | cons k l ih =>
    have hpos := effUpdate_pos P hε (hl k (by simp))
    obtain ⟨h1, h2⟩ := ih (fun k' hk' => hl k' (by simp [hk'])) hpos
    refine ⟨?_, h2⟩
    exact le_trans h1 (effUpdate_descends P hε k)

end
end StirVerif.C20
