import StirVerif.C20.ProofsIter
/-! # C20 — the `DetPairData` family (`make_det_pair_data`, `set_det_pair_data`, `apply_*`, `iterate_efficiencies` on one
sinogram pair): storage, round trip, applying and un-applying factors, fixed point of the efficiency iteration -/
namespace StirVerif.C20
set_option linter.unusedSectionVars false

/-- what `DetPairData::operator()` needs to be unambiguous: an even number of detectors and a fan smaller than the ring
(every data set made by `make_det_pair_data` from projection data with fewer tangential positions than detectors) -/
structure DPDims.WF (d : DPDims) : Prop where
  hh : 0 ≤ d.h
  heven : d.N = 2 * Int.tdiv d.N 2
  hfan : 2 * d.h + 1 < d.N

instance DPDims.instDecidableWF (d : DPDims) : Decidable d.WF :=
  decidable_of_iff (0 ≤ d.h ∧ d.N = 2 * Int.tdiv d.N 2 ∧ 2 * d.h + 1 < d.N)
    ⟨fun ⟨a, b, c⟩ => ⟨a, b, c⟩, fun ⟨a, b, c⟩ => ⟨a, b, c⟩⟩

/-- detector `b` (`0 ≤ b < N`) lies in the fan of detector `a`: `b` or `b + N` is in `get_min_index(a) .. get_max_index(a)` -/
def DPDims.inFan (d : DPDims) (a b : Int) : Prop :=
  (d.minB a ≤ b ∧ b ≤ d.maxB a) ∨ (d.minB a ≤ b + d.N ∧ b + d.N ≤ d.maxB a)

instance DPDims.instDecidableInFan (d : DPDims) (a b : Int) : Decidable (d.inFan a b) := by unfold DPDims.inFan; infer_instance

/-- a detector pair of the ring inside the fan -/
def DPDims.inData (d : DPDims) (a b : Int) : Prop := 0 ≤ a ∧ a < d.N ∧ 0 ≤ b ∧ b < d.N ∧ d.inFan a b

instance DPDims.instDecidableInData (d : DPDims) (a b : Int) : Decidable (d.inData a b) := by unfold DPDims.inData; infer_instance

/-! ## the loop nest and the storage map -/

theorem mem_dpCanon {d : DPDims} {c : Key} :
    c ∈ d.canon ↔ c.1 = 0 ∧ c.2.2.1 = 0 ∧ (0 ≤ c.2.1 ∧ c.2.1 ≤ d.N - 1) ∧ (d.minB c.2.1 ≤ c.2.2.2 ∧ c.2.2.2 ≤ d.maxB c.2.1) := by
  obtain ⟨ra, a, rb, b⟩ := c
  unfold DPDims.canon
  simp only [List.mem_flatMap, List.mem_map, mem_intRange, Prod.mk.injEq]
  constructor
  · rintro ⟨a', h2, b', h4, rfl, rfl, rfl, rfl⟩
    exact ⟨rfl, rfl, h2, h4⟩
  · rintro ⟨h0, h0', h2, h4⟩
    exact ⟨a, h2, b, h4, h0.symm, rfl, h0'.symm, rfl⟩

theorem dpCanon_nodup (d : DPDims) : d.canon.Nodup := by
  unfold DPDims.canon
  refine nodup_flatMap_of_tag _ _ (fun c => c.2.1) (nodup_intRange _ _) (fun a _ => ?_) (fun a _ y hy => ?_)
  · refine List.Nodup.map ?_ (nodup_intRange _ _)
    intro b b' h
    simpa using h
  · obtain ⟨b, _, rfl⟩ := List.mem_map.1 hy
    rfl

/-- in the loop nest `b` starts at `get_min_index(a)`: `operator()` addresses `[a][b]` itself -/
theorem dpKey_of_mem_canon {d : DPDims} {c : Key} (hc : c ∈ d.canon) : d.key c = c := by
  obtain ⟨h0, h0', _, h4, _⟩ := mem_dpCanon.1 hc
  obtain ⟨ra, a, rb, b⟩ := c
  simp only at h0 h0' h4
  subst h0 h0'
  unfold DPDims.key DPDims.storeKey
  simp only [Prod.mk.injEq, true_and]
  rw [if_neg (by omega)]

theorem dpKey_injOn_canon {d : DPDims} {c c' : Key} (hc : c ∈ d.canon) (hc' : c' ∈ d.canon) (h : d.key c = d.key c') : c = c' := by
  rw [dpKey_of_mem_canon hc, dpKey_of_mem_canon hc'] at h
  exact h

/-- a detector pair inside the fan is addressed by exactly one index tuple of the loop nest, with the same first detector -/
theorem exists_dpCanon_of_inData {d : DPDims} (wf : d.WF) {a b : Int} (h : d.inData a b) :
    ∃ c ∈ d.canon, d.storeKey a b = c ∧ c.2.1 = a ∧ Int.tmod c.2.2.2 d.N = b := by
  obtain ⟨ha0, haN, hb0, hbN, hf⟩ := h
  have := wf.heven
  have := wf.hfan
  have := wf.hh
  unfold DPDims.inFan DPDims.minB DPDims.maxB at hf
  by_cases hlt : b < d.minB a
  · refine ⟨(0, a, 0, b + d.N), mem_dpCanon.2 ⟨rfl, rfl, ⟨ha0, by show a ≤ d.N - 1; omega⟩, ?_⟩, ?_, rfl, ?_⟩
    · unfold DPDims.minB DPDims.maxB at *
      simp only
      omega
    · unfold DPDims.storeKey
      rw [if_pos hlt]
    · simp only
      rw [tmod_window (by omega) (by omega), if_neg (by omega)]
      omega
  · refine ⟨(0, a, 0, b), mem_dpCanon.2 ⟨rfl, rfl, ⟨ha0, by show a ≤ d.N - 1; omega⟩, ?_⟩, ?_, rfl, ?_⟩
    · unfold DPDims.minB DPDims.maxB at *
      simp only
      omega
    · unfold DPDims.storeKey
      rw [if_neg hlt]
    · simp only
      exact Int.tmod_eq_of_lt hb0 hbN

/-- an index tuple of the loop nest is a detector pair inside the fan (with `b` reduced) -/
theorem inData_of_mem_dpCanon {d : DPDims} (wf : d.WF) {c : Key} (hc : c ∈ d.canon) : d.inData c.2.1 (Int.tmod c.2.2.2 d.N) := by
  obtain ⟨_, _, ⟨h1, h2⟩, h3, h4⟩ := mem_dpCanon.1 hc
  have := wf.heven
  have := wf.hfan
  have := wf.hh
  unfold DPDims.minB at h3
  unfold DPDims.maxB at h4
  rw [tmod_window (by omega) (by omega)]
  unfold DPDims.inData DPDims.inFan DPDims.minB DPDims.maxB
  split <;> omega

/-- the fan is symmetric: `b` in the fan of `a` iff `a` in the fan of `b` -/
theorem dpInData_symm {d : DPDims} (wf : d.WF) {a b : Int} (h : d.inData a b) : d.inData b a := by
  obtain ⟨ha0, haN, hb0, hbN, hf⟩ := h
  have := wf.heven
  refine ⟨hb0, hbN, ha0, haN, ?_⟩
  unfold DPDims.inFan DPDims.minB DPDims.maxB at *
  omega

/-- two detector pairs of the ring share an array element only if they are the same ordered pair -/
theorem dpStoreKey_inj {d : DPDims} (_wf : d.WF) {a b a' b' : Int} (hb : 0 ≤ b ∧ b < d.N) (hb' : 0 ≤ b' ∧ b' < d.N)
    (h : d.storeKey a b = d.storeKey a' b') : a = a' ∧ b = b' := by
  unfold DPDims.storeKey at h
  simp only [Prod.mk.injEq, true_and] at h
  obtain ⟨h1, h2⟩ := h
  subst h1
  refine ⟨rfl, ?_⟩
  split_ifs at h2 <;> omega

section values
variable {K : Type} [OfNat K 0]

/-! ## projection data → detector pairs → projection data -/

/-- the two writes of one `(view, tangential position)` -/
def dpWrites (d : DPDims) (e : (Int × Int) × (K × K)) : List (Key × K) :=
  [(d.storeKey e.1.1 e.1.2, e.2.1), (d.storeKey e.1.2 e.1.1, e.2.2)]

theorem makeDP_eq_writes (d : DPDims) (bins : List ((Int × Int) × (K × K))) (F : Fan K) :
    bins.foldl (makeDPStep d) F = (bins.flatMap (dpWrites d)).foldl (fun F w => F.set w.1 w.2) F := by
  induction bins generalizing F with
  | nil => rfl
  | cons e bins ih =>
    rw [List.foldl_cons, ih, List.flatMap_cons, List.foldl_append]
    rfl

/-- a sequence of writes in which all writes to the element `k` carry the value `v`, and there is one, leaves `v` there -/
theorem writeFold_get (ws : List (Key × K)) (F : Fan K) (k : Key) (v : K) (hmem : ∃ w ∈ ws, w.1 = k)
    (hfun : ∀ w ∈ ws, w.1 = k → w.2 = v) : (ws.foldl (fun F w => F.set w.1 w.2) F).get k = v := by
  induction ws generalizing F with
  | nil => obtain ⟨_, h, _⟩ := hmem; simp at h
  | cons w ws ih =>
    rw [List.foldl_cons]
    by_cases hl : ∃ w' ∈ ws, w'.1 = k
    · exact ih _ hl (fun w' hw' => hfun w' (by simp [hw']))
    · have hw : w.1 = k := by
        obtain ⟨w', hw', hk⟩ := hmem
        rcases List.mem_cons.1 hw' with h | h
        · rw [← h]; exact hk
        · exact absurd ⟨w', h, hk⟩ hl
      have hstay : ∀ (l : List (Key × K)) (G : Fan K), (∀ w' ∈ l, w'.1 ≠ k) →
          (l.foldl (fun F w => F.set w.1 w.2) G).get k = G.get k := by
        intro l
        induction l with
        | nil => intro G _; rfl
        | cons z l ih2 =>
          intro G hz
          rw [List.foldl_cons, ih2 _ (fun w' hw' => hz w' (by simp [hw']))]
          exact Fan.get_set_ne _ _ (hz z (by simp))
      rw [hstay ws _ (fun w' hw' hk => hl ⟨w', hw', hk⟩), ← hw, Fan.get_set_eq]
      exact hfun w (by simp) hw

/-- the hypothesis on the bins of the round trip: detector numbers inside the ring, and whenever two writes of the loop address the
same ordered detector pair they carry the same value (the detector-pair ↔ bin map of the geometry is injective: property C01;
for segment 0 the pairs `(a,b)` and `(b,a)` of one bin both carry its value) -/
def DPConsistent (d : DPDims) (bins : List ((Int × Int) × (K × K))) : Prop :=
  (∀ e ∈ bins, (0 ≤ e.1.1 ∧ e.1.1 < d.N) ∧ (0 ≤ e.1.2 ∧ e.1.2 < d.N)) ∧
  (∀ e ∈ bins, ∀ e' ∈ bins, (e'.1 = e.1 → e'.2.1 = e.2.1) ∧ (e'.1 = (e.1.2, e.1.1) → e'.2.2 = e.2.1 ∧ e'.2.1 = e.2.2) ∧
    (e'.1 = e.1 → e'.2.2 = e.2.2))

theorem makeDP_at {d : DPDims} (wf : d.WF) (bins : List ((Int × Int) × (K × K))) (hc : DPConsistent d bins)
    {e : (Int × Int) × (K × K)} (he : e ∈ bins) :
    (makeDP d bins).at2 d e.1.1 e.1.2 = e.2.1 ∧ (makeDP d bins).at2 d e.1.2 e.1.1 = e.2.2 := by
  obtain ⟨hrange, hcons⟩ := hc
  unfold makeDP Fan.at2
  rw [makeDP_eq_writes]
  have hmemw : ∀ w ∈ bins.flatMap (dpWrites d), ∃ e' ∈ bins, w = (d.storeKey e'.1.1 e'.1.2, e'.2.1) ∨ w = (d.storeKey e'.1.2 e'.1.1, e'.2.2) := by
    intro w hw
    obtain ⟨e', he', hw'⟩ := List.mem_flatMap.1 hw
    unfold dpWrites at hw'
    simp only [List.mem_cons, List.not_mem_nil, or_false] at hw'
    exact ⟨e', he', hw'⟩
  constructor
  · refine writeFold_get _ _ _ _ ⟨(d.storeKey e.1.1 e.1.2, e.2.1), List.mem_flatMap.2 ⟨e, he, by simp [dpWrites]⟩, rfl⟩ ?_
    intro w hw hk
    obtain ⟨e', he', hw' | hw'⟩ := hmemw w hw
    · rw [hw'] at hk ⊢
      obtain ⟨h1, h2⟩ := dpStoreKey_inj wf (hrange e' he').2 (hrange e he).2 hk
      exact ((hcons e he e' he').1 (Prod.ext h1 h2))
    · rw [hw'] at hk ⊢
      obtain ⟨h1, h2⟩ := dpStoreKey_inj wf (hrange e' he').1 (hrange e he).2 hk
      exact ((hcons e he e' he').2.1 (Prod.ext h2 h1)).1
  · refine writeFold_get _ _ _ _ ⟨(d.storeKey e.1.2 e.1.1, e.2.2), List.mem_flatMap.2 ⟨e, he, by simp [dpWrites]⟩, rfl⟩ ?_
    intro w hw hk
    obtain ⟨e', he', hw' | hw'⟩ := hmemw w hw
    · rw [hw'] at hk ⊢
      obtain ⟨h1, h2⟩ := dpStoreKey_inj wf (hrange e' he').2 (hrange e he).1 hk
      exact ((hcons e he e' he').2.1 (Prod.ext h1 h2)).2
    · rw [hw'] at hk ⊢
      obtain ⟨h1, h2⟩ := dpStoreKey_inj wf (hrange e' he').1 (hrange e he).1 hk
      exact ((hcons e he e' he').2.2 (Prod.ext h2 h1))

theorem dp_roundtrip {d : DPDims} (wf : d.WF) (bins : List ((Int × Int) × (K × K))) (hc : DPConsistent d bins) (segNonzero : Bool) :
    setDP d (makeDP d bins) segNonzero (bins.map Prod.fst) =
      bins.map fun e => (e.2.1, if segNonzero then some e.2.2 else none) := by
  unfold setDP
  rw [List.map_map]
  apply List.map_congr_left
  intro e he
  obtain ⟨h1, h2⟩ := makeDP_at wf bins hc he
  simp only [Function.comp]
  rw [h1, h2]

end values

/-! ## applying factors -/

section field
variable {K : Type} [Field K] [DecidableEq K]

theorem dpVisitProd_canon {d : DPDims} (f : Key → K) {c : Key} (hc : c ∈ d.canon) :
    visitProd d.key f d.canon (d.key c) = f c := by
  unfold visitProd
  rw [filter_eq_singleton (fun c' => decide (d.key c' = d.key c)) d.canon c (dpCanon_nodup d) hc (by simp)
    (fun c' hc' h => dpKey_injOn_canon hc' hc (by simpa using h))]
  simp

/-- `apply_efficiencies(DetPairData&)`: every entry of the loop nest is multiplied once, by `eff[a] * eff[b % N]` -/
theorem dpApplyEff_get_key {d : DPDims} (F : Fan K) (eff : Tab K) {c : Key} (hc : c ∈ d.canon) :
    (dpApplyEff d F eff true).get (d.key c) = F.get (d.key c) * dpEffFactor d eff c := by
  unfold dpApplyEff
  rw [factorFold_true, dpVisitProd_canon _ hc]

theorem dpApplyEff_at {d : DPDims} (wf : d.WF) (F : Fan K) (eff : Tab K) {a b : Int} (h : d.inData a b) :
    (dpApplyEff d F eff true).at2 d a b = F.at2 d a b * (eff.get (0, a) * eff.get (0, b)) := by
  obtain ⟨c, hc, hkey, ha, hb⟩ := exists_dpCanon_of_inData wf h
  unfold Fan.at2
  rw [hkey, ← dpKey_of_mem_canon hc, dpApplyEff_get_key F eff hc]
  unfold dpEffFactor
  rw [ha, hb]

theorem dpUnapplyEff_at {d : DPDims} (wf : d.WF) (F : Fan K) (eff : Tab K) {a b : Int} (h : d.inData a b) :
    (dpApplyEff d F eff false).at2 d a b = F.at2 d a b / (eff.get (0, a) * eff.get (0, b)) := by
  obtain ⟨c, hc, hkey, ha, hb⟩ := exists_dpCanon_of_inData wf h
  unfold Fan.at2
  rw [hkey, ← dpKey_of_mem_canon hc]
  unfold dpApplyEff
  rw [factorFold_false, dpVisitProd_canon _ hc]
  unfold dpEffFactor
  rw [ha, hb]

theorem dpEffFactor_ne_zero {d : DPDims} (wf : d.WF) (eff : Tab K) (hne : ∀ a, 0 ≤ a → a < d.N → eff.get (0, a) ≠ 0) {c : Key}
    (hc : c ∈ d.canon) : dpEffFactor d eff c ≠ 0 := by
  obtain ⟨h1, h2, h3, h4, _⟩ := inData_of_mem_dpCanon wf hc
  unfold dpEffFactor
  exact mul_ne_zero (hne _ h1 h2) (hne _ h3 h4)

/-! ## fan sums and the fixed point of `iterate_efficiencies(Array<1,float>&, …, const DetPairData&)` -/

theorem dpFanSum_eq (d : DPDims) (F : Fan K) (a : Int) :
    dpFanSum d F a = ((intRange (d.minB a) (d.maxB a)).map fun b => F.get (0, a, 0, b)).sum := by
  unfold dpFanSum
  rw [foldl_add_eq_sum, zero_add]

theorem dpEffDenominator_eq (d : DPDims) (model : Fan K) (eff : Tab K) (a : Int) :
    dpEffDenominator d model eff a =
      ((intRange (d.minB a) (d.maxB a)).map fun b => eff.get (0, Int.tmod b d.N) * model.at2 d a b).sum := by
  unfold dpEffDenominator
  rw [foldl_add_eq_sum, zero_add]

/-- **fan sums of data generated from the model**: `Σ_b ε_a ε_b m_ab = ε_a · Σ_b ε_b m_ab` -/
theorem dpFanSum_applyEff {d : DPDims} (model : Fan K) (eff : Tab K) {a : Int} (ha : 0 ≤ a ∧ a ≤ d.N - 1) :
    dpFanSum d (dpApplyEff d model eff true) a = eff.get (0, a) * dpEffDenominator d model eff a := by
  rw [dpFanSum_eq, dpEffDenominator_eq, ← sum_map_mul_left']
  apply sum_map_congr
  intro b hb
  have hc : ((0, a, 0, b) : Key) ∈ d.canon := mem_dpCanon.2 ⟨rfl, rfl, ha, mem_intRange.1 hb⟩
  have hk := dpKey_of_mem_canon hc
  have := dpApplyEff_get_key model eff hc
  rw [hk] at this
  rw [this]
  unfold dpEffFactor Fan.at2
  have hk' : d.storeKey a b = (0, a, 0, b) := hk
  rw [hk']
  ring

theorem foldl_set_get_vec (g : Int → K) (l : List Int) (T : Tab K) (k : Int × Int) :
    (l.foldl (fun T a => T.set (0, a) (g a)) T).get k = if k.1 = 0 ∧ k.2 ∈ l then g k.2 else T.get k := by
  induction l generalizing T with
  | nil => simp
  | cons x l ih =>
    rw [List.foldl_cons, ih]
    by_cases hk : k.1 = 0 ∧ k.2 ∈ l
    · have : k.1 = 0 ∧ k.2 ∈ x :: l := ⟨hk.1, by simp [hk.2]⟩
      rw [if_pos hk, if_pos this]
    · rw [if_neg hk]
      by_cases hx : (0, x) = k
      · have : k.1 = 0 ∧ k.2 ∈ x :: l := by rw [← hx]; simp
        rw [if_pos this, ← hx, Tab.get_set_eq]
      · have : ¬ (k.1 = 0 ∧ k.2 ∈ x :: l) := by
          rintro ⟨h0, hm⟩
          rcases List.mem_cons.1 hm with h | h
          · exact hx (Prod.ext h0.symm h.symm)
          · exact hk ⟨h0, h⟩
        rw [if_neg this]
        exact Tab.get_set_ne _ _ hx

theorem dpMakeFanSums_get (d : DPDims) (F : Fan K) {a : Int} (ha : 0 ≤ a ∧ a ≤ d.N - 1) :
    (dpMakeFanSums d F).get (0, a) = dpFanSum d F a := by
  unfold dpMakeFanSums
  rw [foldl_set_get_vec (fun a => dpFanSum d F a)]
  simp [mem_intRange, ha]

theorem dpEffDenominator_congr (d : DPDims) (model : Fan K) (T eff : Tab K) (h : ∀ k, T.get k = eff.get k) (a : Int) :
    dpEffDenominator d model T a = dpEffDenominator d model eff a := by
  unfold dpEffDenominator
  simp only [h]

theorem dpEffStep_fixed (d : DPDims) (sums : Tab K) (model : Fan K) (eff T : Tab K) (a : Int)
    (hsum : sums.get (0, a) = eff.get (0, a) * dpEffDenominator d model eff a) (hne : eff.get (0, a) ≠ 0)
    (hden : dpEffDenominator d model eff a ≠ 0) (hT : ∀ k, T.get k = eff.get k) :
    ∀ k, (dpEffStep d sums model T a).get k = eff.get k := by
  intro k
  unfold dpEffStep
  have hs : sums.get (0, a) ≠ 0 := by rw [hsum]; exact mul_ne_zero hne hden
  have hs' : (sums.get (0, a) == 0) = false := by simpa using hs
  rw [hs']
  simp only [Bool.false_eq_true, if_false]
  rw [Tab.get_set, dpEffDenominator_congr d model T eff hT, hsum, mul_div_cancel_right₀ _ hden]
  split
  · rename_i h; rw [← h]
  · exact hT k

theorem dpIterateEff_fixed_list (d : DPDims) (sums : Tab K) (model : Fan K) (eff : Tab K) (l : List Int)
    (hsum : ∀ a ∈ l, sums.get (0, a) = eff.get (0, a) * dpEffDenominator d model eff a) (hne : ∀ a ∈ l, eff.get (0, a) ≠ 0)
    (hden : ∀ a ∈ l, dpEffDenominator d model eff a ≠ 0) (T : Tab K) (hT : ∀ k, T.get k = eff.get k) :
    ∀ k, (l.foldl (dpEffStep d sums model) T).get k = eff.get k := by
  induction l generalizing T with
  | nil => simpa using hT
  | cons x l ih =>
    rw [List.foldl_cons]
    exact ih (fun y hy => hsum y (by simp [hy])) (fun y hy => hne y (by simp [hy])) (fun y hy => hden y (by simp [hy])) _
      (dpEffStep_fixed d sums model eff T x (hsum x (by simp)) (hne x (by simp)) (hden x (by simp)) hT)

/-- **fixed point of `iterate_efficiencies` on `DetPairData`** -/
theorem dpIterateEff_fixed (d : DPDims) (model : Fan K) (eff : Tab K) (hne : ∀ a, 0 ≤ a → a ≤ d.N - 1 → eff.get (0, a) ≠ 0)
    (hden : ∀ a, 0 ≤ a → a ≤ d.N - 1 → dpEffDenominator d model eff a ≠ 0) :
    ∀ k, (dpIterateEff d eff (dpMakeFanSums d (dpApplyEff d model eff true)) model).get k = eff.get k := by
  unfold dpIterateEff
  refine dpIterateEff_fixed_list d _ model eff _ (fun a ha => ?_) (fun a ha => hne a (mem_intRange.1 ha).1 (mem_intRange.1 ha).2)
    (fun a ha => hden a (mem_intRange.1 ha).1 (mem_intRange.1 ha).2) eff (fun _ => rfl)
  rw [dpMakeFanSums_get d _ (mem_intRange.1 ha)]
  exact dpFanSum_applyEff model eff (mem_intRange.1 ha)

theorem dpEffStep_dead (d : DPDims) (sums : Tab K) (model : Fan K) (T : Tab K) (a : Int) (h : sums.get (0, a) = 0) :
    (dpEffStep d sums model T a).get (0, a) = 0 := by
  unfold dpEffStep
  simp [h, Tab.get_set_eq]

end field
end StirVerif.C20
