import StirVerif.C20.Model
import Mathlib.Data.List.Nodup
import Mathlib.Tactic.Ring
import Mathlib.Tactic.Linarith
/-! # C20 — index lists, the value containers, and the storage map of `FanProjData` -/
namespace StirVerif.C20

/-! ## `intRange` -/

theorem mem_intRange {lo hi x : Int} : x ∈ intRange lo hi ↔ lo ≤ x ∧ x ≤ hi := by
  unfold intRange
  simp only [List.mem_map, List.mem_range]
  constructor
  · rintro ⟨i, hi', rfl⟩
    omega
  · rintro ⟨h1, h2⟩
    exact ⟨(x - lo).toNat, by omega, by omega⟩

theorem nodup_intRange (lo hi : Int) : (intRange lo hi).Nodup := by
  unfold intRange
  refine List.Nodup.map ?_ List.nodup_range
  intro a b h
  simpa using h

/-- nodup of a `flatMap` whose pieces can be told apart by a tag -/
theorem nodup_flatMap_of_tag {α β : Type} (l : List α) (f : α → List β) (tag : β → α) (hl : l.Nodup)
    (hf : ∀ x ∈ l, (f x).Nodup) (ht : ∀ x ∈ l, ∀ y ∈ f x, tag y = x) : (l.flatMap f).Nodup := by
  induction l with
  | nil => simp
  | cons x l ih =>
    rw [List.flatMap_cons, List.nodup_append]
    rw [List.nodup_cons] at hl
    refine ⟨hf x (by simp), ih hl.2 (fun y hy => hf y (by simp [hy])) (fun y hy => ht y (by simp [hy])), ?_⟩
    intro y hy z hz hyz
    subst hyz
    obtain ⟨w, hw, hyw⟩ := List.mem_flatMap.1 hz
    have h1 := ht x (by simp) y hy
    have h2 := ht w (by simp [hw]) y hyw
    exact hl.1 (by rw [← h1, h2]; exact hw)

/-! ## containers -/

section containers
variable {K : Type} [OfNat K 0]

theorem Fan.get_set (F : Fan K) (k k' : Key) (v : K) : (F.set k v).get k' = if k = k' then v else F.get k' := by
  simp [Fan.get, Fan.set, Std.HashMap.getD_insert]

theorem Fan.get_set_eq (F : Fan K) (k : Key) (v : K) : (F.set k v).get k = v := by
  simp [Fan.get_set]

theorem Fan.get_set_ne (F : Fan K) {k k' : Key} (v : K) (h : k ≠ k') : (F.set k v).get k' = F.get k' := by
  simp [Fan.get_set, h]

theorem Fan.get_empty (k : Key) : ({} : Fan K).get k = 0 := by
  simp [Fan.get]

theorem Tab.get_set (T : Tab K) (k k' : Int × Int) (v : K) : (T.set k v).get k' = if k = k' then v else T.get k' := by
  simp [Tab.get, Tab.set, Std.HashMap.getD_insert]

theorem Tab.get_set_eq (T : Tab K) (k : Int × Int) (v : K) : (T.set k v).get k = v := by
  simp [Tab.get_set]

theorem Tab.get_set_ne (T : Tab K) {k k' : Int × Int} (v : K) (h : k ≠ k') : (T.set k v).get k' = T.get k' := by
  simp [Tab.get_set, h]

theorem Tab.get_empty (k : Int × Int) : ({} : Tab K).get k = 0 := by
  simp [Tab.get]

end containers

/-! ## well-formed dimensions and the fan / ring-difference window -/

/-- what the constructor of `FanProjData` asserts (`num_detectors_per_ring % 2 == 0`, `fan_size < num_detectors_per_ring`),
plus non-emptiness -/
structure Dims.WF (d : Dims) : Prop where
  hR : 0 < d.R
  hmd : 0 ≤ d.md
  hh : 0 ≤ d.h
  heven : d.N = 2 * Int.tdiv d.N 2
  hfan : 2 * d.h + 1 < d.N

instance (d : Dims) : Decidable d.WF :=
  decidable_of_iff (0 < d.R ∧ 0 ≤ d.md ∧ 0 ≤ d.h ∧ d.N = 2 * Int.tdiv d.N 2 ∧ 2 * d.h + 1 < d.N)
    ⟨fun ⟨a, b, c, e, f⟩ => ⟨a, b, c, e, f⟩, fun ⟨a, b, c, e, f⟩ => ⟨a, b, c, e, f⟩⟩

/-- detector `b` (reduced, `0 ≤ b < N`) lies in the fan of detector `a`: `b` or `b + N` is in `get_min_b(a) .. get_max_b(a)` -/
def Dims.inFan (d : Dims) (a b : Int) : Prop :=
  (d.minB a ≤ b ∧ b ≤ d.maxB a) ∨ (d.minB a ≤ b + d.N ∧ b + d.N ≤ d.maxB a)

instance (d : Dims) (a b : Int) : Decidable (d.inFan a b) := by unfold Dims.inFan; infer_instance

/-- the detector pair `(ra,a)-(rb,b)` is inside the fan / max-ring-difference window of the fan data -/
def Dims.inWindow (d : Dims) (ra a rb b : Int) : Prop :=
  0 ≤ ra ∧ ra < d.R ∧ 0 ≤ rb ∧ rb < d.R ∧ ra - rb ≤ d.md ∧ rb - ra ≤ d.md ∧ 0 ≤ a ∧ a < d.N ∧ 0 ≤ b ∧ b < d.N ∧ d.inFan a b

instance (d : Dims) (ra a rb b : Int) : Decidable (d.inWindow ra a rb b) := by unfold Dims.inWindow; infer_instance

theorem tmod_window {b N : Int} (hb : 0 ≤ b) (hN : b < 2 * N) : Int.tmod b N = if b < N then b else b - N := by
  split
  · exact Int.tmod_eq_of_lt hb ‹_›
  · rename_i h
    have h' : N ≤ b := not_lt.1 h
    rw [Int.tmod_eq_emod_of_nonneg hb, ← Int.sub_emod_right b N]
    exact Int.emod_eq_of_lt (a := b - N) (b := N) (by linarith) (by linarith)

/-- **the fan window is symmetric**: `b` is in the fan of `a` iff `a` is in the fan of `b`. -/
theorem inFan_symm {d : Dims} (wf : d.WF) {a b : Int} (_ha : 0 ≤ a ∧ a < d.N) (_hb : 0 ≤ b ∧ b < d.N) :
    d.inFan a b ↔ d.inFan b a := by
  have := wf.heven
  have := wf.hfan
  unfold Dims.inFan Dims.minB Dims.maxB
  constructor <;> intro h <;> omega

theorem inWindow_symm {d : Dims} (wf : d.WF) {ra a rb b : Int} (h : d.inWindow ra a rb b) : d.inWindow rb b ra a := by
  obtain ⟨h1, h2, h3, h4, h5, h6, h7, h8, h9, h10, h11⟩ := h
  exact ⟨h3, h4, h1, h2, h6, h5, h9, h10, h7, h8, (inFan_symm wf ⟨h7, h8⟩ ⟨h9, h10⟩).1 h11⟩

/-! ## the storage map -/

/-- **symmetric storage**: for detectors in different rings `(ra,a,rb,b)` and `(rb,b,ra,a)` are the same array element. -/
theorem storeKey_symm (d : Dims) {ra a rb b : Int} (hne : ra ≠ rb) (ha : 0 ≤ a ∧ a < d.N) (hb : 0 ≤ b ∧ b < d.N) :
    d.storeKey ra a rb b = d.storeKey rb b ra a := by
  unfold Dims.storeKey
  rw [Int.tmod_eq_of_lt ha.1 ha.2, Int.tmod_eq_of_lt hb.1 hb.2]
  rcases lt_or_gt_of_ne hne with h | h
  · have h' : ¬ rb < ra := by omega
    simp [h, h']
  · have h' : ¬ ra < rb := by omega
    simp [h, h']

/-- in one ring `(ra,a,ra,b)` and `(ra,b,ra,a)` are two *different* array elements (the same LOR is stored twice). -/
theorem storeKey_same_ring_ne (d : Dims) {ra a b : Int} (ha : 0 ≤ a ∧ a < d.N) (hb : 0 ≤ b ∧ b < d.N) (hab : a ≠ b) :
    d.storeKey ra a ra b ≠ d.storeKey ra b ra a := by
  unfold Dims.storeKey
  rw [Int.tmod_eq_of_lt ha.1 ha.2, Int.tmod_eq_of_lt hb.1 hb.2]
  simp only [lt_self_iff_false, if_false]
  intro h
  have := (Prod.ext_iff.1 (Prod.ext_iff.1 h).2).1
  exact hab this.symm

/-- **no out-of-range access**: inside the window `operator()` addresses an element of the range allocated by the constructor. -/
theorem storeKey_allocated {d : Dims} (wf : d.WF) {ra a rb b : Int} (h : d.inWindow ra a rb b) :
    d.allocated (d.storeKey ra a rb b) = true := by
  obtain ⟨h1, h2, h3, h4, h5, h6, h7, h8, h9, h10, h11⟩ := h
  have := wf.heven
  have := wf.hfan
  have := wf.hmd
  unfold Dims.inFan Dims.minB Dims.maxB at h11
  unfold Dims.storeKey Dims.allocated Dims.loRb Dims.minRb Dims.maxRb Dims.minB Dims.maxB
  rw [Int.tmod_eq_of_lt h7 h8, Int.tmod_eq_of_lt h9 h10]
  simp only [decide_eq_true_eq]
  split <;> split <;> (try dsimp only) <;> omega

/-- inside the window two index tuples address the same element iff they are equal or (different rings) swapped. -/
theorem storeKey_eq_iff {d : Dims} (wf : d.WF) {ra a rb b ra' a' rb' b' : Int} (h : d.inWindow ra a rb b)
    (h' : d.inWindow ra' a' rb' b') :
    d.storeKey ra a rb b = d.storeKey ra' a' rb' b' ↔
      (ra' = ra ∧ a' = a ∧ rb' = rb ∧ b' = b) ∨ (ra ≠ rb ∧ ra' = rb ∧ a' = b ∧ rb' = ra ∧ b' = a) := by
  obtain ⟨h1, h2, h3, h4, h5, h6, h7, h8, h9, h10, h11⟩ := h
  obtain ⟨g1, g2, g3, g4, g5, g6, g7, g8, g9, g10, g11⟩ := h'
  have := wf.heven
  have := wf.hfan
  unfold Dims.inFan Dims.minB Dims.maxB at h11 g11
  unfold Dims.storeKey Dims.minB
  rw [Int.tmod_eq_of_lt h7 h8, Int.tmod_eq_of_lt h9 h10, Int.tmod_eq_of_lt g7 g8, Int.tmod_eq_of_lt g9 g10]
  constructor
  · intro heq
    split_ifs at heq <;> simp only [Prod.mk.injEq] at heq <;> omega
  · rintro (⟨e1, e2, e3, e4⟩ | ⟨hne, e1, e2, e3, e4⟩)
    · rw [e1, e2, e3, e4]
    · rw [e1, e2, e3, e4]
      rcases lt_or_gt_of_ne hne with hlt | hlt
      · have hn : ¬ rb < ra := by omega
        simp [hlt, hn]
      · have hn : ¬ ra < rb := by omega
        simp [hlt, hn]

/-- **Old code, kept only as a regression witness** (before commit 58079aa5c the condition of `make_geo_data` read
`if (ra != mra && rb != mrb)`): this is NOT what the code does now, see `Dims.fourTerms`. -/
def Dims.fourTermsOld (d : Dims) (ra rb : Int) : Bool := ra != d.R - 1 - ra && rb != d.R - 1 - rb

/-! ## the loop nest -/

theorem mem_canon {d : Dims} {c : Key} :
    c ∈ d.canon ↔ (0 ≤ c.1 ∧ c.1 ≤ d.R - 1) ∧ (0 ≤ c.2.1 ∧ c.2.1 ≤ d.N - 1) ∧
      (max c.1 (d.minRb c.1) ≤ c.2.2.1 ∧ c.2.2.1 ≤ d.maxRb c.1) ∧ (d.minB c.2.1 ≤ c.2.2.2 ∧ c.2.2.2 ≤ d.maxB c.2.1) := by
  obtain ⟨ra, a, rb, b⟩ := c
  unfold Dims.canon
  simp only [List.mem_flatMap, List.mem_map, mem_intRange, Prod.mk.injEq]
  constructor
  · rintro ⟨ra', h1, a', h2, rb', h3, b', h4, rfl, rfl, rfl, rfl⟩
    exact ⟨h1, h2, h3, h4⟩
  · rintro ⟨h1, h2, h3, h4⟩
    exact ⟨ra, h1, a, h2, rb, h3, b, h4, rfl, rfl, rfl, rfl⟩

theorem canon_nodup (d : Dims) : d.canon.Nodup := by
  unfold Dims.canon
  refine nodup_flatMap_of_tag _ _ (fun c => c.1) (nodup_intRange _ _) (fun ra _ => ?_) (fun ra _ y hy => ?_)
  · refine nodup_flatMap_of_tag _ _ (fun c => c.2.1) (nodup_intRange _ _) (fun a _ => ?_) (fun a _ y hy => ?_)
    · refine nodup_flatMap_of_tag _ _ (fun c => c.2.2.1) (nodup_intRange _ _) (fun rb _ => ?_) (fun rb _ y hy => ?_)
      · refine List.Nodup.map ?_ (nodup_intRange _ _)
        intro b b' h
        simpa using h
      · obtain ⟨b, _, rfl⟩ := List.mem_map.1 hy
        rfl
    · obtain ⟨rb, _, hy⟩ := List.mem_flatMap.1 hy
      obtain ⟨b, _, rfl⟩ := List.mem_map.1 hy
      rfl
  · obtain ⟨a, _, hy⟩ := List.mem_flatMap.1 hy
    obtain ⟨rb, _, hy⟩ := List.mem_flatMap.1 hy
    obtain ⟨b, _, rfl⟩ := List.mem_map.1 hy
    rfl

/-- an index tuple of the loop nest, with `b` reduced, is a detector pair inside the window -/
theorem inWindow_of_mem_canon {d : Dims} (wf : d.WF) {c : Key} (hc : c ∈ d.canon) :
    d.inWindow c.1 c.2.1 c.2.2.1 (Int.tmod c.2.2.2 d.N) ∧ c.1 ≤ c.2.2.1 := by
  obtain ⟨⟨h1, h2⟩, ⟨h3, h4⟩, ⟨h5, h6⟩, h7, h8⟩ := mem_canon.1 hc
  have := wf.heven
  have := wf.hfan
  have := wf.hmd
  unfold Dims.minB at h7
  unfold Dims.maxB at h8
  unfold Dims.minRb at h5
  unfold Dims.maxRb at h6
  have hb0 : 0 ≤ c.2.2.2 := by omega
  have hb2 : c.2.2.2 < 2 * d.N := by omega
  rw [tmod_window hb0 hb2]
  unfold Dims.inWindow Dims.inFan Dims.minB Dims.maxB
  split <;> omega

/-- `operator()` with the unreduced `b` of the loop nest addresses the same element as with `b % N` -/
theorem key_eq_storeKey_tmod {d : Dims} (wf : d.WF) {c : Key} (hc : c ∈ d.canon) :
    d.key c = d.storeKey c.1 c.2.1 c.2.2.1 (Int.tmod c.2.2.2 d.N) := by
  obtain ⟨⟨h1, h2⟩, ⟨h3, h4⟩, ⟨h5, h6⟩, h7, h8⟩ := mem_canon.1 hc
  have := wf.heven
  have := wf.hfan
  unfold Dims.minB at h7
  unfold Dims.maxB at h8
  have hb0 : 0 ≤ c.2.2.2 := by omega
  have hb2 : c.2.2.2 < 2 * d.N := by omega
  have hb := tmod_window hb0 hb2
  unfold Dims.key Dims.storeKey Dims.minB
  have hmm : Int.tmod (Int.tmod c.2.2.2 d.N) d.N = Int.tmod c.2.2.2 d.N := by
    rw [hb]
    split
    · exact Int.tmod_eq_of_lt hb0 ‹_›
    · exact Int.tmod_eq_of_lt (by omega) (by omega)
  rw [hmm]
  split
  · rw [hb]
    simp only [Prod.mk.injEq, true_and]
    split_ifs <;> omega
  · rfl

/-- **every stored element is visited exactly once** by the loop nest: the storage map is injective on it … -/
theorem key_injOn_canon {d : Dims} (wf : d.WF) {c c' : Key} (hc : c ∈ d.canon) (hc' : c' ∈ d.canon)
    (h : d.key c = d.key c') : c = c' := by
  obtain ⟨hw, hle⟩ := inWindow_of_mem_canon wf hc
  obtain ⟨hw', hle'⟩ := inWindow_of_mem_canon wf hc'
  rw [key_eq_storeKey_tmod wf hc, key_eq_storeKey_tmod wf hc'] at h
  obtain ⟨⟨h1, h2⟩, ⟨h3, h4⟩, ⟨h5, h6⟩, h7, h8⟩ := mem_canon.1 hc
  obtain ⟨⟨g1, g2⟩, ⟨g3, g4⟩, ⟨g5, g6⟩, g7, g8⟩ := mem_canon.1 hc'
  have := wf.heven
  have := wf.hfan
  unfold Dims.minB at h7 g7
  unfold Dims.maxB at h8 g8
  have hb := tmod_window (b := c.2.2.2) (N := d.N) (by omega) (by omega)
  have hb' := tmod_window (b := c'.2.2.2) (N := d.N) (by omega) (by omega)
  rcases (storeKey_eq_iff wf hw hw').1 h with ⟨e1, e2, e3, e4⟩ | ⟨hne, e1, e2, e3, e4⟩
  · rw [hb, hb'] at e4
    obtain ⟨ra, a, rb, b⟩ := c
    obtain ⟨ra', a', rb', b'⟩ := c'
    simp only at *
    subst e1 e2 e3
    simp only [Prod.mk.injEq, true_and]
    split at e4 <;> split at e4 <;> omega
  · exfalso
    omega

/-- … and onto the allocated range. -/
theorem exists_canon_of_allocated {d : Dims} (wf : d.WF) {k : Key} (hk : d.allocated k = true) :
    ∃ c ∈ d.canon, d.key c = k := by
  obtain ⟨k1, k2, k3, k4⟩ := k
  unfold Dims.allocated at hk
  simp only [decide_eq_true_eq] at hk
  obtain ⟨a1, a2, a3, a4, a5, a6, a7, a8⟩ := hk
  have := wf.heven
  have := wf.hfan
  have := wf.hmd
  unfold Dims.loRb at a5
  by_cases hlt : k1 < k3
  · -- different rings: the element is addressed by its own index tuple
    refine ⟨(k1, k2, k3, k4), mem_canon.2 ⟨⟨a1, a2⟩, ⟨a3, a4⟩, ⟨a5, a6⟩, a7, a8⟩, ?_⟩
    unfold Dims.key Dims.storeKey
    simp only [hlt, if_true]
    rw [Int.tmod_eq_of_lt a3 (by omega)]
    have : ¬ k4 < d.minB k2 := by omega
    simp [this]
  · -- one ring: element [k1][k2][k1][k4] is addressed as (k1, k4 % N, k1, k2 or k2 + N)
    have hk3 : k3 = k1 := by
      unfold Dims.minRb at a5
      omega
    subst hk3
    unfold Dims.minB at a7
    unfold Dims.maxB at a8
    have hb := tmod_window (b := k4) (N := d.N) (by omega) (by omega)
    -- the unreduced second detector index in the fan of k4 % N
    let a' := Int.tmod k4 d.N
    let b' := if k2 < a' + Int.tdiv d.N 2 - d.h then k2 + d.N else k2
    refine ⟨(k3, a', k3, b'), mem_canon.2 ⟨⟨a1, a2⟩, ?_, ⟨?_, ?_⟩, ?_⟩, ?_⟩
    · show 0 ≤ a' ∧ a' ≤ d.N - 1
      simp only [a', hb]
      split <;> omega
    · show max k3 (d.minRb k3) ≤ k3
      unfold Dims.minRb
      omega
    · exact a6
    · show d.minB a' ≤ b' ∧ b' ≤ d.maxB a'
      simp only [a', b', hb, Dims.minB, Dims.maxB]
      split <;> split <;> omega
    · unfold Dims.key Dims.storeKey Dims.minB
      simp only [lt_self_iff_false, if_false, Prod.mk.injEq, true_and]
      have hb'' : Int.tmod b' d.N = k2 := by
        have := tmod_window (b := b') (N := d.N) (by simp only [b']; split <;> omega) (by simp only [b']; split <;> omega)
        rw [this]
        simp only [b']
        split <;> split <;> omega
      rw [hb'']
      refine ⟨rfl, ?_⟩
      simp only [a', hb]
      split <;> split <;> omega

/-- a detector pair inside the window is addressed by exactly the index tuple of the loop nest obtained by ordering the
rings and lifting the second detector index into `get_min_b .. get_max_b`. -/
theorem exists_canon_of_inWindow {d : Dims} (wf : d.WF) {ra a rb b : Int} (h : d.inWindow ra a rb b) :
    ∃ c ∈ d.canon, d.key c = d.storeKey ra a rb b ∧
      ((c.1 = ra ∧ c.2.1 = a ∧ c.2.2.1 = rb ∧ Int.tmod c.2.2.2 d.N = b) ∨
       (c.1 = rb ∧ c.2.1 = b ∧ c.2.2.1 = ra ∧ Int.tmod c.2.2.2 d.N = a)) := by
  obtain ⟨c, hc, hkey⟩ := exists_canon_of_allocated wf (storeKey_allocated wf h)
  refine ⟨c, hc, hkey, ?_⟩
  obtain ⟨hw, hle⟩ := inWindow_of_mem_canon wf hc
  rw [key_eq_storeKey_tmod wf hc] at hkey
  rcases (storeKey_eq_iff wf hw h).1 hkey with ⟨e1, e2, e3, e4⟩ | ⟨hne, e1, e2, e3, e4⟩
  · exact Or.inl ⟨e1.symm, e2.symm, e3.symm, e4.symm⟩
  · exact Or.inr ⟨e3.symm, e4.symm, e1.symm, e2.symm⟩

end StirVerif.C20
