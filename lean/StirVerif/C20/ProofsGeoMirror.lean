import StirVerif.C20.ProofsGeoOrbit
/-! # C20 — the class structure of the geometric factors, part 2: the axial mirror image on index tuples

`K1 … K4`: the four array elements read by `make_geo_data` for an index tuple of the loop nest (the entry, its transaxial mirror
image, its axial mirror image, both).  `sig0` (both detectors in one ring), `sig1`, `sig2` (different rings: the axial mirror
image / the double mirror image, *named from the other detector*, which is how they are stored) are involutions of the loop nest
that permute `K1 … K4`, and they respect the lattice of block translations. -/
namespace StirVerif.C20
set_option linter.unusedSectionVars false

def Dims.K1 (d : Dims) (x : Key) : Key := d.storeKey x.1 x.2.1 x.2.2.1 x.2.2.2
def Dims.K2 (d : Dims) (x : Key) : Key := d.storeKey x.1 (d.N - 1 - x.2.1) x.2.2.1 (Int.tmod (2 * d.N - 1 - x.2.2.2) d.N)
def Dims.K3 (d : Dims) (x : Key) : Key := d.storeKey (d.R - 1 - x.1) x.2.1 (d.R - 1 - x.2.2.1) x.2.2.2
def Dims.K4 (d : Dims) (x : Key) : Key :=
  d.storeKey (d.R - 1 - x.1) (d.N - 1 - x.2.1) (d.R - 1 - x.2.2.1) (Int.tmod (2 * d.N - 1 - x.2.2.2) d.N)

theorem mirrorKeys_eq (d : Dims) (x : Key) :
    d.mirrorKeys x = if d.fourTerms x.1 x.2.2.1 then [d.K1 x, d.K2 x, d.K3 x, d.K4 x] else [d.K1 x, d.K2 x] := rfl

/-- axial mirror image of an in-ring entry -/
def Dims.sig0 (d : Dims) (x : Key) : Key := (d.R - 1 - x.1, x.2.1, d.R - 1 - x.2.2.1, x.2.2.2)

/-- axial mirror image of a cross-ring entry, named from the other detector (first ring ≤ second ring) -/
def Dims.sig1 (d : Dims) (x : Key) : Key :=
  (d.R - 1 - x.2.2.1, Int.tmod x.2.2.2 d.N, d.R - 1 - x.1, Int.tmod x.2.2.2 d.N + d.N - (x.2.2.2 - x.2.1))

/-- axial and transaxial mirror image of a cross-ring entry, named from the other detector -/
def Dims.sig2 (d : Dims) (x : Key) : Key :=
  (d.R - 1 - x.2.2.1, d.N - 1 - Int.tmod x.2.2.2 d.N, d.R - 1 - x.1, d.N - 1 - Int.tmod x.2.2.2 d.N + (x.2.2.2 - x.2.1))

section
variable {d : Dims}

/-- `operator()` in normal form for reduced detector indices -/
theorem storeKey_red (d : Dims) {a b : Int} (ha : 0 ≤ a ∧ a < d.N) (hb : 0 ≤ b ∧ b < d.N) (ra rb : Int) :
    d.storeKey ra a rb b =
      if ra < rb then (ra, a, rb, if b < a + Int.tdiv d.N 2 - d.h then b + d.N else b)
      else (rb, b, ra, if a < b + Int.tdiv d.N 2 - d.h then a + d.N else a) := by
  unfold Dims.storeKey Dims.minB
  rw [Int.tmod_eq_of_lt ha.1 ha.2, Int.tmod_eq_of_lt hb.1 hb.2]

/-- `operator()` with the unreduced second detector index of the loop nest -/
theorem storeKey_tmod (wf : d.WF) {a y : Int} (ha : 0 ≤ a ∧ a < d.N) (hy : d.minB a ≤ y ∧ y ≤ d.maxB a) (ra rb : Int) :
    d.storeKey ra a rb y = d.storeKey ra a rb (Int.tmod y d.N) := by
  have := wf.heven
  have := wf.hfan
  have := wf.hh
  unfold Dims.minB Dims.maxB at hy
  have hbm := tmod_window (b := y) (N := d.N) (by omega) (by omega)
  have hmm : Int.tmod (Int.tmod y d.N) d.N = Int.tmod y d.N := by
    rw [hbm]
    split
    · exact Int.tmod_eq_of_lt (by omega) ‹_›
    · exact Int.tmod_eq_of_lt (by omega) (by omega)
  unfold Dims.storeKey Dims.minB
  rw [hmm]
  split
  · rw [hbm]
    simp only [Prod.mk.injEq, true_and]
    split_ifs <;> omega
  · rfl

/-- what `mem_canon` says, in linear form -/
theorem canon_lin (wf : d.WF) {x : Key} (hx : x ∈ d.canon) :
    0 ≤ x.1 ∧ x.1 ≤ x.2.2.1 ∧ x.2.2.1 ≤ d.R - 1 ∧ x.2.2.1 - x.1 ≤ d.md ∧ 0 ≤ x.2.1 ∧ x.2.1 < d.N ∧
      x.2.1 + Int.tdiv d.N 2 - d.h ≤ x.2.2.2 ∧ x.2.2.2 ≤ x.2.1 + Int.tdiv d.N 2 + d.h ∧
      (Int.tmod x.2.2.2 d.N = x.2.2.2 ∧ x.2.2.2 < d.N ∨ Int.tmod x.2.2.2 d.N = x.2.2.2 - d.N ∧ d.N ≤ x.2.2.2) := by
  obtain ⟨⟨h1, h2⟩, ⟨h3, h4⟩, ⟨h5, h6⟩, h7, h8⟩ := mem_canon.1 hx
  have := wf.heven
  have := wf.hfan
  have := wf.hh
  have := wf.hmd
  unfold Dims.minRb at h5
  unfold Dims.maxRb at h6
  unfold Dims.minB at h7
  unfold Dims.maxB at h8
  have hbm := tmod_window (b := x.2.2.2) (N := d.N) (by omega) (by omega)
  refine ⟨h1, by omega, by omega, by omega, h3, by omega, h7, h8, ?_⟩
  rw [hbm]
  split
  · left; exact ⟨rfl, ‹_›⟩
  · right; exact ⟨rfl, by omega⟩

theorem mem_canon_lin (wf : d.WF) {x : Key} (h1 : 0 ≤ x.1) (h2 : x.1 ≤ x.2.2.1) (h3 : x.2.2.1 ≤ d.R - 1) (h4 : x.2.2.1 - x.1 ≤ d.md)
    (h5 : 0 ≤ x.2.1) (h6 : x.2.1 < d.N) (h7 : x.2.1 + Int.tdiv d.N 2 - d.h ≤ x.2.2.2)
    (h8 : x.2.2.2 ≤ x.2.1 + Int.tdiv d.N 2 + d.h) : x ∈ d.canon := by
  have := wf.hmd
  refine mem_canon.2 ⟨⟨h1, by omega⟩, ⟨h5, by omega⟩, ⟨?_, ?_⟩, ?_, ?_⟩
  · unfold Dims.minRb; omega
  · unfold Dims.maxRb; omega
  · unfold Dims.minB; omega
  · unfold Dims.maxB; omega

/-- the four elements in reduced form -/
theorem K_red (wf : d.WF) {x : Key} (hx : x ∈ d.canon) :
    d.K1 x = d.storeKey x.1 x.2.1 x.2.2.1 (Int.tmod x.2.2.2 d.N) ∧
    d.K2 x = d.storeKey x.1 (d.N - 1 - x.2.1) x.2.2.1 (d.N - 1 - Int.tmod x.2.2.2 d.N) ∧
    d.K3 x = d.storeKey (d.R - 1 - x.1) x.2.1 (d.R - 1 - x.2.2.1) (Int.tmod x.2.2.2 d.N) ∧
    d.K4 x = d.storeKey (d.R - 1 - x.1) (d.N - 1 - x.2.1) (d.R - 1 - x.2.2.1) (d.N - 1 - Int.tmod x.2.2.2 d.N) := by
  obtain ⟨h1, h2, h3, h4, h5, h6, h7, h8, h9⟩ := canon_lin wf hx
  have := wf.heven
  have := wf.hfan
  have := wf.hh
  have hy : d.minB x.2.1 ≤ x.2.2.2 ∧ x.2.2.2 ≤ d.maxB x.2.1 := by unfold Dims.minB Dims.maxB; omega
  have hm : Int.tmod (2 * d.N - 1 - x.2.2.2) d.N = d.N - 1 - Int.tmod x.2.2.2 d.N := by
    rw [tmod_window (b := 2 * d.N - 1 - x.2.2.2) (N := d.N) (by omega) (by omega)]
    split <;> omega
  unfold Dims.K1 Dims.K2 Dims.K3 Dims.K4
  rw [hm]
  exact ⟨storeKey_tmod wf ⟨h5, h6⟩ hy _ _, rfl, storeKey_tmod wf ⟨h5, h6⟩ hy _ _, rfl⟩

/-! ## the mirror images stay in the loop nest and are involutions -/

theorem sig0_canon (wf : d.WF) {x : Key} (hx : x ∈ d.canon) (hr : x.1 = x.2.2.1) : d.sig0 x ∈ d.canon := by
  obtain ⟨h1, h2, h3, h4, h5, h6, h7, h8, h9⟩ := canon_lin wf hx
  have := wf.hmd
  apply mem_canon_lin wf <;> unfold Dims.sig0 <;> simp only <;> omega

theorem sig0_sig0 (d : Dims) (x : Key) : d.sig0 (d.sig0 x) = x := by
  unfold Dims.sig0
  ext <;> simp

theorem sig1_canon (wf : d.WF) {x : Key} (hx : x ∈ d.canon) : d.sig1 x ∈ d.canon := by
  obtain ⟨h1, h2, h3, h4, h5, h6, h7, h8, h9⟩ := canon_lin wf hx
  have := wf.heven
  have := wf.hfan
  have := wf.hh
  apply mem_canon_lin wf <;> unfold Dims.sig1 <;> simp only <;> omega

theorem sig2_canon (wf : d.WF) {x : Key} (hx : x ∈ d.canon) : d.sig2 x ∈ d.canon := by
  obtain ⟨h1, h2, h3, h4, h5, h6, h7, h8, h9⟩ := canon_lin wf hx
  have := wf.heven
  have := wf.hfan
  have := wf.hh
  apply mem_canon_lin wf <;> unfold Dims.sig2 <;> simp only <;> omega

theorem sig1_sig1 (wf : d.WF) {x : Key} (hx : x ∈ d.canon) : d.sig1 (d.sig1 x) = x := by
  obtain ⟨h1, h2, h3, h4, h5, h6, h7, h8, h9⟩ := canon_lin wf hx
  obtain ⟨_, _, _, _, _, _, _, _, g9⟩ := canon_lin wf (sig1_canon wf hx)
  have := wf.heven
  have := wf.hfan
  have := wf.hh
  obtain ⟨ra, a, rb, b⟩ := x
  unfold Dims.sig1 at g9 ⊢
  simp only at *
  simp only [Prod.mk.injEq]
  omega

theorem sig2_sig2 (wf : d.WF) {x : Key} (hx : x ∈ d.canon) : d.sig2 (d.sig2 x) = x := by
  obtain ⟨h1, h2, h3, h4, h5, h6, h7, h8, h9⟩ := canon_lin wf hx
  obtain ⟨_, _, _, _, _, _, _, _, g9⟩ := canon_lin wf (sig2_canon wf hx)
  have := wf.heven
  have := wf.hfan
  have := wf.hh
  obtain ⟨ra, a, rb, b⟩ := x
  unfold Dims.sig2 at g9 ⊢
  simp only at *
  simp only [Prod.mk.injEq]
  omega

end
end StirVerif.C20
