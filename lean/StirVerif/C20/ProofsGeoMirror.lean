import StirVerif.C20.ProofsGeoOrbit
/-! # C20 — the class structure of the geometric factors, part 2: the axial mirror image on index tuples

`K1 … K4`: the four array elements read by `make_geo_data` for an index tuple of the loop nest (the entry, its transaxial mirror
image, its axial mirror image, both).  `sig0` (both detectors in one ring), `sig1`, `sig2` (different rings: the axial mirror
image / the double mirror image, *named from the other detector*, which is how they are stored) are involutions of the loop nest
that permute `K1 … K4`, and they respect the lattice of block translations. -/
namespace StirVerif.C20
set_option linter.unusedSectionVars false

def Dims.K1 (d : Dims) (x : Key) : Key := d.storeKey x.1 x.2.1 x.2.2.1 x.2.2.2
def Dims.K2 (d : Dims) (x : Key) : Key := d.storeKey x.1 (d.N - 1 - x.2.1) x.2.2.1 (Int.tmod (2 * d.N - 1 - x.2.2.2) d.N)
def Dims.K3 (d : Dims) (x : Key) : Key := d.storeKey (d.R - 1 - x.1) x.2.1 (d.R - 1 - x.2.2.1) x.2.2.2
def Dims.K4 (d : Dims) (x : Key) : Key :=
  d.storeKey (d.R - 1 - x.1) (d.N - 1 - x.2.1) (d.R - 1 - x.2.2.1) (Int.tmod (2 * d.N - 1 - x.2.2.2) d.N)

theorem mirrorKeys_eq (d : Dims) (x : Key) :
    d.mirrorKeys x = if d.fourTerms x.1 x.2.2.1 then [d.K1 x, d.K2 x, d.K3 x, d.K4 x] else [d.K1 x, d.K2 x] := rfl

/-- axial mirror image of an in-ring entry -/
def Dims.sig0 (d : Dims) (x : Key) : Key := (d.R - 1 - x.1, x.2.1, d.R - 1 - x.2.2.1, x.2.2.2)

/-- axial mirror image of a cross-ring entry, named from the other detector (first ring ≤ second ring) -/
def Dims.sig1 (d : Dims) (x : Key) : Key :=
  (d.R - 1 - x.2.2.1, Int.tmod x.2.2.2 d.N, d.R - 1 - x.1, Int.tmod x.2.2.2 d.N + d.N - (x.2.2.2 - x.2.1))

/-- axial and transaxial mirror image of a cross-ring entry, named from the other detector -/
def Dims.sig2 (d : Dims) (x : Key) : Key :=
  (d.R - 1 - x.2.2.1, d.N - 1 - Int.tmod x.2.2.2 d.N, d.R - 1 - x.1, d.N - 1 - Int.tmod x.2.2.2 d.N + (x.2.2.2 - x.2.1))

section
variable {d : Dims}

/-- `operator()` in normal form for reduced detector indices -/
theorem storeKey_red (d : Dims) {a b : Int} (ha : 0 ≤ a ∧ a < d.N) (hb : 0 ≤ b ∧ b < d.N) (ra rb : Int) :
    d.storeKey ra a rb b =
      if ra < rb then (ra, a, rb, if b < a + Int.tdiv d.N 2 - d.h then b + d.N else b)
      else (rb, b, ra, if a < b + Int.tdiv d.N 2 - d.h then a + d.N else a) := by
  unfold Dims.storeKey Dims.minB
  rw [Int.tmod_eq_of_lt ha.1 ha.2, Int.tmod_eq_of_lt hb.1 hb.2]

/-- `operator()` with the unreduced second detector index of the loop nest -/
theorem storeKey_tmod (wf : d.WF) {a y : Int} (ha : 0 ≤ a ∧ a < d.N) (hy : d.minB a ≤ y ∧ y ≤ d.maxB a) (ra rb : Int) :
    d.storeKey ra a rb y = d.storeKey ra a rb (Int.tmod y d.N) := by
  have := wf.heven
  have := wf.hfan
  have := wf.hh
  unfold Dims.minB Dims.maxB at hy
  have hbm := tmod_window (b := y) (N := d.N) (by omega) (by omega)
  have hmm : Int.tmod (Int.tmod y d.N) d.N = Int.tmod y d.N := by
    rw [hbm]
    split
    · exact Int.tmod_eq_of_lt (by omega) ‹_›
    · exact Int.tmod_eq_of_lt (by omega) (by omega)
  unfold Dims.storeKey Dims.minB
  rw [hmm]
  split
  · rw [hbm]
    simp only [Prod.mk.injEq, true_and]
    split_ifs <;> omega
  · rfl

/-- what `mem_canon` says, in linear form -/
theorem canon_lin (wf : d.WF) {x : Key} (hx : x ∈ d.canon) :
    0 ≤ x.1 ∧ x.1 ≤ x.2.2.1 ∧ x.2.2.1 ≤ d.R - 1 ∧ x.2.2.1 - x.1 ≤ d.md ∧ 0 ≤ x.2.1 ∧ x.2.1 < d.N ∧
      x.2.1 + Int.tdiv d.N 2 - d.h ≤ x.2.2.2 ∧ x.2.2.2 ≤ x.2.1 + Int.tdiv d.N 2 + d.h ∧
      (Int.tmod x.2.2.2 d.N = x.2.2.2 ∧ x.2.2.2 < d.N ∨ Int.tmod x.2.2.2 d.N = x.2.2.2 - d.N ∧ d.N ≤ x.2.2.2) := by
  obtain ⟨⟨h1, h2⟩, ⟨h3, h4⟩, ⟨h5, h6⟩, h7, h8⟩ := mem_canon.1 hx
  have := wf.heven
  have := wf.hfan
  have := wf.hh
  have := wf.hmd
  unfold Dims.minRb at h5
  unfold Dims.maxRb at h6
  unfold Dims.minB at h7
  unfold Dims.maxB at h8
  have hbm := tmod_window (b := x.2.2.2) (N := d.N) (by omega) (by omega)
  refine ⟨h1, by omega, by omega, by omega, h3, by omega, h7, h8, ?_⟩
  rw [hbm]
  split
  · left; exact ⟨rfl, ‹_›⟩
  · right; exact ⟨rfl, by omega⟩

theorem mem_canon_lin (wf : d.WF) {x : Key} (h1 : 0 ≤ x.1) (h2 : x.1 ≤ x.2.2.1) (h3 : x.2.2.1 ≤ d.R - 1) (h4 : x.2.2.1 - x.1 ≤ d.md)
    (h5 : 0 ≤ x.2.1) (h6 : x.2.1 < d.N) (h7 : x.2.1 + Int.tdiv d.N 2 - d.h ≤ x.2.2.2)
    (h8 : x.2.2.2 ≤ x.2.1 + Int.tdiv d.N 2 + d.h) : x ∈ d.canon := by
  have := wf.hmd
  refine mem_canon.2 ⟨⟨h1, by omega⟩, ⟨h5, by omega⟩, ⟨?_, ?_⟩, ?_, ?_⟩
  · unfold Dims.minRb; omega
  · unfold Dims.maxRb; omega
  · unfold Dims.minB; omega
  · unfold Dims.maxB; omega

/-- the four elements in reduced form -/
theorem K_red (wf : d.WF) {x : Key} (hx : x ∈ d.canon) :
    d.K1 x = d.storeKey x.1 x.2.1 x.2.2.1 (Int.tmod x.2.2.2 d.N) ∧
    d.K2 x = d.storeKey x.1 (d.N - 1 - x.2.1) x.2.2.1 (d.N - 1 - Int.tmod x.2.2.2 d.N) ∧
    d.K3 x = d.storeKey (d.R - 1 - x.1) x.2.1 (d.R - 1 - x.2.2.1) (Int.tmod x.2.2.2 d.N) ∧
    d.K4 x = d.storeKey (d.R - 1 - x.1) (d.N - 1 - x.2.1) (d.R - 1 - x.2.2.1) (d.N - 1 - Int.tmod x.2.2.2 d.N) := by
  obtain ⟨h1, h2, h3, h4, h5, h6, h7, h8, h9⟩ := canon_lin wf hx
  have := wf.heven
  have := wf.hfan
  have := wf.hh
  have hy : d.minB x.2.1 ≤ x.2.2.2 ∧ x.2.2.2 ≤ d.maxB x.2.1 := by unfold Dims.minB Dims.maxB; omega
  have hm : Int.tmod (2 * d.N - 1 - x.2.2.2) d.N = d.N - 1 - Int.tmod x.2.2.2 d.N := by
    rw [tmod_window (b := 2 * d.N - 1 - x.2.2.2) (N := d.N) (by omega) (by omega)]
    split <;> omega
  unfold Dims.K1 Dims.K2 Dims.K3 Dims.K4
  rw [hm]
  exact ⟨storeKey_tmod wf ⟨h5, h6⟩ hy _ _, rfl, storeKey_tmod wf ⟨h5, h6⟩ hy _ _, rfl⟩

/-! ## the mirror images stay in the loop nest and are involutions -/

theorem sig0_canon (wf : d.WF) {x : Key} (hx : x ∈ d.canon) (hr : x.1 = x.2.2.1) : d.sig0 x ∈ d.canon := by
  obtain ⟨h1, h2, h3, h4, h5, h6, h7, h8, h9⟩ := canon_lin wf hx
  have := wf.hmd
  apply mem_canon_lin wf <;> unfold Dims.sig0 <;> simp only <;> omega

theorem sig0_sig0 (d : Dims) (x : Key) : d.sig0 (d.sig0 x) = x := by
  unfold Dims.sig0
  ext <;> simp

theorem sig1_canon (wf : d.WF) {x : Key} (hx : x ∈ d.canon) : d.sig1 x ∈ d.canon := by
  obtain ⟨h1, h2, h3, h4, h5, h6, h7, h8, h9⟩ := canon_lin wf hx
  have := wf.heven
  have := wf.hfan
  have := wf.hh
  apply mem_canon_lin wf <;> unfold Dims.sig1 <;> simp only <;> omega

theorem sig2_canon (wf : d.WF) {x : Key} (hx : x ∈ d.canon) : d.sig2 x ∈ d.canon := by
  obtain ⟨h1, h2, h3, h4, h5, h6, h7, h8, h9⟩ := canon_lin wf hx
  have := wf.heven
  have := wf.hfan
  have := wf.hh
  apply mem_canon_lin wf <;> unfold Dims.sig2 <;> simp only <;> omega

theorem sig1_sig1 (wf : d.WF) {x : Key} (hx : x ∈ d.canon) : d.sig1 (d.sig1 x) = x := by
  obtain ⟨h1, h2, h3, h4, h5, h6, h7, h8, h9⟩ := canon_lin wf hx
  obtain ⟨_, _, _, _, _, _, _, _, g9⟩ := canon_lin wf (sig1_canon wf hx)
  have := wf.heven
  have := wf.hfan
  have := wf.hh
  obtain ⟨ra, a, rb, b⟩ := x
  unfold Dims.sig1 at g9 ⊢
  simp only at *
  simp only [Prod.mk.injEq]
  omega

theorem sig2_sig2 (wf : d.WF) {x : Key} (hx : x ∈ d.canon) : d.sig2 (d.sig2 x) = x := by
  obtain ⟨h1, h2, h3, h4, h5, h6, h7, h8, h9⟩ := canon_lin wf hx
  obtain ⟨_, _, _, _, _, _, _, _, g9⟩ := canon_lin wf (sig2_canon wf hx)
  have := wf.heven
  have := wf.hfan
  have := wf.hh
  obtain ⟨ra, a, rb, b⟩ := x
  unfold Dims.sig2 at g9 ⊢
  simp only at *
  simp only [Prod.mk.injEq]
  omega

/-! ## the mirror images permute the four elements -/

theorem sig1_b (wf : d.WF) {x : Key} (hx : x ∈ d.canon) :
    Int.tmod (d.sig1 x).2.2.2 d.N = x.2.1 ∧ (d.sig1 x).2.1 = Int.tmod x.2.2.2 d.N ∧
      0 ≤ Int.tmod x.2.2.2 d.N ∧ Int.tmod x.2.2.2 d.N < d.N := by
  obtain ⟨h1, h2, h3, h4, h5, h6, h7, h8, h9⟩ := canon_lin wf hx
  obtain ⟨_, _, _, _, _, _, _, _, g9⟩ := canon_lin wf (sig1_canon wf hx)
  have := wf.heven
  have := wf.hfan
  have := wf.hh
  have hb' : (d.sig1 x).2.2.2 = Int.tmod x.2.2.2 d.N + d.N - (x.2.2.2 - x.2.1) := rfl
  rw [hb'] at g9 ⊢
  refine ⟨?_, rfl, ?_, ?_⟩
  · rcases h9 with h9 | h9 <;> rcases g9 with g9 | g9 <;> omega
  · rcases h9 with h9 | h9 <;> omega
  · rcases h9 with h9 | h9 <;> omega

theorem sig2_b (wf : d.WF) {x : Key} (hx : x ∈ d.canon) :
    Int.tmod (d.sig2 x).2.2.2 d.N = d.N - 1 - x.2.1 ∧ (d.sig2 x).2.1 = d.N - 1 - Int.tmod x.2.2.2 d.N ∧
      0 ≤ Int.tmod x.2.2.2 d.N ∧ Int.tmod x.2.2.2 d.N < d.N := by
  obtain ⟨h1, h2, h3, h4, h5, h6, h7, h8, h9⟩ := canon_lin wf hx
  obtain ⟨_, _, _, _, _, _, _, _, g9⟩ := canon_lin wf (sig2_canon wf hx)
  have := wf.heven
  have := wf.hfan
  have := wf.hh
  have hb' : (d.sig2 x).2.2.2 = d.N - 1 - Int.tmod x.2.2.2 d.N + (x.2.2.2 - x.2.1) := rfl
  rw [hb'] at g9 ⊢
  refine ⟨?_, rfl, ?_, ?_⟩
  · rcases h9 with h9 | h9 <;> rcases g9 with g9 | g9 <;> omega
  · rcases h9 with h9 | h9 <;> omega
  · rcases h9 with h9 | h9 <;> omega

theorem K_sig1 (wf : d.WF) {x : Key} (hx : x ∈ d.canon) (hr : x.1 < x.2.2.1) :
    d.K1 (d.sig1 x) = d.K3 x ∧ d.K2 (d.sig1 x) = d.K4 x ∧ d.K3 (d.sig1 x) = d.K1 x ∧ d.K4 (d.sig1 x) = d.K2 x := by
  obtain ⟨h1, h2, h3, h4, h5, h6, h7, h8, h9⟩ := canon_lin wf hx
  obtain ⟨e1, e2, e3, e4⟩ := K_red wf hx
  obtain ⟨f1, f2, f3, f4⟩ := K_red wf (sig1_canon wf hx)
  obtain ⟨b1, b2, b3, b4⟩ := sig1_b wf hx
  rw [e1, e2, e3, e4, f1, f2, f3, f4, b1, b2]
  unfold Dims.sig1
  simp only [sub_sub_cancel]
  refine ⟨?_, ?_, ?_, ?_⟩
  · exact storeKey_symm d (by omega) ⟨b3, b4⟩ ⟨h5, h6⟩
  · exact storeKey_symm d (by omega) ⟨by omega, by omega⟩ ⟨by omega, by omega⟩
  · exact storeKey_symm d (by omega) ⟨b3, b4⟩ ⟨h5, h6⟩
  · exact storeKey_symm d (by omega) ⟨by omega, by omega⟩ ⟨by omega, by omega⟩

theorem K_sig2 (wf : d.WF) {x : Key} (hx : x ∈ d.canon) (hr : x.1 < x.2.2.1) :
    d.K1 (d.sig2 x) = d.K4 x ∧ d.K2 (d.sig2 x) = d.K3 x ∧ d.K3 (d.sig2 x) = d.K2 x ∧ d.K4 (d.sig2 x) = d.K1 x := by
  obtain ⟨h1, h2, h3, h4, h5, h6, h7, h8, h9⟩ := canon_lin wf hx
  obtain ⟨e1, e2, e3, e4⟩ := K_red wf hx
  obtain ⟨f1, f2, f3, f4⟩ := K_red wf (sig2_canon wf hx)
  obtain ⟨b1, b2, b3, b4⟩ := sig2_b wf hx
  rw [e1, e2, e3, e4, f1, f2, f3, f4, b1, b2]
  unfold Dims.sig2
  simp only [sub_sub_cancel]
  refine ⟨?_, ?_, ?_, ?_⟩
  · exact storeKey_symm d (by omega) ⟨by omega, by omega⟩ ⟨by omega, by omega⟩
  · exact storeKey_symm d (by omega) ⟨b3, b4⟩ ⟨h5, h6⟩
  · exact storeKey_symm d (by omega) ⟨by omega, by omega⟩ ⟨by omega, by omega⟩
  · exact storeKey_symm d (by omega) ⟨b3, b4⟩ ⟨h5, h6⟩

theorem K_sig0 (d : Dims) (x : Key) :
    d.K1 (d.sig0 x) = d.K3 x ∧ d.K2 (d.sig0 x) = d.K4 x ∧ d.K3 (d.sig0 x) = d.K1 x ∧ d.K4 (d.sig0 x) = d.K2 x := by
  refine ⟨?_, ?_, ?_, ?_⟩ <;> simp only [Dims.K1, Dims.K2, Dims.K3, Dims.K4, Dims.sig0, sub_sub_cancel]

theorem fourTerms_cross (d : Dims) {ra rb : Int} (h : ra ≠ rb) : d.fourTerms ra rb = true := by
  unfold Dims.fourTerms
  simp only [Bool.or_eq_true, bne_iff_ne, ne_eq]
  omega

theorem fourTerms_sig0 (d : Dims) (r : Int) : d.fourTerms (d.R - 1 - r) (d.R - 1 - r) = d.fourTerms r r := by
  unfold Dims.fourTerms
  rw [sub_sub_cancel, bne_comm]

/-- in-ring entries: the axial mirror image is summed over the same elements -/
theorem mirrorKeys_sig0 (d : Dims) {x : Key} (hr : x.1 = x.2.2.1) : (d.mirrorKeys (d.sig0 x)).Perm (d.mirrorKeys x) := by
  obtain ⟨k1, k2, k3, k4⟩ := K_sig0 d x
  rw [mirrorKeys_eq, mirrorKeys_eq, k1, k2, k3, k4]
  have hf : d.fourTerms (d.sig0 x).1 (d.sig0 x).2.2.1 = d.fourTerms x.1 x.2.2.1 := by
    unfold Dims.sig0
    simp only
    rw [← hr]
    exact fourTerms_sig0 d x.1
  rw [hf]
  split
  · exact (List.perm_append_comm (l₁ := [d.K3 x, d.K4 x]) (l₂ := [d.K1 x, d.K2 x]))
  · rename_i hft
    -- the LOR is its own axial mirror image
    have hc : d.R - 1 - x.1 = x.1 := by
      have : d.fourTerms x.1 x.2.2.1 = false := by simpa using hft
      unfold Dims.fourTerms at this
      simp only [Bool.or_eq_false_iff, bne_eq_false_iff_eq] at this
      exact this.1.symm
    unfold Dims.K3 Dims.K4 Dims.K1 Dims.K2
    rw [← hr, hc]

/-- cross-ring entries: both other-detector mirror images are summed over the same elements -/
theorem mirrorKeys_sig1 (wf : d.WF) {x : Key} (hx : x ∈ d.canon) (hr : x.1 < x.2.2.1) :
    (d.mirrorKeys (d.sig1 x)).Perm (d.mirrorKeys x) := by
  obtain ⟨k1, k2, k3, k4⟩ := K_sig1 wf hx hr
  rw [mirrorKeys_eq, mirrorKeys_eq, k1, k2, k3, k4, fourTerms_cross d (by omega : x.1 ≠ x.2.2.1),
    fourTerms_cross d (by unfold Dims.sig1; simp only; omega : (d.sig1 x).1 ≠ (d.sig1 x).2.2.1)]
  exact (List.perm_append_comm (l₁ := [d.K3 x, d.K4 x]) (l₂ := [d.K1 x, d.K2 x]))

theorem mirrorKeys_sig2 (wf : d.WF) {x : Key} (hx : x ∈ d.canon) (hr : x.1 < x.2.2.1) :
    (d.mirrorKeys (d.sig2 x)).Perm (d.mirrorKeys x) := by
  obtain ⟨k1, k2, k3, k4⟩ := K_sig2 wf hx hr
  rw [mirrorKeys_eq, mirrorKeys_eq, k1, k2, k3, k4, fourTerms_cross d (by omega : x.1 ≠ x.2.2.1),
    fourTerms_cross d (by unfold Dims.sig2; simp only; omega : (d.sig2 x).1 ≠ (d.sig2 x).2.2.1)]
  exact (List.reverse_perm [d.K1 x, d.K2 x, d.K3 x, d.K4 x])

/-! ## the mirror images respect the lattice of block translations -/

theorem sig0_lat {g : GeoDims} {x y : Key} (h : LatRel g x y) : LatRel g (d.sig0 x) (d.sig0 y) := by
  obtain ⟨p, q, hp, hq, rfl⟩ := h
  refine ⟨-p, q, (dvd_neg).2 hp, hq, ?_⟩
  unfold Dims.sig0
  ext <;> simp <;> ring

theorem sig1_lat (wf : d.WF) {g : GeoDims} (hT : (g.half * 2) ∣ d.N) {x y : Key} (hx : x ∈ d.canon) (hy : y ∈ d.canon)
    (h : LatRel g x y) : LatRel g (d.sig1 x) (d.sig1 y) := by
  obtain ⟨_, _, _, _, _, _, _, _, h9⟩ := canon_lin wf hx
  obtain ⟨_, _, _, _, _, _, _, _, g9⟩ := canon_lin wf hy
  obtain ⟨p, q, hp, hq, rfl⟩ := h
  simp only at h9
  have hcases : ∃ q', (g.half * 2) ∣ q' ∧ Int.tmod (y.2.2.2 + q) d.N = Int.tmod y.2.2.2 d.N + q' := by
    rcases h9 with ⟨a1, _⟩ | ⟨a1, _⟩ <;> rcases g9 with ⟨a2, _⟩ | ⟨a2, _⟩
    · exact ⟨q, hq, by omega⟩
    · exact ⟨q + d.N, dvd_add hq hT, by omega⟩
    · exact ⟨q - d.N, dvd_sub hq hT, by omega⟩
    · exact ⟨q, hq, by omega⟩
  obtain ⟨q', hq', he⟩ := hcases
  refine ⟨-p, q', (dvd_neg).2 hp, hq', ?_⟩
  unfold Dims.sig1
  simp only [he, Prod.mk.injEq]
  refine ⟨by ring, trivial, by ring, by ring⟩

theorem sig2_lat (wf : d.WF) {g : GeoDims} (hT : (g.half * 2) ∣ d.N) {x y : Key} (hx : x ∈ d.canon) (hy : y ∈ d.canon)
    (h : LatRel g x y) : LatRel g (d.sig2 x) (d.sig2 y) := by
  obtain ⟨_, _, _, _, _, _, _, _, h9⟩ := canon_lin wf hx
  obtain ⟨_, _, _, _, _, _, _, _, g9⟩ := canon_lin wf hy
  obtain ⟨p, q, hp, hq, rfl⟩ := h
  simp only at h9
  have hcases : ∃ q', (g.half * 2) ∣ q' ∧ Int.tmod (y.2.2.2 + q) d.N = Int.tmod y.2.2.2 d.N - q' := by
    rcases h9 with ⟨a1, _⟩ | ⟨a1, _⟩ <;> rcases g9 with ⟨a2, _⟩ | ⟨a2, _⟩
    · exact ⟨-q, (dvd_neg).2 hq, by omega⟩
    · exact ⟨-q - d.N, dvd_sub ((dvd_neg).2 hq) hT, by omega⟩
    · exact ⟨-q + d.N, dvd_add ((dvd_neg).2 hq) hT, by omega⟩
    · exact ⟨-q, (dvd_neg).2 hq, by omega⟩
  obtain ⟨q', hq', he⟩ := hcases
  refine ⟨-p, q', (dvd_neg).2 hp, hq', ?_⟩
  unfold Dims.sig2
  simp only [he, Prod.mk.injEq]
  refine ⟨by ring, by ring, by ring, by ring⟩

end
end StirVerif.C20
