import StirVerif.C20.ProofsBlock
/-! # C20 — the guard of `iterate_geo_norm` / `iterate_block_norm` on data whose class sums span many orders of magnitude

`(measured >= threshold || measured < 10000*norm) ? measured/norm : 0` with `threshold = find_max()/10000`
(ML_norm.cxx:395-401, 411-418, 1709-1722, 1731-1741; `ratioOrZero` in the model).  When does it return `measured/norm`, what
does it return for classes without counts, and why the conjunction of the two conditions is not the same function. -/
namespace StirVerif.C20
set_option linter.unusedSectionVars false

section
variable {K : Type} [Field K] [LinearOrder K] [IsStrictOrderedRing K]

/-- **when the guard returns the ratio**: exactly when the class is at or above the threshold, or its ratio is below the hard-wired
`10000`, or the ratio is `0` anyway. -/
theorem ratioOrZero_eq_div_iff (thr m n : K) :
    ratioOrZero thr m n = m / n ↔ (thr ≤ m ∨ m < 10000 * n ∨ m / n = 0) := by
  unfold ratioOrZero
  by_cases h1 : m < thr
  · by_cases h2 : m < 10000 * n
    · simp [h1, h2]
    · simp only [h1, h2, decide_true, decide_false, Bool.not_true, Bool.or_self, Bool.false_eq_true, if_false, not_le.2 h1, false_or]
      exact eq_comm
  · simp [h1, not_lt.1 h1]

/-- a class without measured counts gets the factor `0`, whatever the model sum and the threshold (`0/0 = 0` in a field; the C++
evaluates `0.F/0.F = NaN` only when `threshold = 0`, i.e. when *all* measured class sums are `0`). -/
theorem ratioOrZero_zero_measured (thr n : K) : ratioOrZero thr 0 n = 0 := by
  unfold ratioOrZero
  split <;> simp

/-- **fixed point of the class ratio, model classes without counts included**: measured class sum `g · S`, model class sum `S ≥ 0`,
`g < 10000`: the guard returns `g` when the model has counts in the class and `0` when it has none — for any threshold. -/
theorem ratioOrZero_fixed_nonneg (thr S g : K) (hS : 0 ≤ S) (hg : g < 10000) :
    ratioOrZero thr (g * S) S = if S = 0 then 0 else g := by
  by_cases h0 : S = 0
  · subst h0
    rw [mul_zero, ratioOrZero_zero_measured]
    simp
  · rw [if_neg h0]
    exact ratioOrZero_fixed thr S g (lt_of_le_of_ne hS (Ne.symm h0)) hg

/-- **exactly when the fixed-point clause holds for a class** (`S > 0`): the factor `g` is reproduced iff the class is at or above
the threshold, or `g < 10000`, or `g = 0`. -/
theorem ratioOrZero_fixed_iff (thr S g : K) (hS : 0 < S) :
    ratioOrZero thr (g * S) S = g ↔ (thr ≤ g * S ∨ g < 10000 ∨ g = 0) := by
  have hdiv : g * S / S = g := mul_div_cancel_right₀ _ hS.ne'
  have h := ratioOrZero_eq_div_iff thr (g * S) S
  rw [hdiv] at h
  rw [h]
  constructor
  · rintro (h1 | h2 | h3)
    · exact Or.inl h1
    · exact Or.inr (Or.inl (lt_of_mul_lt_mul_right h2 hS.le))
    · exact Or.inr (Or.inr h3)
  · rintro (h1 | h2 | h3)
    · exact Or.inl h1
    · exact Or.inr (Or.inl (mul_lt_mul_of_pos_right h2 hS))
    · exact Or.inr (Or.inr h3)

/-- Not in the C++ (a plausible refactoring of the duplicated guard into a helper that combines the two conditions with `&&`
instead of `||`): used only to state that it is a different function. -/
def ratioAndVariant (thr measured norm : K) : K :=
  if !(decide (measured < thr)) && decide (measured < 10000 * norm) then measured / norm else 0

/-- the `&&` variant returns `0` for **every** class below the threshold `find_max()/10000` … -/
theorem ratioAndVariant_below_threshold (thr m n : K) (h : m < thr) : ratioAndVariant thr m n = 0 := by
  unfold ratioAndVariant
  simp [h]

/-- … so no positive factor of a class below the threshold is a fixed point of it, while the code's guard reproduces it. -/
theorem ratioAndVariant_not_fixed (thr S g : K) (hS : 0 < S) (hg0 : 0 < g) (hg : g < 10000) (hthr : g * S < thr) :
    ratioAndVariant thr (g * S) S ≠ g ∧ ratioOrZero thr (g * S) S = g := by
  refine ⟨?_, ratioOrZero_fixed thr S g hS hg⟩
  rw [ratioAndVariant_below_threshold _ _ _ hthr]
  exact hg0.ne

theorem list_sum_nonneg_of_nonneg {α : Type} (g : α → K) (l : List α) (h : ∀ x ∈ l, 0 ≤ g x) : 0 ≤ (l.map g).sum := by
  induction l with
  | nil => simp
  | cons x l ih =>
    rw [List.map_cons, List.sum_cons]
    exact add_nonneg (h x (by simp)) (ih fun y hy => h y (by simp [hy]))

/-- **fixed point of `iterate_block_norm` for models with empty classes and any dynamic range**: non-negative model (a compact
source: LORs without counts allowed), data generated exactly as `block factor × model`, factors below the hard-wired `10000`
(zero factors allowed): the iteration returns the block factor of every pair of blocks in which the model has counts and `0` for
the pairs in which it has none — whatever the ratio between the largest and the smallest measured block sum. -/
theorem iterateBlock_fixed_nonneg {d bd : Dims} (wf : d.WF) (wfb : bd.WF) (model blk : Fan K)
    (hmodel : ∀ c ∈ d.canon, 0 ≤ model.get (d.key c))
    (halloc : ∀ c ∈ d.canon, bd.allocated (blockKey d bd c) = true)
    (hblk : ∀ c ∈ d.canon, blk.get (blockKey d bd c) < 10000) {c : Key} (hc : c ∈ d.canon) :
    (iterateBlock d bd (makeBlock d bd (applyBlock d bd model blk true)) model).get (blockKey d bd c)
      = if (makeBlock d bd model).get (blockKey d bd c) = 0 then 0 else blk.get (blockKey d bd c) := by
  classical
  obtain ⟨c', hc', hk'⟩ := exists_canon_of_allocated wfb (halloc c hc)
  rw [iterateBlock_eq_fold, ← hk',
    updFold_get bd.key _ bd.canon (canon_nodup bd) (fun a ha b hb h => key_injOn_canon wfb ha hb h) _ hc', hk']
  have hmeas : (makeBlock d bd (applyBlock d bd model blk true)).get (blockKey d bd c)
      = blk.get (blockKey d bd c) * (makeBlock d bd model).get (blockKey d bd c) := by
    rw [makeBlock_get, makeBlock_get, ← sum_map_mul_left']
    apply sum_map_congr
    intro x hx
    obtain ⟨hxc, hxk⟩ := List.mem_filter.1 hx
    have hxk' : blockKey d bd x = blockKey d bd c := by simpa using hxk
    rw [applyBlock_get_key wf model blk hxc, blockFactor_eq, hxk']
    ring
  have hnn : 0 ≤ (makeBlock d bd model).get (blockKey d bd c) := by
    rw [makeBlock_get]
    exact list_sum_nonneg_of_nonneg _ _ fun x hx => hmodel x (List.mem_filter.1 hx).1
  rw [hmeas]
  exact ratioOrZero_fixed_nonneg _ _ _ hnn (hblk c hc)

end
end StirVerif.C20
