import StirVerif.C20.ProofsGeoClass
/-! # C20 — the class structure of the geometric factors, part 1: block translations

For fitting dimensions (`T = 2·half ∣ N`, `A = acpb ∣ R`) the fan entries summed into the geometric factor `c` by `make_geo_data`
are the mirror images of the entries of `geoOrbit c`: the index tuples of the loop nest of the fan data that differ from `c` by a
lattice vector `(i·A, l·T, i·A, l·T)` (`mem_geoOrbit`). -/
namespace StirVerif.C20
set_option linter.unusedSectionVars false

/-- the block-translated entry as an index tuple of the loop nest of the fan data (`b` not reduced) -/
def geoShiftC (g : GeoDims) (c : Key) (sh : Int × Int) : Key :=
  (c.1 + sh.1 * g.acpb, c.2.1 + sh.2 * (g.half * 2), c.2.2.1 + sh.1 * g.acpb, c.2.2.2 + sh.2 * (g.half * 2))

/-- `x` and `y` differ by a whole number of axial blocks (both rings) and a whole number of transaxial blocks (both detectors) -/
def LatRel (g : GeoDims) (x y : Key) : Prop :=
  ∃ p q : Int, g.acpb ∣ p ∧ (g.half * 2) ∣ q ∧ x = (y.1 + p, y.2.1 + q, y.2.2.1 + p, y.2.2.2 + q)

theorem LatRel.refl (g : GeoDims) (x : Key) : LatRel g x x := ⟨0, 0, dvd_zero _, dvd_zero _, by simp⟩

theorem LatRel.symm {g : GeoDims} {x y : Key} (h : LatRel g x y) : LatRel g y x := by
  obtain ⟨p, q, hp, hq, rfl⟩ := h
  refine ⟨-p, -q, (dvd_neg).2 hp, (dvd_neg).2 hq, ?_⟩
  ext <;> simp

theorem LatRel.trans {g : GeoDims} {x y z : Key} (h : LatRel g x y) (h' : LatRel g y z) : LatRel g x z := by
  obtain ⟨p, q, hp, hq, rfl⟩ := h
  obtain ⟨p', q', hp', hq', rfl⟩ := h'
  refine ⟨p' + p, q' + q, dvd_add hp' hp, dvd_add hq' hq, ?_⟩
  ext <;> simp <;> ring

/-- no multiple of `T` lies strictly between `0` and `T` -/
theorem no_multiple_between {k T : Int} (h0 : 0 < k * T) (h1 : k * T < T) : False := by
  have hT : 0 < T := by
    by_contra hT
    have hT' : T ≤ 0 := not_lt.1 hT
    nlinarith
  rcases le_or_gt k 0 with hk | hk
  · nlinarith
  · nlinarith

/-- a multiple of `A` strictly between `-A` and `A` is `0` -/
theorem multiple_small {k A : Int} (h0 : -A < k * A) (h1 : k * A < A) : k = 0 := by
  have hA : 0 < A := by
    by_contra hA
    have hA' : A ≤ 0 := not_lt.1 hA
    omega
  rcases lt_trichotomy k 0 with hk | hk | hk
  · nlinarith
  · exact hk
  · nlinarith

section
variable {d : Dims} {g : GeoDims}

/-- facts about a geometric-factor index tuple and the dimensions -/
theorem geoLoop_facts (wf : d.WF) (fits : g.Fits d) {c : Key} (hc : c ∈ geoLoop d g) :
    0 < g.acpb ∧ 0 < g.half ∧ g.half * 2 ≤ d.N ∧ Int.tdiv d.N (g.half * 2) * (g.half * 2) = d.N ∧
      Int.tdiv d.R g.acpb * g.acpb = d.R ∧ 0 < d.N ∧ c ∈ d.canon := by
  obtain ⟨⟨h1, h2⟩, ⟨h3, h4⟩, ⟨h5, h6⟩, h7, h8⟩ := mem_geoLoop.1 hc
  have := wf.heven
  have := wf.hfan
  have := wf.hh
  have hN : 0 < d.N := by omega
  have hT : g.half * 2 ≤ d.N := Int.le_of_dvd hN fits.hT
  have hTd : Int.tdiv d.N (g.half * 2) * (g.half * 2) = d.N := by rw [mul_comm]; exact Int.mul_tdiv_cancel' fits.hT
  have hAd : Int.tdiv d.R g.acpb * g.acpb = d.R := by rw [mul_comm]; exact Int.mul_tdiv_cancel' fits.hA
  refine ⟨by omega, by omega, hT, hTd, hAd, hN, mem_canon.2 ⟨⟨h1, ?_⟩, ⟨h3, by omega⟩, ⟨h5, h6⟩, h7, h8⟩⟩
  unfold Dims.maxRb at h6
  have : c.1 ≤ c.2.2.1 := le_trans (le_max_left _ _) h5
  omega

/-- a block translation of the loops, in lattice form: bounds of the two block numbers -/
theorem shift_bounds (wf : d.WF) (fits : g.Fits d) {c : Key} (hc : c ∈ geoLoop d g) {sh : Int × Int}
    (hsh : sh ∈ blockShifts d g) :
    0 ≤ sh.1 * g.acpb ∧ c.1 + sh.1 * g.acpb ≤ d.R - 1 ∧ 0 ≤ sh.2 * (g.half * 2) ∧ c.2.1 + sh.2 * (g.half * 2) ≤ d.N - 1 := by
  obtain ⟨hA, hH, _, hTd, hAd, _, _⟩ := geoLoop_facts wf fits hc
  obtain ⟨⟨h1, h2⟩, ⟨h3, h4⟩, _, _, _⟩ := mem_geoLoop.1 hc
  obtain ⟨⟨s1, s2⟩, s3, s4⟩ := mem_blockShifts.1 hsh
  have e1 : (sh.1 + 1) * g.acpb ≤ d.R := by
    calc (sh.1 + 1) * g.acpb ≤ Int.tdiv d.R g.acpb * g.acpb := mul_le_mul_of_nonneg_right (by omega) hA.le
      _ = d.R := hAd
  have e2 : (sh.2 + 1) * (g.half * 2) ≤ d.N := by
    calc (sh.2 + 1) * (g.half * 2) ≤ Int.tdiv d.N (g.half * 2) * (g.half * 2) := mul_le_mul_of_nonneg_right (by omega) (by omega)
      _ = d.N := hTd
  refine ⟨mul_nonneg s1 hA.le, by linarith, mul_nonneg s3 (by omega), by linarith⟩

/-- the translated entry, reduced (as computed by the code) and as an index tuple of the loop nest -/
theorem geoShift_spec (wf : d.WF) (fits : g.Fits d) {c : Key} (hc : c ∈ geoLoop d g) {sh : Int × Int}
    (hsh : sh ∈ blockShifts d g) :
    geoShift d g c sh = ((geoShiftC g c sh).1, (geoShiftC g c sh).2.1, (geoShiftC g c sh).2.2.1,
        Int.tmod (geoShiftC g c sh).2.2.2 d.N) ∧
      d.canonOf (geoShift d g c sh) = geoShiftC g c sh ∧
      (d.inDataK (geoShift d g c sh) = true ↔ c.2.2.1 + sh.1 * g.acpb ≤ d.R - 1) ∧
      (d.minB (geoShiftC g c sh).2.1 ≤ (geoShiftC g c sh).2.2.2 ∧ (geoShiftC g c sh).2.2.2 ≤ d.maxB (geoShiftC g c sh).2.1) := by
  obtain ⟨b1, b2, b3, b4⟩ := shift_bounds wf fits hc hsh
  obtain ⟨⟨h1, h2⟩, ⟨h3, h4⟩, ⟨h5, h6⟩, h7, h8⟩ := mem_geoLoop.1 hc
  have := wf.heven
  have := wf.hfan
  have := wf.hh
  have := wf.hmd
  have hna : Int.tmod (c.2.1 + sh.2 * (g.half * 2)) d.N = c.2.1 + sh.2 * (g.half * 2) :=
    Int.tmod_eq_of_lt (by omega) (by omega)
  unfold Dims.minB at h7
  unfold Dims.maxB at h8
  have hnb := tmod_window (b := c.2.2.2 + sh.2 * (g.half * 2)) (N := d.N) (by omega) (by omega)
  have hle : c.1 ≤ c.2.2.1 := le_trans (le_max_left _ _) h5
  refine ⟨?_, ?_, ?_, ?_⟩
  · unfold geoShift geoShiftC
    simp only [hna]
  · unfold Dims.canonOf geoShift geoShiftC Dims.liftB Dims.minB
    simp only [hna, hnb]
    simp only [Prod.mk.injEq, true_and]
    split_ifs <;> omega
  · unfold Dims.inDataK
    rw [isInData_iff]
    unfold geoShift Dims.loRb Dims.minRb Dims.maxRb Dims.minB Dims.maxB
    simp only [hna, hnb]
    unfold Dims.minRb at h5
    unfold Dims.maxRb at h6
    constructor
    · rintro ⟨_, h, _⟩
      omega
    · intro h
      refine ⟨by omega, by omega, ?_⟩
      split <;> omega
  · unfold geoShiftC Dims.minB Dims.maxB
    simp only
    omega

/-- the index tuples of the loop nest of the fan data whose mirror images `make_geo_data` sums into the geometric factor `c` -/
def geoOrbit (d : Dims) (g : GeoDims) (c : Key) : List Key :=
  ((blockShifts d g).filter fun sh => d.inDataK (geoShift d g c sh)).map (geoShiftC g c)

theorem geoTermKeys_eq (wf : d.WF) (fits : g.Fits d) {c : Key} (hc : c ∈ geoLoop d g) :
    geoTermKeys d g c = (geoOrbit d g c).flatMap d.mirrorKeys := by
  unfold geoTermKeys geoOrbit
  rw [List.flatMap_map]
  apply List.flatMap_congr
  intro sh hsh
  rw [(geoShift_spec wf fits hc (List.mem_filter.1 hsh).1).2.1]

theorem blockShifts_nodup (d : Dims) (g : GeoDims) : (blockShifts d g).Nodup := by
  unfold blockShifts
  refine nodup_flatMap_of_tag _ _ (fun sh => sh.1) (nodup_intRange _ _) (fun axb _ => ?_) (fun axb _ y hy => ?_)
  · refine List.Nodup.map ?_ (nodup_intRange _ _)
    intro b b' h
    simpa using h
  · obtain ⟨b, _, rfl⟩ := List.mem_map.1 hy
    rfl

theorem geoOrbit_nodup (wf : d.WF) (fits : g.Fits d) {c : Key} (hc : c ∈ geoLoop d g) : (geoOrbit d g c).Nodup := by
  obtain ⟨hA, hH, _⟩ := geoLoop_facts wf fits hc
  unfold geoOrbit
  refine List.Nodup.map_on ?_ ((blockShifts_nodup d g).filter _)
  intro sh _ sh' _ h
  unfold geoShiftC at h
  simp only [Prod.mk.injEq] at h
  obtain ⟨e1, e2, _, _⟩ := h
  have h1 : sh.1 = sh'.1 := by
    have : sh.1 * g.acpb = sh'.1 * g.acpb := by omega
    exact mul_right_cancel₀ hA.ne' this
  have h2 : sh.2 = sh'.2 := by
    have : sh.2 * (g.half * 2) = sh'.2 * (g.half * 2) := by omega
    exact mul_right_cancel₀ (by omega : g.half * 2 ≠ 0) this
  exact Prod.ext h1 h2

/-- **the entries summed into the geometric factor `c`** are exactly the index tuples of the loop nest of the fan data in the
lattice class of `c` -/
theorem mem_geoOrbit (wf : d.WF) (fits : g.Fits d) {c : Key} (hc : c ∈ geoLoop d g) {x : Key} :
    x ∈ geoOrbit d g c ↔ x ∈ d.canon ∧ LatRel g x c := by
  obtain ⟨hA, hH, hT, hTd, hAd, hN, hcc⟩ := geoLoop_facts wf fits hc
  obtain ⟨⟨h1, h2⟩, ⟨h3, h4⟩, ⟨h5, h6⟩, h7, h8⟩ := mem_geoLoop.1 hc
  have := wf.heven
  have := wf.hfan
  have := wf.hh
  have := wf.hmd
  unfold geoOrbit
  rw [List.mem_map]
  constructor
  · rintro ⟨sh, hsh, rfl⟩
    obtain ⟨hsh, hin⟩ := List.mem_filter.1 hsh
    obtain ⟨_, hcan, _, _⟩ := geoShift_spec wf fits hc hsh
    obtain ⟨r1, r2, r3, r4, _⟩ := geoShift_ranges wf fits hc hsh
    refine ⟨?_, sh.1 * g.acpb, sh.2 * (g.half * 2), dvd_mul_left _ _, dvd_mul_left _ _, rfl⟩
    rw [← hcan]
    exact (canonOf_spec wf hin r1 r2 r3 r4).1
  · rintro ⟨hx, p, q, ⟨i, rfl⟩, ⟨l, rfl⟩, rfl⟩
    rw [mul_comm g.acpb i, mul_comm (g.half * 2) l] at hx ⊢
    obtain ⟨⟨x1, x2⟩, ⟨x3, x4⟩, ⟨x5, x6⟩, x7, x8⟩ := mem_canon.1 hx
    simp only at x1 x2 x3 x4 x5 x6 x7 x8
    -- the block numbers are in range
    have hi0 : 0 ≤ i := by
      by_contra hneg
      have : i * g.acpb ≤ -1 * g.acpb := mul_le_mul_of_nonneg_right (by omega) hA.le
      omega
    have hi1 : i ≤ Int.tdiv d.R g.acpb - 1 := by
      by_contra hbig
      have : Int.tdiv d.R g.acpb * g.acpb ≤ i * g.acpb := mul_le_mul_of_nonneg_right (by omega) hA.le
      omega
    have hl0 : 0 ≤ l := by
      by_contra hneg
      have : l * (g.half * 2) ≤ -1 * (g.half * 2) := mul_le_mul_of_nonneg_right (by omega) (by omega)
      omega
    have hl1 : l ≤ Int.tdiv d.N (g.half * 2) - 1 := by
      by_contra hbig
      have : Int.tdiv d.N (g.half * 2) * (g.half * 2) ≤ l * (g.half * 2) := mul_le_mul_of_nonneg_right (by omega) (by omega)
      omega
    have hsh : (i, l) ∈ blockShifts d g := mem_blockShifts.2 ⟨⟨hi0, hi1⟩, hl0, hl1⟩
    refine ⟨(i, l), List.mem_filter.2 ⟨hsh, ?_⟩, rfl⟩
    rw [(geoShift_spec wf fits hc hsh).2.2.1]
    unfold Dims.maxRb at x6
    show c.2.2.1 + i * g.acpb ≤ d.R - 1
    omega

end
end StirVerif.C20
