import StirVerif.C20.ProofsIter
import Mathlib.Algebra.Order.BigOperators.Group.List
/-! # C20 — positivity: with positive efficiencies and a positive model every denominator of `iterate_efficiencies` is positive;
constant tables (to show the hypotheses of the theorems are satisfiable) -/
namespace StirVerif.C20
set_option linter.unusedSectionVars false

section
variable {K : Type} [Field K] [LinearOrder K] [IsStrictOrderedRing K]

theorem list_sum_pos_of_pos {α : Type} (g : α → K) (l : List α) (hl : l ≠ []) (hpos : ∀ x ∈ l, 0 < g x) : 0 < (l.map g).sum := by
  induction l with
  | nil => exact absurd rfl hl
  | cons x l ih =>
    rw [List.map_cons, List.sum_cons]
    by_cases hnil : l = []
    · subst hnil
      simpa using hpos x (by simp)
    · exact add_pos (hpos x (by simp)) (ih hnil fun y hy => hpos y (by simp [hy]))

theorem intRange_ne_nil {lo hi : Int} (h : lo ≤ hi) : intRange lo hi ≠ [] := by
  intro hn
  have : lo ∈ intRange lo hi := mem_intRange.2 ⟨le_rfl, h⟩
  rw [hn] at this
  simp at this

/-- with positive efficiencies and a model that is positive on every stored detector pair, the denominator of
`iterate_efficiencies` is positive for every detector -/
theorem effDenominator_pos {d : Dims} (wf : d.WF) (model : Fan K) (eff : Tab K) (heff : ∀ x ∈ d.dets, 0 < eff.get x)
    (hmodel : ∀ c ∈ d.canon, 0 < model.get (d.key c)) {x : Int × Int} (hx : x ∈ d.dets) :
    0 < effDenominator d model eff x.1 x.2 := by
  classical
  obtain ⟨hra, ha⟩ := mem_dets.1 hx
  rw [effDenominator_eq]
  have hrng1 : d.minRb x.1 ≤ d.maxRb x.1 := by
    have := wf.hmd
    unfold Dims.minRb Dims.maxRb
    omega
  have hrng2 : d.minB x.2 ≤ d.maxB x.2 := by
    have := wf.hh
    unfold Dims.minB Dims.maxB
    omega
  apply list_sum_pos_of_pos _ _ (intRange_ne_nil hrng1)
  intro rb hrb
  apply list_sum_pos_of_pos _ _ (intRange_ne_nil hrng2)
  intro b hb
  obtain ⟨hw, hk⟩ := loop_inWindow wf hra ha (mem_intRange.1 hrb) (mem_intRange.1 hb)
  obtain ⟨c, hc, hkey, _⟩ := exists_canon_of_inWindow wf hw
  obtain ⟨_, _, h3, h4, _, _, _, _, h9, h10, _⟩ := hw
  refine mul_pos (heff _ (mem_dets.2 ⟨⟨h3, by omega⟩, ⟨h9, by omega⟩⟩)) ?_
  unfold Fan.at
  rw [hk, ← hkey]
  exact hmodel c hc

end

section
variable {K : Type} [OfNat K 0]

/-- the table with the value `v` for every detector -/
def Tab.const (d : Dims) (v : K) : Tab K := d.dets.foldl (fun T x => T.set x v) {}

/-- the fan data with the value `v` in every stored element -/
def Fan.const (d : Dims) (v : K) : Fan K := d.canon.foldl (fun F c => F.set (d.key c) v) {}

theorem Tab.const_get (d : Dims) (v : K) {x : Int × Int} (hx : x ∈ d.dets) : (Tab.const d v).get x = v := by
  unfold Tab.const
  have h : ∀ (l : List (Int × Int)) (T : Tab K), x ∈ l → (l.foldl (fun T x => T.set x v) T).get x = v := by
    intro l
    induction l with
    | nil => intro T h; simp at h
    | cons y l ih =>
      intro T hxl
      rw [List.foldl_cons]
      by_cases hl : x ∈ l
      · exact ih _ hl
      · have hy : x = y := by
          rcases List.mem_cons.1 hxl with h | h
          · exact h
          · exact absurd h hl
        subst hy
        have hstay : ∀ (l : List (Int × Int)) (T : Tab K), x ∉ l → (l.foldl (fun T x => T.set x v) T).get x = T.get x := by
          intro l
          induction l with
          | nil => intro T _; rfl
          | cons z l ih2 =>
            intro T hz
            rw [List.foldl_cons, ih2 _ (fun h => hz (by simp [h]))]
            exact Tab.get_set_ne _ _ (fun h => hz (by simp [h]))
        rw [hstay l _ hl, Tab.get_set_eq]
  exact h _ _ hx

theorem Fan.const_get (d : Dims) (v : K) {c : Key} (hc : c ∈ d.canon) : (Fan.const d v).get (d.key c) = v := by
  unfold Fan.const
  have hstay : ∀ (l : List Key) (F : Fan K) (k : Key), (∀ c' ∈ l, d.key c' ≠ k) →
      (l.foldl (fun F c => F.set (d.key c) v) F).get k = F.get k := by
    intro l
    induction l with
    | nil => intro F k _; rfl
    | cons z l ih2 =>
      intro F k hz
      rw [List.foldl_cons, ih2 _ _ (fun c' hc' => hz c' (by simp [hc']))]
      exact Fan.get_set_ne _ _ (hz z (by simp))
  have h : ∀ (l : List Key) (F : Fan K), c ∈ l → (l.foldl (fun F c => F.set (d.key c) v) F).get (d.key c) = v := by
    intro l
    induction l with
    | nil => intro F h; simp at h
    | cons y l ih =>
      intro F hcl
      rw [List.foldl_cons]
      by_cases hl : ∃ c' ∈ l, d.key c' = d.key c
      · obtain ⟨c', hc', hk⟩ := hl
        -- some later element writes the same key: use it
        have hgen : ∀ (l : List Key) (F : Fan K), (∃ c' ∈ l, d.key c' = d.key c) →
            (l.foldl (fun F c => F.set (d.key c) v) F).get (d.key c) = v := by
          intro l
          induction l with
          | nil => intro F ⟨_, h, _⟩; simp at h
          | cons z l ih3 =>
            intro F hex
            rw [List.foldl_cons]
            by_cases hl3 : ∃ c' ∈ l, d.key c' = d.key c
            · exact ih3 _ hl3
            · have hz : d.key z = d.key c := by
                obtain ⟨c'', hc'', hk''⟩ := hex
                rcases List.mem_cons.1 hc'' with h | h
                · rw [← h]; exact hk''
                · exact absurd ⟨c'', h, hk''⟩ hl3
              rw [hstay l _ _ (fun c' hc' hk' => hl3 ⟨c', hc', hk'⟩), hz, Fan.get_set_eq]
        exact hgen l _ ⟨c', hc', hk⟩
      · have hy : c = y := by
          rcases List.mem_cons.1 hcl with h | h
          · exact h
          · exact absurd ⟨c, h, rfl⟩ hl
        subst hy
        rw [hstay l _ _ (fun c' hc' hk' => hl ⟨c', hc', hk'⟩), Fan.get_set_eq]
  exact h _ _ hc

end
end StirVerif.C20
