import StirVerif.C20.ProofsGeoMirror
/-! # C20 — the class structure of the geometric factors, part 3: `GeoClassOK` for all fitting dimensions

* `mem_geoWriteTargets`: the elements of `work` written by `apply_geo_norm` for a factor `c'` and a block translation are
  `K1, K2` of the translated entry and — only for in-ring entries — `K3, K4`;
* `key_eq_cases`: two entries of the loop nest that share one of their four elements are equal or axial mirror images of each
  other (`sig0` / `sig1` / `sig2`), provided their first detectors are not transaxial mirror images of each other (both lie in
  the first half of a block);
* `terms_perm_of_map`: entries related by such a mirror image belong to factors that sum the same elements;
* `geoClassOK`: the class structure. -/
namespace StirVerif.C20
set_option linter.unusedSectionVars false

section
variable {d : Dims} {g : GeoDims}

theorem mem_ite_singleton {α : Type} {c : Prop} [Decidable c] {a t : α} : t ∈ (if c then [a] else []) ↔ c ∧ t = a := by
  split
  · simp [*]
  · simp [*]

/-- `is_in_data` for an entry of the loop nest with its first ring not above the second, and for its transaxial mirror image:
only the last ring matters -/
theorem inData_direct (wf : d.WF) {nra na nrb y : Int} (h0 : 0 ≤ nra) (h1 : nra ≤ nrb) (h2 : nrb - nra ≤ d.md)
    (ha : 0 ≤ na ∧ na < d.N) (hwin : na + Int.tdiv d.N 2 - d.h ≤ y ∧ y ≤ na + Int.tdiv d.N 2 + d.h) :
    (d.isInData nra na nrb (Int.tmod y d.N) = true ↔ nrb ≤ d.R - 1) ∧
      (d.isInData nra (d.N - 1 - na) nrb (d.N - 1 - Int.tmod y d.N) = true ↔ nrb ≤ d.R - 1) := by
  have := wf.heven
  have := wf.hfan
  have := wf.hh
  have := wf.hmd
  have hy := tmod_window (b := y) (N := d.N) (by omega) (by omega)
  have hyc : Int.tmod y d.N = y ∧ y < d.N ∨ Int.tmod y d.N = y - d.N ∧ d.N ≤ y := by
    rw [hy]; split
    · left; exact ⟨rfl, ‹_›⟩
    · right; exact ⟨rfl, by omega⟩
  constructor
  · rw [isInData_iff]
    unfold Dims.loRb Dims.minRb Dims.maxRb Dims.minB Dims.maxB
    constructor
    · rintro ⟨_, h, _⟩; omega
    · intro h
      refine ⟨by omega, by omega, ?_⟩
      rcases hyc with h | h <;> omega
  · rw [isInData_iff]
    unfold Dims.loRb Dims.minRb Dims.maxRb Dims.minB Dims.maxB
    constructor
    · rintro ⟨_, h, _⟩; omega
    · intro h
      refine ⟨by omega, by omega, ?_⟩
      rcases hyc with h | h <;> omega

/-- `is_in_data` for the axial mirror image (rings in the other order): only in-ring entries pass -/
theorem inData_mirror (wf : d.WF) {nra na nrb y : Int} (h0 : 0 ≤ nra) (h1 : nra ≤ nrb) (h2 : nrb - nra ≤ d.md)
    (ha : 0 ≤ na ∧ na < d.N) (hwin : na + Int.tdiv d.N 2 - d.h ≤ y ∧ y ≤ na + Int.tdiv d.N 2 + d.h) :
    (d.isInData (d.R - 1 - nra) na (d.R - 1 - nrb) (Int.tmod y d.N) = true ↔ nrb ≤ d.R - 1 ∧ nra = nrb) ∧
      (d.isInData (d.R - 1 - nra) (d.N - 1 - na) (d.R - 1 - nrb) (d.N - 1 - Int.tmod y d.N) = true ↔
        nrb ≤ d.R - 1 ∧ nra = nrb) := by
  have := wf.heven
  have := wf.hfan
  have := wf.hh
  have := wf.hmd
  have hy := tmod_window (b := y) (N := d.N) (by omega) (by omega)
  have hyc : Int.tmod y d.N = y ∧ y < d.N ∨ Int.tmod y d.N = y - d.N ∧ d.N ≤ y := by
    rw [hy]; split
    · left; exact ⟨rfl, ‹_›⟩
    · right; exact ⟨rfl, by omega⟩
  constructor
  · rw [isInData_iff]
    unfold Dims.loRb Dims.minRb Dims.maxRb Dims.minB Dims.maxB
    constructor
    · rintro ⟨h, h', _⟩; omega
    · intro h
      refine ⟨by omega, by omega, ?_⟩
      rcases hyc with h | h <;> omega
  · rw [isInData_iff]
    unfold Dims.loRb Dims.minRb Dims.maxRb Dims.minB Dims.maxB
    constructor
    · rintro ⟨h, h', _⟩; omega
    · intro h
      refine ⟨by omega, by omega, ?_⟩
      rcases hyc with h | h <;> omega

/-- the four elements of an index tuple with reduced last index -/
theorem K_of_tuple (wf : d.WF) {nra na nrb y : Int} (ha : 0 ≤ na ∧ na < d.N)
    (hwin : na + Int.tdiv d.N 2 - d.h ≤ y ∧ y ≤ na + Int.tdiv d.N 2 + d.h) :
    d.K1 (nra, na, nrb, y) = d.storeKey nra na nrb (Int.tmod y d.N) ∧
    d.K2 (nra, na, nrb, y) = d.storeKey nra (d.N - 1 - na) nrb (d.N - 1 - Int.tmod y d.N) ∧
    d.K3 (nra, na, nrb, y) = d.storeKey (d.R - 1 - nra) na (d.R - 1 - nrb) (Int.tmod y d.N) ∧
    d.K4 (nra, na, nrb, y) = d.storeKey (d.R - 1 - nra) (d.N - 1 - na) (d.R - 1 - nrb) (d.N - 1 - Int.tmod y d.N) ∧
    Int.tmod (2 * d.N - 1 - Int.tmod y d.N) d.N = d.N - 1 - Int.tmod y d.N := by
  have := wf.heven
  have := wf.hfan
  have := wf.hh
  have hy := tmod_window (b := y) (N := d.N) (by omega) (by omega)
  have hyc : Int.tmod y d.N = y ∧ y < d.N ∨ Int.tmod y d.N = y - d.N ∧ d.N ≤ y := by
    rw [hy]; split
    · left; exact ⟨rfl, ‹_›⟩
    · right; exact ⟨rfl, by omega⟩
  have hm : Int.tmod (2 * d.N - 1 - Int.tmod y d.N) d.N = d.N - 1 - Int.tmod y d.N := by
    rw [tmod_window (b := 2 * d.N - 1 - Int.tmod y d.N) (N := d.N) (by rcases hyc with h | h <;> omega)
      (by rcases hyc with h | h <;> omega)]
    split <;> rcases hyc with h | h <;> omega
  have hm' : Int.tmod (2 * d.N - 1 - y) d.N = d.N - 1 - Int.tmod y d.N := by
    rw [tmod_window (b := 2 * d.N - 1 - y) (N := d.N) (by omega) (by omega)]
    split <;> rcases hyc with h | h <;> omega
  have hy' : d.minB na ≤ y ∧ y ≤ d.maxB na := by unfold Dims.minB Dims.maxB; exact hwin
  refine ⟨storeKey_tmod wf ha hy' _ _, ?_, storeKey_tmod wf ha hy' _ _, ?_, hm⟩
  · unfold Dims.K2; simp only [hm']
  · unfold Dims.K4; simp only [hm']

/-- **what `apply_geo_norm` writes** for the factor `c'` and the block translation `sh'`, in terms of the translated entry -/
theorem mem_geoWriteTargets (wf : d.WF) (fits : g.Fits d) {c' : Key} (hc' : c' ∈ geoLoop d g) {sh' : Int × Int}
    (hsh' : sh' ∈ blockShifts d g) (t : Key) :
    t ∈ geoWriteTargets d g c' sh' ↔ c'.2.2.1 + sh'.1 * g.acpb ≤ d.R - 1 ∧
      (t = d.K1 (geoShiftC g c' sh') ∨ t = d.K2 (geoShiftC g c' sh') ∨
        (c'.1 = c'.2.2.1 ∧ (t = d.K3 (geoShiftC g c' sh') ∨ t = d.K4 (geoShiftC g c' sh')))) := by
  obtain ⟨hred, _, _, hwin⟩ := geoShift_spec wf fits hc' hsh'
  obtain ⟨b1, b2, b3, b4⟩ := shift_bounds wf fits hc' hsh'
  obtain ⟨⟨h1, h2⟩, ⟨h3, h4⟩, ⟨h5, h6⟩, h7, h8⟩ := mem_geoLoop.1 hc'
  have := wf.hmd
  have hle : c'.1 ≤ c'.2.2.1 := le_trans (le_max_left _ _) h5
  have hmd' : c'.2.2.1 - c'.1 ≤ d.md := by unfold Dims.maxRb at h6; omega
  unfold Dims.minB Dims.maxB at hwin
  have ha : 0 ≤ c'.2.1 + sh'.2 * (g.half * 2) ∧ c'.2.1 + sh'.2 * (g.half * 2) < d.N := ⟨by omega, by omega⟩
  obtain ⟨c1, c2⟩ := inData_direct wf (nra := c'.1 + sh'.1 * g.acpb) (nrb := c'.2.2.1 + sh'.1 * g.acpb) (by omega) (by omega)
    (by omega) ha hwin
  obtain ⟨c3, c4⟩ := inData_mirror wf (nra := c'.1 + sh'.1 * g.acpb) (nrb := c'.2.2.1 + sh'.1 * g.acpb) (by omega) (by omega)
    (by omega) ha hwin
  obtain ⟨k1, k2, k3, k4, hm⟩ := K_of_tuple wf (nra := c'.1 + sh'.1 * g.acpb) (nrb := c'.2.2.1 + sh'.1 * g.acpb) ha hwin
  have hΔ : c'.1 + sh'.1 * g.acpb = c'.2.2.1 + sh'.1 * g.acpb ↔ c'.1 = c'.2.2.1 := by omega
  unfold geoWriteTargets
  rw [hred]
  unfold geoShiftC at *
  simp only [hm, List.mem_append, mem_ite_singleton, c1, c2, c3, c4, k1, k2, k3, k4, hΔ]
  constructor
  · rintro (⟨h, rfl⟩ | ⟨h, rfl⟩ | ⟨⟨h, hr⟩, rfl⟩ | ⟨⟨h, hr⟩, rfl⟩)
    · exact ⟨h, Or.inl rfl⟩
    · exact ⟨h, Or.inr (Or.inl rfl)⟩
    · exact ⟨h, Or.inr (Or.inr ⟨hr, Or.inl rfl⟩)⟩
    · exact ⟨h, Or.inr (Or.inr ⟨hr, Or.inr rfl⟩)⟩
  · rintro ⟨h, rfl | rfl | ⟨hr, rfl | rfl⟩⟩
    · exact Or.inl ⟨h, rfl⟩
    · exact Or.inr (Or.inl ⟨h, rfl⟩)
    · exact Or.inr (Or.inr (Or.inl ⟨⟨h, hr⟩, rfl⟩))
    · exact Or.inr (Or.inr (Or.inr ⟨⟨h, hr⟩, rfl⟩))

/-! ## entries that share an element -/

/-- the element of `make_geo_data` selected by two flags (transaxial / axial mirror image), and its reduced index tuple -/
def Dims.Kb (d : Dims) (x : Key) (st ss : Bool) : Key :=
  match st, ss with
  | false, false => d.K1 x
  | true, false => d.K2 x
  | false, true => d.K3 x
  | true, true => d.K4 x

theorem mem_mirrorKeys (d : Dims) {x t : Key} (h : t ∈ d.mirrorKeys x) : ∃ st ss, t = d.Kb x st ss := by
  rw [mirrorKeys_eq] at h
  split at h
  · simp only [List.mem_cons, List.not_mem_nil, or_false] at h
    rcases h with rfl | rfl | rfl | rfl
    · exact ⟨false, false, rfl⟩
    · exact ⟨true, false, rfl⟩
    · exact ⟨false, true, rfl⟩
    · exact ⟨true, true, rfl⟩
  · simp only [List.mem_cons, List.not_mem_nil, or_false] at h
    rcases h with rfl | rfl
    · exact ⟨false, false, rfl⟩
    · exact ⟨true, false, rfl⟩

/-- the reduced index tuple of the element, inside the window -/
theorem Kb_spec (wf : d.WF) {x : Key} (hx : x ∈ d.canon) (st ss : Bool) :
    d.Kb x st ss = d.storeKey (if ss then d.R - 1 - x.1 else x.1) (if st then d.N - 1 - x.2.1 else x.2.1)
        (if ss then d.R - 1 - x.2.2.1 else x.2.2.1) (if st then d.N - 1 - Int.tmod x.2.2.2 d.N else Int.tmod x.2.2.2 d.N) ∧
      d.inWindow (if ss then d.R - 1 - x.1 else x.1) (if st then d.N - 1 - x.2.1 else x.2.1)
        (if ss then d.R - 1 - x.2.2.1 else x.2.2.1) (if st then d.N - 1 - Int.tmod x.2.2.2 d.N else Int.tmod x.2.2.2 d.N) := by
  obtain ⟨h1, h2, h3, h4, h5, h6, h7, h8, h9⟩ := canon_lin wf hx
  obtain ⟨e1, e2, e3, e4⟩ := K_red wf hx
  have := wf.heven
  have := wf.hfan
  have := wf.hh
  have := wf.hmd
  constructor
  · cases st <;> cases ss <;> simp only [Dims.Kb, if_true, if_false, Bool.false_eq_true] <;> assumption
  · unfold Dims.inWindow Dims.inFan Dims.minB Dims.maxB
    cases st <;> cases ss <;> simp only [if_true, if_false, Bool.false_eq_true] <;>
      rcases h9 with h9 | h9 <;> omega

/-- auxiliary: `key_eq_cases` with the arguments in another order -/
theorem key_eq_cases_aux (wf : d.WF) {x x' : Key} (hx : x ∈ d.canon) (hx' : x' ∈ d.canon) (hdir : x'.2.1 ≠ d.N - 1 - x.2.1)
    (ss ss' : Bool) (hs' : ss' = true → x'.1 = x'.2.2.1) (st st' : Bool) (heq : d.Kb x st ss = d.Kb x' st' ss') :
    x' = x ∨ (x.1 = x.2.2.1 ∧ x' = d.sig0 x) ∨ (x.1 < x.2.2.1 ∧ (x' = d.sig1 x ∨ x' = d.sig2 x)) := by
  obtain ⟨h1, h2, h3, h4, h5, h6, h7, h8, h9⟩ := canon_lin wf hx
  obtain ⟨g1, g2, g3, g4, g5, g6, g7, g8, g9⟩ := canon_lin wf hx'
  obtain ⟨k, hw⟩ := Kb_spec wf hx st ss
  obtain ⟨k', hw'⟩ := Kb_spec wf hx' st' ss'
  rw [k, k'] at heq
  have hcase := (storeKey_eq_iff wf hw hw').1 heq
  have := wf.heven
  have := wf.hfan
  have := wf.hh
  clear heq k k' hw hw' hx hx'
  obtain ⟨r1, a, r2, y⟩ := x
  obtain ⟨r1', a', r2', y'⟩ := x'
  unfold Dims.sig0 Dims.sig1 Dims.sig2
  simp only [Prod.mk.injEq] at *
  generalize Int.tmod y d.N = yb at *
  generalize Int.tmod y' d.N = yb' at *
  cases ss <;> cases ss' <;> cases st <;> cases st' <;>
    simp only [if_true, if_false, Bool.false_eq_true, forall_const, IsEmpty.forall_iff] at hcase hs' <;>
    rcases hcase with hcase | hcase <;>
    first
    | (exfalso; omega)
    | (left; omega)
    | (right; left; omega)
    | (right; right; exact ⟨by omega, Or.inl (by omega)⟩)
    | (right; right; exact ⟨by omega, Or.inr (by omega)⟩)

/-- **entries of the loop nest that share an element** are equal or axial mirror images of each other, if their first detectors
are not transaxial mirror images of each other; the axial mirror image elements of the second entry count only if it is an in-ring
entry (`apply_geo_norm` writes them only then). -/
theorem key_eq_cases (wf : d.WF) {x x' : Key} (hx : x ∈ d.canon) (hx' : x' ∈ d.canon) (hdir : x'.2.1 ≠ d.N - 1 - x.2.1)
    (st ss st' ss' : Bool) (hs' : ss' = true → x'.1 = x'.2.2.1) (heq : d.Kb x st ss = d.Kb x' st' ss') :
    x' = x ∨ (x.1 = x.2.2.1 ∧ x' = d.sig0 x) ∨ (x.1 < x.2.2.1 ∧ (x' = d.sig1 x ∨ x' = d.sig2 x)) :=
  key_eq_cases_aux wf hx hx' hdir ss ss' hs' st st' heq

/-! ## factors of mirror-image entries sum the same elements -/

/-- entries in the first half of a block are not transaxial mirror images of each other -/
theorem direct_ne (_wf : d.WF) (fits : g.Fits d) {c c' : Key} (hc : c ∈ geoLoop d g) (hc' : c' ∈ geoLoop d g) {x x' : Key}
    (hx : LatRel g x c) (hx' : LatRel g x' c') : x'.2.1 ≠ d.N - 1 - x.2.1 := by
  obtain ⟨_, ⟨h3, h4⟩, _, _, _⟩ := mem_geoLoop.1 hc
  obtain ⟨_, ⟨g3, g4⟩, _, _, _⟩ := mem_geoLoop.1 hc'
  obtain ⟨p, q, _, hq, rfl⟩ := hx
  obtain ⟨p', q', _, hq', rfl⟩ := hx'
  simp only
  intro h
  -- `a + a' + 1` would be a multiple of `T` strictly between `0` and `T`
  have hdiv : (g.half * 2) ∣ (d.N - q - q') := dvd_sub (dvd_sub fits.hT hq) hq'
  obtain ⟨k, hk⟩ := hdiv
  generalize hT : g.half * 2 = T at *
  have e : k * T = c.2.1 + c'.2.1 + 1 := by rw [mul_comm]; omega
  exact no_multiple_between (T := T) (k := k) (by omega) (by omega)

/-- an entry belongs to one factor only -/
theorem base_unique (_wf : d.WF) (_fits : g.Fits d) {c c' : Key} (hc : c ∈ geoLoop d g) (hc' : c' ∈ geoLoop d g) {x : Key}
    (hx : LatRel g x c) (hx' : LatRel g x c') : c' = c := by
  obtain ⟨⟨h1, h2⟩, ⟨h3, h4⟩, _, _, _⟩ := mem_geoLoop.1 hc
  obtain ⟨⟨g1, g2⟩, ⟨g3, g4⟩, _, _, _⟩ := mem_geoLoop.1 hc'
  obtain ⟨p, q, hp, hq, hrel⟩ := (hx'.symm).trans hx
  have r1 := congrArg (fun k : Key => k.1) hrel
  have r2 := congrArg (fun k : Key => k.2.1) hrel
  simp only at r1 r2
  have hp0 : p = 0 := Int.eq_zero_of_abs_lt_dvd hp (abs_lt.2 ⟨by omega, by omega⟩)
  have hq0 : q = 0 := Int.eq_zero_of_abs_lt_dvd hq (abs_lt.2 ⟨by omega, by omega⟩)
  subst hp0 hq0
  rw [hrel]
  ext <;> simp

/-- **factors whose entries are mirror images of each other sum the same elements.**  `γ` is an involution of the entries with
property `P` (in one ring / in different rings) that respects the lattice of block translations and permutes the summed
elements. -/
theorem terms_perm_of_map (wf : d.WF) (fits : g.Fits d) {c c' : Key} (hc : c ∈ geoLoop d g) (hc' : c' ∈ geoLoop d g)
    (γ : Key → Key) (P : Key → Prop) (hPlat : ∀ x y, LatRel g x y → (P x ↔ P y))
    (hcan : ∀ x ∈ d.canon, P x → γ x ∈ d.canon ∧ P (γ x) ∧ γ (γ x) = x ∧ (d.mirrorKeys (γ x)).Perm (d.mirrorKeys x))
    (hlat : ∀ x ∈ d.canon, ∀ y ∈ d.canon, P x → LatRel g x y → LatRel g (γ x) (γ y))
    {e : Key} (he : e ∈ geoOrbit d g c) (hP : P e) (he' : γ e ∈ geoOrbit d g c') :
    (geoTermKeys d g c').Perm (geoTermKeys d g c) := by
  rw [geoTermKeys_eq wf fits hc, geoTermKeys_eq wf fits hc']
  obtain ⟨hec, hel⟩ := (mem_geoOrbit wf fits hc).1 he
  obtain ⟨hec', hel'⟩ := (mem_geoOrbit wf fits hc').1 he'
  have hPall : ∀ x ∈ geoOrbit d g c, x ∈ d.canon ∧ P x := by
    intro x hx
    obtain ⟨hxc, hxl⟩ := (mem_geoOrbit wf fits hc).1 hx
    exact ⟨hxc, (hPlat x e (hxl.trans hel.symm)).2 hP⟩
  -- the entries of `c'` are the images of the entries of `c`
  have hperm : (geoOrbit d g c').Perm ((geoOrbit d g c).map γ) := by
    apply (List.perm_ext_iff_of_nodup (geoOrbit_nodup wf fits hc') ?_).2
    · intro x'
      rw [mem_geoOrbit wf fits hc', List.mem_map]
      constructor
      · rintro ⟨hxc', hxl'⟩
        -- x' is in the lattice class of γ e
        have hrel : LatRel g x' (γ e) := hxl'.trans hel'.symm
        have hPx' : P x' := (hPlat x' (γ e) hrel).2 (hcan e hec hP).2.1
        obtain ⟨hγc, hγP, hγγ, _⟩ := hcan x' hxc' hPx'
        refine ⟨γ x', ?_, hγγ⟩
        rw [mem_geoOrbit wf fits hc]
        refine ⟨hγc, ?_⟩
        have h1 := hlat x' hxc' (γ e) (hcan e hec hP).1 hPx' hrel
        rw [(hcan e hec hP).2.2.1] at h1
        exact h1.trans hel
      · rintro ⟨x, hx, rfl⟩
        obtain ⟨hxc, hPx⟩ := hPall x hx
        obtain ⟨_, hxl⟩ := (mem_geoOrbit wf fits hc).1 hx
        refine ⟨(hcan x hxc hPx).1, ?_⟩
        exact (hlat x hxc e hec hPx (hxl.trans hel.symm)).trans hel'
    · refine List.Nodup.map_on ?_ (geoOrbit_nodup wf fits hc)
      intro x hx y hy hxy
      obtain ⟨hxc, hPx⟩ := hPall x hx
      obtain ⟨hyc, hPy⟩ := hPall y hy
      rw [← (hcan x hxc hPx).2.2.1, hxy, (hcan y hyc hPy).2.2.1]
  refine (hperm.flatMap_right _).trans ?_
  rw [List.flatMap_map]
  exact List.Perm.flatMap_left _ (fun x hx => (hcan x (hPall x hx).1 (hPall x hx).2).2.2.2)

theorem lat_ring_diff {x y : Key} (h : LatRel g x y) : x.2.2.1 - x.1 = y.2.2.1 - y.1 := by
  obtain ⟨p, q, _, _, rfl⟩ := h
  simp only
  omega

/-! ## every entry in the first half of a block belongs to a factor -/

/-- a detector position is in the first half of its block, or its transaxial mirror image is -/
theorem direct_or_mirror (fits : g.Fits d) (hH : 0 < g.half) (v : Int) :
    (∃ q, (g.half * 2) ∣ q ∧ 0 ≤ v - q ∧ v - q ≤ g.half - 1) ∨
      (∃ q, (g.half * 2) ∣ q ∧ 0 ≤ d.N - 1 - v - q ∧ d.N - 1 - v - q ≤ g.half - 1) := by
  have hT : 0 < g.half * 2 := by omega
  have h1 := Int.emod_nonneg v hT.ne'
  have h2 := Int.emod_lt_of_pos v hT
  have h3 := Int.emod_add_mul_ediv v (g.half * 2)
  have hd := fits.hT
  generalize hTT : g.half * 2 = T at *
  generalize hQ : T * (v / T) = Q at *
  have hQd : T ∣ Q := hQ ▸ dvd_mul_right _ _
  by_cases hlt : v % T ≤ g.half - 1
  · left
    exact ⟨Q, hQd, by omega, by omega⟩
  · right
    exact ⟨d.N - Q - T, dvd_sub (dvd_sub hd hQd) (dvd_refl _), by omega, by omega⟩

/-- an entry of the loop nest of the fan data whose first detector is in the first half of a block is an entry of a factor -/
theorem exists_base (wf : d.WF) (fits : g.Fits d) (hA : 0 < g.acpb) {x : Key} (hx : x ∈ d.canon)
    (hdir : ∃ q, (g.half * 2) ∣ q ∧ 0 ≤ x.2.1 - q ∧ x.2.1 - q ≤ g.half - 1) : ∃ c ∈ geoLoop d g, x ∈ geoOrbit d g c := by
  obtain ⟨h1, h2, h3, h4, h5, h6, h7, h8, _⟩ := canon_lin wf hx
  obtain ⟨q, hq, hq0, hq1⟩ := hdir
  have := wf.hmd
  have e1 := Int.emod_nonneg x.1 hA.ne'
  have e2 := Int.emod_lt_of_pos x.1 hA
  have e3 := Int.emod_add_mul_ediv x.1 g.acpb
  have e4 : 0 ≤ g.acpb * (x.1 / g.acpb) := mul_nonneg hA.le (Int.ediv_nonneg h1 hA.le)
  have hPd : g.acpb ∣ g.acpb * (x.1 / g.acpb) := dvd_mul_right _ _
  generalize g.acpb * (x.1 / g.acpb) = P at *
  have hc : (x.1 % g.acpb, x.2.1 - q, x.2.2.1 - P, x.2.2.2 - q) ∈ geoLoop d g := by
    refine mem_geoLoop.2 ⟨⟨e1, by omega⟩, ⟨hq0, hq1⟩, ⟨?_, ?_⟩, ?_, ?_⟩
    · show max (x.1 % g.acpb) (d.minRb (x.1 % g.acpb)) ≤ x.2.2.1 - P
      unfold Dims.minRb; omega
    · show x.2.2.1 - P ≤ d.maxRb (x.1 % g.acpb)
      unfold Dims.maxRb; omega
    · show d.minB (x.2.1 - q) ≤ x.2.2.2 - q
      unfold Dims.minB; omega
    · show x.2.2.2 - q ≤ d.maxB (x.2.1 - q)
      unfold Dims.maxB; omega
  refine ⟨_, hc, (mem_geoOrbit wf fits hc).2 ⟨hx, P, q, hPd, hq, ?_⟩⟩
  refine Prod.ext ?_ (Prod.ext ?_ (Prod.ext ?_ ?_)) <;> simp only <;> omega

/-! ## the class structure -/

/-- **the class structure of the geometric factors holds for every well-formed `FanProjData` and every fitting `GeoData3D`.** -/
theorem geoClassOK (wf : d.WF) (fits : g.Fits d) : GeoClassOK d g := by
  intro c hc t ht
  obtain ⟨hA, hH, _, _, _, _, hcc⟩ := geoLoop_facts wf fits hc
  rw [geoTermKeys_eq wf fits hc] at ht
  obtain ⟨e, he, ht⟩ := List.mem_flatMap.1 ht
  obtain ⟨hec, hel⟩ := (mem_geoOrbit wf fits hc).1 he
  obtain ⟨st, ss, rfl⟩ := mem_mirrorKeys d ht
  have hΔ : e.2.2.1 - e.1 = c.2.2.1 - c.1 := lat_ring_diff hel
  -- the shift that produces `e`
  have hsh : ∃ sh ∈ blockShifts d g, c.2.2.1 + sh.1 * g.acpb ≤ d.R - 1 ∧ geoShiftC g c sh = e := by
    unfold geoOrbit at he
    obtain ⟨sh, hsh, rfl⟩ := List.mem_map.1 he
    obtain ⟨hsh, hin⟩ := List.mem_filter.1 hsh
    exact ⟨sh, hsh, (geoShift_spec wf fits hc hsh).2.2.1.1 hin, rfl⟩
  constructor
  · -- some factor is written to the element
    obtain ⟨sh, hsh, hval, rfl⟩ := hsh
    by_cases hcross : ss = true ∧ c.1 ≠ c.2.2.1
    · -- axial mirror image of a cross-ring entry: written from the other detector
      obtain ⟨rfl, hne⟩ := hcross
      have hlt : (geoShiftC g c sh).1 < (geoShiftC g c sh).2.2.1 := by
        have := (canon_lin wf hec).2.1
        omega
      obtain ⟨k11, k12, _, _⟩ := K_sig1 wf hec hlt
      obtain ⟨k21, k22, _, _⟩ := K_sig2 wf hec hlt
      obtain ⟨_, b2, b3, b4⟩ := sig1_b wf hec
      obtain ⟨_, b2', _, _⟩ := sig2_b wf hec
      have hwrite : ∀ x ∈ d.canon, x.1 ≠ x.2.2.1 → (∃ q, (g.half * 2) ∣ q ∧ 0 ≤ x.2.1 - q ∧ x.2.1 - q ≤ g.half - 1) →
          ∀ t, (t = d.K1 x ∨ t = d.K2 x) → ∃ c' ∈ geoLoop d g, ∃ sh ∈ blockShifts d g, t ∈ geoWriteTargets d g c' sh := by
        intro x hx _ hdir t ht
        obtain ⟨c', hc', hxo⟩ := exists_base wf fits hA hx hdir
        unfold geoOrbit at hxo
        obtain ⟨sh', hsh', rfl⟩ := List.mem_map.1 hxo
        obtain ⟨hsh', hin'⟩ := List.mem_filter.1 hsh'
        refine ⟨c', hc', sh', hsh', (mem_geoWriteTargets wf fits hc' hsh' t).2 ⟨(geoShift_spec wf fits hc' hsh').2.2.1.1 hin', ?_⟩⟩
        rcases ht with h | h
        · exact Or.inl h
        · exact Or.inr (Or.inl h)
      rcases direct_or_mirror fits hH (Int.tmod (geoShiftC g c sh).2.2.2 d.N) with hdir | hdir
      · -- the other detector is in the first half of its block: `sig1`
        apply hwrite (d.sig1 (geoShiftC g c sh)) (sig1_canon wf hec) (by unfold Dims.sig1; simp only; omega) (by rw [b2]; exact hdir)
        cases st
        · left; exact k11.symm
        · right; exact k12.symm
      · apply hwrite (d.sig2 (geoShiftC g c sh)) (sig2_canon wf hec) (by unfold Dims.sig2; simp only; omega) (by rw [b2']; exact hdir)
        cases st
        · right; exact k22.symm
        · left; exact k21.symm
    · -- written from the factor itself
      refine ⟨c, hc, sh, hsh, (mem_geoWriteTargets wf fits hc hsh _).2 ⟨hval, ?_⟩⟩
      cases st <;> cases ss
      · exact Or.inl rfl
      · right; right
        exact ⟨by_contra fun h => hcross ⟨rfl, h⟩, Or.inl rfl⟩
      · exact Or.inr (Or.inl rfl)
      · right; right
        exact ⟨by_contra fun h => hcross ⟨rfl, h⟩, Or.inr rfl⟩
  · -- every factor written to the element sums the same elements
    rintro c' hc' ⟨sh', hsh', hw⟩
    obtain ⟨hval', hw⟩ := (mem_geoWriteTargets wf fits hc' hsh' _).1 hw
    have he' : geoShiftC g c' sh' ∈ geoOrbit d g c' := by
      unfold geoOrbit
      exact List.mem_map.2 ⟨sh', List.mem_filter.2 ⟨hsh', (geoShift_spec wf fits hc' hsh').2.2.1.2 hval'⟩, rfl⟩
    obtain ⟨hec', hel'⟩ := (mem_geoOrbit wf fits hc').1 he'
    have hΔ' : (geoShiftC g c' sh').2.2.1 - (geoShiftC g c' sh').1 = c'.2.2.1 - c'.1 := lat_ring_diff hel'
    -- which of the four elements of the written entry
    have hkb : ∃ st' ss', (ss' = true → (geoShiftC g c' sh').1 = (geoShiftC g c' sh').2.2.1) ∧
        d.Kb e st ss = d.Kb (geoShiftC g c' sh') st' ss' := by
      rcases hw with h | h | ⟨hr, h | h⟩
      · exact ⟨false, false, by simp, h⟩
      · exact ⟨true, false, by simp, h⟩
      · exact ⟨false, true, fun _ => by omega, h⟩
      · exact ⟨true, true, fun _ => by omega, h⟩
    obtain ⟨st', ss', hs', heq⟩ := hkb
    rcases key_eq_cases wf hec hec' (direct_ne wf fits hc hc' hel hel') st ss st' ss' hs' heq with h | ⟨hr, h⟩ | ⟨hr, h | h⟩
    · -- the same entry: the same factor
      rw [h] at hel'
      rw [base_unique wf fits hc hc' hel hel']
    · -- in-ring entries, axial mirror image
      refine terms_perm_of_map wf fits hc hc' d.sig0 (fun x => x.1 = x.2.2.1)
        (fun x y hxy => by have := lat_ring_diff hxy; constructor <;> intro <;> omega)
        (fun x hx hP => ⟨sig0_canon wf hx hP, by unfold Dims.sig0; simp only; omega, sig0_sig0 d x, mirrorKeys_sig0 d hP⟩)
        (fun x _ y _ _ hxy => sig0_lat hxy) he hr (h ▸ he')
    · refine terms_perm_of_map wf fits hc hc' d.sig1 (fun x => x.1 < x.2.2.1)
        (fun x y hxy => by have := lat_ring_diff hxy; constructor <;> intro <;> omega)
        (fun x hx hP => ⟨sig1_canon wf hx, by unfold Dims.sig1; simp only; omega, sig1_sig1 wf hx, mirrorKeys_sig1 wf hx hP⟩)
        (fun x hx y hy _ hxy => sig1_lat wf fits.hT hx hy hxy) he hr (h ▸ he')
    · refine terms_perm_of_map wf fits hc hc' d.sig2 (fun x => x.1 < x.2.2.1)
        (fun x y hxy => by have := lat_ring_diff hxy; constructor <;> intro <;> omega)
        (fun x hx hP => ⟨sig2_canon wf hx, by unfold Dims.sig2; simp only; omega, sig2_sig2 wf hx, mirrorKeys_sig2 wf hx hP⟩)
        (fun x hx y hy _ hxy => sig2_lat wf fits.hT hx hy hxy) he hr (h ▸ he')

end
end StirVerif.C20
