import StirVerif.C20.ProofsDetPair
import StirVerif.C20.ProofsDescentModel
/-! # C20 — `iterate_efficiencies` on `DetPairData` descends: refinement to the one-ring `FanProjData` model

A `DetPairData` of `N` detectors and half fan `h` holds the same detector pairs as a `FanProjData` of one ring
(`⟨1, N, 0, h⟩`): the loop nests visit the same index tuples `(0, a, 0, b)`, only the array element in which
`fan(0,a,0,b)` is kept differs (`FanProjData::operator()` stores a pair of one ring under its second detector).
`Rep dp P F`: the fan data `F` holds the detector-pair data `P`.  Under `Rep` the denominators, fan sums, efficiency
updates and the Kullback-Leibler sums of the two families coincide, so the descent theorem of the `FanProjData` model
(`iterateEff_descends_klPairs`) carries over. -/
namespace StirVerif.C20
set_option linter.unusedSectionVars false

/-- the `FanProjData` geometry of one ring with the same detectors and fan -/
def DPDims.ring (dp : DPDims) : Dims := ⟨1, dp.N, 0, dp.h⟩

theorem DPDims.ring_wf {dp : DPDims} (wf : dp.WF) : dp.ring.WF :=
  ⟨by show (0 : Int) < 1; decide, by show (0 : Int) ≤ 0; decide, wf.hh, wf.heven, wf.hfan⟩

theorem intRange_self (x : Int) : intRange x x = [x] := by
  unfold intRange
  have : (x + 1 - x).toNat = 1 := by omega
  rw [this]
  simp

theorem ring_minRb (dp : DPDims) : dp.ring.minRb 0 = 0 := by
  show max ((0 : Int) - 0) 0 = 0
  decide

theorem ring_maxRb (dp : DPDims) : dp.ring.maxRb 0 = 0 := by
  show min ((0 : Int) + 0) (1 - 1) = 0
  decide

/-- the loop nests are the same list of index tuples -/
theorem ring_canon (dp : DPDims) : dp.ring.canon = dp.canon := by
  unfold Dims.canon DPDims.canon
  show (intRange 0 ((1 : Int) - 1)).flatMap _ = _
  have h0 : ((1 : Int) - 1) = 0 := by decide
  rw [h0, intRange_self]
  simp only [List.flatMap_cons, List.flatMap_nil, List.append_nil]
  have h1 : max (0 : Int) (dp.ring.minRb 0) = 0 := by rw [ring_minRb]; decide
  rw [h1, ring_maxRb, intRange_self]
  simp only [List.flatMap_cons, List.flatMap_nil, List.append_nil]
  rfl

theorem ring_dets (dp : DPDims) : dp.ring.dets = (intRange 0 (dp.N - 1)).map fun a => (0, a) := by
  unfold Dims.dets
  show (intRange 0 ((1 : Int) - 1)).flatMap _ = _
  have h0 : ((1 : Int) - 1) = 0 := by decide
  rw [h0, intRange_self]
  simp only [List.flatMap_cons, List.flatMap_nil, List.append_nil]
  rfl

theorem ring_inWindow {dp : DPDims} {a b : Int} : dp.ring.inWindow 0 a 0 b ↔ dp.inData a b := by
  unfold Dims.inWindow DPDims.inData Dims.inFan DPDims.inFan
  show (0 : Int) ≤ 0 ∧ (0 : Int) < 1 ∧ (0 : Int) ≤ 0 ∧ (0 : Int) < 1 ∧ (0 : Int) - 0 ≤ 0 ∧ (0 : Int) - 0 ≤ 0 ∧ _ ↔ _
  constructor
  · rintro ⟨_, _, _, _, _, _, h⟩
    exact h
  · intro h
    exact ⟨by decide, by decide, by decide, by decide, by decide, by decide, h⟩

theorem ring_inWindow_rings {dp : DPDims} {ra a rb b : Int} (h : dp.ring.inWindow ra a rb b) : ra = 0 ∧ rb = 0 := by
  obtain ⟨h1, h2, h3, h4, _⟩ := h
  have h2' : ra < 1 := h2
  have h4' : rb < 1 := h4
  omega

/-- with `b` reduced, `operator()` finds the element of the loop nest again -/
theorem dpStoreKey_tmod {dp : DPDims} (wf : dp.WF) {c : Key} (hc : c ∈ dp.canon) :
    dp.storeKey c.2.1 (Int.tmod c.2.2.2 dp.N) = c := by
  obtain ⟨h0, h0', ⟨h1, h2⟩, h3, h4⟩ := mem_dpCanon.1 hc
  obtain ⟨ra, a, rb, b⟩ := c
  simp only at h0 h0' h1 h2 h3 h4
  subst h0 h0'
  have := wf.heven
  have := wf.hfan
  have := wf.hh
  unfold DPDims.minB at h3
  unfold DPDims.maxB at h4
  unfold DPDims.storeKey DPDims.minB
  simp only [Prod.mk.injEq, true_and]
  rw [tmod_window (by omega) (by omega)]
  split_ifs <;> omega

section values
variable {K : Type} [OfNat K 0]

/-- the one-ring fan data `F` holds the detector-pair data `P` -/
def Rep (dp : DPDims) (P F : Fan K) : Prop := ∀ a b, dp.inData a b → F.at dp.ring 0 a 0 b = P.at2 dp a b

theorem rep_get_key {dp : DPDims} (wf : dp.WF) {P F : Fan K} (hrep : Rep dp P F) {c : Key} (hc : c ∈ dp.canon) :
    F.get (dp.ring.key c) = P.get c := by
  have hc' : c ∈ dp.ring.canon := by rw [ring_canon]; exact hc
  obtain ⟨h0, h0', _, _⟩ := mem_dpCanon.1 hc
  rw [key_eq_storeKey_tmod (DPDims.ring_wf wf) hc', h0, h0']
  have := hrep _ _ (inData_of_mem_dpCanon wf hc)
  unfold Fan.at Fan.at2 at this
  have hN : dp.ring.N = dp.N := rfl
  rw [hN, this, dpStoreKey_tmod wf hc]

/-- the loop-nest form of `Rep` for the unreduced `b` of the loops -/
theorem rep_at_loop {dp : DPDims} (wf : dp.WF) {P F : Fan K} (hrep : Rep dp P F) {a b : Int} (ha : 0 ≤ a ∧ a ≤ dp.N - 1)
    (hb : dp.minB a ≤ b ∧ b ≤ dp.maxB a) : F.at dp.ring 0 a 0 b = P.at2 dp a b ∧ F.at dp.ring 0 a 0 (Int.tmod b dp.N) = P.at2 dp a b := by
  have hc : ((0, a, 0, b) : Key) ∈ dp.canon := mem_dpCanon.2 ⟨rfl, rfl, ha, hb⟩
  have h1 := rep_get_key wf hrep hc
  have hk : dp.storeKey a b = (0, a, 0, b) := dpKey_of_mem_canon hc
  have h2 : P.at2 dp a b = P.get (0, a, 0, b) := by unfold Fan.at2; rw [hk]
  refine ⟨by rw [h2, ← h1]; rfl, ?_⟩
  have := hrep _ _ (inData_of_mem_dpCanon wf hc)
  rw [this]
  unfold Fan.at2
  have := dpStoreKey_tmod wf hc
  simp only at this
  rw [this, hk]

end values

section field
variable {K : Type} [Field K] [DecidableEq K]

theorem rep_effDenominator {dp : DPDims} (wf : dp.WF) {P F : Fan K} (hrep : Rep dp P F) (eff : Tab K) {a : Int}
    (ha : 0 ≤ a ∧ a ≤ dp.N - 1) : effDenominator dp.ring F eff 0 a = dpEffDenominator dp P eff a := by
  rw [effDenominator_eq, dpEffDenominator_eq, ring_minRb, ring_maxRb, intRange_self]
  simp only [List.map_cons, List.map_nil, List.sum_cons, List.sum_nil, add_zero]
  apply sum_map_congr
  intro b hb
  have hb' : dp.minB a ≤ b ∧ b ≤ dp.maxB a := mem_intRange.1 hb
  rw [(rep_at_loop wf hrep ha hb').1]
  rfl

theorem rep_fanSum {dp : DPDims} (wf : dp.WF) {P F : Fan K} (hrep : Rep dp P F) {a : Int} (ha : 0 ≤ a ∧ a ≤ dp.N - 1) :
    fanSum dp.ring F 0 a = dpFanSum dp P a := by
  rw [fanSum_eq, dpFanSum_eq, ring_minRb, ring_maxRb, intRange_self]
  simp only [List.map_cons, List.map_nil, List.sum_cons, List.sum_nil, add_zero]
  apply sum_map_congr
  intro b hb
  have hb' : dp.minB a ≤ b ∧ b ≤ dp.maxB a := mem_intRange.1 hb
  have hc : ((0, a, 0, b) : Key) ∈ dp.canon := mem_dpCanon.2 ⟨rfl, rfl, ha, hb'⟩
  have hk : dp.storeKey a b = (0, a, 0, b) := dpKey_of_mem_canon hc
  have h := (rep_at_loop wf hrep ha hb').2
  unfold Fan.at2 at h
  rw [hk] at h
  exact h

theorem rep_makeFanSums {dp : DPDims} (wf : dp.WF) {P F : Fan K} (hrep : Rep dp P F) {a : Int} (ha : 0 ≤ a ∧ a ≤ dp.N - 1) :
    (makeFanSums dp.ring F).get (0, a) = (dpMakeFanSums dp P).get (0, a) := by
  have hx : ((0, a) : Int × Int) ∈ dp.ring.dets := by
    rw [ring_dets]
    exact List.mem_map.2 ⟨a, mem_intRange.2 ha, rfl⟩
  rw [makeFanSums_get _ _ hx, dpMakeFanSums_get dp P ha]
  exact rep_fanSum wf hrep ha

/-- the in-place sweep of the one-ring `FanProjData` model is the sweep of the `DetPairData` model -/
theorem rep_iterateEff {dp : DPDims} (wf : dp.WF) {P F : Fan K} (hrep : Rep dp P F) (eff sums sums' : Tab K)
    (hs : ∀ a, 0 ≤ a ∧ a ≤ dp.N - 1 → sums.get (0, a) = sums'.get (0, a)) :
    iterateEff dp.ring eff sums F = dpIterateEff dp eff sums' P := by
  unfold iterateEff dpIterateEff
  rw [ring_dets, List.foldl_map]
  apply List.foldl_ext
  intro T a ha
  have ha' := mem_intRange.1 ha
  unfold effStep dpEffStep
  simp only
  rw [rep_effDenominator wf hrep T ha', hs a ha']

/-- `apply_efficiencies` on both families keeps the representation -/
theorem rep_applyEff {dp : DPDims} (wf : dp.WF) {P F : Fan K} (hrep : Rep dp P F) (eff : Tab K) :
    Rep dp (dpApplyEff dp P eff true) (applyEff dp.ring F eff true) := by
  intro a b h
  rw [applyEff_at (DPDims.ring_wf wf) F eff (ring_inWindow.2 h), dpApplyEff_at wf P eff h, hrep a b h]

end field

/-- Not in the C++ (specification helper): the Kullback-Leibler distance of two `DetPairData` summed **once per detector pair** —
the entries `(a, b)` of the loop nest with `a < b % N` (`KL(const DetPairData&, …)`, `dpKL`, visits `(a,b)` and `(b,a)`). -/
def dpKLPairs {K : Type} [OfNat K 0] [LT K] [DecidableLT K] [Add K] [Sub K] [Mul K] (log : K → K) (dp : DPDims) (P1 P2 : Fan K)
    (thr : K) : K :=
  (dp.canon.filter fun c => decide (c.2.1 < Int.tmod c.2.2.2 dp.N)).foldl (fun s c => s + klTerm log (P1.get c) (P2.get c) thr) 0

section real

theorem rep_klPairs {dp : DPDims} (wf : dp.WF) {P1 F1 P2 F2 : Fan ℝ} (h1 : Rep dp P1 F1) (h2 : Rep dp P2 F2) (log : ℝ → ℝ) (thr : ℝ) :
    klPairs log dp.ring F1 F2 thr = dpKLPairs log dp P1 P2 thr := by
  unfold klPairs dpKLPairs
  rw [ring_canon]
  have hf : (dp.canon.filter fun c => decide (c.1 < c.2.2.1) || decide (c.2.1 < Int.tmod c.2.2.2 dp.ring.N)) =
      dp.canon.filter fun c => decide (c.2.1 < Int.tmod c.2.2.2 dp.N) := by
    apply List.filter_congr
    intro c hc
    obtain ⟨h0, h0', _⟩ := mem_dpCanon.1 hc
    have : ¬ c.1 < c.2.2.1 := by rw [h0, h0']; decide
    simp [this]
    rfl
  rw [hf, foldl_add_eq_sum, foldl_add_eq_sum]
  congr 1
  apply sum_map_congr
  intro c hc
  have hc' := (List.mem_filter.1 hc).1
  rw [rep_get_key wf h1 hc', rep_get_key wf h2 hc']

/-- the one-ring fan data holding symmetric detector-pair data -/
theorem rep_ofFun {dp : DPDims} (wf : dp.WF) (P : Fan ℝ) (hsym : ∀ a b, dp.inData a b → P.at2 dp a b = P.at2 dp b a) :
    Rep dp P (Fan.ofFun dp.ring fun c => P.get c) := by
  intro a b h
  have wf' := DPDims.ring_wf wf
  obtain ⟨c, hc, hkey, hcoords⟩ := exists_canon_of_inWindow wf' (ring_inWindow.2 h)
  have hcd : c ∈ dp.canon := by rw [← ring_canon]; exact hc
  unfold Fan.at
  rw [← hkey, Fan.ofFun_get wf' _ hc]
  have hN : dp.ring.N = dp.N := rfl
  have hk := dpStoreKey_tmod wf hcd
  rcases hcoords with ⟨_, e2, _, e4⟩ | ⟨_, e2, _, e4⟩
  · rw [hN] at e4
    rw [e2, e4] at hk
    unfold Fan.at2
    rw [hk]
  · rw [hN] at e4
    rw [e2, e4] at hk
    rw [hsym a b h]
    unfold Fan.at2
    rw [hk]

/-- **every efficiency iteration on `DetPairData` leaves the Kullback-Leibler distance (summed once per detector pair) between
symmetric data and the product model no larger than before.** -/
theorem dpIterateEff_descends {dp : DPDims} (wf : dp.WF) (data model : Fan ℝ) (eff : Tab ℝ)
    (hpos : ∀ c ∈ dp.canon, 0 ≤ data.get c ∧ 0 < model.get c)
    (hsym : ∀ a b, dp.inData a b → data.at2 dp a b = data.at2 dp b a ∧ model.at2 dp a b = model.at2 dp b a)
    (heff : ∀ a, 0 ≤ a → a ≤ dp.N - 1 → 0 < eff.get (0, a) ∧ 0 < (dpMakeFanSums dp data).get (0, a)) :
    dpKLPairs Real.log dp data (dpApplyEff dp model (dpIterateEff dp eff (dpMakeFanSums dp data) model) true) 0 ≤
      dpKLPairs Real.log dp data (dpApplyEff dp model eff true) 0 := by
  have wf' := DPDims.ring_wf wf
  have hrd : Rep dp data (Fan.ofFun dp.ring fun c => data.get c) := rep_ofFun wf data (fun a b h => (hsym a b h).1)
  have hrm : Rep dp model (Fan.ofFun dp.ring fun c => model.get c) := rep_ofFun wf model (fun a b h => (hsym a b h).2)
  rw [← rep_klPairs wf hrd (rep_applyEff wf hrm _) Real.log 0, ← rep_klPairs wf hrd (rep_applyEff wf hrm _) Real.log 0,
    ← rep_iterateEff wf hrm eff (makeFanSums dp.ring (Fan.ofFun dp.ring fun c => data.get c)) (dpMakeFanSums dp data)
      (fun a ha => rep_makeFanSums wf hrd ha)]
  refine iterateEff_descends_klPairs wf' _ _ eff (fun c hc => ?_) (fun ra a rb b h => ?_) (fun x hx => ?_)
  · have hcd : c ∈ dp.canon := by rw [← ring_canon]; exact hc
    rw [Fan.ofFun_get wf' _ hc, Fan.ofFun_get wf' _ hc]
    exact hpos c hcd
  · obtain ⟨e1, e2⟩ := ring_inWindow_rings h
    subst e1 e2
    have hd := ring_inWindow.1 h
    have hd' := dpInData_symm wf hd
    rw [hrd a b hd, hrd b a hd', hrm a b hd, hrm b a hd']
    exact hsym a b hd
  · rw [ring_dets] at hx
    obtain ⟨a, ha, rfl⟩ := List.mem_map.1 hx
    have ha' := mem_intRange.1 ha
    rw [rep_makeFanSums wf hrd ha']
    exact heff a ha'.1 ha'.2

/-! ### satisfiability of the hypotheses -/

/-- the `DetPairData` with the value `v` in every element -/
def dpConst (dp : DPDims) (v : ℝ) : Fan ℝ := dp.canon.foldl (fun F c => F.set c v) {}

theorem dpConst_get (dp : DPDims) (v : ℝ) {c : Key} (hc : c ∈ dp.canon) : (dpConst dp v).get c = v :=
  foldl_set_key_get (fun c => c) (fun _ => v) dp.canon {} (fun _ _ _ _ h => h) hc

theorem dpConst_at2 {dp : DPDims} (wf : dp.WF) (v : ℝ) {a b : Int} (h : dp.inData a b) : (dpConst dp v).at2 dp a b = v := by
  obtain ⟨c, hc, hkey, _⟩ := exists_dpCanon_of_inData wf h
  unfold Fan.at2
  rw [hkey]
  exact dpConst_get dp v hc

/-- data that is positive on every entry has positive fan sums -/
theorem dpMakeFanSums_pos {dp : DPDims} (wf : dp.WF) (data : Fan ℝ) (hdata : ∀ c ∈ dp.canon, 0 < data.get c) {a : Int}
    (ha : 0 ≤ a ∧ a ≤ dp.N - 1) : 0 < (dpMakeFanSums dp data).get (0, a) := by
  rw [dpMakeFanSums_get dp data ha, dpFanSum_eq]
  have hrng : dp.minB a ≤ dp.maxB a := by
    have := wf.hh
    unfold DPDims.minB DPDims.maxB
    omega
  apply list_sum_pos_of_pos _ _ (intRange_ne_nil hrng)
  intro b hb
  exact hdata _ (mem_dpCanon.2 ⟨rfl, rfl, ha, mem_intRange.1 hb⟩)

end real
end StirVerif.C20
