import StirVerif.C20.Model
import Mathlib.Tactic.Ring
import Mathlib.Tactic.Linarith
/-! # C20 — the gap index maps (`removeGap`, `addGap`, `isVirtual`) over `Int`, unbounded -/
namespace StirVerif.C20

/-- euclidean normal form of a non-negative index: `x = q·cpb + r`, `0 ≤ r < cpb`, with the C operators -/
theorem tdiv_tmod_spec {x c : Int} (hx : 0 ≤ x) (hc : 0 < c) :
    0 ≤ Int.tdiv x c ∧ 0 ≤ Int.tmod x c ∧ Int.tmod x c < c ∧ x = Int.tdiv x c * c + Int.tmod x c := by
  rw [Int.tdiv_eq_ediv_of_nonneg hx, Int.tmod_eq_emod_of_nonneg hx]
  refine ⟨Int.ediv_nonneg hx hc.le, Int.emod_nonneg _ hc.ne', Int.emod_lt_of_pos _ hc, ?_⟩
  have := Int.mul_ediv_add_emod x c
  linarith [mul_comm c (x / c)]

/-- `(q·p + r) / p = q` and `(q·p + r) % p = r` for `0 ≤ r < p`, `0 ≤ q`, with the C operators -/
theorem tdiv_tmod_of_form {q r p : Int} (hq : 0 ≤ q) (hr : 0 ≤ r) (hrp : r < p) :
    Int.tdiv (q * p + r) p = q ∧ Int.tmod (q * p + r) p = r := by
  have hp : 0 < p := lt_of_le_of_lt hr hrp
  have hx : 0 ≤ q * p + r := by positivity
  rw [Int.tdiv_eq_ediv_of_nonneg hx, Int.tmod_eq_emod_of_nonneg hx]
  have h := (Int.ediv_emod_unique (a := q * p + r) (b := p) (r := r) (q := q) hp).2 ⟨by ring, hr, hrp⟩
  exact h

theorem isVirtual_eq_false_iff {x c v : Int} : isVirtual x c v = false ↔ Int.tmod x c < c - v := by
  unfold isVirtual
  simp
  omega

/-- the physical index: with `x = q·cpb + r`, `r < cpb - v`:  `removeGap x = q·(cpb - v) + r` -/
theorem removeGap_form {x c v : Int} (hx : 0 ≤ x) (hc : 0 < c) :
    removeGap x c v = Int.tdiv x c * (c - v) + Int.tmod x c := by
  obtain ⟨_, _, _, h⟩ := tdiv_tmod_spec hx hc
  unfold removeGap
  nlinarith [h]

/-- **`addGap ∘ removeGap = id` on physical crystals** (any crystals-per-block, any number of virtual crystals, any index). -/
theorem addGap_removeGap {x c v : Int} (hx : 0 ≤ x) (hv : 0 ≤ v) (hvc : v < c) (hphys : isVirtual x c v = false) :
    addGap (removeGap x c v) c v = x := by
  have hc : 0 < c := lt_of_le_of_lt hv hvc
  obtain ⟨hq, hr, _, hform⟩ := tdiv_tmod_spec hx hc
  have hr' : Int.tmod x c < c - v := isVirtual_eq_false_iff.1 hphys
  rw [removeGap_form hx hc]
  unfold addGap
  rw [(tdiv_tmod_of_form hq hr hr').1]
  nlinarith [hform]

/-- **`removeGap ∘ addGap = id`**, and `addGap` only produces physical crystals. -/
theorem removeGap_addGap {y c v : Int} (hy : 0 ≤ y) (hv : 0 ≤ v) (hvc : v < c) :
    removeGap (addGap y c v) c v = y ∧ isVirtual (addGap y c v) c v = false ∧ 0 ≤ addGap y c v := by
  have hp : 0 < c - v := by linarith
  have hc : 0 < c := lt_of_le_of_lt hv hvc
  obtain ⟨hq, hr, hrp, hform⟩ := tdiv_tmod_spec hy hp
  -- addGap y = q·c + r with q = y / (c-v), r = y % (c-v)
  have hadd : addGap y c v = Int.tdiv y (c - v) * c + Int.tmod y (c - v) := by
    unfold addGap
    nlinarith [hform]
  have hrc : Int.tmod y (c - v) < c := by linarith
  obtain ⟨hdiv, hmod⟩ := tdiv_tmod_of_form (p := c) hq hr hrc
  have hnn : 0 ≤ addGap y c v := by rw [hadd]; positivity
  refine ⟨?_, ?_, hnn⟩
  · rw [removeGap_form hnn hc, hadd, hdiv, hmod]
    linarith [hform]
  · rw [isVirtual_eq_false_iff, hadd, hmod]
    exact hrp

/-- **`removeGap` is injective on physical crystals.** -/
theorem removeGap_injective_on_physical {x x' c v : Int} (hx : 0 ≤ x) (hx' : 0 ≤ x') (hv : 0 ≤ v) (hvc : v < c)
    (hp : isVirtual x c v = false) (hp' : isVirtual x' c v = false) (h : removeGap x c v = removeGap x' c v) : x = x' := by
  rw [← addGap_removeGap hx hv hvc hp, ← addGap_removeGap hx' hv hvc hp', h]

/-- the physical index is non-negative and does not exceed the index with gaps -/
theorem removeGap_bounds {x c v : Int} (hx : 0 ≤ x) (hv : 0 ≤ v) (hvc : v < c) :
    0 ≤ removeGap x c v ∧ removeGap x c v ≤ x := by
  have hc : 0 < c := lt_of_le_of_lt hv hvc
  obtain ⟨hq, hr, _, hform⟩ := tdiv_tmod_spec hx hc
  rw [removeGap_form hx hc]
  constructor
  · have : 0 ≤ Int.tdiv x c * (c - v) := mul_nonneg hq (by linarith)
    linarith
  · nlinarith [mul_nonneg hq hv]

/-- a physical crystal of a scanner with `nb` blocks gets a physical index below `nb·(cpb - v)` -/
theorem removeGap_lt {x c v nb : Int} (hx : 0 ≤ x) (hv : 0 ≤ v) (hvc : v < c) (hxn : x < nb * c)
    (hp : isVirtual x c v = false) : removeGap x c v < nb * (c - v) := by
  have hc : 0 < c := lt_of_le_of_lt hv hvc
  obtain ⟨hq, hr, hrc, hform⟩ := tdiv_tmod_spec hx hc
  have hr' : Int.tmod x c < c - v := isVirtual_eq_false_iff.1 hp
  rw [removeGap_form hx hc]
  -- q < nb
  have hqnb : Int.tdiv x c < nb := by
    by_contra hcon
    have hcon : nb ≤ Int.tdiv x c := not_lt.1 hcon
    have : nb * c ≤ Int.tdiv x c * c := mul_le_mul_of_nonneg_right hcon hc.le
    linarith
  have : (Int.tdiv x c + 1) * (c - v) ≤ nb * (c - v) := mul_le_mul_of_nonneg_right (by linarith) (by linarith)
  nlinarith

/-- `removeGap` is strictly increasing on physical crystals (so the physical order is the order with gaps) -/
theorem removeGap_strictMono_on_physical {x x' c v : Int} (hx : 0 ≤ x) (hv : 0 ≤ v) (hvc : v < c)
    (hp : isVirtual x c v = false) (hp' : isVirtual x' c v = false) (hlt : x < x') : removeGap x c v < removeGap x' c v := by
  have hc : 0 < c := lt_of_le_of_lt hv hvc
  have hx' : 0 ≤ x' := by linarith
  obtain ⟨hq, hr, hrc, hform⟩ := tdiv_tmod_spec hx hc
  obtain ⟨hq', hr', hrc', hform'⟩ := tdiv_tmod_spec hx' hc
  have h1 : Int.tmod x c < c - v := isVirtual_eq_false_iff.1 hp
  have h2 : Int.tmod x' c < c - v := isVirtual_eq_false_iff.1 hp'
  rw [removeGap_form hx hc, removeGap_form hx' hc]
  rcases lt_trichotomy (Int.tdiv x c) (Int.tdiv x' c) with hlt' | heq | hgt
  · have : (Int.tdiv x c + 1) * (c - v) ≤ Int.tdiv x' c * (c - v) := mul_le_mul_of_nonneg_right (by linarith) (by linarith)
    nlinarith
  · rw [heq] at hform ⊢
    linarith
  · exfalso
    have : (Int.tdiv x' c + 1) * c ≤ Int.tdiv x c * c := mul_le_mul_of_nonneg_right (by linarith) hc.le
    nlinarith

end StirVerif.C20
