import StirVerif.C20.ProofsGeoFold
import StirVerif.C20.ProofsDescentModel
import Mathlib.Data.List.Perm.Basic
/-! # C20 — `make_geo_data`, `apply_geo_norm`, `iterate_geo_norm` in closed form; the fixed point from the class structure

Value-free description of the two loops over the geometric factors:

* `geoTermKeys d g c` — the array elements of the fan data that `make_geo_data` sums into the geometric factor `c` (block
  translations that stay in the data, each with its 2 or 4 mirror images), with multiplicity;
* `geoWriteTargets d g c sh` — the elements of the table `work` of `apply_geo_norm` that receive the factor `c` for the block
  translation `sh` (later writes overwrite earlier ones);
* `GeoClassOK d g` — the class structure: every summed element is written by some factor, and every factor that writes it sums
  the same elements.

`geo_fixed_point_of_class`: under `GeoClassOK` the ML estimate of the geometric factors is reproduced by `iterate_geo_norm` from
data generated with it (including the `find_max()/10000` threshold logic). -/
namespace StirVerif.C20
set_option linter.unusedSectionVars false

/-! ## the geometric-factor dimensions fit the fan data -/

/-- the `GeoData3D` was made for this `FanProjData`: same number of detectors per ring, the transaxial blocks tile the ring, the
axial blocks tile the rings (what `GeoData3D(num_axial_crystals_per_block, num_transaxial_crystals_per_block/2, num_rings,
num_detectors_per_ring)` gets from a scanner) -/
structure GeoDims.Fits (g : GeoDims) (d : Dims) : Prop where
  hN : g.N = d.N
  hT : (g.half * 2) ∣ d.N
  hA : g.acpb ∣ d.R

instance (g : GeoDims) (d : Dims) : Decidable (g.Fits d) :=
  decidable_of_iff (g.N = d.N ∧ (g.half * 2) ∣ d.N ∧ g.acpb ∣ d.R) ⟨fun ⟨a, b, c⟩ => ⟨a, b, c⟩, fun ⟨a, b, c⟩ => ⟨a, b, c⟩⟩

/-! ## the loop nests -/

theorem mem_geoLoop {d : Dims} {g : GeoDims} {c : Key} :
    c ∈ geoLoop d g ↔ (0 ≤ c.1 ∧ c.1 ≤ g.acpb - 1) ∧ (0 ≤ c.2.1 ∧ c.2.1 ≤ g.half - 1) ∧
      (max c.1 (d.minRb c.1) ≤ c.2.2.1 ∧ c.2.2.1 ≤ d.maxRb c.1) ∧ (d.minB c.2.1 ≤ c.2.2.2 ∧ c.2.2.2 ≤ d.maxB c.2.1) := by
  obtain ⟨ra, a, rb, b⟩ := c
  unfold geoLoop
  simp only [List.mem_flatMap, List.mem_map, mem_intRange, Prod.mk.injEq]
  rw [Int.mul_tdiv_cancel _ (by norm_num : (2 : Int) ≠ 0)]
  constructor
  · rintro ⟨ra', h1, a', h2, rb', h3, b', h4, rfl, rfl, rfl, rfl⟩
    exact ⟨h1, h2, h3, h4⟩
  · rintro ⟨h1, h2, h3, h4⟩
    exact ⟨ra, h1, a, h2, rb, h3, b, h4, rfl, rfl, rfl, rfl⟩

theorem geoLoop_nodup (d : Dims) (g : GeoDims) : (geoLoop d g).Nodup := by
  unfold geoLoop
  refine nodup_flatMap_of_tag _ _ (fun c => c.1) (nodup_intRange _ _) (fun ra _ => ?_) (fun ra _ y hy => ?_)
  · refine nodup_flatMap_of_tag _ _ (fun c => c.2.1) (nodup_intRange _ _) (fun a _ => ?_) (fun a _ y hy => ?_)
    · refine nodup_flatMap_of_tag _ _ (fun c => c.2.2.1) (nodup_intRange _ _) (fun rb _ => ?_) (fun rb _ y hy => ?_)
      · refine List.Nodup.map ?_ (nodup_intRange _ _)
        intro b b' h
        simpa using h
      · obtain ⟨b, _, rfl⟩ := List.mem_map.1 hy
        rfl
    · obtain ⟨rb, _, hy⟩ := List.mem_flatMap.1 hy
      obtain ⟨b, _, rfl⟩ := List.mem_map.1 hy
      rfl
  · obtain ⟨a, _, hy⟩ := List.mem_flatMap.1 hy
    obtain ⟨rb, _, hy⟩ := List.mem_flatMap.1 hy
    obtain ⟨b, _, rfl⟩ := List.mem_map.1 hy
    rfl

theorem mem_blockShifts {d : Dims} {g : GeoDims} {sh : Int × Int} :
    sh ∈ blockShifts d g ↔ (0 ≤ sh.1 ∧ sh.1 ≤ Int.tdiv d.R g.acpb - 1) ∧ (0 ≤ sh.2 ∧ sh.2 ≤ Int.tdiv d.N (g.half * 2) - 1) := by
  obtain ⟨axb, trb⟩ := sh
  unfold blockShifts
  simp only [List.mem_flatMap, List.mem_map, mem_intRange, Prod.mk.injEq]
  constructor
  · rintro ⟨axb', h1, trb', h2, rfl, rfl⟩
    exact ⟨h1, h2⟩
  · rintro ⟨h1, h2⟩
    exact ⟨axb, h1, trb, h2, rfl, rfl⟩

/-! ## value-free description of the loops -/

/-- the fan entry `(nra, na, nrb, nb)` obtained from the geometric-factor index tuple `c` by the block translation `sh` -/
def geoShift (d : Dims) (g : GeoDims) (c : Key) (sh : Int × Int) : Key :=
  (c.1 + sh.1 * g.acpb, Int.tmod (c.2.1 + sh.2 * (g.half * 2)) d.N, c.2.2.1 + sh.1 * g.acpb,
    Int.tmod (c.2.2.2 + sh.2 * (g.half * 2)) d.N)

/-- `is_in_data` of an index tuple -/
def Dims.inDataK (d : Dims) (e : Key) : Bool := d.isInData e.1 e.2.1 e.2.2.1 e.2.2.2

/-- the `GeoData3D` element addressed by `make_geo_data` / `apply_geo_norm` for the loop indices `c` (`b % N`) -/
def geoKey (d : Dims) (g : GeoDims) (c : Key) : Key := g.storeKey c.1 c.2.1 c.2.2.1 (Int.tmod c.2.2.2 d.N)

/-- the `GeoData3D` element addressed by `iterate_geo_norm` for the loop indices `c` (`b` not reduced) -/
def geoKeyU (g : GeoDims) (c : Key) : Key := g.storeKey c.1 c.2.1 c.2.2.1 c.2.2.2

/-- `b` lifted into `get_min_b(a) .. get_max_b(a)` -/
def Dims.liftB (d : Dims) (a b : Int) : Int := if b < d.minB a then b + d.N else b

/-- the index tuple of the loop nest of the fan data that addresses the same element as `e` (first ring ≤ second ring) -/
def Dims.canonOf (d : Dims) (e : Key) : Key := (e.1, e.2.1, e.2.2.1, d.liftB e.2.1 e.2.2.2)

/-- the array elements read by `make_geo_data` (part 1) for the loop indices `c`: the entry, its transaxial mirror image and —
unless the LOR is its own axial mirror image — the two axial mirror images -/
def Dims.mirrorKeys (d : Dims) (c : Key) : List Key :=
  if d.fourTerms c.1 c.2.2.1 then
    [d.storeKey c.1 c.2.1 c.2.2.1 c.2.2.2,
     d.storeKey c.1 (d.N - 1 - c.2.1) c.2.2.1 (Int.tmod (2 * d.N - 1 - c.2.2.2) d.N),
     d.storeKey (d.R - 1 - c.1) c.2.1 (d.R - 1 - c.2.2.1) c.2.2.2,
     d.storeKey (d.R - 1 - c.1) (d.N - 1 - c.2.1) (d.R - 1 - c.2.2.1) (Int.tmod (2 * d.N - 1 - c.2.2.2) d.N)]
  else
    [d.storeKey c.1 c.2.1 c.2.2.1 c.2.2.2,
     d.storeKey c.1 (d.N - 1 - c.2.1) c.2.2.1 (Int.tmod (2 * d.N - 1 - c.2.2.2) d.N)]

/-- the array elements of the fan data summed into the geometric factor `c` by `make_geo_data`, with multiplicity -/
def geoTermKeys (d : Dims) (g : GeoDims) (c : Key) : List Key :=
  ((blockShifts d g).filter fun sh => d.inDataK (geoShift d g c sh)).flatMap fun sh =>
    d.mirrorKeys (d.canonOf (geoShift d g c sh))

/-- the elements of `work` that `apply_geo_norm` (part 1) sets to the geometric factor `c` for the block translation `sh` -/
def geoWriteTargets (d : Dims) (g : GeoDims) (c : Key) (sh : Int × Int) : List Key :=
  (if d.isInData (geoShift d g c sh).1 (geoShift d g c sh).2.1 (geoShift d g c sh).2.2.1 (geoShift d g c sh).2.2.2 then
      [d.storeKey (geoShift d g c sh).1 (geoShift d g c sh).2.1 (geoShift d g c sh).2.2.1 (geoShift d g c sh).2.2.2] else []) ++
  ((if d.isInData (geoShift d g c sh).1 (d.N - 1 - (geoShift d g c sh).2.1) (geoShift d g c sh).2.2.1
        (Int.tmod (2 * d.N - 1 - (geoShift d g c sh).2.2.2) d.N) then
      [d.storeKey (geoShift d g c sh).1 (d.N - 1 - (geoShift d g c sh).2.1) (geoShift d g c sh).2.2.1
        (Int.tmod (2 * d.N - 1 - (geoShift d g c sh).2.2.2) d.N)] else []) ++
  ((if d.isInData (d.R - 1 - (geoShift d g c sh).1) (geoShift d g c sh).2.1 (d.R - 1 - (geoShift d g c sh).2.2.1)
        (geoShift d g c sh).2.2.2 then
      [d.storeKey (d.R - 1 - (geoShift d g c sh).1) (geoShift d g c sh).2.1 (d.R - 1 - (geoShift d g c sh).2.2.1)
        (geoShift d g c sh).2.2.2] else []) ++
  (if d.isInData (d.R - 1 - (geoShift d g c sh).1) (d.N - 1 - (geoShift d g c sh).2.1) (d.R - 1 - (geoShift d g c sh).2.2.1)
        (Int.tmod (2 * d.N - 1 - (geoShift d g c sh).2.2.2) d.N) then
      [d.storeKey (d.R - 1 - (geoShift d g c sh).1) (d.N - 1 - (geoShift d g c sh).2.1) (d.R - 1 - (geoShift d g c sh).2.2.1)
        (Int.tmod (2 * d.N - 1 - (geoShift d g c sh).2.2.2) d.N)] else [])))

/-- **the class structure of the geometric factors**: every array element summed into a geometric factor `c` by `make_geo_data`
receives a factor in `apply_geo_norm`, and every factor `c'` that is written to it (whichever write is the last) sums exactly the
same elements as `c`.  No values involved: a statement about the index maps only. -/
def GeoClassOK (d : Dims) (g : GeoDims) : Prop :=
  ∀ c ∈ geoLoop d g, ∀ t ∈ geoTermKeys d g c,
    (∃ c' ∈ geoLoop d g, ∃ sh ∈ blockShifts d g, t ∈ geoWriteTargets d g c' sh) ∧
      ∀ c' ∈ geoLoop d g, (∃ sh ∈ blockShifts d g, t ∈ geoWriteTargets d g c' sh) → (geoTermKeys d g c').Perm (geoTermKeys d g c)

instance (d : Dims) (g : GeoDims) : Decidable (GeoClassOK d g) := by unfold GeoClassOK; infer_instance

/-! ## index facts -/

theorem isInData_iff {d : Dims} {ra a rb b : Int} :
    d.isInData ra a rb b = true ↔ d.loRb ra ≤ rb ∧ rb ≤ d.maxRb ra ∧
      ((d.minB a ≤ b ∧ b ≤ d.maxB a) ∨ (b < d.minB a ∧ b + d.N ≤ d.maxB a)) := by
  unfold Dims.isInData
  split_ifs with h1 h2
  · simp only [Bool.or_eq_true, decide_eq_true_eq] at h1
    constructor
    · intro h; exact absurd h (by simp)
    · rintro ⟨h3, h4, _⟩; omega
  · simp only [Bool.or_eq_true, decide_eq_true_eq, not_or, not_lt] at h1
    simp only [decide_eq_true_eq]
    constructor
    · intro h; exact ⟨h1.1, by omega, Or.inl ⟨h2, h⟩⟩
    · rintro ⟨_, _, h | h⟩
      · exact h.2
      · omega
  · simp only [Bool.or_eq_true, decide_eq_true_eq, not_or, not_lt] at h1
    simp only [decide_eq_true_eq]
    constructor
    · intro h; exact ⟨h1.1, by omega, Or.inr ⟨by omega, h⟩⟩
    · rintro ⟨_, _, h | h⟩
      · omega
      · exact h.2

/-- an entry inside the data with reduced detector indices: its loop-nest index tuple, addressing the same element -/
theorem canonOf_spec {d : Dims} (wf : d.WF) {e : Key} (h : d.inDataK e = true) (h1 : 0 ≤ e.1) (ha : 0 ≤ e.2.1 ∧ e.2.1 < d.N)
    (hb : 0 ≤ e.2.2.2 ∧ e.2.2.2 < d.N) (hfan : d.inFan e.2.1 e.2.2.2) :
    d.canonOf e ∈ d.canon ∧ d.key (d.canonOf e) = d.key e := by
  obtain ⟨ra, a, rb, b⟩ := e
  obtain ⟨h2, h3, h4⟩ := isInData_iff.1 h
  simp only at h1 ha hb h2 h3 h4 hfan
  unfold Dims.inFan at hfan
  have := wf.heven
  have := wf.hfan
  have := wf.hmd
  have hmem : d.canonOf (ra, a, rb, b) ∈ d.canon := by
    refine mem_canon.2 ⟨⟨h1, ?_⟩, ⟨ha.1, by show a ≤ d.N - 1; omega⟩, ⟨?_, h3⟩, ?_⟩
    · show ra ≤ d.R - 1
      unfold Dims.loRb Dims.minRb at h2
      unfold Dims.maxRb at h3
      omega
    · exact h2
    · show d.minB a ≤ d.liftB a b ∧ d.liftB a b ≤ d.maxB a
      unfold Dims.liftB
      split <;> omega
  refine ⟨hmem, ?_⟩
  rw [key_eq_storeKey_tmod wf hmem]
  show d.storeKey ra a rb (Int.tmod (d.liftB a b) d.N) = d.storeKey ra a rb b
  have : Int.tmod (d.liftB a b) d.N = b := by
    unfold Dims.liftB
    split
    · unfold Dims.minB Dims.maxB at *
      rw [tmod_window (b := b + d.N) (N := d.N) (by omega) (by omega), if_neg (by omega)]
      omega
    · exact Int.tmod_eq_of_lt hb.1 hb.2
  rw [this]

/-- the elements read for a loop-nest index tuple are allocated elements of the fan data -/
theorem mirrorKeys_canon {d : Dims} (wf : d.WF) {c : Key} (hc : c ∈ d.canon) :
    ∀ t ∈ d.mirrorKeys c, ∃ c' ∈ d.canon, d.key c' = t := by
  obtain ⟨⟨h1, h2⟩, ⟨h3, h4⟩, ⟨h5, h6⟩, h7, h8⟩ := mem_canon.1 hc
  have := wf.heven
  have := wf.hfan
  have := wf.hmd
  have hb0 : 0 ≤ c.2.2.2 := by unfold Dims.minB at h7; omega
  have hb2 : c.2.2.2 < 2 * d.N := by unfold Dims.maxB at h8; omega
  have hrb : d.minRb c.1 ≤ c.2.2.1 ∧ c.2.2.1 ≤ d.maxRb c.1 := ⟨le_trans (le_max_right _ _) h5, h6⟩
  have hle : c.1 ≤ c.2.2.1 := le_trans (le_max_left _ _) h5
  -- the four index tuples are detector pairs of the window
  have e1 : ∃ c' ∈ d.canon, d.key c' = d.storeKey c.1 c.2.1 c.2.2.1 c.2.2.2 := ⟨c, hc, rfl⟩
  have hmb : d.inFan (d.N - 1 - c.2.1) (Int.tmod (2 * d.N - 1 - c.2.2.2) d.N) := by
    unfold Dims.minB at h7
    unfold Dims.maxB at h8
    rw [tmod_window (b := 2 * d.N - 1 - c.2.2.2) (N := d.N) (by omega) (by omega)]
    unfold Dims.inFan Dims.minB Dims.maxB
    split <;> omega
  have hmb0 : 0 ≤ Int.tmod (2 * d.N - 1 - c.2.2.2) d.N ∧ Int.tmod (2 * d.N - 1 - c.2.2.2) d.N < d.N := by
    rw [tmod_window (b := 2 * d.N - 1 - c.2.2.2) (N := d.N) (by omega) (by omega)]
    split <;> omega
  have e2 : ∃ c' ∈ d.canon, d.key c' = d.storeKey c.1 (d.N - 1 - c.2.1) c.2.2.1 (Int.tmod (2 * d.N - 1 - c.2.2.2) d.N) := by
    have hw : d.inWindow c.1 (d.N - 1 - c.2.1) c.2.2.1 (Int.tmod (2 * d.N - 1 - c.2.2.2) d.N) := by
      unfold Dims.minRb at hrb
      unfold Dims.maxRb at hrb
      exact ⟨h1, by omega, by omega, by omega, by omega, by omega, by omega, by omega, hmb0.1, hmb0.2, hmb⟩
    obtain ⟨c', hc', hk, _⟩ := exists_canon_of_inWindow wf hw
    exact ⟨c', hc', hk⟩
  have hmr : d.minRb (d.R - 1 - c.1) ≤ d.R - 1 - c.2.2.1 ∧ d.R - 1 - c.2.2.1 ≤ d.maxRb (d.R - 1 - c.1) := by
    unfold Dims.minRb Dims.maxRb at *
    omega
  have e3 : ∃ c' ∈ d.canon, d.key c' = d.storeKey (d.R - 1 - c.1) c.2.1 (d.R - 1 - c.2.2.1) c.2.2.2 := by
    obtain ⟨hw, hk⟩ := loop_inWindow wf (ra := d.R - 1 - c.1) (by omega) ⟨h3, h4⟩ hmr ⟨h7, h8⟩
    obtain ⟨c', hc', hk', _⟩ := exists_canon_of_inWindow wf hw
    exact ⟨c', hc', hk'.trans hk.symm⟩
  have e4 : ∃ c' ∈ d.canon, d.key c' =
      d.storeKey (d.R - 1 - c.1) (d.N - 1 - c.2.1) (d.R - 1 - c.2.2.1) (Int.tmod (2 * d.N - 1 - c.2.2.2) d.N) := by
    have hw : d.inWindow (d.R - 1 - c.1) (d.N - 1 - c.2.1) (d.R - 1 - c.2.2.1) (Int.tmod (2 * d.N - 1 - c.2.2.2) d.N) := by
      unfold Dims.minRb at hrb
      unfold Dims.maxRb at hrb
      exact ⟨by omega, by omega, by omega, by omega, by omega, by omega, by omega, by omega, hmb0.1, hmb0.2, hmb⟩
    obtain ⟨c', hc', hk, _⟩ := exists_canon_of_inWindow wf hw
    exact ⟨c', hc', hk⟩
  intro t ht
  unfold Dims.mirrorKeys at ht
  split at ht
  · simp only [List.mem_cons, List.not_mem_nil, or_false] at ht
    rcases ht with rfl | rfl | rfl | rfl
    · exact e1
    · exact e2
    · exact e3
    · exact e4
  · simp only [List.mem_cons, List.not_mem_nil, or_false] at ht
    rcases ht with rfl | rfl
    · exact e1
    · exact e2

/-- a block-translated entry: reduced detector indices, the second in the fan of the first (`T ∣ N`: no wrap-around of `a`) -/
theorem geoShift_ranges {d : Dims} (wf : d.WF) {g : GeoDims} (fits : g.Fits d) {c : Key} (hc : c ∈ geoLoop d g) {sh : Int × Int}
    (hsh : sh ∈ blockShifts d g) :
    0 ≤ (geoShift d g c sh).1 ∧ (0 ≤ (geoShift d g c sh).2.1 ∧ (geoShift d g c sh).2.1 < d.N) ∧
      (0 ≤ (geoShift d g c sh).2.2.2 ∧ (geoShift d g c sh).2.2.2 < d.N) ∧
      d.inFan (geoShift d g c sh).2.1 (geoShift d g c sh).2.2.2 ∧ (geoShift d g c sh).2.1 = c.2.1 + sh.2 * (g.half * 2) := by
  obtain ⟨⟨h1, h2⟩, ⟨h3, h4⟩, _, h7, h8⟩ := mem_geoLoop.1 hc
  obtain ⟨⟨s1, _⟩, s3, s4⟩ := mem_blockShifts.1 hsh
  have := wf.heven
  have := wf.hfan
  have := wf.hh
  have hN : 0 < d.N := by omega
  have hA : 0 ≤ sh.1 * g.acpb := mul_nonneg s1 (by omega)
  have hT : 0 ≤ sh.2 * (g.half * 2) := mul_nonneg s3 (by omega)
  have hT2 : (sh.2 + 1) * (g.half * 2) ≤ d.N := by
    have h := Int.mul_tdiv_cancel' fits.hT
    calc (sh.2 + 1) * (g.half * 2) ≤ Int.tdiv d.N (g.half * 2) * (g.half * 2) :=
          mul_le_mul_of_nonneg_right (by omega) (by omega)
      _ = d.N := by rw [mul_comm]; exact h
  have hna : Int.tmod (c.2.1 + sh.2 * (g.half * 2)) d.N = c.2.1 + sh.2 * (g.half * 2) :=
    Int.tmod_eq_of_lt (by omega) (by linarith)
  unfold Dims.minB at h7
  unfold Dims.maxB at h8
  have hnb := tmod_window (b := c.2.2.2 + sh.2 * (g.half * 2)) (N := d.N) (by omega) (by linarith)
  unfold geoShift
  simp only [hna, hnb]
  refine ⟨by omega, ⟨by omega, by linarith⟩, ?_, ?_, trivial⟩
  · split <;> constructor <;> linarith
  · unfold Dims.inFan Dims.minB Dims.maxB
    split
    · left; constructor <;> linarith
    · right; constructor <;> linarith

/-- with fitting dimensions the geometric-factor element addressed for loop indices `c` is `[ra][a][rb][b]` itself, in all three
functions -/
theorem geoKey_eq {d : Dims} (wf : d.WF) {g : GeoDims} (fits : g.Fits d) {c : Key} (hc : c ∈ geoLoop d g) :
    geoKey d g c = c ∧ geoKeyU g c = c := by
  obtain ⟨_, ⟨h3, h4⟩, _, h7, h8⟩ := mem_geoLoop.1 hc
  have := wf.heven
  have := wf.hfan
  have := wf.hh
  have hN : 0 < d.N := by omega
  have hT : g.half * 2 ≤ d.N := Int.le_of_dvd hN fits.hT
  unfold Dims.minB at h7
  unfold Dims.maxB at h8
  have ha : Int.tmod c.2.1 d.N = c.2.1 := Int.tmod_eq_of_lt h3 (by omega)
  obtain ⟨ra, a, rb, b⟩ := c
  simp only at h3 h4 h7 h8 ha
  unfold geoKey geoKeyU GeoDims.storeKey
  rw [fits.hN]
  simp only [ha]
  constructor
  · rw [tmod_window (b := b) (N := d.N) (by omega) (by omega)]
    simp only [Prod.mk.injEq, true_and]
    split_ifs <;> omega
  · simp only [Prod.mk.injEq, true_and]
    split_ifs <;> omega

section values
variable {K : Type} [Field K] [DecidableEq K]

/-! ## `make_geo_data` in closed form -/

theorem sum_map_flatMap {α β : Type} (l : List α) (f : α → List β) (G : β → K) :
    ((l.flatMap f).map G).sum = (l.map fun x => ((f x).map G).sum).sum := by
  induction l with
  | nil => simp
  | cons x l ih => rw [List.flatMap_cons, List.map_append, List.sum_append, ih, List.map_cons, List.sum_cons]

theorem sum_map_filter {α : Type} (l : List α) (p : α → Bool) (G : α → K) :
    ((l.filter p).map G).sum = (l.map fun x => if p x = true then G x else 0).sum := by
  induction l with
  | nil => simp
  | cons x l ih =>
    rw [List.filter_cons, List.map_cons, List.sum_cons]
    split
    · rw [List.map_cons, List.sum_cons, ih]
    · rw [ih, zero_add]

/-- part 1 of `make_geo_data`: the mirror-summed copy holds, in the element addressed by the loop indices `c`, the sum of the
elements `mirrorKeys c` -/
theorem geoMirrorSum_get_key {d : Dims} (wf : d.WF) (F : Fan K) {c : Key} (hc : c ∈ d.canon) :
    (geoMirrorSum d F).get (d.key c) = ((d.mirrorKeys c).map F.get).sum := by
  have h : geoMirrorSum d F = d.canon.foldl (fun W c => W.set (d.key c) (((d.mirrorKeys c).map F.get).sum)) {} := by
    unfold geoMirrorSum
    congr 1
    funext W c
    obtain ⟨ra, a, rb, b⟩ := c
    unfold Dims.mirrorKeys
    simp only [Fan.put, Fan.at, Dims.key]
    split
    · simp only [List.map_cons, List.map_nil, List.sum_cons, List.sum_nil]
      congr 1
      ring
    · simp only [List.map_cons, List.map_nil, List.sum_cons, List.sum_nil]
      congr 1
      ring
  rw [h]
  exact foldl_set_key_get d.key _ d.canon {} (fun _ h₁ _ h₂ h => key_injOn_canon wf h₁ h₂ h) hc

theorem makeGeo_eq (d : Dims) (g : GeoDims) (F : Fan K) :
    makeGeo d g F = (geoLoop d g).foldl (fun G c => (blockShifts d g).foldl (fun G sh =>
      if d.inDataK (geoShift d g c sh) then
        G.set (geoKey d g c) (G.get (geoKey d g c) + (geoMirrorSum d F).get (d.key (geoShift d g c sh)))
      else G) G) {} := by
  unfold makeGeo
  congr 1

/-- **`make_geo_data` in closed form**: the geometric factor `c` receives the sum of the fan-data elements `geoTermKeys c` -/
theorem makeGeo_get {d : Dims} (wf : d.WF) {g : GeoDims} (fits : g.Fits d) (F : Fan K) :
    (∀ c ∈ geoLoop d g, (makeGeo d g F).get c = ((geoTermKeys d g c).map F.get).sum) ∧
      (∀ k, k ∉ geoLoop d g → (makeGeo d g F).get k = 0) := by
  have hterm : ∀ c ∈ geoLoop d g, ∀ k,
      ((blockShifts d g).map fun sh => if d.inDataK (geoShift d g c sh) = true ∧ geoKey d g c = k then
        (geoMirrorSum d F).get (d.key (geoShift d g c sh)) else 0).sum =
      if c = k then ((geoTermKeys d g c).map F.get).sum else 0 := by
    intro c hc k
    rw [(geoKey_eq wf fits hc).1]
    by_cases hk : c = k
    · rw [if_pos hk]
      unfold geoTermKeys
      rw [sum_map_flatMap, sum_map_filter]
      have hmem : ∀ sh ∈ blockShifts d g,
          (if d.inDataK (geoShift d g c sh) = true ∧ c = k then (geoMirrorSum d F).get (d.key (geoShift d g c sh)) else 0) =
          (if d.inDataK (geoShift d g c sh) = true then ((d.mirrorKeys (d.canonOf (geoShift d g c sh))).map F.get).sum else 0) := by
        intro sh hsh
        by_cases hin : d.inDataK (geoShift d g c sh) = true
        · rw [if_pos ⟨hin, hk⟩, if_pos hin]
          obtain ⟨r1, r2, r3, r4, _⟩ := geoShift_ranges wf fits hc hsh
          obtain ⟨hmem, hkey⟩ := canonOf_spec wf hin r1 r2 r3 r4
          rw [← hkey, geoMirrorSum_get_key wf F hmem]
        · rw [if_neg (fun h => hin h.1), if_neg hin]
      exact sum_map_congr _ _ _ hmem
    · rw [if_neg hk]
      apply list_sum_eq_zero_of
      intro sh _
      rw [if_neg (fun h => hk h.2)]
  constructor
  · intro c hc
    rw [makeGeo_eq, acc_nested_get, Fan.get_empty, zero_add, sum_map_congr _ _ _ (fun x hx => hterm x hx c),
      list_sum_eq_single (geoLoop d g) _ c (geoLoop_nodup d g) hc (fun x _ hx => if_neg hx), if_pos rfl]
  · intro k hk
    rw [makeGeo_eq, acc_nested_get, Fan.get_empty, zero_add, sum_map_congr _ _ _ (fun x hx => hterm x hx k)]
    apply list_sum_eq_zero_of
    intro x hx
    rw [if_neg (fun h => hk (by rw [← h]; exact hx))]

/-! ## `apply_geo_norm` (part 1) in closed form -/

theorem geoWork_eq (d : Dims) (g : GeoDims) (geo : Fan K) :
    geoWork d g geo = (geoLoop d g).foldl (fun W c => (blockShifts d g).foldl (fun W sh =>
      (geoWriteTargets d g c sh).foldl (fun W t => W.set t (geo.get (geoKey d g c))) W) W) {} := by
  unfold geoWork
  dsimp only
  congr 1
  funext W c
  obtain ⟨ra, a, rb, b⟩ := c
  dsimp only
  congr 1
  funext W sh
  obtain ⟨axb, trb⟩ := sh
  simp only [geoWriteTargets, geoShift, geoKey, Fan.put]
  split_ifs <;>
    simp only [*, Bool.false_eq_true, if_true, if_false, List.nil_append, List.cons_append, List.foldl_cons, List.foldl_nil,
      List.append_nil]

/-- **the table `work` of `apply_geo_norm`**: an element holds the factor of one of the index tuples that write it -/
theorem geoWork_get (d : Dims) (g : GeoDims) (geo : Fan K) (t : Key)
    (h : ∃ c ∈ geoLoop d g, ∃ sh ∈ blockShifts d g, t ∈ geoWriteTargets d g c sh) :
    ∃ c ∈ geoLoop d g, (∃ sh ∈ blockShifts d g, t ∈ geoWriteTargets d g c sh) ∧ (geoWork d g geo).get t = geo.get (geoKey d g c) := by
  rw [geoWork_eq]
  exact (nested_writes_get (geoLoop d g) (blockShifts d g) (geoWriteTargets d g) (fun c => geo.get (geoKey d g c)) t).2 h

/-- the factor applied by `apply_geo_norm` to an allocated element is the entry of `work` -/
theorem applyGeo_get_canon {d : Dims} {g : GeoDims} (wf : d.WF) (F geo : Fan K) {c : Key} (hc : c ∈ d.canon) :
    (applyGeo d g F geo true).get (d.key c) = F.get (d.key c) * (geoWork d g geo).get (d.key c) := by
  rw [applyGeo_get_key wf F geo hc]
  unfold geoFactor Fan.at
  rw [← key_eq_storeKey_tmod wf hc]

/-! ## `iterate_geo_norm` in closed form -/

theorem iterateGeo_eq [LinearOrder K] (d : Dims) (g : GeoDims) (measured model : Fan K) :
    iterateGeo d g measured model = (geoLoop d g).foldl (fun G c => G.set (geoKeyU g c)
      (ratioOrZero (findMax ((geoLoop d g).map fun c => measured.get (geoKeyU g c)) / 10000)
        (measured.get (geoKeyU g c)) (G.get (geoKeyU g c)))) (makeGeo d g model) := by
  unfold iterateGeo
  rfl

end values

section ordered
variable {K : Type} [Field K] [LinearOrder K] [IsStrictOrderedRing K]

/-- **`iterate_geo_norm` in closed form**: every geometric factor of the loop becomes the thresholded ratio of the measured and
the model class sums, everything else keeps the model class sum (`0`). -/
theorem iterateGeo_get {d : Dims} (wf : d.WF) {g : GeoDims} (fits : g.Fits d) (measured model : Fan K) :
    (∀ c ∈ geoLoop d g, (iterateGeo d g measured model).get c =
      ratioOrZero (findMax ((geoLoop d g).map measured.get) / 10000) (measured.get c) ((makeGeo d g model).get c)) ∧
      (∀ k, k ∉ geoLoop d g → (iterateGeo d g measured model).get k = (makeGeo d g model).get k) := by
  classical
  have hthr : ((geoLoop d g).map fun c => measured.get (geoKeyU g c)) = (geoLoop d g).map measured.get :=
    List.map_congr_left fun c hc => by rw [(geoKey_eq wf fits hc).2]
  rw [iterateGeo_eq, hthr]
  obtain ⟨h1, h2⟩ := rmw_get (geoKeyU g)
    (fun c v => ratioOrZero (findMax ((geoLoop d g).map measured.get) / 10000) (measured.get (geoKeyU g c)) v)
    (geoLoop d g) (makeGeo d g model)
  constructor
  · intro c hc
    have := h2 (geoLoop_nodup d g)
      (fun c₁ h₁ c₂ h₂ h => by rwa [(geoKey_eq wf fits h₁).2, (geoKey_eq wf fits h₂).2] at h) c hc
    rwa [(geoKey_eq wf fits hc).2] at this
  · intro k hk
    exact h1 k (fun c hc h => hk (by rw [(geoKey_eq wf fits hc).2] at h; exact h ▸ hc))

/-- **the geometric fixed point from the class structure**: if the index maps of `make_geo_data` and `apply_geo_norm` have the
class structure `GeoClassOK`, then for positive model and data the ML estimate `ĝ = iterate_geo_norm(make_geo_data(data), model)`
is reproduced by `iterate_geo_norm` from the data `apply_geo_norm(model, ĝ)` generated with it — every element of the
`GeoData3D`, thresholds included. -/
theorem geo_fixed_point_of_class {d : Dims} (wf : d.WF) {g : GeoDims} (fits : g.Fits d) (hclass : GeoClassOK d g)
    (model data : Fan K) (hpos : ∀ c ∈ d.canon, 0 < model.get (d.key c) ∧ 0 < data.get (d.key c)) (k : Key) :
    (iterateGeo d g (makeGeo d g (applyGeo d g model (iterateGeo d g (makeGeo d g data) model) true)) model).get k =
      (iterateGeo d g (makeGeo d g data) model).get k := by
  classical
  set ghat := iterateGeo d g (makeGeo d g data) model with hghat
  set data' := applyGeo d g model ghat true with hdata'
  obtain ⟨hg1, hg2⟩ := iterateGeo_get wf fits (makeGeo d g data) model
  obtain ⟨hs1, hs2⟩ := iterateGeo_get wf fits (makeGeo d g data') model
  by_cases hk : k ∈ geoLoop d g
  swap
  · rw [hs2 k hk, hg2 k hk]
  -- class sums
  obtain ⟨hM, _⟩ := makeGeo_get wf fits data
  obtain ⟨hS, _⟩ := makeGeo_get wf fits model
  obtain ⟨hM', _⟩ := makeGeo_get wf fits data'
  -- every summed element is an allocated element with positive model and data
  have hterm_pos : ∀ c ∈ geoLoop d g, ∀ t ∈ geoTermKeys d g c, ∃ ct ∈ d.canon, d.key ct = t := by
    intro c hc t ht
    unfold geoTermKeys at ht
    obtain ⟨sh, hsh, ht⟩ := List.mem_flatMap.1 ht
    obtain ⟨hsh, hin⟩ := List.mem_filter.1 hsh
    obtain ⟨r1, r2, r3, r4, _⟩ := geoShift_ranges wf fits hc hsh
    exact mirrorKeys_canon wf (canonOf_spec wf hin r1 r2 r3 r4).1 t ht
  have hMnn : ∀ c ∈ geoLoop d g, 0 ≤ (makeGeo d g data).get c := by
    intro c hc
    rw [hM c hc]
    apply List.sum_nonneg
    intro v hv
    obtain ⟨t, ht, rfl⟩ := List.mem_map.1 hv
    obtain ⟨ct, hct, rfl⟩ := hterm_pos c hc t ht
    exact (hpos ct hct).2.le
  have hSnn : ∀ c ∈ geoLoop d g, 0 ≤ (makeGeo d g model).get c ∧ ((makeGeo d g model).get c = 0 → (makeGeo d g data).get c = 0) := by
    intro c hc
    rw [hS c hc, hM c hc]
    by_cases hnil : geoTermKeys d g c = []
    · rw [hnil]
      simp
    · have : 0 < ((geoTermKeys d g c).map model.get).sum :=
        list_sum_pos_of_pos _ _ hnil (fun t ht => by
          obtain ⟨ct, hct, rfl⟩ := hterm_pos c hc t ht
          exact (hpos ct hct).1)
      exact ⟨this.le, fun h => absurd h this.ne'⟩
  -- factors of one class agree
  have hperm : ∀ c ∈ geoLoop d g, ∀ c' ∈ geoLoop d g, (geoTermKeys d g c').Perm (geoTermKeys d g c) → ghat.get c' = ghat.get c := by
    intro c hc c' hc' hp
    rw [hg1 c hc, hg1 c' hc', hM c hc, hM c' hc', hS c hc, hS c' hc', (hp.map data.get).sum_eq, (hp.map model.get).sum_eq]
  -- the data generated from the estimate: class sums are `ĝ · S`
  have hM'eq : ∀ c ∈ geoLoop d g, (makeGeo d g data').get c = ghat.get c * (makeGeo d g model).get c := by
    intro c hc
    rw [hM' c hc, hS c hc, ← sum_map_mul_left']
    apply sum_map_congr
    intro t ht
    obtain ⟨ct, hct, hkt⟩ := hterm_pos c hc t ht
    obtain ⟨hex, hall⟩ := hclass c hc t ht
    obtain ⟨c', hc', hw, hv⟩ := geoWork_get d g ghat t hex
    rw [← hkt, hdata', applyGeo_get_canon wf model ghat hct, hkt, hv, (geoKey_eq wf fits hc').1,
      hperm c hc c' hc' (hall c' hc' hw)]
    ring
  -- thresholds
  set thr := findMax ((geoLoop d g).map (makeGeo d g data).get) / 10000 with hthr
  set thr' := findMax ((geoLoop d g).map (makeGeo d g data').get) / 10000 with hthr'
  have hfix : ∀ c ∈ geoLoop d g, ∀ t' : K, t' ≤ thr →
      ratioOrZero t' (ghat.get c * (makeGeo d g model).get c) ((makeGeo d g model).get c) = ghat.get c ∧
        ghat.get c * (makeGeo d g model).get c ≤ (makeGeo d g data).get c := by
    intro c hc t' ht'
    rw [hg1 c hc]
    exact ratioOrZero_refixed thr t' _ _ (hMnn c hc) (hSnn c hc).1 (hSnn c hc).2 ht'
  have hle : thr' ≤ thr := by
    rw [hthr, hthr']
    apply div_le_div_of_nonneg_right _ (by norm_num : (0 : K) ≤ 10000)
    apply findMax_mono
    intro c hc
    rw [hM'eq c hc]
    exact (hfix c hc thr le_rfl).2
  rw [hs1 k hk, hM'eq k hk]
  exact (hfix k hk thr' hle).1

end ordered
end StirVerif.C20
