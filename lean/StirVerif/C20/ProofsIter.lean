import StirVerif.C20.ProofsApply
import Mathlib.Algebra.Order.Field.Basic
/-! # C20 — fan sums and the fixed point of `iterate_efficiencies`; the ratio of `iterate_geo_norm` / `iterate_block_norm` -/
namespace StirVerif.C20
set_option linter.unusedSectionVars false

section
variable {K : Type} [Field K] [DecidableEq K]

theorem foldl_add_eq_sum {α : Type} (g : α → K) (l : List α) (s0 : K) :
    l.foldl (fun s x => s + g x) s0 = s0 + (l.map g).sum := by
  induction l generalizing s0 with
  | nil => simp
  | cons x l ih => rw [List.foldl_cons, ih, List.map_cons, List.sum_cons]; ring

/-- a doubly nested accumulation loop is the double sum -/
theorem foldl_foldl_add_eq_sum {α β : Type} (g : α → β → K) (l : List α) (m : List β) :
    l.foldl (fun s x => m.foldl (fun s y => s + g x y) s) 0 = (l.map fun x => (m.map (g x)).sum).sum := by
  have h : ∀ (s0 : K), l.foldl (fun s x => m.foldl (fun s y => s + g x y) s) s0 = s0 + (l.map fun x => (m.map (g x)).sum).sum := by
    induction l with
    | nil => intro s0; simp
    | cons x l ih =>
      intro s0
      rw [List.foldl_cons, ih, foldl_add_eq_sum, List.map_cons, List.sum_cons]
      ring
  rw [h, zero_add]

theorem sum_map_mul_left' {α : Type} (c : K) (g : α → K) (l : List α) : (l.map fun x => c * g x).sum = c * (l.map g).sum := by
  induction l with
  | nil => simp
  | cons x l ih => rw [List.map_cons, List.sum_cons, ih, List.map_cons, List.sum_cons]; ring

theorem sum_map_congr {α : Type} (g g' : α → K) (l : List α) (h : ∀ x ∈ l, g x = g' x) : (l.map g).sum = (l.map g').sum := by
  rw [List.map_congr_left h]

/-- `FanProjData::sum(ra, a)` as a double sum -/
theorem fanSum_eq (d : Dims) (F : Fan K) (ra a : Int) :
    fanSum d F ra a = ((intRange (d.minRb ra) (d.maxRb ra)).map fun rb =>
      ((intRange (d.minB a) (d.maxB a)).map fun b => F.at d ra a rb (Int.tmod b d.N)).sum).sum := by
  unfold fanSum
  exact foldl_foldl_add_eq_sum _ _ _

/-- the denominator of `iterate_efficiencies` as a double sum -/
theorem effDenominator_eq (d : Dims) (model : Fan K) (eff : Tab K) (ra a : Int) :
    effDenominator d model eff ra a = ((intRange (d.minRb ra) (d.maxRb ra)).map fun rb =>
      ((intRange (d.minB a) (d.maxB a)).map fun b => eff.get (rb, Int.tmod b d.N) * model.at d ra a rb b).sum).sum := by
  unfold effDenominator
  exact foldl_foldl_add_eq_sum _ _ _

/-- the indices of the fan-sum loops are detector pairs inside the window, and `operator()` addresses the same element
with the unreduced `b` and with `b % N` -/
theorem loop_inWindow {d : Dims} (wf : d.WF) {ra a rb b : Int} (hra : 0 ≤ ra ∧ ra ≤ d.R - 1) (ha : 0 ≤ a ∧ a ≤ d.N - 1)
    (hrb : d.minRb ra ≤ rb ∧ rb ≤ d.maxRb ra) (hb : d.minB a ≤ b ∧ b ≤ d.maxB a) :
    d.inWindow ra a rb (Int.tmod b d.N) ∧ d.storeKey ra a rb b = d.storeKey ra a rb (Int.tmod b d.N) := by
  have := wf.heven
  have := wf.hfan
  have := wf.hmd
  unfold Dims.minRb Dims.maxRb at hrb
  unfold Dims.minB Dims.maxB at hb
  have hb0 : 0 ≤ b := by omega
  have hb2 : b < 2 * d.N := by omega
  have hbm := tmod_window hb0 hb2
  constructor
  · rw [hbm]
    unfold Dims.inWindow Dims.inFan Dims.minB Dims.maxB
    split <;> omega
  · have hmm : Int.tmod (Int.tmod b d.N) d.N = Int.tmod b d.N := by
      rw [hbm]
      split
      · exact Int.tmod_eq_of_lt hb0 ‹_›
      · exact Int.tmod_eq_of_lt (by omega) (by omega)
    unfold Dims.storeKey Dims.minB
    rw [hmm]
    split
    · rw [hbm]
      simp only [Prod.mk.injEq, true_and]
      split_ifs <;> omega
    · rfl

/-- **fan sums of data generated from the model**: `Σ_b ε_a ε_b m_ab = ε_a · Σ_b ε_b m_ab`. -/
theorem fanSum_applyEff {d : Dims} (wf : d.WF) (model : Fan K) (eff : Tab K) {ra a : Int} (hdet : (ra, a) ∈ d.dets) :
    fanSum d (applyEff d model eff true) ra a = eff.get (ra, a) * effDenominator d model eff ra a := by
  obtain ⟨hra, ha⟩ := mem_dets.1 hdet
  rw [fanSum_eq, effDenominator_eq, ← sum_map_mul_left']
  apply sum_map_congr
  intro rb hrb
  rw [← sum_map_mul_left']
  apply sum_map_congr
  intro b hb
  obtain ⟨hw, hk⟩ := loop_inWindow wf hra ha (mem_intRange.1 hrb) (mem_intRange.1 hb)
  rw [applyEff_at wf model eff hw]
  unfold Fan.at
  rw [← hk]
  ring

theorem foldl_set_get (g : Int × Int → K) (l : List (Int × Int)) (T : Tab K) (k : Int × Int) :
    (l.foldl (fun T x => T.set x (g x)) T).get k = if k ∈ l then g k else T.get k := by
  induction l generalizing T with
  | nil => simp
  | cons x l ih =>
    rw [List.foldl_cons, ih]
    by_cases hk : k ∈ l
    · simp [hk]
    · by_cases hx : x = k
      · subst hx
        simp [hk, Tab.get_set_eq]
      · have : k ≠ x := fun h => hx h.symm
        simp only [List.mem_cons, hk, this, or_self, if_false]
        exact Tab.get_set_ne _ _ hx

theorem makeFanSums_get (d : Dims) (F : Fan K) {x : Int × Int} (hx : x ∈ d.dets) :
    (makeFanSums d F).get x = fanSum d F x.1 x.2 := by
  unfold makeFanSums
  rw [foldl_set_get (fun x => fanSum d F x.1 x.2)]
  simp [hx]

/-- the denominator only looks at the efficiencies through `[ring][detector]` -/
theorem effDenominator_congr (d : Dims) (model : Fan K) (T eff : Tab K) (h : ∀ k, T.get k = eff.get k) (ra a : Int) :
    effDenominator d model T ra a = effDenominator d model eff ra a := by
  unfold effDenominator
  simp only [h]

/-- one detector step of `iterate_efficiencies` at a fixed point leaves the (observable) efficiencies unchanged -/
theorem effStep_fixed (d : Dims) (sums : Tab K) (model : Fan K) (eff T : Tab K) (x : Int × Int)
    (hsum : sums.get x = eff.get x * effDenominator d model eff x.1 x.2) (hne : eff.get x ≠ 0)
    (hden : effDenominator d model eff x.1 x.2 ≠ 0) (hT : ∀ k, T.get k = eff.get k) :
    ∀ k, (effStep d sums model T x).get k = eff.get k := by
  intro k
  unfold effStep
  have hs : sums.get x ≠ 0 := by rw [hsum]; exact mul_ne_zero hne hden
  have hs' : (sums.get x == 0) = false := by simpa using hs
  rw [hs']
  simp only [Bool.false_eq_true, if_false]
  rw [Tab.get_set, effDenominator_congr d model T eff hT, hsum, mul_div_cancel_right₀ _ hden]
  split
  · rename_i h; rw [← h]
  · exact hT k

/-- **fixed point of `iterate_efficiencies`** (in-place sweep, any order `l` of detectors): if every fan sum is
`ε_a · Σ_b ε_b m_ab` then the sweep returns the efficiencies it was given. -/
theorem iterateEff_fixed_list (d : Dims) (sums : Tab K) (model : Fan K) (eff : Tab K) (l : List (Int × Int))
    (hsum : ∀ x ∈ l, sums.get x = eff.get x * effDenominator d model eff x.1 x.2) (hne : ∀ x ∈ l, eff.get x ≠ 0)
    (hden : ∀ x ∈ l, effDenominator d model eff x.1 x.2 ≠ 0) (T : Tab K) (hT : ∀ k, T.get k = eff.get k) :
    ∀ k, (l.foldl (effStep d sums model) T).get k = eff.get k := by
  induction l generalizing T with
  | nil => simpa using hT
  | cons x l ih =>
    rw [List.foldl_cons]
    exact ih (fun y hy => hsum y (by simp [hy])) (fun y hy => hne y (by simp [hy])) (fun y hy => hden y (by simp [hy])) _
      (effStep_fixed d sums model eff T x (hsum x (by simp)) (hne x (by simp)) (hden x (by simp)) hT)

theorem iterateEff_fixed {d : Dims} (wf : d.WF) (model : Fan K) (eff : Tab K) (hne : ∀ x ∈ d.dets, eff.get x ≠ 0)
    (hden : ∀ x ∈ d.dets, effDenominator d model eff x.1 x.2 ≠ 0) :
    ∀ k, (iterateEff d eff (makeFanSums d (applyEff d model eff true)) model).get k = eff.get k := by
  unfold iterateEff
  refine iterateEff_fixed_list d _ model eff d.dets (fun x hx => ?_) hne hden eff (fun _ => rfl)
  rw [makeFanSums_get d _ hx]
  exact fanSum_applyEff wf model eff hx

/-- a dead detector (fan sum `0`) gets efficiency `0` -/
theorem effStep_dead (d : Dims) (sums : Tab K) (model : Fan K) (T : Tab K) (x : Int × Int) (h : sums.get x = 0) :
    (effStep d sums model T x).get x = 0 := by
  unfold effStep
  simp [h, Tab.get_set_eq]

end

/-! ## the ratio of `iterate_geo_norm` / `iterate_block_norm` -/

section ordered
variable {K : Type} [Field K] [LinearOrder K] [IsStrictOrderedRing K]

/-- **fixed point of the class ratio**: if the measured class sum is `g` times the model class sum `S > 0` and the factor is
below the hard-wired `10000`, `(measured >= threshold || measured < 10000*norm) ? measured/norm : 0` returns `g` — whatever
the threshold. -/
theorem ratioOrZero_fixed (thr S g : K) (hS : 0 < S) (hg : g < 10000) : ratioOrZero thr (g * S) S = g := by
  unfold ratioOrZero
  have h2 : g * S < 10000 * S := mul_lt_mul_of_pos_right hg hS
  simp only [h2, decide_true, Bool.or_true, if_true]
  exact mul_div_cancel_right₀ _ hS.ne'

/-- the threshold matters: a factor of `10000` or more on a class below the threshold is replaced by `0` -/
theorem ratioOrZero_zero (thr S g : K) (hS : 0 < S) (hg : 10000 ≤ g) (hthr : g * S < thr) : ratioOrZero thr (g * S) S = 0 := by
  unfold ratioOrZero
  have h2 : ¬ g * S < 10000 * S := not_lt.2 (mul_le_mul_of_nonneg_right hg hS.le)
  simp [h2, hthr]

end ordered
end StirVerif.C20
