/-
C06 — proofs (part: symmetry algebra of view/segment pairs).  Statements are fixed; they are re-exported by `Props.lean`.
-/
import StirVerif.C06.Model

namespace StirVerif.C06

structure Sym.WF (y : Sym) : Prop where
  Vpos : 0 < y.V
  h90 : y.d90 = true → y.d180 = true ∧ y.V % 4 = 0
  h180 : y.d180 = true → y.V % 2 = 0

/-! ### helper lemmas -/

theorem sym_tmod_small {a b : Int} (h0 : 0 ≤ a) (h1 : a < b) : a.tmod b = a := by
  rw [Int.tmod_eq_emod_of_nonneg h0, Int.emod_eq_of_lt h0 h1]

theorem sym_tmod_add_self {a b : Int} (h0 : 0 ≤ a) (h1 : a < b) : (a + b).tmod b = a := by
  rw [Int.tmod_eq_emod_of_nonneg (by omega), Int.add_emod_right, Int.emod_eq_of_lt h0 h1]

/-- `findBasic` with the tuple pattern-match removed -/
theorem findBasic_eq (y : Sym) (p : VS) :
    findBasic y p =
      (if y.d90 then
        if p.view ≥ y.V / 2 + y.V / 2 / 2 then (⟨y.V - p.view, if y.swapSeg && p.seg < 0 then -p.seg else p.seg⟩, true)
        else if p.view ≥ y.V / 2 then (⟨p.view - y.V / 2, if y.swapSeg && p.seg < 0 then -p.seg else p.seg⟩, true)
        else if p.view > y.V / 2 / 2 then (⟨y.V / 2 - p.view, if y.swapSeg && p.seg < 0 then -p.seg else p.seg⟩, true)
        else (⟨p.view, if y.swapSeg && p.seg < 0 then -p.seg else p.seg⟩, y.swapSeg && p.seg < 0)
      else if y.d180 then
        if p.view > y.V / 2 then (⟨y.V - p.view, if y.swapSeg && p.seg < 0 then -p.seg else p.seg⟩, true)
        else (⟨p.view, if y.swapSeg && p.seg < 0 then -p.seg else p.seg⟩, y.swapSeg && p.seg < 0)
      else (⟨p.view, if y.swapSeg && p.seg < 0 then -p.seg else p.seg⟩, y.swapSeg && p.seg < 0)) := by
  unfold findBasic
  by_cases hc : (y.swapSeg && decide (p.seg < 0)) = true
  · simp only [hc, if_true]
  · simp only [hc]; simp

def relBoth (sw : Bool) (s v : Int) : List VS :=
  if sw = true ∧ s ≠ 0 then [⟨v, s⟩, ⟨v, -s⟩] else [⟨v, s⟩]

def relatedSpec (y : Sym) (b : VS) : List VS :=
  relBoth y.swapSeg b.seg b.view
  ++ (if y.d90 = true ∧ b.view ≠ y.V / 4 then relBoth y.swapSeg b.seg (b.view + y.V / 2) else [])
  ++ (if y.d180 = true ∧ b.view ≠ 0 ∧ b.view ≠ y.V / 2 then relBoth y.swapSeg b.seg (y.V - b.view) else [])
  ++ (if y.d90 = true ∧ b.view ≠ 0 ∧ b.view ≠ y.V / 4 then relBoth y.swapSeg b.seg (y.V / 2 - b.view) else [])

/-- what `isBasic` means for an in-range view -/
theorem isBasic_iff (y : Sym) (p : VS) :
    isBasic y p = true ↔
      ¬ (y.swapSeg = true ∧ p.seg < 0) ∧
      (y.d90 = true → p.view ≤ y.V / 2 / 2 ∧ p.view < y.V / 2 ∧ p.view < y.V / 2 + y.V / 2 / 2) ∧
      (y.d90 = false → y.d180 = true → p.view ≤ y.V / 2) := by
  unfold isBasic
  rw [findBasic_eq]
  cases y.d90 <;> cases y.d180 <;> cases y.swapSeg <;> simp
  all_goals repeat' split
  all_goals simp
  all_goals omega

theorem related_eq_spec (y : Sym) (h : y.WF) (b : VS) (hb : isBasic y b = true)
    (hv : 0 ≤ b.view ∧ b.view < y.V) : related y b = relatedSpec y b := by
  obtain ⟨V, d90, d180, sw⟩ := y
  obtain ⟨v, s⟩ := b
  obtain ⟨hV, h90, h180⟩ := h
  rw [isBasic_iff] at hb
  simp only at hV h90 h180 hb hv
  have e2 : V.tdiv 2 = V / 2 := Int.tdiv_eq_ediv_of_nonneg (by omega)
  have e4 : V.tdiv 4 = V / 4 := Int.tdiv_eq_ediv_of_nonneg (by omega)
  unfold related relatedSpec relBoth
  simp only [e2, e4]
  cases d90
  · cases d180
    · simp
    · have hh := h180 rfl
      have hle := hb.2.2 rfl rfl
      by_cases hvh : v = V / 2
      · simp [hvh]
      · have t : v.tmod (V / 2) = v := sym_tmod_small hv.1 (by omega)
        simp [t, hvh]
  · obtain ⟨rfl, hq⟩ := h90 rfl
    obtain ⟨h1, h2, h3⟩ := hb.2.1 rfl
    have t1 : v.tmod (V / 2) = v := sym_tmod_small hv.1 h2
    have t3 : (V / 2 - v + V).tmod V = V / 2 - v := sym_tmod_add_self (by omega) (by omega)
    have n2 : ¬ v = V / 2 := by omega
    by_cases hvq : v = V / 4
    · have t2 : v.tmod (V / 4) = 0 := by rw [hvq]; exact Int.tmod_self
      have n0 : ¬ v = 0 := by omega
      simp only [t1, t2, t3, h2, if_true]
      simp only [← hvq]
      simp [n0, n2]
    · have t2 : v.tmod (V / 4) = v := sym_tmod_small hv.1 (by omega)
      simp only [t1, t2, t3, h2, if_true]
      simp [hvq, n2]

theorem numRelated_eq_spec (y : Sym) (h : y.WF) (b : VS) (hb : isBasic y b = true)
    (hv : 0 ≤ b.view ∧ b.view < y.V) :
    numRelated y b =
      (if y.d180 = true ∧ b.view ≠ 0 ∧ b.view ≠ y.V / 2 then 2 else 1) *
      (if y.d90 = true ∧ b.view ≠ y.V / 4 then 2 else 1) *
      (if y.swapSeg = true ∧ b.seg ≠ 0 then 2 else 1) := by
  obtain ⟨V, d90, d180, sw⟩ := y
  obtain ⟨v, s⟩ := b
  obtain ⟨hV, h90, h180⟩ := h
  rw [isBasic_iff] at hb
  simp only at hV h90 h180 hb hv
  have e2 : V.tdiv 2 = V / 2 := Int.tdiv_eq_ediv_of_nonneg (by omega)
  have e4 : V.tdiv 4 = V / 4 := Int.tdiv_eq_ediv_of_nonneg (by omega)
  unfold numRelated
  simp only [e2, e4]
  cases d90
  · cases d180
    · simp
    · have hh := h180 rfl
      have hle := hb.2.2 rfl rfl
      by_cases hvh : v = V / 2
      · simp [hvh]
      · have t : v.tmod (V / 2) = v := sym_tmod_small hv.1 (by omega)
        simp [t, hvh]
        repeat' split
        all_goals rfl
  · obtain ⟨rfl, hq⟩ := h90 rfl
    obtain ⟨h1, h2, h3⟩ := hb.2.1 rfl
    have t1 : v.tmod (V / 2) = v := sym_tmod_small hv.1 h2
    have n2 : ¬ v = V / 2 := by omega
    simp [t1, n2]
    repeat' split
    all_goals rfl

theorem mem_relBoth (sw : Bool) (s v : Int) (w : VS) :
    w ∈ relBoth sw s v ↔ w.view = v ∧ (w.seg = s ∨ (sw = true ∧ s ≠ 0 ∧ w.seg = -s)) := by
  obtain ⟨wv, ws⟩ := w
  unfold relBoth
  split <;> simp_all <;> omega

theorem mem_relatedSpec (y : Sym) (b w : VS) :
    w ∈ relatedSpec y b ↔
      (w.seg = b.seg ∨ (y.swapSeg = true ∧ b.seg ≠ 0 ∧ w.seg = -b.seg)) ∧
      (w.view = b.view ∨ (y.d90 = true ∧ b.view ≠ y.V / 4 ∧ w.view = b.view + y.V / 2) ∨
        (y.d180 = true ∧ b.view ≠ 0 ∧ b.view ≠ y.V / 2 ∧ w.view = y.V - b.view) ∨
        (y.d90 = true ∧ b.view ≠ 0 ∧ b.view ≠ y.V / 4 ∧ w.view = y.V / 2 - b.view)) := by
  simp only [relatedSpec, List.mem_append]
  by_cases c1 : y.d90 = true ∧ b.view ≠ y.V / 4 <;>
    by_cases c2 : y.d180 = true ∧ b.view ≠ 0 ∧ b.view ≠ y.V / 2 <;>
    by_cases c3 : y.d90 = true ∧ b.view ≠ 0 ∧ b.view ≠ y.V / 4 <;>
    (first | simp only [if_pos c1] | simp only [if_neg c1]) <;>
    (first | simp only [if_pos c2] | simp only [if_neg c2]) <;>
    (first | simp only [if_pos c3] | simp only [if_neg c3]) <;>
    simp only [mem_relBoth, List.not_mem_nil, or_false] <;> grind

theorem findBasic_basic (y : Sym) (h : y.WF) (p : VS) (hv : 0 ≤ p.view ∧ p.view < y.V) :
    isBasic y (findBasic y p).1 = true ∧
      0 ≤ (findBasic y p).1.view ∧ (findBasic y p).1.view < y.V := by
  rw [isBasic_iff, findBasic_eq]
  obtain ⟨V, d90, d180, sw⟩ := y
  obtain ⟨v, s⟩ := p
  obtain ⟨hV, h90, h180⟩ := h
  simp only at hV h90 h180 hv ⊢
  cases d90 <;> cases d180 <;> cases sw <;> simp at *
  all_goals repeat' split
  all_goals (try simp)
  all_goals omega

/-! ### the fixed statements -/

theorem effective_WF (V : Int) (hV : 0 < V) (a b c d : Bool) : (Sym.effective V a b c d).WF := by
  have e4 : V.tmod 4 = V % 4 := Int.tmod_eq_emod_of_nonneg (by omega)
  have e2 : V.tmod 2 = V % 2 := Int.tmod_eq_emod_of_nonneg (by omega)
  refine ⟨hV, ?_, ?_⟩ <;> simp only [Sym.effective, e4, e2] <;> cases a <;> cases b <;> cases d <;> simp <;> omega

theorem mem_related_of_findBasic (y : Sym) (h : y.WF) (p : VS) (hv : 0 ≤ p.view ∧ p.view < y.V) :
    p ∈ related y (findBasic y p).1 ∧ isBasic y (findBasic y p).1 = true ∧
      0 ≤ (findBasic y p).1.view ∧ (findBasic y p).1.view < y.V := by
  have key := findBasic_basic y h p hv
  refine ⟨?_, key⟩
  rw [related_eq_spec y h _ key.1 key.2, mem_relatedSpec, findBasic_eq]
  obtain ⟨V, d90, d180, sw⟩ := y
  obtain ⟨v, s⟩ := p
  obtain ⟨hV, h90, h180⟩ := h
  clear key
  simp only at hV h90 h180 hv ⊢
  cases d90 <;> cases d180 <;> cases sw <;> simp at *
  all_goals repeat' split
  all_goals (try simp)
  all_goals omega

theorem findBasic_of_mem_related (y : Sym) (h : y.WF) (b : VS) (hb : isBasic y b = true)
    (hv : 0 ≤ b.view ∧ b.view < y.V) (w : VS) (hw : w ∈ related y b) :
    (findBasic y w).1 = b ∧ 0 ≤ w.view ∧ w.view < y.V ∧ (w.seg = b.seg ∨ (y.swapSeg = true ∧ w.seg = -b.seg)) := by
  rw [related_eq_spec y h b hb hv, mem_relatedSpec] at hw
  obtain ⟨V, d90, d180, sw⟩ := y
  obtain ⟨v, s⟩ := b
  obtain ⟨wv, ws⟩ := w
  obtain ⟨hV, h90, h180⟩ := h
  rw [isBasic_iff] at hb
  obtain ⟨hb1, hb2, hb3⟩ := hb
  obtain ⟨hw1, hw2⟩ := hw
  rw [findBasic_eq]
  simp only at hV h90 h180 hb1 hb2 hb3 hv hw1 hw2 ⊢
  cases d90 <;> cases d180 <;> cases sw <;> simp at *
  all_goals repeat' split
  all_goals (try simp)
  all_goals omega

theorem related_nodup (y : Sym) (h : y.WF) (b : VS) (hb : isBasic y b = true)
    (hv : 0 ≤ b.view ∧ b.view < y.V) : (related y b).Nodup ∧ numRelated y b = (related y b).length := by
  rw [related_eq_spec y h b hb hv, numRelated_eq_spec y h b hb hv]
  obtain ⟨V, d90, d180, sw⟩ := y
  obtain ⟨v, s⟩ := b
  obtain ⟨hV, h90, h180⟩ := h
  rw [isBasic_iff] at hb
  obtain ⟨hb1, hb2, hb3⟩ := hb
  simp only at hV h90 h180 hb1 hb2 hb3 hv
  simp only [relatedSpec, relBoth]
  by_cases hs : sw = true ∧ s ≠ 0 <;> by_cases c1 : d90 = true ∧ v ≠ V / 4 <;>
    by_cases c2 : d180 = true ∧ v ≠ 0 ∧ v ≠ V / 2 <;> by_cases c3 : d90 = true ∧ v ≠ 0 ∧ v ≠ V / 4 <;>
    (first | simp only [if_pos hs] | simp only [if_neg hs]) <;>
    (first | simp only [if_pos c1] | simp only [if_neg c1]) <;>
    (first | simp only [if_pos c2] | simp only [if_neg c2]) <;>
    (first | simp only [if_pos c3] | simp only [if_neg c3]) <;>
    simp
  all_goals (cases d90 <;> cases d180 <;> simp at * <;> omega)

end StirVerif.C06
