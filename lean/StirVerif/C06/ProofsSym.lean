/-
C06 — proofs (part: symmetry algebra of view/segment pairs).  Statements are fixed; they are re-exported by `Props.lean`.
-/
import StirVerif.C06.Model

namespace StirVerif.C06

structure Sym.WF (y : Sym) : Prop where
  Vpos : 0 < y.V
  h90 : y.d90 = true → y.d180 = true ∧ y.V % 4 = 0
  h180 : y.d180 = true → y.V % 2 = 0

theorem effective_WF (V : Int) (hV : 0 < V) (a b c d : Bool) : (Sym.effective V a b c d).WF := by
  sorry

theorem mem_related_of_findBasic (y : Sym) (h : y.WF) (p : VS) (hv : 0 ≤ p.view ∧ p.view < y.V) :
    p ∈ related y (findBasic y p).1 ∧ isBasic y (findBasic y p).1 = true ∧
      0 ≤ (findBasic y p).1.view ∧ (findBasic y p).1.view < y.V := by
  sorry

theorem findBasic_of_mem_related (y : Sym) (h : y.WF) (b : VS) (hb : isBasic y b = true)
    (hv : 0 ≤ b.view ∧ b.view < y.V) (w : VS) (hw : w ∈ related y b) :
    (findBasic y w).1 = b ∧ 0 ≤ w.view ∧ w.view < y.V ∧ (w.seg = b.seg ∨ (y.swapSeg = true ∧ w.seg = -b.seg)) := by
  sorry

theorem related_nodup (y : Sym) (h : y.WF) (b : VS) (hb : isBasic y b = true)
    (hv : 0 ≤ b.view ∧ b.view < y.V) : (related y b).Nodup ∧ numRelated y b = (related y b).length := by
  sorry

end StirVerif.C06
