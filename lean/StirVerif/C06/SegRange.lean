/-
C06 — the segment range an objective function processes, across re-use of the object:
`max_segment_num_to_process` and `max_segment_num_to_process_is_default` of
PoissonLogLikelihoodWithLinearModelForMeanAndProjData (.cxx:93-95 set_defaults, :417-422 the setter, :600-609 set_up).
"contain every (segment, view, TOF bin) of the data exactly once": of the data the object has NOW, unless a range was asked for.
Core Lean only.
-/
namespace StirVerif.C06

structure SegReq where
  value : Int
  isDefault : Bool
  deriving Repr, DecidableEq

/-- `set_defaults()` -/
def SegReq.new : SegReq := ⟨-1, false⟩

/-- `set_max_segment_num_to_process(m)` -/
def SegReq.request (_ : SegReq) (m : Int) : SegReq := ⟨m, false⟩

/-- `set_up` with data whose largest segment number is `d`; `none`: "max_segment_num_to_process is too large" -/
def SegReq.setUp (s : SegReq) (d : Int) : Option SegReq :=
  let s' : SegReq := if s.value == -1 || s.isDefault then ⟨d, true⟩ else s
  if s'.value > d then none else some s'

/-- the variant of the setter that returns early when the value is the one in force (it keeps `isDefault`) -/
def SegReq.requestEarlyReturn (s : SegReq) (m : Int) : SegReq := if s.value == m then s else ⟨m, false⟩

theorem SegReq.new_setUp (d : Int) : SegReq.new.setUp d = some ⟨d, true⟩ := by
  simp [SegReq.new, SegReq.setUp]

theorem SegReq.request_setUp (s : SegReq) (m d : Int) :
    (s.request m).setUp d = if m = -1 then some ⟨d, true⟩ else if m > d then none else some ⟨m, false⟩ := by
  unfold SegReq.request SegReq.setUp
  by_cases h : m = -1
  · subst h; simp
  · have hb : (m == -1) = false := by simpa using h
    simp [hb, h]

theorem SegReq.setUp_default_follows (s s' : SegReq) (d d2 : Int) (_h : s.setUp d = some s') (hd : s'.isDefault = true) :
    s'.setUp d2 = some ⟨d2, true⟩ := by
  simp [SegReq.setUp, hd]

theorem SegReq.setUp_requested_stays (s s' : SegReq) (d d2 : Int) (h : s.setUp d = some s') (hd : s'.isDefault = false) :
    s'.setUp d2 = if s'.value > d2 then none else some s' := by
  have hv : (s'.value == -1) = false := by
    unfold SegReq.setUp at h
    by_cases hc : (s.value == -1 || s.isDefault) = true
    · simp only [hc, if_true] at h
      split at h
      · simp at h
      · simp only [Option.some.injEq] at h
        subst h
        simp at hd
    · have hc' : (s.value == -1 || s.isDefault) = false := by simpa using hc
      simp only [hc', Bool.false_eq_true, if_false] at h
      split at h
      · simp at h
      · simp only [Option.some.injEq] at h
        subst h
        simp only [Bool.or_eq_false_iff] at hc'
        exact hc'.1
  simp [SegReq.setUp, hv, hd]

end StirVerif.C06
