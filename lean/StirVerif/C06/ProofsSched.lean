/-
C06 — proofs (part: subset schedules).  Statements are fixed; they are re-exported by `Props.lean`.
-/
import StirVerif.C06.Model

namespace StirVerif.C06

theorem schedule_perm (n start m : Nat) (hn : 0 < n) :
    ((List.range n).map fun k => subsetNum (m * n + 1 + k) start n).Perm (List.range n) := by
  sorry

theorem permute_perm (n : Nat) (draws : List Nat) (h : draws.length = n) :
    (permute n draws).Perm (List.range n) := by
  sorry


end StirVerif.C06
