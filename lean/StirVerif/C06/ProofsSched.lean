/-
C06 — proofs (part: subset schedules).  Statements are fixed; they are re-exported by `Props.lean`.
-/
import StirVerif.C06.Model
import Mathlib.Data.List.Perm.Subperm
import Mathlib.Data.Nat.ModEq
import Mathlib.Data.List.Nodup

namespace StirVerif.C06

theorem schedule_perm (n start m : Nat) (hn : 0 < n) :
    ((List.range n).map fun k => subsetNum (m * n + 1 + k) start n).Perm (List.range n) := by
  have hnd : ((List.range n).map fun k => subsetNum (m * n + 1 + k) start n).Nodup := by
    refine List.Nodup.map_on ?_ List.nodup_range
    intro a ha b hb hab
    rw [List.mem_range] at ha hb
    simp only [subsetNum] at hab
    have e : ∀ k, m * n + 1 + k + start - 1 = k + (start + m * n) := by intro k; omega
    rw [e a, e b] at hab
    have h2 : a ≡ b [MOD n] := Nat.ModEq.add_right_cancel' _ hab
    have h3 := h2.eq_of_lt_of_lt ha hb
    exact h3
  have hsub : ((List.range n).map fun k => subsetNum (m * n + 1 + k) start n) ⊆ List.range n := by
    intro x hx
    rw [List.mem_map] at hx
    obtain ⟨k, _, rfl⟩ := hx
    rw [List.mem_range]
    exact Nat.mod_lt _ hn
  exact (List.subperm_of_subset hnd hsub).perm_of_length_le (by simp)

theorem removeAt_perm (temp : List Nat) (idx x : Nat) (hx : temp[idx]? = some x) :
    (x :: removeAt temp idx).Perm temp := by
  induction temp generalizing idx with
  | nil => simp at hx
  | cons a t ih =>
    cases idx with
    | zero =>
      simp at hx
      subst hx
      simp [removeAt]
    | succ i =>
      simp at hx
      have := ih i hx
      simp only [removeAt, List.take_succ_cons, List.drop_succ_cons, List.cons_append]
      exact (List.Perm.swap a x _).trans (this.cons a)

theorem removeAt_length (temp : List Nat) (idx x : Nat) (hx : temp[idx]? = some x) :
    (removeAt temp idx).length + 1 = temp.length := by
  have := (removeAt_perm temp idx x hx).length_eq
  simpa using this

theorem permuteAux_perm (draws : List Nat) : ∀ temp : List Nat, draws.length = temp.length →
    (permuteAux temp draws).Perm temp := by
  induction draws with
  | nil =>
    intro temp h
    have : temp = [] := List.length_eq_zero_iff.mp h.symm
    subst this
    simp [permuteAux]
  | cons d ds ih =>
    intro temp h
    have hpos : 0 < temp.length := by rw [← h]; simp
    have hidx : (if d ≥ temp.length then temp.length - 1 else d) < temp.length := by
      split <;> omega
    obtain ⟨x, hx⟩ : ∃ x, temp[if d ≥ temp.length then temp.length - 1 else d]? = some x :=
      ⟨_, List.getElem?_eq_getElem hidx⟩
    simp only [permuteAux, hx]
    have hl := removeAt_length temp _ x hx
    have := ih (removeAt temp (if d ≥ temp.length then temp.length - 1 else d)) (by simp at h; omega)
    exact (this.cons x).trans (removeAt_perm temp _ x hx)

theorem permute_perm (n : Nat) (draws : List Nat) (h : draws.length = n) :
    (permute n draws).Perm (List.range n) := by
  exact permuteAux_perm draws (List.range n) (by simp [h])

end StirVerif.C06
