/-
C06 — proofs (part: the projectors' loops over subsets and TOF bins).  Statements are re-exported by `Props.lean`.
-/
import StirVerif.C06.ProofsSubsets

namespace StirVerif.C06

open Subsets

namespace Proj

theorem count_pair_map (R : List VS) (k' k : Int) (p : VS) :
    (R.map fun q => (q, k')).count (p, k) = if k' = k then R.count p else 0 := by
  induction R with
  | nil => simp
  | cons q R ih =>
    simp only [List.map_cons, List.count_cons, ih]
    by_cases hk : k' = k
    · subst hk
      by_cases hq : q = p
      · subst hq; simp
      · have : ((q, k') == (p, k')) = false := by
          rw [beq_eq_false_iff_ne]; intro h; exact hq (congrArg Prod.fst h)
        have h2 : (q == p) = false := by rw [beq_eq_false_iff_ne]; exact hq
        simp [this, h2]
    · have : ((q, k') == (p, k)) = false := by
        rw [beq_eq_false_iff_ne]; intro h; exact hk (congrArg Prod.snd h)
      simp [this, hk]

theorem count_tof_block (T : List Int) (R : List VS) (k : Int) (p : VS) :
    (T.flatMap fun k' => R.map fun q => (q, k')).count (p, k) = T.count k * R.count p := by
  induction T with
  | nil => simp
  | cons t T ih =>
    simp only [List.flatMap_cons, List.count_append, ih, count_pair_map, List.count_cons]
    by_cases ht : t = k
    · subst ht; simp [Nat.add_mul, Nat.add_comm]
    · have : (t == k) = false := by rw [beq_eq_false_iff_ne]; exact ht
      simp [ht, this]

theorem count_basics (y : Sym) (B : List VS) (T : List Int) (k : Int) (p : VS) :
    (B.flatMap fun b => T.flatMap fun k' => (related y b).map fun q => (q, k')).count (p, k) =
      T.count k * (B.flatMap (related y)).count p := by
  induction B with
  | nil => simp
  | cons b B ih =>
    simp only [List.flatMap_cons, List.count_append, ih, count_tof_block, Nat.mul_add]

theorem count_subsets (y : Sym) (minV maxV minSeg maxSeg minTof maxTof : Int) (n : Nat) (I : List Nat)
    (k : Int) (p : VS) :
    (I.flatMap fun i => projected y minV maxV minSeg maxSeg minTof maxTof i n).count (p, k) =
      (intRange minTof maxTof).count k *
        (I.flatMap fun i => processed y minV maxV minSeg maxSeg minTof maxTof i n).count p := by
  induction I with
  | nil => simp
  | cons i I ih =>
    simp only [List.flatMap_cons, List.count_append, ih, Nat.mul_add]
    congr 1
    unfold projected processed
    exact count_basics y _ _ k p

theorem count_intRange (lo hi k : Int) : (intRange lo hi).count k = if lo ≤ k ∧ k ≤ hi then 1 else 0 := by
  rw [List.Nodup.count (intRange_nodup lo hi)]
  by_cases h : lo ≤ k ∧ k ≤ hi
  · rw [if_pos h, if_pos (mem_intRange.2 h)]
  · rw [if_neg h, if_neg (fun hm => h (mem_intRange.1 hm))]

end Proj

open Proj

/-- every (view, segment, TOF bin) of the data is read / written by the projectors for exactly one subset, exactly once -/
theorem projector_partition (y : Sym) (minSeg maxSeg minTof maxTof : Int) (n : Nat)
    (wf : y.WF) (npos : 0 < n) (hseg : y.swapSeg = true → minSeg = -maxSeg)
    (htof : minTof = -maxTof ∧ 0 ≤ maxTof) (p : VS) (k : Int) :
    ((List.range n).flatMap fun i => projected y 0 (y.V - 1) minSeg maxSeg minTof maxTof i n).count (p, k) =
      if (0 ≤ p.view ∧ p.view < y.V ∧ minSeg ≤ p.seg ∧ p.seg ≤ maxSeg) ∧ (minTof ≤ k ∧ k ≤ maxTof) then 1 else 0 := by
  rw [count_subsets, count_intRange, subsets_partition y minSeg maxSeg minTof maxTof n wf npos hseg htof p]
  by_cases h1 : (0 ≤ p.view ∧ p.view < y.V ∧ minSeg ≤ p.seg ∧ p.seg ≤ maxSeg)
  · by_cases h2 : (minTof ≤ k ∧ k ≤ maxTof)
    · rw [if_pos h1, if_pos h2, if_pos ⟨h1, h2⟩]
    · rw [if_pos h1, if_neg h2, if_neg (fun h => h2 h.2)]
  · have h3 : ¬((0 ≤ p.view ∧ p.view < y.V ∧ minSeg ≤ p.seg ∧ p.seg ≤ maxSeg) ∧ (minTof ≤ k ∧ k ≤ maxTof)) :=
      fun h => h1 h.1
    rw [if_neg h1, if_neg h3, Nat.mul_zero]

/-- the same list as a product: per subset, the processed pairs, each with every TOF bin (as multisets) -/
theorem projected_count (y : Sym) (minV maxV minSeg maxSeg minTof maxTof : Int) (i n : Nat) (p : VS) (k : Int) :
    (projected y minV maxV minSeg maxSeg minTof maxTof i n).count (p, k) =
      (intRange minTof maxTof).count k * (processed y minV maxV minSeg maxSeg minTof maxTof i n).count p := by
  unfold projected processed
  exact count_basics y _ _ k p

end StirVerif.C06
