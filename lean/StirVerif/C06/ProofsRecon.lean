/-
C06 — proofs (part: the schedule of a whole `reconstruct` run).  Statements are re-exported by `Props.lean`.
-/
import StirVerif.C06.ProofsSched

namespace StirVerif.C06

namespace Recon

variable (n ss : Nat) (rnd : Bool) (draw : Nat → Nat)

theorem reconLoop_length (L : List Nat) : ∀ st, (reconLoop n ss rnd draw L st).length = L.length := by
  induction L with
  | nil => intro st; rfl
  | cons s L ih => intro st; simp [reconLoop, ih]

theorem reconLoop_append (A B : List Nat) : ∀ st,
    reconLoop n ss rnd draw (A ++ B) st =
      reconLoop n ss rnd draw A st ++ reconLoop n ss rnd draw B (reconState n ss rnd draw A st) := by
  induction A with
  | nil => intro st; rfl
  | cons s A ih => intro st; simp [reconLoop, reconState, ih]

/-- fixed order: every entry is `subsetNum` -/
theorem reconLoop_fixed (L : List Nat) : ∀ st,
    reconLoop n ss false draw L st = L.map fun s => some (subsetNum s ss n) := by
  induction L with
  | nil => intro st; rfl
  | cons s L ih => intro st; simp [reconLoop, getSubsetNum, ih]

/-- randomised order, no sub-iteration of `L` starts an iteration: the array is only read -/
theorem reconLoop_noregen (L : List Nat) (h : ∀ s ∈ L, (s - 1) % n ≠ 0) : ∀ st,
    reconLoop n ss true draw L st = L.map fun s => st.arr[(s - 1) % n]? := by
  induction L with
  | nil => intro st; rfl
  | cons s L ih =>
    intro st
    have hs : ((s - 1) % n == 0) = false := by
      rw [beq_eq_false_iff_ne]; exact h s (List.mem_cons_self)
    have ih' := ih (fun t ht => h t (List.mem_cons_of_mem _ ht)) st
    simp [reconLoop, getSubsetNum, hs, ih']

theorem map_getElem?_range (P : List Nat) : (List.range P.length).map (fun k => P[k]?) = P.map some := by
  apply List.ext_getElem
  · simp
  · intro i h1 h2
    simp at h1
    simp [h1]

/-- a block of `n` sub-iterations that starts an iteration -/
theorem block (hn : 0 < n) (m : Nat) (st : SchedState) :
    ∃ l : List Nat, reconLoop n ss rnd draw (List.range' (m * n + 1) n) st = l.map some ∧ l.Perm (List.range n) := by
  cases rnd with
  | false =>
    refine ⟨(List.range n).map fun k => subsetNum (m * n + 1 + k) ss n, ?_, schedule_perm n ss m hn⟩
    rw [reconLoop_fixed, List.range'_eq_map_range]
    simp [List.map_map, Function.comp_def]
  | true =>
    obtain ⟨n', rfl⟩ : ∃ n', n = n' + 1 := ⟨n - 1, by omega⟩
    let P := permute (n' + 1) ((List.range (n' + 1)).map fun i => draw (st.pos + i))
    have hP : P.Perm (List.range (n' + 1)) := permute_perm _ _ (by simp)
    have hlen : P.length = n' + 1 := by simpa using hP.length_eq
    refine ⟨P, ?_, hP⟩
    have h0 : (m * (n' + 1) + 1 - 1) % (n' + 1) = 0 := by
      simp
    rw [List.range'_succ]
    simp only [reconLoop, getSubsetNum, h0, beq_self_eq_true, Bool.and_self, if_true]
    rw [reconLoop_noregen]
    · -- all entries read the array `P`
      show P[0]? :: (List.range' (m * (n' + 1) + 1 + 1) n').map (fun s => P[(s - 1) % (n' + 1)]?) = P.map some
      rw [← map_getElem?_range P, hlen, List.range_succ_eq_map, List.map_cons, List.map_map,
        List.range'_eq_map_range, List.map_map]
      congr 1
      apply List.map_congr_left
      intro k hk
      rw [List.mem_range] at hk
      simp only [Function.comp_def]
      have : (m * (n' + 1) + 1 + 1 + k - 1) % (n' + 1) = k + 1 := by
        have e : m * (n' + 1) + 1 + 1 + k - 1 = (k + 1) + m * (n' + 1) := by omega
        rw [e, Nat.add_mul_mod_self_right, Nat.mod_eq_of_lt (by omega)]
      rw [this]
    · intro s hs
      rw [List.mem_range'_1] at hs
      obtain ⟨k, hk⟩ : ∃ k, s = m * (n' + 1) + 1 + 1 + k := ⟨s - (m * (n' + 1) + 1 + 1), by omega⟩
      have e : s - 1 = (k + 1) + m * (n' + 1) := by omega
      rw [e, Nat.add_mul_mod_self_right, Nat.mod_eq_of_lt (by omega)]
      omega

end Recon

open Recon

theorem reconSchedule_length (n ss : Nat) (rnd : Bool) (s0 N : Nat) (draw : Nat → Nat) :
    (reconSchedule n ss rnd s0 N draw).length = N + 1 - s0 := by
  simp [reconSchedule, reconLoop_length]

/-- every full iteration inside the run uses each subset exactly once -/
theorem recon_full_iteration (n ss s0 N m : Nat) (rnd : Bool) (draw : Nat → Nat) (hn : 0 < n)
    (h1 : s0 ≤ m * n + 1) (h2 : (m + 1) * n ≤ N) :
    ∃ l : List Nat, ((reconSchedule n ss rnd s0 N draw).drop (m * n + 1 - s0)).take n = l.map some ∧
      l.Perm (List.range n) := by
  have hN : (m + 1) * n = m * n + n := by rw [Nat.add_mul, Nat.one_mul]
  have split : List.range' s0 (N + 1 - s0) =
      List.range' s0 (m * n + 1 - s0) ++ (List.range' (m * n + 1) n ++ List.range' (m * n + 1 + n) (N - (m * n + n))) := by
    have e1 : List.range' (m * n + 1) (n + (N - (m * n + n))) =
        List.range' (s0 + (m * n + 1 - s0)) (n + (N - (m * n + n))) := by
      congr 1; omega
    rw [List.range'_append_1, e1, List.range'_append_1]
    congr 1
    omega
  unfold reconSchedule
  rw [split, reconLoop_append, List.drop_left' (by rw [reconLoop_length]; simp), reconLoop_append,
    List.take_left' (by rw [reconLoop_length]; simp)]
  exact block n ss rnd draw hn m _

/-- runs that never read the permutation array before it is generated: every entry is a subset number -/
theorem recon_defined (n ss s0 N : Nat) (rnd : Bool) (draw : Nat → Nat) (hn : 0 < n)
    (h : rnd = false ∨ (s0 - 1) % n = 0) :
    ∀ e ∈ reconSchedule n ss rnd s0 N draw, ∃ x, e = some x ∧ x < n := by
  cases rnd with
  | false =>
    intro e he
    unfold reconSchedule at he
    rw [reconLoop_fixed, List.mem_map] at he
    obtain ⟨s, _, rfl⟩ := he
    exact ⟨_, rfl, Nat.mod_lt _ hn⟩
  | true =>
    have h0 : (s0 - 1) % n = 0 := by rcases h with h | h; · cases h
                                     · exact h
    -- invariant: the array is a permutation of the subsets
    have step : ∀ (st : SchedState) (s : Nat), (st.arr.Perm (List.range n) ∨ (s - 1) % n = 0) →
        (getSubsetNum n ss true draw st s).1.arr.Perm (List.range n) ∧
          ∃ x, (getSubsetNum n ss true draw st s).2 = some x ∧ x < n := by
      intro st s hinv
      have key : (getSubsetNum n ss true draw st s).1.arr.Perm (List.range n) := by
        by_cases hs : (s - 1) % n = 0
        · simp only [getSubsetNum, hs, beq_self_eq_true, Bool.and_self, if_true]
          exact permute_perm _ _ (by simp)
        · have hs' : ((s - 1) % n == 0) = false := by rw [beq_eq_false_iff_ne]; exact hs
          simp only [getSubsetNum, hs', Bool.and_false, Bool.false_eq_true, if_false]
          rcases hinv with hinv | hinv
          · exact hinv
          · exact absurd hinv hs
      refine ⟨key, ?_⟩
      have hlen : (getSubsetNum n ss true draw st s).1.arr.length = n := by simpa using key.length_eq
      have hlt : (s - 1) % n < (getSubsetNum n ss true draw st s).1.arr.length := by
        rw [hlen]; exact Nat.mod_lt _ hn
      refine ⟨(getSubsetNum n ss true draw st s).1.arr[(s - 1) % n], ?_, ?_⟩
      · show (getSubsetNum n ss true draw st s).1.arr[(s - 1) % n]? = _
        rw [List.getElem?_eq_getElem hlt]
      · have hm : (getSubsetNum n ss true draw st s).1.arr[(s - 1) % n] ∈ List.range n :=
          key.subset (List.getElem_mem hlt)
        exact List.mem_range.1 hm
    have loop : ∀ (L : List Nat) (st : SchedState), st.arr.Perm (List.range n) →
        ∀ e ∈ reconLoop n ss true draw L st, ∃ x, e = some x ∧ x < n := by
      intro L
      induction L with
      | nil => intro st _ e he; simp [reconLoop] at he
      | cons s L ih =>
        intro st hinv e he
        obtain ⟨k1, k2⟩ := step st s (Or.inl hinv)
        simp only [reconLoop, List.mem_cons] at he
        rcases he with rfl | he
        · exact k2
        · exact ih _ k1 e he
    intro e he
    unfold reconSchedule at he
    cases hL : N + 1 - s0 with
    | zero => rw [hL] at he; simp [reconLoop] at he
    | succ len =>
      rw [hL, List.range'_succ] at he
      obtain ⟨k1, k2⟩ := step ⟨[], 0⟩ s0 (Or.inr h0)
      simp only [reconLoop, List.mem_cons] at he
      rcases he with rfl | he
      · exact k2
      · exact loop _ _ k1 e he

end StirVerif.C06
