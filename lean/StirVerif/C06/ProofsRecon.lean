/-
C06 — proofs (part: the schedule of a whole `reconstruct` run).  Statements are re-exported by `Props.lean`.
-/
import StirVerif.C06.ProofsSched

namespace StirVerif.C06

namespace Recon

variable (n ss : Nat) (rnd : Bool) (draw : Nat → Nat)

theorem reconLoop_length (L : List Nat) : ∀ st, (reconLoop n ss rnd draw L st).length = L.length := by
  induction L with
  | nil => intro st; rfl
  | cons s L ih => intro st; simp [reconLoop, ih]

theorem reconLoop_append (A B : List Nat) : ∀ st,
    reconLoop n ss rnd draw (A ++ B) st =
      reconLoop n ss rnd draw A st ++ reconLoop n ss rnd draw B (reconState n ss rnd draw A st) := by
  induction A with
  | nil => intro st; rfl
  | cons s A ih => intro st; simp [reconLoop, reconState, ih]

theorem reconLoop_take (L : List Nat) : ∀ (k : Nat) st,
    (reconLoop n ss rnd draw L st).take k = reconLoop n ss rnd draw (L.take k) st := by
  induction L with
  | nil => intro k st; simp [reconLoop]
  | cons s L ih =>
    intro k st
    cases k with
    | zero => simp [reconLoop]
    | succ k => simp [reconLoop, ih]

/-- fixed order: every entry is `subsetNum` -/
theorem reconLoop_fixed (L : List Nat) : ∀ st,
    reconLoop n ss false draw L st = L.map fun s => some (subsetNum s ss n) := by
  induction L with
  | nil => intro st; rfl
  | cons s L ih => intro st; simp [reconLoop, getSubsetNum, ih]

/-- the permutation generated from state `st` -/
def gen (st : SchedState) : List Nat := permute n ((List.range n).map fun i => draw (st.pos + i))

theorem gen_perm (st : SchedState) : (gen n draw st).Perm (List.range n) := permute_perm _ _ (by simp)

theorem gen_length (st : SchedState) : (gen n draw st).length = n := by
  simpa using (gen_perm n draw st).length_eq

/-- randomised order, a sub-iteration that (re)generates the order -/
theorem step_regen (st : SchedState) (s : Nat) (h : (s - 1) % n = 0 ∨ st.arr.length ≠ n) :
    getSubsetNum n ss true draw st s =
      (⟨gen n draw st, st.pos + n⟩, (gen n draw st)[(s - 1) % n]?) := by
  have hc : ((s - 1) % n == 0 || st.arr.length != n) = true := by
    rcases h with h | h
    · simp [h]
    · simp [h]
  simp [getSubsetNum, hc, gen]

/-- randomised order, a sub-iteration that only reads the array -/
theorem step_read (st : SchedState) (s : Nat) (h1 : (s - 1) % n ≠ 0) (h2 : st.arr.length = n) :
    getSubsetNum n ss true draw st s = (st, st.arr[(s - 1) % n]?) := by
  have hc : ((s - 1) % n == 0 || st.arr.length != n) = false := by
    simp [h1, h2]
  simp [getSubsetNum, hc]

/-- randomised order, no sub-iteration of `L` starts an iteration and the array is there: it is only read -/
theorem reconLoop_noregen (L : List Nat) (h : ∀ s ∈ L, (s - 1) % n ≠ 0) (st : SchedState) (hl : st.arr.length = n) :
    reconLoop n ss true draw L st = L.map fun s => st.arr[(s - 1) % n]? := by
  induction L with
  | nil => rfl
  | cons s L ih =>
    have ih' := ih (fun t ht => h t (List.mem_cons_of_mem _ ht))
    simp only [reconLoop, step_read n ss draw st s (h s List.mem_cons_self) hl, ih', List.map_cons]

theorem map_getElem?_range (P : List Nat) : (List.range P.length).map (fun k => P[k]?) = P.map some := by
  apply List.ext_getElem
  · simp
  · intro i h1 h2
    simp at h1
    simp [h1]

theorem take_range'_min (s len k : Nat) : (List.range' s len).take k = List.range' s (min k len) := by
  by_cases h : len ≤ k
  · rw [List.take_range'_of_length_le h, Nat.min_eq_right h]
  · rw [List.take_range'_of_length_ge (by omega), Nat.min_eq_left (by omega)]

/-- `(a + j) % n` for `a % n + j < n` -/
theorem add_mod_small (a j r : Nat) (hr : a % n = r) (hlt : r + j < n) : (a + j) % n = r + j := by
  have e : a + j = (r + j) + n * (a / n) := by
    have := Nat.mod_add_div a n
    omega
  rw [e, Nat.add_mul_mod_self_left, Nat.mod_eq_of_lt hlt]

/-- randomised order: `q` consecutive sub-iterations from `s` (`s ≥ 1`) that stay inside one iteration, the first of which
    generates the order `P`: the entries are `P[r], P[r+1], …` with `r = (s - 1) % n` -/
theorem run_after_regen (st : SchedState) (s q : Nat) (hs : 1 ≤ s)
    (h : (s - 1) % n = 0 ∨ st.arr.length ≠ n) (hq : (s - 1) % n + q ≤ n) :
    reconLoop n ss true draw (List.range' s q) st =
      (List.range' ((s - 1) % n) q).map fun i => (gen n draw st)[i]? := by
  cases q with
  | zero => rfl
  | succ q =>
    rw [List.range'_succ, List.range'_succ]
    simp only [reconLoop, step_regen n ss draw st s h, List.map_cons]
    rw [reconLoop_noregen]
    · congr 1
      rw [List.range'_eq_map_range, List.range'_eq_map_range (s := (s - 1) % n + 1), List.map_map, List.map_map]
      apply List.map_congr_left
      intro j hj
      rw [List.mem_range] at hj
      simp only [Function.comp_def]
      have e : s + 1 + j - 1 = (s - 1) + (1 + j) := by omega
      rw [e, add_mod_small n (s - 1) (1 + j) _ rfl (by omega)]
      congr 1
      omega
    · intro t ht
      rw [List.mem_range'_1] at ht
      obtain ⟨j, hj⟩ : ∃ j, t = s + 1 + j := ⟨t - (s + 1), by omega⟩
      have e : t - 1 = (s - 1) + (1 + j) := by omega
      rw [e, add_mod_small n (s - 1) (1 + j) _ rfl (by omega)]
      omega
    · exact gen_length n draw st

/-- a block of `n` sub-iterations that starts an iteration -/
theorem block (hn : 0 < n) (m : Nat) (st : SchedState) :
    ∃ l : List Nat, reconLoop n ss rnd draw (List.range' (m * n + 1) n) st = l.map some ∧ l.Perm (List.range n) := by
  cases rnd with
  | false =>
    refine ⟨(List.range n).map fun k => subsetNum (m * n + 1 + k) ss n, ?_, schedule_perm n ss m hn⟩
    rw [reconLoop_fixed, List.range'_eq_map_range]
    simp [List.map_map, Function.comp_def]
  | true =>
    have h0 : (m * n + 1 - 1) % n = 0 := by simp
    refine ⟨gen n draw st, ?_, gen_perm n draw st⟩
    rw [run_after_regen n ss draw st (m * n + 1) n (by omega) (Or.inl h0) (by omega), h0,
      ← map_getElem?_range (gen n draw st), gen_length, List.range_eq_range']

end Recon

open Recon

theorem reconSchedule_length (n ss : Nat) (rnd : Bool) (s0 N : Nat) (draw : Nat → Nat) :
    (reconSchedule n ss rnd s0 N draw).length = N + 1 - s0 := by
  simp [reconSchedule, reconLoop_length]

/-- every full iteration inside the run uses each subset exactly once -/
theorem recon_full_iteration (n ss s0 N m : Nat) (rnd : Bool) (draw : Nat → Nat) (hn : 0 < n)
    (h1 : s0 ≤ m * n + 1) (h2 : (m + 1) * n ≤ N) :
    ∃ l : List Nat, ((reconSchedule n ss rnd s0 N draw).drop (m * n + 1 - s0)).take n = l.map some ∧
      l.Perm (List.range n) := by
  have hN : (m + 1) * n = m * n + n := by rw [Nat.add_mul, Nat.one_mul]
  have split : List.range' s0 (N + 1 - s0) =
      List.range' s0 (m * n + 1 - s0) ++ (List.range' (m * n + 1) n ++ List.range' (m * n + 1 + n) (N - (m * n + n))) := by
    have e1 : List.range' (m * n + 1) (n + (N - (m * n + n))) =
        List.range' (s0 + (m * n + 1 - s0)) (n + (N - (m * n + n))) := by
      congr 1; omega
    rw [List.range'_append_1, e1, List.range'_append_1]
    congr 1
    omega
  unfold reconSchedule
  rw [split, reconLoop_append, List.drop_left' (by rw [reconLoop_length]; simp), reconLoop_append,
    List.take_left' (by rw [reconLoop_length]; simp)]
  exact block n ss rnd draw hn m _

/-- every entry of every run is a valid subset number -/
theorem recon_defined (n ss s0 N : Nat) (rnd : Bool) (draw : Nat → Nat) (hn : 0 < n) :
    ∀ e ∈ reconSchedule n ss rnd s0 N draw, ∃ x, e = some x ∧ x < n := by
  cases rnd with
  | false =>
    intro e he
    unfold reconSchedule at he
    rw [reconLoop_fixed, List.mem_map] at he
    obtain ⟨s, _, rfl⟩ := he
    exact ⟨_, rfl, Nat.mod_lt _ hn⟩
  | true =>
    -- invariant: the array is empty or a permutation of the subsets; after any step it is a permutation
    have step : ∀ (st : SchedState) (s : Nat), (st.arr = [] ∨ st.arr.Perm (List.range n)) →
        (getSubsetNum n ss true draw st s).1.arr.Perm (List.range n) ∧
          ∃ x, (getSubsetNum n ss true draw st s).2 = some x ∧ x < n := by
      intro st s hinv
      have main : ∀ (A : List Nat), A.Perm (List.range n) → ∃ x, A[(s - 1) % n]? = some x ∧ x < n := by
        intro A hA
        have hlen : A.length = n := by simpa using hA.length_eq
        have hlt : (s - 1) % n < A.length := by rw [hlen]; exact Nat.mod_lt _ hn
        refine ⟨A[(s - 1) % n], List.getElem?_eq_getElem hlt, ?_⟩
        exact List.mem_range.1 (hA.subset (List.getElem_mem hlt))
      by_cases hc : (s - 1) % n = 0 ∨ st.arr.length ≠ n
      · rw [step_regen n ss draw st s hc]
        exact ⟨gen_perm n draw st, main _ (gen_perm n draw st)⟩
      · have h1 : (s - 1) % n ≠ 0 := fun h => hc (Or.inl h)
        have h2 : st.arr.length = n := by
          by_cases h : st.arr.length = n
          · exact h
          · exact absurd (Or.inr h) hc
        have hperm : st.arr.Perm (List.range n) := by
          rcases hinv with h | h
          · rw [h] at h2; simp at h2; omega
          · exact h
        rw [step_read n ss draw st s h1 h2]
        exact ⟨hperm, main _ hperm⟩
    have loop : ∀ (L : List Nat) (st : SchedState), (st.arr = [] ∨ st.arr.Perm (List.range n)) →
        ∀ e ∈ reconLoop n ss true draw L st, ∃ x, e = some x ∧ x < n := by
      intro L
      induction L with
      | nil => intro st _ e he; simp [reconLoop] at he
      | cons s L ih =>
        intro st hinv e he
        obtain ⟨k1, k2⟩ := step st s hinv
        simp only [reconLoop, List.mem_cons] at he
        rcases he with rfl | he
        · exact k2
        · exact ih _ (Or.inr k1) e he
    intro e he
    exact loop _ ⟨[], 0⟩ (Or.inl rfl) e he

/-- the sub-iterations that remain of the iteration in which the run starts use distinct subsets -/
theorem recon_first_iteration_nodup (n ss s0 N : Nat) (rnd : Bool) (draw : Nat → Nat) (hn : 0 < n) (hs : 1 ≤ s0) :
    ((reconSchedule n ss rnd s0 N draw).take (n - (s0 - 1) % n)).Nodup := by
  have hr : (s0 - 1) % n < n := Nat.mod_lt _ hn
  unfold reconSchedule
  rw [reconLoop_take, take_range'_min]
  generalize hq : min (n - (s0 - 1) % n) (N + 1 - s0) = q
  have hqn : (s0 - 1) % n + q ≤ n := by omega
  cases rnd with
  | false =>
    rw [reconLoop_fixed]
    refine List.Nodup.map_on ?_ List.nodup_range'
    intro a ha b hb hab
    rw [List.mem_range'_1] at ha hb
    simp only [subsetNum, Option.some.injEq] at hab
    obtain ⟨i, rfl⟩ : ∃ i, a = s0 + i := ⟨a - s0, by omega⟩
    obtain ⟨j, rfl⟩ : ∃ j, b = s0 + j := ⟨b - s0, by omega⟩
    have ea : s0 + i + ss - 1 = (s0 - 1 + ss) + i := by omega
    have eb : s0 + j + ss - 1 = (s0 - 1 + ss) + j := by omega
    rw [ea, eb] at hab
    have h2 : i ≡ j [MOD n] := Nat.ModEq.add_left_cancel' _ hab
    have := h2.eq_of_lt_of_lt (by omega) (by omega)
    omega
  | true =>
    rw [run_after_regen n ss draw ⟨[], 0⟩ s0 q hs (Or.inr (by simp; omega)) hqn]
    have hP := (gen_perm n draw ⟨[], 0⟩).nodup_iff.2 List.nodup_range
    have hlen := gen_length n draw ⟨[], 0⟩
    refine List.Nodup.map_on ?_ List.nodup_range'
    intro a ha b hb hab
    rw [List.mem_range'_1] at ha hb
    have ha' : a < (gen n draw ⟨[], 0⟩).length := by omega
    have hb' : b < (gen n draw ⟨[], 0⟩).length := by omega
    rw [List.getElem?_eq_getElem ha', List.getElem?_eq_getElem hb', Option.some.injEq] at hab
    exact (List.Nodup.getElem_inj_iff hP).1 hab

end StirVerif.C06
