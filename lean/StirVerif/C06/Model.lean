/-
C06 — executable model of the ordered-subset bookkeeping.

* `findBasic`, `related`, `numRelated` transcribe
  `DataSymmetriesForBins_PET_CartesianGrid::{find_basic_view_segment_numbers,
   get_related_view_segment_numbers, num_related_view_segment_numbers}`
  (src/include/stir/recon_buildblock/DataSymmetriesForBins_PET_CartesianGrid.inl:398, :801, :677);
  `Sym.effective` transcribes what the constructor does to the requested flags
  (src/recon_buildblock/DataSymmetriesForBins_PET_CartesianGrid.cxx:270-335).
* `basicVSInSubset` transcribes `detail::find_basic_vs_nums_in_subset`
  (src/recon_buildblock/find_basic_vs_nums_in_subset.cxx:32) including its TOF loop that starts
  at `-min_tof_pos_num`.
* `balanced` transcribes `actual_subsets_are_approximately_balanced`
  (PoissonLogLikelihoodWithLinearModelForMeanAndProjData.cxx:490).
* `subsetNum`, `permute` transcribe `IterativeReconstruction::get_subset_num` and
  `randomly_permute_subset_order` (IterativeReconstruction.cxx:577, :630).
* `getSubsetNum`, `reconLoop`, `reconSchedule`, `reconSetUpOk` transcribe the state machine of
  `IterativeReconstruction::get_subset_num` (the member `_current_subset_array`, regenerated when
  `(subiteration_num - 1) % num_subsets == 0` or when it does not have `num_subsets` elements), the loop of `IterativeReconstruction::reconstruct`
  (IterativeReconstruction.cxx:402) and the parameter checks of `set_start_subset_num` / `set_up` (:286, :432)
  together with the balance tests of `PoissonLogLikelihoodWithLinearModelForMean::set_up`
  (PoissonLogLikelihoodWithLinearModelForMean.cxx:275) and `OSMAPOSLReconstruction::set_up` (OSMAPOSLReconstruction.cxx:284).
* `projected` transcribes the loops of `BackProjectorByBin::back_project(const ProjData&, subset, n)`
  (BackProjectorByBin.cxx:186) and `ForwardProjectorByBin::forward_project(ProjData&, subset, n, zero)`
  (ForwardProjectorByBin.cxx:171): basic pairs of the subset x TOF bins `min..max` x related pairs.
* `resolveMaxSeg`, `balancedAfterSetUp` transcribe what `set_up_before_sensitivity`
  (PoissonLogLikelihoodWithLinearModelForMeanAndProjData.cxx:586) does to `max_segment_num_to_process`.

Core Lean only.  C `int` division/modulo on the (non-negative) operands that occur is `Int.tdiv/tmod`;
`>> 1` on `num_views` is `/ 2`.
-/
namespace StirVerif.C06

structure Sym where
  V : Int            -- num_views
  d90 : Bool         -- do_symmetry_90degrees_min_phi (effective)
  d180 : Bool        -- do_symmetry_180degrees_min_phi (effective)
  swapSeg : Bool     -- do_symmetry_swap_segment
  deriving Repr, DecidableEq

/-- requested flags -> effective flags (constructor); `squareVoxels` is the x/y voxel-size test -/
def Sym.effective (V : Int) (d90v d180v swap squareVoxels : Bool) : Sym :=
  let d90 := d90v
  let d180 := d90v || d180v
  let d90 := if !squareVoxels then false else d90
  let d90 := if V.tmod 4 != 0 then false else d90
  let d180 := if V.tmod 2 != 0 then false else d180
  { V := V, d90 := d90, d180 := d180, swapSeg := swap }

/-- … and for TOF data the constructor switches all view/segment symmetries off
    ("Disabling rotational symmetries / segment swapping for the projector with TOF data") -/
def Sym.effectiveTOF (V : Int) (d90v d180v swap squareVoxels tof : Bool) : Sym :=
  if tof then { V := V, d90 := false, d180 := false, swapSeg := false }
  else Sym.effective V d90v d180v swap squareVoxels

structure VS where
  view : Int
  seg : Int
  deriving Repr, DecidableEq, Inhabited

/-- `find_basic_view_segment_numbers`: returns the basic pair and the `change` flag -/
def findBasic (y : Sym) (p : VS) : VS × Bool :=
  let view90 := y.V / 2          -- num_views >> 1
  let view45 := view90 / 2
  let view135 := view90 + view45
  let (seg, change) := if y.swapSeg && p.seg < 0 then (-p.seg, true) else (p.seg, false)
  if y.d90 then
    if p.view ≥ view135 then (⟨y.V - p.view, seg⟩, true)
    else if p.view ≥ view90 then (⟨p.view - view90, seg⟩, true)
    else if p.view > view45 then (⟨view90 - p.view, seg⟩, true)
    else (⟨p.view, seg⟩, change)
  else if y.d180 then
    if p.view > view90 then (⟨y.V - p.view, seg⟩, true)
    else (⟨p.view, seg⟩, change)
  else (⟨p.view, seg⟩, change)

/-- `is_basic` (default implementation: `!find_basic_view_segment_numbers(copy)`) -/
def isBasic (y : Sym) (p : VS) : Bool := !(findBasic y p).2

/-- `num_related_view_segment_numbers` -/
def numRelated (y : Sym) (p : VS) : Nat :=
  let n := if y.d180 && (p.view.tmod (y.V.tdiv 2)) != 0 then 2 else 1
  let n := if y.d90 && (p.view.tmod (y.V.tdiv 2)) != y.V.tdiv 4 then n * 2 else n
  if y.swapSeg && p.seg != 0 then n * 2 else n

/-- `get_related_view_segment_numbers` (argument must be basic) -/
def related (y : Sym) (p : VS) : List VS :=
  let symz := y.swapSeg && p.seg != 0
  let both (v : Int) : List VS := if symz then [⟨v, p.seg⟩, ⟨v, -p.seg⟩] else [⟨v, p.seg⟩]
  let half := y.V.tdiv 2
  both p.view
  ++ (if y.d180 && y.d90 && p.view.tmod half != y.V.tdiv 4 then
        both (if p.view < half then p.view + half else p.view - half) else [])
  ++ (if y.d180 && p.view.tmod half != 0 then both (y.V - p.view) else [])
  ++ (if y.d90 && p.view.tmod (y.V.tdiv 4) != 0 then both ((half - p.view + y.V).tmod y.V) else [])

/-- views visited by `for (view = minV + i; view <= maxV; view += n)` -/
def viewsOfSubset (minV maxV : Int) (i n : Nat) : List Int :=
  if minV + i > maxV then []
  else (List.range (((maxV - (minV + i)) / n).toNat + 1)).map fun (k : Nat) => minV + i + n * (k : Int)

/-- integers `lo, lo+1, …, hi` -/
def intRange (lo hi : Int) : List Int := (List.range (hi - lo + 1).toNat).map fun (k : Nat) => lo + (k : Int)

/-- `detail::find_basic_vs_nums_in_subset`; the TOF loop runs from `-minTof` to `maxTof` -/
def basicVSInSubset (y : Sym) (minV maxV minSeg maxSeg minTof maxTof : Int) (i n : Nat) : List VS :=
  (intRange minSeg maxSeg).flatMap fun seg =>
    (intRange (-minTof) maxTof).flatMap fun _ =>
      ((viewsOfSubset minV maxV i n).filter fun v => isBasic y ⟨v, seg⟩).map fun v => ⟨v, seg⟩

/-- every view/segment pair processed for subset `i`: the related pairs of its basic pairs -/
def processed (y : Sym) (minV maxV minSeg maxSeg minTof maxTof : Int) (i n : Nat) : List VS :=
  (basicVSInSubset y minV maxV minSeg maxSeg minTof maxTof i n).flatMap (related y)

/-- `actual_subsets_are_approximately_balanced` (segments `-maxSeg … maxSeg`) -/
def numVSInSubset (y : Sym) (minV maxV maxSeg : Int) (i n : Nat) : Nat :=
  ((intRange (-maxSeg) maxSeg).flatMap fun seg =>
    ((viewsOfSubset minV maxV i n).filter fun v => isBasic y ⟨v, seg⟩).map fun v => numRelated y ⟨v, seg⟩).sum

def balanced (y : Sym) (minV maxV maxSeg : Int) (n : Nat) : Bool :=
  (List.range n).all fun i => numVSInSubset y minV maxV maxSeg i n == numVSInSubset y minV maxV maxSeg 0 n

/-- non-randomised branch of `get_subset_num` (`subiter ≥ 1`) -/
def subsetNum (subiter startSubset n : Nat) : Nat := (subiter + startSubset - 1) % n

/-- remove the element at position `k` (the shifting loop of `randomly_permute_subset_order`) -/
def removeAt (l : List Nat) (k : Nat) : List Nat := l.take k ++ l.drop (k + 1)

/-- `randomly_permute_subset_order`: `draws` are the values `(int)((float)rand()/RAND_MAX * (n-i))`,
    one per `i`; a draw equal to `n - i` is decremented, as in the source. -/
def permuteAux : List Nat → List Nat → List Nat
  | _, [] => []
  | temp, d :: ds =>
    let idx := if d ≥ temp.length then temp.length - 1 else d
    match temp[idx]? with
    | some x => x :: permuteAux (removeAt temp idx) ds
    | none => []          -- temp exhausted (more draws than subsets)

def permute (n : Nat) (draws : List Nat) : List Nat := permuteAux (List.range n) draws

/-! ### the schedule of a whole run: `IterativeReconstruction::reconstruct` -/

/-- what `get_subset_num` keeps between calls: `_current_subset_array` (empty until first generated) and the number of
    `rand()` calls made so far -/
structure SchedState where
  arr : List Nat
  pos : Nat
  deriving Repr, DecidableEq

/-- `IterativeReconstruction::get_subset_num` (IterativeReconstruction.cxx:630, after the repair bfafc063a) at
    `subiteration_num = s ≥ 1`.  `draw j` is the value `(int)((float)rand()/RAND_MAX * (n - j % n))` of the `j`-th call of
    `rand()`.  With randomised order a new permutation is generated at the start of every full iteration
    (`(s - 1) % n == 0`) and whenever `_current_subset_array` does not have `n` elements (never generated yet, or generated
    for another number of subsets).  The result is the C++ expression `_current_subset_array[(s - 1) % n]` as an indexing
    that could fail (`none`); `C06_recon_defined` shows that it never does. -/
def getSubsetNum (n startSubset : Nat) (rnd : Bool) (draw : Nat → Nat) (st : SchedState) (s : Nat) :
    SchedState × Option Nat :=
  let st' : SchedState :=
    if rnd && ((s - 1) % n == 0 || st.arr.length != n) then
      { arr := permute n ((List.range n).map fun i => draw (st.pos + i)), pos := st.pos + n }
    else st
  (st', if rnd then st'.arr[(s - 1) % n]? else some (subsetNum s startSubset n))

/-- the loop `for (subiteration_num = start; subiteration_num <= num_subiterations; ++subiteration_num) update_estimate`
    (IterativeReconstruction.cxx:414; `update_estimate` calls `get_subset_num` once): the subset of every sub-iteration -/
def reconLoop (n startSubset : Nat) (rnd : Bool) (draw : Nat → Nat) : List Nat → SchedState → List (Option Nat)
  | [], _ => []
  | s :: rest, st =>
    let r := getSubsetNum n startSubset rnd draw st s
    r.2 :: reconLoop n startSubset rnd draw rest r.1

/-- the state after the loop -/
def reconState (n startSubset : Nat) (rnd : Bool) (draw : Nat → Nat) : List Nat → SchedState → SchedState
  | [], st => st
  | s :: rest, st => reconState n startSubset rnd draw rest (getSubsetNum n startSubset rnd draw st s).1

/-- subset numbers used by `reconstruct` for sub-iterations `s0, …, N` (a freshly constructed reconstruction object) -/
def reconSchedule (n startSubset : Nat) (rnd : Bool) (s0 N : Nat) (draw : Nat → Nat) : List (Option Nat) :=
  reconLoop n startSubset rnd draw (List.range' s0 (N + 1 - s0)) ⟨[], 0⟩

/-- `set_start_subset_num` (called after `set_num_subsets`) and the parameter checks of `IterativeReconstruction::set_up`
    (`save_interval` is `num_subiterations` in the runs compared), then the two balance tests:
    `PoissonLogLikelihoodWithLinearModelForMean::set_up` fails for unbalanced subsets without subset sensitivities,
    `OSMAPOSLReconstruction::set_up` fails for unbalanced subsets (`bal` = `subsets_are_approximately_balanced()`). -/
def reconSetUpOk (n startSubset s0 N : Int) (useSubsetSens bal : Bool) : Bool :=
  decide (0 ≤ startSubset) && decide (startSubset < n)      -- set_start_subset_num
    && decide (1 ≤ n) && decide (1 ≤ N) && decide (1 ≤ s0)   -- IterativeReconstruction::set_up
    && (bal || useSubsetSens)                                -- objective function set_up
    && bal                                                   -- OSMAPOSL set_up

/-! ### projectors: subsets x TOF bins -/

/-- `BackProjectorByBin::back_project(proj_data, subset_num, num_subsets)` and
    `ForwardProjectorByBin::forward_project(proj_data, subset_num, num_subsets, zero)`:
    `for (vs in find_basic_vs_nums_in_subset(…)) for (k = min_tof_pos_num … max_tof_pos_num) get/set_related_viewgrams(vs, k)`:
    every (view/segment pair, TOF bin) whose viewgram is read (back projection) or written (forward projection) -/
def projected (y : Sym) (minV maxV minSeg maxSeg minTof maxTof : Int) (i n : Nat) : List (VS × Int) :=
  (basicVSInSubset y minV maxV minSeg maxSeg minTof maxTof i n).flatMap fun b =>
    (intRange minTof maxTof).flatMap fun k => (related y b).map fun p => (p, k)

/-! ### balanced flag after `set_up` -/

/-- `set_up_before_sensitivity`: `max_segment_num_to_process == -1` means "all segments of the data"; a number larger
    than the data's maximum segment is an error -/
def resolveMaxSeg (requested dataMax : Int) : Option Int :=
  let m := if requested == -1 then dataMax else requested
  if m > dataMax then none else some m

/-- objective function `set_up` followed by `subsets_are_approximately_balanced()`:
    `none` = `set_up` fails (segment number too large, or unbalanced subsets without subset sensitivities) -/
def balancedAfterSetUp (y : Sym) (minV maxV requested dataMax : Int) (n : Nat) (useSubsetSens : Bool) : Option (Bool × Int) :=
  match resolveMaxSeg requested dataMax with
  | none => none
  | some m =>
    let b := balanced y minV maxV m n
    if !b && !useSubsetSens then none else some (b, m)

end StirVerif.C06
