import StirVerif.C06.ProofsSym
import StirVerif.C06.ProofsSubsets
import StirVerif.C06.ProofsSched
import StirVerif.C06.ProofsRecon
import StirVerif.C06.ProofsProj
