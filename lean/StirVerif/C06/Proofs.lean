import StirVerif.C06.ProofsSym
import StirVerif.C06.ProofsSubsets
import StirVerif.C06.ProofsSched
