/-
C06 — "Ordered subsets partition the data; every subset is used once per iteration".
Property theorems over the model of `Model.lean`.  All statements are for every number of views,
number of subsets and segment range (no bound).
-/
import StirVerif.C06.Proofs
import StirVerif.C06.SegRange

namespace StirVerif.C06

/-- what the constructor guarantees about the effective flags -/
theorem C06_effective_WF (V : Int) (hV : 0 < V) (a b c d : Bool) : (Sym.effective V a b c d).WF :=
  effective_WF V hV a b c d

/-- the related sets of the basic view/segment pairs partition all pairs:
    every pair lies in the related set of its basic pair … -/
theorem C06_mem_related_of_findBasic (y : Sym) (h : y.WF) (p : VS) (hv : 0 ≤ p.view ∧ p.view < y.V) :
    p ∈ related y (findBasic y p).1 ∧ isBasic y (findBasic y p).1 = true ∧
      0 ≤ (findBasic y p).1.view ∧ (findBasic y p).1.view < y.V :=
  mem_related_of_findBasic y h p hv

/-- … every member of a related set has that basic pair, stays inside the view range, and only
    differs in the sign of the segment … -/
theorem C06_findBasic_of_mem_related (y : Sym) (h : y.WF) (b : VS) (hb : isBasic y b = true)
    (hv : 0 ≤ b.view ∧ b.view < y.V) (w : VS) (hw : w ∈ related y b) :
    (findBasic y w).1 = b ∧ 0 ≤ w.view ∧ w.view < y.V ∧ (w.seg = b.seg ∨ (y.swapSeg = true ∧ w.seg = -b.seg)) :=
  findBasic_of_mem_related y h b hb hv w hw

/-- … no pair is listed twice, and the reported count is the length of the list. -/
theorem C06_related_nodup (y : Sym) (h : y.WF) (b : VS) (hb : isBasic y b = true)
    (hv : 0 ≤ b.view ∧ b.view < y.V) : (related y b).Nodup ∧ numRelated y b = (related y b).length :=
  related_nodup y h b hb hv

/-- hypotheses under which the library builds subsets: `n ≥ 1` subsets, subset index `i < n`, views
    `0 … V-1`, segment range symmetric if segments are swapped, and a symmetric TOF range (which
    `set_tof_mash_factor` guarantees) so that the TOF loop of `find_basic_vs_nums_in_subset` runs once -/
structure Cfg (y : Sym) (minSeg maxSeg minTof maxTof : Int) (n : Nat) : Prop where
  wf : y.WF
  npos : 0 < n
  seg : y.swapSeg = true → minSeg = -maxSeg
  tof : minTof = -maxTof ∧ 0 ≤ maxTof

/-- **membership**: a pair is processed for subset `i` iff it is a pair of the data and its basic
    pair's view is congruent to `i` modulo the number of subsets. -/
theorem C06_processed_mem_iff (y : Sym) (minSeg maxSeg minTof maxTof : Int) (n i : Nat)
    (c : Cfg y minSeg maxSeg minTof maxTof n) (hi : i < n) (p : VS) :
    p ∈ processed y 0 (y.V - 1) minSeg maxSeg minTof maxTof i n ↔
      (0 ≤ p.view ∧ p.view < y.V ∧ minSeg ≤ p.seg ∧ p.seg ≤ maxSeg ∧
        (findBasic y p).1.view % (n : Int) = i) :=
  processed_mem_iff y minSeg maxSeg minTof maxTof n i c.wf c.npos c.seg c.tof hi p

/-- **no pair twice within a subset** -/
theorem C06_processed_nodup (y : Sym) (minSeg maxSeg minTof maxTof : Int) (n i : Nat)
    (c : Cfg y minSeg maxSeg minTof maxTof n) (hi : i < n) :
    (processed y 0 (y.V - 1) minSeg maxSeg minTof maxTof i n).Nodup :=
  processed_nodup y minSeg maxSeg minTof maxTof n i c.wf c.npos c.seg c.tof hi

/-- **partition**: every (view, segment) of the data is processed by exactly one subset, exactly once
    (the count over the concatenation of all subsets is 1), and nothing outside the data is processed.
    (`processed` is now also what the correspondence run compares with the viewgrams that the real
    `BackProjectorByBin::back_project(ProjData, subset, n)` reads and `ForwardProjectorByBin::forward_project` writes,
    through `projected`, see `C06_projector_partition`; and with `TrivialDataSymmetriesForBins` = all flags off.) -/
theorem C06_subsets_partition (y : Sym) (minSeg maxSeg minTof maxTof : Int) (n : Nat)
    (c : Cfg y minSeg maxSeg minTof maxTof n) (p : VS) :
    ((List.range n).flatMap fun i => processed y 0 (y.V - 1) minSeg maxSeg minTof maxTof i n).count p =
      if 0 ≤ p.view ∧ p.view < y.V ∧ minSeg ≤ p.seg ∧ p.seg ≤ maxSeg then 1 else 0 :=
  subsets_partition y minSeg maxSeg minTof maxTof n c.wf c.npos c.seg c.tof p

/-- the TOF loop lists every basic pair `maxTof + minTof + 1` times: once iff `minTof = -maxTof` -/
theorem C06_tof_loop_multiplicity (y : Sym) (minV maxV minSeg maxSeg minTof maxTof : Int) (i n : Nat) (b : VS) :
    (basicVSInSubset y minV maxV minSeg maxSeg minTof maxTof i n).count b =
      (maxTof + minTof + 1).toNat * (basicVSInSubset y minV maxV minSeg maxSeg 0 0 i n).count b :=
  tof_loop_multiplicity y minV maxV minSeg maxSeg minTof maxTof i n b

/-- **partition with TOF bins** — "the view/segment groups processed for the different subsets are disjoint and together
    contain every (segment, view, TOF bin) of the data exactly once": over all subsets the loops of
    `BackProjectorByBin::back_project(ProjData, subset, n)` / `ForwardProjectorByBin::forward_project(ProjData, subset, n)`
    (basic pairs of the subset × TOF bins × related pairs) touch every (view, segment, TOF bin) of the data exactly
    once and nothing else. -/
theorem C06_projector_partition (y : Sym) (minSeg maxSeg minTof maxTof : Int) (n : Nat)
    (c : Cfg y minSeg maxSeg minTof maxTof n) (p : VS) (k : Int) :
    ((List.range n).flatMap fun i => projected y 0 (y.V - 1) minSeg maxSeg minTof maxTof i n).count (p, k) =
      if (0 ≤ p.view ∧ p.view < y.V ∧ minSeg ≤ p.seg ∧ p.seg ≤ maxSeg) ∧ (minTof ≤ k ∧ k ≤ maxTof) then 1 else 0 :=
  projector_partition y minSeg maxSeg minTof maxTof n c.wf c.npos c.seg c.tof p k

/-- per subset the projectors touch exactly the processed pairs, each with every TOF bin (no hypothesis: also
    shows the multiplicity `maxTof + minTof + 1` of `C06_tof_loop_multiplicity` for an asymmetric TOF range) -/
theorem C06_projected_count (y : Sym) (minV maxV minSeg maxSeg minTof maxTof : Int) (i n : Nat) (p : VS) (k : Int) :
    (projected y minV maxV minSeg maxSeg minTof maxTof i n).count (p, k) =
      (intRange minTof maxTof).count k * (processed y minV maxV minSeg maxSeg minTof maxTof i n).count p :=
  projected_count y minV maxV minSeg maxSeg minTof maxTof i n p k

/-- **balance**: the reported flag is true exactly when all subsets process the same number of viewgrams
    (the correspondence run now also compares `balanced` with `subsets_are_approximately_balanced()` after the objective
    function's `set_up`, i.e. with the default `max_segment_num_to_process = -1` resolved by `resolveMaxSeg`, and on TOF data) -/
theorem C06_balanced_iff (y : Sym) (maxSeg : Int) (n : Nat) (h : y.WF) (hn : 0 < n) :
    balanced y 0 (y.V - 1) maxSeg n = true ↔
      ∀ i, i < n → (processed y 0 (y.V - 1) (-maxSeg) maxSeg 0 0 i n).length =
                   (processed y 0 (y.V - 1) (-maxSeg) maxSeg 0 0 0 n).length :=
  balanced_iff y maxSeg n h hn

/-- **schedule, fixed order**: in every block of `n` consecutive sub-iterations starting right after a
    multiple of `n`, each subset is used exactly once — for every start subset. -/
theorem C06_schedule_perm (n start m : Nat) (hn : 0 < n) :
    ((List.range n).map fun k => subsetNum (m * n + 1 + k) start n).Perm (List.range n) :=
  schedule_perm n start m hn

/-- **schedule, randomised order**: whatever the random draws are, the generated order is a
    permutation of the subsets (including the `index == n-i ⇒ index--` corner). -/
theorem C06_permute_perm (n : Nat) (draws : List Nat) (h : draws.length = n) :
    (permute n draws).Perm (List.range n) :=
  permute_perm n draws h

/-- **schedule of a whole run** — "within each full iteration every subset is used exactly once, also when the subset
    order is randomised or a non-zero start subset is chosen": in the list of subset numbers that
    `IterativeReconstruction::reconstruct` passes to the objective function for sub-iterations `s0 … N`, every full
    iteration `m·n+1 … (m+1)·n` that lies inside the run is a permutation of the subsets — for every start subset, start
    sub-iteration, number of sub-iterations, randomised or not, whatever `rand()` returns. -/
theorem C06_recon_full_iteration (n ss s0 N m : Nat) (rnd : Bool) (draw : Nat → Nat) (hn : 0 < n)
    (h1 : s0 ≤ m * n + 1) (h2 : (m + 1) * n ≤ N) :
    ∃ l : List Nat, ((reconSchedule n ss rnd s0 N draw).drop (m * n + 1 - s0)).take n = l.map some ∧
      l.Perm (List.range n) :=
  recon_full_iteration n ss s0 N m rnd draw hn h1 h2

/-- one entry per sub-iteration -/
theorem C06_recon_length (n ss : Nat) (rnd : Bool) (s0 N : Nat) (draw : Nat → Nat) :
    (reconSchedule n ss rnd s0 N draw).length = N + 1 - s0 :=
  reconSchedule_length n ss rnd s0 N draw

/-- **every sub-iteration gets a valid subset number** — "subset schedules for all (num_subsets, start_subset,
    start_subiteration, randomise on/off)": for every start sub-iteration (also inside a full iteration), number of
    sub-iterations, start subset, randomised or not, whatever `rand()` returns, `get_subset_num` never indexes
    `_current_subset_array` outside its range and returns a number `< num_subsets`.
    (Before the repair bfafc063a this held only for fixed order or `(start_subiteration_num - 1) % num_subsets = 0`.) -/
theorem C06_recon_defined (n ss s0 N : Nat) (rnd : Bool) (draw : Nat → Nat) (hn : 0 < n) :
    ∀ e ∈ reconSchedule n ss rnd s0 N draw, ∃ x, e = some x ∧ x < n :=
  recon_defined n ss s0 N rnd draw hn

/-- **the iteration in which a run starts**: the sub-iterations `s0, s0+1, …` up to the end of the full iteration that
    contains `s0` (all `num_subsets` of them if `s0` starts an iteration, fewer for a resumed run) use pairwise distinct
    subsets — randomised (they are read from one freshly generated permutation) or not. `1 ≤ s0` is what `set_up` enforces. -/
theorem C06_recon_first_iteration_nodup (n ss s0 N : Nat) (rnd : Bool) (draw : Nat → Nat) (hn : 0 < n) (hs : 1 ≤ s0) :
    ((reconSchedule n ss rnd s0 N draw).take (n - (s0 - 1) % n)).Nodup :=
  recon_first_iteration_nodup n ss s0 N rnd draw hn hs

/-- regression witness for the input on which the code before bfafc063a failed: 2 subsets, randomised order, run started
    at sub-iteration 2 of 4.  The old `get_subset_num` generated the order only when `(subiteration_num - 1) % num_subsets
    == 0`, so sub-iteration 2 indexed the still empty `_current_subset_array` (SIGSEGV; the old model gave
    `[none, some 0, some 1]`).  The repaired code generates an order at sub-iteration 2 (array length 0 ≠ 2), reads its
    position 1, and generates the next one at sub-iteration 3. -/
theorem C06_recon_restart_regression :
    reconSchedule 2 0 true 2 4 (fun _ => 0) = [some 1, some 0, some 1] := by decide

/-! non-vacuity -/
example : reconSchedule 3 1 false 2 7 (fun _ => 0) = [some 2, some 0, some 1, some 2, some 0, some 1] := by decide
example : reconSchedule 3 0 true 4 9 (fun j => [2, 0, 0, 1, 1, 0].getD j 0) =
    [some 2, some 0, some 1, some 1, some 2, some 0] := by decide
example : (projected (Sym.effective 4 false true false true) 0 3 0 0 (-1) 1 1 2).length = 6 := by decide

example : Cfg (Sym.effective 16 true false true true) (-2) 2 (-3) 3 4 :=
  { wf := effective_WF 16 (by decide) _ _ _ _, npos := by decide, seg := by intro _; rfl, tof := by decide }

/-! ### the segment range across re-use of an objective function (model `SegReq`; tied by the `balancedsu` lines of objects that
    are set up a second time with data of another number of segments) -/

/-- a new object processes all segments of its data -/
theorem C06_new_object_uses_all_segments (d : Int) : SegReq.new.setUp d = some ⟨d, true⟩ := SegReq.new_setUp d

/-- whatever the object went through before, a request for range `m` is what the next `set_up` uses (−1: all segments of the data;
    larger than the data: refused) — in particular when `m` is exactly the value an earlier `set_up` had filled in -/
theorem C06_requested_range_is_used (s : SegReq) (m d : Int) :
    (s.request m).setUp d = if m = -1 then some ⟨d, true⟩ else if m > d then none else some ⟨m, false⟩ :=
  SegReq.request_setUp s m d

/-- a range that was filled in from the data follows the data the object is given next … -/
theorem C06_filled_in_range_follows_new_data (s s' : SegReq) (d d2 : Int) (h : s.setUp d = some s') (hd : s'.isDefault = true) :
    s'.setUp d2 = some ⟨d2, true⟩ := SegReq.setUp_default_follows s s' d d2 h hd

/-- … and a range that was asked for stays (or the set-up is refused when the new data have fewer segments) -/
theorem C06_requested_range_stays (s s' : SegReq) (d d2 : Int) (h : s.setUp d = some s') (hd : s'.isDefault = false) :
    s'.setUp d2 = if s'.value > d2 then none else some s' := SegReq.setUp_requested_stays s s' d d2 h hd

/-- non-vacuity and a broken variant for comparison: set up with data of 1 segment pair, ask for 1, get data with 2: the range
    stays 1; with a setter that returns early when the value is the one in force it silently becomes 2 -/
example : ((SegReq.new.setUp 1).map fun s => (s.request 1).setUp 2) = some (some ⟨1, false⟩) := by decide
theorem C06_setter_early_return_is_wrong :
    ((SegReq.new.setUp 1).map fun s => (s.requestEarlyReturn 1).setUp 2) = some (some ⟨2, true⟩) := by decide

end StirVerif.C06
