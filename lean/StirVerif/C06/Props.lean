/-
C06 — "Ordered subsets partition the data; every subset is used once per iteration".
Property theorems over the model of `Model.lean`.  All statements are for every number of views,
number of subsets and segment range (no bound).
-/
import StirVerif.C06.Proofs

namespace StirVerif.C06

/-- what the constructor guarantees about the effective flags -/
theorem C06_effective_WF (V : Int) (hV : 0 < V) (a b c d : Bool) : (Sym.effective V a b c d).WF :=
  effective_WF V hV a b c d

/-- the related sets of the basic view/segment pairs partition all pairs:
    every pair lies in the related set of its basic pair … -/
theorem C06_mem_related_of_findBasic (y : Sym) (h : y.WF) (p : VS) (hv : 0 ≤ p.view ∧ p.view < y.V) :
    p ∈ related y (findBasic y p).1 ∧ isBasic y (findBasic y p).1 = true ∧
      0 ≤ (findBasic y p).1.view ∧ (findBasic y p).1.view < y.V :=
  mem_related_of_findBasic y h p hv

/-- … every member of a related set has that basic pair, stays inside the view range, and only
    differs in the sign of the segment … -/
theorem C06_findBasic_of_mem_related (y : Sym) (h : y.WF) (b : VS) (hb : isBasic y b = true)
    (hv : 0 ≤ b.view ∧ b.view < y.V) (w : VS) (hw : w ∈ related y b) :
    (findBasic y w).1 = b ∧ 0 ≤ w.view ∧ w.view < y.V ∧ (w.seg = b.seg ∨ (y.swapSeg = true ∧ w.seg = -b.seg)) :=
  findBasic_of_mem_related y h b hb hv w hw

/-- … no pair is listed twice, and the reported count is the length of the list. -/
theorem C06_related_nodup (y : Sym) (h : y.WF) (b : VS) (hb : isBasic y b = true)
    (hv : 0 ≤ b.view ∧ b.view < y.V) : (related y b).Nodup ∧ numRelated y b = (related y b).length :=
  related_nodup y h b hb hv

/-- hypotheses under which the library builds subsets: `n ≥ 1` subsets, subset index `i < n`, views
    `0 … V-1`, segment range symmetric if segments are swapped, and a symmetric TOF range (which
    `set_tof_mash_factor` guarantees) so that the TOF loop of `find_basic_vs_nums_in_subset` runs once -/
structure Cfg (y : Sym) (minSeg maxSeg minTof maxTof : Int) (n : Nat) : Prop where
  wf : y.WF
  npos : 0 < n
  seg : y.swapSeg = true → minSeg = -maxSeg
  tof : minTof = -maxTof ∧ 0 ≤ maxTof

/-- **membership**: a pair is processed for subset `i` iff it is a pair of the data and its basic
    pair's view is congruent to `i` modulo the number of subsets. -/
theorem C06_processed_mem_iff (y : Sym) (minSeg maxSeg minTof maxTof : Int) (n i : Nat)
    (c : Cfg y minSeg maxSeg minTof maxTof n) (hi : i < n) (p : VS) :
    p ∈ processed y 0 (y.V - 1) minSeg maxSeg minTof maxTof i n ↔
      (0 ≤ p.view ∧ p.view < y.V ∧ minSeg ≤ p.seg ∧ p.seg ≤ maxSeg ∧
        (findBasic y p).1.view % (n : Int) = i) :=
  processed_mem_iff y minSeg maxSeg minTof maxTof n i c.wf c.npos c.seg c.tof hi p

/-- **no pair twice within a subset** -/
theorem C06_processed_nodup (y : Sym) (minSeg maxSeg minTof maxTof : Int) (n i : Nat)
    (c : Cfg y minSeg maxSeg minTof maxTof n) (hi : i < n) :
    (processed y 0 (y.V - 1) minSeg maxSeg minTof maxTof i n).Nodup :=
  processed_nodup y minSeg maxSeg minTof maxTof n i c.wf c.npos c.seg c.tof hi

/-- **partition**: every (view, segment) of the data is processed by exactly one subset, exactly once
    (the count over the concatenation of all subsets is 1), and nothing outside the data is processed. -/
theorem C06_subsets_partition (y : Sym) (minSeg maxSeg minTof maxTof : Int) (n : Nat)
    (c : Cfg y minSeg maxSeg minTof maxTof n) (p : VS) :
    ((List.range n).flatMap fun i => processed y 0 (y.V - 1) minSeg maxSeg minTof maxTof i n).count p =
      if 0 ≤ p.view ∧ p.view < y.V ∧ minSeg ≤ p.seg ∧ p.seg ≤ maxSeg then 1 else 0 :=
  subsets_partition y minSeg maxSeg minTof maxTof n c.wf c.npos c.seg c.tof p

/-- the TOF loop lists every basic pair `maxTof + minTof + 1` times: once iff `minTof = -maxTof` -/
theorem C06_tof_loop_multiplicity (y : Sym) (minV maxV minSeg maxSeg minTof maxTof : Int) (i n : Nat) (b : VS) :
    (basicVSInSubset y minV maxV minSeg maxSeg minTof maxTof i n).count b =
      (maxTof + minTof + 1).toNat * (basicVSInSubset y minV maxV minSeg maxSeg 0 0 i n).count b :=
  tof_loop_multiplicity y minV maxV minSeg maxSeg minTof maxTof i n b

/-- **balance**: the reported flag is true exactly when all subsets process the same number of viewgrams -/
theorem C06_balanced_iff (y : Sym) (maxSeg : Int) (n : Nat) (h : y.WF) (hn : 0 < n) :
    balanced y 0 (y.V - 1) maxSeg n = true ↔
      ∀ i, i < n → (processed y 0 (y.V - 1) (-maxSeg) maxSeg 0 0 i n).length =
                   (processed y 0 (y.V - 1) (-maxSeg) maxSeg 0 0 0 n).length :=
  balanced_iff y maxSeg n h hn

/-- **schedule, fixed order**: in every block of `n` consecutive sub-iterations starting right after a
    multiple of `n`, each subset is used exactly once — for every start subset. -/
theorem C06_schedule_perm (n start m : Nat) (hn : 0 < n) :
    ((List.range n).map fun k => subsetNum (m * n + 1 + k) start n).Perm (List.range n) :=
  schedule_perm n start m hn

/-- **schedule, randomised order**: whatever the random draws are, the generated order is a
    permutation of the subsets (including the `index == n-i ⇒ index--` corner). -/
theorem C06_permute_perm (n : Nat) (draws : List Nat) (h : draws.length = n) :
    (permute n draws).Perm (List.range n) :=
  permute_perm n draws h

/-! non-vacuity -/
example : Cfg (Sym.effective 16 true false true true) (-2) 2 (-3) 3 4 :=
  { wf := effective_WF 16 (by decide) _ _ _ _, npos := by decide, seg := by intro _; rfl, tof := by decide }

end StirVerif.C06
