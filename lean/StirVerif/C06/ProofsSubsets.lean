/-
C06 — proofs (part: subsets partition the data).  Statements are fixed; they are re-exported by `Props.lean`.
-/
import StirVerif.C06.ProofsSym

namespace StirVerif.C06

theorem processed_mem_iff (y : Sym) (minSeg maxSeg minTof maxTof : Int) (n i : Nat)
    (wf : y.WF) (npos : 0 < n) (hseg : y.swapSeg = true → minSeg = -maxSeg)
    (htof : minTof = -maxTof ∧ 0 ≤ maxTof) (hi : i < n) (p : VS) :
    p ∈ processed y 0 (y.V - 1) minSeg maxSeg minTof maxTof i n ↔
      (0 ≤ p.view ∧ p.view < y.V ∧ minSeg ≤ p.seg ∧ p.seg ≤ maxSeg ∧
        (findBasic y p).1.view % (n : Int) = i) := by
  sorry

theorem processed_nodup (y : Sym) (minSeg maxSeg minTof maxTof : Int) (n i : Nat)
    (wf : y.WF) (npos : 0 < n) (hseg : y.swapSeg = true → minSeg = -maxSeg)
    (htof : minTof = -maxTof ∧ 0 ≤ maxTof) (hi : i < n) :
    (processed y 0 (y.V - 1) minSeg maxSeg minTof maxTof i n).Nodup := by
  sorry

theorem subsets_partition (y : Sym) (minSeg maxSeg minTof maxTof : Int) (n : Nat)
    (wf : y.WF) (npos : 0 < n) (hseg : y.swapSeg = true → minSeg = -maxSeg)
    (htof : minTof = -maxTof ∧ 0 ≤ maxTof) (p : VS) :
    ((List.range n).flatMap fun i => processed y 0 (y.V - 1) minSeg maxSeg minTof maxTof i n).count p =
      if 0 ≤ p.view ∧ p.view < y.V ∧ minSeg ≤ p.seg ∧ p.seg ≤ maxSeg then 1 else 0 := by
  sorry

theorem tof_loop_multiplicity (y : Sym) (minV maxV minSeg maxSeg minTof maxTof : Int) (i n : Nat) (b : VS) :
    (basicVSInSubset y minV maxV minSeg maxSeg minTof maxTof i n).count b =
      (maxTof + minTof + 1).toNat * (basicVSInSubset y minV maxV minSeg maxSeg 0 0 i n).count b := by
  sorry

theorem balanced_iff (y : Sym) (maxSeg : Int) (n : Nat) (h : y.WF) (hn : 0 < n) :
    balanced y 0 (y.V - 1) maxSeg n = true ↔
      ∀ i, i < n → (processed y 0 (y.V - 1) (-maxSeg) maxSeg 0 0 i n).length =
                   (processed y 0 (y.V - 1) (-maxSeg) maxSeg 0 0 0 n).length := by
  sorry

end StirVerif.C06
