/-
C06 — proofs (part: subsets partition the data).  Statements are fixed; they are re-exported by `Props.lean`.
-/
import StirVerif.C06.ProofsSym
import Mathlib.Data.List.Nodup
import Mathlib.Data.List.Count

namespace StirVerif.C06

namespace Subsets

/-! ### `intRange` -/

theorem mem_intRange {lo hi x : Int} : x ∈ intRange lo hi ↔ lo ≤ x ∧ x ≤ hi := by
  simp only [intRange, List.mem_map, List.mem_range]
  constructor
  · rintro ⟨k, hk, rfl⟩; omega
  · rintro ⟨h1, h2⟩; exact ⟨(x - lo).toNat, by omega, by omega⟩

theorem intRange_nodup (lo hi : Int) : (intRange lo hi).Nodup := by
  unfold intRange
  refine List.Nodup.map ?_ List.nodup_range
  intro a b h
  have h' : lo + (a : Int) = lo + (b : Int) := h
  omega

theorem intRange_length (lo hi : Int) : (intRange lo hi).length = (hi - lo + 1).toNat := by
  simp [intRange]

theorem intRange_self (a : Int) : intRange a a = [a] := by
  simp [intRange]

/-! ### `viewsOfSubset` -/

theorem mem_viewsOfSubset {V : Int} {i n : Nat} (npos : 0 < n) (hi : i < n) {v : Int} :
    v ∈ viewsOfSubset 0 (V - 1) i n ↔ 0 ≤ v ∧ v ≤ V - 1 ∧ v % (n : Int) = i := by
  have hn : (0 : Int) < n := by omega
  unfold viewsOfSubset
  split
  · rename_i hgt
    simp only [List.not_mem_nil, false_iff]
    rintro ⟨h0, h1, h2⟩
    have hq := Int.mul_ediv_add_emod v n
    have hq0 : 0 ≤ v / (n : Int) := Int.ediv_nonneg h0 (by omega)
    have := Int.mul_nonneg (show (0 : Int) ≤ n by omega) hq0
    omega
  · rename_i hle
    simp only [List.mem_map, List.mem_range]
    constructor
    · rintro ⟨k, hk, rfl⟩
      have hd0 : 0 ≤ (V - 1 - (0 + (i : Int))) / (n : Int) := Int.ediv_nonneg (by omega) (by omega)
      have h1 : (k : Int) ≤ (V - 1 - (0 + i)) / (n : Int) := by omega
      have h2 : (n : Int) * (k : Int) ≤ V - 1 - (0 + i) := by
        rw [Int.mul_comm]; exact (Int.le_ediv_iff_mul_le hn).1 h1
      have h4 : (0 : Int) ≤ n * k := Int.mul_nonneg (Int.natCast_nonneg n) (Int.natCast_nonneg k)
      refine ⟨by omega, by omega, ?_⟩
      rw [Int.add_mul_emod_self_left]
      have h5 : ((0 : Int) + i) % n = 0 + i := Int.emod_eq_of_lt (by omega) (by omega)
      omega
    · rintro ⟨h0, h1, h2⟩
      have hq := Int.mul_ediv_add_emod v n
      have hq0 : 0 ≤ v / (n : Int) := Int.ediv_nonneg h0 (by omega)
      have h3 : (n : Int) * (v / n) = (v / n) * n := Int.mul_comm _ _
      have h4 : v / (n : Int) ≤ (V - 1 - (0 + i)) / (n : Int) :=
        (Int.le_ediv_iff_mul_le hn).2 (by omega)
      refine ⟨(v / (n : Int)).toNat, by omega, ?_⟩
      rw [Int.toNat_of_nonneg hq0]
      omega

theorem viewsOfSubset_nodup (minV maxV : Int) {i n : Nat} (npos : 0 < n) :
    (viewsOfSubset minV maxV i n).Nodup := by
  unfold viewsOfSubset
  split
  · exact List.nodup_nil
  · refine List.Nodup.map ?_ List.nodup_range
    intro a b h
    have h' : minV + (i : Int) + (n : Int) * (a : Int) = minV + i + n * b := h
    have h2 : (n : Int) * (a : Int) = n * b := by omega
    have := Int.eq_of_mul_eq_mul_left (show (n : Int) ≠ 0 by omega) h2
    omega

/-! ### `basicVSInSubset` -/

/-- the innermost (view) loop of `find_basic_vs_nums_in_subset` -/
def basicRow (y : Sym) (minV maxV : Int) (i n : Nat) (seg : Int) : List VS :=
  ((viewsOfSubset minV maxV i n).filter fun v => isBasic y ⟨v, seg⟩).map fun v => ⟨v, seg⟩

theorem basicVSInSubset_eq (y : Sym) (minV maxV minSeg maxSeg minTof maxTof : Int) (i n : Nat) :
    basicVSInSubset y minV maxV minSeg maxSeg minTof maxTof i n =
      (intRange minSeg maxSeg).flatMap fun seg =>
        (intRange (-minTof) maxTof).flatMap fun _ => basicRow y minV maxV i n seg := rfl

theorem basicVSInSubset_tof_single (y : Sym) (minV maxV minSeg maxSeg minTof maxTof : Int) (i n : Nat)
    (htof : -minTof = maxTof) :
    basicVSInSubset y minV maxV minSeg maxSeg minTof maxTof i n =
      (intRange minSeg maxSeg).flatMap fun seg => basicRow y minV maxV i n seg := by
  rw [basicVSInSubset_eq, htof, intRange_self]
  simp

theorem mem_basicRow {y : Sym} {minV maxV : Int} {i n : Nat} {seg : Int} {b : VS} :
    b ∈ basicRow y minV maxV i n seg ↔
      b.seg = seg ∧ b.view ∈ viewsOfSubset minV maxV i n ∧ isBasic y b = true := by
  unfold basicRow
  simp only [List.mem_map, List.mem_filter]
  constructor
  · rintro ⟨v, ⟨hv, hb⟩, rfl⟩; exact ⟨rfl, hv, hb⟩
  · rintro ⟨rfl, hv, hb⟩; exact ⟨b.view, ⟨hv, hb⟩, rfl⟩

theorem basicRow_nodup (y : Sym) (minV maxV : Int) {i n : Nat} (npos : 0 < n) (seg : Int) :
    (basicRow y minV maxV i n seg).Nodup := by
  unfold basicRow
  refine List.Nodup.map ?_ ((viewsOfSubset_nodup minV maxV npos).filter _)
  intro a b h
  exact congrArg VS.view h

theorem mem_basicVS {y : Sym} {minSeg maxSeg minTof maxTof : Int} {i n : Nat}
    (npos : 0 < n) (hi : i < n) (htof : -minTof = maxTof) {b : VS} :
    b ∈ basicVSInSubset y 0 (y.V - 1) minSeg maxSeg minTof maxTof i n ↔
      minSeg ≤ b.seg ∧ b.seg ≤ maxSeg ∧ 0 ≤ b.view ∧ b.view ≤ y.V - 1 ∧
        b.view % (n : Int) = i ∧ isBasic y b = true := by
  rw [basicVSInSubset_tof_single _ _ _ _ _ _ _ _ _ htof]
  simp only [List.mem_flatMap, mem_intRange, mem_basicRow, mem_viewsOfSubset npos hi]
  constructor
  · rintro ⟨s, ⟨h1, h2⟩, rfl, h3, h4⟩; exact ⟨h1, h2, h3.1, h3.2.1, h3.2.2, h4⟩
  · rintro ⟨h1, h2, h3, h4, h5, h6⟩; exact ⟨b.seg, ⟨h1, h2⟩, rfl, ⟨h3, h4, h5⟩, h6⟩

theorem basicVS_nodup (y : Sym) (minV maxV minSeg maxSeg minTof maxTof : Int) {i n : Nat}
    (npos : 0 < n) (htof : -minTof = maxTof) :
    (basicVSInSubset y minV maxV minSeg maxSeg minTof maxTof i n).Nodup := by
  rw [basicVSInSubset_tof_single _ _ _ _ _ _ _ _ _ htof, List.nodup_flatMap]
  refine ⟨fun s _ => basicRow_nodup y minV maxV npos s, ?_⟩
  refine List.Pairwise.imp ?_ (intRange_nodup minSeg maxSeg)
  intro s t hst
  show List.Disjoint _ _
  rw [List.disjoint_left]
  intro b hb hb'
  exact hst ((mem_basicRow.1 hb).1.symm.trans (mem_basicRow.1 hb').1)

end Subsets

open Subsets

/-! ### the theorems -/

theorem processed_mem_iff (y : Sym) (minSeg maxSeg minTof maxTof : Int) (n i : Nat)
    (wf : y.WF) (npos : 0 < n) (hseg : y.swapSeg = true → minSeg = -maxSeg)
    (htof : minTof = -maxTof ∧ 0 ≤ maxTof) (hi : i < n) (p : VS) :
    p ∈ processed y 0 (y.V - 1) minSeg maxSeg minTof maxTof i n ↔
      (0 ≤ p.view ∧ p.view < y.V ∧ minSeg ≤ p.seg ∧ p.seg ≤ maxSeg ∧
        (findBasic y p).1.view % (n : Int) = i) := by
  have htof' : -minTof = maxTof := by omega
  unfold processed
  simp only [List.mem_flatMap, mem_basicVS npos hi htof']
  constructor
  · rintro ⟨b, ⟨h1, h2, h3, h4, h5, h6⟩, hp⟩
    obtain ⟨e, g1, g2, g3⟩ := findBasic_of_mem_related y wf b h6 ⟨h3, by omega⟩ p hp
    refine ⟨g1, g2, ?_, ?_, by rw [e]; exact h5⟩
    · rcases g3 with g | ⟨sw, g⟩
      · omega
      · have := hseg sw; omega
    · rcases g3 with g | ⟨sw, g⟩
      · omega
      · have := hseg sw; omega
  · rintro ⟨h1, h2, h3, h4, h5⟩
    obtain ⟨m1, m2, m3, m4⟩ := mem_related_of_findBasic y wf p ⟨h1, h2⟩
    obtain ⟨_, _, _, g3⟩ := findBasic_of_mem_related y wf _ m2 ⟨m3, m4⟩ p m1
    refine ⟨(findBasic y p).1, ⟨?_, ?_, m3, by omega, h5, m2⟩, m1⟩
    · rcases g3 with g | ⟨sw, g⟩
      · omega
      · have := hseg sw; omega
    · rcases g3 with g | ⟨sw, g⟩
      · omega
      · have := hseg sw; omega

theorem processed_nodup (y : Sym) (minSeg maxSeg minTof maxTof : Int) (n i : Nat)
    (wf : y.WF) (npos : 0 < n) (hseg : y.swapSeg = true → minSeg = -maxSeg)
    (htof : minTof = -maxTof ∧ 0 ≤ maxTof) (hi : i < n) :
    (processed y 0 (y.V - 1) minSeg maxSeg minTof maxTof i n).Nodup := by
  have htof' : -minTof = maxTof := by omega
  have _ := hseg
  unfold processed
  rw [List.nodup_flatMap]
  constructor
  · intro b hb
    obtain ⟨h1, h2, h3, h4, h5, h6⟩ := (mem_basicVS npos hi htof').1 hb
    exact (related_nodup y wf b h6 ⟨h3, by omega⟩).1
  · refine List.Pairwise.imp_of_mem ?_ (basicVS_nodup y 0 (y.V - 1) minSeg maxSeg minTof maxTof npos htof')
    intro a b ha hb hab
    show List.Disjoint _ _
    rw [List.disjoint_left]
    intro w hwa hwb
    obtain ⟨_, _, a3, a4, _, a6⟩ := (mem_basicVS npos hi htof').1 ha
    obtain ⟨_, _, b3, b4, _, b6⟩ := (mem_basicVS npos hi htof').1 hb
    have ea := (findBasic_of_mem_related y wf a a6 ⟨a3, by omega⟩ w hwa).1
    have eb := (findBasic_of_mem_related y wf b b6 ⟨b3, by omega⟩ w hwb).1
    exact hab (ea.symm.trans eb)

theorem subsets_partition (y : Sym) (minSeg maxSeg minTof maxTof : Int) (n : Nat)
    (wf : y.WF) (npos : 0 < n) (hseg : y.swapSeg = true → minSeg = -maxSeg)
    (htof : minTof = -maxTof ∧ 0 ≤ maxTof) (p : VS) :
    ((List.range n).flatMap fun i => processed y 0 (y.V - 1) minSeg maxSeg minTof maxTof i n).count p =
      if 0 ≤ p.view ∧ p.view < y.V ∧ minSeg ≤ p.seg ∧ p.seg ≤ maxSeg then 1 else 0 := by
  have hnd : ((List.range n).flatMap fun i =>
      processed y 0 (y.V - 1) minSeg maxSeg minTof maxTof i n).Nodup := by
    rw [List.nodup_flatMap]
    constructor
    · intro i hi
      exact processed_nodup y minSeg maxSeg minTof maxTof n i wf npos hseg htof (List.mem_range.1 hi)
    · refine List.Pairwise.imp_of_mem ?_ (List.nodup_range (n := n))
      intro i j hi hj hij
      show List.Disjoint _ _
      rw [List.disjoint_left]
      intro w hwi hwj
      have e1 := ((processed_mem_iff y minSeg maxSeg minTof maxTof n i wf npos hseg htof
        (List.mem_range.1 hi) w).1 hwi).2.2.2.2
      have e2 := ((processed_mem_iff y minSeg maxSeg minTof maxTof n j wf npos hseg htof
        (List.mem_range.1 hj) w).1 hwj).2.2.2.2
      exact hij (by omega)
  have hmem : p ∈ ((List.range n).flatMap fun i =>
      processed y 0 (y.V - 1) minSeg maxSeg minTof maxTof i n) ↔
      (0 ≤ p.view ∧ p.view < y.V ∧ minSeg ≤ p.seg ∧ p.seg ≤ maxSeg) := by
    rw [List.mem_flatMap]
    constructor
    · rintro ⟨i, hi, hp⟩
      obtain ⟨h1, h2, h3, h4, _⟩ := (processed_mem_iff y minSeg maxSeg minTof maxTof n i wf npos hseg htof
        (List.mem_range.1 hi) p).1 hp
      exact ⟨h1, h2, h3, h4⟩
    · rintro ⟨h1, h2, h3, h4⟩
      have hn : (0 : Int) < n := by omega
      have e0 := Int.emod_nonneg (findBasic y p).1.view (show (n : Int) ≠ 0 by omega)
      have e1 := Int.emod_lt_of_pos (findBasic y p).1.view hn
      have hi : ((findBasic y p).1.view % (n : Int)).toNat < n := by omega
      refine ⟨_, List.mem_range.2 hi, ?_⟩
      rw [processed_mem_iff y minSeg maxSeg minTof maxTof n _ wf npos hseg htof hi p]
      exact ⟨h1, h2, h3, h4, by omega⟩
  rw [List.Nodup.count hnd]
  by_cases hc : (0 ≤ p.view ∧ p.view < y.V ∧ minSeg ≤ p.seg ∧ p.seg ≤ maxSeg)
  · rw [if_pos hc, if_pos (hmem.2 hc)]
  · rw [if_neg hc, if_neg (fun h => hc (hmem.1 h))]

namespace Subsets

theorem count_flatMap_const {α β : Type} [BEq β] (T : List α) (r : List β) (b : β) :
    (T.flatMap fun _ => r).count b = T.length * r.count b := by
  induction T with
  | nil => simp
  | cons t T ih => simp [List.flatMap_cons, List.count_append, ih, Nat.add_mul, Nat.add_comm]

theorem count_flatMap_flatMap_const {α β γ : Type} [BEq γ] (L : List α) (T : List β)
    (r : α → List γ) (b : γ) :
    (L.flatMap fun s => T.flatMap fun _ => r s).count b =
      T.length * (L.flatMap fun s => r s).count b := by
  induction L with
  | nil => simp
  | cons s L ih =>
    simp only [List.flatMap_cons, List.count_append, ih, count_flatMap_const, Nat.mul_add]

end Subsets

theorem tof_loop_multiplicity (y : Sym) (minV maxV minSeg maxSeg minTof maxTof : Int) (i n : Nat) (b : VS) :
    (basicVSInSubset y minV maxV minSeg maxSeg minTof maxTof i n).count b =
      (maxTof + minTof + 1).toNat * (basicVSInSubset y minV maxV minSeg maxSeg 0 0 i n).count b := by
  rw [basicVSInSubset_tof_single y minV maxV minSeg maxSeg 0 0 i n (by omega),
    basicVSInSubset_eq, count_flatMap_flatMap_const, intRange_length]
  congr 2
  omega

theorem Subsets.numVSInSubset_eq_length (y : Sym) (maxSeg : Int) (n i : Nat) (h : y.WF) (hn : 0 < n) (hi : i < n) :
    numVSInSubset y 0 (y.V - 1) maxSeg i n =
      (processed y 0 (y.V - 1) (-maxSeg) maxSeg 0 0 i n).length := by
  have htof' : -(0 : Int) = 0 := by omega
  unfold processed
  rw [List.length_flatMap]
  have hcongr : ∀ b ∈ basicVSInSubset y 0 (y.V - 1) (-maxSeg) maxSeg 0 0 i n,
      (related y b).length = numRelated y b := by
    intro b hb
    obtain ⟨_, _, h3, h4, _, h6⟩ := (mem_basicVS hn hi htof').1 hb
    exact (related_nodup y h b h6 ⟨h3, by omega⟩).2.symm
  rw [List.map_congr_left hcongr, basicVSInSubset_tof_single _ _ _ _ _ _ _ _ _ htof', List.map_flatMap]
  unfold numVSInSubset basicRow
  simp only [List.map_map]
  rfl

theorem balanced_iff (y : Sym) (maxSeg : Int) (n : Nat) (h : y.WF) (hn : 0 < n) :
    balanced y 0 (y.V - 1) maxSeg n = true ↔
      ∀ i, i < n → (processed y 0 (y.V - 1) (-maxSeg) maxSeg 0 0 i n).length =
                   (processed y 0 (y.V - 1) (-maxSeg) maxSeg 0 0 0 n).length := by
  unfold balanced
  rw [List.all_eq_true]
  constructor
  · intro H i hi
    have := H i (List.mem_range.2 hi)
    rw [beq_iff_eq, numVSInSubset_eq_length y maxSeg n i h hn hi,
      numVSInSubset_eq_length y maxSeg n 0 h hn hn] at this
    exact this
  · intro H i hi
    have hi' := List.mem_range.1 hi
    rw [beq_iff_eq, numVSInSubset_eq_length y maxSeg n i h hn hi',
      numVSInSubset_eq_length y maxSeg n 0 h hn hn]
    exact H i hi'

end StirVerif.C06
