/-
C16 — executable model of the single-scatter simulation
(`stir::ScatterSimulation`, `stir::SingleScatterSimulation`).

Three parts, each a transcription of code that exists in /repo/src:

 (i)   *Formula*: `simulate_for_one_scatter_point`, `actual_scatter_estimate`,
       `detection_efficiency_no_scatter`, `integral_between_2_points` — the arithmetic structure
       (which factor multiplies which) over any type with `+ * /`, with the physics
       (line integrals, Compton cross sections, detection efficiencies, cosines, `pow`) as
       *inputs*.
 (ii)  *Sentinel cache*: `cached_integral_over_activity_image_between_scattpoint_det` /
       `cached_exp_integral_over_attenuation_image_between_scattpoint_det`
       (`value != cache_init_value ⇒ reuse`).
 (iii) *Set-up / cache state machine*: every public setter of `ScatterSimulation` (by object, by file name, and the
       parsed keyword `use cache`), `set_up`, `process_data`, over abstract value identities (image number 3,
       template number 1, …).
       Derived members carry the identities of the inputs they were computed from (a *stamp*),
       so that "the result equals the result of a freshly configured simulation" is the
       statement that every stamp that is read is the current one.
       The same information, row by row, is the *setter table* `setterTable`.

Scanner geometry: the formula takes the incidence cosine of EACH detector of a pair as a separate input
(`detectionEfficiencyNoScatter … cosA cosB`, `PD.cosInc`), so it is the formula of cylindrical and of
BlocksOnCylindrical scanners alike (on a cylinder the two cosines of a pair happen to coincide); the state
machine knows which templates are BlocksOnCylindrical (`World.blocksBase`) because `downsample_scanner`
chooses its default number of detectors differently there.
Pointers: images are identified by their VALUES. "The owner overwrites the voxels of an image in place and
hands the same `shared_ptr` to the setter again" is the event `setActivityInPlace` / `setDensityInPlace` /
`setSpImageInPlace`: the value behind the pointer the object already holds changes (no STIR code runs), then the
setter runs; the C++ setters do not compare the new pointer with the old one, so neither do these.

What is not modelled: the values of line integrals / cross sections (inputs of (i); coverage round 4: the detection
efficiency and the solid-angle factor of the activity integral ARE transcribed, section (i-b)),
`set_output_proj_data*` (the harness always provides a matching output, through one of the three public ways),
the VALUES of the default (negative) zoom factors of `downsample_density_image_for_scatter_points` (coverage round 4: the
state machine has the members the call stores — `autoZ`: which of `zoom_xy`, `zoom_z`, `zoom_size_xy`, `zoom_size_z` stop
being -1 — and the factors computed for an (attenuation image, template) pair as a class `World.autoClass`),
`downsample_images_to_scanner_size` (table row only; oracle-only in the
harness), the *positions* drawn by random placement of scatter points (the flag `randomly_place_scatter_points` is a
setting of the state machine and part of the stamp of the scatter points: points sampled with the flag off are not
the points a fresh object with the flag on would sample), the other parsed keywords (the parsing constructor is
compared with the setter route by an oracle in the harness), 32-bit overflow.
Setters by file name (`set_activity_image`, `set_density_image`, `set_density_image_for_scatter_points`:
ScatterSimulation.cxx:442,462,506) read the file and call the `_sptr` setter: they are the operations
`setActivity` / `setDensity` / `setSpImage`; `set_exam_info_sptr` (:764) has the body of `set_exam_info` (:757): both
are `setExam`; the parsed keyword `use cache` (:274) writes the member like `set_cache_enabled` (:993): both are
`setCacheEnabled`.

Core Lean only (no Mathlib): this file is linked into the `stirdriver` executable.
-/
namespace StirVerif.C16

/-! ## (i) The formula -/

/-- what `simulate_for_one_scatter_point` reads for one (scatter point, detector) -/
structure PD (K : Type) where
  /-- `cached_integral_over_activity_image_between_scattpoint_det(sp, det)` -/
  emis : K
  /-- `cached_exp_integral_over_attenuation_image_between_scattpoint_det(sp, det)` -/
  att : K
  /-- `pow(att, total_Compton_cross_section_relative_to_511keV(new_energy) - 1)` -/
  attPow : K
  /-- `norm_squared(scatter_point - detector_coord)` -/
  r2 : K
  /-- `cos_angle(scatter_point - detector_coord, det_to_ring_center)` -/
  cosInc : K
  deriving Repr

/-- what `simulate_for_one_scatter_point` reads for one (scatter point, detector pair); every one
    of these is computed in the C++ from an expression that does not distinguish A from B -/
structure PC (K : Type) where
  /-- `max_single_scatter_cos_angle` -/
  maxCos : K
  /-- `costheta = -cos_angle(detA - sp, detB - sp)` -/
  cosTheta : K
  /-- `detection_efficiency(new_energy)` -/
  effScatter : K
  /-- `dif_Compton_cross_section(costheta, 511)` -/
  dsigma : K
  /-- `scatt_points_vector[sp].mu_value` -/
  mu : K
  deriving Repr

/-- the same (scatter point, detector) with another activity integral (another activity image) -/
def PD.withEmis {K : Type} (a : PD K) (e : K) : PD K := { a with emis := e }

section Formula
variable {K : Type} [Add K] [Mul K] [Div K] [OfNat K 0] [OfNat K 1] [OfNat K 2] [OfNat K 3] [OfNat K 4]
  [LT K] [DecidableEq K] [DecidableLT K]

/-- the arithmetic at the end of `SingleScatterSimulation::simulate_for_one_scatter_point`
    (scatter_estimate_for_one_scatter_point.cxx:93-105), parenthesised as C++ parses it -/
def scatterRatioFormula (c : PC K) (a b : PD K) : K :=
  (a.emis * (1 / b.r2) * b.attPow + b.emis * (1 / a.r2) * a.attPow) * b.att * a.att * c.mu * c.effScatter
    * a.cosInc * b.cosInc * c.dsigma

/-- `SingleScatterSimulation::simulate_for_one_scatter_point`
    (scatter_estimate_for_one_scatter_point.cxx:39), including its three early `return 0`s -/
def simulateForOneScatterPoint (c : PC K) (a b : PD K) : K :=
  if c.cosTheta < c.maxCos then 0            -- `if (max_single_scatter_cos_angle > costheta) return 0;`
  else if c.effScatter = 0 then 0            -- `if (detection_efficiency_scatter == 0) return 0;`
  else if a.emis = 0 ∧ b.emis = 0 then 0     -- `if (emiss_to_detA == 0 && emiss_to_detB == 0) return 0;`
  else scatterRatioFormula c a b

/-- `ScatterSimulation::detection_efficiency_no_scatter(det_num_A, det_num_B)`
    (scatter_detection_modelling.cxx:155): `1. / (0.75 / 2. / _PI * rAB_squared / eff / (cosA * cosB))` -/
def detectionEfficiencyNoScatter (rAB2 eff511 cosA cosB pi : K) : K :=
  1 / ((3 : K) / 4 / 2 / pi * rAB2 / eff511 / (cosA * cosB))

/-- the sum over scatter points in `actual_scatter_estimate` (single_scatter_estimate.cxx:45) -/
def sumOverScatterPoints (pts : List (PC K × PD K × PD K)) : K :=
  pts.foldl (fun acc p => acc + simulateForOneScatterPoint p.1 p.2.1 p.2.2) 0

/-- `SingleScatterSimulation::actual_scatter_estimate` (single_scatter_estimate.cxx:39):
    `sum * (1 / detection_efficiency_no_scatter(A,B) * scatter_volume / total_Compton_cross_section_511keV)` -/
def actualScatterEstimate (pts : List (PC K × PD K × PD K)) (effNoScatterAB scatterVolume sigma511 : K) : K :=
  sumOverScatterPoints pts * (1 / effNoScatterAB * scatterVolume / sigma511)

/-- exchange of the two detectors -/
def swapPts (pts : List (PC K × PD K × PD K)) : List (PC K × PD K × PD K) :=
  pts.map fun p => (p.1, p.2.2, p.2.1)

/-- the list of per-scatter-point ingredients for one detector pair, with the activity integrals `eA i`, `eB i`
    of some activity image put in -/
def ptsOf {ι : Type} (l : List ι) (c : ι → PC K) (a b : ι → PD K) (eA eB : ι → K) : List (PC K × PD K × PD K) :=
  l.map fun i => (c i, (a i).withEmis (eA i), (b i).withEmis (eB i))

/-- the summation loop of `ScatterSimulation::integral_between_2_points` (single_scatter_integrals.cxx:91):
    `lor` is the sorted output of `RayTraceVoxelsOnCartesianGrid` (voxel, intersection length),
    `inImage` the index-range test, `image` the voxel values -/
def integralBetween2Points {V : Type} (image : V → K) (inImage : V → Bool) (lor : List (V × K)) : K :=
  lor.foldl (fun sum e => if inImage e.1 then sum + image e.1 * e.2 else sum) 0

/-- `integral_over_activity_image_between_scattpoint_det`: `solid_angle_factor * integral_between_2_points(activity)` -/
def integralOverActivity {V : Type} (solidAngleFactor : K) (image : V → K) (inImage : V → Bool) (lor : List (V × K)) : K :=
  solidAngleFactor * integralBetween2Points image inImage lor

end Formula

/-! ### (i-b) detection efficiency and the capped solid-angle factor (coverage round 4)

`detection_efficiency` is no longer an input of the formula only: it is transcribed, over any type with `+ - * /`, with
the two transcendental functions it calls (`erf`, `sqrt`) as parameters, so that its sign / bound are theorems for
EVERY energy window (also windows that do not contain 511 keV) under the hypotheses "erf is monotone / bounded by 1";
the driver instantiates the parameters with `erfFloat` / `Float.sqrt` (binary64). -/

section Detection
variable {K : Type} [Add K] [Sub K] [Mul K] [Div K] [OfNat K 0] [OfNat K 1] [OfNat K 2] [LT K] [DecidableLT K]

/-- `sigma_times_sqrt2` of `ScatterSimulation::detection_efficiency` (scatter_detection_modelling.cxx:124):
    `sqrt(2. * energy * reference_energy) * energy_resolution / 2.35482f` -/
def sigmaTimesSqrt2 (sqrt : K → K) (energy eRef res fwhmToSigma : K) : K :=
  sqrt (2 * energy * eRef) * res / fwhmToSigma

/-- `ScatterSimulation::detection_efficiency(energy)` (scatter_detection_modelling.cxx:104,130):
    `0.5f * (erf((high - energy) / sigma_times_sqrt2) - erf((low - energy) / sigma_times_sqrt2))` -/
def detectionEfficiency (erf : K → K) (sigma lo hi energy : K) : K :=
  1 / 2 * (erf ((hi - energy) / sigma) - erf ((lo - energy) / sigma))

/-- the value `detection_efficiency_no_scatter` stores in `detector_efficiency_no_scatter`
    (scatter_detection_modelling.cxx:163-168): `detection_efficiency(511) > 0 ? detection_efficiency(511) : 1` -/
def detEff511OrOne (eff511 : K) : K := if 0 < eff511 then eff511 else 1

/-- `std::min(static_cast<float>(_PI / 2), 1.F / dist_sp1_det_squared)` in
    `integral_over_activity_image_between_scattpoint_det` (single_scatter_integrals.cxx:56);
    `std::min(a, b)` is `(b < a) ? b : a` -/
def solidAngleFactor (halfPi r2 : K) : K := if 1 / r2 < halfPi then 1 / r2 else halfPi

/-- `ScatterSimulation::integral_over_activity_image_between_scattpoint_det` (single_scatter_integrals.cxx:48):
    the capped solid-angle factor — a function of the GEOMETRY only — times the line integral -/
def integralOverActivityScattDet {V : Type} (halfPi r2 : K) (image : V → K) (inImage : V → Bool) (lor : List (V × K)) : K :=
  integralOverActivity (solidAngleFactor halfPi r2) image inImage lor

/-- what the cap must NOT be applied to: `min(pi/2, integral / r²)` (the cap then limits a quantity proportional to the
    activity; used for the negative example in `Props.lean` only) -/
def integralOverActivityFoldedCap {V : Type} (halfPi r2 : K) (image : V → K) (inImage : V → Bool) (lor : List (V × K)) : K :=
  let q := integralBetween2Points image inImage lor / r2
  if q < halfPi then q else halfPi

end Detection

/-! binary64 instances of the two transcendental parameters -/

/-- `Σ_{n ≥ 0} 2ⁿ x^{2n+1} / (2n+1)!!` (all terms positive for `x ≥ 0`: no cancellation);
    `erf x = 2/√π · exp(-x²) · series x` -/
def erfSeriesAux (x2 : Float) : Nat → Float → Float → Float → Float
  | 0, _, _, sum => sum
  | fuel + 1, n, term, sum =>
    let term' := term * 2 * x2 / (2 * n + 3)
    let sum' := sum + term'
    if term' < 1e-19 * sum' then sum' else erfSeriesAux x2 fuel (n + 1) term' sum'

/-- continued fraction `x + (1/2)/(x + 1/(x + (3/2)/(x + …)))` evaluated from depth `k` upwards -/
def erfcContFracAux (x : Float) : Nat → Float → Float
  | 0, acc => acc
  | k + 1, acc => erfcContFracAux x k (x + (Float.ofNat (k + 1)) / 2 / acc)

def sqrtPiFloat : Float := Float.sqrt 3.14159265358979323846

/-- `erfc x` for `x ≥ 0`: `1 - erf` from the series below 1.5, the continued fraction above (relative accuracy
    ~1e-14 in the tail, so that `1 - erfc` has absolute accuracy ~1e-16 where STIR's `erf` returns `1 - z`) -/
def erfcFloatPos (x : Float) : Float :=
  if x < 1.5 then 1 - 2 / sqrtPiFloat * Float.exp (-(x * x)) * erfSeriesAux (x * x) 200 0 x x
  else if x > 27 then 0
  else Float.exp (-(x * x)) / (sqrtPiFloat * erfcContFracAux x 300 x)

/-- the error function in binary64 (the mathematical function, NOT a transcription of stir/numerics/erf.inl: the
    implementation's rational approximations are compared with it) -/
def erfFloat (x : Float) : Float :=
  let ax := x.abs
  let v := if ax < 1.5 then 2 / sqrtPiFloat * Float.exp (-(ax * ax)) * erfSeriesAux (ax * ax) 200 0 ax ax
           else 1 - erfcFloatPos ax
  if x < 0 then -v else v

/-- `(2/√π)·|t|·exp(-t²)`: the sensitivity of `erf t` to a RELATIVE perturbation of `t` (for the derived tolerance) -/
def erfSensitivity (t : Float) : Float := 2 / sqrtPiFloat * t.abs * Float.exp (-(t * t))

/-! ## (ii) The sentinel cache -/

section Cache
variable {K : Type} [DecidableEq K]

/-- `Array<2,float> cached_*_integral_scattpoint_det` as a function of (scatter point, detector) -/
abbrev CacheArr (K : Type) := Nat → Nat → K

def CacheArr.set (c : CacheArr K) (i j : Nat) (v : K) : CacheArr K :=
  fun i' j' => if i' = i ∧ j' = j then v else c i' j'

/-- `cached_integral_over_activity_image_between_scattpoint_det` /
    `cached_exp_integral_over_attenuation_image_between_scattpoint_det`
    (cached_single_scatter_integrals.cxx:73,124): returns the value and the cache afterwards.
    `direct i j` is the uncached integral. -/
def cachedLookup (useCache : Bool) (sentinel : K) (direct : Nat → Nat → K) (c : CacheArr K) (i j : Nat) :
    K × CacheArr K :=
  if useCache ∧ c i j ≠ sentinel then (c i j, c)
  else (direct i j, if useCache then c.set i j (direct i j) else c)

/-- any sequence of look-ups, threading the cache; returns the values read -/
def cachedLookups (useCache : Bool) (sentinel : K) (direct : Nat → Nat → K) :
    CacheArr K → List (Nat × Nat) → List K × CacheArr K
  | c, [] => ([], c)
  | c, (i, j) :: rest =>
    let (v, c') := cachedLookup useCache sentinel direct c i j
    let (vs, c'') := cachedLookups useCache sentinel direct c' rest
    (v :: vs, c'')

/-- `initialise_cache_for_scattpoint_det_integrals_over_*`: `fill(cache_init_value)` -/
def CacheArr.fresh (sentinel : K) : CacheArr K := fun _ _ => sentinel

end Cache

/-! ## (iii) The set-up / cache state machine -/

/-- a template `ProjDataInfo` as far as the simulation looks at it: which physical scanner
    (`base`: radius, length, energy resolution) and the integers that size the output and the caches -/
structure Tmpl where
  base : Nat
  dets : Nat
  rings : Nat
  ntang : Nat
  nseg : Nat
  deriving DecidableEq, Repr, Inhabited

/-- `total_detectors = num_rings * num_detectors_per_ring` (ScatterSimulation.cxx:740) -/
def Tmpl.totalDetectors (t : Tmpl) : Nat := t.rings * t.dets

/-- where `density_image_for_scatter_points_sptr` came from -/
inductive SpProv where
  /-- `set_density_image_for_scatter_points_sptr(image s)` -/
  | given (s : Nat)
  /-- `downsample_density_image_for_scatter_points` of attenuation image `att` with zoom parameter set `zoom` -/
  | down (att : Nat) (zoom : Nat)
  /-- `downsample_density_image_for_scatter_points` of attenuation image `att` with the factors `zoom_xy`, `zoom_z`,
      `zoom_size_z` of class `cls` that the function computed from the defaults (-1) and `zoom_size_xy = -1`: the x/y size is
      derived from the attenuation image at every call (coverage round 4) -/
  | auto (att : Nat) (cls : Nat)
  deriving DecidableEq, Repr

/-- what `scatt_points_vector` was sampled from (`sample_scatter_points`) -/
structure ScattProv where
  sp : SpProv
  thr : Nat
  /-- `randomly_place_scatter_points` when the points were sampled -/
  rnd : Bool
  deriving DecidableEq, Repr

/-- what an entry of `cached_activity_integral_scattpoint_det` was computed from -/
structure ActStamp where
  act : Nat
  scatt : ScattProv
  tmpl : Tmpl
  deriving DecidableEq, Repr

/-- what an entry of `cached_attenuation_integral_scattpoint_det` was computed from -/
structure AttStamp where
  att : Nat
  scatt : ScattProv
  tmpl : Tmpl
  deriving DecidableEq, Repr

/-- what `max_single_scatter_cos_angle` / `detector_efficiency_no_scatter` were computed from
    (energy window of the exam info, energy resolution of the template's scanner) -/
structure EnergyStamp where
  exam : Nat
  tmpl : Tmpl
  deriving DecidableEq, Repr

/-- a cache array: its index range and the stamps of its non-sentinel entries (no duplicates) -/
structure Cache (σ : Type) where
  rows : Nat
  cols : Nat
  stamps : List σ
  deriving DecidableEq, Repr

/-- the part of the configuration the model cannot compute: given by `cfg` lines of the protocol -/
structure World where
  /-- template pool -/
  tmpl : Nat → Tmpl
  /-- number of voxels of the scatter-point image at or above the threshold -/
  nsp : ScattProv → Nat
  /-- `round(total_axial_length / 20 + 0.5)` clamped to ≥ 2 in `downsample_scanner` -/
  defaultDsRings : Tmpl → Nat
  /-- is the physical scanner `base` a BlocksOnCylindrical one (`get_scanner_geometry() != "Cylindrical"`)? -/
  blocksBase : Nat → Bool
  /-- `check_z_to_middle_consistent` of the attenuation / scatter-point images against this activity image -/
  zOk : Nat → Bool
  /-- the factors `downsample_density_image_for_scatter_points(-1, -1, -1, -1)` computes for attenuation image `att` under
      template `t` (`zoom_xy = att voxel size / voxel size of the template's default image`, `zoom_z`, `zoom_size_z`), as a
      class: two (image, template) pairs are in the same class iff the three stored numbers coincide -/
  autoClass : Nat → Tmpl → Nat

/-- `Succeeded::yes` / `error()` thrown / memory-unsafe access / outside the model -/
inductive Res where
  | ok | err | crash | unmodelled
  deriving DecidableEq, Repr

structure St where
  /-- `activity_image_sptr` -/
  act : Option Nat
  /-- `density_image_sptr` -/
  att : Option Nat
  /-- `proj_data_info_sptr` -/
  tmpl : Option Tmpl
  /-- `template_exam_info_sptr` -/
  exam : Option Nat
  /-- `attenuation_threshold` -/
  thr : Nat
  /-- `use_cache` -/
  useCache : Bool
  /-- `randomly_place_scatter_points` -/
  rnd : Bool
  /-- `zoom_xy, zoom_z, zoom_size_xy, zoom_size_z` (`none`: the defaults, all -1) -/
  zoom : Option Nat
  /-- what `downsample_density_image_for_scatter_points` stored in `zoom_xy`, `zoom_z`, `zoom_size_z` when it was called
      with the defaults (`zoom = none`): the class of the factors it computed and the z size
      `(tmpl_density.get_z_size() + 1) / 2` = number of rings; `zoom_size_xy` stays -1 (ScatterSimulation.cxx:538-562).
      `none`: still the defaults. Only read while `zoom = none`. -/
  autoZ : Option (Nat × Nat)
  /-- `downsample_scanner_bool`, `downsample_scanner_rings`, `downsample_scanner_dets` -/
  dsBool : Bool
  dsRings : Int
  dsDets : Int
  /-- `density_image_for_scatter_points_sptr` -/
  spImage : Option SpProv
  /-- `scatt_points_vector`, `scatter_volume` (`none`: the empty vector of a new object) -/
  scatt : Option ScattProv
  /-- `detection_points_vector`: the templates under which its entries were registered -/
  detPts : List Tmpl
  /-- `cached_activity_integral_scattpoint_det` (`none`: recycled, no storage) -/
  actCache : Option (Cache ActStamp)
  /-- `cached_attenuation_integral_scattpoint_det` -/
  attCache : Option (Cache AttStamp)
  /-- `detector_efficiency_no_scatter` (`none`: ≤ 0, "recompute") -/
  effNoScatter : Option EnergyStamp
  /-- `max_single_scatter_cos_angle` (`none`: ≤ 0, "recompute") -/
  maxCos : Option EnergyStamp
  /-- `_already_set_up` -/
  alreadySetUp : Bool
  /-- ghost (not a C++ member): the template the *user* supplied last (`set_template_proj_data_info`
      or an explicit `downsample_scanner` call), i.e. what a fresh object would be given -/
  gTmpl : Option Tmpl
  /-- ghost: the scatter-point image the user supplied, if it is still in effect -/
  gSp : Option Nat
  deriving DecidableEq, Repr

/-- `ScatterSimulation::set_defaults()` (ScatterSimulation.cxx:218) on a new object.
    `detector_efficiency_no_scatter` and `max_single_scatter_cos_angle` have no initialiser; they are
    assigned (-1) by `set_template_proj_data_info` / `set_up` before any use. Threshold 0 = 0.01; random placement on. -/
def init : St :=
  { act := none, att := none, tmpl := none, exam := none, thr := 0, useCache := true, rnd := true, zoom := none,
    autoZ := none, dsBool := false, dsRings := -1, dsDets := -1, spImage := none, scatt := none, detPts := [],
    actCache := none, attCache := none, effNoScatter := none, maxCos := none, alreadySetUp := false,
    gTmpl := none, gSp := none }

/-- `set_template_proj_data_info(const ProjDataInfo&)` (ScatterSimulation.cxx:725) without the ghost update -/
def setTemplateVal (t : Tmpl) (s : St) : St :=
  { s with alreadySetUp := false, tmpl := some t, detPts := [], effNoScatter := none,
           attCache := none, actCache := none }

/-- `set_template_proj_data_info` called by the user -/
def setTemplate (t : Tmpl) (s : St) : St :=
  { setTemplateVal t s with gTmpl := some t }

/-- `set_activity_image_sptr` (ScatterSimulation.cxx:431); `none` = null pointer ⇒ `error()` -/
def setActivity (k : Option Nat) (s : St) : St × Res :=
  match k with
  | none => (s, .err)
  | some a => ({ s with act := some a, actCache := none, alreadySetUp := false }, .ok)

/-- the owner of the activity image overwrites its voxel values in place. No STIR code runs: the object sees the
    new values through its `shared_ptr<const DiscretisedDensity<3,float>>` (nothing happens if it holds no image) -/
def mutateActivity (a : Nat) (s : St) : St := { s with act := s.act.map fun _ => a }

/-- in-place change of the activity image, then `set_activity_image_sptr(the same pointer)`
    (`ScatterEstimation::process_data` does this in every iteration). The setter (ScatterSimulation.cxx:431) assigns the
    pointer and removes the activity cache whether or not the pointer is the one it already holds. -/
def setActivityInPlace (a : Nat) (s : St) : St × Res := setActivity (some a) (mutateActivity a s)

/-- `set_density_image_sptr` (ScatterSimulation.cxx:450) -/
def setDensity (k : Option Nat) (s : St) : St × Res :=
  match k with
  | none => (s, .err)
  | some m => ({ s with att := some m, spImage := none, attCache := none, alreadySetUp := false, gSp := none }, .ok)

/-- the owner of the attenuation image overwrites its voxel values in place (no STIR code runs; a scatter-point image
    derived earlier is a separate object and keeps the old values) -/
def mutateDensity (m : Nat) (s : St) : St := { s with att := s.att.map fun _ => m }

/-- in-place change of the attenuation image, then `set_density_image_sptr(the same pointer)` -/
def setDensityInPlace (m : Nat) (s : St) : St × Res := setDensity (some m) (mutateDensity m s)

/-- `sample_scatter_points` (sample_scatter_points.cxx:42); with a null image the C++ dereferences null -/
def sampleScatterPoints (s : St) : St × Res :=
  match s.spImage with
  | none => (s, .crash)
  | some p => ({ s with scatt := some ⟨p, s.thr, s.rnd⟩, actCache := none, attCache := none }, .ok)

/-- `set_density_image_for_scatter_points_sptr` (ScatterSimulation.cxx:470) -/
def setSpImage (k : Option Nat) (s : St) : St × Res :=
  match k with
  | none => (s, .err)
  | some i =>
    let (s1, r) := sampleScatterPoints { s with spImage := some (.given i), gSp := some i }
    ({ s1 with attCache := none, alreadySetUp := false }, r)

/-- in-place change of a scatter-point image, then `set_density_image_for_scatter_points_sptr(the same pointer)`.
    The object holds a COPY of the image it was given (`new VoxelsOnCartesianGrid<float>(*arg)`, ScatterSimulation.cxx:474),
    so the in-place change itself is invisible to it; the setter copies and samples again. -/
def setSpImageInPlace (i : Nat) (s : St) : St × Res := setSpImage (some i) s

/-- `set_exam_info` / `set_exam_info_sptr` (ScatterSimulation.cxx:757,764) -/
def setExam (e : Nat) (s : St) : St :=
  { s with alreadySetUp := false, exam := some e }

/-- `set_template_proj_data_info(const std::string&)` (ScatterSimulation.cxx:714): reads the projection data,
    `set_exam_info(its exam info)`, then `set_template_proj_data_info(its ProjDataInfo)` -/
def setTemplateFile (e : Nat) (t : Tmpl) (s : St) : St :=
  setTemplate t (setExam e s)

/-- `set_image_downsample_factors` (ScatterSimulation.cxx:515) with non-negative zooms -/
def setZoom (z : Nat) (s : St) : St :=
  { s with zoom := some z, autoZ := none, alreadySetUp := false }

/-- `set_attenuation_threshold` (ScatterSimulation.cxx:976) -/
def setThr (t : Nat) (s : St) : St :=
  { s with thr := t, alreadySetUp := false }

/-- `set_randomly_place_scatter_points` (ScatterSimulation.cxx:986): the flag and `_already_set_up`; the scatter
    points are not sampled again -/
def setRndPlace (b : Bool) (s : St) : St :=
  { s with rnd := b, alreadySetUp := false }

/-- `set_cache_enabled` (ScatterSimulation.cxx:993), and the parsed keyword `use cache` (:274, the parser writes
    `use_cache` directly): the flag only — the cache arrays are neither removed nor allocated and
    `_already_set_up` is left alone. (What keeps this harmless: every setter removes "its" cache whether or not the
    cache is enabled — `remove_cache_for_integrals_over_*`, cached_single_scatter_integrals.cxx:33,39, have no
    `use_cache` test — so arrays that survive a period with the cache disabled only hold current values.) -/
def setCacheEnabled (b : Bool) (s : St) : St :=
  { s with useCache := b }

/-- `set_use_cache` (ScatterSimulation.cxx:71) -/
def setUseCache (b : Bool) (s : St) : St :=
  if b = s.useCache then s else { s with actCache := none, attCache := none, useCache := b }

/-- `set_downsample_scanner_bool` (ScatterSimulation.cxx:777) -/
def setDsBool (b : Bool) (s : St) : St :=
  if b ≠ s.dsBool then { s with alreadySetUp := false, dsBool := b } else s

/-- `set_num_downsample_scanner_rings` (ScatterSimulation.cxx:793) -/
def setDsRings (n : Int) (s : St) : St :=
  if n ≠ s.dsRings then { s with alreadySetUp := false, dsRings := n } else s

/-- `set_num_downsample_scanner_dets` (ScatterSimulation.cxx:809) -/
def setDsDets (n : Int) (s : St) : St :=
  if n ≠ s.dsDets then { s with alreadySetUp := false, dsDets := n } else s

/-- `ceil(num_tangential_poss * float(new_num_dets) / old_num_dets) + 1` (ScatterSimulation.cxx:900) -/
def approxNonArcCorrBins (ntang newDets oldDets : Nat) : Nat :=
  (ntang * newDets + oldDets - 1) / oldDets + 1

/-- the template that `downsample_scanner` builds (ScatterSimulation.cxx:853-856 / 899-902 and 911-926, the same in the
    cylindrical and the BlocksOnCylindrical branch):
    `ProjDataInfoCTI(new_scanner, span 1, delta_ring, new_num_dets/2 views, max_num_non_arccorrected_bins)` -/
def downsampledTmpl (t : Tmpl) (newRings newDets : Nat) : Tmpl :=
  let deltaRing := if t.nseg = 1 then 0 else newRings - 1
  { base := t.base, dets := newDets, rings := newRings,
    ntang := approxNonArcCorrBins t.ntang newDets t.dets, nseg := 2 * deltaRing + 1 }

/-- `new_num_rings` as `downsample_scanner` uses it (ScatterSimulation.cxx:821-835): the argument if positive, else the
    member `downsample_scanner_rings` if > 1, else derived from the axial length -/
def dsRingsUsed (W : World) (s : St) (t : Tmpl) (newRings : Int) : Nat :=
  if newRings ≤ 0 then (if s.dsRings > 1 then s.dsRings.toNat else W.defaultDsRings t) else newRings.toNat

/-- `new_num_dets` as `downsample_scanner` uses it: the argument if positive; else on a cylindrical scanner the member
    `downsample_scanner_dets` if > 0, else 64 (ScatterSimulation.cxx:892-898); on a BlocksOnCylindrical scanner the number
    of detectors per ring of the current scanner — the member is not consulted there (ScatterSimulation.cxx:844-847) -/
def dsDetsUsed (W : World) (s : St) (t : Tmpl) (newDets : Int) : Nat :=
  if newDets ≤ 0 then
    (if W.blocksBase t.base then t.dets else if s.dsDets > 0 then s.dsDets.toNat else 64)
  else newDets.toNat

/-- `downsample_scanner(new_num_rings, new_num_dets)` (ScatterSimulation.cxx:819), cylindrical and BlocksOnCylindrical
    scanners (both branches compute the number of tangential positions and the ring difference in the same way and end in
    `ProjDataInfoCTI` + `set_template_proj_data_info`; the blocks branch also re-spaces the crystals, which the sizes do
    not see) -/
def downsampleScannerCore (W : World) (newRings newDets : Int) (s : St) : St × Res :=
  match s.tmpl with
  | none => if newRings ≤ 0 ∧ ¬ (s.dsRings > 1) then (s, .err) else (s, .crash)
  | some t => (setTemplateVal (downsampledTmpl t (dsRingsUsed W s t newRings) (dsDetsUsed W s t newDets)) s, .ok)

/-- `downsample_scanner` called by the user: the new template is what the user wants from now on -/
def downsampleScanner (W : World) (newRings newDets : Int) (s : St) : St × Res :=
  let (s1, r) := downsampleScannerCore W newRings newDets s
  (if r = .ok then { s1 with gTmpl := s1.tmpl } else s1, r)

/-- `downsample_density_image_for_scatter_points(zoom_xy, zoom_z, zoom_size_xy, zoom_size_z)` with the
    members as arguments, as `set_up` calls it (ScatterSimulation.cxx:527).
    With a zoom parameter set (factors ≥ 0): `set_image_downsample_factors(...)` stores the same set again (the generated
    sets with sizes -1 are such that the "adjusted" `zoom_z` written back at :577 is the value given).
    With the defaults (coverage round 4): the factors are computed from the attenuation image and the template's default
    image (:538-558; `*proj_data_info_sptr` is dereferenced) and STORED by `set_image_downsample_factors(_zoom_xy, zoom_z,
    _size_xy, _size_z)` (:562) — `zoom_xy`, `zoom_z`, `zoom_size_z` are no longer -1 afterwards, `zoom_size_xy` still is, so
    that the next call (:564-566) takes the stored factors, the stored z size, and derives the x/y size from the image it is
    given then. -/
def downsampleSp (W : World) (s : St) : St × Res :=
  match s.att with
  | none => (s, .err)
  | some m =>
    match s.zoom with
    | some z =>
      -- `set_image_downsample_factors(...)` stores the same parameter set again, `_already_set_up = false`
      let (s1, r) := sampleScatterPoints { s with spImage := some (.down m z), alreadySetUp := false, gSp := none }
      ({ s1 with attCache := none, alreadySetUp := false }, r)
    | none =>
      match s.autoZ with
      | some (c, _) =>
        -- the stored factors are ≥ 0: no template needed, the same three numbers are stored again
        let (s1, r) := sampleScatterPoints { s with spImage := some (.auto m c), alreadySetUp := false, gSp := none }
        ({ s1 with attCache := none, alreadySetUp := false }, r)
      | none =>
        match s.tmpl with
        | none => (s, .crash)
        | some t =>
          let c := W.autoClass m t
          let (s1, r) := sampleScatterPoints
            { s with spImage := some (.auto m c), autoZ := some (c, t.rings), alreadySetUp := false, gSp := none }
          ({ s1 with attCache := none, alreadySetUp := false }, r)

/-- the members `zoom_size_xy`, `zoom_size_z` and "is `zoom_xy` still the default (-1)?" — `zoomSizes z` are the sizes of
    zoom parameter set `z` -/
def zoomMembers (zoomSizes : Nat → Int × Int) (s : St) : Int × Int × Bool :=
  match s.zoom with
  | some z => ((zoomSizes z).1, (zoomSizes z).2, false)
  | none =>
    match s.autoZ with
    | some (_, sz) => (-1, sz, false)
    | none => (-1, -1, true)

/-- number of scatter points (`scatt_points_vector.size()`, `get_num_scatter_points()`) -/
def nspOf (W : World) (s : St) : Nat :=
  match s.scatt with
  | none => 0
  | some p => W.nsp p

/-- `initialise_cache_for_scattpoint_det_integrals_over_*` (cached_single_scatter_integrals.cxx:42,58):
    "keep cache if correct size", otherwise resize and fill with the sentinel -/
def initialiseCache {σ : Type} (useCache : Bool) (rows cols : Nat) (c : Option (Cache σ)) : Option (Cache σ) :=
  if !useCache then c
  else match c with
    | some c => if c.rows = rows ∧ c.cols = cols then some c else some ⟨rows, cols, []⟩
    | none => some ⟨rows, cols, []⟩

/-- the end of `ScatterSimulation::set_up` (ScatterSimulation.cxx:400-403): both caches initialised,
    `_already_set_up = true` -/
def finishSetUp (W : World) (s : St) (t : Tmpl) : St :=
  { s with attCache := initialiseCache s.useCache (nspOf W s) t.totalDetectors s.attCache,
           actCache := initialiseCache s.useCache (nspOf W s) t.totalDetectors s.actCache,
           alreadySetUp := true }

/-- `SingleScatterSimulation::set_up` + `ScatterSimulation::set_up` (SingleScatterSimulation.cxx:70,
    ScatterSimulation.cxx:300). The state is returned also when `error()` is thrown half-way. -/
def setUp (W : World) (s0 : St) : St × Res :=
  let s := { s0 with maxCos := none }
  match s.tmpl, s.exam, s.act, s.att with
  | some _, some _, some a, some _ =>
    let (s, r) := if s.dsBool then (if s.alreadySetUp then (s, Res.err) else downsampleScannerCore W (-1) (-1) s)
                  else (s, Res.ok)
    if r ≠ .ok then (s, r) else
    let (s, r) := if s.spImage.isNone then (if s.alreadySetUp then (s, Res.err) else downsampleSp W s)
                  else (s, Res.ok)
    if r ≠ .ok then (s, r) else
    if !W.zOk a then (s, .err) else
    match s.tmpl with
    | none => (s, .crash)
    | some t => (finishSetUp W s t, .ok)
  | _, _, _, _ => (s, .err)

/-- where every quantity that enters the output of `process_data` came from -/
structure Out where
  /-- the bins of the output (`proj_data_info_sptr`) -/
  tmpl : Tmpl
  /-- `detection_points_vector` -/
  detPts : List Tmpl
  /-- `scatt_points_vector` -/
  scatt : Option ScattProv
  /-- activity integrals that are read: cached entries and entries computed now -/
  emis : List ActStamp
  /-- attenuation integrals that are read -/
  atten : List AttStamp
  /-- `max_single_scatter_cos_angle` (not read if there are no scatter points) -/
  maxCos : Option EnergyStamp
  /-- `detector_efficiency_no_scatter` -/
  eff : EnergyStamp
  deriving DecidableEq, Repr

def insertNew {σ : Type} [DecidableEq σ] (x : σ) (l : List σ) : List σ := if x ∈ l then l else l ++ [x]

/-- is the array indexable by `[0,rows) × [0,cols)`? -/
def cacheUsable {σ : Type} (rows cols : Nat) (c : Option (Cache σ)) : Bool :=
  match c with
  | some c => c.rows == rows && c.cols == cols
  | none => false

/-- `ScatterSimulation::process_data` (ScatterSimulation.cxx:82) for an output that matches the template:
    every bin → `scatter_estimate` → `actual_scatter_estimate` → `simulate_for_one_scatter_point` →
    cached integrals. -/
def process (W : World) (s : St) : St × Res × Option Out :=
  if !s.alreadySetUp then (s, .err, none) else
  match s.tmpl, s.exam, s.act, s.att with
  | some t, some e, some a, some m =>
    let n := nspOf W s
    let cur : EnergyStamp := ⟨e, t⟩
    let eff := s.effNoScatter.getD cur
    let detPts := insertNew t s.detPts
    match s.scatt with
    | none =>
      -- no scatter points: no integral is read, `max_single_scatter_cos_angle` is not touched
      let s' := { s with effNoScatter := some eff, detPts := detPts }
      (s', .ok, some { tmpl := t, detPts := detPts, scatt := none, emis := [], atten := [], maxCos := none, eff := eff })
    | some sc =>
      if n = 0 then
        let s' := { s with effNoScatter := some eff, detPts := detPts }
        (s', .ok, some { tmpl := t, detPts := detPts, scatt := some sc, emis := [], atten := [], maxCos := none, eff := eff })
      else
      let maxCos := s.maxCos.getD cur
      let curAct : ActStamp := ⟨a, sc, t⟩
      let curAtt : AttStamp := ⟨m, sc, t⟩
      if s.useCache then
        if !(cacheUsable n t.totalDetectors s.actCache && cacheUsable n t.totalDetectors s.attCache) then
          (s, .crash, none)
        else
          let actC := s.actCache.map fun c => { c with stamps := insertNew curAct c.stamps }
          let attC := s.attCache.map fun c => { c with stamps := insertNew curAtt c.stamps }
          let s' := { s with effNoScatter := some eff, maxCos := some maxCos, detPts := detPts, actCache := actC, attCache := attC }
          (s', .ok, some { tmpl := t, detPts := detPts, scatt := some sc,
                           emis := (actC.map (·.stamps)).getD [], atten := (attC.map (·.stamps)).getD [],
                           maxCos := some maxCos, eff := eff })
      else
        let s' := { s with effNoScatter := some eff, maxCos := some maxCos, detPts := detPts }
        (s', .ok, some { tmpl := t, detPts := detPts, scatt := some sc, emis := [curAct], atten := [curAtt],
                         maxCos := some maxCos, eff := eff })
  | _, _, _, _ => (s, .crash, none)

/-! ### operations and histories -/

inductive Op where
  | setTemplate (t : Tmpl)
  | setActivity (k : Option Nat)
  | setDensity (k : Option Nat)
  | setSpImage (k : Option Nat)
  | setActivityInPlace (a : Nat)
  | setDensityInPlace (m : Nat)
  | setSpImageInPlace (i : Nat)
  | setExam (e : Nat)
  | setZoom (z : Nat)
  | setThr (t : Nat)
  | setCacheEnabled (b : Bool)
  | setUseCache (b : Bool)
  | setRndPlace (b : Bool)
  | setTemplateFile (e : Nat) (t : Tmpl)
  | setDsBool (b : Bool)
  | setDsRings (n : Int)
  | setDsDets (n : Int)
  | downsampleScanner (r d : Int)
  | downsampleSp
  | setUp
  | process
  deriving DecidableEq, Repr

def step (W : World) (s : St) : Op → St × Res × Option Out
  | .setTemplate t => (setTemplate t s, .ok, none)
  | .setActivity k => let (s', r) := setActivity k s; (s', r, none)
  | .setDensity k => let (s', r) := setDensity k s; (s', r, none)
  | .setSpImage k => let (s', r) := setSpImage k s; (s', r, none)
  | .setActivityInPlace a => let (s', r) := setActivityInPlace a s; (s', r, none)
  | .setDensityInPlace m => let (s', r) := setDensityInPlace m s; (s', r, none)
  | .setSpImageInPlace i => let (s', r) := setSpImageInPlace i s; (s', r, none)
  | .setExam e => (setExam e s, .ok, none)
  | .setZoom z => (setZoom z s, .ok, none)
  | .setThr t => (setThr t s, .ok, none)
  | .setCacheEnabled b => (setCacheEnabled b s, .ok, none)
  | .setUseCache b => (setUseCache b s, .ok, none)
  | .setRndPlace b => (setRndPlace b s, .ok, none)
  | .setTemplateFile e t => (setTemplateFile e t s, .ok, none)
  | .setDsBool b => (setDsBool b s, .ok, none)
  | .setDsRings n => (setDsRings n s, .ok, none)
  | .setDsDets n => (setDsDets n s, .ok, none)
  | .downsampleScanner r d => let (s', r) := downsampleScanner W r d s; (s', r, none)
  | .downsampleSp => let (s', r) := downsampleSp W s; (s', r, none)
  | .setUp => let (s', r) := setUp W s; (s', r, none)
  | .process => process W s

/-- run a history from a state; a `crash` ends the object's life (`none`) -/
def run (W : World) : St → List Op → Option St
  | s, [] => some s
  | s, op :: rest =>
    match step W s op with
    | (_, .crash, _) => none
    | (s', _, _) => run W s' rest

/-- hypotheses of the partial history theorem, operation by operation: each clause excludes exactly
    one way in which the unchanged code is known to depart from "equals a freshly configured simulation"
    (see `Props.lean`: every clause has a negative witness) -/
def autoTmplOk (W : World) (s : St) (t : Tmpl) : Bool :=
  s.zoom.isSome || match s.autoZ, s.att with
    | some (c, _), some m => c == W.autoClass m t
    | _, _ => true

def autoAttOk (W : World) (s : St) (k : Option Nat) : Bool :=
  s.zoom.isSome || match s.autoZ, k, s.tmpl with
    | some (c, _), some m, some t => c == W.autoClass m t
    | _, _, _ => true

def opOk (W : World) (s : St) : Op → Bool
  -- the automatic zoom factors are frozen by the first call: a template / attenuation image for which other factors
  -- would be computed gets the old ones (coverage round 4; the template classes are the KNOWN findings
  -- `automatic-zoom-…`, an attenuation image of another x/y size and the same voxel size and planes is admitted)
  | .setTemplate t => autoTmplOk W s t
  | .setTemplateFile _ t => autoTmplOk W s t
  | .downsampleScanner _ _ => s.zoom.isSome || s.autoZ.isNone
  | .setDensity k => autoAttOk W s k
  | .setDensityInPlace m => autoAttOk W s (some m)
  -- `set_exam_info` does not reset `detector_efficiency_no_scatter`
  | .setExam e => s.effNoScatter.isNone || s.exam == some e
  -- `set_attenuation_threshold` does not resample the scatter points of an existing scatter-point image
  | .setThr t => s.spImage.isNone || s.thr == t
  -- `set_image_downsample_factors` does not rebuild an existing down-sampled scatter-point image
  | .setZoom z => match s.spImage with
    | some (.down _ _) => s.zoom == some z
    | some (.auto _ _) => false
    | _ => true
  -- enabling the cache after `set_up` ran without it: nothing allocates the arrays
  | .setCacheEnabled b => !(b && !s.useCache && s.alreadySetUp)
  | .setUseCache b => !(b && !s.useCache && s.alreadySetUp)
  -- `set_randomly_place_scatter_points` does not resample the scatter points of an existing scatter-point image
  | .setRndPlace b => s.spImage.isNone || s.rnd == b
  -- `downsample_scanner_bool`: every `set_up` down-samples the template again
  | .setDsBool b => !b
  | _ => true

/-- run a history, requiring `opOk` at every step; `none` if a guard is violated or the object crashed -/
def runGuarded (W : World) : St → List Op → Option St
  | s, [] => some s
  | s, op :: rest =>
    if !opOk W s op then none else
    match step W s op with
    | (_, .crash, _) => none
    | (s', _, _) => runGuarded W s' rest

/-- `set_cache_enabled(true)` / `set_use_cache(true)` (or the parsed keyword) -/
def isEnable : Op → Bool
  | .setCacheEnabled true => true
  | .setUseCache true => true
  | _ => false

def nextIsSetUp : List Op → Bool
  | .setUp :: _ => true
  | _ => false

/-- like `runGuarded`, with a weaker guard for enabling the cache: on an object that is set up it is admitted when the
    very next operation is `set_up` (which then allocates the arrays). This is the history
    "compute with the cache on; `set_cache_enabled(false)`; change an image; `set_up`; compute;
     `set_cache_enabled(true)`; `set_up`; compute". -/
def runGuarded2 (W : World) : St → List Op → Option St
  | s, [] => some s
  | s, op :: rest =>
    if !(opOk W s op || (isEnable op && nextIsSetUp rest)) then none else
    match step W s op with
    | (_, .crash, _) => none
    | (s', _, _) => runGuarded2 W s' rest

/-! ### the freshly configured simulation -/

/-- configure a new object with the current settings of `c`, in the order a careful user would
    (sampling parameters first, then template, exam info, images): what "freshly configured" means -/
def configure (c : St) : St :=
  let s := init
  let s := setRndPlace c.rnd s
  let s := setThr c.thr s
  let s := setUseCache c.useCache s
  let s := match c.gTmpl with | some t => setTemplate t s | none => s
  let s := match c.exam with | some e => setExam e s | none => s
  let s := match c.act with | some a => (setActivity (some a) s).1 | none => s
  let s := match c.att with | some m => (setDensity (some m) s).1 | none => s
  let s := match c.zoom with | some z => setZoom z s | none => s
  let s := match c.gSp with | some i => (setSpImage (some i) s).1 | none => s
  let s := setDsDets c.dsDets (setDsRings c.dsRings (setDsBool c.dsBool s))
  s

/-- `configure; set_up; process_data` on a new object -/
def freshOut (W : World) (c : St) : Res × Option Out :=
  let (s1, r) := setUp W (configure c)
  if r ≠ .ok then (r, none) else
  let (_, r2, o) := process W s1
  (r2, o)

/-! ### the setter table (extracted by reading ScatterSimulation.cxx) -/

/-- what the user can set -/
inductive Comp where
  | act | att | spGiven | tmpl | exam | thr | rndPlace | zoom | useCache | dsFlag | dsRings | dsDets
  deriving DecidableEq, Repr

/-- what the object derives and keeps -/
inductive Datum where
  | spImage | scatt | detPts | actCache | attCache | effNoScatter | maxCos
  deriving DecidableEq, Repr

/-- the settings a derived datum is computed from (for the caches: also `use_cache`, which decides whether
    `set_up` allocates them) -/
def deps : Datum → List Comp
  | .spImage => [.spGiven, .att, .zoom]
  | .scatt => [.spGiven, .att, .zoom, .thr, .rndPlace]
  | .detPts => [.tmpl]
  | .actCache => [.act, .tmpl, .useCache, .spGiven, .att, .zoom, .thr, .rndPlace]
  | .attCache => [.att, .tmpl, .useCache, .spGiven, .zoom, .thr, .rndPlace]
  | .effNoScatter => [.exam, .tmpl]
  | .maxCos => [.exam, .tmpl]

structure SetterRow where
  name : String
  /-- settings the setter assigns -/
  modifies : List Comp
  /-- derived data the setter body resets (`reset()`, `recycle()`, `clear()`, `= -1`),
      directly or through `sample_scatter_points` / `set_template_proj_data_info` -/
  clears : List Datum
  /-- derived data the setter body recomputes from the current settings -/
  recomputes : List Datum
  /-- assigns `_already_set_up = false` -/
  resetsSetUp : Bool
  deriving DecidableEq, Repr

/-- `SingleScatterSimulation::set_up` resets `max_single_scatter_cos_angle` unconditionally -/
def resetBySetUp : List Datum := [.maxCos]

/-- `ScatterSimulation::set_up`: if `density_image_for_scatter_points_sptr` is null it is rebuilt, the scatter
    points are resampled and both caches are removed — so clearing the guard invalidates these (deferred) -/
def guardedBy : Datum → List Datum
  | .scatt => [.spImage]
  | .actCache => [.spImage]
  | .attCache => [.spImage]
  | _ => []

/-- derived data that only `set_up` (re)builds: whoever clears one of them must force a `set_up` -/
def builtBySetUp : List Datum := [.spImage, .actCache, .attCache]

def setterTable : List SetterRow :=
  [ -- ScatterSimulation.cxx:725
    { name := "set_template_proj_data_info", modifies := [.tmpl],
      clears := [.detPts, .effNoScatter, .attCache, .actCache], recomputes := [], resetsSetUp := true },
    -- :714 (by file name: set_exam_info, then the setter above)
    { name := "set_template_proj_data_info(filename)", modifies := [.tmpl, .exam],
      clears := [.detPts, .effNoScatter, .attCache, .actCache], recomputes := [], resetsSetUp := true },
    -- :431 (and :442 set_activity_image(filename): reads the file, then this setter)
    { name := "set_activity_image_sptr", modifies := [.act], clears := [.actCache], recomputes := [], resetsSetUp := true },
    -- :450 (also forgets a user-supplied scatter-point image; :462 set_density_image(filename) ends here)
    { name := "set_density_image_sptr", modifies := [.att, .spGiven], clears := [.spImage, .attCache], recomputes := [],
      resetsSetUp := true },
    -- :470 (sample_scatter_points removes both caches; :506 set_density_image_for_scatter_points(filename) ends here)
    { name := "set_density_image_for_scatter_points_sptr", modifies := [.spGiven], clears := [.actCache, .attCache],
      recomputes := [.spImage, .scatt], resetsSetUp := true },
    -- :757 set_exam_info, :764 set_exam_info_sptr (same body)
    { name := "set_exam_info", modifies := [.exam], clears := [], recomputes := [], resetsSetUp := true },
    -- :515
    { name := "set_image_downsample_factors", modifies := [.zoom], clears := [], recomputes := [], resetsSetUp := true },
    -- :976
    { name := "set_attenuation_threshold", modifies := [.thr], clears := [], recomputes := [], resetsSetUp := true },
    -- :986
    { name := "set_randomly_place_scatter_points", modifies := [.rndPlace], clears := [], recomputes := [], resetsSetUp := true },
    -- :993
    { name := "set_cache_enabled", modifies := [.useCache], clears := [], recomputes := [], resetsSetUp := false },
    -- :274 (initialise_keymap: the parser writes the member)
    { name := "parsed keyword `use cache`", modifies := [.useCache], clears := [], recomputes := [], resetsSetUp := false },
    -- :71
    { name := "set_use_cache", modifies := [.useCache], clears := [.actCache, .attCache], recomputes := [], resetsSetUp := false },
    -- :777, :793, :809
    { name := "set_downsample_scanner_bool", modifies := [.dsFlag], clears := [], recomputes := [], resetsSetUp := true },
    { name := "set_num_downsample_scanner_rings", modifies := [.dsRings], clears := [], recomputes := [], resetsSetUp := true },
    { name := "set_num_downsample_scanner_dets", modifies := [.dsDets], clears := [], recomputes := [], resetsSetUp := true },
    -- :819 (ends in set_template_proj_data_info)
    { name := "downsample_scanner", modifies := [.tmpl], clears := [.detPts, .effNoScatter, .attCache, .actCache],
      recomputes := [], resetsSetUp := true },
    -- :527
    { name := "downsample_density_image_for_scatter_points", modifies := [.spGiven, .zoom], clears := [.actCache, .attCache],
      recomputes := [.spImage, .scatt], resetsSetUp := true },
    -- :936 (assigns the images directly, not through the setters)
    { name := "downsample_images_to_scanner_size", modifies := [.act, .att], clears := [.actCache, .attCache],
      recomputes := [], resetsSetUp := true } ]

def intersects (a b : List Comp) : Bool := a.any fun x => b.contains x

/-- is the stale datum `d` dealt with when setter `f` changes something it depends on? -/
def covered (f : SetterRow) (d : Datum) : Bool :=
  f.clears.contains d || f.recomputes.contains d
    || (f.resetsSetUp && resetBySetUp.contains d)
    || (f.resetsSetUp && (guardedBy d).any fun g => f.clears.contains g)

/-- `modifies f ∩ deps d ≠ ∅ → d` is invalidated (now, or by the `set_up` that `f` forces) -/
def invalidationOK (f : SetterRow) (d : Datum) : Bool :=
  !intersects f.modifies (deps d) || covered f d

/-- whoever clears something only `set_up` rebuilds forces a `set_up` -/
def setUpForcedOK (f : SetterRow) : Bool :=
  !(f.clears.any fun d => builtBySetUp.contains d) || f.resetsSetUp

def allData : List Datum := [.spImage, .scatt, .detPts, .actCache, .attCache, .effNoScatter, .maxCos]

/-- the (setter, datum) pairs for which invalidation is missing -/
def invalidationFailures (tab : List SetterRow) : List (String × Datum) :=
  (tab.map fun f => (allData.filter fun d => !invalidationOK f d).map fun d => (f.name, d)).flatten

def setUpForcedFailures (tab : List SetterRow) : List String :=
  (tab.filter fun f => !setUpForcedOK f).map (·.name)

/-- coverage round 4: with the DEFAULT (-1) zoom factors the scatter-point image (and the scatter points sampled from it) also
    depends on the TEMPLATE: `downsample_density_image_for_scatter_points` computes `zoom_xy`, `zoom_z` and `zoom_size_z` from the
    voxel size and the number of planes of the template's default image (ScatterSimulation.cxx:540-554) -/
def depsAuto : Datum → List Comp
  | .spImage => .tmpl :: deps .spImage
  | .scatt => .tmpl :: deps .scatt
  | d => deps d

def invalidationOKAuto (f : SetterRow) (d : Datum) : Bool :=
  !intersects f.modifies (depsAuto d) || covered f d

/-- the (setter, datum) pairs for which invalidation is missing only when the zoom factors are the defaults -/
def invalidationFailuresAutoOnly (tab : List SetterRow) : List (String × Datum) :=
  (tab.map fun f => (allData.filter fun d => invalidationOK f d && !invalidationOKAuto f d).map fun d => (f.name, d)).flatten

end StirVerif.C16
