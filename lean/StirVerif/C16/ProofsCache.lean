import StirVerif.C16.Model
/-! C16 — the sentinel cache is transparent (core Lean only). -/
namespace StirVerif.C16

set_option linter.unusedSectionVars false

variable {K : Type} [DecidableEq K]

/-- every entry of the cache is either the sentinel or the value the direct computation would give *now* -/
def Coherent (sentinel : K) (direct : Nat → Nat → K) (c : CacheArr K) : Prop :=
  ∀ i j, c i j = sentinel ∨ c i j = direct i j

theorem fresh_coherent (sentinel : K) (direct : Nat → Nat → K) : Coherent sentinel direct (CacheArr.fresh sentinel) :=
  fun _ _ => Or.inl rfl

theorem cachedLookup_value (useCache : Bool) (sentinel : K) (direct : Nat → Nat → K) (c : CacheArr K) (i j : Nat)
    (h : Coherent sentinel direct c) : (cachedLookup useCache sentinel direct c i j).1 = direct i j := by
  unfold cachedLookup
  split
  · next hc =>
    rcases h i j with h1 | h1
    · exact absurd h1 hc.2
    · exact h1
  · rfl

theorem cachedLookup_coherent (useCache : Bool) (sentinel : K) (direct : Nat → Nat → K) (c : CacheArr K) (i j : Nat)
    (h : Coherent sentinel direct c) : Coherent sentinel direct (cachedLookup useCache sentinel direct c i j).2 := by
  unfold cachedLookup
  split
  · exact h
  · cases useCache with
    | false => exact h
    | true =>
      intro i' j'
      simp only [CacheArr.set, if_true]
      split
      · next hij => right; rw [hij.1, hij.2]
      · exact h i' j'

/-- after a look-up with the cache enabled, the entry holds the value (so it is not computed again unless
    the value itself equals the sentinel) -/
theorem cachedLookup_stores (sentinel : K) (direct : Nat → Nat → K) (c : CacheArr K) (i j : Nat)
    (h : Coherent sentinel direct c) : (cachedLookup true sentinel direct c i j).2 i j = direct i j := by
  unfold cachedLookup
  split
  · next hc =>
    rcases h i j with h1 | h1
    · exact absurd h1 hc.2
    · exact h1
  · simp [CacheArr.set]

theorem cachedLookups_spec (useCache : Bool) (sentinel : K) (direct : Nat → Nat → K) (c : CacheArr K)
    (l : List (Nat × Nat)) (h : Coherent sentinel direct c) :
    (cachedLookups useCache sentinel direct c l).1 = l.map (fun p => direct p.1 p.2) ∧
      Coherent sentinel direct (cachedLookups useCache sentinel direct c l).2 := by
  induction l generalizing c with
  | nil => exact ⟨rfl, h⟩
  | cons p ps ih =>
    obtain ⟨i, j⟩ := p
    have hv := cachedLookup_value useCache sentinel direct c i j h
    have hc := cachedLookup_coherent useCache sentinel direct c i j h
    have := ih (cachedLookup useCache sentinel direct c i j).2 hc
    simp only [cachedLookups, List.map_cons]
    exact ⟨by rw [this.1, hv], this.2⟩

/-- why the caches have to be removed when an input changes: a cache that is coherent for the old integrals
    returns the old value for every entry that was filled with a non-sentinel value that differs from the new one -/
theorem stale_read (sentinel : K) (direct' : Nat → Nat → K) (c : CacheArr K) (i j : Nat)
    (hfilled : c i j ≠ sentinel) (hchanged : c i j ≠ direct' i j) :
    (cachedLookup true sentinel direct' c i j).1 ≠ direct' i j := by
  unfold cachedLookup
  simp [hfilled, hchanged]

end StirVerif.C16
