import StirVerif.C16.Model
/-! C16 — finite checks: the setter table, and concrete histories on which the unchanged code departs from
"equals a freshly configured simulation" (negative witnesses, replayed on the implementation by the harness). -/
namespace StirVerif.C16

/-- a small concrete world: template k has 12 detectors x 2 rings, 5 tangential positions, 3 segments;
    threshold 0 keeps 8 scatter points, any other threshold 4; template 3 is a BlocksOnCylindrical one -/
def W0 : World :=
  { tmpl := fun k => ⟨k, 12, 2, 5, 3⟩
    nsp := fun p => if p.thr = 0 then 8 else 4
    defaultDsRings := fun _ => 2
    blocksBase := fun k => k == 3
    zOk := fun _ => true
    autoClass := fun _ t => t.base }

/-- `set_thr 0; set_tmpl 0; set_exam 0; set_act 0; set_att 0; set_zoom 0; set_spimg 0` -/
def baseConfig : List Op :=
  [.setThr 0, .setTemplate (W0.tmpl 0), .setExam 0, .setActivity (some 0), .setDensity (some 0), .setZoom 0, .setSpImage (some 0)]

/-- after the history, `process` succeeds with a provenance that differs from a fresh object's -/
def staleAfter (W : World) (ops : List Op) : Bool :=
  match run W init ops with
  | none => false
  | some s =>
    match process W s with
    | (_, .ok, some o) => decide (freshOut W s ≠ (.ok, some o))
    | _ => false

/-- after the history, `process` succeeds and agrees with a fresh object -/
def freshAfter (W : World) (ops : List Op) : Bool :=
  match run W init ops with
  | none => false
  | some s =>
    match process W s with
    | (_, .ok, some o) => decide (freshOut W s = (.ok, some o))
    | _ => false

/-- after the history, `process` makes an invalid memory access -/
def crashAfter (W : World) (ops : List Op) : Bool :=
  match run W init ops with
  | none => false
  | some s => decide ((process W s).2.1 = .crash)

theorem staleAfter_spec (W : World) (ops : List Op) (h : staleAfter W ops = true) :
    ∃ s o, run W init ops = some s ∧ (process W s).2 = (.ok, some o) ∧ freshOut W s ≠ (.ok, some o) := by
  unfold staleAfter at h
  split at h
  · cases h
  · next s hr =>
    split at h
    · next s' o hp => exact ⟨s, o, hr, by rw [hp], of_decide_eq_true h⟩
    · cases h

def histExam : List Op := baseConfig ++ [.setUp, .process, .setExam 1, .setUp]
def histEnableCache : List Op := [.setUseCache false] ++ baseConfig ++ [.setUp, .process, .setUseCache true]
def histEnableCache' : List Op := [.setCacheEnabled false] ++ baseConfig ++ [.setUp, .process, .setCacheEnabled true]
def histDsFlag : List Op :=
  baseConfig ++ [.setDsBool true, .setDsRings 2, .setDsDets 10, .setUp, .process, .setActivity (some 1), .setUp]
def histThr : List Op := baseConfig ++ [.setThr 1, .setUp]
def histZoom : List Op :=
  [.setThr 0, .setTemplate (W0.tmpl 0), .setExam 0, .setActivity (some 0), .setDensity (some 0), .setZoom 0,
   .setUp, .process, .setZoom 1, .setUp]
/-- the history the design suspected: another scatter-point image with the same number of scatter points -/
def histSpImage : List Op := baseConfig ++ [.setUp, .process, .setSpImage (some 1), .setUp]

/-- in-place changes of the activity image (values 1, then 2), of the attenuation image and of the scatter-point image,
    each followed by the setter with the same pointer and `set_up`, on a BlocksOnCylindrical template that was down-sampled
    explicitly -/
def histInPlace : List Op :=
  [.setThr 0, .setTemplate (W0.tmpl 3), .downsampleScanner 2 (-1), .setExam 0, .setActivityInPlace 0, .setDensityInPlace 0, .setZoom 0,
   .setSpImageInPlace 0, .setUp, .process, .setActivityInPlace 1, .setUp, .process, .setActivityInPlace 2, .setDensityInPlace 1,
   .setSpImageInPlace 1, .setUp]

/-- the three-step history around the older switch: compute with the cache on; `set_cache_enabled(false)` and another
    activity AND attenuation image (the arrays are not cleared by the switch; the setters remove them although the cache is
    off); `set_up`, compute; `set_cache_enabled(true)`; `set_up` (allocates) -/
def histThreeStep : List Op :=
  baseConfig ++ [.setUp, .process, .setCacheEnabled false, .setActivity (some 1), .setDensityInPlace 1, .setSpImage (some 0), .setUp, .process,
    .setCacheEnabled true, .setUp]
/-- the same without `set_up` while the cache is off (this one also satisfies the stronger guard) -/
def histThreeStep' : List Op :=
  baseConfig ++ [.setUp, .process, .setCacheEnabled false, .setActivityInPlace 1, .setCacheEnabled true, .setUp]
/-- by file name, `set_randomly_place_scatter_points` before the scatter-point image exists -/
def histFile : List Op :=
  [.setRndPlace false] ++ baseConfig ++ [.setUp, .process, .setTemplateFile 1 (W0.tmpl 1), .setUp]
/-- `set_randomly_place_scatter_points` after the scatter points were sampled -/
def histRnd : List Op := [.setRndPlace false] ++ baseConfig ++ [.setUp, .process, .setRndPlace true, .setUp]

/-- coverage round 4 — the automatic (-1) zoom factors: `set_image_downsample_factors` is never called -/
def autoConfig : List Op :=
  [.setThr 0, .setTemplate (W0.tmpl 0), .setExam 0, .setActivity (some 0), .setDensity (some 0)]
/-- one object re-used with other attenuation images (in `W0` all attenuation images have the same voxel size and planes:
    the class of the automatic factors depends on the template only), scatter-point image derived by `set_up` and by an
    explicit `downsample_density_image_for_scatter_points` call -/
def histAutoAtt : List Op :=
  autoConfig ++ [.setUp, .process, .setDensity (some 3), .setUp, .process, .setDensityInPlace 1, .downsampleSp, .setActivity (some 1), .setUp]
/-- KNOWN `scatter-setup:automatic-zoom-scatter-point-image-kept-after-template-change` -/
def histAutoTmplKept : List Op := autoConfig ++ [.setUp, .process, .setTemplate (W0.tmpl 1), .setUp]
/-- KNOWN `scatter-setup:automatic-zoom-factors-frozen-by-first-set-up` -/
def histAutoFrozen : List Op :=
  autoConfig ++ [.setUp, .process, .setTemplate (W0.tmpl 1), .setDensity (some 0), .setUp]

theorem histAutoAtt_fresh : freshAfter W0 histAutoAtt = true := by decide
theorem histAutoAtt_guarded : (runGuarded W0 init histAutoAtt).isSome = true := by decide
theorem histAutoTmplKept_stale : staleAfter W0 histAutoTmplKept = true := by decide
theorem histAutoFrozen_stale : staleAfter W0 histAutoFrozen = true := by decide
theorem histAutoTmplKept_not_guarded : (runGuarded W0 init histAutoTmplKept).isSome = false := by decide

/-- NOT the code: `set_activity_image_sptr` as it would be if `remove_cache_for_integrals_over_activity` returned early
    when the cache is disabled (mirroring the `if (!use_cache) return;` of `initialise_cache_…`) -/
def setActivityLazyRemoval (a : Nat) (s : St) : St :=
  if s.useCache then (setActivity (some a) s).1 else { s with act := some a, alreadySetUp := false }

/-- … then the three-step history returns the estimate of the OLD activity image -/
def lazyRemovalStale : Bool :=
  match run W0 init (baseConfig ++ [.setUp, .process, .setCacheEnabled false]) with
  | none => false
  | some s1 =>
    match run W0 (setActivityLazyRemoval 1 s1) [.setUp, .process, .setCacheEnabled true, .setUp] with
    | none => false
    | some s =>
      match process W0 s with
      | (_, .ok, some o) => decide (freshOut W0 s ≠ (.ok, some o))
      | _ => false

theorem lazyRemoval_stale : lazyRemovalStale = true := by decide

theorem histThreeStep_fresh : freshAfter W0 histThreeStep = true := by decide
theorem histThreeStep_guarded2 : (runGuarded2 W0 init histThreeStep).isSome = true := by decide
theorem histThreeStep_not_guarded : (runGuarded W0 init histThreeStep).isSome = false := by decide
theorem histThreeStep'_fresh : freshAfter W0 histThreeStep' = true := by decide
theorem histThreeStep'_guarded : (runGuarded W0 init histThreeStep').isSome = true := by decide
theorem histFile_fresh : freshAfter W0 histFile = true := by decide
theorem histFile_guarded : (runGuarded W0 init histFile).isSome = true := by decide
theorem histRnd_stale : staleAfter W0 histRnd = true := by decide

theorem histInPlace_fresh : freshAfter W0 histInPlace = true := by decide
theorem histInPlace_guarded : (runGuarded W0 init histInPlace).isSome = true := by decide

theorem histExam_stale : staleAfter W0 histExam = true := by decide
theorem histEnableCache_crash : crashAfter W0 histEnableCache = true := by decide
theorem histEnableCache'_crash : crashAfter W0 histEnableCache' = true := by decide
theorem histDsFlag_stale : staleAfter W0 histDsFlag = true := by decide
theorem histThr_stale : staleAfter W0 histThr = true := by decide
theorem histZoom_stale : staleAfter W0 histZoom = true := by decide
theorem histSpImage_fresh : freshAfter W0 histSpImage = true := by decide
theorem histExam_first_fresh : freshAfter W0 (baseConfig ++ [.setUp]) = true := by decide

/-- exactly these (setter, derived datum) pairs lack an invalidation -/
theorem invalidationFailures_eq :
    invalidationFailures setterTable =
      [("set_exam_info", .effNoScatter),
       ("set_image_downsample_factors", .spImage), ("set_image_downsample_factors", .scatt),
       ("set_image_downsample_factors", .actCache), ("set_image_downsample_factors", .attCache),
       ("set_attenuation_threshold", .scatt), ("set_attenuation_threshold", .actCache), ("set_attenuation_threshold", .attCache),
       ("set_randomly_place_scatter_points", .scatt), ("set_randomly_place_scatter_points", .actCache),
       ("set_randomly_place_scatter_points", .attCache),
       ("set_cache_enabled", .actCache), ("set_cache_enabled", .attCache),
       ("parsed keyword `use cache`", .actCache), ("parsed keyword `use cache`", .attCache),
       ("downsample_images_to_scanner_size", .spImage), ("downsample_images_to_scanner_size", .scatt)] := by decide

theorem setUpForcedFailures_eq : setUpForcedFailures setterTable = ["set_use_cache"] := by decide

/-- with the default zoom factors the template setters (and `downsample_scanner`) additionally leave the scatter-point image
    and the scatter points derived for the OLD template in place -/
theorem invalidationFailuresAutoOnly_eq :
    invalidationFailuresAutoOnly setterTable =
      [("set_template_proj_data_info", .spImage), ("set_template_proj_data_info", .scatt),
       ("set_template_proj_data_info(filename)", .spImage), ("set_template_proj_data_info(filename)", .scatt),
       ("downsample_scanner", .spImage), ("downsample_scanner", .scatt)] := by decide

/-- the rows of the table that pass both checks -/
def goodRows : List String :=
  ["set_template_proj_data_info", "set_template_proj_data_info(filename)", "set_activity_image_sptr", "set_density_image_sptr",
   "set_density_image_for_scatter_points_sptr", "set_downsample_scanner_bool", "set_num_downsample_scanner_rings",
   "set_num_downsample_scanner_dets", "downsample_scanner", "downsample_density_image_for_scatter_points"]

theorem goodRows_complete :
    ∀ f ∈ setterTable, f.name ∈ goodRows → (∀ d ∈ allData, invalidationOK f d = true) ∧ setUpForcedOK f = true := by decide

theorem allData_complete : ∀ d : Datum, d ∈ allData := by intro d; cases d <;> decide

/-- `downsample_scanner` applied to its own result gives yet another template (one more tangential position) -/
theorem downsample_not_idempotent :
    downsampledTmpl (downsampledTmpl (W0.tmpl 0) 2 10) 2 10 ≠ downsampledTmpl (W0.tmpl 0) 2 10 := by decide

end StirVerif.C16
