import StirVerif.C16.ProofsFormula
/-! C16 — coverage round 4: the transcribed `detection_efficiency` (sign and bound for EVERY energy window, given that
`erf` is monotone / bounded by 1), the normalisation `detector_efficiency_no_scatter`, and the capped solid-angle factor
of the activity integral (a function of the geometry only, so the integral stays linear in the image). -/
namespace StirVerif.C16

set_option linter.unusedSectionVars false

variable {K : Type} [Field K] [LinearOrder K] [IsStrictOrderedRing K]

/-- the two arguments of `erf` are ordered like the two thresholds -/
theorem detEff_args_le (sigma lo hi energy : K) (hs : 0 < sigma) (hw : lo ≤ hi) :
    (lo - energy) / sigma ≤ (hi - energy) / sigma := by
  have h : lo - energy ≤ hi - energy := by linarith
  exact div_le_div_of_nonneg_right h hs.le

theorem detectionEfficiency_nonneg (erf : K → K) (herf : ∀ x y, x ≤ y → erf x ≤ erf y) (sigma lo hi energy : K)
    (hs : 0 < sigma) (hw : lo ≤ hi) : 0 ≤ detectionEfficiency erf sigma lo hi energy := by
  unfold detectionEfficiency
  have h := herf _ _ (detEff_args_le sigma lo hi energy hs hw)
  have h' : 0 ≤ erf ((hi - energy) / sigma) - erf ((lo - energy) / sigma) := by linarith
  positivity

theorem detectionEfficiency_le_one (erf : K → K) (hb : ∀ x, -1 ≤ erf x ∧ erf x ≤ 1) (sigma lo hi energy : K) :
    detectionEfficiency erf sigma lo hi energy ≤ 1 := by
  unfold detectionEfficiency
  have h1 := (hb ((hi - energy) / sigma)).2
  have h2 := (hb ((lo - energy) / sigma)).1
  linarith

/-- an inverted window (`hi < lo`) with a strictly increasing `erf` gives a NEGATIVE value: the hypothesis `lo ≤ hi` of
    `detectionEfficiency_nonneg` is needed, and exchanging the two `erf` terms is visible -/
theorem detectionEfficiency_neg_of_inverted (erf : K → K) (herf : ∀ x y, x < y → erf x < erf y) (sigma lo hi energy : K)
    (hs : 0 < sigma) (hw : hi < lo) : detectionEfficiency erf sigma lo hi energy < 0 := by
  unfold detectionEfficiency
  have h : (hi - energy) / sigma < (lo - energy) / sigma := by
    have : hi - energy < lo - energy := by linarith
    exact div_lt_div_of_pos_right this hs
  have := herf _ _ h
  linarith

theorem detEff511OrOne_pos (e : K) : 0 < detEff511OrOne e := by
  unfold detEff511OrOne
  split
  · assumption
  · exact one_pos

theorem detEff511OrOne_eq_of_pos (e : K) (h : 0 < e) : detEff511OrOne e = e := by
  unfold detEff511OrOne; simp [h]

theorem solidAngleFactor_nonneg (halfPi r2 : K) (h1 : 0 ≤ halfPi) (h2 : 0 ≤ r2) : 0 ≤ solidAngleFactor halfPi r2 := by
  unfold solidAngleFactor
  split
  · positivity
  · exact h1

theorem solidAngleFactor_le (halfPi r2 : K) : solidAngleFactor halfPi r2 ≤ halfPi := by
  unfold solidAngleFactor
  split
  · next h => exact h.le
  · exact le_refl _

theorem integralOverActivityScattDet_linear {V : Type} (halfPi r2 : K) (x y : V → K) (α β : K) (inImage : V → Bool)
    (lor : List (V × K)) :
    integralOverActivityScattDet halfPi r2 (fun v => α * x v + β * y v) inImage lor =
      α * integralOverActivityScattDet halfPi r2 x inImage lor + β * integralOverActivityScattDet halfPi r2 y inImage lor := by
  unfold integralOverActivityScattDet
  exact integralOverActivity_linear _ x y α β inImage lor

theorem integralOverActivityScattDet_nonneg {V : Type} (halfPi r2 : K) (x : V → K) (inImage : V → Bool) (lor : List (V × K))
    (h1 : 0 ≤ halfPi) (h2 : 0 ≤ r2) (hx : ∀ v, 0 ≤ x v) (hl : ∀ e ∈ lor, 0 ≤ e.2) :
    0 ≤ integralOverActivityScattDet halfPi r2 x inImage lor := by
  unfold integralOverActivityScattDet integralOverActivity
  have := solidAngleFactor_nonneg halfPi r2 h1 h2
  have := integral_nonneg x inImage lor hx hl
  positivity

end StirVerif.C16
