import StirVerif.C16.Model
import Mathlib.Algebra.Order.Field.Basic
import Mathlib.Tactic.Ring
import Mathlib.Tactic.Linarith
import Mathlib.Tactic.Positivity
/-! C16 — proofs about the formula part of the model (any linearly ordered field). -/
namespace StirVerif.C16

set_option linter.unusedSectionVars false

variable {K : Type} [Field K] [LinearOrder K] [IsStrictOrderedRing K]

/-! ### symmetry -/

theorem scatterRatioFormula_symm (c : PC K) (a b : PD K) :
    scatterRatioFormula c a b = scatterRatioFormula c b a := by
  unfold scatterRatioFormula; ring

theorem simulate_symm (c : PC K) (a b : PD K) :
    simulateForOneScatterPoint c a b = simulateForOneScatterPoint c b a := by
  unfold simulateForOneScatterPoint
  rw [scatterRatioFormula_symm c a b]
  simp only [and_comm]

/-- the early return on zero activity integrals does not change the value -/
theorem simulate_eq (c : PC K) (a b : PD K) :
    simulateForOneScatterPoint c a b =
      if c.cosTheta < c.maxCos ∨ c.effScatter = 0 then 0 else scatterRatioFormula c a b := by
  unfold simulateForOneScatterPoint
  by_cases h1 : c.cosTheta < c.maxCos
  · simp [h1]
  · by_cases h2 : c.effScatter = 0
    · simp [h1, h2]
    · by_cases h3 : a.emis = 0 ∧ b.emis = 0
      · simp only [h1, h2, h3, if_false, if_true, and_self, or_self]
        unfold scatterRatioFormula; rw [h3.1, h3.2]; ring
      · simp [h1, h2, h3]

theorem foldl_add_acc {α : Type} (f : α → K) (l : List α) (acc : K) :
    l.foldl (fun s p => s + f p) acc = acc + l.foldl (fun s p => s + f p) 0 := by
  induction l generalizing acc with
  | nil => simp
  | cons x xs ih => simp only [List.foldl_cons]; rw [ih (acc + f x), ih (0 + f x)]; ring

theorem sumOver_cons (p : PC K × PD K × PD K) (pts : List (PC K × PD K × PD K)) :
    sumOverScatterPoints (p :: pts) = simulateForOneScatterPoint p.1 p.2.1 p.2.2 + sumOverScatterPoints pts := by
  unfold sumOverScatterPoints
  simp only [List.foldl_cons]
  rw [foldl_add_acc (fun p : PC K × PD K × PD K => simulateForOneScatterPoint p.1 p.2.1 p.2.2)]
  ring

theorem sumOver_nil : sumOverScatterPoints ([] : List (PC K × PD K × PD K)) = 0 := rfl

theorem sumOver_swap (pts : List (PC K × PD K × PD K)) :
    sumOverScatterPoints (swapPts pts) = sumOverScatterPoints pts := by
  induction pts with
  | nil => rfl
  | cons p ps ih =>
    have : swapPts (p :: ps) = (p.1, p.2.2, p.2.1) :: swapPts ps := rfl
    rw [this, sumOver_cons, sumOver_cons, ih]
    simp only
    rw [simulate_symm]

theorem detEffNoScatter_symm (rAB2 eff511 cosA cosB pi : K) :
    detectionEfficiencyNoScatter rAB2 eff511 cosA cosB pi = detectionEfficiencyNoScatter rAB2 eff511 cosB cosA pi := by
  unfold detectionEfficiencyNoScatter; rw [mul_comm cosA cosB]

theorem estimate_symm (pts : List (PC K × PD K × PD K)) (rAB2 eff511 cosA cosB pi vol sigma : K) :
    actualScatterEstimate (swapPts pts) (detectionEfficiencyNoScatter rAB2 eff511 cosB cosA pi) vol sigma =
      actualScatterEstimate pts (detectionEfficiencyNoScatter rAB2 eff511 cosA cosB pi) vol sigma := by
  unfold actualScatterEstimate
  rw [sumOver_swap, detEffNoScatter_symm]

/-! ### linearity in the activity -/

theorem formula_linear (c : PC K) (a b : PD K) (α β e1A e1B e2A e2B : K) :
    scatterRatioFormula c (a.withEmis (α * e1A + β * e2A)) (b.withEmis (α * e1B + β * e2B)) =
      α * scatterRatioFormula c (a.withEmis e1A) (b.withEmis e1B) + β * scatterRatioFormula c (a.withEmis e2A) (b.withEmis e2B) := by
  unfold scatterRatioFormula PD.withEmis; ring

theorem simulate_linear (c : PC K) (a b : PD K) (α β e1A e1B e2A e2B : K) :
    simulateForOneScatterPoint c (a.withEmis (α * e1A + β * e2A)) (b.withEmis (α * e1B + β * e2B)) =
      α * simulateForOneScatterPoint c (a.withEmis e1A) (b.withEmis e1B)
        + β * simulateForOneScatterPoint c (a.withEmis e2A) (b.withEmis e2B) := by
  rw [simulate_eq, simulate_eq, simulate_eq]
  by_cases h : c.cosTheta < c.maxCos ∨ c.effScatter = 0
  · simp [h]
  · simp only [h, if_false]; exact formula_linear c a b α β e1A e1B e2A e2B

theorem sumOver_linear {ι : Type} (l : List ι) (c : ι → PC K) (a b : ι → PD K) (α β : K) (e1A e1B e2A e2B : ι → K) :
    sumOverScatterPoints (ptsOf l c a b (fun i => α * e1A i + β * e2A i) (fun i => α * e1B i + β * e2B i)) =
      α * sumOverScatterPoints (ptsOf l c a b e1A e1B) + β * sumOverScatterPoints (ptsOf l c a b e2A e2B) := by
  induction l with
  | nil => simp [ptsOf, sumOver_nil]
  | cons i is ih =>
    unfold ptsOf at ih ⊢
    simp only [List.map_cons, sumOver_cons]
    rw [ih, simulate_linear]; ring

theorem estimate_linear {ι : Type} (l : List ι) (c : ι → PC K) (a b : ι → PD K) (α β : K) (e1A e1B e2A e2B : ι → K)
    (effAB vol sigma : K) :
    actualScatterEstimate (ptsOf l c a b (fun i => α * e1A i + β * e2A i) (fun i => α * e1B i + β * e2B i)) effAB vol sigma =
      α * actualScatterEstimate (ptsOf l c a b e1A e1B) effAB vol sigma
        + β * actualScatterEstimate (ptsOf l c a b e2A e2B) effAB vol sigma := by
  unfold actualScatterEstimate
  rw [sumOver_linear]; ring

/-! ### zero activity -/

theorem simulate_zero (c : PC K) (a b : PD K) :
    simulateForOneScatterPoint c (a.withEmis 0) (b.withEmis 0) = 0 := by
  rw [simulate_eq]
  split
  · rfl
  · unfold scatterRatioFormula PD.withEmis; ring

theorem estimate_zero {ι : Type} (l : List ι) (c : ι → PC K) (a b : ι → PD K) (effAB vol sigma : K) :
    actualScatterEstimate (ptsOf l c a b (fun _ => 0) (fun _ => 0)) effAB vol sigma = 0 := by
  have h := estimate_linear l c a b (0 : K) 0 (fun _ => 0) (fun _ => 0) (fun _ => 0) (fun _ => 0) effAB vol sigma
  simp only [zero_mul, add_zero] at h
  exact h

/-! ### non-negativity -/

/-- every factor that enters is non-negative -/
structure PD.Nonneg (a : PD K) : Prop where
  emis : 0 ≤ a.emis
  att : 0 ≤ a.att
  attPow : 0 ≤ a.attPow
  r2 : 0 ≤ a.r2
  cosInc : 0 ≤ a.cosInc

structure PC.Nonneg (c : PC K) : Prop where
  effScatter : 0 ≤ c.effScatter
  dsigma : 0 ≤ c.dsigma
  mu : 0 ≤ c.mu

theorem formula_nonneg (c : PC K) (a b : PD K) (hc : c.Nonneg) (ha : a.Nonneg) (hb : b.Nonneg) :
    0 ≤ scatterRatioFormula c a b := by
  unfold scatterRatioFormula
  have h1 : 0 ≤ 1 / b.r2 := by have := hb.r2; positivity
  have h2 : 0 ≤ 1 / a.r2 := by have := ha.r2; positivity
  have := ha.emis; have := ha.att; have := ha.attPow; have := ha.cosInc
  have := hb.emis; have := hb.att; have := hb.attPow; have := hb.cosInc
  have := hc.effScatter; have := hc.dsigma; have := hc.mu
  positivity

theorem simulate_nonneg (c : PC K) (a b : PD K) (hc : c.Nonneg) (ha : a.Nonneg) (hb : b.Nonneg) :
    0 ≤ simulateForOneScatterPoint c a b := by
  rw [simulate_eq]
  split
  · exact le_refl 0
  · exact formula_nonneg c a b hc ha hb

theorem sumOver_nonneg (pts : List (PC K × PD K × PD K))
    (h : ∀ p ∈ pts, p.1.Nonneg ∧ p.2.1.Nonneg ∧ p.2.2.Nonneg) : 0 ≤ sumOverScatterPoints pts := by
  induction pts with
  | nil => exact le_refl 0
  | cons p ps ih =>
    rw [sumOver_cons]
    have hp := h p (List.mem_cons_self)
    have := simulate_nonneg p.1 p.2.1 p.2.2 hp.1 hp.2.1 hp.2.2
    have := ih (fun q hq => h q (List.mem_cons_of_mem _ hq))
    linarith

theorem detEffNoScatter_nonneg (rAB2 eff511 cosA cosB pi : K) (h1 : 0 ≤ rAB2) (h2 : 0 ≤ eff511) (h3 : 0 ≤ cosA)
    (h4 : 0 ≤ cosB) (h5 : 0 ≤ pi) : 0 ≤ detectionEfficiencyNoScatter rAB2 eff511 cosA cosB pi := by
  unfold detectionEfficiencyNoScatter; positivity

theorem estimate_nonneg (pts : List (PC K × PD K × PD K)) (effAB vol sigma : K)
    (h : ∀ p ∈ pts, p.1.Nonneg ∧ p.2.1.Nonneg ∧ p.2.2.Nonneg) (he : 0 ≤ effAB) (hv : 0 ≤ vol) (hs : 0 ≤ sigma) :
    0 ≤ actualScatterEstimate pts effAB vol sigma := by
  unfold actualScatterEstimate
  have := sumOver_nonneg pts h
  positivity

/-! ### the line integral is linear in the image -/

theorem integral_acc {V : Type} (image : V → K) (inImage : V → Bool) (lor : List (V × K)) (acc : K) :
    lor.foldl (fun sum e => if inImage e.1 then sum + image e.1 * e.2 else sum) acc =
      acc + lor.foldl (fun sum e => if inImage e.1 then sum + image e.1 * e.2 else sum) 0 := by
  induction lor generalizing acc with
  | nil => simp
  | cons e es ih =>
    simp only [List.foldl_cons]
    by_cases h : inImage e.1
    · simp only [h, if_true]; rw [ih (acc + image e.1 * e.2), ih (0 + image e.1 * e.2)]; ring
    · simp only [h, Bool.false_eq_true, if_false]; exact ih acc

theorem integral_cons {V : Type} (image : V → K) (inImage : V → Bool) (e : V × K) (lor : List (V × K)) :
    integralBetween2Points image inImage (e :: lor) =
      (if inImage e.1 then image e.1 * e.2 else 0) + integralBetween2Points image inImage lor := by
  unfold integralBetween2Points
  simp only [List.foldl_cons]
  rw [integral_acc]
  by_cases h : inImage e.1 <;> simp [h]

theorem integral_linear {V : Type} (x y : V → K) (α β : K) (inImage : V → Bool) (lor : List (V × K)) :
    integralBetween2Points (fun v => α * x v + β * y v) inImage lor =
      α * integralBetween2Points x inImage lor + β * integralBetween2Points y inImage lor := by
  induction lor with
  | nil => simp [integralBetween2Points]
  | cons e es ih =>
    rw [integral_cons, integral_cons, integral_cons, ih]
    by_cases h : inImage e.1
    · simp only [h, if_true]; ring
    · simp only [h, Bool.false_eq_true, if_false]; ring

theorem integralOverActivity_linear {V : Type} (sa : K) (x y : V → K) (α β : K) (inImage : V → Bool) (lor : List (V × K)) :
    integralOverActivity sa (fun v => α * x v + β * y v) inImage lor =
      α * integralOverActivity sa x inImage lor + β * integralOverActivity sa y inImage lor := by
  unfold integralOverActivity; rw [integral_linear]; ring

theorem integral_nonneg {V : Type} (x : V → K) (inImage : V → Bool) (lor : List (V × K))
    (hx : ∀ v, 0 ≤ x v) (hl : ∀ e ∈ lor, 0 ≤ e.2) : 0 ≤ integralBetween2Points x inImage lor := by
  induction lor with
  | nil => simp [integralBetween2Points]
  | cons e es ih =>
    rw [integral_cons]
    have h1 := ih (fun e' he' => hl e' (List.mem_cons_of_mem _ he'))
    have h2 := hl e List.mem_cons_self
    have h3 := hx e.1
    by_cases h : inImage e.1
    · simp only [h, if_true]; positivity
    · simp only [h, Bool.false_eq_true, if_false]; linarith

end StirVerif.C16
