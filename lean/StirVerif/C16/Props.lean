/-
C16 — "The simulated single-scatter estimate for a detector pair is unchanged when the two detectors are
exchanged, is linear in the activity image, zero for zero activity and never negative. It is the same with the
line-integral cache enabled or disabled, and after any sequence of changes to the activity image, attenuation
image, scatter-point image, template or energy settings followed by set-up it equals the result of a freshly
configured simulation."

Property theorems over the model of `Model.lean`. The formula theorems hold in every linearly ordered field, for
every number of scatter points; the state-machine theorems for every history (no bound on its length) and every
world. What is *not* theorem: that the C++ line integrals are the weighted sums of `integralBetween2Points`
(correspondence `actint` / oracle only), the physics functions (inputs; coverage round 4: `detection_efficiency` is
transcribed with `erf` as a parameter, so its sign is a theorem for every energy window given that `erf` is monotone),
floating point.
-/
import StirVerif.C16.ProofsFormula
import StirVerif.C16.ProofsCache
import StirVerif.C16.ProofsState
import StirVerif.C16.ProofsTable
import StirVerif.C16.ProofsFaithful
import StirVerif.C16.ProofsDetection
import Mathlib.Algebra.Order.Field.Rat
import Mathlib.Tactic.NormNum

namespace StirVerif.C16

section Formula
variable {K : Type} [Field K] [LinearOrder K] [IsStrictOrderedRing K]

/-- "unchanged when the two detectors are exchanged" — one scatter point
    (`simulate_for_one_scatter_point(sp, A, B) = simulate_for_one_scatter_point(sp, B, A)`) -/
theorem C16_simulate_symmetric (c : PC K) (a b : PD K) :
    simulateForOneScatterPoint c a b = simulateForOneScatterPoint c b a :=
  simulate_symm c a b

/-- "unchanged when the two detectors are exchanged" — the estimate for the pair: exchanging the per-detector
    ingredients of every scatter point and the two incidence cosines of `detection_efficiency_no_scatter`.
    The two cosines (and the per-detector `cosInc`, `r2`, … of every scatter point) are separate inputs, so this is the
    statement for BlocksOnCylindrical scanners too, where the two crystals of a pair sit at different radii and
    `cosA ≠ cosB`; the correspondence run feeds the model the cosine the implementation computed for EACH detector
    (`est` / `effns` operations on generated blocks templates). -/
theorem C16_estimate_symmetric (pts : List (PC K × PD K × PD K)) (rAB2 eff511 cosA cosB pi vol sigma : K) :
    actualScatterEstimate (swapPts pts) (detectionEfficiencyNoScatter rAB2 eff511 cosB cosA pi) vol sigma =
      actualScatterEstimate pts (detectionEfficiencyNoScatter rAB2 eff511 cosA cosB pi) vol sigma :=
  estimate_symm pts rAB2 eff511 cosA cosB pi vol sigma

/-- "linear in the activity image" — in the activity integrals: if every activity integral is `α·e₁ + β·e₂` the
    estimate is `α·estimate₁ + β·estimate₂` (the early return on zero integrals does not break this) -/
theorem C16_estimate_linear_in_activity {ι : Type} (l : List ι) (c : ι → PC K) (a b : ι → PD K) (α β : K)
    (e1A e1B e2A e2B : ι → K) (effAB vol sigma : K) :
    actualScatterEstimate (ptsOf l c a b (fun i => α * e1A i + β * e2A i) (fun i => α * e1B i + β * e2B i)) effAB vol sigma =
      α * actualScatterEstimate (ptsOf l c a b e1A e1B) effAB vol sigma
        + β * actualScatterEstimate (ptsOf l c a b e2A e2B) effAB vol sigma :=
  estimate_linear l c a b α β e1A e1B e2A e2B effAB vol sigma

/-- "linear in the activity image" — in the image itself, when the activity integrals are what
    `integral_over_activity_image_between_scattpoint_det` computes: solid-angle factor times the sum of
    (voxel value × intersection length) over the voxels of the ray that lie inside the image -/
theorem C16_estimate_linear_in_activity_image {ι V : Type} (l : List ι) (c : ι → PC K) (a b : ι → PD K)
    (saA saB : ι → K) (inImage : V → Bool) (lorA lorB : ι → List (V × K)) (x y : V → K) (α β effAB vol sigma : K) :
    actualScatterEstimate
        (ptsOf l c a b (fun i => integralOverActivity (saA i) (fun v => α * x v + β * y v) inImage (lorA i))
                       (fun i => integralOverActivity (saB i) (fun v => α * x v + β * y v) inImage (lorB i))) effAB vol sigma =
      α * actualScatterEstimate
            (ptsOf l c a b (fun i => integralOverActivity (saA i) x inImage (lorA i))
                           (fun i => integralOverActivity (saB i) x inImage (lorB i))) effAB vol sigma
      + β * actualScatterEstimate
            (ptsOf l c a b (fun i => integralOverActivity (saA i) y inImage (lorA i))
                           (fun i => integralOverActivity (saB i) y inImage (lorB i))) effAB vol sigma := by
  have hA : (fun i => integralOverActivity (saA i) (fun v => α * x v + β * y v) inImage (lorA i)) =
      fun i => α * integralOverActivity (saA i) x inImage (lorA i) + β * integralOverActivity (saA i) y inImage (lorA i) :=
    funext fun i => integralOverActivity_linear (saA i) x y α β inImage (lorA i)
  have hB : (fun i => integralOverActivity (saB i) (fun v => α * x v + β * y v) inImage (lorB i)) =
      fun i => α * integralOverActivity (saB i) x inImage (lorB i) + β * integralOverActivity (saB i) y inImage (lorB i) :=
    funext fun i => integralOverActivity_linear (saB i) x y α β inImage (lorB i)
  rw [hA, hB]
  exact estimate_linear l c a b α β _ _ _ _ effAB vol sigma

/-- "zero for zero activity" -/
theorem C16_zero_activity_zero {ι : Type} (l : List ι) (c : ι → PC K) (a b : ι → PD K) (effAB vol sigma : K) :
    actualScatterEstimate (ptsOf l c a b (fun _ => 0) (fun _ => 0)) effAB vol sigma = 0 :=
  estimate_zero l c a b effAB vol sigma

/-- "never negative": if every factor that is read is non-negative (activity and attenuation integrals, the power
    of the attenuation factor, squared distances, incidence cosines, efficiencies, cross section, μ, volume).
    Coverage round 4: two of these hypotheses are now discharged for EVERY energy window (also windows that do not contain
    511 keV, where the efficiency at 511 keV may be 0): `0 ≤ effScatter` by `C16_detection_efficiency_nonneg` and
    `0 ≤ eff511` by `C16_normalisation_pos`; `0 ≤ emis` by `C16_activity_integral_scattdet_nonneg` (capped solid-angle
    factor included). The correspondence run feeds the model the efficiencies of such windows (`deteff`, `eff511`). -/
theorem C16_estimate_nonneg (pts : List (PC K × PD K × PD K)) (rAB2 eff511 cosA cosB pi vol sigma : K)
    (h : ∀ p ∈ pts, p.1.Nonneg ∧ p.2.1.Nonneg ∧ p.2.2.Nonneg)
    (h1 : 0 ≤ rAB2) (h2 : 0 ≤ eff511) (h3 : 0 ≤ cosA) (h4 : 0 ≤ cosB) (h5 : 0 ≤ pi) (hv : 0 ≤ vol) (hs : 0 ≤ sigma) :
    0 ≤ actualScatterEstimate pts (detectionEfficiencyNoScatter rAB2 eff511 cosA cosB pi) vol sigma :=
  estimate_nonneg pts _ vol sigma h (detEffNoScatter_nonneg rAB2 eff511 cosA cosB pi h1 h2 h3 h4 h5) hv hs

/-- the activity integral of a non-negative image along a ray with non-negative intersection lengths is non-negative
    (so the `emis` hypothesis of `C16_estimate_nonneg` holds for such images) -/
theorem C16_activity_integral_nonneg {V : Type} (x : V → K) (inImage : V → Bool) (lor : List (V × K))
    (hx : ∀ v, 0 ≤ x v) (hl : ∀ e ∈ lor, 0 ≤ e.2) : 0 ≤ integralBetween2Points x inImage lor :=
  integral_nonneg x inImage lor hx hl

/-- "never negative" — the detection efficiency `detection_efficiency(E) = ½(erf((hi−E)/σ) − erf((lo−E)/σ))` is
    non-negative for EVERY energy `E` and EVERY window `lo ≤ hi` — whether or not it contains 511 keV, however narrow or
    wide — for every `σ > 0` (any energy resolution), given only that `erf` is monotone -/
theorem C16_detection_efficiency_nonneg (erf : K → K) (herf : ∀ x y, x ≤ y → erf x ≤ erf y) (sigma lo hi energy : K)
    (hs : 0 < sigma) (hw : lo ≤ hi) : 0 ≤ detectionEfficiency erf sigma lo hi energy :=
  detectionEfficiency_nonneg erf herf sigma lo hi energy hs hw

/-- … and at most 1 (it is a probability), given that `erf` takes values in [-1, 1] -/
theorem C16_detection_efficiency_le_one (erf : K → K) (hb : ∀ x, -1 ≤ erf x ∧ erf x ≤ 1) (sigma lo hi energy : K) :
    detectionEfficiency erf sigma lo hi energy ≤ 1 :=
  detectionEfficiency_le_one erf hb sigma lo hi energy

/-- why the ORDER of the two `erf` terms matters (a rewrite that exchanges them for the energies above the window makes the
    efficiency negative exactly for the windows below 511 keV): with the thresholds exchanged and a strictly increasing `erf`
    the value is negative -/
theorem C16_detection_efficiency_terms_exchanged_negative (erf : K → K) (herf : ∀ x y, x < y → erf x < erf y)
    (sigma lo hi energy : K) (hs : 0 < sigma) (hw : lo < hi) : detectionEfficiency erf sigma hi lo energy < 0 :=
  detectionEfficiency_neg_of_inverted erf herf sigma hi lo energy hs hw

/-- "never negative" — the normalisation `detector_efficiency_no_scatter = detection_efficiency(511) > 0 ?
    detection_efficiency(511) : 1` is positive whatever the window (so `0 ≤ eff511` in `C16_estimate_nonneg`), and it is the
    efficiency at 511 keV whenever that is positive -/
theorem C16_normalisation_pos (e : K) : 0 < detEff511OrOne e ∧ (0 < e → detEff511OrOne e = e) :=
  ⟨detEff511OrOne_pos e, detEff511OrOne_eq_of_pos e⟩

/-- "linear in the activity image" — for the activity integral as `integral_over_activity_image_between_scattpoint_det`
    computes it, CAP INCLUDED: `min(π/2, 1/r²)` is a function of the geometry only and multiplies the line integral, so the
    integral of `α·x + β·y` is `α`·integral of `x` + `β`·integral of `y` for all `α`, `β` and all voxel values (1e-6 … 1e6 and
    beyond) — with it, `C16_estimate_linear_in_activity` applies to the activity integrals the code computes -/
theorem C16_activity_integral_scattdet_linear {V : Type} (halfPi r2 : K) (x y : V → K) (α β : K) (inImage : V → Bool)
    (lor : List (V × K)) :
    integralOverActivityScattDet halfPi r2 (fun v => α * x v + β * y v) inImage lor =
      α * integralOverActivityScattDet halfPi r2 x inImage lor + β * integralOverActivityScattDet halfPi r2 y inImage lor :=
  integralOverActivityScattDet_linear halfPi r2 x y α β inImage lor

/-- … and non-negative for a non-negative image (the `emis` hypothesis of `C16_estimate_nonneg`), never above
    `π/2 ·` line integral -/
theorem C16_activity_integral_scattdet_nonneg {V : Type} (halfPi r2 : K) (x : V → K) (inImage : V → Bool) (lor : List (V × K))
    (h1 : 0 ≤ halfPi) (h2 : 0 ≤ r2) (hx : ∀ v, 0 ≤ x v) (hl : ∀ e ∈ lor, 0 ≤ e.2) :
    0 ≤ integralOverActivityScattDet halfPi r2 x inImage lor ∧ solidAngleFactor halfPi r2 ≤ halfPi :=
  ⟨integralOverActivityScattDet_nonneg halfPi r2 x inImage lor h1 h2 hx hl, solidAngleFactor_le halfPi r2⟩

end Formula

/-! non-vacuity (coverage round 4): a window below 511 keV with a piecewise-linear monotone stand-in for `erf`: the
    efficiency at an energy inside the window is positive, at 511 keV it is 0 and the normalisation falls back to 1 -/
def exErf (x : ℚ) : ℚ := if x < -1 then -1 else if 1 < x then 1 else x

example : detectionEfficiency exErf (10 : ℚ) 400 480 440 = 1 ∧ detectionEfficiency exErf (10 : ℚ) 400 480 511 = 0 ∧
    detEff511OrOne (detectionEfficiency exErf (10 : ℚ) 400 480 511) = 1 ∧ detectionEfficiency exErf (10 : ℚ) 400 480 485 = 1 / 4 := by
  refine ⟨?_, ?_, ?_, ?_⟩ <;> norm_num [detectionEfficiency, detEff511OrOne, exErf]

example : ∀ x y : ℚ, x ≤ y → exErf x ≤ exErf y := by
  intro x y h
  unfold exErf
  split_ifs <;> linarith

/-- the cap is applied to the geometry factor: far from the detector (`1/r² < π/2`) the factor is `1/r²`, next to it `π/2` -/
example : solidAngleFactor (3 / 2 : ℚ) 100 = 1 / 100 ∧ solidAngleFactor (3 / 2 : ℚ) (1 / 4) = 3 / 2 := by
  constructor <;> norm_num [solidAngleFactor]

/-- why the cap must not be applied to `integral / r²` (a quantity proportional to the activity): with one voxel of value 1,
    intersection length 1 and `r² = 1` the folded form gives 1 for the image and 3/2 (not 2) for twice the image, the form of
    the code 1 and 2 -/
theorem C16_folded_cap_not_homogeneous :
    integralOverActivityFoldedCap (3 / 2 : ℚ) 1 (fun _ : Unit => 2) (fun _ => true) [((), 1)] ≠
      2 * integralOverActivityFoldedCap (3 / 2 : ℚ) 1 (fun _ : Unit => 1) (fun _ => true) [((), 1)] ∧
    integralOverActivityScattDet (3 / 2 : ℚ) 1 (fun _ : Unit => 2) (fun _ => true) [((), 1)] =
      2 * integralOverActivityScattDet (3 / 2 : ℚ) 1 (fun _ : Unit => 1) (fun _ => true) [((), 1)] := by
  constructor <;>
    norm_num [integralOverActivityFoldedCap, integralOverActivityScattDet, integralOverActivity, solidAngleFactor, integralBetween2Points]

/-! non-vacuity: a concrete point with a non-zero, asymmetric-looking contribution -/
def exC : PC ℚ := ⟨1/2, 3/4, 1, 1/8, 3/32⟩
def exA : PD ℚ := ⟨2, 1/2, 5/4, 100, 7/8⟩
def exB : PD ℚ := ⟨3/2, 3/4, 9/8, 144, 13/16⟩

example : simulateForOneScatterPoint exC exA exB = 9009/83886080 := by
  norm_num [simulateForOneScatterPoint, scatterRatioFormula, exC, exA, exB]
example : exC.Nonneg ∧ exA.Nonneg ∧ exB.Nonneg := by
  refine ⟨⟨?_, ?_, ?_⟩, ⟨?_, ?_, ?_, ?_, ?_⟩, ⟨?_, ?_, ?_, ?_, ?_⟩⟩ <;> norm_num [exC, exA, exB]
example : actualScatterEstimate [(exC, exA, exB)] (detectionEfficiencyNoScatter 400 1 (1/2) (1/2) 3) 8 2 ≠ 0 := by
  norm_num [actualScatterEstimate, sumOverScatterPoints, detectionEfficiencyNoScatter, simulateForOneScatterPoint,
    scatterRatioFormula, exC, exA, exB]

/-- why `detection_efficiency_no_scatter` needs the cosine of each detector: with the square of the cosine of the
    first detector (the same on a cylinder, not on flat blocks) the normalisation of (A,B) and of (B,A) differ -/
example : detectionEfficiencyNoScatter (400 : ℚ) 1 (1/2) (1/2) 3 ≠ detectionEfficiencyNoScatter 400 1 (1/4) (1/4) 3 := by
  norm_num [detectionEfficiencyNoScatter]

/-- … while with both cosines the exchange changes nothing although `cosA ≠ cosB` -/
example : detectionEfficiencyNoScatter (400 : ℚ) 1 (1/2) (1/4) 3 = detectionEfficiencyNoScatter 400 1 (1/4) (1/2) 3 := by
  norm_num [detectionEfficiencyNoScatter]

/-! ### cache -/

/-- "the same with the line-integral cache enabled or disabled": whatever sequence of integrals is read, with the
    cache enabled or not, through a cache whose entries are the sentinel or the current integral, every value read
    is the directly computed integral, and the cache stays of that kind. (A fresh cache is of that kind:
    `fresh_coherent`. No hypothesis that integrals differ from the sentinel is needed for the *values*; it only
    decides whether an entry is recomputed.) -/
theorem C16_cache_transparent {K : Type} [DecidableEq K] (useCache : Bool) (sentinel : K) (direct : Nat → Nat → K)
    (c : CacheArr K) (reads : List (Nat × Nat)) (h : Coherent sentinel direct c) :
    (cachedLookups useCache sentinel direct c reads).1 = reads.map (fun p => direct p.1 p.2) ∧
      Coherent sentinel direct (cachedLookups useCache sentinel direct c reads).2 :=
  cachedLookups_spec useCache sentinel direct c reads h

/-- cache enabled = cache disabled, starting from the freshly initialised cache -/
theorem C16_cache_on_eq_off {K : Type} [DecidableEq K] (sentinel : K) (direct : Nat → Nat → K) (reads : List (Nat × Nat)) :
    (cachedLookups true sentinel direct (CacheArr.fresh sentinel) reads).1 =
      (cachedLookups false sentinel direct (CacheArr.fresh sentinel) reads).1 := by
  rw [(cachedLookups_spec true sentinel direct _ reads (fresh_coherent sentinel direct)).1,
      (cachedLookups_spec false sentinel direct _ reads (fresh_coherent sentinel direct)).1]

/-- why the caches must be removed when an input changes: an entry filled under the old inputs is returned
    although the integral is now different -/
theorem C16_cache_stale_read {K : Type} [DecidableEq K] (sentinel : K) (direct' : Nat → Nat → K) (c : CacheArr K)
    (i j : Nat) (hfilled : c i j ≠ sentinel) (hchanged : c i j ≠ direct' i j) :
    (cachedLookup true sentinel direct' c i j).1 ≠ direct' i j :=
  stale_read sentinel direct' c i j hfilled hchanged

example : (cachedLookups true (-1 : Int) (fun i j => 10 * i + j) (CacheArr.fresh (-1)) [(1, 2), (0, 3), (1, 2)]).1 = [12, 3, 12] := by
  decide

/-! ### setter table -/

/-- "`modifies f ∩ deps c ≠ ∅ → c` is invalidated", the full statement — FALSE for the table extracted from the
    unchanged source (see `C16_invalidation_failures`) -/
def C16_invalidation_complete_full : Prop :=
  ∀ f ∈ setterTable, (∀ d : Datum, invalidationOK f d = true) ∧ setUpForcedOK f = true

/-- exactly which (setter, derived datum) pairs lack an invalidation, and which setter clears caches that only
    `set_up` re-allocates without forcing a `set_up`. (Coverage round 3: the table now has a row for
    `set_template_proj_data_info(filename)` — which passes: it sets the exam info and then resets
    `detector_efficiency_no_scatter` through the template setter — and one for the parsed keyword `use cache`, which fails
    like `set_cache_enabled`: the flag is written without touching the arrays.) -/
theorem C16_invalidation_failures :
    invalidationFailures setterTable =
      [("set_exam_info", .effNoScatter),
       ("set_image_downsample_factors", .spImage), ("set_image_downsample_factors", .scatt),
       ("set_image_downsample_factors", .actCache), ("set_image_downsample_factors", .attCache),
       ("set_attenuation_threshold", .scatt), ("set_attenuation_threshold", .actCache), ("set_attenuation_threshold", .attCache),
       ("set_randomly_place_scatter_points", .scatt), ("set_randomly_place_scatter_points", .actCache),
       ("set_randomly_place_scatter_points", .attCache),
       ("set_cache_enabled", .actCache), ("set_cache_enabled", .attCache),
       ("parsed keyword `use cache`", .actCache), ("parsed keyword `use cache`", .attCache),
       ("downsample_images_to_scanner_size", .spImage), ("downsample_images_to_scanner_size", .scatt)] ∧
    setUpForcedFailures setterTable = ["set_use_cache"] :=
  ⟨invalidationFailures_eq, setUpForcedFailures_eq⟩

/-- coverage round 4 — the table with the dependencies of the AUTOMATIC (-1) zoom factors (`depsAuto`: the scatter-point image
    then also depends on the template): exactly these additional (setter, datum) pairs lack an invalidation — the table-level
    form of the KNOWN finding `scatter-setup:automatic-zoom-scatter-point-image-kept-after-template-change` (negative witness
    history: `C16_history_eq_fresh_fails_auto_zoom`) -/
theorem C16_invalidation_failures_auto_zoom :
    invalidationFailuresAutoOnly setterTable =
      [("set_template_proj_data_info", .spImage), ("set_template_proj_data_info", .scatt),
       ("set_template_proj_data_info(filename)", .spImage), ("set_template_proj_data_info(filename)", .scatt),
       ("downsample_scanner", .spImage), ("downsample_scanner", .scatt)] :=
  invalidationFailuresAutoOnly_eq

theorem C16_invalidation_complete_fails : ¬ C16_invalidation_complete_full := by
  intro h
  have := (h ⟨"set_exam_info", [.exam], [], [], true⟩ (by decide)).1 .effNoScatter
  revert this; decide

/-- invalidation is complete for the setters of the activity image, attenuation image, scatter-point image and
    template — by object and by file name — (and the down-sampling calls): every derived datum that depends on what they assign is cleared,
    recomputed, or rebuilt by the `set_up` they force. Missing: the rows listed in `C16_invalidation_failures`. -/
theorem C16_invalidation_complete_partial :
    ∀ f ∈ setterTable, f.name ∈ goodRows → (∀ d : Datum, invalidationOK f d = true) ∧ setUpForcedOK f = true := by
  intro f hf hn
  obtain ⟨h1, h2⟩ := goodRows_complete f hf hn
  exact ⟨fun d => h1 d (allData_complete d), h2⟩

/-- the table is a description of the setter functions of the state machine (the functions the correspondence run
    compares with the C++), for every state and every argument: a setter leaves alone every setting its row does not
    list as modified and every derived member its row does not list as cleared or recomputed; unless it returns
    without effect, it clears what the row lists as cleared and resets `_already_set_up` if the row says so; and it
    leaves `_already_set_up` alone if the row says it does not reset it.
    (Coverage round 3: `Op` now includes `setRndPlace` = `set_randomly_place_scatter_points` — the flag is a modelled
    setting, no longer `notModelled` — and `setTemplateFile` = `set_template_proj_data_info(filename)`; the operations of
    the correspondence run `set_exam_sptr`, `set_act_file`/`set_att_file`/`set_spimg_file` and `parse_use_cache` are the
    operations `setExam`, `setActivity`/`setDensity`/`setSpImage` and `setCacheEnabled`, see `Model.lean`.) -/
theorem C16_table_faithful (W : World) (s : St) (op : Op) (f : SetterRow) (hf : rowOf op = some f) :
    Faithful W s op f :=
  table_faithful W s op f hf

example : rowOf (.setExam 3) = some ⟨"set_exam_info", [.exam], [], [], true⟩ := by decide
example : rowOf (.setRndPlace true) = some ⟨"set_randomly_place_scatter_points", [.rndPlace], [], [], true⟩ := by decide
example : (rowOf (.setTemplateFile 1 (W0.tmpl 1))).map (·.modifies) = some [.tmpl, .exam] := by decide

/-! ### histories -/

/-- "after any sequence of changes … followed by set-up it equals the result of a freshly configured
    simulation", the full statement over all histories of modelled operations — FALSE for the unchanged code
    (negative witnesses below) -/
def C16_history_eq_fresh_full : Prop :=
  ∀ (W : World) (ops : List Op) (s : St), run W init ops = some s →
    (process W s).2.1 ≠ .crash ∧ ∀ o, (process W s).2 = (.ok, some o) → freshOut W s = (.ok, some o)

/-- "after any sequence of changes to the activity image, attenuation image, scatter-point image …" — a change made IN
    PLACE by the owner of an image, followed by the setter with the SAME pointer (what `ScatterEstimation::process_data`
    does with the activity image in every iteration), is a change like any other: the setters
    `set_activity_image_sptr` / `set_density_image_sptr` / `set_density_image_for_scatter_points_sptr` assign and
    invalidate unconditionally (they do not compare the pointer they get with the one they hold), so the event leaves the
    object in exactly the state of the setter called with a new image of those values … -/
theorem C16_inplace_same_pointer_invalidates_like_new_pointer (W : World) (s : St) (k : Nat) :
    step W s (.setActivityInPlace k) = step W s (.setActivity (some k)) ∧
    step W s (.setDensityInPlace k) = step W s (.setDensity (some k)) ∧
    step W s (.setSpImageInPlace k) = step W s (.setSpImage (some k)) :=
  step_inPlace_eq W s k

/-- … in particular, whatever the object held before: the new values are the current ones, the cache of activity
    integrals is gone, and a `set_up` is required (for the attenuation image: the attenuation cache and the derived
    scatter-point image are gone) -/
theorem C16_inplace_same_pointer_clears (W : World) (s : St) (k : Nat) :
    ((step W s (.setActivityInPlace k)).1.act = some k ∧ (step W s (.setActivityInPlace k)).1.actCache = none ∧
      (step W s (.setActivityInPlace k)).1.alreadySetUp = false) ∧
    ((step W s (.setDensityInPlace k)).1.att = some k ∧ (step W s (.setDensityInPlace k)).1.attCache = none ∧
      (step W s (.setDensityInPlace k)).1.spImage = none ∧ (step W s (.setDensityInPlace k)).1.alreadySetUp = false) :=
  ⟨⟨rfl, rfl, rfl⟩, ⟨rfl, rfl, rfl, rfl⟩⟩

/-- non-vacuity: a guarded history with in-place changes of all three images (on a BlocksOnCylindrical template that was
    down-sampled explicitly) at the end of which `process` succeeds and is fresh; and an object that really holds a filled
    activity cache before the in-place event -/
example : (runGuarded W0 init histInPlace).isSome = true ∧ freshAfter W0 histInPlace = true :=
  ⟨histInPlace_guarded, histInPlace_fresh⟩

example : ∃ s, run W0 init (baseConfig ++ [.setUp, .process]) = some s ∧ s.actCache ≠ none ∧
    (step W0 s (.setActivityInPlace 1)).1.actCache = none := by
  refine ⟨_, rfl, ?_, rfl⟩
  decide

/-- after ANY history of setters (with a new pointer or in place with the same pointer) / `set_up` / `process_data` /
    explicit down-sampling calls (cylindrical and BlocksOnCylindrical templates), of any length, in which every operation satisfies the guard `opOk` (no `set_exam_info` while `detector_efficiency_no_scatter` is cached,
    no threshold / zoom / random-placement change while a scatter-point image derived with the old value exists, no
    enabling of the cache on a set-up object, `downsample_scanner_bool` off): `process_data` does not touch unallocated cache storage, and
    if it succeeds, everything it reads — scatter points, detection points, every cached or computed activity /
    attenuation integral, `max_single_scatter_cos_angle`, `detector_efficiency_no_scatter` — was computed from exactly
    the inputs a freshly configured object would use, so the outputs are equal.
    `_partial`: the guard excludes the histories of the negative witnesses below.
    Coverage round 3: the histories now range over two more operations, `set_randomly_place_scatter_points` (guarded like
    the threshold) and `set_template_proj_data_info(filename)` (no guard needed although it calls `set_exam_info`: the
    template setter that follows resets `detector_efficiency_no_scatter`), and through the identifications of
    `Model.lean` over the setters by file name, `set_exam_info_sptr` and the parsed keyword `use cache`; the scatter
    points carry the value of `randomly_place_scatter_points` they were sampled with.
    Coverage round 4: the histories now also range over the AUTOMATIC (-1) zoom factors — `set_up` /
    `downsample_density_image_for_scatter_points` with the defaults compute the factors from the attenuation image and the
    template and STORE them in `zoom_xy` / `zoom_z` / `zoom_size_z` (state `autoZ`), `zoom_size_xy` stays -1 — under the
    guards `autoTmplOk` / `autoAttOk`: once the factors are stored, a new template or attenuation image must be one for which
    the same factors would be computed (e.g. an attenuation image of ANOTHER x/y size with the same voxel size and planes:
    `histAutoAtt`); a template with another default bin size is excluded — negative witnesses `C16_history_eq_fresh_fails_auto_zoom`.
    (Before, `set_up` with the defaults was answered `unmodelled` and such histories never reached a successful `process`.)
    See `C16_history_eq_fresh_partial2` for the weaker guard on enabling the cache. -/
theorem C16_history_eq_fresh_partial (W : World) (ops : List Op) (s : St) (hrun : runGuarded W init ops = some s) :
    (process W s).2.1 ≠ .crash ∧ ∀ o, (process W s).2 = (.ok, some o) → freshOut W s = (.ok, some o) :=
  process_eq_fresh W s (inv_runGuarded W ops init s (inv_init W) hrun)

/-- the same from any state that satisfies the invariant (e.g. in the middle of a history) -/
theorem C16_history_eq_fresh_from_partial (W : World) (ops : List Op) (s0 s : St) (h0 : Inv W s0)
    (hrun : runGuarded W s0 ops = some s) :
    (process W s).2.1 ≠ .crash ∧ ∀ o, (process W s).2 = (.ok, some o) → freshOut W s = (.ok, some o) :=
  process_eq_fresh W s (inv_runGuarded W ops s0 s h0 hrun)

/-- "It is the same with the line-integral cache enabled or disabled, and after any sequence of changes … followed by
    set-up it equals the result of a freshly configured simulation" — for the histories around the OLDER switch
    `set_cache_enabled(bool)` (and `set_use_cache`, and the parsed keyword): the guard of
    `C16_history_eq_fresh_partial` on enabling the cache is weakened to "not on a set-up object UNLESS `set_up` is the very
    next operation". So the history  compute with the cache on; `set_cache_enabled(false)`; change the activity /
    attenuation image (new object, or in place + the same pointer); `set_up`; compute; `set_cache_enabled(true)`; `set_up`;
    compute  is covered: `set_cache_enabled` leaves the arrays alone, the setters remove "their" array although the cache
    is disabled, `set_up` with the cache disabled allocates nothing, and the final `set_up` allocates what is missing and
    keeps what has the right size — which holds values of the current inputs only.
    Every history admitted by the stronger guard is admitted by this one (`C16_guard2_weaker`). -/
theorem C16_history_eq_fresh_partial2 (W : World) (ops : List Op) (s : St) (hrun : runGuarded2 W init ops = some s) :
    (process W s).2.1 ≠ .crash ∧ ∀ o, (process W s).2 = (.ok, some o) → freshOut W s = (.ok, some o) :=
  process_eq_fresh W s (inv_runGuarded2 W ops init s (Or.inl (inv_init W)) hrun)

theorem C16_guard2_weaker (W : World) (ops : List Op) (s0 s : St) (h : runGuarded W s0 ops = some s) :
    runGuarded2 W s0 ops = some s :=
  runGuarded2_of_runGuarded W ops s0 s h

/-- non-vacuity: the three-step history (activity image replaced by a new object, attenuation image changed in place,
    with `set_up` and a computation while the cache is off) satisfies the weaker guard, not the stronger one, and ends
    fresh; its variant without `set_up` in the middle satisfies the stronger guard as well -/
example : (runGuarded2 W0 init histThreeStep).isSome = true ∧ (runGuarded W0 init histThreeStep).isSome = false ∧
    freshAfter W0 histThreeStep = true ∧
    (runGuarded W0 init histThreeStep').isSome = true ∧ freshAfter W0 histThreeStep' = true :=
  ⟨histThreeStep_guarded2, histThreeStep_not_guarded, histThreeStep_fresh, histThreeStep'_guarded, histThreeStep'_fresh⟩

/-- non-vacuity for the new operations: `set_randomly_place_scatter_points` before the scatter points exist and
    `set_template_proj_data_info(filename)` after a computation, inside the stronger guard, fresh -/
example : (runGuarded W0 init histFile).isSome = true ∧ freshAfter W0 histFile = true :=
  ⟨histFile_guarded, histFile_fresh⟩

/-- why `remove_cache_for_integrals_over_*` must not test `use_cache` (it does not: cached_single_scatter_integrals.cxx:33,39;
    `initialise_cache_…` does): in the state machine with a `set_activity_image_sptr` that leaves the array alone while the
    cache is disabled, the three-step history returns the estimate of the old activity image (the harness forces this
    history for every seed) -/
theorem C16_cache_removal_must_not_depend_on_use_cache : lazyRemovalStale = true := lazyRemoval_stale

/-- negative witness outside the property's list of changes (sampling parameter, like threshold and zoom):
    `set_randomly_place_scatter_points` after the scatter points were sampled does not sample them again -/
theorem C16_history_eq_fresh_fails_rnd : staleAfter W0 histRnd = true := histRnd_stale

/-- non-vacuity: a guarded history with changes of activity, attenuation, scatter-point image, template and
    energy window after a computation, at the end of which `process` succeeds (and is fresh) -/
def exHistory : List Op :=
  baseConfig ++ [.setUp, .process, .setActivity (some 1), .setUp, .process, .setDensity (some 1), .setThr 1, .setSpImage (some 1),
    .setTemplate (W0.tmpl 1), .setExam 1, .setUseCache false, .setUp, .process, .setActivity (some 2), .setUseCache true, .setUp]

example : (runGuarded W0 init exHistory).isSome = true ∧ freshAfter W0 exHistory = true := by decide

/-- negative witness (replayed by the harness, KNOWN-CANDIDATE `scatter-cache:exam-info-setter-keeps-detection-
    efficiency-no-scatter`): `set_exam_info` after a computation — the next result is normalised with the
    efficiency of the old energy window -/
theorem C16_history_eq_fresh_fails_exam : staleAfter W0 histExam = true := histExam_stale

/-- negative witness (`scatter-cache:enabling-cache-after-set-up-reads-unallocated-cache`): `set_use_cache(true)` /
    `set_cache_enabled(true)` after `set_up` ran without cache — `process_data` indexes an empty array -/
theorem C16_history_eq_fresh_fails_enable_cache :
    crashAfter W0 histEnableCache = true ∧ crashAfter W0 histEnableCache' = true :=
  ⟨histEnableCache_crash, histEnableCache'_crash⟩

/-- negative witness (`scatter-setup:downsample-scanner-flag-makes-set-up-non-idempotent`): with
    `downsample_scanner_bool` the second `set_up` down-samples the down-sampled template again -/
theorem C16_history_eq_fresh_fails_ds_flag :
    staleAfter W0 histDsFlag = true ∧
      downsampledTmpl (downsampledTmpl (W0.tmpl 0) 2 10) 2 10 ≠ downsampledTmpl (W0.tmpl 0) 2 10 :=
  ⟨histDsFlag_stale, downsample_not_idempotent⟩

/-- non-vacuity (coverage round 4): one object with the automatic zoom factors re-used with two other attenuation images, the
    scatter-point image derived by `set_up` and by an explicit down-sampling call: inside the guard, fresh -/
example : (runGuarded W0 init histAutoAtt).isSome = true ∧ freshAfter W0 histAutoAtt = true :=
  ⟨histAutoAtt_guarded, histAutoAtt_fresh⟩

/-- negative witnesses (KNOWN `scatter-setup:automatic-zoom-scatter-point-image-kept-after-template-change` and
    `scatter-setup:automatic-zoom-factors-frozen-by-first-set-up`, replayed by the harness): with the automatic factors a
    template change keeps the scatter-point image derived for the old template, and after `set_density_image_sptr` the
    image is re-derived with the factors stored for the FIRST template -/
theorem C16_history_eq_fresh_fails_auto_zoom :
    staleAfter W0 histAutoTmplKept = true ∧ staleAfter W0 histAutoFrozen = true ∧
      (runGuarded W0 init histAutoTmplKept).isSome = false :=
  ⟨histAutoTmplKept_stale, histAutoFrozen_stale, histAutoTmplKept_not_guarded⟩

/-- what the automatic call stores (ScatterSimulation.cxx:562): `zoom_size_xy` stays -1 — the x/y size is derived again from
    whatever attenuation image the next call sees — while `zoom_xy`, `zoom_z`, `zoom_size_z` (= number of rings) are fixed -/
theorem C16_auto_downsample_stores (W : World) (s : St) (m : Nat) (t : Tmpl) (zs : Nat → Int × Int)
    (hm : s.att = some m) (hz : s.zoom = none) (ha : s.autoZ = none) (ht : s.tmpl = some t) :
    zoomMembers zs s = (-1, -1, true) ∧ zoomMembers zs (downsampleSp W s).1 = (-1, (t.rings : Int), false) ∧
      (downsampleSp W s).1.spImage = some (.auto m (W.autoClass m t)) ∧
      ∀ m', (downsampleSp W (setDensity (some m') (downsampleSp W s).1).1).1.spImage = some (.auto m' (W.autoClass m t)) := by
  refine ⟨by simp [zoomMembers, hz, ha], by simp [zoomMembers, downsampleSp, sampleScatterPoints, hm, hz, ha, ht],
    by simp [downsampleSp, sampleScatterPoints, hm, hz, ha, ht], ?_⟩
  intro m'
  simp [downsampleSp, sampleScatterPoints, setDensity, hm, hz, ha, ht]

/-- negative witnesses outside the property's list of changes (sampling parameters): a threshold / zoom change
    after the scatter-point image exists is ignored -/
theorem C16_history_eq_fresh_fails_thr_zoom : staleAfter W0 histThr = true ∧ staleAfter W0 histZoom = true :=
  ⟨histThr_stale, histZoom_stale⟩

theorem C16_history_eq_fresh_full_fails : ¬ C16_history_eq_fresh_full := by
  intro h
  obtain ⟨s, o, hr, hp, hne⟩ := staleAfter_spec W0 histExam histExam_stale
  exact hne ((h W0 histExam s hr).2 o hp)

/-- the history the design document suspected (another scatter-point image with the same number of scatter points
    keeps the activity cache) is NOT a defect of this code: `sample_scatter_points` removes both caches -/
theorem C16_spimage_setter_history_fresh : freshAfter W0 histSpImage = true := histSpImage_fresh

end StirVerif.C16
