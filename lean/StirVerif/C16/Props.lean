import StirVerif.C16.Model
namespace StirVerif.C16
end StirVerif.C16
