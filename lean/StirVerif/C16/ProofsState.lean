import StirVerif.C16.Model
/-! C16 — the set-up / cache state machine: an invariant ("every derived datum that can be read was computed from
the current settings") that every guarded operation preserves, and its consequence for `process`. Core Lean only. -/
namespace StirVerif.C16

/-- every derived member that `process` can reach was computed from the current settings -/
structure Inv (W : World) (s : St) : Prop where
  gTmpl : s.gTmpl = s.tmpl
  dsOff : s.dsBool = false
  gSp : s.gSp = match s.spImage with | some (.given i) => some i | _ => none
  spDown : ∀ m z, s.spImage = some (.down m z) → s.att = some m ∧ s.zoom = some z
  scatt : ∀ p, s.spImage = some p → s.scatt = some ⟨p, s.thr, s.rnd⟩
  actCache : ∀ p c a t, s.spImage = some p → s.actCache = some c → s.act = some a → s.tmpl = some t →
      c.rows = W.nsp ⟨p, s.thr, s.rnd⟩ ∧ c.cols = t.totalDetectors ∧ (c.stamps = [] ∨ c.stamps = [⟨a, ⟨p, s.thr, s.rnd⟩, t⟩])
  attCache : ∀ p c m t, s.spImage = some p → s.attCache = some c → s.att = some m → s.tmpl = some t →
      c.rows = W.nsp ⟨p, s.thr, s.rnd⟩ ∧ c.cols = t.totalDetectors ∧ (c.stamps = [] ∨ c.stamps = [⟨m, ⟨p, s.thr, s.rnd⟩, t⟩])
  eff : ∀ x e t, s.effNoScatter = some x → s.exam = some e → s.tmpl = some t → x = ⟨e, t⟩
  maxCos : ∀ x e t, s.alreadySetUp = true → s.maxCos = some x → s.exam = some e → s.tmpl = some t → x = ⟨e, t⟩
  detPts : ∀ t, s.tmpl = some t → s.detPts = [] ∨ s.detPts = [t]
  ready : s.alreadySetUp = true →
      ∃ t e a m p, s.tmpl = some t ∧ s.exam = some e ∧ s.act = some a ∧ s.att = some m ∧ s.spImage = some p ∧ W.zOk a = true ∧
        (s.useCache = true → ∃ ca cm, s.actCache = some ca ∧ s.attCache = some cm)
  /-- coverage round 4: a scatter-point image derived with the automatic factors was derived from the current attenuation
      image with the stored factors … -/
  spAuto : ∀ m c, s.spImage = some (.auto m c) → s.att = some m ∧ s.zoom = none ∧ ∃ z, s.autoZ = some (c, z)
  /-- … and the stored factors are the ones that would be computed now -/
  autoZ : ∀ c z m t, s.zoom = none → s.autoZ = some (c, z) → s.att = some m → s.tmpl = some t → c = W.autoClass m t

theorem inv_init (W : World) : Inv W init := by
  constructor <;> simp [init]

theorem inv_setActivity (W : World) (s : St) (k : Option Nat) (h : Inv W s) : Inv W (setActivity k s).1 := by
  cases k with
  | none => exact h
  | some a =>
    obtain ⟨h1, h2, h3, h4, h5, h6, h7, h8, h9, h10, h11, h12, h13⟩ := h
    constructor <;> (simp only [setActivity] at *) <;> (first | assumption | grind)

/-- what the guard `autoAttOk` gives: the stored automatic factors are those of the new attenuation image -/
theorem autoAttOk_spec (W : World) (s : St) (m : Nat) (g : autoAttOk W s (some m) = true) :
    ∀ c z t, s.zoom = none → s.autoZ = some (c, z) → s.tmpl = some t → c = W.autoClass m t := by
  intro c z t hz ha ht
  simp [autoAttOk, hz, ha, ht] at g
  exact g

/-- what the guard `autoTmplOk` gives: the stored automatic factors are those of the new template -/
theorem autoTmplOk_spec (W : World) (s : St) (t : Tmpl) (g : autoTmplOk W s t = true) :
    ∀ c z m, s.zoom = none → s.autoZ = some (c, z) → s.att = some m → c = W.autoClass m t := by
  intro c z m hz ha hm
  simp [autoTmplOk, hz, ha, hm] at g
  exact g

theorem inv_setDensity (W : World) (s : St) (k : Option Nat) (h : Inv W s) (g : autoAttOk W s k = true) :
    Inv W (setDensity k s).1 := by
  cases k with
  | none => exact h
  | some a =>
    have hg := autoAttOk_spec W s a g
    obtain ⟨h1, h2, h3, h4, h5, h6, h7, h8, h9, h10, h11, h12, h13⟩ := h
    constructor <;> (simp only [setDensity] at *) <;> (first | assumption | grind)

theorem inv_setTemplate (W : World) (s : St) (t : Tmpl) (h : Inv W s) (g : autoTmplOk W s t = true) :
    Inv W (setTemplate t s) := by
  have hg := autoTmplOk_spec W s t g
  obtain ⟨h1, h2, h3, h4, h5, h6, h7, h8, h9, h10, h11, h12, h13⟩ := h
  constructor <;> (simp only [setTemplate, setTemplateVal] at *) <;> (first | assumption | grind)

theorem inv_setSpImage (W : World) (s : St) (k : Option Nat) (h : Inv W s) : Inv W (setSpImage k s).1 := by
  cases k with
  | none => exact h
  | some a =>
    obtain ⟨h1, h2, h3, h4, h5, h6, h7, h8, h9, h10, h11, h12, h13⟩ := h
    constructor <;> (simp only [setSpImage, sampleScatterPoints] at *) <;> (first | assumption | grind)

/-- the setters do not look at the pointer / the values they already hold: an in-place change followed by the setter with
    the same pointer is the setter with a new image -/
theorem setActivityInPlace_eq (a : Nat) (s : St) : setActivityInPlace a s = setActivity (some a) s := rfl

theorem setDensityInPlace_eq (m : Nat) (s : St) : setDensityInPlace m s = setDensity (some m) s := rfl

theorem setSpImageInPlace_eq (i : Nat) (s : St) : setSpImageInPlace i s = setSpImage (some i) s := rfl

theorem step_inPlace_eq (W : World) (s : St) (k : Nat) :
    step W s (.setActivityInPlace k) = step W s (.setActivity (some k)) ∧
    step W s (.setDensityInPlace k) = step W s (.setDensity (some k)) ∧
    step W s (.setSpImageInPlace k) = step W s (.setSpImage (some k)) := ⟨rfl, rfl, rfl⟩

theorem inv_setExam (W : World) (s : St) (e : Nat) (h : Inv W s) (g : opOk W s (.setExam e) = true) : Inv W (setExam e s) := by
  obtain ⟨h1, h2, h3, h4, h5, h6, h7, h8, h9, h10, h11, h12, h13⟩ := h
  simp only [opOk, Bool.or_eq_true, Option.isNone_iff_eq_none, beq_iff_eq] at g
  constructor <;> (simp only [setExam] at *) <;> (first | assumption | grind)

theorem inv_setZoom (W : World) (s : St) (z : Nat) (h : Inv W s) (g : opOk W s (.setZoom z) = true) : Inv W (setZoom z s) := by
  obtain ⟨h1, h2, h3, h4, h5, h6, h7, h8, h9, h10, h11, h12, h13⟩ := h
  simp only [opOk] at g
  constructor <;> (simp only [setZoom] at *) <;> (first | assumption | grind)

theorem inv_setThr (W : World) (s : St) (t : Nat) (h : Inv W s) (g : opOk W s (.setThr t) = true) : Inv W (setThr t s) := by
  obtain ⟨h1, h2, h3, h4, h5, h6, h7, h8, h9, h10, h11, h12, h13⟩ := h
  simp only [opOk, Bool.or_eq_true, Option.isNone_iff_eq_none, beq_iff_eq] at g
  constructor <;> (simp only [setThr] at *) <;> (first | assumption | grind)

theorem inv_setCacheEnabled (W : World) (s : St) (b : Bool) (h : Inv W s) (g : opOk W s (.setCacheEnabled b) = true) :
    Inv W (setCacheEnabled b s) := by
  obtain ⟨h1, h2, h3, h4, h5, h6, h7, h8, h9, h10, h11, h12, h13⟩ := h
  simp only [opOk] at g
  constructor <;> (simp only [setCacheEnabled] at *) <;> (first | assumption | grind)

theorem inv_setRndPlace (W : World) (s : St) (b : Bool) (h : Inv W s) (g : opOk W s (.setRndPlace b) = true) :
    Inv W (setRndPlace b s) := by
  obtain ⟨h1, h2, h3, h4, h5, h6, h7, h8, h9, h10, h11, h12, h13⟩ := h
  simp only [opOk, Bool.or_eq_true, Option.isNone_iff_eq_none, beq_iff_eq] at g
  constructor <;> (simp only [setRndPlace] at *) <;> (first | assumption | grind)

/-- by file name: `set_exam_info` needs no guard here, the template setter that follows resets
    `detector_efficiency_no_scatter` -/
theorem inv_setTemplateFile (W : World) (s : St) (e : Nat) (t : Tmpl) (h : Inv W s) (g : autoTmplOk W s t = true) :
    Inv W (setTemplateFile e t s) := by
  have hg := autoTmplOk_spec W s t g
  obtain ⟨h1, h2, h3, h4, h5, h6, h7, h8, h9, h10, h11, h12, h13⟩ := h
  constructor <;> (simp only [setTemplateFile, setTemplate, setTemplateVal, setExam] at *) <;> (first | assumption | grind)

theorem inv_setUseCache (W : World) (s : St) (b : Bool) (h : Inv W s) (g : opOk W s (.setUseCache b) = true) :
    Inv W (setUseCache b s) := by
  obtain ⟨h1, h2, h3, h4, h5, h6, h7, h8, h9, h10, h11, h12, h13⟩ := h
  simp only [opOk] at g
  unfold setUseCache
  split
  · constructor <;> assumption
  · constructor <;> (simp only at *) <;> (first | assumption | grind)

theorem inv_setDsBool (W : World) (s : St) (b : Bool) (h : Inv W s) (g : opOk W s (.setDsBool b) = true) :
    Inv W (setDsBool b s) := by
  obtain ⟨h1, h2, h3, h4, h5, h6, h7, h8, h9, h10, h11, h12, h13⟩ := h
  simp only [opOk] at g
  unfold setDsBool
  split
  · constructor <;> (simp only at *) <;> (first | assumption | grind)
  · constructor <;> assumption

theorem inv_setDsRings (W : World) (s : St) (n : Int) (h : Inv W s) : Inv W (setDsRings n s) := by
  obtain ⟨h1, h2, h3, h4, h5, h6, h7, h8, h9, h10, h11, h12, h13⟩ := h
  unfold setDsRings
  split
  · constructor <;> (simp only at *) <;> (first | assumption | grind)
  · constructor <;> assumption

theorem inv_setDsDets (W : World) (s : St) (n : Int) (h : Inv W s) : Inv W (setDsDets n s) := by
  obtain ⟨h1, h2, h3, h4, h5, h6, h7, h8, h9, h10, h11, h12, h13⟩ := h
  unfold setDsDets
  split
  · constructor <;> (simp only at *) <;> (first | assumption | grind)
  · constructor <;> assumption

theorem autoTmplOk_of_noAuto (W : World) (s : St) (t : Tmpl) (g : (s.zoom.isSome || s.autoZ.isNone) = true) :
    autoTmplOk W s t = true := by
  unfold autoTmplOk
  cases hz : s.zoom with
  | some z => simp
  | none =>
    cases ha : s.autoZ with
    | none => simp
    | some c => simp [hz, ha] at g

theorem inv_downsampleScanner (W : World) (s : St) (r d : Int) (h : Inv W s)
    (g : opOk W s (.downsampleScanner r d) = true) : Inv W (downsampleScanner W r d s).1 := by
  unfold downsampleScanner downsampleScannerCore
  cases ht : s.tmpl with
  | none =>
    simp only
    split <;> exact h
  | some t =>
    simp only
    have := inv_setTemplate W s (downsampledTmpl t (dsRingsUsed W s t r) (dsDetsUsed W s t d)) h
      (autoTmplOk_of_noAuto W s _ (by simpa [opOk] using g))
    simpa [setTemplate, setTemplateVal] using this

theorem inv_downsampleSp (W : World) (s : St) (h : Inv W s) : Inv W (downsampleSp W s).1 := by
  unfold downsampleSp
  cases hm : s.att with
  | none => exact h
  | some m =>
    cases hz : s.zoom with
    | some z =>
      obtain ⟨h1, h2, h3, h4, h5, h6, h7, h8, h9, h10, h11, h12, h13⟩ := h
      constructor <;> (simp only [sampleScatterPoints] at *) <;> (first | assumption | grind)
    | none =>
      cases ha : s.autoZ with
      | some cz =>
        obtain ⟨c, z⟩ := cz
        obtain ⟨h1, h2, h3, h4, h5, h6, h7, h8, h9, h10, h11, h12, h13⟩ := h
        constructor <;> (simp only [sampleScatterPoints] at *) <;> (first | assumption | grind)
      | none =>
        cases ht : s.tmpl with
        | none => exact h
        | some t =>
          obtain ⟨h1, h2, h3, h4, h5, h6, h7, h8, h9, h10, h11, h12, h13⟩ := h
          constructor <;> (simp only [sampleScatterPoints] at *) <;>
            (first
              | assumption
              | grind
              | (intro m' c' h
                 simp only [Option.some.injEq, SpProv.auto.injEq] at h
                 obtain ⟨rfl, rfl⟩ := h
                 exact ⟨by first | rfl | trivial | assumption, by first | rfl | trivial | assumption, _, rfl⟩))


theorem initialiseCache_off {σ : Type} (rows cols : Nat) (c : Option (Cache σ)) :
    initialiseCache false rows cols c = c := by simp [initialiseCache]

theorem initialiseCache_on {σ : Type} (rows cols : Nat) (c : Option (Cache σ)) :
    ∃ c', initialiseCache true rows cols c = some c' ∧ c'.rows = rows ∧ c'.cols = cols ∧ (c'.stamps = [] ∨ c = some c') := by
  unfold initialiseCache
  cases c with
  | none => exact ⟨⟨rows, cols, []⟩, by simp⟩
  | some c =>
    by_cases h : c.rows = rows ∧ c.cols = cols
    · exact ⟨c, by simp [h]⟩
    · exact ⟨⟨rows, cols, []⟩, by simp [h]⟩

theorem inv_finishSetUp (W : World) (s : St) (t : Tmpl) (e a m : Nat) (p : SpProv) (h : Inv W s)
    (ht : s.tmpl = some t) (he : s.exam = some e) (ha : s.act = some a) (hm : s.att = some m) (hp : s.spImage = some p)
    (hz : W.zOk a = true) (hmc : s.maxCos = none) : Inv W (finishSetUp W s t) := by
  obtain ⟨h1, h2, h3, h4, h5, h6, h7, h8, h9, h10, h11, h12, h13⟩ := h
  unfold finishSetUp
  have hn : nspOf W s = W.nsp ⟨p, s.thr, s.rnd⟩ := by simp [nspOf, h5 p hp]
  cases hu : s.useCache with
  | false =>
    simp only [initialiseCache_off]
    constructor <;> (simp only at *) <;> (first | assumption | grind)
  | true =>
    obtain ⟨c1, hc1, hr1, hcl1, hs1⟩ := initialiseCache_on (nspOf W s) t.totalDetectors s.attCache
    obtain ⟨c2, hc2, hr2, hcl2, hs2⟩ := initialiseCache_on (nspOf W s) t.totalDetectors s.actCache
    rw [hc1, hc2]
    constructor <;> (simp only at *) <;> (first | assumption | grind)


theorem inv_clearMaxCos (W : World) (s : St) (h : Inv W s) : Inv W { s with maxCos := none } := by
  obtain ⟨h1, h2, h3, h4, h5, h6, h7, h8, h9, h10, h11, h12, h13⟩ := h
  constructor <;> (simp only at *) <;> (first | assumption | grind)

theorem downsampleSp_frame (W : World) (s : St) :
    (downsampleSp W s).1.tmpl = s.tmpl ∧ (downsampleSp W s).1.exam = s.exam ∧ (downsampleSp W s).1.act = s.act ∧
    (downsampleSp W s).1.att = s.att ∧ (downsampleSp W s).1.maxCos = s.maxCos ∧ (downsampleSp W s).1.dsBool = s.dsBool ∧
    ((downsampleSp W s).2 = .ok → ∃ p, (downsampleSp W s).1.spImage = some p) := by
  unfold downsampleSp
  cases hm : s.att with
  | none => simp [hm]
  | some m =>
    cases hz : s.zoom with
    | some z => simp [sampleScatterPoints]
    | none =>
      cases ha : s.autoZ with
      | some cz => obtain ⟨c, z⟩ := cz; simp [sampleScatterPoints]
      | none =>
        cases ht : s.tmpl with
        | none => simp [hm, ht]
        | some t => simp [sampleScatterPoints, ht]

theorem inv_setUp (W : World) (s0 : St) (h0 : Inv W s0) : Inv W (setUp W s0).1 := by
  have h := inv_clearMaxCos W s0 h0
  unfold setUp
  generalize hs : ({ s0 with maxCos := none } : St) = s at h
  have hmc : s.maxCos = none := by rw [← hs]
  have hds : s.dsBool = false := h.dsOff
  simp only
  cases ht : s.tmpl with
  | none => simpa using h
  | some t =>
  cases he : s.exam with
  | none => simpa using h
  | some e =>
  cases ha : s.act with
  | none => simpa using h
  | some a =>
  cases hm : s.att with
  | none => simpa using h
  | some m =>
  simp only [hds, Bool.false_eq_true, if_false, ne_eq, not_true_eq_false]
  cases hp : s.spImage with
  | some p =>
    simp only [Option.isNone_some, Bool.false_eq_true, if_false, ne_eq, not_true_eq_false]
    by_cases hz : W.zOk a = true
    · simp only [hz, Bool.not_true, Bool.false_eq_true, if_false, ht]
      exact inv_finishSetUp W s t e a m p h ht he ha hm hp hz hmc
    · simp only [hz, Bool.not_false, if_true]
      exact h
  | none =>
    have hnot : s.alreadySetUp = false := by
      cases hsu : s.alreadySetUp with
      | false => rfl
      | true => obtain ⟨_, _, _, _, p, _, _, _, _, hp', _⟩ := h.ready hsu; rw [hp] at hp'; cases hp'
    simp only [Option.isNone_none, if_true, hnot, Bool.false_eq_true, if_false]
    have hd := inv_downsampleSp W s h
    obtain ⟨f1, f2, f3, f4, f5, f6, f7⟩ := downsampleSp_frame W s
    by_cases hr : (downsampleSp W s).2 = .ok
    · obtain ⟨p, hp2⟩ := f7 hr
      simp only [hr, ne_eq, not_true_eq_false, if_false]
      by_cases hz : W.zOk a = true
      · simp only [hz, Bool.not_true, Bool.false_eq_true, if_false, f1, ht]
        exact inv_finishSetUp W _ t e a m p hd (f1 ▸ ht) (f2 ▸ he) (f3 ▸ ha) (f4 ▸ hm) hp2 hz (f5 ▸ hmc)
      · simp only [hz, Bool.not_false, if_true]
        exact hd
    · simp only [hr, ne_eq, not_false_eq_true, if_true]
      exact hd



/-- what `process` computes from when every input is current -/
def expectedOut (W : World) (t : Tmpl) (e a m : Nat) (p : SpProv) (thr : Nat) (rnd : Bool) : Out :=
  let sc : ScattProv := ⟨p, thr, rnd⟩
  if W.nsp sc = 0 then
    { tmpl := t, detPts := [t], scatt := some sc, emis := [], atten := [], maxCos := none, eff := ⟨e, t⟩ }
  else
    { tmpl := t, detPts := [t], scatt := some sc, emis := [⟨a, sc, t⟩], atten := [⟨m, sc, t⟩], maxCos := some ⟨e, t⟩, eff := ⟨e, t⟩ }

theorem insertNew_cases {σ : Type} [DecidableEq σ] (x : σ) (l : List σ) (h : l = [] ∨ l = [x]) : insertNew x l = [x] := by
  rcases h with h | h <;> simp [insertNew, h]

theorem process_ok (W : World) (s : St) (h : Inv W s) (hs : s.alreadySetUp = true) :
    ∃ t e a m p, s.tmpl = some t ∧ s.exam = some e ∧ s.act = some a ∧ s.att = some m ∧ s.spImage = some p ∧
      (process W s).2 = (.ok, some (expectedOut W t e a m p s.thr s.rnd)) := by
  obtain ⟨h1, h2, h3, h4, h5, h6, h7, h8, h9, h10, h11, h12, h13⟩ := h
  obtain ⟨t, e, a, m, p, ht, he, ha, hm, hp, hz, hc⟩ := h11 hs
  refine ⟨t, e, a, m, p, ht, he, ha, hm, hp, ?_⟩
  have hsc := h5 p hp
  have hdet := insertNew_cases t s.detPts (h10 t ht)
  have heff : s.effNoScatter.getD ⟨e, t⟩ = ⟨e, t⟩ := by
    cases hx : s.effNoScatter with
    | none => rfl
    | some x => simp [h8 x e t hx he ht]
  have hmax : s.maxCos.getD ⟨e, t⟩ = ⟨e, t⟩ := by
    cases hx : s.maxCos with
    | none => rfl
    | some x => simp [h9 x e t hs hx he ht]
  unfold process expectedOut
  simp only [hs, Bool.not_true, Bool.false_eq_true, if_false, ht, he, ha, hm, hsc, nspOf, hdet, heff, hmax]
  by_cases hn : W.nsp ⟨p, s.thr, s.rnd⟩ = 0
  · simp [hn]
  · simp only [hn, if_false]
    cases hu : s.useCache with
    | false => simp
    | true =>
      obtain ⟨ca, cm, hca, hcm⟩ := hc hu
      obtain ⟨r1, c1, st1⟩ := h6 p ca a t hp hca ha ht
      obtain ⟨r2, c2, st2⟩ := h7 p cm m t hp hcm hm ht
      have i1 := insertNew_cases _ _ st1
      have i2 := insertNew_cases _ _ st2
      simp [hca, hcm, cacheUsable, r1, c1, r2, c2, i1, i2]

theorem inv_process (W : World) (s : St) (h : Inv W s) : Inv W (process W s).1 := by
  by_cases hs : s.alreadySetUp = true
  · obtain ⟨h1, h2, h3, h4, h5, h6, h7, h8, h9, h10, h11, h12, h13⟩ := h
    obtain ⟨t, e, a, m, p, ht, he, ha, hm, hp, hz, hc⟩ := h11 hs
    have hsc := h5 p hp
    have hdet := insertNew_cases t s.detPts (h10 t ht)
    have heff : s.effNoScatter.getD ⟨e, t⟩ = ⟨e, t⟩ := by
      cases hx : s.effNoScatter with
      | none => rfl
      | some x => simp [h8 x e t hx he ht]
    have hmax : s.maxCos.getD ⟨e, t⟩ = ⟨e, t⟩ := by
      cases hx : s.maxCos with
      | none => rfl
      | some x => simp [h9 x e t hs hx he ht]
    unfold process
    simp only [hs, Bool.not_true, Bool.false_eq_true, if_false, ht, he, ha, hm, hsc, nspOf, hdet, heff, hmax]
    by_cases hn : W.nsp ⟨p, s.thr, s.rnd⟩ = 0
    · simp only [hn, if_true]
      constructor <;> (simp only at *) <;> (first | assumption | grind)
    · simp only [hn, if_false]
      cases hu : s.useCache with
      | false =>
        simp only [Bool.false_eq_true, if_false]
        constructor <;> (simp only at *) <;> (first | assumption | grind)
      | true =>
        obtain ⟨ca, cm, hca, hcm⟩ := hc hu
        obtain ⟨r1, c1, st1⟩ := h6 p ca a t hp hca ha ht
        obtain ⟨r2, c2, st2⟩ := h7 p cm m t hp hcm hm ht
        have i1 := insertNew_cases _ _ st1
        have i2 := insertNew_cases _ _ st2
        simp only [hca, hcm, cacheUsable, r1, c1, r2, c2, i1, i2, beq_self_eq_true, Bool.and_self, Bool.not_true,
          Bool.false_eq_true, if_false, if_true, Option.map_some]
        constructor <;> (simp only at *) <;> (first | assumption | grind)
  · have : (process W s).1 = s := by
      unfold process; simp [hs]
    rw [this]; exact h



theorem setDsBool_eq (b : Bool) (s : St) :
    setDsBool b s = { s with dsBool := b, alreadySetUp := if b ≠ s.dsBool then false else s.alreadySetUp } := by
  unfold setDsBool; split
  · next h => simp [h]
  · next h => cases s; simp_all

theorem setDsRings_eq (n : Int) (s : St) :
    setDsRings n s = { s with dsRings := n, alreadySetUp := if n ≠ s.dsRings then false else s.alreadySetUp } := by
  unfold setDsRings; split
  · next h => simp [h]
  · next h => cases s; simp_all

theorem setDsDets_eq (n : Int) (s : St) :
    setDsDets n s = { s with dsDets := n, alreadySetUp := if n ≠ s.dsDets then false else s.alreadySetUp } := by
  unfold setDsDets; split
  · next h => simp [h]
  · next h => cases s; simp_all

theorem setUseCache_eq (b : Bool) (s : St) :
    setUseCache b s = { s with useCache := b, actCache := if b = s.useCache then s.actCache else none,
                               attCache := if b = s.useCache then s.attCache else none } := by
  unfold setUseCache; split
  · next h => cases s; simp_all
  · next h => simp [h]

/-- the state of a freshly configured object, field by field -/
theorem configure_fields (c : St) (t : Tmpl) (e a m : Nat)
    (hg : c.gTmpl = some t) (he : c.exam = some e) (ha : c.act = some a) (hm : c.att = some m) :
    (configure c).tmpl = some t ∧ (configure c).gTmpl = some t ∧ (configure c).exam = some e ∧ (configure c).act = some a ∧
    (configure c).att = some m ∧ (configure c).thr = c.thr ∧ (configure c).rnd = c.rnd ∧ (configure c).zoom = c.zoom ∧ (configure c).useCache = c.useCache ∧
    (configure c).dsBool = c.dsBool ∧ (configure c).alreadySetUp = false ∧ (configure c).effNoScatter = none ∧
    (configure c).maxCos = none ∧ (configure c).detPts = [] ∧ (configure c).actCache = none ∧ (configure c).attCache = none ∧
    (configure c).gSp = c.gSp ∧
    (configure c).spImage = (c.gSp.map SpProv.given) ∧ (configure c).scatt = (c.gSp.map fun i => ⟨.given i, c.thr, c.rnd⟩) ∧
    (configure c).autoZ = none := by
  unfold configure
  simp only [hg, he, ha, hm, setDsBool_eq, setDsRings_eq, setDsDets_eq, setUseCache_eq]
  cases hz : c.zoom <;> cases hs : c.gSp <;>
    simp [setSpImage, sampleScatterPoints, setZoom, setDensity, setActivity, setExam, setTemplate, setTemplateVal, setThr, setRndPlace, init]


theorem inv_configure (W : World) (c : St) (t : Tmpl) (e a m : Nat)
    (hg : c.gTmpl = some t) (he : c.exam = some e) (ha : c.act = some a) (hm : c.att = some m) (hds : c.dsBool = false) :
    Inv W (configure c) := by
  obtain ⟨f1, f2, f3, f4, f5, f6, fr, f7, f8, f9, f10, f11, f12, f13, f14, f15, f16, f17, f18, f19⟩ := configure_fields c t e a m hg he ha hm
  cases hsp : c.gSp with
  | none =>
    simp only [hsp, Option.map_none] at f16 f17 f18
    constructor <;> (first | grind)
  | some i =>
    simp only [hsp, Option.map_some] at f16 f17 f18
    constructor <;> (first | grind)

/-- `set_up` on a complete configuration with a scatter-point image present -/
theorem setUp_some (W : World) (s : St) (t : Tmpl) (e a m : Nat) (p : SpProv)
    (ht : s.tmpl = some t) (he : s.exam = some e) (ha : s.act = some a) (hm : s.att = some m) (hp : s.spImage = some p)
    (hds : s.dsBool = false) (hz : W.zOk a = true) :
    setUp W s = (finishSetUp W { s with maxCos := none } t, .ok) := by
  unfold setUp
  simp [ht, he, ha, hm, hp, hds, hz]

/-- `set_up` on a complete configuration without a scatter-point image: it is derived from the attenuation image -/
theorem setUp_none (W : World) (s : St) (t : Tmpl) (e a m z : Nat)
    (ht : s.tmpl = some t) (he : s.exam = some e) (ha : s.act = some a) (hm : s.att = some m) (hp : s.spImage = none)
    (hzo : s.zoom = some z) (hsu : s.alreadySetUp = false)
    (hds : s.dsBool = false) (hz : W.zOk a = true) :
    setUp W s =
      (finishSetUp W { s with maxCos := none, spImage := some (.down m z), gSp := none, scatt := some ⟨.down m z, s.thr, s.rnd⟩,
                              actCache := none, attCache := none } t, .ok) := by
  unfold setUp
  simp [ht, he, ha, hm, hp, hds, hz, hzo, hsu, downsampleSp, sampleScatterPoints]



/-- … with the default zoom factors: the factors are computed for the current attenuation image and template and stored -/
theorem setUp_none_auto (W : World) (s : St) (t : Tmpl) (e a m : Nat)
    (ht : s.tmpl = some t) (he : s.exam = some e) (ha : s.act = some a) (hm : s.att = some m) (hp : s.spImage = none)
    (hzo : s.zoom = none) (haz : s.autoZ = none) (hsu : s.alreadySetUp = false)
    (hds : s.dsBool = false) (hz : W.zOk a = true) :
    setUp W s =
      (finishSetUp W { s with maxCos := none, spImage := some (.auto m (W.autoClass m t)),
                              autoZ := some (W.autoClass m t, t.rings), gSp := none,
                              scatt := some ⟨.auto m (W.autoClass m t), s.thr, s.rnd⟩,
                              actCache := none, attCache := none } t, .ok) := by
  unfold setUp
  simp [ht, he, ha, hm, hp, hds, hz, hzo, haz, hsu, downsampleSp, sampleScatterPoints]

theorem freshOut_of_setUp (W : World) (c s1 : St) (o : Option Out) (h1 : setUp W (configure c) = (s1, .ok))
    (h2 : (process W s1).2 = (.ok, o)) : freshOut W c = (.ok, o) := by
  unfold freshOut
  rw [h1]
  simp only [ne_eq, not_true_eq_false, if_false]
  rw [← h2]

theorem fresh_from (W : World) (c s1 : St) (t : Tmpl) (e a m : Nat) (p : SpProv)
    (hset : setUp W (configure c) = (s1, .ok)) (hinv : Inv W s1) (hsu : s1.alreadySetUp = true)
    (ht : s1.tmpl = some t) (he : s1.exam = some e) (ha : s1.act = some a) (hm : s1.att = some m)
    (hp : s1.spImage = some p) (hthr : s1.thr = c.thr) (hrnd : s1.rnd = c.rnd) :
    freshOut W c = (.ok, some (expectedOut W t e a m p c.thr c.rnd)) := by
  obtain ⟨t', e', a', m', p', ht', he', ha', hm', hp', hres⟩ := process_ok W s1 hinv hsu
  rw [ht] at ht'; rw [he] at he'; rw [ha] at ha'; rw [hm] at hm'; rw [hp] at hp'
  cases ht'; cases he'; cases ha'; cases hm'; cases hp'
  rw [hthr, hrnd] at hres
  exact freshOut_of_setUp W c s1 _ hset hres

/-- on a state that satisfies the invariant and is set up, a freshly configured object computes from exactly
    the current inputs -/
theorem freshOut_eq (W : World) (c : St) (h : Inv W c) (hs : c.alreadySetUp = true) :
    ∃ t e a m p, c.tmpl = some t ∧ c.exam = some e ∧ c.act = some a ∧ c.att = some m ∧ c.spImage = some p ∧
      freshOut W c = (.ok, some (expectedOut W t e a m p c.thr c.rnd)) := by
  obtain ⟨t, e, a, m, p, ht, he, ha, hm, hp, hz, _⟩ := h.ready hs
  refine ⟨t, e, a, m, p, ht, he, ha, hm, hp, ?_⟩
  have hg : c.gTmpl = some t := by rw [h.gTmpl, ht]
  have hds := h.dsOff
  obtain ⟨f1, f2, f3, f4, f5, f6, fr, f7, f8, f9, f10, f11, f12, f13, f14, f15, f16, f17, f18, f19⟩ := configure_fields c t e a m hg he ha hm
  have hic := inv_configure W c t e a m hg he ha hm hds
  have hsu := inv_setUp W (configure c) hic
  cases p with
  | given i =>
    have hgs : c.gSp = some i := by have := h.gSp; rw [hp] at this; exact this
    rw [hgs] at f17
    simp only [Option.map_some] at f17
    have hset := setUp_some W (configure c) t e a m (.given i) f1 f3 f4 f5 f17 (f9 ▸ hds) hz
    rw [hset] at hsu
    exact fresh_from W c _ t e a m (.given i) hset hsu (by simp [finishSetUp]) (by simp [finishSetUp, f1])
      (by simp [finishSetUp, f3]) (by simp [finishSetUp, f4]) (by simp [finishSetUp, f5]) (by simp [finishSetUp, f17])
      (by simp [finishSetUp, f6]) (by simp [finishSetUp, fr])
  | down m' z =>
    obtain ⟨hm', hzo⟩ := h.spDown m' z hp
    have : m' = m := by rw [hm] at hm'; exact (Option.some.inj hm').symm
    subst this
    have hgs : c.gSp = none := by have := h.gSp; rw [hp] at this; exact this
    rw [hgs] at f17
    simp only [Option.map_none] at f17
    have hset := setUp_none W (configure c) t e a m' z f1 f3 f4 f5 f17 (f7 ▸ hzo) f10 (f9 ▸ hds) hz
    rw [hset] at hsu
    exact fresh_from W c _ t e a m' (.down m' z) hset hsu (by simp [finishSetUp]) (by simp [finishSetUp, f1])
      (by simp [finishSetUp, f3]) (by simp [finishSetUp, f4]) (by simp [finishSetUp, f5]) (by simp [finishSetUp])
      (by simp [finishSetUp, f6]) (by simp [finishSetUp, fr])
  | auto m' k =>
    obtain ⟨hm', hzo, z, haz⟩ := h.spAuto m' k hp
    have : m' = m := by rw [hm] at hm'; exact (Option.some.inj hm').symm
    subst this
    have hk : k = W.autoClass m' t := h.autoZ k z m' t hzo haz hm ht
    subst hk
    have hgs : c.gSp = none := by have := h.gSp; rw [hp] at this; exact this
    rw [hgs] at f17
    simp only [Option.map_none] at f17
    have hset := setUp_none_auto W (configure c) t e a m' f1 f3 f4 f5 f17 (f7 ▸ hzo) f19 f10 (f9 ▸ hds) hz
    rw [hset] at hsu
    exact fresh_from W c _ t e a m' (.auto m' (W.autoClass m' t)) hset hsu (by simp [finishSetUp]) (by simp [finishSetUp, f1])
      (by simp [finishSetUp, f3]) (by simp [finishSetUp, f4]) (by simp [finishSetUp, f5]) (by simp [finishSetUp])
      (by simp [finishSetUp, f6]) (by simp [finishSetUp, fr])


/-! ### histories -/

theorem inv_step (W : World) (s : St) (op : Op) (h : Inv W s) (g : opOk W s op = true) : Inv W (step W s op).1 := by
  cases op with
  | setTemplate t => exact inv_setTemplate W s t h g
  | setActivity k => exact inv_setActivity W s k h
  | setDensity k => exact inv_setDensity W s k h g
  | setSpImage k => exact inv_setSpImage W s k h
  | setActivityInPlace a => exact inv_setActivity W s (some a) h
  | setDensityInPlace m => exact inv_setDensity W s (some m) h g
  | setSpImageInPlace i => exact inv_setSpImage W s (some i) h
  | setExam e => exact inv_setExam W s e h g
  | setZoom z => exact inv_setZoom W s z h g
  | setThr t => exact inv_setThr W s t h g
  | setCacheEnabled b => exact inv_setCacheEnabled W s b h g
  | setUseCache b => exact inv_setUseCache W s b h g
  | setRndPlace b => exact inv_setRndPlace W s b h g
  | setTemplateFile e t => exact inv_setTemplateFile W s e t h g
  | setDsBool b => exact inv_setDsBool W s b h g
  | setDsRings n => exact inv_setDsRings W s n h
  | setDsDets n => exact inv_setDsDets W s n h
  | downsampleScanner r d => exact inv_downsampleScanner W s r d h g
  | downsampleSp => exact inv_downsampleSp W s h
  | setUp => exact inv_setUp W s h
  | process => exact inv_process W s h

theorem inv_runGuarded (W : World) (ops : List Op) (s s' : St) (h : Inv W s) (hr : runGuarded W s ops = some s') :
    Inv W s' := by
  induction ops generalizing s with
  | nil => simp only [runGuarded, Option.some.injEq] at hr; exact hr ▸ h
  | cons op rest ih =>
    unfold runGuarded at hr
    by_cases g : opOk W s op = true
    · simp only [g, Bool.not_true, Bool.false_eq_true, if_false] at hr
      have hi := inv_step W s op h g
      generalize hst : step W s op = x at hr hi
      obtain ⟨s1, r, o⟩ := x
      cases r <;> simp only at hr <;> first | exact ih s1 hi hr | cases hr
    · simp [g] at hr

/-! ### enabling the cache on a set-up object, `set_up` next -/

/-- the state right after the cache was enabled on an object that was set up with the cache disabled: the invariant
    holds except that the arrays are not allocated -/
def Pending (W : World) (s : St) : Prop :=
  ∃ s0, Inv W s0 ∧ s0.alreadySetUp = true ∧ s0.useCache = false ∧ (s = setCacheEnabled true s0 ∨ s = setUseCache true s0)

theorem finishSetUp_congr (W : World) (s : St) (t : Tmpl) (b : Bool) :
    finishSetUp W { s with alreadySetUp := b } t = finishSetUp W s t := by
  simp [finishSetUp, nspOf]

/-- … the `set_up` that follows succeeds and restores the invariant: `initialise_cache_…` allocates what is missing and
    keeps an array of the right size, which can only hold current values (every setter removed "its" array whether or
    not the cache was enabled) -/
theorem pending_setUp (W : World) (s : St) (h : Pending W s) : (setUp W s).2 = .ok ∧ Inv W (setUp W s).1 := by
  obtain ⟨s0, hinv, hsu, huc, hs⟩ := h
  obtain ⟨t, e, a, m, p, ht, he, ha, hm, hp, hz, _⟩ := hinv.ready hsu
  have hds := hinv.dsOff
  have key : ∀ s1 : St, s1.tmpl = some t → s1.exam = some e → s1.act = some a → s1.att = some m → s1.spImage = some p →
      s1.dsBool = false → Inv W { s1 with alreadySetUp := false, maxCos := none } →
      (setUp W s1).2 = .ok ∧ Inv W (setUp W s1).1 := by
    intro s1 h1 h2 h3 h4 h5 h6 hi
    rw [setUp_some W s1 t e a m p h1 h2 h3 h4 h5 h6 hz]
    refine ⟨rfl, ?_⟩
    have := inv_finishSetUp W { s1 with alreadySetUp := false, maxCos := none } t e a m p hi h1 h2 h3 h4 h5 hz rfl
    have hc := finishSetUp_congr W { s1 with maxCos := none } t false
    simp only at hc this ⊢
    rw [← hc]
    exact this
  rcases hs with hs | hs
  · subst hs
    refine key _ ht he ha hm hp hds ?_
    obtain ⟨h1, h2, h3, h4, h5, h6, h7, h8, h9, h10, h11, h12, h13⟩ := hinv
    constructor <;> (simp only [setCacheEnabled] at *) <;> (first | assumption | grind)
  · subst hs
    have hne : ¬ (true = s0.useCache) := by simp [huc]
    refine key _ (by simp [setUseCache, hne, ht]) (by simp [setUseCache, hne, he]) (by simp [setUseCache, hne, ha])
      (by simp [setUseCache, hne, hm]) (by simp [setUseCache, hne, hp]) (by simp [setUseCache, hne, hds]) ?_
    obtain ⟨h1, h2, h3, h4, h5, h6, h7, h8, h9, h10, h11, h12, h13⟩ := hinv
    simp only [setUseCache, hne, if_false]
    constructor <;> (simp only at *) <;> (first | assumption | grind)

theorem not_opOk_enable (s : St) (op : Op) (g : ¬ opOk W s op = true) (he : isEnable op = true) :
    s.alreadySetUp = true ∧ s.useCache = false ∧ (op = .setCacheEnabled true ∨ op = .setUseCache true) := by
  cases op with
  | setCacheEnabled b => cases b <;> simp_all [isEnable, opOk]
  | setUseCache b => cases b <;> simp_all [isEnable, opOk]
  | _ => simp [isEnable] at he

theorem inv_runGuarded2 (W : World) (ops : List Op) (s s' : St)
    (h : Inv W s ∨ (Pending W s ∧ nextIsSetUp ops = true)) (hr : runGuarded2 W s ops = some s') : Inv W s' := by
  induction ops generalizing s with
  | nil =>
    rcases h with h | ⟨_, hn⟩
    · simp only [runGuarded2, Option.some.injEq] at hr; exact hr ▸ h
    · simp [nextIsSetUp] at hn
  | cons op rest ih =>
    unfold runGuarded2 at hr
    rcases h with h | ⟨hp, hn⟩
    · by_cases g : opOk W s op = true
      · simp only [g, Bool.true_or, Bool.not_true, Bool.false_eq_true, if_false] at hr
        have hi := inv_step W s op h g
        generalize hst : step W s op = x at hr hi
        obtain ⟨s1, r, o⟩ := x
        cases r <;> simp only at hr <;> first | exact ih s1 (Or.inl hi) hr | cases hr
      · have g' : opOk W s op = false := by simpa using g
        by_cases hen : (isEnable op && nextIsSetUp rest) = true
        · simp only [g', hen, Bool.or_true, Bool.not_true, Bool.false_eq_true, if_false] at hr
          simp only [Bool.and_eq_true] at hen
          obtain ⟨hsu, huc, hop⟩ := not_opOk_enable s op g hen.1
          rcases hop with hop | hop <;> subst hop
          · simp only [step] at hr
            exact ih _ (Or.inr ⟨⟨s, h, hsu, huc, Or.inl rfl⟩, hen.2⟩) hr
          · simp only [step] at hr
            exact ih _ (Or.inr ⟨⟨s, h, hsu, huc, Or.inr rfl⟩, hen.2⟩) hr
        · have : (isEnable op && nextIsSetUp rest) = false := by simpa using hen
          simp [g', this] at hr
    · have hop : op = .setUp := by
        cases op <;> simp [nextIsSetUp] at hn
        rfl
      subst hop
      obtain ⟨hok, hi⟩ := pending_setUp W s hp
      simp only [opOk, Bool.true_or, Bool.not_true, Bool.false_eq_true, if_false, step] at hr
      generalize hst : setUp W s = x at hr hi hok
      obtain ⟨s1, r⟩ := x
      simp only at hok hi
      subst hok
      simp only at hr
      exact ih s1 (Or.inl hi) hr

/-- the weaker guard admits every history the stronger one admits -/
theorem runGuarded2_of_runGuarded (W : World) (ops : List Op) (s s' : St) (hr : runGuarded W s ops = some s') :
    runGuarded2 W s ops = some s' := by
  induction ops generalizing s with
  | nil => simpa [runGuarded, runGuarded2] using hr
  | cons op rest ih =>
    unfold runGuarded at hr
    unfold runGuarded2
    by_cases g : opOk W s op = true
    · simp only [g, Bool.not_true, Bool.false_eq_true, if_false, Bool.true_or] at hr ⊢
      generalize hst : step W s op = x at hr ⊢
      obtain ⟨s1, r, o⟩ := x
      cases r <;> simp only at hr ⊢ <;> first | exact ih s1 hr | cases hr
    · simp [g] at hr

/-- under the invariant `process` does not crash, and if it succeeds its provenance is that of a fresh object -/
theorem process_eq_fresh (W : World) (s : St) (h : Inv W s) :
    (process W s).2.1 ≠ .crash ∧ ∀ o, (process W s).2 = (.ok, some o) → freshOut W s = (.ok, some o) := by
  by_cases hs : s.alreadySetUp = true
  · obtain ⟨t, e, a, m, p, ht, he, ha, hm, hp, hres⟩ := process_ok W s h hs
    obtain ⟨t', e', a', m', p', ht', he', ha', hm', hp', hf⟩ := freshOut_eq W s h hs
    rw [ht] at ht'; rw [he] at he'; rw [ha] at ha'; rw [hm] at hm'; rw [hp] at hp'
    cases ht'; cases he'; cases ha'; cases hm'; cases hp'
    refine ⟨by rw [hres]; simp, ?_⟩
    intro o ho
    rw [hres] at ho
    cases ho
    exact hf
  · have : process W s = (s, .err, none) := by unfold process; simp [hs]
    rw [this]
    exact ⟨by simp, by intro o ho; cases ho⟩

end StirVerif.C16
