import StirVerif.C16.Model
/-! C16 — the setter table describes the setter functions of the state machine: what a row does not list as
modified / cleared / recomputed is left alone by the function, what it lists as cleared is cleared, and
`_already_set_up` is reset exactly when the row says so. (So the finite checks on the table are checks on the
functions that the correspondence run compares with the C++.) -/
namespace StirVerif.C16

/-- the value of a setting -/
inductive CVal where
  | optNat (v : Option Nat) | nat (v : Nat) | bool (v : Bool) | int (v : Int) | tmpl (v : Option Tmpl) | notModelled
  /-- the four members `zoom_xy`, `zoom_z`, `zoom_size_xy`, `zoom_size_z`: a parameter set, or what the automatic call stored -/
  | zoomMem (z : Option Nat) (a : Option (Nat × Nat))
  deriving DecidableEq

def St.comp (s : St) : Comp → CVal
  | .act => .optNat s.act
  | .att => .optNat s.att
  | .spGiven => .optNat s.gSp
  | .tmpl => .tmpl s.tmpl
  | .exam => .optNat s.exam
  | .thr => .nat s.thr
  | .rndPlace => .bool s.rnd
  | .zoom => .zoomMem s.zoom s.autoZ
  | .useCache => .bool s.useCache
  | .dsFlag => .bool s.dsBool
  | .dsRings => .int s.dsRings
  | .dsDets => .int s.dsDets

/-- the value of a derived member -/
inductive DVal where
  | sp (v : Option SpProv) | sc (v : Option ScattProv) | dp (v : List Tmpl)
  | ac (v : Option (Cache ActStamp)) | tc (v : Option (Cache AttStamp)) | en (v : Option EnergyStamp)
  deriving DecidableEq

def St.datum (s : St) : Datum → DVal
  | .spImage => .sp s.spImage
  | .scatt => .sc s.scatt
  | .detPts => .dp s.detPts
  | .actCache => .ac s.actCache
  | .attCache => .tc s.attCache
  | .effNoScatter => .en s.effNoScatter
  | .maxCos => .en s.maxCos

def DVal.isCleared : DVal → Bool
  | .sp none | .sc none | .dp [] | .ac none | .tc none | .en none => true
  | _ => false

/-- the table row of an operation of the state machine -/
def rowName : Op → Option String
  | .setTemplate _ => some "set_template_proj_data_info"
  | .setActivity _ => some "set_activity_image_sptr"
  | .setDensity _ => some "set_density_image_sptr"
  | .setSpImage _ => some "set_density_image_for_scatter_points_sptr"
  | .setActivityInPlace _ => some "set_activity_image_sptr"
  | .setDensityInPlace _ => some "set_density_image_sptr"
  | .setSpImageInPlace _ => some "set_density_image_for_scatter_points_sptr"
  | .setExam _ => some "set_exam_info"
  | .setZoom _ => some "set_image_downsample_factors"
  | .setThr _ => some "set_attenuation_threshold"
  | .setCacheEnabled _ => some "set_cache_enabled"
  | .setUseCache _ => some "set_use_cache"
  | .setRndPlace _ => some "set_randomly_place_scatter_points"
  | .setTemplateFile _ _ => some "set_template_proj_data_info(filename)"
  | .setDsBool _ => some "set_downsample_scanner_bool"
  | .setDsRings _ => some "set_num_downsample_scanner_rings"
  | .setDsDets _ => some "set_num_downsample_scanner_dets"
  | .downsampleScanner _ _ => some "downsample_scanner"
  | .downsampleSp => some "downsample_density_image_for_scatter_points"
  | .setUp => none
  | .process => none

def rowOf (op : Op) : Option SetterRow :=
  match rowName op with
  | none => none
  | some n => setterTable.find? (·.name == n)

/-- what "the row describes the function" means for one operation on one state -/
def Faithful (W : World) (s : St) (op : Op) (f : SetterRow) : Prop :=
  let s' := (step W s op).1
  (∀ c, c ∉ f.modifies → s'.comp c = s.comp c) ∧
  (∀ d, d ∉ f.clears → d ∉ f.recomputes → s'.datum d = s.datum d) ∧
  (s' = s ∨ ((∀ d ∈ f.clears, (s'.datum d).isCleared = true) ∧ (f.resetsSetUp = true → s'.alreadySetUp = false))) ∧
  (f.resetsSetUp = false → s'.alreadySetUp = s.alreadySetUp)

macro "unfold_setters" : tactic =>
  `(tactic| simp_all [St.comp, St.datum, DVal.isCleared, step, setTemplate, setTemplateVal, setActivity, setDensity, setSpImage,
      sampleScatterPoints, setActivityInPlace, setDensityInPlace, setSpImageInPlace, mutateActivity, mutateDensity, setExam, setZoom, setThr, setCacheEnabled, setUseCache, setRndPlace, setTemplateFile, setDsBool, setDsRings, setDsDets,
      downsampleScanner, downsampleScannerCore, downsampleSp])

macro "frame_c" : tactic => `(tactic| (intro c hc; cases c <;> unfold_setters))
macro "frame_d" : tactic => `(tactic| (intro d hd hd'; cases d <;> unfold_setters))
macro "reset_part" : tactic => `(tactic| (intro h; first | (simp at h; done) | unfold_setters))

/-- an unconditional setter: the cleared data are cleared, `_already_set_up` is reset if the row says so -/
macro "always_clears" : tactic =>
  `(tactic| (right; refine ⟨?_, ?_⟩
             · intro d hd; cases d <;> unfold_setters
             · intro _; unfold_setters))

theorem faithful_of_unchanged (W : World) (s : St) (op : Op) (f : SetterRow) (h : (step W s op).1 = s) :
    Faithful W s op f := by
  refine ⟨?_, ?_, Or.inl h, ?_⟩ <;> (simp only [h]; simp)

macro "changed" : tactic => `(tactic| exact ⟨by frame_c, by frame_d, by always_clears, by reset_part⟩)

theorem table_faithful (W : World) (s : St) (op : Op) (f : SetterRow) (hf : rowOf op = some f) : Faithful W s op f := by
  cases op <;> simp only [rowOf, rowName, setterTable, List.find?] at hf <;> cases hf
  case setTemplate t => changed
  case setActivity k =>
    cases k with
    | none => exact faithful_of_unchanged W s _ _ rfl
    | some k => changed
  case setDensity k =>
    cases k with
    | none => exact faithful_of_unchanged W s _ _ rfl
    | some k => changed
  case setSpImage k =>
    cases k with
    | none => exact faithful_of_unchanged W s _ _ rfl
    | some k => changed
  case setActivityInPlace a => changed
  case setDensityInPlace m => changed
  case setSpImageInPlace i => changed
  case setExam e => changed
  case setZoom z => changed
  case setThr t => changed
  case setCacheEnabled b => changed
  case setRndPlace b => changed
  case setTemplateFile e t => changed
  case setUseCache b =>
    by_cases h : b = s.useCache
    · exact faithful_of_unchanged W s _ _ (by simp [step, setUseCache, h])
    · changed
  case setDsBool b =>
    by_cases h : b = s.dsBool
    · exact faithful_of_unchanged W s _ _ (by simp [step, setDsBool, h])
    · changed
  case setDsRings n =>
    by_cases h : n = s.dsRings
    · exact faithful_of_unchanged W s _ _ (by simp [step, setDsRings, h])
    · changed
  case setDsDets n =>
    by_cases h : n = s.dsDets
    · exact faithful_of_unchanged W s _ _ (by simp [step, setDsDets, h])
    · changed
  case downsampleScanner r d =>
    cases ht : s.tmpl with
    | none =>
      refine faithful_of_unchanged W s _ _ ?_
      simp only [step, downsampleScanner, downsampleScannerCore, ht]
      split <;> simp
    | some t => changed
  case downsampleSp =>
    cases hm : s.att with
    | none => exact faithful_of_unchanged W s _ _ (by simp [step, downsampleSp, hm])
    | some m =>
      cases hz : s.zoom with
      | some z => changed
      | none =>
        cases ha : s.autoZ with
        | some cz => obtain ⟨c, z⟩ := cz; changed
        | none =>
          cases ht : s.tmpl with
          | none => exact faithful_of_unchanged W s _ _ (by simp [step, downsampleSp, hm, hz, ha, ht])
          | some t => changed

end StirVerif.C16
