/-
C17 — print → parse round trip, line level: the line(s) that `parameter_info` prints for a key, parsed by
`parse_value_in_line` + `set_variable`, store the printed value; vectorised keys store at the printed index.
-/
import StirVerif.C17.ProofsRound

namespace StirVerif.C17

/-- the value of a non-vectorised key as it appears on its line of `parameter_info` (lists: without the `endl`) -/
def valueText : Var → Str
  | .int n => showInt n
  | .bool b => if b then ['1'] else ['0']
  | .ascii s => s
  | .ints l => '{' :: (intercalateStr sepCS (l.map showInt) ++ ['}'])
  | .strs l => '{' :: (intercalateStr sepCS l ++ ['}'])
  | _ => []

/-- the printed value is the value text, for lists followed by the `std::endl` of `operator<<(vector)` -/
theorem valueToStream_scalar (v : Var) (h : match v with | .int _ | .bool _ | .ascii _ => True | _ => False) :
    valueToStream v = valueText v := by
  cases v <;> first | rfl | exact absurd h (by simp)

theorem valueToStream_ints (l : List Int) : valueToStream (.ints l) = valueText (.ints l) ++ ['\n'] := by
  simp [valueToStream, valueText, showList, sepCS]

theorem valueToStream_strs (l : List Str) : valueToStream (.strs l) = valueText (.strs l) ++ ['\n'] := by
  simp [valueToStream, valueText, showList, sepCS]

/-- a string value that survives: not empty, no blank or tab at either end -/
def CleanStr (s : Str) : Prop := s ≠ [] ∧ s.dropWhile isBlank = s ∧ dropEndWhile isBlank s = s

/-- values for which printing is injective enough to be read back -/
def Printable : Var → Prop
  | .int n => InIntRange n
  | .bool _ => True
  | .ascii s => CleanStr s
  | .ints l => ∀ x ∈ l, InIntRange x
  | .strs l => ∀ e ∈ l, CleanElem e
  | .vInt l => ∀ x ∈ l, InIntRange x
  | .vAscii l => ∀ s ∈ l, CleanStr s
  | .vInts l => ∀ x ∈ l, ∀ y ∈ x, InIntRange y
  | _ => False

/-- same `KeyArgument` type (and, for vectorised keys, same size) -/
def SameKind : Var → Var → Prop
  | .none, .none => True
  | .int _, .int _ => True
  | .bool _, .bool _ => True
  | .ascii _, .ascii _ => True
  | .ints _, .ints _ => True
  | .strs _, .strs _ => True
  | .vInt a, .vInt b => a.length = b.length
  | .vAscii a, .vAscii b => a.length = b.length
  | .vInts a, .vInts b => a.length = b.length
  | _, _ => False

theorem plainKey_snoc_space (k : Str) (hk : PlainKey k) : PlainKey (k ++ [' ']) := by
  intro c hc
  rcases List.mem_append.mp hc with h | h
  · exact hk c h
  · simp at h; subst h; decide

theorem line_shape (k x : Str) : k ++ assign ++ x = (k ++ [' ']) ++ ':' :: '=' :: (' ' :: x) := by
  simp [assign]

theorem readInt_space (s : Str) : readInt (' ' :: s) = readInt s :=
  readInt_skip_ws [' '] s (by intro c hc; simp at hc; subst hc; rfl)

theorem getIntParam_line (k : Str) (hk : PlainKey k) (n : Int) (hn : InIntRange n) :
    getIntParam (k ++ assign ++ showInt n) = some n := by
  rw [line_shape, getIntParam_assign _ _ (plainKey_snoc_space k hk), readInt_space]
  have := readInt_showInt n hn [] noDigitHead_nil
  simp at this
  rw [this]

theorem getStringParam_line (k : Str) (hk : PlainKey k) (s : Str) (hs : CleanStr s) :
    getStringParam (k ++ assign ++ s) = some s := by
  rw [line_shape, getStringParam_assign _ _ (plainKey_snoc_space k hk)]
  have e : (' ' :: s).dropWhile isBlank = s := by
    rw [List.dropWhile_cons]; simp [isBlank, hs.2.1]
  have hne : s.isEmpty = false := by
    cases s with
    | nil => exact absurd rfl hs.1
    | cons _ _ => rfl
  rw [e, hne]
  simp [trimBlanks, e, hs.2.2]

theorem getIntListParam_line (k : Str) (hk : PlainKey k) (l : List Int) (hl : ∀ x ∈ l, InIntRange x) :
    getIntListParam (k ++ assign ++ valueText (.ints l)) = some l := by
  rw [line_shape]
  unfold getIntListParam
  rw [afterEq_assign _ _ (plainKey_snoc_space k hk)]
  simp only [valueText]
  have : (' ' :: '{' :: (intercalateStr sepCS (l.map showInt) ++ ['}'])).dropWhile isBlank
      = '{' :: (intercalateStr sepCS (l.map showInt) ++ ['}']) := by
    simp [List.dropWhile_cons, isBlank]
  rw [this]
  simp [readIntList_print l hl]

theorem getStringListParam_line (k : Str) (hk : PlainKey k) (l : List Str) (hl : ∀ e ∈ l, CleanElem e) :
    getStringListParam (k ++ assign ++ valueText (.strs l)) = some l := by
  rw [line_shape]
  unfold getStringListParam
  rw [afterEq_assign _ _ (plainKey_snoc_space k hk)]
  simp only [valueText]
  have : (' ' :: '{' :: (intercalateStr sepCS l ++ ['}'])).dropWhile isBlank = '{' :: (intercalateStr sepCS l ++ ['}']) := by
    simp [List.dropWhile_cons, isBlank]
  rw [this]
  simp [readStringList_print l hl]

theorem getIndex_line (k x : Str) (hk : PlainKey k) : getIndex (k ++ assign ++ x) = 0 := by
  rw [line_shape]
  exact getIndex_assign _ _ (plainKey_snoc_space k hk)

/-- **line round trip, scalar and list keys**: the line printed for a key, read back into a variable of the
    same type, stores the printed value -/
theorem setVariable_printed (k : Str) (hk : PlainKey k) (v0 v : Var) (hv : Printable v) (hs : SameKind v0 v)
    (hnv : v.vectorised = false) :
    setVariable v0 (valueFor v0 (k ++ assign ++ valueText v)) (getIndex (k ++ assign ++ valueText v)) = some v := by
  rw [getIndex_line k _ hk]
  cases v with
  | none => exact absurd hv (by simp [Printable])
  | choice _ _ => exact absurd hv (by simp [Printable])
  | vInt _ => simp [Var.vectorised] at hnv
  | vAscii _ => simp [Var.vectorised] at hnv
  | vInts _ => simp [Var.vectorised] at hnv
  | int n =>
    cases v0 <;> simp only [SameKind] at hs
    simp only [valueFor, valueText, getIntParam_line k hk n hv]
    simp [setVariable, setScalar]
  | bool b =>
    cases v0 <;> simp only [SameKind] at hs
    cases b
    · have e0 : valueText (.bool false) = showInt 0 := by decide
      rw [e0]
      simp only [valueFor, getIntParam_line k hk 0 (by unfold InIntRange; omega)]
      simp [setVariable, setScalar]
    · have e0 : valueText (.bool true) = showInt 1 := by decide
      rw [e0]
      simp only [valueFor, getIntParam_line k hk 1 (by unfold InIntRange; omega)]
      simp [setVariable, setScalar]
  | ascii s =>
    cases v0 <;> simp only [SameKind] at hs
    simp only [valueFor, valueText, getStringParam_line k hk s hv]
    simp [setVariable, setScalar]
  | ints l =>
    cases v0 <;> simp only [SameKind] at hs
    simp only [valueFor, getIntListParam_line k hk l hv]
    simp [setVariable, setScalar]
  | strs l =>
    cases v0 <;> simp only [SameKind] at hs
    simp only [valueFor, getStringListParam_line k hk l hv]
    simp [setVariable, setScalar]

/-! ### vectorised keys: `key[i] := value` -/

theorem afterEq_prefix (pre rest : Str) (h : ∀ c ∈ pre, c ≠ '=') : afterEq (pre ++ '=' :: rest) = some rest := by
  unfold afterEq
  have : (pre ++ '=' :: rest).dropWhile (fun c => c != '=') = '=' :: rest := by
    rw [List.dropWhile_append_of_pos (by intro c hc; simp [h c hc])]
    simp
  rw [this]

/-- the text in front of the `=` of a printed vectorised line -/
def indexedPrefix (k : Str) (i : Nat) : Str := k ++ '[' :: (showNat i ++ [']', ' ', ':'])

theorem indexedPrefix_noEq (k : Str) (hk : PlainKey k) (i : Nat) : ∀ c ∈ indexedPrefix k i, c ≠ '=' := by
  intro c hc
  unfold indexedPrefix at hc
  rcases List.mem_append.mp hc with h | h
  · exact (hk c h).2.2
  · rcases List.mem_cons.mp h with h | h
    · subst h; decide
    · rcases List.mem_append.mp h with h | h
      · have := isDigit_toNat (showNat_isDigit i c h)
        exact ne_of_toNat_ne (by simp; omega)
      · simp at h
        rcases h with h | h | h <;> subst h <;> decide

/-- the line printed by `vectorised_value_to_stream` for element `i` (1-based) -/
def indexedLine (k : Str) (i : Nat) (x : Str) : Str := k ++ '[' :: (showNat i ++ ']' :: (assign ++ x))

theorem indexedLine_eq (k : Str) (i : Nat) (x : Str) : indexedLine k i x = indexedPrefix k i ++ '=' :: (' ' :: x) := by
  simp [indexedLine, indexedPrefix, assign]

theorem getIndex_indexedLine (k : Str) (hk : PlainKey k) (i : Nat) (hi : i ≤ 2147483647) (x : Str) :
    getIndex (indexedLine k i x) = i :=
  getIndex_bracket k _ i hk hi

theorem valueFor_indexed_int (k : Str) (hk : PlainKey k) (i : Nat) (l0 : List Int) (n : Int) (hn : InIntRange n) :
    valueFor (.vInt l0) (indexedLine k i (showInt n)) = .int n := by
  simp only [valueFor, getIntParam, indexedLine_eq, afterEq_prefix _ _ (indexedPrefix_noEq k hk i), readInt_space]
  have := readInt_showInt n hn [] noDigitHead_nil
  simp at this
  rw [this]

theorem valueFor_indexed_str (k : Str) (hk : PlainKey k) (i : Nat) (l0 : List Str) (s : Str) (hs : CleanStr s) :
    valueFor (.vAscii l0) (indexedLine k i s) = .str s := by
  simp only [valueFor, getStringParam, indexedLine_eq, afterEq_prefix _ _ (indexedPrefix_noEq k hk i)]
  have e : (' ' :: s).dropWhile isBlank = s := by
    rw [List.dropWhile_cons]; simp [isBlank, hs.2.1]
  rw [e]
  cases s with
  | nil => exact absurd rfl hs.1
  | cons c t => simp [hs.2.2]

theorem valueFor_indexed_ints (k : Str) (hk : PlainKey k) (i : Nat) (l0 : List (List Int)) (l : List Int)
    (hl : ∀ x ∈ l, InIntRange x) :
    valueFor (.vInts l0) (indexedLine k i (valueText (.ints l))) = .ints l := by
  simp only [valueFor, getIntListParam, indexedLine_eq, afterEq_prefix _ _ (indexedPrefix_noEq k hk i), valueText]
  have : (' ' :: '{' :: (intercalateStr sepCS (l.map showInt) ++ ['}'])).dropWhile isBlank
      = '{' :: (intercalateStr sepCS (l.map showInt) ++ ['}']) := by
    simp [List.dropWhile_cons, isBlank]
  rw [this]
  simp [readIntList_print l hl]

/-- **vectorised keys are stored at the index given**: the line `key[i] := n` (as printed) stores `n` in element `i`
    (1-based) of a vector that has at least `i` elements, changes nothing else, never changes the size,
    and is an `error()` otherwise -/
theorem setVariable_indexed_int (k : Str) (hk : PlainKey k) (i : Nat) (hi0 : 1 ≤ i) (hi : i ≤ 2147483647)
    (l0 : List Int) (n : Int) (hn : InIntRange n) :
    setVariable (.vInt l0) (valueFor (.vInt l0) (indexedLine k i (showInt n))) (getIndex (indexedLine k i (showInt n)))
      = if i ≤ l0.length then some (.vInt (l0.set (i - 1) n)) else none := by
  rw [valueFor_indexed_int k hk i l0 n hn, getIndex_indexedLine k hk i hi]
  have h0 : ((i : Nat) : Int) ≠ 0 := by omega
  simp only [setVariable, setIndexed, if_neg h0, assignToList_spec l0 n i h0]
  by_cases h : i ≤ l0.length
  · have : ((1 : Int) ≤ i ∧ (i : Int) ≤ l0.length) := by omega
    simp [h, this]
  · have : ¬ ((1 : Int) ≤ i ∧ (i : Int) ≤ l0.length) := by omega
    simp [h, this]

theorem setVariable_indexed_str (k : Str) (hk : PlainKey k) (i : Nat) (hi0 : 1 ≤ i) (hi : i ≤ 2147483647)
    (l0 : List Str) (s : Str) (hs : CleanStr s) :
    setVariable (.vAscii l0) (valueFor (.vAscii l0) (indexedLine k i s)) (getIndex (indexedLine k i s))
      = if i ≤ l0.length then some (.vAscii (l0.set (i - 1) s)) else none := by
  rw [valueFor_indexed_str k hk i l0 s hs, getIndex_indexedLine k hk i hi]
  have h0 : ((i : Nat) : Int) ≠ 0 := by omega
  simp only [setVariable, setIndexed, if_neg h0, assignToList_spec l0 s i h0]
  by_cases h : i ≤ l0.length
  · have : ((1 : Int) ≤ i ∧ (i : Int) ≤ l0.length) := by omega
    simp [h, this]
  · have : ¬ ((1 : Int) ≤ i ∧ (i : Int) ≤ l0.length) := by omega
    simp [h, this]

theorem setVariable_indexed_ints (k : Str) (hk : PlainKey k) (i : Nat) (hi0 : 1 ≤ i) (hi : i ≤ 2147483647)
    (l0 : List (List Int)) (l : List Int) (hl : ∀ x ∈ l, InIntRange x) :
    setVariable (.vInts l0) (valueFor (.vInts l0) (indexedLine k i (valueText (.ints l))))
        (getIndex (indexedLine k i (valueText (.ints l))))
      = if i ≤ l0.length then some (.vInts (l0.set (i - 1) l)) else none := by
  rw [valueFor_indexed_ints k hk i l0 l hl, getIndex_indexedLine k hk i hi]
  have h0 : ((i : Nat) : Int) ≠ 0 := by omega
  simp only [setVariable, setIndexed, if_neg h0, assignToList_spec l0 l i h0]
  by_cases h : i ≤ l0.length
  · have : ((1 : Int) ≤ i ∧ (i : Int) ≤ l0.length) := by omega
    simp [h, this]
  · have : ¬ ((1 : Int) ≤ i ∧ (i : Int) ≤ l0.length) := by omega
    simp [h, this]

/-- a vectorised key without index (or with index 0), or a plain key with an index, is an `error()` -/
theorem setVariable_index_mismatch (v : Var) (p : Param) (hp : p ≠ .absent) :
    (v.vectorised = true → setVariable v p 0 = none) ∧
    (v.vectorised = false → ∀ i : Int, i ≠ 0 → setVariable v p i = none) := by
  constructor
  · intro hv
    cases v <;> simp [Var.vectorised] at hv <;> simp [setVariable, setScalar, hp]
  · intro hv i hi
    cases v <;> simp [Var.vectorised] at hv <;> simp [setVariable, setIndexed, hp, hi]

/-! ### aliases and the keymap -/

theorem assocFind_assocSet (l : List (Str × Str)) (k v : Str) : assocFind (assocSet l k v) k = some v := by
  unfold assocSet assocFind
  by_cases h : (l.find? (fun p => p.1 == k)).isSome = true
  · rw [if_pos h]
    induction l with
    | nil => simp at h
    | cons a as ih =>
      by_cases ha : (a.1 == k) = true
      · rw [List.map_cons, if_pos ha, List.find?_cons]
        simp
      · have ha' : (a.1 == k) = false := by simpa using ha
        simp only [List.map_cons, ha', Bool.false_eq_true, if_false, List.find?_cons]
        simp only [List.find?_cons, ha'] at h
        exact ih h
  · rw [if_neg h]
    have h' : l.find? (fun p => p.1 == k) = none := Option.not_isSome_iff_eq_none.mp h
    rw [List.find?_append, h']
    simp

/-- **aliases resolve to their target**: after `add_alias_key(kw, alias)`, looking up the (standardised) alias gives the
    (standardised) keyword; for a deprecated alias provided no non-deprecated alias of the same name exists -/
theorem resolveAlias_addAlias (p : KP) (kw al : Str) :
    (p.addAlias kw al false).resolveAlias (standardise al) = standardise kw ∧
    (assocFind p.aliases (standardise al) = none →
      (p.addAlias kw al true).resolveAlias (standardise al) = standardise kw) := by
  constructor
  · simp [KP.addAlias, KP.resolveAlias, assocFind_assocSet]
  · intro h
    simp [KP.addAlias, KP.resolveAlias, assocFind_assocSet, h]

/-- a key as it sits in the keymap and is printed by `parameter_info`: standardised, free of `:`, `[`, `=`, not an alias -/
def Canonical (p : KP) (kw : Str) : Prop := standardise kw = kw ∧ PlainKey kw ∧ p.resolveAlias kw = kw

theorem keywordOf_line (p : KP) (kw x : Str) (h : Canonical p kw) : p.keywordOf (kw ++ assign ++ x) = kw := by
  unfold KP.keywordOf
  rw [line_shape, getKeyword_assign _ _ (plainKey_snoc_space kw h.2.1),
    standardise_ws_trail [' '] kw (by intro c hc; simp at hc; subst hc; rfl), h.1, h.2.2]

theorem keywordOf_indexedLine (p : KP) (kw x : Str) (i : Nat) (h : Canonical p kw) :
    p.keywordOf (indexedLine kw i x) = kw := by
  unfold KP.keywordOf indexedLine
  rw [getKeyword_bracket _ _ h.2.1, h.1, h.2.2]

/-- the keyword of a line is found whatever its case and white space, also through an alias -/
theorem keywordOf_equiv (p : KP) (k k' x : Str) (hk : PlainKey k) (hk' : PlainKey k') (h : KeyEquiv k k') :
    p.keywordOf (k ++ ':' :: '=' :: x) = p.keywordOf (k' ++ ':' :: '=' :: x) := by
  unfold KP.keywordOf
  rw [getKeyword_assign _ _ hk, getKeyword_assign _ _ hk', standardise_eq_of_keyEquiv h]

/-- **one printed line, parsed**: the entry of that key gets the printed value, nothing else changes -/
theorem parseLine_printed (p : KP) (e : Entry) (v : Var) (hc : Canonical p e.key)
    (hf : findInKeymap p.kmap e.key = some e) (ha : e.action = .set)
    (hv : Printable v) (hs : SameKind e.var v) (hnv : v.vectorised = false) :
    p.parseLine (e.key ++ assign ++ valueText v) = some { p with kmap := setEntry p.kmap e.key v } := by
  unfold KP.parseLine processLine
  rw [keywordOf_line p e.key _ hc, hf]
  simp only [ha, setVariable_printed e.key hc.2.1 e.var v hv hs hnv]

/-! ### the hypotheses are decidable (used by the non-vacuity examples) -/

instance (k : Str) : Decidable (NoCtl k) := by unfold NoCtl; infer_instance
instance (k : Str) : Decidable (PlainKey k) := by unfold PlainKey; infer_instance
instance (s : Str) : Decidable (CleanStr s) := by unfold CleanStr; infer_instance
instance (v : Int) : Decidable (InIntRange v) := by unfold InIntRange; infer_instance

end StirVerif.C17
