/-
C17 — termination.  The loops of the model run on fuel; here: (1) the fuel given to the list readers is never exhausted
(more fuel gives the same result), (2) `parse` returns for every text that does not contain the continuation character
`\` — the only non-terminating path of the C++ `read_line`.
-/
import StirVerif.C17.ProofsObj

namespace StirVerif.C17

/-! ### list readers: `length + 1` iterations are enough -/

theorem readIntListAux_fuel (fuel fuel' : Nat) (s : Str) (acc : List Int) (h : s.length < fuel) (h' : s.length < fuel') :
    readIntListAux fuel s acc = readIntListAux fuel' s acc := by
  induction fuel generalizing fuel' s acc with
  | zero => omega
  | succ fuel ih =>
    cases fuel' with
    | zero => omega
    | succ fuel' =>
      rw [readIntListAux, readIntListAux]
      cases hr : readInt s with
      | mk o r =>
        cases o with
        | none => rfl
        | some t =>
          simp only
          have c1 := readInt_consumes s t r hr
          cases hc : readChar r with
          | none => rfl
          | some x =>
            obtain ⟨c, r'⟩ := x
            simp only
            have c2 := readChar_consumes r c r' hc
            split
            · exact ih fuel' r' _ (by omega) (by omega)
            · rfl

theorem readStringListAux_fuel (fuel fuel' : Nat) (s : Str) (acc : List Str) (h : s.length < fuel) (h' : s.length < fuel') :
    readStringListAux fuel s acc = readStringListAux fuel' s acc := by
  induction fuel generalizing fuel' s acc with
  | zero => omega
  | succ fuel ih =>
    cases fuel' with
    | zero => omega
    | succ fuel' =>
      rw [readStringListAux, readStringListAux]
      have l1 : ((s.dropWhile isBraceOrComma).dropWhile isBlank).length ≤ s.length :=
        Nat.le_trans (length_dropWhile_le _ _) (length_dropWhile_le _ _)
      cases h1 : (s.dropWhile isBraceOrComma).dropWhile isBlank with
      | nil => rfl
      | cons c s1 =>
        rw [h1] at l1
        simp only
        cases h2 : (c :: s1).dropWhile (fun d => !isBraceOrComma d) with
        | nil => rfl
        | cons b t =>
          simp only
          have l2 : t.length + 1 ≤ (c :: s1).length := by
            have := length_dropWhile_le (fun d => !isBraceOrComma d) (c :: s1)
            rw [h2] at this
            simpa using this
          simp only [List.length_cons] at l1 l2
          exact ih fuel' t _ (by omega) (by omega)

/-! ### `read_line` and `parse` without the continuation character -/

def NoBS (t : Str) : Prop := ∀ c ∈ t, c ≠ '\\'

theorem NoBS.sublist {a b : Str} (h : NoBS b) (hs : List.Sublist a b) : NoBS a := fun c hc => h c (hs.subset hc)

theorem stripCR_sublist (l : Str) : List.Sublist (stripCR l) l := by
  unfold stripCR
  split
  · exact List.dropLast_sublist l
  · exact List.Sublist.refl l

theorem getLast?_noBS (l : Str) (h : NoBS l) : l.getLast? ≠ some '\\' := by
  intro e
  have : '\\' ∈ l := List.mem_of_getLast? e
  exact h _ this rfl

/-- reading one line from a stream without `\`: returns a line, and either hits the end of the stream or consumes at
    least one character -/
theorem readLine_noBS (s : Stream) (h : NoBS s.rest) (hf : s.fail = false) :
    ∃ l s', readLine s = .line l s' ∧ NoBS s'.rest ∧ (s'.eof = true ∨ s'.rest.length < s.rest.length) := by
  unfold readLine
  rw [if_neg (by simp [hf])]
  have hfuel : 2 * s.rest.length + 4 = (2 * s.rest.length + 3) + 1 := by omega
  rw [hfuel, readLineLoop]
  by_cases hg : s.good = true
  · -- good stream
    simp only [getline, hg, Bool.not_true, Bool.false_eq_true, if_false, List.nil_append]
    cases hd : s.rest.dropWhile (fun c => c != '\n') with
    | nil =>
      simp only
      have hnb : NoBS (stripCR (s.rest.takeWhile (fun c => c != '\n'))) :=
        h.sublist ((stripCR_sublist _).trans (List.takeWhile_sublist _))
      have := getLast?_noBS _ hnb
      split
      · next e => exact absurd e this
      · exact ⟨_, _, rfl, by intro c hc; simp at hc, Or.inl rfl⟩
    | cons a t =>
      simp only
      have hnb : NoBS (stripCR (s.rest.takeWhile (fun c => c != '\n'))) :=
        h.sublist ((stripCR_sublist _).trans (List.takeWhile_sublist _))
      have := getLast?_noBS _ hnb
      have hsub : List.Sublist (a :: t) s.rest := hd ▸ List.dropWhile_sublist _
      split
      · next e => exact absurd e this
      · refine ⟨_, _, rfl, h.sublist ((List.sublist_cons_self a t).trans hsub), Or.inr ?_⟩
        have := hsub.length_le
        simp at this ⊢
        omega
  · have hg' : s.good = false := by simpa using hg
    simp only [getline, hg', Bool.not_false, if_true, List.nil_append]
    have e : stripCR [] = [] := rfl
    rw [e]
    simp only [List.getLast?_nil]
    refine ⟨[], { s with fail := true }, rfl, h, Or.inl ?_⟩
    unfold Stream.good at hg'
    simp [hf] at hg'
    exact hg'

/-- `nextLine` never reports divergence on a stream without `\`; a returned stream has made progress -/
theorem nextLine_noBS (fuel : Nat) (s : Stream) (h : NoBS s.rest) (hf : s.fail = false) :
    nextLine fuel s = none ∨
      ∃ l s', nextLine fuel s = some (.line l s') ∧ NoBS s'.rest ∧ (s'.eof = true ∨ s'.rest.length < s.rest.length) := by
  induction fuel generalizing s with
  | zero => left; rfl
  | succ fuel ih =>
    rw [nextLine]
    by_cases hg : s.good = true
    · simp only [hg, Bool.not_true, Bool.false_eq_true, if_false]
      obtain ⟨l, s', hr, hn, hp⟩ := readLine_noBS s h hf
      rw [hr]
      simp only
      split
      · right; exact ⟨l, s', rfl, hn, hp⟩
      · split
        · right; exact ⟨l, s', rfl, hn, hp⟩
        · -- a line of blanks only was skipped: the stream is still good or the recursion stops at once
          by_cases hf' : s'.fail = false
          · rcases ih s' hn hf' with h1 | ⟨l2, s2, h2, hn2, hp2⟩
            · left; exact h1
            · right
              refine ⟨l2, s2, h2, hn2, ?_⟩
              rcases hp2 with e | e
              · left; exact e
              · rcases hp with e' | e'
                · -- s' at eof: the recursive call could only return none
                  exfalso
                  cases fuel with
                  | zero => simp [nextLine] at h2
                  | succ f =>
                    rw [nextLine] at h2
                    have : s'.good = false := by unfold Stream.good; simp [e']
                    simp [this] at h2
                · right; omega
          · left
            cases fuel with
            | zero => rfl
            | succ f =>
              rw [nextLine]
              have : s'.good = false := by
                unfold Stream.good
                have : s'.fail = true := by simpa using hf'
                simp [this]
              simp [this]
    · have hg' : s.good = false := by simpa using hg
      left
      simp [hg']

/-- the `while (status == parsing)` loop returns on a stream without `\` -/
theorem parseLoop_noBS (fuel : Nat) (p : KP) (s : Stream) (h : NoBS s.rest) (hf : s.fail = false)
    (hfuel : s.rest.length + 1 < fuel) : (parseLoop fuel p s).tag ≠ .diverges := by
  induction fuel generalizing p s with
  | zero => omega
  | succ fuel ih =>
    rw [parseLoop]
    split
    · simp
    · rcases nextLine_noBS (s.rest.length + 2) s h hf with h1 | ⟨l, s', h1, hn, hp⟩
      · rw [h1]; simp
      · rw [h1]
        simp only
        cases hpl : p.parseLine l with
        | none => simp
        | some p' =>
          simp only
          by_cases he : s'.eof = true
          · simp [he]
          · have he' : s'.eof = false := by simpa using he
            simp only [he', Bool.false_eq_true, if_false]
            rcases hp with e | e
            · rw [e] at he'; cases he'
            · -- fail flag of s': a stream that is not at eof after a successful line read has not failed
              by_cases hf' : s'.fail = false
              · exact ih p' s' hn hf' (by omega)
              · -- parseLoop on a failed stream: nextLine = none at once
                cases fuel with
                | zero => omega
                | succ f =>
                  rw [parseLoop]
                  split
                  · simp
                  · have : s'.good = false := by
                      unfold Stream.good
                      have : s'.fail = true := by simpa using hf'
                      simp [this]
                    have hn' : nextLine (s'.rest.length + 2) s' = none := by
                      rw [nextLine]; simp [this]
                    rw [hn']; simp

/-- **parse_total (partial)**: `KeyParser::parse` returns (with `true`, `false` or through `error()`) for every text that
    does not contain the continuation character -/
theorem parse_noBS (p : KP) (text : Str) (h : NoBS text) : (p.parse text).tag ≠ .diverges := by
  unfold KP.parse
  simp only
  rcases nextLine_noBS (text.length + 2) { rest := text } h rfl with h1 | ⟨l, s', h1, hn, hp⟩
  · rw [h1]; simp
  · rw [h1]
    simp only
    cases hpl : p.parseLine l with
    | none => simp
    | some p' =>
      simp only
      split
      · simp
      · split
        · simp
        · next he =>
          have he' : s'.eof = false := by simpa using he
          rcases hp with e | e
          · rw [e] at he'; cases he'
          · by_cases hf' : s'.fail = false
            · exact parseLoop_noBS _ p' s' hn hf' (by simp at e; omega)
            · have hfuel : text.length + 2 = (text.length + 1) + 1 := rfl
              rw [hfuel, parseLoop]
              split
              · simp
              · have : s'.good = false := by
                  unfold Stream.good
                  have : s'.fail = true := by simpa using hf'
                  simp [this]
                have hn' : nextLine (s'.rest.length + 2) s' = none := by
                  rw [nextLine]; simp [this]
                rw [hn']; simp

/-- a keymap with one key of every modelled kind (used by the examples of `Props.lean`) -/
def exampleKP (n : Int) (b : Bool) (s : String) (il : List Int) (sl : List String) (vi : List Int) (vs : List String)
    (vl : List (List Int)) : KP :=
  ({} : KP)
    |>.addKey "Probe Parameters".toList .start .none
    |>.addKey "number of things".toList .set (.int n)
    |>.addKey "flag".toList .set (.bool b)
    |>.addKey "a name".toList .set (.ascii s.toList)
    |>.addKey "int list".toList .set (.ints il)
    |>.addKey "string list".toList .set (.strs (sl.map String.toList))
    |>.addKey "v ints".toList .set (.vInt vi)
    |>.addKey "v names".toList .set (.vAscii (vs.map String.toList))
    |>.addKey "v lists".toList .set (.vInts vl)
    |>.addKey "GENERAL DATA".toList .ignore .none
    |>.addKey "End Probe Parameters".toList .stop .none

instance (t : Str) : Decidable (NoBS t) := by unfold NoBS; infer_instance

end StirVerif.C17
