/-
C17 — termination.  The loops of the model run on fuel; here: (1) the fuel given to the list readers is never exhausted
(more fuel gives the same result), (2) `parse` returns for every keymap and every text (the fuel of `read_line`, of the
line-skipping loop and of the `while (status == parsing)` loop is never exhausted).
-/
import StirVerif.C17.ProofsObj

namespace StirVerif.C17

/-! ### list readers: `length + 1` iterations are enough -/

theorem readIntListAux_fuel (fuel fuel' : Nat) (s : Str) (acc : List Int) (h : s.length < fuel) (h' : s.length < fuel') :
    readIntListAux fuel s acc = readIntListAux fuel' s acc := by
  induction fuel generalizing fuel' s acc with
  | zero => omega
  | succ fuel ih =>
    cases fuel' with
    | zero => omega
    | succ fuel' =>
      rw [readIntListAux, readIntListAux]
      cases hr : readInt s with
      | mk o r =>
        cases o with
        | none => rfl
        | some t =>
          simp only
          have c1 := readInt_consumes s t r hr
          cases hc : readChar r with
          | none => rfl
          | some x =>
            obtain ⟨c, r'⟩ := x
            simp only
            have c2 := readChar_consumes r c r' hc
            split
            · exact ih fuel' r' _ (by omega) (by omega)
            · rfl

theorem readStringListAux_fuel (fuel fuel' : Nat) (s : Str) (acc : List Str) (h : s.length < fuel) (h' : s.length < fuel') :
    readStringListAux fuel s acc = readStringListAux fuel' s acc := by
  induction fuel generalizing fuel' s acc with
  | zero => omega
  | succ fuel ih =>
    cases fuel' with
    | zero => omega
    | succ fuel' =>
      rw [readStringListAux, readStringListAux]
      have l1 : ((s.dropWhile isBraceOrComma).dropWhile isBlank).length ≤ s.length :=
        Nat.le_trans (length_dropWhile_le _ _) (length_dropWhile_le _ _)
      cases h1 : (s.dropWhile isBraceOrComma).dropWhile isBlank with
      | nil => rfl
      | cons c s1 =>
        rw [h1] at l1
        simp only
        cases h2 : (c :: s1).dropWhile (fun d => !isBraceOrComma d) with
        | nil => rfl
        | cons b t =>
          simp only
          have l2 : t.length + 1 ≤ (c :: s1).length := by
            have := length_dropWhile_le (fun d => !isBraceOrComma d) (c :: s1)
            rw [h2] at this
            simpa using this
          simp only [List.length_cons] at l1 l2
          exact ih fuel' t _ (by omega) (by omega)

/-! ### `read_line` and `parse` return for every text -/

/-- what is left to read: the characters of the stream, plus one more `getline` that finds the end -/
def Stream.measure (s : Stream) : Nat := s.rest.length + (if s.eof then 0 else 1)

theorem Stream.good_iff (s : Stream) : s.good = true ↔ s.eof = false ∧ s.fail = false := by
  unfold Stream.good; cases s.eof <;> cases s.fail <;> simp

/-- the `while (true)` loop of `read_line` returns: the fuel is not exhausted, and the stream has reached its end or
    has become shorter -/
theorem readLineLoop_total (fuel : Nat) (s : Stream) (line : Str) (hf : s.fail = false) (hfuel : s.measure < fuel) :
    ∃ l s', readLineLoop fuel s line = .line l s' ∧ (s'.eof = true ∨ s'.rest.length < s.rest.length) := by
  induction fuel generalizing s line with
  | zero => omega
  | succ fuel ih =>
    rw [readLineLoop]
    by_cases hg : s.good = true
    · have he : s.eof = false := ((Stream.good_iff s).mp hg).1
      have hm : s.measure = s.rest.length + 1 := by simp [Stream.measure, he]
      simp only [getline, hg, Bool.not_true, Bool.false_eq_true, if_false]
      cases hd : s.rest.dropWhile (fun c => c != '\n') with
      | nil =>
        simp only
        by_cases hl : (s.rest.takeWhile (fun c => c != '\n')).isEmpty = true
        · simp only [hl, if_true]
          exact ⟨_, _, rfl, Or.inl rfl⟩
        · have hl' : (s.rest.takeWhile (fun c => c != '\n')).isEmpty = false := by simpa using hl
          simp only [hl', Bool.false_eq_true, if_false]
          split
          · -- continuation at the very end of the stream: one more iteration, whose `getline` fails
            have := ih { rest := [], eof := true, fail := false } ((line ++ stripCR (s.rest.takeWhile (fun c => c != '\n'))).dropLast)
              rfl (by simp [Stream.measure]; omega)
            obtain ⟨l, s', h1, h2⟩ := this
            refine ⟨l, s', h1, Or.inl ?_⟩
            rcases h2 with h2 | h2
            · exact h2
            · simp at h2
          · exact ⟨_, _, rfl, Or.inl rfl⟩
      | cons a t =>
        simp only
        simp only [hf, Bool.false_eq_true, if_false]
        have hlen : t.length < s.rest.length := by
          have := (hd ▸ List.dropWhile_sublist (fun c => c != '\n') : List.Sublist (a :: t) s.rest).length_le
          simp at this
          omega
        split
        · have := ih { rest := t, eof := s.eof } ((line ++ stripCR (s.rest.takeWhile (fun c => c != '\n'))).dropLast) rfl
            (by simp [Stream.measure, he]; omega)
          obtain ⟨l, s', h1, h2⟩ := this
          refine ⟨l, s', h1, ?_⟩
          rcases h2 with h2 | h2
          · exact Or.inl h2
          · right; simp at h2; omega
        · exact ⟨_, _, rfl, Or.inr hlen⟩
    · have hg' : s.good = false := by simpa using hg
      have he : s.eof = true := by
        unfold Stream.good at hg'
        simp [hf] at hg'
        exact hg'
      simp only [getline, hg', Bool.not_false, if_true]
      exact ⟨_, _, rfl, Or.inl he⟩

/-- `read_line` returns a line for every stream -/
theorem readLine_total (s : Stream) (hf : s.fail = false) :
    ∃ l s', readLine s = .line l s' ∧ (s'.eof = true ∨ s'.rest.length < s.rest.length) := by
  unfold readLine
  rw [if_neg (by simp [hf])]
  exact readLineLoop_total _ s [] hf (by unfold Stream.measure; split <;> omega)

/-- `nextLine` never reports divergence; a returned stream has made progress -/
theorem nextLine_total (fuel : Nat) (s : Stream) (hf : s.fail = false) :
    nextLine fuel s = none ∨
      ∃ l s', nextLine fuel s = some (.line l s') ∧ (s'.eof = true ∨ s'.rest.length < s.rest.length) := by
  induction fuel generalizing s with
  | zero => left; rfl
  | succ fuel ih =>
    rw [nextLine]
    by_cases hg : s.good = true
    · simp only [hg, Bool.not_true, Bool.false_eq_true, if_false]
      obtain ⟨l, s', hr, hp⟩ := readLine_total s hf
      rw [hr]
      simp only
      split
      · right; exact ⟨l, s', rfl, hp⟩
      · split
        · right; exact ⟨l, s', rfl, hp⟩
        · -- a line of blanks only was skipped: the stream is still good or the recursion stops at once
          by_cases hf' : s'.fail = false
          · rcases ih s' hf' with h1 | ⟨l2, s2, h2, hp2⟩
            · left; exact h1
            · right
              refine ⟨l2, s2, h2, ?_⟩
              rcases hp2 with e | e
              · left; exact e
              · rcases hp with e' | e'
                · -- s' at eof: the recursive call could only return none
                  exfalso
                  cases fuel with
                  | zero => simp [nextLine] at h2
                  | succ f =>
                    rw [nextLine] at h2
                    have : s'.good = false := by unfold Stream.good; simp [e']
                    simp [this] at h2
                · right; omega
          · left
            cases fuel with
            | zero => rfl
            | succ f =>
              rw [nextLine]
              have : s'.good = false := by
                unfold Stream.good
                have : s'.fail = true := by simpa using hf'
                simp [this]
              simp [this]
    · have hg' : s.good = false := by simpa using hg
      left
      simp [hg']

/-- the `while (status == parsing)` loop returns -/
theorem parseLoop_total (fuel : Nat) (p : KP) (s : Stream) (hf : s.fail = false)
    (hfuel : s.rest.length + 1 < fuel) : (parseLoop fuel p s).tag ≠ .diverges := by
  induction fuel generalizing p s with
  | zero => omega
  | succ fuel ih =>
    rw [parseLoop]
    split
    · simp
    · rcases nextLine_total (s.rest.length + 2) s hf with h1 | ⟨l, s', h1, hp⟩
      · rw [h1]; simp
      · rw [h1]
        simp only
        cases hpl : p.parseLine l with
        | none => simp
        | some p' =>
          simp only
          by_cases he : s'.eof = true
          · simp [he]
          · have he' : s'.eof = false := by simpa using he
            simp only [he', Bool.false_eq_true, if_false]
            rcases hp with e | e
            · rw [e] at he'; cases he'
            · by_cases hf' : s'.fail = false
              · exact ih p' s' hf' (by omega)
              · -- parseLoop on a failed stream: nextLine = none at once
                cases fuel with
                | zero => omega
                | succ f =>
                  rw [parseLoop]
                  split
                  · simp
                  · have : s'.good = false := by
                      unfold Stream.good
                      have : s'.fail = true := by simpa using hf'
                      simp [this]
                    have hn' : nextLine (s'.rest.length + 2) s' = none := by
                      rw [nextLine]; simp [this]
                    rw [hn']; simp

/-- **parse_total**: `KeyParser::parse` returns (with `true`, `false` or through `error()`) for every keymap and every
    text: the fuel of the model's loops is never exhausted -/
theorem parse_total (p : KP) (text : Str) : (p.parse text).tag ≠ .diverges := by
  unfold KP.parse
  simp only
  rcases nextLine_total (text.length + 2) { rest := text } rfl with h1 | ⟨l, s', h1, hp⟩
  · rw [h1]; simp
  · rw [h1]
    simp only
    cases hpl : p.parseLine l with
    | none => simp
    | some p' =>
      simp only
      split
      · simp
      · split
        · simp
        · next he =>
          have he' : s'.eof = false := by simpa using he
          rcases hp with e | e
          · rw [e] at he'; cases he'
          · by_cases hf' : s'.fail = false
            · exact parseLoop_total _ p' s' hf' (by simp at e; omega)
            · have hfuel : text.length + 2 = (text.length + 1) + 1 := rfl
              rw [hfuel, parseLoop]
              split
              · simp
              · have : s'.good = false := by
                  unfold Stream.good
                  have : s'.fail = true := by simpa using hf'
                  simp [this]
                have hn' : nextLine (s'.rest.length + 2) s' = none := by
                  rw [nextLine]; simp [this]
                rw [hn']; simp

/-- a keymap with one key of every modelled kind (used by the examples of `Props.lean`) -/
def exampleKP (n : Int) (b : Bool) (s : String) (il : List Int) (sl : List String) (vi : List Int) (vs : List String)
    (vl : List (List Int)) : KP :=
  ({} : KP)
    |>.addKey "Probe Parameters".toList .start .none
    |>.addKey "number of things".toList .set (.int n)
    |>.addKey "flag".toList .set (.bool b)
    |>.addKey "a name".toList .set (.ascii s.toList)
    |>.addKey "int list".toList .set (.ints il)
    |>.addKey "string list".toList .set (.strs (sl.map String.toList))
    |>.addKey "v ints".toList .set (.vInt vi)
    |>.addKey "v names".toList .set (.vAscii (vs.map String.toList))
    |>.addKey "v lists".toList .set (.vInts vl)
    |>.addKey "GENERAL DATA".toList .ignore .none
    |>.addKey "End Probe Parameters".toList .stop .none

end StirVerif.C17
