/-
C17 — Interfile projection-data headers (`InterfilePDFSHeader`) with their TOF keys and size-giving keys in ANY order:
what an ACCEPTED header implies for the number of TOF bins of the geometry (`pdfsPost`, `parsePdfsHeader` of Model.lean),
the arithmetic of `ProjDataInfo::set_tof_mash_factor` (`tofBinsOf`), and concrete header texts evaluated in the model.
Core Lean only.
-/
import StirVerif.C17.ProofsHeader
namespace StirVerif.C17

/-- the TOF bins of a geometry: 1 (non-TOF), or `max / mash`, odd, for a TOF-ready scanner and `0 < mash ≤ max` -/
theorem tofBinsOf_ok (ready : Bool) (maxTof mash n : Int) (h : tofBinsOf ready maxTof mash = .ok n) :
    (n = 1 ∧ (ready = false ∨ mash ≤ 0)) ∨
    (ready = true ∧ 0 < mash ∧ mash ≤ maxTof ∧ n = Int.tdiv maxTof mash ∧ Int.tmod n 2 ≠ 0) := by
  unfold tofBinsOf at h
  split at h
  · rename_i hc
    have hr : ready = true ∧ 0 < mash := by simpa using hc
    split at h
    · cases h
    · rename_i hm
      simp only at h
      split at h
      · cases h
      · rename_i hodd
        injection h with h
        have hn : n = Int.tdiv maxTof mash := by omega
        right
        refine ⟨hr.1, hr.2, by omega, hn, ?_⟩
        intro h2
        apply hodd
        have : -(Int.tdiv maxTof mash).tdiv 2 + Int.tdiv maxTof mash - 1 - -(Int.tdiv maxTof mash).tdiv 2 + 1 = Int.tdiv maxTof mash := by omega
        rw [this, ← hn]
        exact h2
  · rename_i hc
    injection h with h
    left
    refine ⟨h.symm, ?_⟩
    cases ready <;> simp_all

/-- the only errors of `set_tof_mash_factor` -/
theorem tofBinsOf_error (ready : Bool) (maxTof mash : Int) (e : PdfsOutcome) (h : tofBinsOf ready maxTof mash = .error e) :
    e = .errMash ∨ e = .errEven := by
  unfold tofBinsOf at h
  split at h
  · split at h
    · injection h with h; exact .inl h.symm
    · dsimp only at h
      split at h
      · injection h with h; exact .inr h.symm
      · cases h
  · cases h

/-- what `post_processing` has checked when it accepts, for EVERY state of the header object (so for every order of the keys
    that led to it): the geometry has exactly `num_timing_poss` TOF bins — the member that `find_storage_order` derived from
    the declared dimensions — the per-segment list of axial positions is the member `num_rings_per_segment` and has
    `num_segments` entries. -/
theorem pdfsPost_ok (g : Guess) (p : KP) (ntp bins gm S V B : Int) (rings : List Int)
    (h : pdfsPost g p = .ok ntp bins gm S V B rings) :
    bins = ntp ∧ ntp = getInt p.kmap kNumTimingPoss ∧ S = getInt p.kmap kNumSegments ∧ V = getInt p.kmap kNumViews ∧
    B = getInt p.kmap kNumBins ∧ rings = getInts p.kmap kRingsPerSeg ∧ (rings.length : Int) = toU32 S := by
  unfold pdfsPost at h
  dsimp only at h
  split at h
  · split at h
    · cases h
    · split at h
      · cases h
      · cases h
      · rename_i a b hseg
        split at h
        · cases h
        · split at h
          · rename_i e he; subst h; rcases tofBinsOf_error _ _ _ _ he with h' | h' <;> cases h'
          · split at h
            · cases h
            · rename_i hb
              injection h with h1 h2 h3 h4 h5 h6 h7
              have hlen : ((getInts p.kmap kRingsPerSeg).length : Int) = toU32 (getInt p.kmap kNumSegments) := by
                unfold pdfsSegments at hseg
                simp only at hseg
                split at hseg
                · cases hseg
                · split at hseg
                  · cases hseg
                  · split at hseg
                    · cases hseg
                    · rename_i h3'; simpa using h3'
              refine ⟨?_, h1.symm, h4.symm, h5.symm, h6.symm, h7.symm, ?_⟩
              · have : ¬ (_ ≠ _) := hb
                rw [← h2, ← h1]; simpa using hb
              · rw [← h7, ← h4]; exact hlen
  · cases h

/-- the same for the parser: for EVERY header text (keys in any order, any values) and every scanner named by
    `originating system` -/
theorem parsePdfsHeader_ok (g : Guess) (text : Str) (ntp bins gm S V B : Int) (rings : List Int)
    (h : parsePdfsHeader g text = .ok ntp bins gm S V B rings) :
    bins = ntp ∧ (rings.length : Int) = toU32 S ∧
    ∃ p : KP, ntp = getInt p.kmap kNumTimingPoss ∧ S = getInt p.kmap kNumSegments ∧ rings = getInts p.kmap kRingsPerSeg := by
  unfold parsePdfsHeader at h
  simp only at h
  split at h
  · cases h
  · cases h
  · cases h
  · have := pdfsPost_ok g _ ntp bins gm S V B rings h
    exact ⟨this.1, this.2.2.2.2.2.2, _, this.2.1, this.2.2.1, this.2.2.2.2.2.1⟩

theorem parsePdfsHeader_total (g : Guess) (text : Str) : parsePdfsHeader g text ≠ .diverges := by
  unfold parsePdfsHeader
  have ht := parseWith_total pdfsLine pdfsHeader0 text
  simp only
  split
  · rename_i h; exact absurd h ht
  · intro h; cases h
  · intro h; cases h
  · unfold pdfsPost
    dsimp only
    split
    · split
      · intro h; cases h
      · split
        · intro h; cases h
        · intro h; cases h
        · split
          · intro h; cases h
          · split
            · rename_i e he; intro h; subst h; rcases tofBinsOf_error _ _ _ _ he with h' | h' <;> cases h'
            · split <;> (intro h; cases h)
    · intro h; cases h

/-! ### concrete headers -/

/-- a small 4-D projection-data header (3 segments) of a TOF-capable scanner (15 unmashed bins, named in the header itself);
    `mid` goes between the matrix keys and the ring-difference keys, `tail` behind them -/
def exPdfs (mid tail : String) : Str :=
  ("!INTERFILE :=\nnumber of dimensions := 4\nmatrix axis label [4] := segment\n!matrix size [4] := 3\n" ++
   "matrix axis label [3] := view\n!matrix size [3] := 4\nmatrix axis label [2] := axial coordinate\n!matrix size [2] := {1,2,1}\n" ++
   "matrix axis label [1] := tangential coordinate\n!matrix size [1] := 5\n" ++
   "Number of TOF time bins := 15\nSize of timing bin (ps) := 100\ntiming resolution (ps) := 400\n" ++ mid ++
   "minimum ring difference per segment := {-1,0,1}\nmaximum ring difference per segment := {-1,0,1}\n" ++ tail ++
   "!END OF INTERFILE :=\n").toList

def noGuess : Guess := { known := false, maxTof := -1, sizePos := -1, resPos := -1 }

set_option maxHeartbeats 4000000 in
set_option maxRecDepth 1000000 in
/-- the writer's order: the mashing factor in front of the ring-difference keys is reset by `find_storage_order`: non-TOF, accepted -/
theorem ex_pdfs_mash_before : parsePdfsHeader noGuess (exPdfs "TOF mashing factor := 3\n" "") = .ok 1 1 0 3 4 5 [1, 2, 1] := by decide

set_option maxHeartbeats 4000000 in
set_option maxRecDepth 1000000 in
/-- the scenario of the seeded defect: the same key BEHIND the ring-difference keys overwrites the reset; the geometry would have
    5 TOF bins for a 4-D header: refused by the final check (the C++ calls `error()`) -/
theorem ex_pdfs_mash_after : parsePdfsHeader noGuess (exPdfs "" "%TOF mashing factor := 3\n") = .errTof := by decide

end StirVerif.C17
