/-
C17 — print → parse round trip of a WHOLE object: `p0.parse p.parameterInfo` gives `p`'s keymap.
Composition of the line theorems of `ProofsObj.lean` over the text of `parameter_info`, through the stream model
(`getline`, `read_line`, the line-skipping loop) and the `while (status == parsing)` loop of `parse_header`:

* `readLine_line`, `nextLine_line`   — a line without line feed, trailing `\` or carriage return is read back as it is;
* `parseLoop_lines`                  — the parse loop over a block of such lines is `runLines` (line after line);
* `parseLine_set/_ignore/_nil`       — what one line does to a keymap with unique keys;
* `runLines_vec`, `runLines_entry`, `runLines_body` — the lines of one vectorised key / one entry / the whole body;
* `entryInfo_eq`, `parameterInfo_eq` — `parameter_info` is the text of these lines;
* `parse_parameterInfo`              — the round trip.
Core Lean only.
-/
import StirVerif.C17.ProofsTotal
namespace StirVerif.C17

/-- text that `read_line` hands back unchanged as ONE line: no line feed inside, and the last character is neither the
    continuation character `\` nor a carriage return (which `read_line` strips) -/
def OneLine (s : Str) : Prop := '\n' ∉ s ∧ s.getLast? ≠ some '\\' ∧ s.getLast? ≠ some '\r'

instance (s : Str) : Decidable (OneLine s) := by unfold OneLine; infer_instance

theorem oneLine_nil : OneLine [] := by decide

theorem oneLine_of_all (x : Str) (h : ∀ c ∈ x, c ≠ '\n' ∧ c ≠ '\\' ∧ c ≠ '\r') : OneLine x := by
  refine ⟨fun hm => (h _ hm).1 rfl, fun hl => ?_, fun hl => ?_⟩
  · exact (h _ (List.mem_of_getLast? hl)).2.1 rfl
  · exact (h _ (List.mem_of_getLast? hl)).2.2 rfl

theorem oneLine_append (a x : Str) (ha : OneLine a) (hx : OneLine x) : OneLine (a ++ x) := by
  refine ⟨?_, ?_, ?_⟩
  · intro hm
    rcases List.mem_append.mp hm with h | h
    · exact ha.1 h
    · exact hx.1 h
  · rw [List.getLast?_append]
    cases h : x.getLast? with
    | none => simpa using ha.2.1
    | some c => intro e; simp at e; exact hx.2.1 (by rw [h, e])
  · rw [List.getLast?_append]
    cases h : x.getLast? with
    | none => simpa using ha.2.2
    | some c => intro e; simp at e; exact hx.2.2 (by rw [h, e])

theorem oneLine_append_ne (a x : Str) (ha : '\n' ∉ a) (hx : OneLine x) (hne : x ≠ []) : OneLine (a ++ x) := by
  refine ⟨?_, ?_, ?_⟩
  · intro hm
    rcases List.mem_append.mp hm with h | h
    · exact ha h
    · exact hx.1 h
  · rw [List.getLast?_append]
    cases h : x.getLast? with
    | none => exact absurd (List.getLast?_eq_none_iff.mp h) hne
    | some c => intro e; simp at e; exact hx.2.1 (by rw [h, e])
  · rw [List.getLast?_append]
    cases h : x.getLast? with
    | none => exact absurd (List.getLast?_eq_none_iff.mp h) hne
    | some c => intro e; simp at e; exact hx.2.2 (by rw [h, e])

/-- a line of the printed text: read back as it is, and not skipped as "blanks only" -/
def GoodLine (l : Str) : Prop := OneLine l ∧ (l = [] ∨ ':' ∈ l)

theorem getline_line (l rest : Str) (h : '\n' ∉ l) :
    getline { rest := l ++ '\n' :: rest } = ({ rest := rest }, l) := by
  have hall : ∀ c ∈ l, (c != '\n') = true := by
    intro c hc; simp only [bne_iff_ne, ne_eq]; intro e; subst e; exact h hc
  have h1 : (l ++ '\n' :: rest).takeWhile (fun c => c != '\n') = l := by
    rw [List.takeWhile_append_of_pos hall]; simp
  have h2 : (l ++ '\n' :: rest).dropWhile (fun c => c != '\n') = '\n' :: rest := by
    rw [List.dropWhile_append_of_pos hall]; simp
  simp only [getline, Stream.good, Bool.not_false, Bool.and_self, Bool.not_true, Bool.false_eq_true, if_false, h1, h2]

theorem stripCR_of (l : Str) (h : l.getLast? ≠ some '\r') : stripCR l = l := by
  unfold stripCR
  split
  · next e => exact absurd e h
  · rfl

theorem readLine_line (l rest : Str) (h : OneLine l) :
    readLine { rest := l ++ '\n' :: rest } = .line l { rest := rest } := by
  unfold readLine
  simp only [Bool.false_eq_true, if_false]
  have : (l ++ '\n' :: rest).length + 2 = ((l ++ '\n' :: rest).length + 1) + 1 := rfl
  rw [this, readLineLoop, getline_line l rest h.1]
  simp only [Bool.false_eq_true, if_false, List.nil_append, stripCR_of l h.2.2]
  split
  · next e => exact absurd e h.2.1
  · rfl

theorem nextLine_line (fuel : Nat) (l rest : Str) (h : GoodLine l) :
    nextLine (fuel + 1) { rest := l ++ '\n' :: rest } = some (.line l { rest := rest }) := by
  rw [nextLine, readLine_line l rest h.1]
  simp only [Stream.good, Bool.not_false, Bool.and_self, Bool.not_true, Bool.false_eq_true, if_false]
  rcases h.2 with e | e
  · subst e; simp
  · have : l.any (fun c => !isBlank c) = true := by
      rw [List.any_eq_true]; exact ⟨':', e, by decide⟩
    simp [this]


/-! ### the parse loop over a block of lines -/

/-- the text of a list of lines: each followed by a line feed -/
def textOf (ls : List Str) : Str := ls.flatMap (· ++ ['\n'])

theorem textOf_cons (l : Str) (ls : List Str) : textOf (l :: ls) = l ++ '\n' :: textOf ls := by
  simp [textOf]

theorem textOf_append (a b : List Str) : textOf (a ++ b) = textOf a ++ textOf b := by
  simp [textOf]

theorem length_textOf (ls : List Str) : ls.length ≤ (textOf ls).length := by
  induction ls with
  | nil => simp
  | cons l ls ih => rw [textOf_cons]; simp; omega

/-- `process_key` line after line, while the status is `parsing` -/
def runLines : KP → List Str → Option KP
  | p, [] => some p
  | p, l :: ls => if p.parsing then (p.parseLine l).bind (fun q => runLines q ls) else none

theorem runLines_cons (p q : KP) (l : Str) (ls : List Str) (h : p.parseLine l = some q) (hp : p.parsing = true) :
    runLines p (l :: ls) = runLines q ls := by
  simp [runLines, hp, h]

theorem runLines_append (p q : KP) (a b : List Str) (h : runLines p a = some q) :
    runLines p (a ++ b) = runLines q b := by
  induction a generalizing p with
  | nil => simp only [runLines] at h; cases h; rfl
  | cons l ls ih =>
    simp only [List.cons_append, runLines] at h ⊢
    split at h
    · next hp =>
      rw [if_pos hp]
      cases hl : p.parseLine l with
      | none => rw [hl] at h; simp at h
      | some q' =>
        rw [hl] at h
        simp only [Option.bind_some] at h ⊢
        exact ih q' h
    · cases h

/-- the `while (status == parsing)` loop consumes a block of good lines like `runLines` -/
theorem parseLoop_lines (ls : List Str) (hg : ∀ l ∈ ls, GoodLine l) (p q : KP) (h : runLines p ls = some q)
    (fuel : Nat) (rest : Str) :
    parseLoop (ls.length + fuel) p { rest := textOf ls ++ rest } = parseLoop fuel q { rest := rest } := by
  induction ls generalizing p with
  | nil => simp only [runLines] at h; cases h; simp [textOf]
  | cons l ls ih =>
    simp only [runLines] at h
    split at h
    · next hp =>
      cases hl : p.parseLine l with
      | none => rw [hl] at h; simp at h
      | some q' =>
        rw [hl] at h
        simp only [Option.bind_some] at h
        have e1 : (l :: ls).length + fuel = (ls.length + fuel) + 1 := by simp; omega
        have e2 : textOf (l :: ls) ++ rest = l ++ '\n' :: (textOf ls ++ rest) := by rw [textOf_cons]; simp
        rw [e1, e2, parseLoop]
        have e3 : (l ++ '\n' :: (textOf ls ++ rest)).length + 2 = ((l ++ '\n' :: (textOf ls ++ rest)).length + 1) + 1 := rfl
        simp only [hp, Bool.not_true, Bool.false_eq_true, if_false]
        rw [e3, nextLine_line _ l _ (hg l List.mem_cons_self)]
        simp only [hl, Bool.false_eq_true, if_false]
        exact ih (fun x hx => hg x (List.mem_cons_of_mem _ hx)) q' h
    · cases h

/-! ### the keymap around one entry -/

/-- the parser with another keymap -/
def KP.withMap (q : KP) (m : List Entry) : KP := { q with kmap := m }

@[simp] theorem withMap_kmap (q : KP) (m : List Entry) : (q.withMap m).kmap = m := rfl
@[simp] theorem withMap_parsing (q : KP) (m : List Entry) : (q.withMap m).parsing = q.parsing := rfl
@[simp] theorem withMap_withMap (q : KP) (m m' : List Entry) : (q.withMap m).withMap m' = q.withMap m' := rfl
theorem withMap_self (q : KP) (m : List Entry) (h : q.kmap = m) : q.withMap m = q := by
  cases q; simp only [KP.withMap] at *; rw [h]

theorem resolveAlias_congr (q p : KP) (h1 : q.aliases = p.aliases) (h2 : q.depAliases = p.depAliases) (k : Str) :
    q.resolveAlias k = p.resolveAlias k := by
  unfold KP.resolveAlias; rw [h1, h2]

@[simp] theorem withMap_resolveAlias (q : KP) (m : List Entry) (k : Str) : (q.withMap m).resolveAlias k = q.resolveAlias k := rfl

theorem canonical_congr (q p : KP) (h1 : q.aliases = p.aliases) (h2 : q.depAliases = p.depAliases) (k : Str)
    (h : Canonical p k) : Canonical q k :=
  ⟨h.1, h.2.1, by rw [resolveAlias_congr q p h1 h2]; exact h.2.2⟩

theorem nodup_mid (pre post : List Entry) (x : Entry) (h : ((pre ++ x :: post).map (·.key)).Nodup) :
    (∀ y ∈ pre, y.key ≠ x.key) ∧ (∀ y ∈ post, y.key ≠ x.key) := by
  rw [List.map_append, List.map_cons, List.nodup_append] at h
  obtain ⟨_, h2, h3⟩ := h
  constructor
  · intro y hy e
    exact h3 y.key (List.mem_map.mpr ⟨y, hy, rfl⟩) x.key List.mem_cons_self e
  · intro y hy e
    rw [List.nodup_cons] at h2
    exact h2.1 (List.mem_map.mpr ⟨y, hy, e⟩)

theorem findInKeymap_mid (pre post : List Entry) (x : Entry) (h : ((pre ++ x :: post).map (·.key)).Nodup) :
    findInKeymap (pre ++ x :: post) x.key = some x := by
  unfold findInKeymap
  have h1 := (nodup_mid pre post x h).1
  rw [List.find?_append]
  have : pre.find? (fun e => e.key == x.key) = none := by
    rw [List.find?_eq_none]; intro y hy; simpa using h1 y hy
  rw [this]
  simp

theorem setEntry_mid (pre post : List Entry) (x : Entry) (v : Var) (h : ((pre ++ x :: post).map (·.key)).Nodup) :
    setEntry (pre ++ x :: post) x.key v = pre ++ { x with var := v } :: post := by
  obtain ⟨h1, h2⟩ := nodup_mid pre post x h
  have e : ∀ l : List Entry, (∀ y ∈ l, y.key ≠ x.key) →
      l.map (fun e => if e.key == x.key then { e with var := v } else e) = l := by
    intro l hl
    induction l with
    | nil => rfl
    | cons a l ih =>
      have ha : (a.key == x.key) = false := by simpa using hl a List.mem_cons_self
      rw [List.map_cons, ha, ih (fun y hy => hl y (List.mem_cons_of_mem _ hy))]
      rfl
  unfold setEntry
  rw [List.map_append, List.map_cons, e pre h1, e post h2]
  simp

theorem nodup_replace (pre post : List Entry) (x y : Entry) (hk : y.key = x.key) :
    ((pre ++ x :: post).map (·.key)).Nodup ↔ ((pre ++ y :: post).map (·.key)).Nodup := by
  simp [hk]

/-- the empty keyword does not lead to a stop key of this keymap -/
def NoEmptyStop (r : Str) (m : List Entry) : Prop := ∀ x ∈ m, x.action = .stop → r ≠ x.key

theorem noEmptyStop_replace (r : Str) (pre post : List Entry) (x y : Entry) (hk : y.key = x.key) (ha : y.action = x.action)
    (h : NoEmptyStop r (pre ++ x :: post)) : NoEmptyStop r (pre ++ y :: post) := by
  intro z hz
  rcases List.mem_append.mp hz with hz | hz
  · exact h z (List.mem_append_left _ hz)
  · rcases List.mem_cons.mp hz with hz | hz
    · subst hz; rw [hk, ha]; exact h x (List.mem_append_right _ List.mem_cons_self)
    · exact h z (List.mem_append_right _ (List.mem_cons_of_mem _ hz))

/-! ### single lines -/

/-- a line whose keyword is a `set_variable` key and whose value is stored: only that entry changes -/
theorem parseLine_set (q : KP) (pre post : List Entry) (x : Entry) (line : Str) (v : Var) (hm : q.kmap = pre ++ x :: post)
    (hnd : ((pre ++ x :: post).map (·.key)).Nodup) (hkw : q.keywordOf line = x.key) (ha : x.action = .set)
    (hset : setVariable x.var (valueFor x.var line) (getIndex line) = some v) :
    q.parseLine line = some (q.withMap (pre ++ { x with var := v } :: post)) := by
  unfold KP.parseLine processLine
  rw [hkw, hm, findInKeymap_mid pre post x hnd]
  simp only [ha, hset, setEntry_mid pre post x v hnd]
  rfl

/-- a line whose keyword is a `do_nothing` key -/
theorem parseLine_ignore (q : KP) (pre post : List Entry) (x : Entry) (line : Str) (hm : q.kmap = pre ++ x :: post)
    (hnd : ((pre ++ x :: post).map (·.key)).Nodup) (hkw : q.keywordOf line = x.key) (ha : x.action = .ignore) :
    q.parseLine line = some q := by
  unfold KP.parseLine processLine
  rw [hkw, hm, findInKeymap_mid pre post x hnd]
  simp only [ha]

theorem valueFor_nil (v : Var) : valueFor v [] = .absent := by
  cases v <;> rfl

theorem setEntry_self (m : List Entry) (kw : Str) (e : Entry) (hnd : (m.map (·.key)).Nodup)
    (hf : findInKeymap m kw = some e) : setEntry m kw e.var = m := by
  unfold findInKeymap at hf
  obtain ⟨hk, pre, post, hm, _⟩ := List.find?_eq_some_iff_append.mp hf
  have hk' : e.key = kw := by simpa using hk
  subst hk'
  rw [hm] at hnd ⊢
  rw [setEntry_mid pre post e e.var hnd]

/-- the empty line that follows every printed list (`operator<<` for vectors ends in `std::endl`): nothing happens,
    provided the empty keyword is not (an alias of) a stop key -/
theorem parseLine_nil (q : KP) (hnd : (q.kmap.map (·.key)).Nodup) (hp : q.parsing = true)
    (hs : NoEmptyStop (q.resolveAlias []) q.kmap) : q.parseLine [] = some q := by
  unfold KP.parseLine processLine
  have hk : q.keywordOf [] = q.resolveAlias [] := by
    unfold KP.keywordOf; rfl
  rw [hk]
  cases hf : findInKeymap q.kmap (q.resolveAlias []) with
  | none => rfl
  | some e =>
    simp only
    have hmem : e ∈ q.kmap := List.mem_of_find?_eq_some hf
    have hkey : e.key = q.resolveAlias [] := by
      have := List.find?_some hf; simpa using this
    cases ha : e.action with
    | start => simp only; cases q; simp only at hp; subst hp; rfl
    | stop => exact absurd hkey.symm (hs e hmem ha)
    | ignore => rfl
    | set =>
      simp only [valueFor_nil, setVariable, if_true, setEntry_self q.kmap _ e hnd hf]


/-! ### the lines printed for one entry -/

/-- the lines of `vectorised_value_to_stream`: `key[off+1] := v`, …, each followed by the lines `sep` -/
def vecLines (key : Str) (sep : List Str) : Nat → List Str → List Str
  | _, [] => []
  | off, v :: vs => indexedLine key (off + 1) v :: (sep ++ vecLines key sep (off + 1) vs)

theorem runLines_empties (q : KP) (hnd : (q.kmap.map (·.key)).Nodup) (hp : q.parsing = true)
    (hs : NoEmptyStop (q.resolveAlias []) q.kmap) (sep : List Str) (hsep : ∀ l ∈ sep, l = []) :
    runLines q sep = some q := by
  induction sep with
  | nil => rfl
  | cons l ls ih =>
    have : l = [] := hsep l List.mem_cons_self
    subst this
    rw [runLines_cons q q [] ls (parseLine_nil q hnd hp hs) hp]
    exact ih (fun x hx => hsep x (List.mem_cons_of_mem _ hx))

theorem set_mid {α : Type} (done cur : List α) (c x : α) : (done ++ c :: cur).set done.length x = done ++ x :: cur := by
  induction done with
  | nil => rfl
  | cons d ds ih => simp [ih]

/-- the block of lines printed for a vectorised key, parsed: element after element is overwritten, in place -/
theorem runLines_vec {α : Type} (mk : List α → Var) (pr : α → Str) (ok : α → Prop) (key : Str) (sep : List Str)
    (hsep : ∀ l ∈ sep, l = [])
    (hstep : ∀ (i : Nat) (l0 : List α) (x : α), 1 ≤ i → i ≤ 2147483647 → ok x →
      setVariable (mk l0) (valueFor (mk l0) (indexedLine key i (pr x))) (getIndex (indexedLine key i (pr x)))
        = if i ≤ l0.length then some (mk (l0.set (i - 1) x)) else none)
    (q : KP) (pre post : List Entry) (hc : Canonical q key) (hp : q.parsing = true)
    (hnd : ∀ v, ((pre ++ (⟨key, .set, v⟩ : Entry) :: post).map (·.key)).Nodup)
    (hES : ∀ v, NoEmptyStop (q.resolveAlias []) (pre ++ (⟨key, .set, v⟩ : Entry) :: post)) :
    ∀ (todo cur done : List α), cur.length = todo.length → done.length + todo.length ≤ 2147483647 → (∀ x ∈ todo, ok x) →
      runLines (q.withMap (pre ++ ⟨key, .set, mk (done ++ cur)⟩ :: post)) (vecLines key sep done.length (todo.map pr))
        = some (q.withMap (pre ++ ⟨key, .set, mk (done ++ todo)⟩ :: post)) := by
  intro todo
  induction todo with
  | nil =>
    intro cur done hl _ _
    have : cur = [] := List.eq_nil_of_length_eq_zero hl
    subst this
    rfl
  | cons x todo ih =>
    intro cur done hl hlen hok
    cases cur with
    | nil => simp at hl
    | cons c cur =>
      simp only [List.length_cons] at hl hlen
      simp only [List.map_cons, vecLines]
      have h1 : (q.withMap (pre ++ ⟨key, .set, mk (done ++ c :: cur)⟩ :: post)).parseLine
            (indexedLine key (done.length + 1) (pr x))
          = some (q.withMap (pre ++ ⟨key, .set, mk (done ++ x :: cur)⟩ :: post)) := by
        have := parseLine_set (q.withMap (pre ++ ⟨key, .set, mk (done ++ c :: cur)⟩ :: post)) pre post
          ⟨key, .set, mk (done ++ c :: cur)⟩ (indexedLine key (done.length + 1) (pr x)) (mk (done ++ x :: cur)) rfl (hnd _)
          (keywordOf_indexedLine _ key _ _ hc) rfl
          (by
            rw [hstep (done.length + 1) (done ++ c :: cur) x (by omega) (by omega) (hok x List.mem_cons_self)]
            rw [if_pos (by simp)]
            simp)
        simpa using this
      rw [runLines_cons _ _ _ _ h1 hp]
      have h2 := runLines_empties (q.withMap (pre ++ ⟨key, .set, mk (done ++ x :: cur)⟩ :: post)) (hnd _) hp (hES _) sep hsep
      rw [runLines_append _ _ _ _ h2]
      have := ih cur (done ++ [x]) (by omega) (by simp; omega) (fun y hy => hok y (List.mem_cons_of_mem _ hy))
      simpa using this


/-- the lines (without their line feeds) that `parameter_info` prints for a `set_variable` / `do_nothing` key:
    `key := value`; lists are followed by an empty line (`operator<<` for vectors ends in `std::endl`, and
    `parameter_info` adds its own); vectorised keys give one line `key[i] := value` per element and a final empty line. -/
def entryLines (e : Entry) : List Str :=
  match e.var with
  | .ints _ | .strs _ => [e.key ++ assign ++ valueText e.var, []]
  | .vInt l => vecLines e.key [] 0 (l.map showInt) ++ [[]]
  | .vAscii l => vecLines e.key [] 0 l ++ [[]]
  | .vInts l => vecLines e.key [[]] 0 (l.map fun x => valueText (.ints x)) ++ [[]]
  | _ => [e.key ++ assign ++ valueText e.var]

/-- what the printed value must satisfy, beyond `Printable`, to come back through `read_line` and `get_index`:
    strings stay on one line (no line feed, no trailing `\` or carriage return), list elements contain no line feed, and the
    indices of a vectorised key fit an `int` -/
def LineSafe : Var → Prop
  | .ascii s => OneLine s
  | .strs l => ∀ e ∈ l, '\n' ∉ e
  | .vInt l => l.length ≤ 2147483647
  | .vAscii l => l.length ≤ 2147483647 ∧ ∀ s ∈ l, OneLine s
  | .vInts l => l.length ≤ 2147483647
  | _ => True

theorem runLines_one (q q' : KP) (l : Str) (h : q.parseLine l = some q') (hp : q.parsing = true) :
    runLines q [l] = some q' := by
  rw [runLines_cons q q' l [] h hp]; rfl

theorem runLines_two (q q' : KP) (l : Str) (h : q.parseLine l = some q') (hp : q.parsing = true)
    (hnd : (q'.kmap.map (·.key)).Nodup) (hp' : q'.parsing = true) (hs : NoEmptyStop (q'.resolveAlias []) q'.kmap) :
    runLines q [l, []] = some q' := by
  rw [runLines_cons q q' l [[]] h hp]
  exact runLines_one q' q' [] (parseLine_nil q' hnd hp' hs) hp'

/-- **one entry of the printed text, parsed**: the receiving entry `e0` (same key, same call-back, variable of the same
    kind) becomes the printed entry `e`; nothing else changes -/
theorem runLines_entry (q : KP) (pre post : List Entry) (e0 e : Entry) (hk : e0.key = e.key) (ha : e0.action = e.action)
    (hsk : SameKind e0.var e.var) (hc : Canonical q e.key) (hp : q.parsing = true)
    (hnd : ((pre ++ e0 :: post).map (·.key)).Nodup) (hES : NoEmptyStop (q.resolveAlias []) (pre ++ e0 :: post))
    (hact : e.action = .set ∨ e.action = .ignore) (hP : e.action = .set → Printable e.var ∧ LineSafe e.var)
    (hN : e.action ≠ .set → e.var = .none) :
    runLines (q.withMap (pre ++ e0 :: post)) (entryLines e) = some (q.withMap (pre ++ e :: post)) := by
  obtain ⟨key, act, var⟩ := e
  obtain ⟨key0, act0, var0⟩ := e0
  simp only at hk ha hsk hc hact hP hN
  subst hk ha
  have hnd' : ∀ v, ((pre ++ (⟨key0, act0, v⟩ : Entry) :: post).map (·.key)).Nodup :=
    fun v => (nodup_replace pre post ⟨key0, act0, var0⟩ ⟨key0, act0, v⟩ rfl).mp hnd
  have hES' : ∀ v, NoEmptyStop (q.resolveAlias []) (pre ++ (⟨key0, act0, v⟩ : Entry) :: post) :=
    fun v => noEmptyStop_replace _ pre post ⟨key0, act0, var0⟩ ⟨key0, act0, v⟩ rfl rfl hES
  rcases hact with hact | hact
  · -- set_variable
    subst hact
    obtain ⟨hPr, hLS⟩ := hP rfl
    -- scalar and list kinds: the first line stores the value
    have scalar : ∀ v : Var, Printable v → SameKind var0 v → v.vectorised = false →
        (q.withMap (pre ++ ⟨key0, .set, var0⟩ :: post)).parseLine (key0 ++ assign ++ valueText v)
          = some (q.withMap (pre ++ ⟨key0, .set, v⟩ :: post)) := by
      intro v h1 h2 h3
      exact parseLine_set (q.withMap (pre ++ ⟨key0, .set, var0⟩ :: post)) pre post ⟨key0, .set, var0⟩ _ v rfl (hnd' _)
        (keywordOf_line _ key0 _ hc) rfl (setVariable_printed key0 hc.2.1 var0 v h1 h2 h3)
    cases var with
    | none => exact absurd hPr (by simp [Printable])
    | choice _ _ => exact absurd hPr (by simp [Printable])
    | int n => exact runLines_one _ _ _ (scalar _ hPr hsk rfl) hp
    | bool b => exact runLines_one _ _ _ (scalar _ hPr hsk rfl) hp
    | ascii s => exact runLines_one _ _ _ (scalar _ hPr hsk rfl) hp
    | ints l => exact runLines_two _ _ _ (scalar _ hPr hsk rfl) hp (hnd' _) hp (hES' _)
    | strs l => exact runLines_two _ _ _ (scalar _ hPr hsk rfl) hp (hnd' _) hp (hES' _)
    | vInt l =>
      cases var0 <;> simp only [SameKind] at hsk
      next l0 =>
      have h1 := runLines_vec Var.vInt showInt InIntRange key0 [] (by simp)
        (fun i l0 x h1 h2 hx => setVariable_indexed_int key0 hc.2.1 i h1 h2 l0 x hx) q pre post hc hp hnd' hES'
        l l0 [] hsk (by simpa [LineSafe] using hLS) hPr
      simp only [entryLines]
      simp only [List.nil_append, List.length_nil] at h1
      rw [runLines_append _ _ _ _ h1]
      exact runLines_one _ _ [] (parseLine_nil _ (hnd' _) hp (hES' _)) hp
    | vAscii l =>
      cases var0 <;> simp only [SameKind] at hsk
      next l0 =>
      have h1 := runLines_vec Var.vAscii id CleanStr key0 [] (by simp)
        (fun i l0 x h1 h2 hx => setVariable_indexed_str key0 hc.2.1 i h1 h2 l0 x hx) q pre post hc hp hnd' hES'
        l l0 [] hsk (by simpa using hLS.1) hPr
      simp only [entryLines]
      simp only [List.nil_append, List.length_nil, List.map_id] at h1
      rw [runLines_append _ _ _ _ h1]
      exact runLines_one _ _ [] (parseLine_nil _ (hnd' _) hp (hES' _)) hp
    | vInts l =>
      cases var0 <;> simp only [SameKind] at hsk
      next l0 =>
      have h1 := runLines_vec Var.vInts (fun x => valueText (.ints x)) (fun x => ∀ y ∈ x, InIntRange y) key0 [[]] (by simp)
        (fun i l0 x h1 h2 hx => setVariable_indexed_ints key0 hc.2.1 i h1 h2 l0 x hx) q pre post hc hp hnd' hES'
        l l0 [] hsk (by simpa [LineSafe] using hLS) hPr
      simp only [entryLines]
      simp only [List.nil_append, List.length_nil] at h1
      rw [runLines_append _ _ _ _ h1]
      exact runLines_one _ _ [] (parseLine_nil _ (hnd' _) hp (hES' _)) hp
  · -- do_nothing
    subst hact
    have hv : var = .none := hN (by simp)
    subst hv
    have hv0 : var0 = .none := by cases var0 <;> simp only [SameKind] at hsk; rfl
    subst hv0
    exact runLines_one _ _ _
      (parseLine_ignore (q.withMap (pre ++ ⟨key0, .ignore, .none⟩ :: post)) pre post ⟨key0, .ignore, .none⟩ _ rfl (hnd' _)
        (keywordOf_line _ key0 _ hc) rfl) hp


/-- what the round trip needs of a body entry of the printed object -/
def BodyEntryOK (q : KP) (e : Entry) : Prop :=
  Canonical q e.key ∧ (e.action = .set ∨ e.action = .ignore) ∧ (e.action = .set → Printable e.var ∧ LineSafe e.var) ∧
    (e.action ≠ .set → e.var = .none)

/-- **the body of the printed text, parsed**: entry after entry of the receiving keymap becomes the printed one -/
theorem runLines_body (q : KP) (hp : q.parsing = true) (post : List Entry) :
    ∀ (b b0 pre : List Entry), b0.map (·.key) = b.map (·.key) → b0.map (·.action) = b.map (·.action) →
      (∀ e ∈ b, ∀ e0 ∈ b0, e0.key = e.key → SameKind e0.var e.var) → (∀ e ∈ b, BodyEntryOK q e) →
      ((pre ++ (b0 ++ post)).map (·.key)).Nodup → NoEmptyStop (q.resolveAlias []) (pre ++ (b0 ++ post)) →
      runLines (q.withMap (pre ++ (b0 ++ post))) (b.flatMap entryLines) = some (q.withMap (pre ++ (b ++ post))) := by
  intro b
  induction b with
  | nil =>
    intro b0 pre hk _ _ _ _ _
    have : b0 = [] := by simpa using hk
    subst this
    rfl
  | cons e b ih =>
    intro b0 pre hk ha hsk hok hnd hES
    cases b0 with
    | nil => simp at hk
    | cons e0 b0 =>
      simp only [List.map_cons, List.cons.injEq] at hk ha
      obtain ⟨hc, hact, hP, hN⟩ := hok e List.mem_cons_self
      have h1 := runLines_entry q pre (b0 ++ post) e0 e hk.1 ha.1
        (hsk e List.mem_cons_self e0 List.mem_cons_self hk.1) hc hp hnd hES hact hP hN
      rw [List.flatMap_cons, List.cons_append, runLines_append _ _ _ _ h1]
      have hnd2 : (((pre ++ [e]) ++ (b0 ++ post)).map (·.key)).Nodup := by
        have := (nodup_replace pre (b0 ++ post) e0 e hk.1.symm).mp hnd
        simpa using this
      have hES2 : NoEmptyStop (q.resolveAlias []) ((pre ++ [e]) ++ (b0 ++ post)) := by
        have := noEmptyStop_replace _ pre (b0 ++ post) e0 e hk.1.symm ha.1.symm hES
        simpa using this
      have := ih b0 (pre ++ [e]) hk.2 ha.2
        (fun x hx x0 hx0 => hsk x (List.mem_cons_of_mem _ hx) x0 (List.mem_cons_of_mem _ hx0))
        (fun x hx => hok x (List.mem_cons_of_mem _ hx)) hnd2 hES2
      simpa using this


/-! ### the printed text, line by line -/

theorem nf_noNL (prev : Bool) (k : Str) (h : nf prev k = true) : '\n' ∉ k := by
  induction k generalizing prev with
  | nil => simp
  | cons c cs ih =>
    rw [nf] at h
    intro hm
    rcases List.mem_cons.mp hm with e | e
    · subst e
      simp [good, isCollapse, isCSpace] at h
    · by_cases hc : (c == ' ') = true
      · rw [if_pos hc] at h
        simp only [Bool.and_eq_true] at h
        exact ih true h.2 e
      · rw [if_neg hc] at h
        simp only [Bool.and_eq_true] at h
        exact ih false h.2 e

theorem canonical_noNL (q : KP) (k : Str) (h : Canonical q k) : '\n' ∉ k := by
  have := nf_collapse false (dropEndWhile isTrimWs (k.dropWhile isTrimWs))
  have e : standardise k = k := h.1
  unfold standardise at e
  rw [e] at this
  exact nf_noNL false k this

theorem oneLine_assign : OneLine assign := by decide

theorem goodLine_nil : GoodLine [] := ⟨oneLine_nil, Or.inl rfl⟩

theorem goodLine_assign (k x : Str) (hk : '\n' ∉ k) (hx : OneLine x) : GoodLine (k ++ assign ++ x) := by
  refine ⟨oneLine_append _ _ (oneLine_append_ne k assign hk oneLine_assign (by decide)) hx, Or.inr ?_⟩
  simp [assign]

theorem showNat_chars (n : Nat) : ∀ c ∈ showNat n, c ≠ '\n' ∧ c ≠ '\\' ∧ c ≠ '\r' := by
  intro c hc
  have := isDigit_toNat (showNat_isDigit n c hc)
  refine ⟨ne_of_toNat_ne ?_, ne_of_toNat_ne ?_, ne_of_toNat_ne ?_⟩ <;> simp <;> omega

theorem showInt_chars (n : Int) : ∀ c ∈ showInt n, c ≠ '\n' ∧ c ≠ '\\' ∧ c ≠ '\r' := by
  intro c hc
  unfold showInt at hc
  split at hc
  · rcases List.mem_cons.mp hc with e | e
    · subst e; decide
    · exact showNat_chars _ c e
  · exact showNat_chars _ c hc

theorem mem_intercalateStr (sep : Str) (l : List Str) (c : Char) (h : c ∈ intercalateStr sep l) :
    c ∈ sep ∨ ∃ e ∈ l, c ∈ e := by
  induction l with
  | nil => simp [intercalateStr] at h
  | cons x l ih =>
    cases l with
    | nil => right; exact ⟨x, List.mem_cons_self, by simpa [intercalateStr] using h⟩
    | cons y l' =>
      rw [intercalateStr_cons_cons] at h
      rcases List.mem_append.mp h with h | h
      · rcases List.mem_append.mp h with h | h
        · right; exact ⟨x, List.mem_cons_self, h⟩
        · left; exact h
      · rcases ih h with h | ⟨e, he, hce⟩
        · left; exact h
        · right; exact ⟨e, List.mem_cons_of_mem _ he, hce⟩

theorem oneLine_valueText_ints (l : List Int) : OneLine (valueText (.ints l)) := by
  apply oneLine_of_all
  intro c hc
  simp only [valueText, List.mem_cons, List.mem_append, List.not_mem_nil, or_false] at hc
  rcases hc with e | e | e
  · subst e; decide
  · rcases mem_intercalateStr _ _ c e with h | ⟨x, hx, hcx⟩
    · simp [sepCS] at h; rcases h with h | h <;> subst h <;> decide
    · obtain ⟨n, _, rfl⟩ := List.mem_map.mp hx
      exact showInt_chars n c hcx
  · subst e; decide

theorem oneLine_valueText_strs (l : List Str) (h : ∀ e ∈ l, '\n' ∉ e) : OneLine (valueText (.strs l)) := by
  have e : valueText (.strs l) = ('{' :: intercalateStr sepCS l) ++ ['}'] := by simp [valueText]
  rw [e]
  refine oneLine_append_ne _ _ ?_ (by decide) (by simp)
  intro hm
  rcases List.mem_cons.mp hm with h1 | h1
  · exact absurd h1 (by decide)
  · rcases mem_intercalateStr _ _ _ h1 with h2 | ⟨x, hx, hcx⟩
    · simp [sepCS] at h2
    · exact h x hx hcx

/-- the printed value of a scalar or list kind stays on its line -/
theorem oneLine_valueText (v : Var) (h : (Printable v ∧ LineSafe v) ∨ v = .none) (hnv : v.vectorised = false) :
    OneLine (valueText v) := by
  rcases h with ⟨hP, hL⟩ | h
  · cases v with
    | none => exact oneLine_nil
    | choice _ _ => exact oneLine_nil
    | int n => exact oneLine_of_all _ (showInt_chars n)
    | bool b => cases b <;> decide
    | ascii s => exact hL
    | ints l => exact oneLine_valueText_ints l
    | strs l => exact oneLine_valueText_strs l hL
    | vInt _ => simp [Var.vectorised] at hnv
    | vAscii _ => simp [Var.vectorised] at hnv
    | vInts _ => simp [Var.vectorised] at hnv
  · subst h; exact oneLine_nil

theorem indexedLine_split (k : Str) (i : Nat) (x : Str) :
    indexedLine k i x = (k ++ ('[' :: (showNat i ++ ']' :: assign))) ++ x := by
  simp [indexedLine]

theorem goodLine_indexed (k x : Str) (i : Nat) (hk : '\n' ∉ k) (hx : OneLine x) : GoodLine (indexedLine k i x) := by
  rw [indexedLine_split]
  refine ⟨oneLine_append _ _ (oneLine_append_ne k _ hk (oneLine_of_all _ ?_) (by simp)) hx, Or.inr ?_⟩
  · intro c hc
    rcases List.mem_cons.mp hc with e | e
    · subst e; decide
    · rcases List.mem_append.mp e with e | e
      · exact showNat_chars i c e
      · simp [assign] at e
        rcases e with e | e | e | e | e <;> subst e <;> decide
  · simp [assign]

theorem goodLine_vecLines (k : Str) (sep : List Str) (hsep : ∀ l ∈ sep, l = []) (hk : '\n' ∉ k) :
    ∀ (vals : List Str) (off : Nat), (∀ v ∈ vals, OneLine v) → ∀ l ∈ vecLines k sep off vals, GoodLine l := by
  intro vals
  induction vals with
  | nil => intro off _ l hl; simp [vecLines] at hl
  | cons v vs ih =>
    intro off hv l hl
    simp only [vecLines, List.mem_cons, List.mem_append] at hl
    rcases hl with e | e | e
    · subst e; exact goodLine_indexed k v _ hk (hv v List.mem_cons_self)
    · rw [hsep l e]; exact goodLine_nil
    · exact ih (off + 1) (fun w hw => hv w (List.mem_cons_of_mem _ hw)) l e

/-- every line printed for a body entry is read back as it is -/
theorem goodLine_entryLines (q : KP) (e : Entry) (h : BodyEntryOK q e) : ∀ l ∈ entryLines e, GoodLine l := by
  obtain ⟨hc, hact, hP, hN⟩ := h
  have hk := canonical_noNL q e.key hc
  have hv : (Printable e.var ∧ LineSafe e.var) ∨ e.var = .none := by
    rcases hact with ha | ha
    · exact Or.inl (hP ha)
    · exact Or.inr (hN (by rw [ha]; simp))
  intro l hl
  unfold entryLines at hl
  split at hl
  · next x he =>
    simp only [List.mem_cons, List.not_mem_nil, or_false] at hl
    rcases hl with e1 | e1
    · subst e1; exact goodLine_assign _ _ hk (oneLine_valueText _ hv (by rw [he]; rfl))
    · subst e1; exact goodLine_nil
  · next x he =>
    simp only [List.mem_cons, List.not_mem_nil, or_false] at hl
    rcases hl with e1 | e1
    · subst e1; exact goodLine_assign _ _ hk (oneLine_valueText _ hv (by rw [he]; rfl))
    · subst e1; exact goodLine_nil
  · next x he =>
    rcases List.mem_append.mp hl with h1 | h1
    · refine goodLine_vecLines e.key [] (by simp) hk _ 0 ?_ l h1
      intro v hv'
      obtain ⟨n, _, rfl⟩ := List.mem_map.mp hv'
      exact oneLine_of_all _ (showInt_chars n)
    · simp at h1; subst h1; exact goodLine_nil
  · next x he =>
    rcases List.mem_append.mp hl with h1 | h1
    · refine goodLine_vecLines e.key [] (by simp) hk _ 0 ?_ l h1
      rw [he] at hv
      rcases hv with ⟨_, hL⟩ | hv
      · exact hL.2
      · cases hv
    · simp at h1; subst h1; exact goodLine_nil
  · next x he =>
    rcases List.mem_append.mp hl with h1 | h1
    · refine goodLine_vecLines e.key [[]] (by simp) hk _ 0 ?_ l h1
      intro v hv'
      obtain ⟨n, _, rfl⟩ := List.mem_map.mp hv'
      exact oneLine_valueText_ints n
    · simp at h1; subst h1; exact goodLine_nil
  · next _ h1 h2 h3 h4 h5 =>
    simp only [List.mem_cons, List.not_mem_nil, or_false] at hl
    subst hl
    refine goodLine_assign _ _ hk (oneLine_valueText _ hv ?_)
    cases hvar : e.var <;>
      first | rfl | exact (h1 _ hvar).elim | exact (h2 _ hvar).elim | exact (h3 _ hvar).elim | exact (h4 _ hvar).elim
            | exact (h5 _ hvar).elim


/-! ### `parameter_info` is the text of these lines -/

theorem vectorisedLines_aux (key : Str) (sep : List Str)
    (hs : ∀ v : Str, v ++ textOf sep ++ ['\n'] = v ++ '\n' :: textOf sep) :
    ∀ (vals : List Str) (off : Nat),
      ((List.range' off vals.length).zip (vals.map (· ++ textOf sep))).flatMap
          (fun (iv : Nat × Str) => key ++ ['['] ++ showNat (iv.1 + 1) ++ [']'] ++ assign ++ iv.2 ++ ['\n'])
        = textOf (vecLines key sep off vals) := by
  intro vals
  induction vals with
  | nil => intro off; rfl
  | cons v vs ih =>
    intro off
    rw [List.length_cons, List.range'_succ, List.map_cons, List.zip_cons_cons, List.flatMap_cons, ih (off + 1)]
    simp only [vecLines, textOf_cons, textOf_append, indexedLine]
    have h0 : textOf sep ++ ['\n'] = '\n' :: textOf sep := by simpa using hs []
    have h1 : ∀ R : Str, textOf sep ++ '\n' :: R = '\n' :: (textOf sep ++ R) := by
      intro R
      rw [show textOf sep ++ '\n' :: R = (textOf sep ++ ['\n']) ++ R by simp, h0]
      rfl
    simp only [List.append_assoc, List.cons_append, List.nil_append]
    rw [h1]

theorem vectorisedLines_eq (key : Str) (vals : List Str) :
    vectorisedLines key vals = textOf (vecLines key [] 0 vals) := by
  have := vectorisedLines_aux key [] (by intro v; simp [textOf]) vals 0
  simp only [textOf, List.flatMap_nil, List.append_nil, List.map_id'] at this
  unfold vectorisedLines
  rw [List.range_eq_range']
  exact this

theorem vectorisedLines_eq_dbl (key : Str) (vals : List Str) :
    vectorisedLines key (vals.map (· ++ ['\n'])) = textOf (vecLines key [[]] 0 vals) := by
  have := vectorisedLines_aux key [[]] (by intro v; simp [textOf]) vals 0
  have e : textOf [[]] = ['\n'] := rfl
  rw [e] at this
  unfold vectorisedLines
  rw [List.range_eq_range', List.length_map]
  exact this

/-- `parameter_info`, entry by entry: the text printed for a body entry is its lines, each with a line feed -/
theorem entryInfo_eq (q : KP) (e : Entry) (h : BodyEntryOK q e) : entryInfo e = textOf (entryLines e) := by
  obtain ⟨_, hact, hP, hN⟩ := h
  have hv : Printable e.var ∨ e.var = .none := by
    rcases hact with ha | ha
    · exact Or.inl (hP ha).1
    · exact Or.inr (hN (by rw [ha]; simp))
  have hinfo : entryInfo e = (if e.var.vectorised then vectorisedValueToStream e.key e.var
      else e.key ++ assign ++ valueToStream e.var) ++ ['\n'] := by
    unfold entryInfo
    rcases hact with ha | ha <;> rw [ha]
  rw [hinfo]
  unfold entryLines
  cases hvar : e.var with
  | none => simp [Var.vectorised, valueToStream, valueText, textOf]
  | choice _ _ => rw [hvar] at hv; rcases hv with hv | hv <;> simp [Printable] at hv
  | int n => simp [Var.vectorised, valueToStream, valueText, textOf]
  | bool b => simp [Var.vectorised, valueToStream, valueText, textOf]
  | ascii s => simp [Var.vectorised, valueToStream, valueText, textOf]
  | ints l =>
    simp only [Var.vectorised, Bool.false_eq_true, if_false, valueToStream_ints, textOf_cons]
    simp [textOf]
  | strs l =>
    simp only [Var.vectorised, Bool.false_eq_true, if_false, valueToStream_strs, textOf_cons]
    simp [textOf]
  | vInt l =>
    simp only [Var.vectorised, if_true, vectorisedValueToStream, vectorisedLines_eq, textOf_append]
    rfl
  | vAscii l =>
    simp only [Var.vectorised, if_true, vectorisedValueToStream, vectorisedLines_eq, textOf_append]
    rfl
  | vInts l =>
    simp only [Var.vectorised, if_true, vectorisedValueToStream, textOf_append]
    have e1 : (l.map fun x => showList (x.map showInt)) = (l.map fun x => valueText (.ints x)).map (· ++ ['\n']) := by
      rw [List.map_map]
      apply List.map_congr_left
      intro x _
      exact valueToStream_ints x
    rw [e1, vectorisedLines_eq_dbl]
    rfl


/-! ### the whole object -/

theorem textOf_flatMap {α : Type} (l : List α) (f : α → List Str) : textOf (l.flatMap f) = l.flatMap (fun a => textOf (f a)) := by
  induction l with
  | nil => rfl
  | cons a l ih => rw [List.flatMap_cons, List.flatMap_cons, textOf_append, ih]

theorem flatMap_congr' {α β : Type} (l : List α) (f g : α → List β) (h : ∀ a ∈ l, f a = g a) :
    l.flatMap f = l.flatMap g := by
  induction l with
  | nil => rfl
  | cons a l ih =>
    rw [List.flatMap_cons, List.flatMap_cons, h a List.mem_cons_self, ih (fun x hx => h x (List.mem_cons_of_mem _ hx))]

theorem entry_eq_of_none (e0 e : Entry) (hk : e0.key = e.key) (ha : e0.action = e.action) (hv : e.var = .none)
    (hs : SameKind e0.var e.var) : e0 = e := by
  obtain ⟨k, a, v⟩ := e
  obtain ⟨k0, a0, v0⟩ := e0
  simp only at hk ha hv hs
  subst hk ha hv
  cases v0 <;> simp only [SameKind] at hs
  rfl

/-- `parameter_info` of an object with one start key, a body of `set_variable` / `do_nothing` keys and one stop key:
    the start line, the lines of the body entries, the stop line -/
theorem parameterInfo_eq (p : KP) (s t : Entry) (b : List Entry) (hm : p.kmap = s :: (b ++ [t])) (hs : s.action = .start)
    (ht : t.action = .stop) (hb : ∀ e ∈ b, BodyEntryOK p e) :
    p.parameterInfo = (s.key ++ [' ', ':', '=']) ++ '\n' :: textOf (b.flatMap entryLines ++ [t.key ++ assign ++ []]) := by
  have hbact : ∀ e ∈ b, e.action = .set ∨ e.action = .ignore := fun e he => (hb e he).2.1
  have f1 : ∀ a : Action, (a = .start ∨ a = .stop) → b.filter (fun e => e.action == a) = [] := by
    intro a ha
    rw [List.filter_eq_nil_iff]
    intro e he
    rcases hbact e he with h | h <;> rcases ha with ha | ha <;> rw [h, ha] <;> decide
  have f2 : b.flatMap entryInfo = textOf (b.flatMap entryLines) := by
    rw [textOf_flatMap]
    exact flatMap_congr' b _ _ (fun e he => entryInfo_eq p e (hb e he))
  have es : entryInfo s = [] := by unfold entryInfo; rw [hs]
  have et : entryInfo t = [] := by unfold entryInfo; rw [ht]
  unfold KP.parameterInfo
  rw [hm]
  simp only [List.filter_cons, List.filter_append, hs, ht, f1 .start (Or.inl rfl), f1 .stop (Or.inr rfl),
    List.flatMap_cons, List.flatMap_append, es, et, f2, textOf_append, textOf_cons]
  simp [textOf, assign]

theorem keywordOf_startLine (q : KP) (kw : Str) (h : Canonical q kw) : q.keywordOf (kw ++ [' ', ':', '=']) = kw := by
  unfold KP.keywordOf
  have e : kw ++ [' ', ':', '='] = (kw ++ [' ']) ++ ':' :: '=' :: [] := by simp
  rw [e, getKeyword_assign _ _ (plainKey_snoc_space kw h.2.1),
    standardise_ws_trail [' '] kw (by intro c hc; simp at hc; subst hc; rfl), h.1, h.2.2]

theorem goodLine_startLine (k : Str) (hk : '\n' ∉ k) : GoodLine (k ++ [' ', ':', '=']) :=
  ⟨oneLine_append_ne k _ hk (by decide) (by simp), Or.inr (by simp)⟩

/-- **print → parse round trip of a whole object.**  `p` is the printed object, `p0` the receiving one. -/
theorem parse_parameterInfo (p p0 : KP)
    (h1 : ∀ e ∈ p.kmap, (e.action = .set → Printable e.var) ∧ Canonical p e.key)
    (hkeys : p0.kmap.map (·.key) = p.kmap.map (·.key)) (hacts : p0.kmap.map (·.action) = p.kmap.map (·.action))
    (hsk : ∀ e ∈ p.kmap, ∀ e0 ∈ p0.kmap, e0.key = e.key → SameKind e0.var e.var)
    (hal : p0.aliases = p.aliases) (hdal : p0.depAliases = p.depAliases)
    (hnd : (p.kmap.map (·.key)).Nodup)
    (hshape : ∃ s b t, p.kmap = s :: (b ++ [t]) ∧ s.action = .start ∧ t.action = .stop ∧
      ∀ e ∈ b, e.action = .set ∨ e.action = .ignore)
    (hLS : ∀ e ∈ p.kmap, e.action = .set → LineSafe e.var)
    (hNone : ∀ e ∈ p.kmap, e.action ≠ .set → e.var = .none)
    (hES : ∀ e ∈ p.kmap, e.action = .stop → p.resolveAlias [] ≠ e.key) :
    (p0.parse p.parameterInfo).tag = .ok true ∧ (p0.parse p.parameterInfo).kp.kmap = p.kmap := by
  obtain ⟨s, b, t, hm, hs, ht, hb⟩ := hshape
  have hsm : s ∈ p.kmap := by rw [hm]; exact List.mem_cons_self
  have htm : t ∈ p.kmap := by rw [hm]; simp
  have hbm : ∀ e ∈ b, e ∈ p.kmap := by intro e he; rw [hm]; simp [he]
  -- the receiving keymap has the same shape
  obtain ⟨b0, hm0, hbk, hba⟩ : ∃ b0, p0.kmap = s :: (b0 ++ [t]) ∧ b0.map (·.key) = b.map (·.key) ∧
      b0.map (·.action) = b.map (·.action) := by
    rw [hm] at hkeys hacts
    cases hp0 : p0.kmap with
    | nil => rw [hp0] at hkeys; simp at hkeys
    | cons s0 r0 =>
      rw [hp0] at hkeys hacts
      simp only [List.map_cons, List.cons.injEq, List.map_append, List.map_nil] at hkeys hacts
      obtain ⟨b0, tl, hr0, hk1, hk2⟩ := List.map_eq_append_iff.mp hkeys.2
      subst hr0
      cases tl with
      | nil => simp at hk2
      | cons t0 tl' =>
        cases tl' with
        | cons _ _ => simp at hk2
        | nil =>
          simp only [List.map_cons, List.map_nil, List.cons.injEq, and_true] at hk2
          have hlen : (b0.map (·.action)).length = (b.map (·.action)).length := by
            have := congrArg List.length hk1; simpa using this
          rw [List.map_append] at hacts
          obtain ⟨ha1, ha2⟩ := List.append_inj hacts.2 hlen
          simp only [List.map_cons, List.map_nil, List.cons.injEq, and_true] at ha2
          have hmem0 : s0 ∈ p0.kmap := by rw [hp0]; exact List.mem_cons_self
          have hmemt : t0 ∈ p0.kmap := by rw [hp0]; simp
          have es : s0 = s := entry_eq_of_none s0 s hkeys.1 hacts.1 (hNone s hsm (by rw [hs]; simp))
            (hsk s hsm s0 hmem0 hkeys.1)
          have et : t0 = t := entry_eq_of_none t0 t hk2 ha2 (hNone t htm (by rw [ht]; simp)) (hsk t htm t0 hmemt hk2)
          subst es et
          exact ⟨b0, rfl, hk1, ha1⟩
  have hb0m : ∀ e ∈ b0, e ∈ p0.kmap := by intro e he; rw [hm0]; simp [he]
  -- the state after the start line
  let q : KP := { p0 with parsing := true }
  have hq : q.kmap = s :: (b0 ++ [t]) := hm0
  have hcan : ∀ k, Canonical p k → Canonical q k := fun k h => canonical_congr q p hal hdal k h
  have hcan0 : ∀ k, Canonical p k → Canonical p0 k := fun k h => canonical_congr p0 p hal hdal k h
  have hres : q.resolveAlias [] = p.resolveAlias [] := resolveAlias_congr q p hal hdal []
  have hbok : ∀ r : KP, (∀ k, Canonical p k → Canonical r k) → ∀ e ∈ b, BodyEntryOK r e := fun r hr e he =>
    ⟨hr _ (h1 e (hbm e he)).2, hb e he, fun ha => ⟨(h1 e (hbm e he)).1 ha, hLS e (hbm e he) ha⟩, hNone e (hbm e he)⟩
  have hnd0 : (([s] ++ (b0 ++ [t])).map (·.key)).Nodup := by
    have : ([s] ++ (b0 ++ [t])) = p0.kmap := by rw [hm0]; rfl
    rw [this, hkeys]; exact hnd
  have hndp : (([s] ++ (b ++ [t])).map (·.key)).Nodup := by
    have : ([s] ++ (b ++ [t])) = p.kmap := by rw [hm]; rfl
    rw [this]; exact hnd
  have hES0 : NoEmptyStop (q.resolveAlias []) ([s] ++ (b0 ++ [t])) := by
    intro x hx hxa
    rw [hres]
    simp only [List.mem_append, List.mem_cons, List.not_mem_nil, or_false] at hx
    rcases hx with e | e | e
    · subst e; rw [hs] at hxa; cases hxa
    · have : x.action ∈ b.map (·.action) := by rw [← hba]; exact List.mem_map.mpr ⟨x, e, rfl⟩
      obtain ⟨y, hy, hya⟩ := List.mem_map.mp this
      rcases hb y hy with h | h <;> rw [hya, hxa] at h <;> cases h
    · subst e; exact hES x htm hxa
  -- the lines after the start line
  have hbody := runLines_body q rfl [t] b b0 [s] hbk hba
    (fun e he e0 he0 => hsk e (hbm e he) e0 (hb0m e0 he0)) (hbok q hcan) hnd0 hES0
  have hq' : q.withMap ([s] ++ (b0 ++ [t])) = q := withMap_self q _ hq
  rw [hq'] at hbody
  let Q : KP := q.withMap ([s] ++ (b ++ [t]))
  have hstop : runLines Q [t.key ++ assign ++ []] = some { Q with parsing := false } := by
    apply runLines_one _ _ _ _ rfl
    unfold KP.parseLine processLine
    rw [keywordOf_line Q t.key [] (hcan _ (h1 t htm).2)]
    have : findInKeymap Q.kmap t.key = some t := by
      show findInKeymap ([s] ++ (b ++ [t])) t.key = some t
      have e : [s] ++ (b ++ [t]) = (s :: b) ++ t :: [] := by simp
      rw [e]
      exact findInKeymap_mid (s :: b) [] t (by simpa using hndp)
    rw [this]
    simp only [ht]
  have hrun : runLines q (b.flatMap entryLines ++ [t.key ++ assign ++ []]) = some { Q with parsing := false } := by
    rw [runLines_append _ _ _ _ hbody]; exact hstop
  have hgood : ∀ l ∈ b.flatMap entryLines ++ [t.key ++ assign ++ []], GoodLine l := by
    intro l hl
    rcases List.mem_append.mp hl with h | h
    · obtain ⟨e, he, hle⟩ := List.mem_flatMap.mp h
      exact goodLine_entryLines p e (hbok p (fun _ h => h) e he) l hle
    · simp only [List.mem_cons, List.not_mem_nil, or_false] at h
      subst h
      exact goodLine_assign _ _ (canonical_noNL p _ (h1 t htm).2) oneLine_nil
  -- the text
  have htext := parameterInfo_eq p s t b hm hs ht (hbok p (fun _ h => h))
  generalize hlines : b.flatMap entryLines ++ [t.key ++ assign ++ []] = lines at htext hrun hgood
  -- the first line
  have hfirst : p0.parseLine (s.key ++ [' ', ':', '=']) = some q := by
    unfold KP.parseLine processLine
    rw [keywordOf_startLine p0 s.key (hcan0 _ (h1 s hsm).2)]
    have : findInKeymap p0.kmap s.key = some s := by
      rw [hm0]
      exact findInKeymap_mid [] (b0 ++ [t]) s (by simpa using hnd0)
    rw [this]
    simp only [hs]
    rfl
  have hfuel : ∃ f, p.parameterInfo.length + 2 = lines.length + (f + 1) := by
    have := length_textOf lines
    refine ⟨p.parameterInfo.length + 1 - lines.length, ?_⟩
    rw [htext]
    simp only [List.length_append, List.length_cons]
    omega
  obtain ⟨f, hf⟩ := hfuel
  have hloop : parseLoop (p.parameterInfo.length + 2) q { rest := textOf lines }
      = ⟨.ok true, { Q with parsing := false }⟩ := by
    have := parseLoop_lines lines hgood q _ hrun (f + 1) []
    rw [List.append_nil] at this
    rw [hf, this, parseLoop]
    rfl
  have hnext : nextLine (p.parameterInfo.length + 2) { rest := p.parameterInfo }
      = some (.line (s.key ++ [' ', ':', '=']) { rest := textOf lines }) := by
    have := nextLine_line (p.parameterInfo.length + 1) (s.key ++ [' ', ':', '=']) (textOf lines)
      (goodLine_startLine _ (canonical_noNL p _ (h1 s hsm).2))
    rw [← htext] at this
    exact this
  have hparse : p0.parse p.parameterInfo = ⟨.ok true, { Q with parsing := false }⟩ := by
    unfold KP.parse
    simp only [hnext, hfirst]
    have hqp : q.parsing = true := rfl
    simp only [hqp, Bool.not_true, Bool.false_eq_true, if_false, hloop]
  rw [hparse]
  refine ⟨rfl, ?_⟩
  show [s] ++ (b ++ [t]) = p.kmap
  rw [hm]; rfl

/-! ### the extra hypotheses of the whole-object round trip, by name -/

/-- the hypotheses of the whole-object round trip as first stated (`C17_print_parse_roundtrip_object`): printable values and
    canonical keys in the printed object `p`; the receiving object `p0` has the same keys, call-backs, kinds of variables
    and aliases; keys are unique; one start key, a body of `set_variable` / `do_nothing` keys, one stop key -/
def RoundTripHyps (p p0 : KP) : Prop :=
  (∀ e ∈ p.kmap, (e.action = .set → Printable e.var) ∧ Canonical p e.key) ∧
  p0.kmap.map (·.key) = p.kmap.map (·.key) ∧ p0.kmap.map (·.action) = p.kmap.map (·.action) ∧
  (∀ e ∈ p.kmap, ∀ e0 ∈ p0.kmap, e0.key = e.key → SameKind e0.var e.var) ∧
  p0.aliases = p.aliases ∧ p0.depAliases = p.depAliases ∧
  (p.kmap.map (·.key)).Nodup ∧ (∃ s b t, p.kmap = s :: (b ++ [t]) ∧ s.action = .start ∧ t.action = .stop ∧
    ∀ e ∈ b, e.action = .set ∨ e.action = .ignore)

/-- every printed value stays on its line(s) and every printed index fits an `int` (`LineSafe`) -/
def ValuesLineSafe (p : KP) : Prop := ∀ e ∈ p.kmap, e.action = .set → LineSafe e.var

/-- start, stop and ignored keys carry no variable (`KeyArgument::NONE`, as `add_start_key`, `add_stop_key`, `ignore_key`
    register them): parsing never writes to them, so nothing else could make the two objects agree there -/
def MarkersPlain (p : KP) : Prop := ∀ e ∈ p.kmap, e.action ≠ .set → e.var = .none

/-- the empty keyword is not (an alias of) a stop key: every printed list is followed by an empty line
    (`operator<<(ostream&, vector)` ends in `std::endl`), whose keyword is the empty string -/
def EmptyKeyNotStop (p : KP) : Prop := ∀ e ∈ p.kmap, e.action = .stop → p.resolveAlias [] ≠ e.key

/-! ### the hypotheses are decidable (used by the witnesses and non-vacuity examples of `Props.lean`) -/

instance (e : Str) : Decidable (∃ c t, e = c :: t ∧ isBlank c = false) :=
  match e with
  | [] => isFalse (by intro ⟨c, t, h, _⟩; cases h)
  | c :: t => if h : isBlank c = false then isTrue ⟨c, t, rfl, h⟩
              else isFalse (by intro ⟨c', t', h', hb⟩; cases h'; exact h hb)

instance (e : Str) : Decidable (CleanElem e) := by unfold CleanElem; infer_instance

instance : (v : Var) → Decidable (Printable v)
  | .none => isFalse (by simp [Printable])
  | .choice _ _ => isFalse (by simp [Printable])
  | .int n => inferInstanceAs (Decidable (InIntRange n))
  | .bool _ => isTrue trivial
  | .ascii s => inferInstanceAs (Decidable (CleanStr s))
  | .ints l => inferInstanceAs (Decidable (∀ x ∈ l, InIntRange x))
  | .strs l => inferInstanceAs (Decidable (∀ e ∈ l, CleanElem e))
  | .vInt l => inferInstanceAs (Decidable (∀ x ∈ l, InIntRange x))
  | .vAscii l => inferInstanceAs (Decidable (∀ s ∈ l, CleanStr s))
  | .vInts l => inferInstanceAs (Decidable (∀ x ∈ l, ∀ y ∈ x, InIntRange y))

instance : (v : Var) → Decidable (LineSafe v)
  | .none => isTrue trivial
  | .choice _ _ => isTrue trivial
  | .int _ => isTrue trivial
  | .bool _ => isTrue trivial
  | .ints _ => isTrue trivial
  | .ascii s => inferInstanceAs (Decidable (OneLine s))
  | .strs l => inferInstanceAs (Decidable (∀ e ∈ l, '\n' ∉ e))
  | .vInt l => inferInstanceAs (Decidable (l.length ≤ 2147483647))
  | .vAscii l => inferInstanceAs (Decidable (l.length ≤ 2147483647 ∧ ∀ s ∈ l, OneLine s))
  | .vInts l => inferInstanceAs (Decidable (l.length ≤ 2147483647))

instance (a b : Var) : Decidable (SameKind a b) := by
  cases a <;> cases b <;>
    first
    | exact isTrue trivial
    | exact isFalse (fun h => h)
    | exact inferInstanceAs (Decidable (List.length _ = List.length _))

instance (p : KP) (k : Str) : Decidable (Canonical p k) := by unfold Canonical; infer_instance
instance (p : KP) : Decidable (ValuesLineSafe p) := by unfold ValuesLineSafe; infer_instance
instance (p : KP) : Decidable (MarkersPlain p) := by unfold MarkersPlain; infer_instance
instance (p : KP) : Decidable (EmptyKeyNotStop p) := by unfold EmptyKeyNotStop; infer_instance

/-- `RoundTripHyps` for concrete objects: everything but the shape is decided, the shape is given -/
theorem roundTripHyps_of (p p0 : KP) (s t : Entry) (b : List Entry) (hm : p.kmap = s :: (b ++ [t]))
    (h : ((∀ e ∈ p.kmap, (e.action = .set → Printable e.var) ∧ Canonical p e.key) ∧
      p0.kmap.map (·.key) = p.kmap.map (·.key) ∧ p0.kmap.map (·.action) = p.kmap.map (·.action) ∧
      (∀ e ∈ p.kmap, ∀ e0 ∈ p0.kmap, e0.key = e.key → SameKind e0.var e.var) ∧
      p0.aliases = p.aliases ∧ p0.depAliases = p.depAliases ∧ (p.kmap.map (·.key)).Nodup ∧
      s.action = .start ∧ t.action = .stop ∧ ∀ e ∈ b, e.action = .set ∨ e.action = .ignore)) : RoundTripHyps p p0 :=
  ⟨h.1, h.2.1, h.2.2.1, h.2.2.2.1, h.2.2.2.2.1, h.2.2.2.2.2.1, h.2.2.2.2.2.2.1, s, b, t, hm, h.2.2.2.2.2.2.2⟩

/-! ### witness objects for the negative results of `Props.lean` -/

/-- an object with start key `s`, stop key `e` and the given body (keys already standardised) -/
def frameKP (body : List (String × Action × Var)) (stopKey : String := "e") (stopVar : Var := .none) : KP :=
  { kmap := ⟨['s'], .start, .none⟩ :: (body.map (fun (k, a, v) => ⟨k.toList, a, v⟩) ++ [⟨stopKey.toList, .stop, stopVar⟩]) }

end StirVerif.C17
