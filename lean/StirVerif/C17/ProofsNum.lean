/-
C17 — proofs about numbers and lists: `ostream << int` followed by `istream >> int` / `atoi` is the identity,
`{a, b, c}` printing followed by the list readers is the identity, and the allocation bounds of the list readers.
-/
import StirVerif.C17.ProofsStd

namespace StirVerif.C17

/-! ### digits -/

theorem isDigit_toNat {c : Char} (h : c.isDigit = true) : 48 ≤ c.toNat ∧ c.toNat ≤ 57 := by
  unfold Char.isDigit at h
  simp only [ge_iff_le, Bool.and_eq_true, decide_eq_true_eq, UInt32.le_iff_toNat_le] at h
  exact h

theorem isDigit_of_toNat {c : Char} (h : 48 ≤ c.toNat ∧ c.toNat ≤ 57) : c.isDigit = true := by
  unfold Char.isDigit
  simp only [ge_iff_le, Bool.and_eq_true, decide_eq_true_eq, UInt32.le_iff_toNat_le]
  exact h

theorem ne_of_toNat_ne {c d : Char} (h : c.toNat ≠ d.toNat) : c ≠ d := fun e => h (by rw [e])

theorem isCSpace_digit {c : Char} (h : c.isDigit = true) : isCSpace c = false := by
  have := isDigit_toNat h
  unfold isCSpace
  rw [beq_false_of_toNat_ne (d := ' '), beq_false_of_toNat_ne (d := '\t'), beq_false_of_toNat_ne (d := '\n'),
    beq_false_of_toNat_ne (d := '\x0b'), beq_false_of_toNat_ne (d := '\x0c'), beq_false_of_toNat_ne (d := '\r')] <;>
    simp <;> omega

theorem showNat_ne_nil (n : Nat) : showNat n ≠ [] := Nat.toDigits_ne_nil

theorem showNat_isDigit (n : Nat) : ∀ c ∈ showNat n, c.isDigit = true :=
  fun _ hc => Nat.isDigit_of_mem_toDigits (by decide) (by decide) hc

theorem digitsVal_showNat (n : Nat) : digitsVal (showNat n) = n := Nat.ofDigitChars_ten_toDigits

/-- what comes after a printed number: nothing, or a character that is not a digit -/
def NoDigitHead (rest : Str) : Prop := ∀ c ∈ rest.head?, c.isDigit = false

theorem takeWhile_digits (n : Nat) (rest : Str) (h : NoDigitHead rest) :
    (showNat n ++ rest).takeWhile Char.isDigit = showNat n := by
  rw [List.takeWhile_append_of_pos (showNat_isDigit n)]
  cases rest with
  | nil => simp
  | cons c cs =>
    have : c.isDigit = false := h c (by simp)
    simp [List.takeWhile_cons, this]

theorem dropWhile_digits (n : Nat) (rest : Str) (h : NoDigitHead rest) :
    (showNat n ++ rest).dropWhile Char.isDigit = rest := by
  rw [List.dropWhile_append_of_pos (showNat_isDigit n)]
  cases rest with
  | nil => simp
  | cons c cs =>
    have : c.isDigit = false := h c (by simp)
    simp [List.dropWhile_cons, this]

theorem showNat_head (n : Nat) : ∃ d ds, showNat n = d :: ds ∧ d.isDigit = true := by
  cases h : showNat n with
  | nil => exact absurd h (showNat_ne_nil n)
  | cons d ds => exact ⟨d, ds, rfl, showNat_isDigit n d (by rw [h]; exact List.mem_cons_self)⟩

theorem takeSign_digit (d : Char) (t : Str) (h : d.isDigit = true) : takeSign (d :: t) = (false, d :: t) := by
  have := isDigit_toNat h
  have e1 : (d == '-') = false := beq_false_of_toNat_ne (by simp; omega)
  have e2 : (d == '+') = false := beq_false_of_toNat_ne (by simp; omega)
  simp [takeSign, e1, e2]

theorem dropWhile_isCSpace_digit (d : Char) (t : Str) (h : d.isDigit = true) :
    (d :: t).dropWhile isCSpace = d :: t := by
  rw [List.dropWhile_cons_of_neg]; simp [isCSpace_digit h]

/-! ### `ostream << int` then `istream >> int` -/

def InIntRange (v : Int) : Prop := -2147483648 ≤ v ∧ v ≤ 2147483647

theorem readInt_showInt (v : Int) (hv : InIntRange v) (rest : Str) (h : NoDigitHead rest) :
    readInt (showInt v ++ rest) = (some v, rest) := by
  unfold readInt showInt
  by_cases hneg : v < 0
  · rw [if_pos hneg]
    obtain ⟨d, ds, hd, hdig⟩ := showNat_head v.natAbs
    have h1 : ('-' :: showNat v.natAbs ++ rest).dropWhile isCSpace = '-' :: (showNat v.natAbs ++ rest) := by
      rw [List.cons_append, List.dropWhile_cons_of_neg]; decide
    simp only [h1]
    have h2 : takeSign ('-' :: (showNat v.natAbs ++ rest)) = (true, showNat v.natAbs ++ rest) := by
      simp [takeSign]
    simp only [h2, takeWhile_digits _ _ h, dropWhile_digits _ _ h, digitsVal_showNat]
    have hne : (showNat v.natAbs).isEmpty = false := by rw [hd]; rfl
    simp only [hne, Bool.false_eq_true, if_false, if_true]
    have hv' : (-(v.natAbs : Int)) = v := by omega
    rw [hv']
    have : (decide (v < -2147483648) || decide (2147483647 < v)) = false := by
      unfold InIntRange at hv; simp; omega
    rw [this]; rfl
  · rw [if_neg hneg]
    obtain ⟨d, ds, hd, hdig⟩ := showNat_head v.natAbs
    have h1 : (showNat v.natAbs ++ rest).dropWhile isCSpace = showNat v.natAbs ++ rest := by
      rw [hd, List.cons_append, dropWhile_isCSpace_digit _ _ hdig]
    simp only [h1]
    have h2 : takeSign (showNat v.natAbs ++ rest) = (false, showNat v.natAbs ++ rest) := by
      rw [hd, List.cons_append, takeSign_digit _ _ hdig]
    simp only [h2, takeWhile_digits _ _ h, dropWhile_digits _ _ h, digitsVal_showNat]
    have hne : (showNat v.natAbs).isEmpty = false := by rw [hd]; rfl
    simp only [hne, Bool.false_eq_true, if_false]
    have hv' : ((v.natAbs : Nat) : Int) = v := by omega
    rw [hv']
    have : (decide (v < -2147483648) || decide (2147483647 < v)) = false := by
      unfold InIntRange at hv; simp; omega
    rw [this]; rfl

/-- `atoi` of a printed index -/
theorem atoi_showNat (n : Nat) (hn : n ≤ 2147483647) : atoi (showNat n) = n := by
  unfold atoi
  obtain ⟨d, ds, hd, hdig⟩ := showNat_head n
  have h1 : (showNat n).dropWhile isCSpace = showNat n := by rw [hd, dropWhile_isCSpace_digit _ _ hdig]
  simp only [h1]
  have h2 : takeSign (showNat n) = (false, showNat n) := by rw [hd, takeSign_digit _ _ hdig]
  simp only [h2]
  have h3 : (showNat n).takeWhile Char.isDigit = showNat n := by
    have := takeWhile_digits n [] (by intro c hc; simp at hc)
    simpa using this
  rw [h3, digitsVal_showNat]
  simp only [Bool.false_eq_true, if_false]
  unfold clampInt wrap32
  have a1 : ¬ ((n : Int) < -9223372036854775808) := by omega
  have a2 : ¬ ((9223372036854775807 : Int) < (n : Int)) := by omega
  rw [if_neg a1, if_neg a2]
  omega

/-! ### allocation bounds: nothing that is built is longer than the text it is built from -/

theorem length_dropWhile_le (p : Char → Bool) (s : Str) : (s.dropWhile p).length ≤ s.length :=
  (List.dropWhile_sublist p).length_le

theorem length_takeSign_le (s : Str) : (takeSign s).2.length ≤ s.length := by
  unfold takeSign
  cases s with
  | nil => simp
  | cons c t =>
    by_cases h1 : (c == '-') = true
    · simp [h1]
    · by_cases h2 : (c == '+') = true
      · simp [h1, h2]
      · simp [h1, h2]

/-- a successful `istream >> int` consumes at least one character -/
theorem readInt_consumes (s : Str) (t : Int) (r : Str) (h : readInt s = (some t, r)) : r.length + 1 ≤ s.length := by
  simp only [readInt] at h
  have l1 : (s.dropWhile isCSpace).length ≤ s.length := length_dropWhile_le _ _
  have l2 := length_takeSign_le (s.dropWhile isCSpace)
  generalize (takeSign (s.dropWhile isCSpace)).snd = s2 at h l2
  generalize (takeSign (s.dropWhile isCSpace)).fst = neg at h
  have hlen : (s2.takeWhile Char.isDigit).length + (s2.dropWhile Char.isDigit).length = s2.length := by
    rw [← List.length_append, List.takeWhile_append_dropWhile]
  by_cases he : (s2.takeWhile Char.isDigit).isEmpty = true
  · rw [if_pos he] at h
    cases h
  · rw [if_neg he] at h
    have hpos : 0 < (s2.takeWhile Char.isDigit).length := by
      cases hh : s2.takeWhile Char.isDigit with
      | nil => rw [hh] at he; simp at he
      | cons a as => simp
    cases neg <;> simp only [Bool.false_eq_true, if_false, if_true] at h <;> split at h <;> first | (cases h; done) | (cases h; omega)

theorem readInt_rest_le (s : Str) : (readInt s).2.length ≤ s.length := by
  simp only [readInt]
  have l1 : (s.dropWhile isCSpace).length ≤ s.length := length_dropWhile_le _ _
  have l2 := length_takeSign_le (s.dropWhile isCSpace)
  generalize (takeSign (s.dropWhile isCSpace)).snd = s2 at l2 ⊢
  generalize (takeSign (s.dropWhile isCSpace)).fst = neg
  have l3 : (s2.dropWhile Char.isDigit).length ≤ s2.length := length_dropWhile_le _ _
  simp only [apply_ite Prod.snd, ite_self]
  omega

theorem readChar_consumes (s : Str) (c : Char) (r : Str) (h : readChar s = some (c, r)) : r.length + 1 ≤ s.length := by
  unfold readChar at h
  have l1 := length_dropWhile_le isCSpace s
  cases hh : s.dropWhile isCSpace with
  | nil => rw [hh] at h; cases h
  | cons a as =>
    rw [hh] at h l1
    cases h
    simp at l1
    omega

/-- **allocation bound** for `operator>>(istream&, vector<int>&)`: the vector never has more elements than the text has characters -/
theorem readIntListAux_length (fuel : Nat) (s : Str) (acc l : List Int) (h : readIntListAux fuel s acc = some l) :
    l.length ≤ acc.length + s.length := by
  induction fuel generalizing s acc with
  | zero => cases h
  | succ fuel ih =>
    rw [readIntListAux] at h
    cases hr : readInt s with
    | mk o r =>
      rw [hr] at h
      cases o with
      | none =>
        simp only at h
        cases hc : readChar r with
        | none => rw [hc] at h; cases h
        | some x => rw [hc] at h; cases h; omega
      | some t =>
        simp only at h
        have c1 := readInt_consumes s t r hr
        cases hc : readChar r with
        | none => rw [hc] at h; cases h
        | some x =>
          obtain ⟨c, r'⟩ := x
          rw [hc] at h
          simp only at h
          have c2 := readChar_consumes r c r' hc
          split at h
          · have := ih r' (acc ++ [t]) h
            simp at this
            omega
          · cases h
            simp
            omega

theorem readIntList_length (s : Str) (l : List Int) (h : readIntList s = some l) : l.length ≤ s.length := by
  have := readIntListAux_length _ s [] l h
  simpa using this

theorem dropEndWhile_sublist (p : Char → Bool) (u : Str) : List.Sublist (dropEndWhile p u) u := by
  induction u with
  | nil => simp [dropEndWhile]
  | cons a as iha =>
    rw [dropEndWhile_cons]
    split
    · simp
    · exact iha.cons_cons a

/-- **allocation bound** for the string-list reader: number of elements and size of each are bounded by the text -/
theorem readStringListAux_length (fuel : Nat) (s : Str) (acc : List Str) :
    (readStringListAux fuel s acc).length ≤ acc.length + s.length ∧
      ∀ e ∈ readStringListAux fuel s acc, e ∈ acc ∨ e.length ≤ s.length := by
  induction fuel generalizing s acc with
  | zero => exact ⟨by simp [readStringListAux], fun e he => Or.inl (by simpa [readStringListAux] using he)⟩
  | succ fuel ih =>
    rw [readStringListAux]
    have l1 : ((s.dropWhile isBraceOrComma).dropWhile isBlank).length ≤ s.length :=
      Nat.le_trans (length_dropWhile_le _ _) (length_dropWhile_le _ _)
    cases h1 : (s.dropWhile isBraceOrComma).dropWhile isBlank with
    | nil => exact ⟨by simp, fun e he => Or.inl (by simpa using he)⟩
    | cons c s1 =>
      rw [h1] at l1
      simp only
      have l3 : (dropEndWhile isBlank ((c :: s1).takeWhile (fun d => !isBraceOrComma d))).length ≤ (c :: s1).length :=
        Nat.le_trans (dropEndWhile_sublist _ _).length_le (List.takeWhile_sublist _).length_le
      cases h2 : (c :: s1).dropWhile (fun d => !isBraceOrComma d) with
      | nil =>
        simp only
        constructor
        · simp at l1 ⊢; omega
        · intro e he
          rcases List.mem_append.mp he with he | he
          · left; exact he
          · right
            simp only [List.mem_singleton] at he
            subst he
            omega
      | cons b t =>
        simp only
        have l2 : t.length + 1 ≤ (c :: s1).length := by
          have := length_dropWhile_le (fun d => !isBraceOrComma d) (c :: s1)
          rw [h2] at this
          simpa using this
        have := ih t (acc ++ [dropEndWhile isBlank ((c :: s1).takeWhile (fun d => !isBraceOrComma d))])
        constructor
        · have := this.1
          simp only [List.length_append, List.length_cons, List.length_nil] at this l1 l2 ⊢
          omega
        · intro e he
          rcases this.2 e he with h | h
          · rcases List.mem_append.mp h with h | h
            · left; exact h
            · right
              simp only [List.mem_singleton] at h
              subst h
              simp only [List.length_cons] at l1 l3 ⊢
              omega
          · right
            simp only [List.length_cons] at l1 l2
            omega

theorem readStringList_length (s : Str) :
    (readStringList s).length ≤ s.length ∧ ∀ e ∈ readStringList s, e.length ≤ s.length := by
  have := readStringListAux_length (s.length + 1) s []
  unfold readStringList
  constructor
  · simpa using this.1
  · intro e he
    rcases this.2 e he with h | h
    · simp at h
    · exact h

end StirVerif.C17
