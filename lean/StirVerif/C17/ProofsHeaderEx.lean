/-
C17 — concrete header texts evaluated in the model (`decide`, finite computations): non-vacuity instances and negative
witnesses for the theorems about Interfile headers with their keys in any order (`ProofsHeader.lean`), and a concrete history of
copies of a `ParsingObject` (`ProofsCopy.lean`).
Core Lean only.
-/
import StirVerif.C17.ProofsHeader
import StirVerif.C17.ProofsCopy
namespace StirVerif.C17

/-- a small valid image header (1 x 1 x 2 voxels) with `tail` in front of the end key -/
def exHdr (tail : String) : Str :=
  ("!INTERFILE :=\n!type of data := PET\n!PET data type := Image\n!number format := float\n!number of bytes per pixel := 4\n" ++
   "number of dimensions := 3\n!matrix size [1] := 1\n!matrix size [2] := 1\n!matrix size [3] := 2\n" ++ tail ++
   "!END OF INTERFILE :=\n").toList

def varOf (k : Str) (o : HdrOutcome) : Var :=
  match o with
  | .ok p => getVar p.kmap k
  | _ => .none

set_option maxRecDepth 1000000 in
/-- the scenario of the seeded defect: parametric image, `number of time frames` AFTER the data-type keys and the offsets.
    The offset of the second data set survives. -/
theorem ex_parametric_frames_last :
    varOf kOffsets (parseImageHeader (exHdr "number of image data types := 2\ndata offset in bytes[2] := 8\nnumber of time frames := 1\n"))
      = .vInt [0, 8] := by decide

set_option maxRecDepth 1000000 in
/-- a per-frame key in front of `number of time frames`: the table is still empty, `error()` -/
theorem ex_duration_before_frames :
    parseImageHeader (exHdr "image duration (sec)[1] := 60\nnumber of time frames := 1\n") = .error := by decide

set_option maxRecDepth 1000000 in
/-- `PET data type := <not in the list>`: `post_processing` indexes `PET_data_type_values` with -1 -/
theorem ex_pet_data_type_oob :
    parseImageHeader ("!INTERFILE :=\n!type of data := PET\n!PET data type := nonsense\n!number format := float\n!number of bytes per pixel := 4\nnumber of dimensions := 3\n!matrix size [1] := 1\n!matrix size [2] := 1\n!matrix size [3] := 2\n!END OF INTERFILE :=\n".toList)
      = .oob := by decide

set_option maxRecDepth 1000000 in
/-- per-plane scaling factors in front of a count key are cut down to the first one (and that one is used for all planes);
    behind the count key they are kept -/
theorem ex_scaling_list_truncated :
    varOf kScaling (parseImageHeader (exHdr "image scaling factor[1] := {3,4}\nnumber of time frames := 1\n")) = .vInts [[3, 3]] ∧
    varOf kScaling (parseImageHeader (exHdr "number of time frames := 1\nimage scaling factor[1] := {3,4}\n")) = .vInts [[3, 4]] := by
  decide

/-- a class with one `int` member -/
def exClass : KP := ((({} : KP).addKey "Obj".toList .start .none).addKey "n".toList .set (.int 5)).addKey "End".toList .stop .none

set_option maxRecDepth 100000 in
/-- original parsed and printed, copied, original re-parsed with another value and destroyed: the copy still prints 7 -/
theorem ex_copy_history :
    (Heap.run exClass [] [.new, .parse 0 "Obj :=\nn := 7\nEnd :=\n".toList, .info 0, .copy 0, .parse 0 "Obj :=\nn := 9\nEnd :=\n".toList,
      .destroy 0, .info 1]).2.getLast? = some (.text "obj :=\nn := 7\nend := \n".toList) := by decide

end StirVerif.C17
