import StirVerif.C17.Model
namespace StirVerif.C17
/-- placeholder (replaced below) -/
theorem C17_stub : standardise [] = [] := rfl
end StirVerif.C17
