/-
C17 — proofs about `standardise` (standardise_interfile_keyword): normal form, idempotence, insensitivity to case and to
runs of the characters `" \t_!"`.
-/
import StirVerif.C17.Model

namespace StirVerif.C17

/-! ### characters -/

theorem toLower_cases (c : Char) :
    c.toLower = c ∨ (65 ≤ c.toNat ∧ c.toNat ≤ 90 ∧ c.toLower.toNat = c.toNat + 32) := by
  unfold Char.toLower
  split
  · next h =>
    right
    have h1 : 65 ≤ c.val.toNat := by
      have := h.1
      simp only [ge_iff_le, UInt32.le_iff_toNat_le] at this
      exact this
    have h2 : c.val.toNat ≤ 90 := by
      have := h.2
      simp only [UInt32.le_iff_toNat_le] at this
      exact this
    refine ⟨h1, h2, ?_⟩
    show (c.val + ('a'.val - 'A'.val)).toNat = c.val.toNat + 32
    rw [UInt32.toNat_add]
    have : ('a'.val - 'A'.val).toNat = 32 := by decide
    rw [this]
    omega
  · left; rfl

theorem beq_false_of_toNat_ne {c d : Char} (h : c.toNat ≠ d.toNat) : (c == d) = false := by
  simp only [beq_eq_false_iff_ne, ne_eq]
  intro e
  exact h (by rw [e])

/-- letters are none of the special characters -/
theorem isCollapse_letter {c : Char} (h : (65 ≤ c.toNat ∧ c.toNat ≤ 90) ∨ (97 ≤ c.toNat ∧ c.toNat ≤ 122)) :
    isCollapse c = false := by
  unfold isCollapse isCSpace
  rw [beq_false_of_toNat_ne (d := ' '), beq_false_of_toNat_ne (d := '\t'), beq_false_of_toNat_ne (d := '\n'),
    beq_false_of_toNat_ne (d := '\x0b'), beq_false_of_toNat_ne (d := '\x0c'), beq_false_of_toNat_ne (d := '\r'),
    beq_false_of_toNat_ne (d := '_'), beq_false_of_toNat_ne (d := '!')] <;> simp <;> omega

theorem isTrimWs_letter {c : Char} (h : (65 ≤ c.toNat ∧ c.toNat ≤ 90) ∨ (97 ≤ c.toNat ∧ c.toNat ≤ 122)) :
    isTrimWs c = false := by
  unfold isTrimWs
  rw [beq_false_of_toNat_ne (d := ' '), beq_false_of_toNat_ne (d := '\t'),
    beq_false_of_toNat_ne (d := '_'), beq_false_of_toNat_ne (d := '!')] <;> simp <;> omega

theorem isCollapse_toLower (c : Char) : isCollapse c.toLower = isCollapse c := by
  rcases toLower_cases c with h | ⟨h1, h2, h3⟩
  · rw [h]
  · rw [isCollapse_letter (c := c) (Or.inl ⟨h1, h2⟩), isCollapse_letter (c := c.toLower) (Or.inr (by omega))]

theorem isTrimWs_toLower (c : Char) : isTrimWs c.toLower = isTrimWs c := by
  rcases toLower_cases c with h | ⟨h1, h2, h3⟩
  · rw [h]
  · rw [isTrimWs_letter (c := c) (Or.inl ⟨h1, h2⟩), isTrimWs_letter (c := c.toLower) (Or.inr (by omega))]

theorem toLower_toLower (c : Char) : c.toLower.toLower = c.toLower := by
  rcases toLower_cases c with h | ⟨h1, h2, h3⟩
  · rw [h, h]
  · rcases toLower_cases c.toLower with h' | ⟨h1', h2', _⟩
    · exact h'
    · omega

theorem isCollapse_of_isTrimWs {c : Char} (h : isTrimWs c = true) : isCollapse c = true := by
  unfold isTrimWs at h
  unfold isCollapse isCSpace
  simp only [Bool.or_eq_true] at h ⊢
  rcases h with ((h | h) | h) | h <;> simp [h]

theorem isCollapse_space : isCollapse ' ' = true := by decide
theorem isTrimWs_space : isTrimWs ' ' = true := by decide

/-! ### `dropEndWhile` -/

theorem dropEndWhile_cons (p : Char → Bool) (c : Char) (cs : Str) :
    dropEndWhile p (c :: cs) = if (dropEndWhile p cs).isEmpty && p c then [] else c :: dropEndWhile p cs := by
  rw [dropEndWhile]
  cases h : dropEndWhile p cs with
  | nil => cases hp : p c <;> simp [hp]
  | cons a as => simp

theorem dropEndWhile_append (p : Char → Bool) (x y : Str) :
    dropEndWhile p (x ++ y) = if (dropEndWhile p y).isEmpty then dropEndWhile p x else x ++ dropEndWhile p y := by
  induction x with
  | nil =>
    rw [List.nil_append]
    cases h : dropEndWhile p y <;> simp [dropEndWhile]
  | cons c cs ih =>
    rw [List.cons_append, dropEndWhile_cons, ih, dropEndWhile_cons]
    cases hy : dropEndWhile p y with
    | nil => simp
    | cons a as => simp

theorem dropEndWhile_singleton (p : Char → Bool) (c : Char) : dropEndWhile p [c] = if p c then [] else [c] := by
  simp [dropEndWhile]

theorem dropEndWhile_snoc_neg (p : Char → Bool) (x : Str) (d : Char) (h : p d = false) :
    dropEndWhile p (x ++ [d]) = x ++ [d] := by
  rw [dropEndWhile_append, dropEndWhile_singleton]; simp [h]

theorem dropEndWhile_snoc_pos (p : Char → Bool) (x : Str) (d : Char) (h : p d = true) :
    dropEndWhile p (x ++ [d]) = dropEndWhile p x := by
  rw [dropEndWhile_append, dropEndWhile_singleton]; simp [h]

/-- the result is empty or ends with a character that does not satisfy `p` -/
theorem dropEndWhile_nil_or_snoc (p : Char → Bool) (u : Str) :
    dropEndWhile p u = [] ∨ ∃ x d, dropEndWhile p u = x ++ [d] ∧ p d = false := by
  induction u with
  | nil => left; rfl
  | cons c cs ih =>
    rw [dropEndWhile_cons]
    rcases ih with h | ⟨x, d, h, hd⟩
    · rw [h]
      cases hp : p c
      · right; exact ⟨[], c, by simp, hp⟩
      · left; simp
    · rw [h]
      right
      exact ⟨c :: x, d, by simp, hd⟩

theorem mem_of_mem_dropEndWhile (p : Char → Bool) (u : Str) (c : Char) (h : c ∈ dropEndWhile p u) : c ∈ u := by
  induction u with
  | nil => simp [dropEndWhile] at h
  | cons a as ih =>
    rw [dropEndWhile_cons] at h
    split at h
    · simp at h
    · rcases List.mem_cons.mp h with h | h
      · exact h ▸ List.mem_cons_self
      · exact List.mem_cons_of_mem _ (ih h)

theorem dropEndWhile_map (p : Char → Bool) (f : Char → Char) (hf : ∀ c, p (f c) = p c) (u : Str) :
    dropEndWhile p (u.map f) = (dropEndWhile p u).map f := by
  induction u with
  | nil => rfl
  | cons c cs ih =>
    rw [List.map_cons, dropEndWhile_cons, dropEndWhile_cons, ih, hf]
    cases h : dropEndWhile p cs <;> cases hp : p c <;> simp

theorem dropWhile_map (p : Char → Bool) (f : Char → Char) (hf : ∀ c, p (f c) = p c) (u : Str) :
    (u.map f).dropWhile p = (u.dropWhile p).map f := by
  induction u with
  | nil => rfl
  | cons c cs ih =>
    rw [List.map_cons, List.dropWhile_cons, List.dropWhile_cons, hf]
    cases hp : p c <;> simp [ih]

/-! ### `collapse` and its normal form -/

/-- characters that may appear in a standardised keyword apart from the single space -/
def good (c : Char) : Bool := !isCollapse c && c.toLower == c

/-- normal form: lower case, no special character except single spaces, none directly after `prev` -/
def nf : Bool → Str → Bool
  | _, [] => true
  | prev, c :: cs => if c == ' ' then !prev && nf true cs else good c && nf false cs

theorem nf_collapse (prev : Bool) (t : Str) : nf prev (collapse prev t) = true := by
  induction t generalizing prev with
  | nil => rfl
  | cons c cs ih =>
    rw [collapse]
    by_cases hc : isCollapse c = true
    · rw [if_pos hc]
      cases prev
      · simp [nf, ih]
      · simp [ih]
    · rw [if_neg hc]
      have hc' : isCollapse c = false := by simpa using hc
      have hl : isCollapse c.toLower = false := by rw [isCollapse_toLower, hc']
      have hne : (c.toLower == ' ') = false := by
        simp only [beq_eq_false_iff_ne, ne_eq]
        intro e
        rw [e, isCollapse_space] at hl
        exact absurd hl (by decide)
      simp [nf, hne, good, hl, toLower_toLower, ih]

theorem collapse_of_nf (prev : Bool) (o : Str) (h : nf prev o = true) : collapse prev o = o := by
  induction o generalizing prev with
  | nil => rfl
  | cons c cs ih =>
    rw [nf] at h
    rw [collapse]
    by_cases hc : (c == ' ') = true
    · rw [if_pos hc] at h
      have hcs : c = ' ' := by simpa using hc
      subst hcs
      simp only [Bool.and_eq_true, Bool.not_eq_eq_eq_not, Bool.not_true] at h
      rw [if_pos isCollapse_space, h.1]
      simp [ih true h.2]
    · rw [if_neg hc] at h
      simp only [good, Bool.and_eq_true, Bool.not_eq_eq_eq_not, Bool.not_true, beq_iff_eq] at h
      rw [if_neg (by simp [h.1.1]), h.1.2, ih false h.2]

/-- the flag `previous_was_white_space` after processing `a` -/
def flagAfter (prev : Bool) (a : Str) : Bool :=
  match a.getLast? with
  | none => prev
  | some c => isCollapse c

theorem flagAfter_cons (prev : Bool) (c : Char) (cs : Str) : flagAfter prev (c :: cs) = flagAfter (isCollapse c) cs := by
  cases cs with
  | nil => simp [flagAfter]
  | cons d ds =>
    unfold flagAfter
    rw [List.getLast?_cons_cons]
    cases h : (d :: ds).getLast? with
    | none => simp at h
    | some x => rfl

theorem collapse_append (prev : Bool) (a b : Str) :
    collapse prev (a ++ b) = collapse prev a ++ collapse (flagAfter prev a) b := by
  induction a generalizing prev with
  | nil => simp [collapse, flagAfter]
  | cons c cs ih =>
    rw [List.cons_append, collapse, collapse, flagAfter_cons]
    by_cases hc : isCollapse c = true
    · rw [if_pos hc, if_pos hc, hc]
      cases prev <;> simp [ih]
    · have hc' : isCollapse c = false := by simpa using hc
      rw [if_neg hc, if_neg hc, hc']
      simp [ih]

theorem collapse_snoc (prev : Bool) (t : Str) (c : Char) (h : isCollapse c = false) :
    collapse prev (t ++ [c]) = collapse prev t ++ [c.toLower] := by
  rw [collapse_append]
  simp [collapse, h]

theorem collapse_map (f : Char → Char) (h1 : ∀ c, isCollapse (f c) = isCollapse c) (h2 : ∀ c, (f c).toLower = c.toLower)
    (prev : Bool) (t : Str) : collapse prev (t.map f) = collapse prev t := by
  induction t generalizing prev with
  | nil => rfl
  | cons c cs ih =>
    rw [List.map_cons, collapse, collapse, h1, h2]
    simp [ih]

/-! ### shape of a standardised keyword -/

/-- the trimmed keyword -/
def core (k : Str) : Str := dropEndWhile isTrimWs (k.dropWhile isTrimWs)

theorem standardise_eq (k : Str) : standardise k = collapse false (core k) := rfl

/-- `isspace` characters other than blank and tab do not occur (they are collapsed but not trimmed by the C++) -/
def NoCtl (k : Str) : Prop := ∀ c ∈ k, isCollapse c = isTrimWs c

theorem core_head (k : Str) : core k = [] ∨ ∃ c cs, core k = c :: cs ∧ isTrimWs c = false := by
  unfold core
  cases h : k.dropWhile isTrimWs with
  | nil => left; rfl
  | cons c cs =>
    have hc : isTrimWs c = false := by
      have := List.head_dropWhile_not isTrimWs (l := k) (by simp [h])
      simpa [h] using this
    rw [dropEndWhile_cons]
    right
    refine ⟨c, dropEndWhile isTrimWs cs, ?_, hc⟩
    simp [hc]

theorem mem_core (k : Str) (c : Char) (h : c ∈ core k) : c ∈ k :=
  (List.dropWhile_sublist isTrimWs).subset (mem_of_mem_dropEndWhile _ _ _ h)

/-- a standardised keyword is empty or starts and ends with a character outside `" \t_!"` -/
theorem standardise_shape (k : Str) (hk : NoCtl k) :
    standardise k = [] ∨
      ((∃ c cs, standardise k = c :: cs ∧ isTrimWs c = false) ∧ (∃ x d, standardise k = x ++ [d] ∧ isTrimWs d = false)) := by
  rw [standardise_eq]
  rcases core_head k with h | ⟨c, cs, h, hc⟩
  · left; rw [h]; rfl
  · right
    have hcc : isCollapse c = false := by
      rw [hk c (mem_core k c (by rw [h]; exact List.mem_cons_self)), hc]
    constructor
    · refine ⟨c.toLower, collapse false cs, ?_, by rw [isTrimWs_toLower, hc]⟩
      rw [h, collapse]; simp [hcc]
    · rcases dropEndWhile_nil_or_snoc isTrimWs (k.dropWhile isTrimWs) with h' | ⟨x, d, h', hd⟩
      · unfold core at h; rw [h'] at h; cases h
      · have hdd : isCollapse d = false := by
          rw [hk d (mem_core k d (by unfold core; rw [h']; simp)), hd]
        refine ⟨collapse false x, d.toLower, ?_, by rw [isTrimWs_toLower, hd]⟩
        unfold core; rw [h', collapse_snoc _ _ _ hdd]

theorem core_of_shape (o : Str)
    (h : o = [] ∨ ((∃ c cs, o = c :: cs ∧ isTrimWs c = false) ∧ (∃ x d, o = x ++ [d] ∧ isTrimWs d = false))) :
    core o = o := by
  rcases h with h | ⟨⟨c, cs, h1, hc⟩, ⟨x, d, h2, hd⟩⟩
  · subst h; rfl
  · unfold core
    have : o.dropWhile isTrimWs = o := by rw [h1, List.dropWhile_cons]; simp [hc]
    rw [this, h2, dropEndWhile_snoc_neg _ _ _ hd]

theorem standardise_idempotent_of_noCtl (k : Str) (hk : NoCtl k) : standardise (standardise k) = standardise k := by
  rw [standardise_eq (standardise k), core_of_shape _ (standardise_shape k hk)]
  exact collapse_of_nf false _ (by rw [standardise_eq]; exact nf_collapse false _)

/-! ### case -/

theorem standardise_map (f : Char → Char) (h0 : ∀ c, isTrimWs (f c) = isTrimWs c)
    (h1 : ∀ c, isCollapse (f c) = isCollapse c) (h2 : ∀ c, (f c).toLower = c.toLower) (k : Str) :
    standardise (k.map f) = standardise k := by
  unfold standardise
  rw [dropWhile_map _ _ h0, dropEndWhile_map _ _ h0, collapse_map f h1 h2]

theorem standardise_toLower (k : Str) : standardise (k.map Char.toLower) = standardise k :=
  standardise_map Char.toLower isTrimWs_toLower isCollapse_toLower toLower_toLower k

/-- keywords that differ only in case (same length, position-wise equal after lower-casing) standardise equal -/
theorem standardise_case (a b : Str) (h : a.map Char.toLower = b.map Char.toLower) :
    standardise a = standardise b := by
  rw [← standardise_toLower a, ← standardise_toLower b, h]

/-! ### runs of white space -/

theorem dropWhile_append_all (p : Char → Bool) (w b : Str) (h : ∀ c ∈ w, p c = true) :
    (w ++ b).dropWhile p = b.dropWhile p := by
  induction w with
  | nil => rfl
  | cons c cs ih =>
    rw [List.cons_append, List.dropWhile_cons, h c List.mem_cons_self]
    simp only [if_true]
    exact ih (fun d hd => h d (List.mem_cons_of_mem _ hd))

theorem dropEndWhile_all (p : Char → Bool) (w : Str) (h : ∀ c ∈ w, p c = true) : dropEndWhile p w = [] := by
  induction w with
  | nil => rfl
  | cons c cs ih =>
    rw [dropEndWhile_cons, ih (fun d hd => h d (List.mem_cons_of_mem _ hd)), h c List.mem_cons_self]
    rfl

theorem collapse_ws_block (f : Bool) (w : Str) (h : ∀ c ∈ w, isCollapse c = true) (hne : w ≠ []) :
    collapse f w = (if f then [] else [' ']) ∧ flagAfter f w = true := by
  induction w generalizing f with
  | nil => exact absurd rfl hne
  | cons c cs ih =>
    have hc := h c List.mem_cons_self
    rw [collapse, if_pos hc, flagAfter_cons, hc]
    cases cs with
    | nil => cases f <;> simp [collapse, flagAfter]
    | cons d ds =>
      have := ih true (fun x hx => h x (List.mem_cons_of_mem _ hx)) (by simp)
      cases f <;> simp [this.1, this.2]

/-- a non-empty run of `" \t_!"` inside a keyword is as good as a single blank -/
theorem standardise_ws_run (a b w : Str) (hw : ∀ c ∈ w, isTrimWs c = true) (hne : w ≠ []) :
    standardise (a ++ w ++ b) = standardise (a ++ ' ' :: b) := by
  have hsp : ∀ c ∈ [' '], isTrimWs c = true := by intro c hc; simp at hc; subst hc; rfl
  have key : ∀ (v : Str), (∀ c ∈ v, isTrimWs c = true) → v ≠ [] →
      standardise (a ++ (v ++ b)) =
        if (a.dropWhile isTrimWs).isEmpty then collapse false (dropEndWhile isTrimWs (b.dropWhile isTrimWs))
        else if (dropEndWhile isTrimWs b).isEmpty then collapse false (dropEndWhile isTrimWs (a.dropWhile isTrimWs))
        else collapse false (a.dropWhile isTrimWs)
              ++ ((if flagAfter false (a.dropWhile isTrimWs) then [] else [' ']) ++ collapse true (dropEndWhile isTrimWs b)) := by
    intro v hv hvne
    unfold standardise
    rw [List.dropWhile_append]
    by_cases ha : (a.dropWhile isTrimWs).isEmpty = true
    · rw [if_pos ha, if_pos ha, dropWhile_append_all _ _ _ hv]
    · rw [if_neg ha, if_neg ha, dropEndWhile_append, dropEndWhile_append]
      by_cases hb : (dropEndWhile isTrimWs b).isEmpty = true
      · rw [if_pos hb, if_pos hb, dropEndWhile_all _ _ hv]
        simp
      · rw [if_neg hb, if_neg hb]
        have hvb : (v ++ dropEndWhile isTrimWs b).isEmpty = false := by
          cases v with
          | nil => exact absurd rfl hvne
          | cons x xs => rfl
        rw [hvb]
        simp only [Bool.false_eq_true, if_false]
        rw [collapse_append, collapse_append]
        have := collapse_ws_block (flagAfter false (a.dropWhile isTrimWs)) v
          (fun c hc => isCollapse_of_isTrimWs (hv c hc)) hvne
        rw [this.1, this.2]
  have e1 : a ++ w ++ b = a ++ (w ++ b) := by simp
  have e2 : a ++ ' ' :: b = a ++ ([' '] ++ b) := by simp
  rw [e1, e2, key w hw hne, key [' '] hsp (by simp)]

theorem standardise_ws_lead (w k : Str) (hw : ∀ c ∈ w, isTrimWs c = true) : standardise (w ++ k) = standardise k := by
  unfold standardise
  rw [dropWhile_append_all _ _ _ hw]

theorem standardise_ws_trail (w k : Str) (hw : ∀ c ∈ w, isTrimWs c = true) : standardise (k ++ w) = standardise k := by
  unfold standardise
  rw [List.dropWhile_append]
  by_cases hk : (k.dropWhile isTrimWs).isEmpty = true
  · rw [if_pos hk]
    have : w.dropWhile isTrimWs = [] := by
      have := dropWhile_append_all isTrimWs w [] hw
      simpa using this
    rw [this]
    have hk' : k.dropWhile isTrimWs = [] := by simpa using hk
    rw [hk']
  · rw [if_neg hk, dropEndWhile_append, dropEndWhile_all _ _ hw]
    rfl

/-- "the keywords differ only in case and in the runs of the characters blank, tab, `_`, `!`" -/
inductive KeyEquiv : Str → Str → Prop
  | refl (a : Str) : KeyEquiv a a
  | symm {a b : Str} : KeyEquiv a b → KeyEquiv b a
  | trans {a b c : Str} : KeyEquiv a b → KeyEquiv b c → KeyEquiv a c
  /-- same length, position-wise the same letter up to case -/
  | case {a b : Str} : a.map Char.toLower = b.map Char.toLower → KeyEquiv a b
  /-- a non-empty run of white-space characters in the middle replaced by another non-empty run -/
  | run (a b w w' : Str) : (∀ c ∈ w, isTrimWs c = true) → w ≠ [] → (∀ c ∈ w', isTrimWs c = true) → w' ≠ [] →
      KeyEquiv (a ++ w ++ b) (a ++ w' ++ b)
  /-- white space added in front -/
  | lead (w k : Str) : (∀ c ∈ w, isTrimWs c = true) → KeyEquiv (w ++ k) k
  /-- white space added at the end -/
  | trail (w k : Str) : (∀ c ∈ w, isTrimWs c = true) → KeyEquiv (k ++ w) k

theorem standardise_eq_of_keyEquiv {a b : Str} (h : KeyEquiv a b) : standardise a = standardise b := by
  induction h with
  | refl a => rfl
  | symm _ ih => exact ih.symm
  | trans _ _ ih1 ih2 => exact ih1.trans ih2
  | case h => exact standardise_case _ _ h
  | run a b w w' hw hne hw' hne' => rw [standardise_ws_run a b w hw hne, standardise_ws_run a b w' hw' hne']
  | lead w k hw => exact standardise_ws_lead w k hw
  | trail w k hw => exact standardise_ws_trail w k hw

end StirVerif.C17
