/-
C17 — executable model of the text-parsing core of `stir::KeyParser`
("Text and header input is parsed faithfully or rejected, never mis-handled").

Transcribed (one `def` per C++ function, strings are `List Char`, one `Char` per byte):

* `standardise`        — `standardise_interfile_keyword`  (src/buildblock/interfile_keyword_functions.cxx:26)
* `getKeyword`         — `KeyParser::get_keyword`          (src/buildblock/KeyParser.cxx:291)
* `getIndex`, `atoi`   — `get_index` (KeyParser.cxx:810) with glibc's `atoi` = `(int) strtol(s, 0, 10)`
* `getStringParam`     — `get_param_from_string<string>`   (KeyParser.cxx:682)
* `readInt`, `getIntParam` — `get_param_from_string<int>`  (KeyParser.cxx:669) = `istream >> int` (libstdc++, "C" locale)
* `readIntList`, `getIntListParam` — `get_vparam_from_string<vector<int>>` (KeyParser.cxx:705) and
                         `operator>>(istream&, vector<T>&)` (src/include/stir/stream.inl:78)
* `readStringList`, `getStringListParam` — `get_vparam_from_string<vector<string>>` (KeyParser.cxx:762): elements are
                         split at `,`/`}` and trimmed of blanks and tabs at both ends; a missing closing `}` is accepted;
                         without `{` the whole (trimmed) value is the single element.
* `resolveAlias`       — `KeyParser::resolve_alias` (KeyParser.cxx:610); `addAlias` — `add_alias_key` (:543)
* `findInKeymap`, `addKey` — `find_in_keymap` (:304), `add_in_keymap` (:331)
* `parseValueInLine`   — `KeyParser::parse_value_in_line` (:862)
* `setVariable`, `assignToList` — `KeyParser::set_variable` (:1006), `assign_to_list` (:993): a vectorised key
                         `key[i]` stores into element `i-1` and is an `error()` if the vector has fewer than `i`
                         elements (the `resize` is commented out in the C++), or if `i` is negative; `key[0]`/no index on
                         a vectorised key, or an index on a plain key, are `error()`s as well.
* `processKey`         — `KeyParser::process_key` (:1151) for the call-backs start_parsing / stop_parsing / do_nothing / set_variable
* `countKey`           — the `set_variable(); resize(count)` call-backs of the Interfile count keys (InterfileHeader.cxx:397-413, :453, :483;
                         MultipleDataSetHeader.cxx:72)
* `segTablesOf`, `pdfsSegments` — the per-segment consistency checks of `InterfilePDFSHeader::post_processing`
                         (src/IO/InterfileHeader.cxx:970-984) with `resize_segments_and_set` (:667) and the segment numbering of
                         `find_segment_sequence` (:811)
* `getline`, `readLine` — `std::getline` + `read_line` (KeyParser.cxx:70): trailing `\r`, continuation `\`; the loop
                         stops when nothing could be read (`if (!input) break;`), so a continuation backslash as last
                         byte of the input is simply dropped.  All loops of the model run on fuel; `Tag.diverges` /
                         `RL.diverges` is "fuel exhausted" and is proved unreachable (`C17_parse_total`).
* `readAndParseLine`, `parseHeader`, `parse` — KeyParser.cxx:635, :564, :262
* `valueToStream`, `vectorisedValueToStream`, `parameterInfo` — KeyParser.cxx:1206, :1284, :1366 and
                         `operator<<(ostream&, vector<T>)` (stream.inl:62)

* `hdrCallback`, `hdrLine`, `imagePost`, `parseImageHeader` — `InterfileImageHeader` with the call-backs of its count keys run line
                         by line, in ANY order of the keys: `read_matrix_info` (src/IO/InterfileHeader.cxx:403, :503),
                         `read_frames_info` (:459), `read_image_data_types` (:489), `read_num_energy_windows` (:413),
                         `set_type_of_data` (:422), `InterfileHeader::post_processing` (:253), `InterfileImageHeader::post_processing` (:512)
* `multiCallback`, `multiPost`, `parseMultiHeader` — `MultipleDataSetHeader` (src/buildblock/MultipleDataSetHeader.cxx:29-75)
* `parseLoopWith`, `KP.parseWith` — `parse_header` with a per-line function (call-backs) as parameter
* `PObj`, `Heap.step`, `Heap.run` — `ParsingObject` copy constructor, `operator=`, `parse`, `parameter_info`, destruction
                         (src/buildblock/ParsingObject.cxx:30-135), pointers of a parser abstracted to the object they point into

Not modelled: `${ENV}` substitution in `read_line`, floating point / unsigned / long values, arrays, coordinates,
nested parsing objects (`PARSINGOBJECT`), `post_processing` of derived classes other than the per-segment checks of
`InterfilePDFSHeader`, 32-bit overflow of `vector::size()`.
`error()` (a C++ exception) is `Outcome.error`, with the state reached when it was thrown.

Core Lean only (linked into the driver).
-/
namespace StirVerif.C17

abbrev Str := List Char

/-! ### character classes -/

/-- `" \t_!"`, the set used by `find_first_not_of` / `find_last_not_of` in `standardise_interfile_keyword` -/
def isTrimWs (c : Char) : Bool := c == ' ' || c == '\t' || c == '_' || c == '!'

/-- `isspace` in the "C" locale -/
def isCSpace (c : Char) : Bool :=
  c == ' ' || c == '\t' || c == '\n' || c == '\x0b' || c == '\x0c' || c == '\r'

/-- the test of the loop in `standardise_interfile_keyword`: `isspace(c) || c=='_' || c=='!'` -/
def isCollapse (c : Char) : Bool := isCSpace c || c == '_' || c == '!'

/-- `" \t"` -/
def isBlank (c : Char) : Bool := c == ' ' || c == '\t'

/-- remove the longest suffix whose characters satisfy `p` (`find_last_not_of`) -/
def dropEndWhile (p : Char → Bool) : Str → Str
  | [] => []
  | c :: cs =>
    match dropEndWhile p cs with
    | [] => if p c then [] else [c]
    | r => c :: r

/-! ### `standardise_interfile_keyword` -/

/-- the `while (cp <= eok)` loop; `prev` is `previous_was_white_space` -/
def collapse : Bool → Str → Str
  | _, [] => []
  | prev, c :: cs =>
    if isCollapse c then
      if prev then collapse true cs else ' ' :: collapse true cs
    else c.toLower :: collapse false cs

def standardise (k : Str) : Str :=
  collapse false (dropEndWhile isTrimWs (k.dropWhile isTrimWs))

/-! ### `KeyParser::get_keyword`, `get_index` -/

def getKeyword : Str → Str
  | [] => []
  | c :: cs =>
    if c == '[' then []
    else if c == ':' then
      match cs with
      | [] => []
      | d :: _ => if d == '=' then [] else c :: getKeyword cs
    else c :: getKeyword cs

/-- value of a string of decimal digits -/
def digitsVal (ds : Str) : Nat := ds.foldl (fun a c => 10 * a + (c.toNat - '0'.toNat)) 0

/-- optional sign: `(negative, rest)` -/
def takeSign : Str → Bool × Str
  | [] => (false, [])
  | c :: t => if c == '-' then (true, t) else if c == '+' then (false, t) else (false, c :: t)

def clampInt (lo hi v : Int) : Int := if v < lo then lo else if hi < v then hi else v

/-- conversion `long -> int` on x86-64 (wrap modulo 2^32) -/
def wrap32 (v : Int) : Int := (v + 2147483648) % 4294967296 - 2147483648

/-- glibc `atoi(s)` = `(int) strtol(s, NULL, 10)` (strtol saturates at LONG_MIN/LONG_MAX) -/
def atoi (s : Str) : Int :=
  let s := s.dropWhile isCSpace
  let (neg, s) := takeSign s
  let n : Int := digitsVal (s.takeWhile Char.isDigit)
  wrap32 (clampInt (-9223372036854775808) 9223372036854775807 (if neg then -n else n))

def isColonOrBracket (c : Char) : Bool := c == ':' || c == '['

def getIndex (line : Str) : Int :=
  match line.dropWhile (fun c => !isColonOrBracket c) with
  | [] => 0
  | c :: rest =>
    if c == '[' then
      if rest.contains ']' then atoi (rest.takeWhile (fun d => d != ']')) else 0
    else 0

/-! ### values after `=` -/

/-- text after the first `=` of the line (`s.find('=', 0)`) -/
def afterEq (s : Str) : Option Str :=
  match s.dropWhile (fun c => c != '=') with
  | [] => none
  | _ :: t => some t

/-- `get_param_from_string<std::string>` -/
def getStringParam (s : Str) : Option Str :=
  match afterEq s with
  | none => none
  | some t =>
    match t.dropWhile isBlank with
    | [] => none
    | u => some (dropEndWhile isBlank u)

/-- `istream >> int` (libstdc++ `num_get`, base 10, "C" locale): skips white space, optional sign, digits.
    Returns the value unless `failbit` is set (no digit, or out of the range of `int`), and the unread rest. -/
def readInt (s : Str) : Option Int × Str :=
  let s := s.dropWhile isCSpace
  let (neg, s) := takeSign s
  let ds := s.takeWhile Char.isDigit
  let rest := s.dropWhile Char.isDigit
  if ds.isEmpty then (none, rest)
  else
    let v : Int := if neg then -(digitsVal ds : Int) else digitsVal ds
    if v < -2147483648 || 2147483647 < v then (none, rest) else (some v, rest)

/-- `get_param_from_string<int>` -/
def getIntParam (s : Str) : Option Int :=
  match afterEq s with
  | none => none
  | some t => (readInt t).1

/-- `str >> std::ws >> c` -/
def readChar (s : Str) : Option (Char × Str) :=
  match s.dropWhile isCSpace with
  | [] => none
  | c :: t => some (c, t)

/-- the `do … while (str && c == ',')` loop of `operator>>(istream&, vector<int>&)` after the opening `{`,
    followed by the `if (str.fail()) { str.clear(); str >> ws >> c; }  if (!str) return` tail.
    `none` = the stream is in a failed state on return (so the keyword "has no value").
    Every iteration consumes at least one digit: `fuel = length + 1` is enough (`readIntList`). -/
def readIntListAux : Nat → Str → List Int → Option (List Int)
  | 0, _, _ => none
  | fuel + 1, s, acc =>
    match readInt s with
    | (some t, r) =>
      match readChar r with
      | some (c, r') => if c == ',' then readIntListAux fuel r' (acc ++ [t]) else some (acc ++ [t])
      | none => none
    | (none, r) =>
      match readChar r with
      | some _ => some acc
      | none => none

def readIntList (s : Str) : Option (List Int) := readIntListAux (s.length + 1) s []

/-- `get_vparam_from_string<std::vector<int>>` -/
def getIntListParam (s : Str) : Option (List Int) :=
  match afterEq s with
  | none => none
  | some t =>
    match t.dropWhile isBlank with
    | [] => none
    | c :: u =>
      if c == '{' then readIntList u
      else match (readInt (c :: u)).1 with
        | some v => some [v]
        | none => none

def isBraceOrComma (c : Char) : Bool := c == '}' || c == ','

/-- the `while (!end)` loop of `get_vparam_from_string<vector<string>>`; `s` is the text from `cp` on.
    An element runs up to the next `,` or `}` (or the end of the line) and is trimmed of trailing blanks. -/
def readStringListAux : Nat → Str → List Str → List Str
  | 0, _, acc => acc
  | fuel + 1, s, acc =>
    match (s.dropWhile isBraceOrComma).dropWhile isBlank with
    | [] => acc
    | c :: s1 =>
      let elem := dropEndWhile isBlank ((c :: s1).takeWhile (fun d => !isBraceOrComma d))
      match (c :: s1).dropWhile (fun d => !isBraceOrComma d) with
      | [] => acc ++ [elem]
      | _ :: t => readStringListAux fuel t (acc ++ [elem])

def readStringList (s : Str) : List Str := readStringListAux (s.length + 1) s []

/-- `get_vparam_from_string<std::vector<std::string>>` -/
def getStringListParam (s : Str) : Option (List Str) :=
  match afterEq s with
  | none => none
  | some t =>
    match t.dropWhile isBlank with
    | [] => none
    | c :: u =>
      if c == '{' then some (readStringList u)
      else some [dropEndWhile isBlank (c :: u)]

/-! ### keymap -/

/-- the variable a key points to, together with its `KeyArgument::type` and `vectorised_key_level` -/
inductive Var
  | none                                          -- KeyArgument::NONE
  | int (v : Int)                                 -- add_key(kw, int*)
  | bool (v : Bool)                               -- add_key(kw, bool*)
  | ascii (v : Str)                               -- add_key(kw, string*)
  | choice (values : List Str) (idx : Int)        -- add_key(kw, int*, ASCIIlist_type*)   (ASCIIlist)
  | ints (v : List Int)                           -- add_key(kw, vector<int>*)            (LIST_OF_INTS)
  | strs (v : List Str)                           -- add_key(kw, vector<string>*)         (LIST_OF_ASCII)
  | vInt (v : List Int)                           -- add_vectorised_key(kw, vector<int>*)
  | vAscii (v : List Str)                         -- add_vectorised_key(kw, vector<string>*)
  | vInts (v : List (List Int))                   -- add_vectorised_key(kw, vector<vector<int>>*)
  deriving Repr, DecidableEq, Inhabited

/-- `p_object_member` -/
inductive Action
  | start | stop | ignore | set
  deriving Repr, DecidableEq, Inhabited

structure Entry where
  key : Str
  action : Action
  var : Var
  deriving Repr, DecidableEq, Inhabited

structure KP where
  kmap : List Entry := []
  aliases : List (Str × Str) := []
  depAliases : List (Str × Str) := []
  parsing : Bool := false
  deriving Repr, DecidableEq, Inhabited

def findInKeymap (m : List Entry) (kw : Str) : Option Entry := m.find? (fun e => e.key == kw)

/-- `add_in_keymap`: overwrite an existing entry, else append -/
def addInKeymap (m : List Entry) (e : Entry) : List Entry :=
  if (findInKeymap m e.key).isSome then m.map (fun x => if x.key == e.key then e else x) else m ++ [e]

/-- all the `add_key` flavours: the keyword is standardised first -/
def KP.addKey (p : KP) (kw : Str) (a : Action) (v : Var) : KP :=
  { p with kmap := addInKeymap p.kmap { key := standardise kw, action := a, var := v } }

def assocSet (l : List (Str × Str)) (k v : Str) : List (Str × Str) :=
  if (l.find? (fun p => p.1 == k)).isSome then l.map (fun p => if p.1 == k then (k, v) else p) else l ++ [(k, v)]

/-- `add_alias_key(keyword, alias, deprecated)` -/
def KP.addAlias (p : KP) (kw alias : Str) (deprecated : Bool) : KP :=
  if deprecated then { p with depAliases := assocSet p.depAliases (standardise alias) (standardise kw) }
  else { p with aliases := assocSet p.aliases (standardise alias) (standardise kw) }

def assocFind (l : List (Str × Str)) (k : Str) : Option Str := (l.find? (fun p => p.1 == k)).map (·.2)

/-- `resolve_alias` -/
def KP.resolveAlias (p : KP) (kw : Str) : Str :=
  match assocFind p.aliases kw with
  | some t => t
  | none =>
    match assocFind p.depAliases kw with
    | some t => t
    | none => kw

/-! ### one line -/

/-- `boost::any parameter` + `keyword_has_a_value` -/
inductive Param
  | absent
  | str (s : Str)
  | int (n : Int)
  | ints (l : List Int)
  | strs (l : List Str)
  deriving Repr, DecidableEq, Inhabited

/-- the `switch (current->type)` of `parse_value_in_line` -/
def valueFor (v : Var) (line : Str) : Param :=
  match v with
  | .none => .absent
  | .ascii _ | .choice _ _ | .vAscii _ => match getStringParam line with | some s => .str s | none => .absent
  | .int _ | .bool _ | .vInt _ => match getIntParam line with | some n => .int n | none => .absent
  | .ints _ | .vInts _ => match getIntListParam line with | some l => .ints l | none => .absent
  | .strs _ => match getStringListParam line with | some l => .strs l | none => .absent

/-- `find_in_ASCIIlist` -/
def findInAsciiList (s : Str) (values : List Str) : Int :=
  match values.findIdx? (fun v => standardise s == standardise v) with
  | some i => i
  | none => -1

/-- `assign_to_list`: `none` = `error()` -/
def assignToList {α : Type} (l : List α) (x : α) (index : Int) : Option (List α) :=
  if index < 0 then none                       -- static_cast<unsigned>(index) exceeds any size
  else if l.length < index.toNat then none
  else some (l.set (index.toNat - 1) x)

/-- `set_variable`, branch `if (!current_index)`: no index on the line -/
def setScalar (v : Var) (p : Param) : Option Var :=
  match v with
  | .vInt _ => none                                             -- "expected a vectorised key as in key[1]"
  | .vAscii _ => none
  | .vInts _ => none
  | .none => some v
  | .int _ => match p with | .int n => some (.int n) | _ => some v
  | .bool _ => match p with | .int n => some (.bool (n != 0)) | _ => some v
  | .ascii _ => match p with | .str s => some (.ascii s) | _ => some v
  | .choice vals _ => match p with | .str s => some (.choice vals (findInAsciiList s vals)) | _ => some v
  | .ints _ => match p with | .ints l => some (.ints l) | _ => some v
  | .strs _ => match p with | .strs l => some (.strs l) | _ => some v

/-- `set_variable`, branch with an index: `assign_to_list` -/
def setIndexed (v : Var) (p : Param) (index : Int) : Option Var :=
  match v with
  | .vInt l => match p with | .int n => (assignToList l n index).map .vInt | _ => none
  | .vAscii l => match p with | .str s => (assignToList l s index).map .vAscii | _ => none
  | .vInts l => match p with | .ints x => (assignToList l x index).map .vInts | _ => none
  | _ => none                                                   -- "unexpected vectorisation of key"

/-- `set_variable`: new value of the variable, `none` = `error()` thrown.
    (A `Param` of the wrong type cannot occur: `valueFor` chooses it from the same `Var`.) -/
def setVariable (v : Var) (p : Param) (index : Int) : Option Var :=
  if p = .absent then some v                     -- `if (!keyword_has_a_value) return;`
  else if index = 0 then setScalar v p
  else setIndexed v p index

inductive Tag
  | ok (b : Bool)      -- `parse` returned `b`
  | error              -- `error()` threw
  | diverges           -- fuel of the model exhausted (unreachable: `C17_parse_total`); the harness answers `hang` if the C++ does not return
  deriving Repr, DecidableEq, Inhabited

def setEntry (m : List Entry) (kw : Str) (v : Var) : List Entry :=
  m.map (fun e => if e.key == kw then { e with var := v } else e)

/-- `parse_value_in_line` + `process_key` for a line whose (standardised, alias-resolved) keyword is `kw`.
    Returns `none` on `error()`. -/
def processLine (p : KP) (kw line : Str) : Option KP :=
  match findInKeymap p.kmap kw with
  | none => some p                                       -- unrecognised keyword: warning only
  | some e =>
    match e.action with
    | .start => some { p with parsing := true }
    | .stop => some { p with parsing := false }
    | .ignore => some p
    | .set =>
      match setVariable e.var (valueFor e.var line) (getIndex line) with
      | none => none
      | some v => some { p with kmap := setEntry p.kmap kw v }

/-- keyword of a line as used for the look-up -/
def KP.keywordOf (p : KP) (line : Str) : Str := p.resolveAlias (standardise (getKeyword line))

/-- one line: what `read_and_parse_line` does after the line has been read, then `process_key` -/
def KP.parseLine (p : KP) (line : Str) : Option KP := processLine p (p.keywordOf line) line

/-! ### header-declared counts -/

/-- `set_variable(); table.resize(count);` — the call-back of the keys `number of dimensions`
    (`InterfileHeader::read_matrix_info`, src/IO/InterfileHeader.cxx:397), `number of time frames` (`read_frames_info`, :453),
    `number of energy windows` (`read_num_energy_windows`, :407), `number of image data types`
    (`InterfileImageHeader::read_image_data_types`, :483) and `total number of data sets`
    (`MultipleDataSetHeader::read_num_data_sets`, src/buildblock/MultipleDataSetHeader.cxx:72), for a line of that key when
    the count variable holds `cur`: the new count and the number of elements of the table.  A line without a readable
    `int` has "no value" and leaves the count alone; a negative count becomes a huge `size_t` and `resize` throws
    `std::length_error` (`none`).  There is no upper limit: the table gets as many elements as the header says. -/
def countKey (cur : Int) (line : Str) : Option (Int × Nat) :=
  let n := (getIntParam line).getD cur
  if n < 0 then none else some (n, n.toNat)

/-! ### per-segment tables of a projection-data header -/

/-- conversion `int -> unsigned int` on x86-64 (`static_cast<unsigned int>(num_segments)`) -/
def toU32 (v : Int) : Int := v % 4294967296

/-- what `InterfilePDFSHeader::post_processing` (src/IO/InterfileHeader.cxx:957) looks at for the per-segment information -/
structure SegTables where
  numSegments : Int          -- `num_segments`: `matrix size[4]`, or -1 if `find_storage_order` never ran
  minRD : List Int           -- `min_ring_difference`
  maxRD : List Int           -- `max_ring_difference`
  ringsPerSeg : List Int     -- `num_rings_per_segment` (the list in `matrix size[2]` / `[3]`)
  deriving Repr, DecidableEq, Inhabited

/-- `InterfilePDFSHeader::resize_segments_and_set` (InterfileHeader.cxx:667), the call-back of both ring-difference keys, for a
    header whose `find_storage_order` (:681) succeeds with `S` segments and the axial-positions list `ax`: the first of the two
    keys resizes BOTH lists to `S` (new elements 0) and each key then replaces its own list by the list on its line.  A list
    whose key does not occur keeps the `S` zeros; if neither occurs `find_storage_order` never runs (`num_segments` stays -1). -/
def segTablesOf (S : Int) (ax : List Int) (mn mx : Option (List Int)) : SegTables :=
  match mn, mx with
  | none, none => { numSegments := -1, minRD := [], maxRD := [], ringsPerSeg := [] }
  | _, _ => { numSegments := S, minRD := mn.getD (List.replicate S.toNat 0), maxRD := mx.getD (List.replicate S.toNat 0),
              ringsPerSeg := ax }

inductive SegOutcome
  | rejected                       -- `post_processing` returns true ("per-segment information is inconsistent")
  | error                          -- `error("This data does not seem to contain segment 0")`
  | ok (minSeg maxSeg : Int)       -- segment numbers `minSeg..maxSeg` are handed to the ProjDataInfo constructor
  deriving Repr, DecidableEq, Inhabited

/-- the three length checks of `InterfilePDFSHeader::post_processing` (InterfileHeader.cxx:970-984: `list.size() !=
    static_cast<unsigned int>(num_segments)`) followed by the segment numbering of `find_segment_sequence` (:811): the sums
    `min+max` are sorted, the segments with a negative sum get the negative numbers, the first non-negative sum has to be 0
    (segment 0), otherwise `error()`.  (The sums are compared as `float`s with a tolerance of 1e-3: exact for |sum| < 2^24;
    overflow of the `int` addition is not modelled.) -/
def pdfsSegments (t : SegTables) : SegOutcome :=
  if (t.minRD.length : Int) ≠ toU32 t.numSegments then .rejected
  else if (t.maxRD.length : Int) ≠ toU32 t.numSegments then .rejected
  else if (t.ringsPerSeg.length : Int) ≠ toU32 t.numSegments then .rejected
  else
    let sums := List.zipWith (· + ·) t.minRD t.maxRD
    let neg := (sums.filter (· < 0)).length
    if sums.any (· == 0) then .ok (-(neg : Int)) ((sums.length : Int) - 1 - neg) else .error

/-! ### the stream: `std::getline`, `read_line` -/

structure Stream where
  rest : Str
  eof : Bool := false
  fail : Bool := false
  deriving Repr, DecidableEq, Inhabited

def Stream.good (s : Stream) : Bool := !s.eof && !s.fail

/-- `std::getline(input, thisline)` (libstdc++): with a stream that is not `good()` the sentry fails and `failbit` is
    set (`thisline` is then not changed; `read_line` does not look at it in that case).  Reaching the end of the
    stream sets `eofbit`, and `failbit` too if no character was extracted. -/
def getline (s : Stream) : Stream × Str :=
  if !s.good then ({ s with fail := true }, [])
  else
    let l := s.rest.takeWhile (fun c => c != '\n')
    match s.rest.dropWhile (fun c => c != '\n') with
    | [] => ({ rest := [], eof := true, fail := l.isEmpty }, l)
    | _ :: t => ({ s with rest := t }, l)

def stripCR (l : Str) : Str :=
  match l.getLast? with
  | some '\r' => l.dropLast
  | _ => l

inductive RL
  | line (l : Str) (s : Stream)
  | diverges                      -- fuel exhausted (unreachable: `readLine_total`)
  deriving Repr, DecidableEq, Inhabited

/-- the `while (true)` loop of `read_line` -/
def readLineLoop : Nat → Stream → Str → RL
  | 0, _, _ => .diverges
  | fuel + 1, s, line =>
    let (s', tl) := getline s
    if s'.fail then .line line s'                    -- `if (!input) break;`
    else
      let line := line ++ stripCR tl
      match line.getLast? with
      | some '\\' => readLineLoop fuel s' line.dropLast    -- continuation: keep on reading
      | _ => .line line s'

/-- `read_line(input, line)`; fuel: every iteration that does not stop either consumes a line feed or reaches the end
    of the stream, after which the next `getline` fails -/
def readLine (s : Stream) : RL :=
  if s.fail then .line [] s else readLineLoop (s.rest.length + 2) s []

/-- the line-skipping loop of `read_and_parse_line`: lines consisting of blanks only (but not empty lines) are skipped.
    `none` = `!input->good()`: "early EOF", `stop_parsing()`. -/
def nextLine : Nat → Stream → Option RL
  | 0, _ => none
  | fuel + 1, s =>
    if !s.good then none
    else
      match readLine s with
      | .diverges => some .diverges
      | .line l s' =>
        if l.any (fun c => !isBlank c) then some (.line l s')
        else if l.isEmpty then some (.line l s')
        else nextLine fuel s'

structure Outcome where
  tag : Tag
  kp : KP
  deriving Repr, DecidableEq, Inhabited

/-- the `while (status == parsing)` loop of `parse_header` -/
def parseLoop : Nat → KP → Stream → Outcome
  | 0, p, _ => ⟨.diverges, p⟩
  | fuel + 1, p, s =>
    if !p.parsing then ⟨.ok true, p⟩
    else
      match nextLine (s.rest.length + 2) s with
      | none => ⟨.ok true, { p with parsing := false }⟩              -- early EOF: stop_parsing, then loop ends
      | some .diverges => ⟨.diverges, p⟩
      | some (.line l s') =>
        match p.parseLine l with
        | none => ⟨.error, p⟩
        | some p' =>
          if s'.eof then ⟨.ok true, { p' with parsing := false }⟩
          else parseLoop fuel p' s'

/-- `KeyParser::parse(istream&)` = `parse_header() == yes && !post_processing()` with the base-class `post_processing` -/
def KP.parse (p : KP) (text : Str) : Outcome :=
  let s : Stream := { rest := text }
  -- first line
  match nextLine (text.length + 2) s with
  | some .diverges => ⟨.diverges, p⟩
  | none =>                                                            -- cannot happen for a fresh stream
    let p := { p with parsing := false }
    ⟨.ok false, p⟩
  | some (.line l s') =>
    match p.parseLine l with
    | none => ⟨.error, p⟩
    | some p' =>
      if !p'.parsing then ⟨.ok false, p'⟩                              -- "required first keyword not found"
      else if s'.eof then ⟨.ok true, { p' with parsing := false }⟩
      else parseLoop (text.length + 2) p' s'

/-! ### `parameter_info` -/

def showNat (n : Nat) : Str := Nat.toDigits 10 n

/-- `ostream << int` -/
def showInt (n : Int) : Str := if n < 0 then '-' :: showNat n.natAbs else showNat n.natAbs

def intercalateStr (sep : Str) : List Str → Str
  | [] => []
  | [x] => x
  | x :: xs => x ++ sep ++ intercalateStr sep xs

/-- `operator<<(ostream&, const vector<T>&)`: `{a, b, c}` followed by `std::endl` -/
def showList (l : List Str) : Str := '{' :: intercalateStr [',', ' '] l ++ ['}', '\n']

def assign : Str := [' ', ':', '=', ' ']

/-- `value_to_stream` -/
def valueToStream : Var → Str
  | .none => []
  | .int n => showInt n
  | .bool b => if b then ['1'] else ['0']
  | .ascii s => s
  | .choice vals idx => if idx == -1 then "UNALLOWED VALUE".toList else vals.getD idx.toNat []
  | .ints l => showList (l.map showInt)
  | .strs l => showList l
  | _ => []

def vectorisedLines (key : Str) (vals : List Str) : Str :=
  ((List.range vals.length).zip vals).flatMap fun (i, v) =>
    key ++ ['['] ++ showNat (i + 1) ++ [']'] ++ assign ++ v ++ ['\n']

/-- `vectorised_value_to_stream` -/
def vectorisedValueToStream (key : Str) : Var → Str
  | .vInt l => vectorisedLines key (l.map showInt)
  | .vAscii l => vectorisedLines key l
  | .vInts l => vectorisedLines key (l.map fun x => showList (x.map showInt))
  | _ => []

def Var.vectorised : Var → Bool
  | .vInt _ | .vAscii _ | .vInts _ => true
  | _ => false

def entryInfo (e : Entry) : Str :=
  match e.action with
  | .start | .stop => []
  | _ =>
    (if e.var.vectorised then vectorisedValueToStream e.key e.var
     else e.key ++ assign ++ valueToStream e.var) ++ ['\n']

/-- `KeyParser::parameter_info` -/
def KP.parameterInfo (p : KP) : Str :=
  (p.kmap.filter (fun e => e.action == .start)).flatMap (fun e => e.key ++ [' ', ':', '=', '\n'])
  ++ p.kmap.flatMap entryInfo
  ++ (p.kmap.filter (fun e => e.action == .stop)).flatMap (fun e => e.key ++ [' ', ':', '=', ' ', '\n'])


/-! ### Interfile headers whose size-giving keys come in ANY order

`InterfileImageHeader` (src/IO/InterfileHeader.cxx) and `MultipleDataSetHeader` (src/buildblock/MultipleDataSetHeader.cxx) are
`KeyParser`s whose count keys have call-backs that run `set_variable()` and then `resize` the tables of the header.  The data
members of the header are the variables of a `KP` (one entry per member, in the order of `imageHeader0`); a line is handled by the
generic `KP.parseLine` followed by the call-back of its keyword (`hdrCallback`), so nothing here assumes the order in which the
library's own writer emits the keys.  `parseLoopWith` / `KP.parseWith` are `parseLoop` / `KP.parse` with the per-line function as
a parameter (`parseWith_parseLine`: with `KP.parseLine` they ARE `parseLoop` / `KP.parse`).

Float-valued members (`scaling factor (mm/pixel)`, `image scaling factor`, `image duration (sec)`, `image relative start time
(sec)`, `energy window lower/upper level`, `first pixel offset (mm)`) and the `unsigned long` table `data offset in bytes` are
modelled as tables of `Int`: exact for header texts that give them small non-negative/negative INTEGER values (the `hdr`
operations of the harness do).  Keys of the C++ header that are not size-giving and not needed by `post_processing`
(originating system, radionuclide, patient position, study date, bed position, calibration factor, `quantification units`,
Siemens keys) are not in the model and not in those texts; `version of keys := STIR3.0` (which swaps the energy-window keys for
scalar ones) is not modelled either. -/

/-- `std::vector::resize(n, fill)` -/
def resizeList {α : Type} (l : List α) (n : Nat) (fill : α) : List α :=
  l.take n ++ List.replicate (n - l.length) fill

/-- the variable behind keyword `k` (`.none` if there is no such key) -/
def getVar (m : List Entry) (k : Str) : Var :=
  match findInKeymap m k with
  | some e => e.var
  | none => .none

def getInt (m : List Entry) (k : Str) : Int :=
  match getVar m k with
  | .int n => n
  | _ => 0

/-- `table.resize(n, fill)` for the table behind a vectorised key (`fill` is used for tables of numbers only) -/
def resizeVar (v : Var) (n : Nat) (fill : Int) : Var :=
  match v with
  | .vInt l => .vInt (resizeList l n fill)
  | .vAscii l => .vAscii (resizeList l n [])
  | .vInts l => .vInts (resizeList l n [])
  | v => v

def KP.setKey (p : KP) (k : Str) (v : Var) : KP := { p with kmap := setEntry p.kmap k v }

def KP.resizeKey (p : KP) (k : Str) (n : Nat) (fill : Int := 0) : KP :=
  p.setKey k (resizeVar (getVar p.kmap k) n fill)

def kImagingModality : Str := "imaging modality".toList
def kVersionOfKeys : Str := "version of keys".toList
def kDataFile : Str := "name of data file".toList
def kTypeOfData : Str := "type of data".toList
def kByteOrder : Str := "imagedata byte order".toList
def kNumberFormat : Str := "number format".toList
def kBytesPerPixel : Str := "number of bytes per pixel".toList
def kNumDims : Str := "number of dimensions".toList
def kMatrixSize : Str := "matrix size".toList
def kLabels : Str := "matrix axis label".toList
def kPixelSizes : Str := "scaling factor (mm/pixel)".toList
def kNumFrames : Str := "number of time frames".toList
def kStart : Str := "image relative start time (sec)".toList
def kDuration : Str := "image duration (sec)".toList
def kScaling : Str := "image scaling factor".toList
def kNumWindows : Str := "number of energy windows".toList
def kLower : Str := "energy window lower level".toList
def kUpper : Str := "energy window upper level".toList
def kFirstPixel : Str := "first pixel offset (mm)".toList
def kNumTypes : Str := "number of image data types".toList
def kNesting : Str := "index nesting level".toList
def kDescr : Str := "image data type description".toList
def kPetType : Str := "pet data type".toList
def kOffsets : Str := "data offset in bytes".toList
/-- not a keyword (a standardised keyword has no capitals, so no line can match it): `true` once the call-back of
    `type of data := PET` has run `add_key("PET data type", …)` and `add_vectorised_key("data offset in bytes", …)`
    (`InterfileHeader::set_type_of_data`, InterfileHeader.cxx:422).  The members behind these two keys exist from construction
    (and `data_offset_each_dataset` is resized by the count call-backs all along); only the KEYS are missing before. -/
def kPetKeysRegistered : Str := "PET KEYS REGISTERED".toList

/-- `MinimalInterfileHeader::double_value_not_set` (a value no `int` line can give) -/
def notSet : Int := -99999999999

/-- the members of a freshly constructed `InterfileImageHeader` (constructors of `MinimalInterfileHeader`, `InterfileHeader`,
    `InterfileImageHeader`: InterfileHeader.cxx:65, :100, :472) -/
def imageHeader0 : KP :=
  let keys : List (Str × Action × Var) :=
    [("INTERFILE".toList, .start, .none),
     (kImagingModality, .set, .ascii []),
     (kVersionOfKeys, .set, .ascii []),
     ("END OF INTERFILE".toList, .stop, .none),
     (kDataFile, .set, .ascii []),
     ("GENERAL DATA".toList, .ignore, .none),
     ("GENERAL IMAGE DATA".toList, .ignore, .none),
     (kTypeOfData, .set, .choice ["Static".toList, "Dynamic".toList, "Tomographic".toList, "Curve".toList, "ROI".toList,
                                  "PET".toList, "Other".toList] 6),
     (kByteOrder, .set, .choice ["LITTLEENDIAN".toList, "BIGENDIAN".toList] 1),
     (kNumberFormat, .set, .choice ["bit".toList, "ascii".toList, "signed integer".toList, "unsigned integer".toList,
                                    "float".toList] 3),
     (kBytesPerPixel, .set, .int (-1)),
     (kNumDims, .set, .int 2),
     (kMatrixSize, .set, .vInts [[], []]),
     (kLabels, .set, .vAscii [[], []]),
     (kPixelSizes, .set, .vInt [1, 1]),
     (kNumFrames, .set, .int 1),
     (kStart, .set, .vInt []),
     (kDuration, .set, .vInt []),
     (kScaling, .set, .vInts [[1]]),
     (kNumWindows, .set, .int 1),
     (kLower, .set, .vInt [-1]),
     (kUpper, .set, .vInt [-1]),
     (kFirstPixel, .set, .vInt []),
     (kNumTypes, .set, .int 1),
     (kNesting, .set, .strs [[]]),
     (kDescr, .set, .vAscii [[]]),
     (kPetType, .set, .choice ["Emission".toList, "Transmission".toList, "Blank".toList, "AttenuationCorrection".toList,
                               "Normalisation".toList, "Image".toList] 5),
     (kOffsets, .set, .vInt [0])]
  let p : KP := keys.foldl (fun p k => p.addKey k.1 k.2.1 k.2.2) {}
  { p with kmap := p.kmap ++ [{ key := kPetKeysRegistered, action := .ignore, var := .bool false }] }

/-- `image_scaling_factors.resize(n); for (i < n) image_scaling_factors[i].resize(1, 1.);` — the second loop runs over ALL
    data sets, so a list of per-plane factors given BEFORE the count key is cut down to its first element -/
def resizeScaling (v : Var) (n : Nat) : Var :=
  match v with
  | .vInts l => .vInts ((resizeList l n []).map fun x => resizeList x 1 1)
  | v => v

/-- the call-backs of the size-giving keys of `InterfileImageHeader`, run after `set_variable()` has stored the value of the
    line (`none` = an exception leaves the parser: `std::length_error` from `resize` with a negative count, `error()`):
    `read_matrix_info` (InterfileHeader.cxx:403 and :503), `read_frames_info` (:459), `read_image_data_types` (:489),
    `read_num_energy_windows` (:413), `set_type_of_data` (:422).  `get_num_datasets()` = `num_time_frames *
    num_image_data_types` (InterfileHeader.h:223; `int` overflow is not modelled). -/
def hdrCallback (kw : Str) (p : KP) : Option KP :=
  let m := p.kmap
  if kw == kNumDims then
    let n := getInt m kNumDims
    if n < 0 then none
    else some ((((p.resizeKey kLabels n.toNat).resizeKey kMatrixSize n.toNat).resizeKey kPixelSizes n.toNat 1).setKey kFirstPixel
                 (.vInt (List.replicate n.toNat notSet)))
  else if kw == kNumFrames then
    let tf := getInt m kNumFrames
    let nd := tf * getInt m kNumTypes
    if nd < 0 || tf < 0 then none
    else some ((((p.setKey kScaling (resizeScaling (getVar m kScaling) nd.toNat)).resizeKey kOffsets nd.toNat).resizeKey kStart
                 tf.toNat).resizeKey kDuration tf.toNat)
  else if kw == kNumTypes then
    let k := getInt m kNumTypes
    let nd := getInt m kNumFrames * k
    if nd < 0 || k < 0 then none
    else some (((p.setKey kScaling (resizeScaling (getVar m kScaling) nd.toNat)).resizeKey kOffsets nd.toNat).resizeKey kDescr
                 k.toNat)
  else if kw == kNumWindows then
    let n := getInt m kNumWindows
    if n < 0 then none else some ((p.resizeKey kUpper n.toNat (-1)).resizeKey kLower n.toNat (-1))
  else if kw == kTypeOfData then
    match getVar m kTypeOfData with
    | .choice vals idx =>
      if idx == -1 then none                                   -- error("type_of_data needs to be set to supported value")
      else if vals.getD idx.toNat [] == "PET".toList then some (p.setKey kPetKeysRegistered (.bool true))
      else some p
    | _ => some p
  else some p

/-- one line of an Interfile image header: `process_key` with the call-backs.  Lines of the two keys that only exist after
    `type of data := PET` are lines of an unknown keyword before (warning only). -/
def hdrLine (p : KP) (line : Str) : Option KP :=
  let kw := p.keywordOf line
  if (kw == kPetType || kw == kOffsets) && getVar p.kmap kPetKeysRegistered != .bool true then some p
  else
    match p.parseLine line with
    | none => none
    | some p' => hdrCallback kw p'

/-- `parseLoop` with the per-line function as a parameter -/
def parseLoopWith (step : KP → Str → Option KP) : Nat → KP → Stream → Outcome
  | 0, p, _ => ⟨.diverges, p⟩
  | fuel + 1, p, s =>
    if !p.parsing then ⟨.ok true, p⟩
    else
      match nextLine (s.rest.length + 2) s with
      | none => ⟨.ok true, { p with parsing := false }⟩
      | some .diverges => ⟨.diverges, p⟩
      | some (.line l s') =>
        match step p l with
        | none => ⟨.error, p⟩
        | some p' =>
          if s'.eof then ⟨.ok true, { p' with parsing := false }⟩
          else parseLoopWith step fuel p' s'

/-- `KP.parse` with the per-line function as a parameter (`parse_header`, KeyParser.cxx:564) -/
def KP.parseWith (step : KP → Str → Option KP) (p : KP) (text : Str) : Outcome :=
  let s : Stream := { rest := text }
  match nextLine (text.length + 2) s with
  | some .diverges => ⟨.diverges, p⟩
  | none =>
    let p := { p with parsing := false }
    ⟨.ok false, p⟩
  | some (.line l s') =>
    match step p l with
    | none => ⟨.error, p⟩
    | some p' =>
      if !p'.parsing then ⟨.ok false, p'⟩
      else if s'.eof then ⟨.ok true, { p' with parsing := false }⟩
      else parseLoopWith step (text.length + 2) p' s'

inductive HdrOutcome
  | rejected            -- `parse()` returned false
  | error               -- an exception left `parse()`
  | oob                 -- `post_processing` indexes a table beyond its end (the C++ has no check there)
  | diverges            -- fuel exhausted (unreachable)
  | ok (p : KP)         -- accepted, with the members as `post_processing` leaves them
  deriving Repr, DecidableEq, Inhabited

/-- the loop over the data sets in `InterfileHeader::post_processing` (InterfileHeader.cxx:341): a single factor is used for
    every plane, otherwise there have to be `nz` of them.  `none` = `image_scaling_factors[frame]` beyond the end of the table. -/
def scalingLoop (nz : Int) : Nat → List (List Int) → Option (Option (List (List Int)))
  | 0, rest => some (some rest)
  | _ + 1, [] => none
  | n + 1, x :: rest =>
    if x.length == 1 then
      match scalingLoop nz n rest with
      | some (some r) => some (some (List.replicate nz.toNat (x.headD 0) :: r))
      | o => o
    else if (x.length : Int) ≠ nz then some none
    else
      match scalingLoop nz n rest with
      | some (some r) => some (some (x :: r))
      | o => o

/-- `InterfileImageHeader::post_processing` (InterfileHeader.cxx:512) after `InterfileHeader::post_processing` (:253), as far as
    the modelled members go (the exam-info part, `quantification units` and the date are left out) -/
def imagePost (p : KP) : HdrOutcome :=
  let m := p.kmap
  match getVar m kTypeOfData, getVar m kNumberFormat, getVar m kMatrixSize, getVar m kScaling, getVar m kPetType, getVar m kLabels with
  | .choice _ tIdx, .choice fvals fIdx, .vInts ms, .vInts isf, .choice pvals pIdx, .vAscii labels =>
    if tIdx < 0 then .rejected
    else if fIdx < 0 || (fvals.length : Int) ≤ fIdx then .rejected
    else if fIdx != 0 && getInt m kBytesPerPixel ≤ 0 then .rejected
    else if ms.isEmpty then .rejected
    else if ms.any (fun l => l.isEmpty || l.any (· ≤ 0)) then .rejected
    else
      let nd := getInt m kNumFrames * getInt m kNumTypes
      if nd < 1 then .rejected
      else
        let nz := (ms.getLast?.getD []).headD 0
        match scalingLoop nz nd.toNat isf with
        | none => .oob
        | some none => .rejected
        | some (some isf') =>
          let p := p.setKey kScaling (.vInts isf')
          let emptyTable (k : Str) : Bool := match getVar m k with | .vInt l => l.isEmpty | _ => true
          let len (k : Str) : Nat := match getVar m k with | .vInt l => l.length | _ => 0
          if getInt m kNumWindows > 0 && (emptyTable kUpper || emptyTable kLower) then .oob
          else if len kStart ≠ len kDuration then .error          -- TimeFrameDefinitions: "different length"
          else if pIdx < 0 || (pvals.length : Int) ≤ pIdx then .oob
          else if pvals.getD pIdx.toNat [] != "Image".toList then .rejected
          else if getInt m kNumDims != 3 then .rejected
          else if ms.length < 3 || labels.length < 3 then .oob
          else if (ms.take 3).any (fun l => l.length != 1) then .rejected
          else if !(labels.headD []).isEmpty && (labels.take 3 != ["x".toList, "y".toList, "z".toList]) then .rejected
          else .ok p
  | _, _, _, _, _, _ => .rejected

/-- `KeyParser::parse` = `parse_header() == yes && !post_processing()` for a header with call-backs -/
def hdrParse (step : KP → Str → Option KP) (post : KP → HdrOutcome) (p0 : KP) (text : Str) : HdrOutcome :=
  let o := p0.parseWith step text
  match o.tag with
  | .diverges => .diverges
  | .error => .error
  | .ok false => .rejected
  | .ok true => post o.kp

/-- `InterfileImageHeader().parse(text)` -/
def parseImageHeader (text : Str) : HdrOutcome := hdrParse hdrLine imagePost imageHeader0 text

def kTotalSets : Str := "total number of data sets".toList
def kDataSet : Str := "data set".toList

/-- `MultipleDataSetHeader` (MultipleDataSetHeader.cxx:29-54) -/
def multiHeader0 : KP :=
  (((({} : KP).addKey "Multi".toList .start .none).addKey "End".toList .stop .none).addKey kTotalSets .set (.int 0)).addKey kDataSet
    .set (.vAscii [])

/-- `MultipleDataSetHeader::read_num_data_sets` (:72) -/
def multiCallback (kw : Str) (p : KP) : Option KP :=
  if kw == kTotalSets then
    let n := getInt p.kmap kTotalSets
    if n < 0 then none else some (p.resizeKey kDataSet n.toNat)
  else some p

def multiLine (p : KP) (line : Str) : Option KP :=
  match p.parseLine line with
  | none => none
  | some p' => multiCallback (p.keywordOf line) p'

/-- `MultipleDataSetHeader::post_processing` (:56): an empty file name among the first `_num_data_sets` ones rejects -/
def multiPost (p : KP) : HdrOutcome :=
  match getVar p.kmap kDataSet with
  | .vAscii fs =>
    let n := (getInt p.kmap kTotalSets).toNat
    if fs.length < n then .oob
    else if (fs.take n).any (·.isEmpty) then .rejected
    else .ok p
  | _ => .rejected

def parseMultiHeader (text : Str) : HdrOutcome := hdrParse multiLine multiPost multiHeader0 text

/-! ### Interfile projection-data header: TOF keys and ring-difference keys in ANY order

`InterfilePDFSHeader` (src/IO/InterfileHeader.cxx:562) as far as the SIZES of the projection data go: the members that decide how
many bins the returned `ProjDataFromStream` will read.  As for the image header, the members are the variables of a `KP` and a
line is handled by the generic `KP.parseLine` followed by the call-back of its keyword, so nothing assumes the writer's key order.
Members without a keyword (`num_segments`, `num_timing_poss`, `num_views`, `num_bins`, `num_rings_per_segment`) are entries whose
name contains capitals (no standardised keyword can match them).  The three scanner timing keys are `int`/`float` in the C++;
the model keeps integers (the `hdr pdfs` operations of the harness give them integer values): only `> 0` / `< 0` is used.
NOT modelled: the checks of `InterfileHeader::post_processing` on keys outside the model (type of data, number format, patient
position, PET data type...), the geometry checks of the `ProjDataInfo` constructors and of `Scanner::check_consistency`, the
scanner keys other than the timing ones.  The scanner that `originating system` names (`Scanner::get_scanner_from_name`) enters
as the parameter `Guess`. -/

def kMinRD : Str := "minimum ring difference per segment".toList
def kMaxRD : Str := "maximum ring difference per segment".toList
def kTofMash : Str := "tof mashing factor".toList
def kMaxTof : Str := "maximum number of (unmashed) tof time bins".toList
def kTofSize : Str := "size of unmashed tof time bins (ps)".toList
def kTofRes : Str := "tof timing resolution (ps)".toList
def kTofOrder : Str := "tof bin order".toList
def kGeometry : Str := "scanner geometry (blocksoncylindrical/cylindrical/generic)".toList
def kNumSegments : Str := "NUM SEGMENTS".toList
def kNumTimingPoss : Str := "NUM TIMING POSS".toList
def kNumViews : Str := "NUM VIEWS".toList
def kNumBins : Str := "NUM BINS".toList
def kRingsPerSeg : Str := "NUM RINGS PER SEGMENT".toList

/-- the modelled members of a freshly constructed `InterfilePDFSHeader` (InterfileHeader.cxx:100 and :562-676), with the three
    deprecated aliases of the TOF keys (`#if STIR_VERSION < 070000`).  `num_timing_poss` is NOT initialised by the C++
    constructor; it is read only after `find_storage_order` has set it (`pdfsPost` reads it behind the length checks, which
    fail while `num_segments` is still -1), so the 0 here is never observed. -/
def pdfsHeader0 : KP :=
  let keys : List (Str × Action × Var) :=
    [("INTERFILE".toList, .start, .none),
     ("END OF INTERFILE".toList, .stop, .none),
     (kNumDims, .set, .int 2),
     (kMatrixSize, .set, .vInts [[], []]),
     (kLabels, .set, .vAscii [[], []]),
     (kMinRD, .set, .ints []),
     (kMaxRD, .set, .ints []),
     ("TOF mashing factor".toList, .set, .int 1),
     ("Maximum number of (unmashed) TOF time bins".toList, .set, .int (-1)),
     ("TOF bin order".toList, .set, .ints []),
     ("Size of unmashed TOF time bins (ps)".toList, .set, .int (-1)),
     ("TOF timing resolution (ps)".toList, .set, .int (-1)),
     ("Scanner geometry (BlocksOnCylindrical/Cylindrical/Generic)".toList, .set, .ascii "Cylindrical".toList)]
  let p : KP := keys.foldl (fun p k => p.addKey k.1 k.2.1 k.2.2) {}
  let p := (((p.addAlias "TOF mashing factor".toList "%TOF mashing factor".toList false).addAlias
              "Maximum number of (unmashed) TOF time bins".toList "Number of TOF time bins".toList false).addAlias
              "Size of unmashed TOF time bins (ps)".toList "Size of timing bin (ps)".toList false).addAlias
              "TOF timing resolution (ps)".toList "timing resolution (ps)".toList false
  { p with kmap := p.kmap ++ [{ key := kNumSegments, action := .ignore, var := .int (-1) },
                              { key := kNumTimingPoss, action := .ignore, var := .int 0 },
                              { key := kNumViews, action := .ignore, var := .int 0 },
                              { key := kNumBins, action := .ignore, var := .int 0 },
                              { key := kRingsPerSeg, action := .ignore, var := .ints [] }] }

def getInts (m : List Entry) (k : Str) : List Int :=
  match getVar m k with
  | .ints l => l
  | _ => []

/-- `stop_parsing()` -/
def KP.stop (p : KP) : KP := { p with parsing := false }

/-- `InterfilePDFSHeader::find_storage_order` (InterfileHeader.cxx:693): `(true, _)` = "already found (or error)", the parser
    has been stopped; `(false, _)` = found now.  A 4-D header RESETS `tof_mash_factor` to 0 here, i.e. at the first
    ring-difference key: a `TOF mashing factor` line further down the header overwrites the reset.  (`matrix_size[dim]`,
    `matrix_labels[dim]` for `dim < num_dimensions` are inside the tables: `read_matrix_info` has resized them.) -/
def findStorageOrder (p : KP) : Bool × KP :=
  let m := p.kmap
  let nd := getInt m kNumDims
  if nd ≠ 4 ∧ nd ≠ 5 then (true, p.stop)
  else
    match getVar m kMatrixSize, getVar m kLabels with
    | .vInts ms, .vAscii labels =>
      let size (d : Nat) : Int := (ms.getD d []).headD 0
      let label (d : Nat) : Str := labels.getD d []
      if (List.range nd.toNat).any (fun d => (ms.getD d []).isEmpty) then (true, p.stop)
      else
        let tof : Option KP :=
          if nd = 4 then some ((p.setKey kNumTimingPoss (.int 1)).setKey kTofMash (.int 0))
          else if label 4 == "timing positions".toList then some (p.setKey kNumTimingPoss (.int (size 4)))
          else none
        match tof with
        | none => (true, p.stop)
        | some p1 =>
          if label 0 != "tangential coordinate".toList then (true, p1.stop)
          else
            let p2 := p1.setKey kNumBins (.int (size 0))
            if label 3 == "segment".toList then
              let p3 := p2.setKey kNumSegments (.int (size 3))
              if label 1 == "axial coordinate".toList && label 2 == "view".toList then
                (false, (p3.setKey kNumViews (.int (size 2))).setKey kRingsPerSeg (.ints (ms.getD 1 [])))
              else if label 1 == "view".toList && label 2 == "axial coordinate".toList then
                (false, (p3.setKey kNumViews (.int (size 1))).setKey kRingsPerSeg (.ints (ms.getD 2 [])))
              else (true, p3.stop)
            else (true, p2.stop)
    | _, _ => (true, p.stop)

/-- `InterfilePDFSHeader::resize_segments_and_set` (InterfileHeader.cxx:679), the call-back of both ring-difference keys, for a
    line whose keyword is `kw`.  `none` = `resize` with a negative count (`std::length_error`) or `error()` in `set_variable`. -/
def resizeSegmentsAndSet (p : KP) (kw line : Str) : Option KP :=
  let p1 : Option KP :=
    if getInt p.kmap kNumSegments < 0 then
      match findStorageOrder p with
      | (false, q) =>
        let S := getInt q.kmap kNumSegments
        if S < 0 then none
        else some ((q.setKey kMinRD (.ints (resizeList (getInts q.kmap kMinRD) S.toNat 0))).setKey kMaxRD
                     (.ints (resizeList (getInts q.kmap kMaxRD) S.toNat 0)))
      | (true, q) => some q
    else some p
  match p1 with
  | none => none
  | some p1 => if getInt p1.kmap kNumSegments ≥ 0 then processLine p1 kw line else some p1

/-- one line of an Interfile projection-data header: `process_key` with the call-backs (`read_matrix_info`,
    InterfileHeader.cxx:397, for `number of dimensions`; `resize_segments_and_set` for the ring-difference keys). -/
def pdfsLine (p : KP) (line : Str) : Option KP :=
  let kw := p.keywordOf line
  if kw == kMinRD || kw == kMaxRD then resizeSegmentsAndSet p kw line
  else
    match p.parseLine line with
    | none => none
    | some p' =>
      if kw == kNumDims then
        let n := getInt p'.kmap kNumDims
        if n < 0 then none else some ((p'.resizeKey kLabels n.toNat).resizeKey kMatrixSize n.toNat)
      else some p'

/-- the scanner named by `originating system`: `known` = recognised and not `User_defined_scanner`; then its three timing values -/
structure Guess where
  known : Bool
  maxTof : Int
  sizePos : Int
  resPos : Int
  deriving Repr, DecidableEq, Inhabited

inductive PdfsOutcome
  | rejected                -- `parse()` returned false
  | error                   -- an exception left `parse()` (segment 0 missing, `resize` with a negative count, ...)
  | errMash                 -- `ProjDataInfo::set_tof_mash_factor`: mashing factor larger than the scanner's number of TOF bins
  | errEven                 -- `ProjDataInfo::set_tof_mash_factor`: "Number of TOF bins should be an odd number"
  | errTof                  -- the final check of `post_processing`: TOF bins of the geometry ≠ TOF bins the header declares
  | diverges
  | ok (numTimingPoss tofBins geomMash numSegments numViews numBins : Int) (rings : List Int)   -- `geomMash`: `ProjDataInfo::get_tof_mash_factor()`
  deriving Repr, DecidableEq, Inhabited

/-- `ProjDataInfo::set_tof_mash_factor` (src/buildblock/ProjDataInfo.cxx:174) for a scanner with `maxTof` unmashed bins that
    `is_tof_ready()` or not: the number of TOF bins of the geometry (`Except`: the two `error()` calls). -/
def tofBinsOf (tofReady : Bool) (maxTof mash : Int) : Except PdfsOutcome Int :=
  if tofReady && mash > 0 then
    if mash > maxTof then .error .errMash
    else
      let n := Int.tdiv maxTof mash
      let mn := -(Int.tdiv n 2)
      let mx := mn + n - 1
      let num := mx - mn + 1
      if Int.tmod num 2 = 0 then .error .errEven else .ok num
  else .ok 1

/-- `InterfilePDFSHeader::post_processing` (InterfileHeader.cxx:969) as far as the sizes go: the three length checks and the
    segment numbering (`pdfsSegments`), the `TOF bin order` check (:1055), the timing values of the scanner filled in from the
    guessed scanner (:1135), `Scanner::is_tof_ready` (Scanner.inl:263), the TOF bins of the geometry (only the two cylindrical
    `ProjDataInfo` constructors get `tof_mash_factor`, :1431-1459), and the final check (:1461). -/
def pdfsPost (g : Guess) (p : KP) : PdfsOutcome :=
  let m := p.kmap
  match getVar m kMatrixSize with
  | .vInts ms =>
    -- InterfileHeader::post_processing: every dimension has a size, all sizes positive
    if ms.isEmpty || ms.any (fun l => l.isEmpty || l.any (· ≤ 0)) then .rejected
    else
      match pdfsSegments { numSegments := getInt m kNumSegments, minRD := getInts m kMinRD, maxRD := getInts m kMaxRD,
                           ringsPerSeg := getInts m kRingsPerSeg } with
      | .rejected => .rejected
      | .error => .error
      | .ok _ _ =>
        let ntp := getInt m kNumTimingPoss
        let order := getInts m kTofOrder
        if !order.isEmpty && (order.length : Int) ≠ toU32 ntp then .rejected
        else
          let fill (v gv : Int) : Int := if g.known && g.maxTof > 0 && g.sizePos > 0 && g.resPos > 0 && v < 0 then gv else v
          let maxTof := fill (getInt m kMaxTof) g.maxTof
          let sz := fill (getInt m kTofSize) g.sizePos
          let res := fill (getInt m kTofRes) g.resPos
          let ready := maxTof > 0 && sz > 0 && res > 0
          let mash := if getVar m kGeometry == .ascii "Cylindrical".toList then getInt m kTofMash else 0
          match tofBinsOf ready maxTof mash with
          | .error e => e
          | .ok bins =>
            if bins ≠ ntp then .errTof
            else .ok ntp bins (if ready && mash > 0 then mash else 0) (getInt m kNumSegments) (getInt m kNumViews)
                   (getInt m kNumBins) (getInts m kRingsPerSeg)
  | _ => .rejected

/-- `InterfilePDFSHeader().parse(text)` for a header whose `originating system` names the scanner `g` -/
def parsePdfsHeader (g : Guess) (text : Str) : PdfsOutcome :=
  let o := pdfsHeader0.parseWith pdfsLine text
  match o.tag with
  | .diverges => .diverges
  | .error => .error
  | .ok false => .rejected
  | .ok true => pdfsPost g o.kp

/-! ### `ParsingObject`: copies, assignment, destruction (src/buildblock/ParsingObject.cxx)

A `ParsingObject` has data members, a `KeyParser parser` and the flag `keymap_is_initialised`.  `initialise_keymap()` of the
concrete class registers its keys with POINTERS to the members of `this`.  In the model the members of an object are a `KP`
(keys + current values, i.e. the table that `initialise_keymap` would build for it) and the pointers of its `parser` are
abstracted to ONE object id, `owner`: every `initialise_keymap()` (re-)registers all keys with the members of the object it
runs on, so all pointers of a parser refer to the same object.  `parse` / `parameter_info` go through these pointers: they
read and write the members of `owner`, not necessarily those of the object they are called on.
Copy constructor (ParsingObject.cxx:34): members copied, flag false, parser EMPTY.  `operator=` (:38): members copied, flag
false, parser untouched.  The parse status of a `KeyParser` belongs to the parser, not to the members: `vals.parsing` is kept
`false` and the status of the parser of each object is the field `status`.  A destroyed object stays in the heap as `alive := false`; going through a pointer to it is `uaf`. -/

structure PObj where
  vals : KP                    -- the data members (as the key table of the class, with their current values)
  init : Bool := false         -- keymap_is_initialised
  owner : Option Nat := none   -- the object whose members the pointers in `parser` refer to (none: parser without keys)
  status : Bool := false       -- `parser.status == parsing` (left set when `error()` threw in the middle of a text)
  alive : Bool := true
  deriving Repr, DecidableEq, Inhabited

abbrev Heap := List PObj

inductive POp
  | new                          -- default constructor of the class
  | copy (i : Nat)               -- `new T(*obj_i)`
  | assign (i j : Nat)           -- `*obj_i = *obj_j`
  | parse (i : Nat) (text : Str) -- `obj_i->parse(stream)`
  | info (i : Nat)               -- `obj_i->parameter_info()`
  | destroy (i : Nat)            -- `delete obj_i`
  deriving Repr, DecidableEq, Inhabited

inductive PAns
  | id (n : Nat)
  | done
  | parsed (tag : Tag) (vals : KP)   -- result of `parse` and the members of the object afterwards
  | text (s : Str)
  | uaf                              -- a pointer into a destroyed object was used
  | bad                              -- operation on an object that does not exist (any more): not generated
  deriving Repr, DecidableEq, Inhabited

def Heap.live (h : Heap) (i : Nat) : Bool := match h[i]? with | some o => o.alive | none => false

/-- `if (!keymap_is_initialised) { initialise_keymap(); keymap_is_initialised = true; }` on object `i` -/
def Heap.ensureInit (h : Heap) (i : Nat) : Heap :=
  h.modify i fun o => if o.init then o else { o with init := true, owner := some i }

/-- the object that the KeyParser pointers of object `i` refer to, if it is still there (`none`: dangling, or no keys) -/
def Heap.target (h : Heap) (i : Nat) : Option (Nat × PObj) :=
  match h[i]? with
  | some o =>
    match o.owner with
    | some t =>
      match h[t]? with
      | some ot => if ot.alive then some (t, ot) else none
      | none => none
    | none => none
  | none => none

def Heap.statusOf (h : Heap) (i : Nat) : Bool := match h[i]? with | some o => o.status | none => false

/-- `parser.parse(text)` of object `i` whose pointers refer to the members `ot` of object `t` -/
def Heap.storeParse (h : Heap) (i t : Nat) (ot : PObj) (text : Str) : Heap × PAns :=
  let r := ({ ot.vals with parsing := h.statusOf i } : KP).parse text
  let h1 := h.set t { ot with vals := { r.kp with parsing := false } }
  let h2 := h1.modify i fun x => { x with status := r.kp.parsing }
  (h2, .parsed r.tag ((h2[i]?.map (·.vals)).getD ot.vals))

/-- one operation on the heap of objects of a class whose default-constructed members are `tmpl` -/
def Heap.step (tmpl : KP) (h : Heap) : POp → Heap × PAns
  | .new => (h ++ [{ vals := tmpl }], .id h.length)
  | .copy i =>
    match h[i]? with
    | some o => if o.alive then (h ++ [{ vals := o.vals }], .id h.length) else (h, .bad)
    | none => (h, .bad)
  | .assign i j =>
    match h[i]?, h[j]? with
    | some oi, some oj =>
      if oi.alive && oj.alive then (h.set i { oi with vals := oj.vals, init := false }, .done) else (h, .bad)
    | _, _ => (h, .bad)
  | .destroy i => if h.live i then (h.modify i fun o => { o with alive := false }, .done) else (h, .bad)
  | .parse i text =>
    if !h.live i then (h, .bad)
    else
      let h := h.ensureInit i
      match h.target i with
      | some (t, ot) => h.storeParse i t ot text
      | none => (h, .uaf)
  | .info i =>
    if !h.live i then (h, .bad)
    else
      let h := h.ensureInit i
      match h.target i with
      | some (_, ot) => (h, .text ot.vals.parameterInfo)
      | none => (h, .uaf)

/-- a history of operations from the empty heap: final heap and the answers -/
def Heap.run (tmpl : KP) : Heap → List POp → Heap × List PAns
  | h, [] => (h, [])
  | h, op :: ops =>
    let (h', a) := h.step tmpl op
    let (h'', as) := Heap.run tmpl h' ops
    (h'', a :: as)

end StirVerif.C17
