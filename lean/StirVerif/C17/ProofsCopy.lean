/-
C17 — copies of `ParsingObject`s (model: `PObj`, `Heap.step`, `Heap.run` of Model.lean).

* `WF`                    — every parser refers to the members of ITS OWN object (or has no keys yet);
* `step_wf`, `run_wf`     — all operations keep it (the copy constructor leaves the parser empty, `operator=` leaves it alone);
* `step_not_uaf`          — so no operation goes through a pointer into a destroyed object;
* `info_answer`           — `parameter_info()` of an object is the text of ITS members;
* `step_frame`            — an operation on object `i` leaves every other object as it is;
* `copy_members`          — a copy has the members of the original.
Core Lean only.
-/
import StirVerif.C17.ProofsTotal
namespace StirVerif.C17

/-- every parser's pointers refer to the members of its own object; an initialised keymap has keys -/
@[reducible] def WF (h : Heap) : Prop :=
  ∀ (i : Nat) (o : PObj), h[i]? = some o → (o.owner = none ∨ o.owner = some i) ∧ (o.init = true → o.owner = some i)

theorem wf_nil : WF [] := by
  intro i o h; simp at h

theorem wf_push (h : Heap) (hw : WF h) (o : PObj) (ho : o.owner = none) (hi : o.init = false) : WF (h ++ [o]) := by
  intro i x hx
  by_cases hlt : i < h.length
  · rw [List.getElem?_append_left hlt] at hx
    exact hw i x hx
  · have hge : h.length ≤ i := by omega
    rw [List.getElem?_append_right hge] at hx
    by_cases he : i - h.length = 0
    · rw [he] at hx
      simp at hx
      subst hx
      exact ⟨Or.inl ho, fun h' => by rw [hi] at h'; cases h'⟩
    · have : (i - h.length) ≥ 1 := by omega
      rw [List.getElem?_eq_none (by simp; omega)] at hx
      cases hx

theorem getElem?_modify_self {α : Type} (l : List α) (f : α → α) (i : Nat) :
    (l.modify i f)[i]? = (l[i]?).map f := by
  simp

theorem getElem?_modify_ne {α : Type} (l : List α) (f : α → α) (i k : Nat) (h : k ≠ i) :
    (l.modify i f)[k]? = l[k]? := by
  rw [List.getElem?_modify]
  simp [Ne.symm h]

theorem wf_modify (h : Heap) (hw : WF h) (i : Nat) (f : PObj → PObj)
    (hf : ∀ o, h[i]? = some o →
      ((f o).owner = none ∨ (f o).owner = some i) ∧ ((f o).init = true → (f o).owner = some i)) :
    WF (h.modify i f) := by
  intro k x hx
  by_cases hk : k = i
  · subst hk
    rw [getElem?_modify_self] at hx
    cases ho : h[k]? with
    | none => rw [ho] at hx; cases hx
    | some o =>
      rw [ho] at hx
      simp at hx
      subst hx
      exact hf o ho
  · rw [getElem?_modify_ne _ _ _ _ hk] at hx
    exact hw k x hx

theorem wf_set (h : Heap) (hw : WF h) (i : Nat) (o : PObj)
    (ho : (o.owner = none ∨ o.owner = some i) ∧ (o.init = true → o.owner = some i)) : WF (h.set i o) := by
  intro k x hx
  by_cases hk : k = i
  · subst hk
    by_cases hlt : k < h.length
    · rw [List.getElem?_set_self hlt] at hx
      cases hx
      exact ho
    · rw [List.getElem?_eq_none (by simp; omega)] at hx
      cases hx
  · rw [List.getElem?_set_ne (Ne.symm hk)] at hx
    exact hw k x hx

theorem wf_ensureInit (h : Heap) (hw : WF h) (i : Nat) : WF (h.ensureInit i) := by
  intro k x hx
  unfold Heap.ensureInit at hx
  by_cases hk : k = i
  · subst hk
    rw [getElem?_modify_self] at hx
    cases ho : h[k]? with
    | none => rw [ho] at hx; cases hx
    | some o =>
      rw [ho] at hx
      simp at hx
      subst hx
      by_cases hi : o.init = true
      · rw [if_pos hi]
        exact hw k o ho
      · simp [hi]
  · rw [getElem?_modify_ne _ _ _ _ hk] at hx
    exact hw k x hx

/-- after `ensureInit i` a live object `i` is initialised and its parser refers to object `i` itself -/
theorem ensureInit_owner (h : Heap) (hw : WF h) (i : Nat) (o : PObj) (ho : (h.ensureInit i)[i]? = some o) :
    o.owner = some i := by
  unfold Heap.ensureInit at ho
  rw [getElem?_modify_self] at ho
  cases hx : h[i]? with
  | none => rw [hx] at ho; cases ho
  | some x =>
    rw [hx] at ho
    simp at ho
    subst ho
    by_cases hi : x.init = true
    · simp [hi]
      exact (hw i x hx).2 hi
    · simp [hi]

theorem ensureInit_vals (h : Heap) (i k : Nat) :
    ((h.ensureInit i)[k]?).map (fun o => (o.vals, o.alive, o.status)) = (h[k]?).map (fun o => (o.vals, o.alive, o.status)) := by
  unfold Heap.ensureInit
  by_cases hk : k = i
  · subst hk
    rw [getElem?_modify_self]
    cases h[k]? with
    | none => rfl
    | some o => by_cases hi : o.init = true <;> simp [hi]
  · rw [getElem?_modify_ne _ _ _ _ hk]

theorem ensureInit_ne (h : Heap) (i k : Nat) (hk : k ≠ i) : (h.ensureInit i)[k]? = h[k]? := by
  unfold Heap.ensureInit
  exact getElem?_modify_ne _ _ _ _ hk

theorem target_some (h : Heap) (i t : Nat) (ot : PObj) (ht : h.target i = some (t, ot)) :
    ∃ o, h[i]? = some o ∧ o.owner = some t ∧ h[t]? = some ot ∧ ot.alive = true := by
  unfold Heap.target at ht
  cases ho : h[i]? with
  | none => rw [ho] at ht; cases ht
  | some o =>
    rw [ho] at ht
    simp only at ht
    cases hown : o.owner with
    | none => rw [hown] at ht; cases ht
    | some t' =>
      rw [hown] at ht
      simp only at ht
      cases hot : h[t']? with
      | none => rw [hot] at ht; cases ht
      | some ot' =>
        rw [hot] at ht
        simp only at ht
        by_cases hal : ot'.alive = true
        · rw [if_pos hal] at ht
          cases ht
          exact ⟨o, rfl, hown, hot, hal⟩
        · rw [if_neg hal] at ht
          cases ht

theorem wf_storeParse (h : Heap) (hw : WF h) (i t : Nat) (ot : PObj) (hot : h[t]? = some ot) (text : Str) :
    WF (h.storeParse i t ot text).1 := by
  unfold Heap.storeParse
  simp only
  have hw1 : WF (h.set t { ot with vals := { (({ ot.vals with parsing := h.statusOf i } : KP).parse text).kp with parsing := false } }) :=
    wf_set h hw t _ (hw t ot hot)
  exact wf_modify _ hw1 i _ (fun x hx => hw1 i x hx)

/-- **every operation keeps the parsers pointing at their own objects** -/
theorem step_wf (tmpl : KP) (h : Heap) (hw : WF h) (op : POp) : WF (h.step tmpl op).1 := by
  cases op with
  | new => exact wf_push h hw _ rfl rfl
  | copy i =>
    simp only [Heap.step]
    split
    · split
      · exact wf_push h hw _ rfl rfl
      · exact hw
    · exact hw
  | assign i j =>
    simp only [Heap.step]
    split
    · next oi oj hi hj =>
      split
      · refine wf_set h hw i _ ⟨?_, ?_⟩
        · exact (hw i oi hi).1
        · intro hc; cases hc
      · exact hw
    · exact hw
  | destroy i =>
    simp only [Heap.step]
    split
    · exact wf_modify h hw i _ (fun o ho => hw i o ho)
    · exact hw
  | parse i text =>
    simp only [Heap.step]
    split
    · exact hw
    · have hw1 := wf_ensureInit h hw i
      split
      · next t ot ht =>
        obtain ⟨_, _, _, hot, _⟩ := target_some _ _ _ _ ht
        exact wf_storeParse _ hw1 i t ot hot text
      · exact hw1
  | info i =>
    simp only [Heap.step]
    split
    · exact hw
    · have hw1 := wf_ensureInit h hw i
      split
      · exact hw1
      · exact hw1

theorem run_wf (tmpl : KP) (ops : List POp) : ∀ h : Heap, WF h → WF (Heap.run tmpl h ops).1 := by
  induction ops with
  | nil => intro h hw; exact hw
  | cons op ops ih =>
    intro h hw
    simp only [Heap.run]
    exact ih _ (step_wf tmpl h hw op)

theorem live_some (h : Heap) (i : Nat) (hl : h.live i = true) : ∃ o, h[i]? = some o ∧ o.alive = true := by
  unfold Heap.live at hl
  cases ho : h[i]? with
  | none => rw [ho] at hl; cases hl
  | some o => rw [ho] at hl; exact ⟨o, rfl, hl⟩

/-- in a well-formed heap the pointers of a live object, once its keymap is initialised, refer to the object itself -/
theorem target_self (h : Heap) (hw : WF h) (i : Nat) (hl : h.live i = true) :
    ∃ o, (h.ensureInit i)[i]? = some o ∧ o.alive = true ∧ (h.ensureInit i).target i = some (i, o) ∧
      (h[i]?).map (·.vals) = some o.vals := by
  obtain ⟨x, hx, hxa⟩ := live_some h i hl
  have hv := ensureInit_vals h i i
  rw [hx] at hv
  cases ho : (h.ensureInit i)[i]? with
  | none => rw [ho] at hv; cases hv
  | some o =>
    rw [ho] at hv
    simp at hv
    have hown := ensureInit_owner h hw i o ho
    refine ⟨o, rfl, by rw [hv.2.1]; exact hxa, ?_, by rw [hx]; simp [hv.1]⟩
    unfold Heap.target
    rw [ho]
    simp only [hown, ho]
    rw [if_pos (by rw [hv.2.1]; exact hxa)]

/-- **no dangling keymap**: in a well-formed heap no operation goes through a pointer into a destroyed object -/
theorem step_not_uaf (tmpl : KP) (h : Heap) (hw : WF h) (op : POp) : (h.step tmpl op).2 ≠ .uaf := by
  cases op with
  | new => simp [Heap.step]
  | copy i =>
    simp only [Heap.step]
    split
    · split <;> simp
    · simp
  | assign i j =>
    simp only [Heap.step]
    split
    · split <;> simp
    · simp
  | destroy i => simp only [Heap.step]; split <;> simp
  | parse i text =>
    simp only [Heap.step]
    by_cases hl : h.live i = true
    · obtain ⟨o, _, _, ht, _⟩ := target_self h hw i hl
      simp only [hl, Bool.not_true, Bool.false_eq_true, if_false, ht]
      simp [Heap.storeParse]
    · have : h.live i = false := by simpa using hl
      simp [this]
  | info i =>
    simp only [Heap.step]
    by_cases hl : h.live i = true
    · obtain ⟨o, _, _, ht, _⟩ := target_self h hw i hl
      simp [hl, ht]
    · have : h.live i = false := by simpa using hl
      simp [this]

/-- `parameter_info()` of a live object is the text of ITS OWN members, whatever happened to other objects before -/
theorem info_answer (tmpl : KP) (h : Heap) (hw : WF h) (i : Nat) (o : PObj) (ho : h[i]? = some o) (hl : o.alive = true) :
    (h.step tmpl (.info i)).2 = .text o.vals.parameterInfo := by
  have hl' : h.live i = true := by unfold Heap.live; rw [ho]; exact hl
  obtain ⟨o', _, _, ht, hv⟩ := target_self h hw i hl'
  rw [ho] at hv
  simp at hv
  simp [Heap.step, hl', ht, hv]

/-- a copy has the members of the original, an empty parser and a keymap that is not initialised -/
theorem copy_members (tmpl : KP) (h : Heap) (i : Nat) (o : PObj) (ho : h[i]? = some o) (hl : o.alive = true) :
    (h.step tmpl (.copy i)).2 = .id h.length ∧
      (h.step tmpl (.copy i)).1[h.length]? = some { vals := o.vals } ∧
      ∀ k, k < h.length → (h.step tmpl (.copy i)).1[k]? = h[k]? := by
  simp only [Heap.step, ho, hl, if_true]
  refine ⟨trivial, by simp, ?_⟩
  intro k hk
  exact List.getElem?_append_left hk

/-- **independence**: an operation on object `i` (parse, print, destroy, assignment TO `i`) leaves every other object of a
    well-formed heap exactly as it is -/
theorem step_frame (tmpl : KP) (h : Heap) (hw : WF h) (k : Nat) (hk : k < h.length) :
    (∀ i text, i ≠ k → (h.step tmpl (.parse i text)).1[k]? = h[k]?) ∧
    (∀ i, i ≠ k → (h.step tmpl (.info i)).1[k]? = h[k]?) ∧
    (∀ i, i ≠ k → (h.step tmpl (.destroy i)).1[k]? = h[k]?) ∧
    (∀ i j, i ≠ k → (h.step tmpl (.assign i j)).1[k]? = h[k]?) ∧
    (∀ i, (h.step tmpl (.copy i)).1[k]? = h[k]?) ∧
    (h.step tmpl .new).1[k]? = h[k]? := by
  refine ⟨?_, ?_, ?_, ?_, ?_, ?_⟩
  · intro i text hik
    simp only [Heap.step]
    by_cases hl : h.live i = true
    · obtain ⟨o, ho, _, ht, _⟩ := target_self h hw i hl
      simp only [hl, Bool.not_true, Bool.false_eq_true, if_false, ht]
      unfold Heap.storeParse
      simp only
      rw [getElem?_modify_ne _ _ _ _ (Ne.symm hik), List.getElem?_set_ne hik]
      exact ensureInit_ne h i k (Ne.symm hik)
    · have : h.live i = false := by simpa using hl
      simp [this]
  · intro i hik
    simp only [Heap.step]
    by_cases hl : h.live i = true
    · obtain ⟨o, ho, _, ht, _⟩ := target_self h hw i hl
      simp only [hl, Bool.not_true, Bool.false_eq_true, if_false, ht]
      exact ensureInit_ne h i k (Ne.symm hik)
    · have : h.live i = false := by simpa using hl
      simp [this]
  · intro i hik
    simp only [Heap.step]
    split
    · exact getElem?_modify_ne _ _ _ _ (Ne.symm hik)
    · rfl
  · intro i j hik
    simp only [Heap.step]
    split
    · split
      · exact List.getElem?_set_ne hik
      · rfl
    · rfl
  · intro i
    simp only [Heap.step]
    split
    · split
      · exact List.getElem?_append_left hk
      · rfl
    · rfl
  · simp only [Heap.step]
    exact List.getElem?_append_left hk

/-- parsing into object `i` of a well-formed heap stores into the members of `i` itself: they become what `KeyParser::parse`
    makes of them -/
theorem parse_own_members (tmpl : KP) (h : Heap) (hw : WF h) (i : Nat) (o : PObj) (ho : h[i]? = some o) (hl : o.alive = true)
    (text : Str) :
    ∃ o', (h.step tmpl (.parse i text)).1[i]? = some o' ∧
      o'.vals = { (({ o.vals with parsing := o.status } : KP).parse text).kp with parsing := false } ∧ o'.alive = true := by
  have hl' : h.live i = true := by unfold Heap.live; rw [ho]; exact hl
  obtain ⟨x, hx, hxa, ht, hv⟩ := target_self h hw i hl'
  rw [ho] at hv
  simp at hv
  have hst : (h.ensureInit i).statusOf i = o.status := by
    have := ensureInit_vals h i i
    rw [hx, ho] at this
    simp at this
    unfold Heap.statusOf
    rw [hx]
    exact this.2.2
  have hlt : i < (h.ensureInit i).length := by
    by_cases hlt : i < (h.ensureInit i).length
    · exact hlt
    · rw [List.getElem?_eq_none (by omega)] at hx; cases hx
  simp only [Heap.step, hl', Bool.not_true, Bool.false_eq_true, if_false, ht]
  unfold Heap.storeParse
  simp only
  rw [getElem?_modify_self, List.getElem?_set_self hlt]
  refine ⟨_, rfl, ?_, ?_⟩
  · simp [hst, hv]
  · simp [hxa]

end StirVerif.C17
