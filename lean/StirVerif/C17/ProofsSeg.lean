/-
C17 — (1) an alias line resolves to the entry of its target whatever the spelling of the registered keyword, of the target
named in `add_alias_key`, of the alias, and of the alias on the line; (2) the per-segment lists of a projection-data header:
an accepted header has one entry per segment in every list (`pdfsSegments`).
-/
import StirVerif.C17.ProofsObj

namespace StirVerif.C17

/-! ### aliases, end to end -/

theorem findInKeymap_addInKeymap (m : List Entry) (e : Entry) : findInKeymap (addInKeymap m e) e.key = some e := by
  unfold addInKeymap findInKeymap
  by_cases h : (m.find? (fun x => x.key == e.key)).isSome = true
  · rw [if_pos h]
    induction m with
    | nil => simp at h
    | cons a as ih =>
      by_cases ha : (a.key == e.key) = true
      · rw [List.map_cons, if_pos ha, List.find?_cons]
        simp
      · have ha' : (a.key == e.key) = false := by simpa using ha
        simp only [List.map_cons, ha', Bool.false_eq_true, if_false, List.find?_cons]
        simp only [List.find?_cons, ha'] at h
        exact ih h
  · rw [if_neg h]
    have h' : m.find? (fun x => x.key == e.key) = none := Option.not_isSome_iff_eq_none.mp h
    rw [List.find?_append, h']
    simp

/-- a key registered as `kw`, an alias registered as `add_alias_key(kw', al)` with `kw'` any spelling of `kw`, a line that
    uses any spelling `al'` of the alias: the look-up key of the line is the (standardised) registered keyword, and the keymap
    has the registered entry under it -/
theorem alias_line_resolves (p : KP) (kw kw' al al' x : Str) (a : Action) (v : Var) (dep : Bool)
    (hkw : KeyEquiv kw kw') (hal : KeyEquiv al al') (hp : PlainKey al')
    (hfresh : dep = true → assocFind p.aliases (standardise al) = none) :
    ((p.addKey kw a v).addAlias kw' al dep).keywordOf (al' ++ ':' :: '=' :: x) = standardise kw ∧
    findInKeymap ((p.addKey kw a v).addAlias kw' al dep).kmap (standardise kw)
      = some { key := standardise kw, action := a, var := v } := by
  constructor
  · unfold KP.keywordOf
    rw [getKeyword_assign _ _ hp, ← standardise_eq_of_keyEquiv hal, standardise_eq_of_keyEquiv hkw]
    cases dep with
    | false => exact (resolveAlias_addAlias (p.addKey kw a v) kw' al).1
    | true => exact (resolveAlias_addAlias (p.addKey kw a v) kw' al).2 (hfresh rfl)
  · have hk : ((p.addKey kw a v).addAlias kw' al dep).kmap
        = addInKeymap p.kmap { key := standardise kw, action := a, var := v } := by
      unfold KP.addAlias KP.addKey
      cases dep <;> rfl
    rw [hk]
    exact findInKeymap_addInKeymap p.kmap { key := standardise kw, action := a, var := v }

/-! ### per-segment lists -/

theorem toU32_of_range (n : Int) (h0 : 0 ≤ n) (h1 : n < 4294967296) : toU32 n = n := by
  unfold toU32
  exact Int.emod_eq_of_lt h0 h1

theorem toU32_nonneg (n : Int) : 0 ≤ toU32 n := by
  unfold toU32
  exact Int.emod_nonneg n (by decide)

theorem filter_neg_lt_of_any_zero (l : List Int) (h : l.any (· == 0) = true) :
    (l.filter (· < 0)).length < l.length := by
  induction l with
  | nil => simp at h
  | cons x xs ih =>
    rw [List.any_cons, Bool.or_eq_true] at h
    rcases h with hx | hxs
    · have hx0 : x = 0 := by simpa using hx
      subst hx0
      have : (List.filter (fun y : Int => decide (y < 0)) xs).length ≤ xs.length := List.length_filter_le _ _
      simp only [List.filter_cons, List.length_cons]
      have h00 : decide ((0 : Int) < 0) = false := by decide
      rw [h00]
      simp only [Bool.false_eq_true, if_false]
      omega
    · have := ih hxs
      simp only [List.filter_cons, List.length_cons]
      split
      · simp only [List.length_cons]; omega
      · omega

/-- an accepted header: every per-segment list has `num_segments` entries, the segments handed on are `a..b` with
    `b - a + 1 = num_segments`, and segment 0 is among them -/
theorem pdfsSegments_ok (t : SegTables) (a b : Int) (h : pdfsSegments t = .ok a b) :
    (t.minRD.length : Int) = toU32 t.numSegments ∧ (t.maxRD.length : Int) = toU32 t.numSegments ∧
    (t.ringsPerSeg.length : Int) = toU32 t.numSegments ∧ b - a + 1 = t.minRD.length ∧ a ≤ 0 ∧ 0 ≤ b := by
  unfold pdfsSegments at h
  split at h
  · cases h
  · next h1 =>
    split at h
    · cases h
    · next h2 =>
      split at h
      · cases h
      · next h3 =>
        have e1 : (t.minRD.length : Int) = toU32 t.numSegments := by
          by_cases e : (t.minRD.length : Int) = toU32 t.numSegments
          · exact e
          · exact absurd e h1
        have e2 : (t.maxRD.length : Int) = toU32 t.numSegments := by
          by_cases e : (t.maxRD.length : Int) = toU32 t.numSegments
          · exact e
          · exact absurd e h2
        have e3 : (t.ringsPerSeg.length : Int) = toU32 t.numSegments := by
          by_cases e : (t.ringsPerSeg.length : Int) = toU32 t.numSegments
          · exact e
          · exact absurd e h3
        simp only at h
        split at h
        · next hz =>
          have hlen : (List.zipWith (· + ·) t.minRD t.maxRD).length = t.minRD.length := by
            rw [List.length_zipWith]
            have : (t.minRD.length : Int) = t.maxRD.length := by rw [e1, e2]
            omega
          have hlt := filter_neg_lt_of_any_zero _ hz
          injection h with ha hb
          refine ⟨e1, e2, e3, ?_, ?_, ?_⟩ <;> omega
        · cases h

/-- a header in which one of the lists does not have one entry per declared segment is rejected -/
theorem pdfsSegments_wrong_length (t : SegTables) (h0 : 0 ≤ t.numSegments) (h1 : t.numSegments < 4294967296)
    (h : (t.minRD.length : Int) ≠ t.numSegments ∨ (t.maxRD.length : Int) ≠ t.numSegments ∨
      (t.ringsPerSeg.length : Int) ≠ t.numSegments) : pdfsSegments t = .rejected := by
  unfold pdfsSegments
  rw [toU32_of_range _ h0 h1]
  by_cases a1 : (t.minRD.length : Int) ≠ t.numSegments
  · rw [if_pos a1]
  · rw [if_neg a1]
    by_cases a2 : (t.maxRD.length : Int) ≠ t.numSegments
    · rw [if_pos a2]
    · rw [if_neg a2]
      by_cases a3 : (t.ringsPerSeg.length : Int) ≠ t.numSegments
      · rw [if_pos a3]
      · exact absurd h (by simp only [not_or]; exact ⟨a1, a2, a3⟩)

/-- never accepted without `find_storage_order` having run (`num_segments = -1`) unless a list has 2^32-1 entries -/
theorem pdfsSegments_no_lists : pdfsSegments (segTablesOf 5 [1, 2, 3, 2, 1] none none) = .rejected := by decide

end StirVerif.C17
