/-
C17 — Interfile headers with their size-giving keys in ANY order (model: `hdrLine`, `hdrCallback`, `imagePost`,
`parseImageHeader`, `parseMultiHeader` of Model.lean).

* `parseWith_parseLine`       — `KP.parseWith KP.parseLine = KP.parse`: the generalised loop IS the loop of the other theorems;
* `parseWith_total`           — it returns for every per-line function (no `diverges`);
* `parseWith_inv`             — an invariant of the per-line function holds for the members after `parse_header`;
* `HdrInv`, `hdrLine_inv`     — every table of the image header has the length given by its count key, after EVERY line of
                                EVERY text (any order of the keys, any values, any indices);
* `imageHeader_tables`, `imageHeader_not_oob` — so an accepted header object has all tables at the announced length and
                                `post_processing` never indexes beyond a table;
* `multiHeader_tables`        — the same for `MultipleDataSetHeader`.
Core Lean only.
-/
import StirVerif.C17.ProofsTotal
namespace StirVerif.C17

/-! ### the generalised parse loop -/

theorem parseLoopWith_parseLine (fuel : Nat) (p : KP) (s : Stream) :
    parseLoopWith KP.parseLine fuel p s = parseLoop fuel p s := by
  induction fuel generalizing p s with
  | zero => rfl
  | succ fuel ih =>
    rw [parseLoopWith, parseLoop]
    split
    · rfl
    · split
      · rfl
      · rfl
      · split
        · rfl
        · split
          · rfl
          · exact ih _ _

theorem parseWith_parseLine (p : KP) (text : Str) : p.parseWith KP.parseLine text = p.parse text := by
  unfold KP.parseWith KP.parse
  simp only [parseLoopWith_parseLine]

/-- the generalised loop returns, whatever the per-line function does -/
theorem parseLoopWith_total (step : KP → Str → Option KP) (fuel : Nat) (p : KP) (s : Stream) (hf : s.fail = false)
    (hfuel : s.rest.length + 1 < fuel) : (parseLoopWith step fuel p s).tag ≠ .diverges := by
  induction fuel generalizing p s with
  | zero => omega
  | succ fuel ih =>
    rw [parseLoopWith]
    split
    · simp
    · rcases nextLine_total (s.rest.length + 2) s hf with h1 | ⟨l, s', h1, hp⟩
      · rw [h1]; simp
      · rw [h1]
        simp only
        cases hpl : step p l with
        | none => simp
        | some p' =>
          simp only
          by_cases he : s'.eof = true
          · simp [he]
          · have he' : s'.eof = false := by simpa using he
            simp only [he', Bool.false_eq_true, if_false]
            rcases hp with e | e
            · rw [e] at he'; cases he'
            · by_cases hf' : s'.fail = false
              · exact ih p' s' hf' (by omega)
              · cases fuel with
                | zero => omega
                | succ f =>
                  rw [parseLoopWith]
                  split
                  · simp
                  · have : s'.good = false := by
                      unfold Stream.good
                      have : s'.fail = true := by simpa using hf'
                      simp [this]
                    have hn' : nextLine (s'.rest.length + 2) s' = none := by
                      rw [nextLine]; simp [this]
                    rw [hn']; simp

theorem parseWith_total (step : KP → Str → Option KP) (p : KP) (text : Str) : (p.parseWith step text).tag ≠ .diverges := by
  unfold KP.parseWith
  simp only
  rcases nextLine_total (text.length + 2) { rest := text } rfl with h1 | ⟨l, s', h1, hp⟩
  · rw [h1]; simp
  · rw [h1]
    simp only
    cases hpl : step p l with
    | none => simp
    | some p' =>
      simp only
      split
      · simp
      · split
        · simp
        · next he =>
          have he' : s'.eof = false := by simpa using he
          rcases hp with e | e
          · rw [e] at he'; cases he'
          · by_cases hf' : s'.fail = false
            · exact parseLoopWith_total step _ p' s' hf' (by simp at e; omega)
            · have hfuel : text.length + 2 = (text.length + 1) + 1 := rfl
              rw [hfuel, parseLoopWith]
              split
              · simp
              · have : s'.good = false := by
                  unfold Stream.good
                  have : s'.fail = true := by simpa using hf'
                  simp [this]
                have hn' : nextLine (s'.rest.length + 2) s' = none := by
                  rw [nextLine]; simp [this]
                rw [hn']; simp

/-- a property of the members that every line keeps is a property of the members after the loop -/
theorem parseLoopWith_inv (Inv : List Entry → Prop) (step : KP → Str → Option KP)
    (hstep : ∀ p l p', Inv p.kmap → step p l = some p' → Inv p'.kmap) (fuel : Nat) (p : KP) (s : Stream) (hp : Inv p.kmap) :
    Inv (parseLoopWith step fuel p s).kp.kmap := by
  induction fuel generalizing p s with
  | zero => exact hp
  | succ fuel ih =>
    rw [parseLoopWith]
    split
    · exact hp
    · split
      · exact hp
      · exact hp
      · next l s' _ =>
        cases hpl : step p l with
        | none => exact hp
        | some p' =>
          have hp' := hstep p l p' hp hpl
          simp only
          split
          · exact hp'
          · exact ih p' s' hp'

theorem parseWith_inv (Inv : List Entry → Prop) (step : KP → Str → Option KP)
    (hstep : ∀ p l p', Inv p.kmap → step p l = some p' → Inv p'.kmap) (p : KP) (text : Str) (hp : Inv p.kmap) :
    Inv (p.parseWith step text).kp.kmap := by
  unfold KP.parseWith
  simp only
  split
  · exact hp
  · exact hp
  · next l s' _ =>
    cases hpl : step p l with
    | none => exact hp
    | some p' =>
      have hp' := hstep p l p' hp hpl
      simp only
      split
      · exact hp'
      · split
        · exact hp'
        · exact parseLoopWith_inv Inv step hstep _ p' s' hp'

/-! ### `getVar` / `setEntry` -/

theorem getVar_nil (k : Str) : getVar [] k = .none := rfl

theorem getVar_cons (e : Entry) (m : List Entry) (k : Str) :
    getVar (e :: m) k = if e.key = k then e.var else getVar m k := by
  unfold getVar findInKeymap
  rw [List.find?_cons]
  by_cases h : e.key = k
  · simp [h]
  · have : (e.key == k) = false := by simpa using h
    simp [this, h]

theorem setEntry_cons (e : Entry) (m : List Entry) (k : Str) (v : Var) :
    setEntry (e :: m) k v = (if e.key == k then { e with var := v } else e) :: setEntry m k v := rfl

theorem getVar_setEntry_ne (m : List Entry) (k k' : Str) (v : Var) (h : k' ≠ k) :
    getVar (setEntry m k v) k' = getVar m k' := by
  induction m with
  | nil => rfl
  | cons e m ih =>
    rw [setEntry_cons, getVar_cons, getVar_cons, ih]
    by_cases hk : e.key = k
    · have hne : ¬ e.key = k' := fun h' => h (h'.symm.trans hk)
      have hne2 : ¬ k = k' := fun h' => h h'.symm
      simp [hk, hne2]
    · have : (e.key == k) = false := by simpa using hk
      simp [this]

theorem getVar_setEntry_eq (m : List Entry) (k : Str) (v : Var) (h : (findInKeymap m k).isSome = true) :
    getVar (setEntry m k v) k = v := by
  induction m with
  | nil => simp [findInKeymap] at h
  | cons e m ih =>
    rw [setEntry_cons, getVar_cons]
    by_cases hk : e.key = k
    · simp [hk]
    · have hb : (e.key == k) = false := by simpa using hk
      simp only [hb, Bool.false_eq_true, if_false, hk]
      apply ih
      unfold findInKeymap at h ⊢
      rw [List.find?_cons, hb] at h
      exact h

theorem isSome_of_getVar (m : List Entry) (k : Str) (h : getVar m k ≠ .none) : (findInKeymap m k).isSome = true := by
  unfold getVar at h
  cases hf : findInKeymap m k with
  | none => rw [hf] at h; exact absurd rfl h
  | some e => rfl

theorem getVar_of_find (m : List Entry) (k : Str) (e : Entry) (h : findInKeymap m k = some e) : getVar m k = e.var := by
  unfold getVar; rw [h]

/-! ### what one line does to the variables -/

/-- same kind of variable; for a table: same number of elements; for a choice: same list of values -/
def sameShape : Var → Var → Prop
  | .none, .none => True
  | .int _, .int _ => True
  | .bool _, .bool _ => True
  | .ascii _, .ascii _ => True
  | .choice a _, .choice b _ => a = b
  | .ints _, .ints _ => True
  | .strs _, .strs _ => True
  | .vInt a, .vInt b => a.length = b.length
  | .vAscii a, .vAscii b => a.length = b.length
  | .vInts a, .vInts b => a.length = b.length
  | _, _ => False

theorem sameShape_refl (v : Var) : sameShape v v := by cases v <;> simp [sameShape]

theorem setVariable_shape (v : Var) (p : Param) (i : Int) (v' : Var) (h : setVariable v p i = some v') : sameShape v v' := by
  unfold setVariable at h
  split at h
  · cases h; exact sameShape_refl v
  · split at h
    · -- scalar
      unfold setScalar at h
      cases v <;> cases p <;> simp at h <;> (try subst h) <;> simp [sameShape]
    · unfold setIndexed at h
      cases v <;> cases p <;> simp at h
      all_goals
        obtain ⟨l', hl, rfl⟩ := h
        simp [sameShape, assignToList_length _ _ _ _ hl]

/-- a line either leaves the variables alone or stores a value of the same shape into the variable of its keyword -/
theorem parseLine_effect (p : KP) (line : Str) (p' : KP) (h : p.parseLine line = some p') :
    p'.kmap = p.kmap ∨
      ∃ v, sameShape (getVar p.kmap (p.keywordOf line)) v ∧ (findInKeymap p.kmap (p.keywordOf line)).isSome = true ∧
        p'.kmap = setEntry p.kmap (p.keywordOf line) v := by
  unfold KP.parseLine processLine at h
  cases hf : findInKeymap p.kmap (p.keywordOf line) with
  | none => rw [hf] at h; simp at h; left; rw [← h]
  | some e =>
    rw [hf] at h
    simp only at h
    cases ha : e.action with
    | start => rw [ha] at h; simp at h; left; rw [← h]
    | stop => rw [ha] at h; simp at h; left; rw [← h]
    | ignore => rw [ha] at h; simp at h; left; rw [← h]
    | set =>
      rw [ha] at h
      simp only at h
      cases hs : setVariable e.var (valueFor e.var line) (getIndex line) with
      | none => rw [hs] at h; cases h
      | some v =>
        rw [hs] at h
        simp at h
        right
        refine ⟨v, ?_, by simp, by rw [← h]⟩
        rw [getVar_of_find _ _ _ hf]
        exact setVariable_shape _ _ _ _ hs

/-! ### the invariant: every table has the length that its count key gives -/

theorem length_resizeList {α : Type} (l : List α) (n : Nat) (fill : α) : (resizeList l n fill).length = n := by
  unfold resizeList
  simp [List.length_take]
  omega

theorem getVar_setKey_ne (p : KP) (k k' : Str) (v : Var) (h : k' ≠ k) : getVar (p.setKey k v).kmap k' = getVar p.kmap k' :=
  getVar_setEntry_ne _ _ _ _ h

theorem getVar_setKey_eq (p : KP) (k : Str) (v : Var) (h : getVar p.kmap k ≠ .none) : getVar (p.setKey k v).kmap k = v :=
  getVar_setEntry_eq _ _ _ (isSome_of_getVar _ _ h)

theorem getVar_resizeKey_ne (p : KP) (k k' : Str) (n : Nat) (fill : Int) (h : k' ≠ k) :
    getVar (p.resizeKey k n fill).kmap k' = getVar p.kmap k' :=
  getVar_setEntry_ne _ _ _ _ h

theorem getVar_resizeKey_eq (p : KP) (k : Str) (n : Nat) (fill : Int) (h : getVar p.kmap k ≠ .none) :
    getVar (p.resizeKey k n fill).kmap k = resizeVar (getVar p.kmap k) n fill :=
  getVar_setEntry_eq _ _ _ (isSome_of_getVar _ _ h)

/-- `number of dimensions` and the tables it sizes (`first pixel offset (mm)` is empty until the key has been seen) -/
def DimsInv (m : List Entry) : Prop :=
  ∃ (d : Nat) (ms : List (List Int)) (lb : List Str) (ps fp : List Int),
    getVar m kNumDims = .int d ∧ getVar m kMatrixSize = .vInts ms ∧ getVar m kLabels = .vAscii lb ∧
    getVar m kPixelSizes = .vInt ps ∧ getVar m kFirstPixel = .vInt fp ∧
    ms.length = d ∧ lb.length = d ∧ ps.length = d ∧ (fp.length = d ∨ (fp.length = 0 ∧ d = 2))

/-- `number of time frames`, `number of image data types` and the tables they size (the per-frame tables are empty until
    `number of time frames` has been seen) -/
def FramesInv (m : List Entry) : Prop :=
  ∃ (t k : Nat) (isf : List (List Int)) (off st du : List Int) (ds : List Str),
    getVar m kNumFrames = .int t ∧ getVar m kNumTypes = .int k ∧ getVar m kScaling = .vInts isf ∧
    getVar m kOffsets = .vInt off ∧ getVar m kStart = .vInt st ∧ getVar m kDuration = .vInt du ∧ getVar m kDescr = .vAscii ds ∧
    isf.length = t * k ∧ off.length = t * k ∧ ds.length = k ∧
    ((st.length = t ∧ du.length = t) ∨ (st.length = 0 ∧ du.length = 0 ∧ t = 1))

def WindowsInv (m : List Entry) : Prop :=
  ∃ (w : Nat) (lo up : List Int),
    getVar m kNumWindows = .int w ∧ getVar m kLower = .vInt lo ∧ getVar m kUpper = .vInt up ∧ lo.length = w ∧ up.length = w

def HdrInv (m : List Entry) : Prop := DimsInv m ∧ FramesInv m ∧ WindowsInv m

/-- shapes of two variables agree: used key by key -/
theorem shape_vInts (v : Var) (l : List (List Int)) (h : sameShape (.vInts l) v) : ∃ l', v = .vInts l' ∧ l'.length = l.length := by
  cases v <;> simp [sameShape] at h
  exact ⟨_, rfl, h.symm⟩

theorem shape_vInt (v : Var) (l : List Int) (h : sameShape (.vInt l) v) : ∃ l', v = .vInt l' ∧ l'.length = l.length := by
  cases v <;> simp [sameShape] at h
  exact ⟨_, rfl, h.symm⟩

theorem shape_vAscii (v : Var) (l : List Str) (h : sameShape (.vAscii l) v) : ∃ l', v = .vAscii l' ∧ l'.length = l.length := by
  cases v <;> simp [sameShape] at h
  exact ⟨_, rfl, h.symm⟩

theorem shape_int (v : Var) (n : Int) (h : sameShape (.int n) v) : ∃ n', v = .int n' := by
  cases v <;> simp [sameShape] at h
  exact ⟨_, rfl⟩

/-- the group of `number of dimensions` is kept by any change that keeps the count and the shapes of its tables -/
theorem DimsInv_shape (m m' : List Entry) (h : DimsInv m) (hc : getVar m' kNumDims = getVar m kNumDims)
    (hs : ∀ k, k = kMatrixSize ∨ k = kLabels ∨ k = kPixelSizes ∨ k = kFirstPixel → sameShape (getVar m k) (getVar m' k)) :
    DimsInv m' := by
  obtain ⟨d, ms, lb, ps, fp, h1, h2, h3, h4, h5, l2, l3, l4, l5⟩ := h
  have s2 := hs kMatrixSize (Or.inl rfl); rw [h2] at s2
  have s3 := hs kLabels (Or.inr (Or.inl rfl)); rw [h3] at s3
  have s4 := hs kPixelSizes (Or.inr (Or.inr (Or.inl rfl))); rw [h4] at s4
  have s5 := hs kFirstPixel (Or.inr (Or.inr (Or.inr rfl))); rw [h5] at s5
  obtain ⟨ms', e2, n2⟩ := shape_vInts _ _ s2
  obtain ⟨lb', e3, n3⟩ := shape_vAscii _ _ s3
  obtain ⟨ps', e4, n4⟩ := shape_vInt _ _ s4
  obtain ⟨fp', e5, n5⟩ := shape_vInt _ _ s5
  refine ⟨d, ms', lb', ps', fp', by rw [hc, h1], e2, e3, e4, e5, by omega, by omega, by omega, ?_⟩
  rcases l5 with l5 | ⟨l5, l6⟩
  · left; omega
  · right; exact ⟨by omega, l6⟩

theorem FramesInv_shape (m m' : List Entry) (h : FramesInv m) (hc1 : getVar m' kNumFrames = getVar m kNumFrames)
    (hc2 : getVar m' kNumTypes = getVar m kNumTypes)
    (hs : ∀ k, k = kScaling ∨ k = kOffsets ∨ k = kStart ∨ k = kDuration ∨ k = kDescr → sameShape (getVar m k) (getVar m' k)) :
    FramesInv m' := by
  obtain ⟨t, k, isf, off, st, du, ds, h1, h2, h3, h4, h5, h6, h7, l3, l4, l7, l56⟩ := h
  have s3 := hs kScaling (Or.inl rfl); rw [h3] at s3
  have s4 := hs kOffsets (Or.inr (Or.inl rfl)); rw [h4] at s4
  have s5 := hs kStart (Or.inr (Or.inr (Or.inl rfl))); rw [h5] at s5
  have s6 := hs kDuration (Or.inr (Or.inr (Or.inr (Or.inl rfl)))); rw [h6] at s6
  have s7 := hs kDescr (Or.inr (Or.inr (Or.inr (Or.inr rfl)))); rw [h7] at s7
  obtain ⟨isf', e3, n3⟩ := shape_vInts _ _ s3
  obtain ⟨off', e4, n4⟩ := shape_vInt _ _ s4
  obtain ⟨st', e5, n5⟩ := shape_vInt _ _ s5
  obtain ⟨du', e6, n6⟩ := shape_vInt _ _ s6
  obtain ⟨ds', e7, n7⟩ := shape_vAscii _ _ s7
  refine ⟨t, k, isf', off', st', du', ds', by rw [hc1, h1], by rw [hc2, h2], e3, e4, e5, e6, e7, by omega, by omega, by omega, ?_⟩
  rcases l56 with ⟨a, b⟩ | ⟨a, b, c⟩
  · left; exact ⟨by omega, by omega⟩
  · right; exact ⟨by omega, by omega, c⟩

theorem WindowsInv_shape (m m' : List Entry) (h : WindowsInv m) (hc : getVar m' kNumWindows = getVar m kNumWindows)
    (hs : ∀ k, k = kLower ∨ k = kUpper → sameShape (getVar m k) (getVar m' k)) : WindowsInv m' := by
  obtain ⟨w, lo, up, h1, h2, h3, l2, l3⟩ := h
  have s2 := hs kLower (Or.inl rfl); rw [h2] at s2
  have s3 := hs kUpper (Or.inr rfl); rw [h3] at s3
  obtain ⟨lo', e2, n2⟩ := shape_vInt _ _ s2
  obtain ⟨up', e3, n3⟩ := shape_vInt _ _ s3
  exact ⟨w, lo', up', by rw [hc, h1], e2, e3, by omega, by omega⟩

/-- what `parseLine` does, key by key: the variable of the keyword of the line keeps its shape, all others are untouched -/
theorem parseLine_vars (p : KP) (line : Str) (p' : KP) (h : p.parseLine line = some p') :
    (∀ k, sameShape (getVar p.kmap k) (getVar p'.kmap k)) ∧ (∀ k, k ≠ p.keywordOf line → getVar p'.kmap k = getVar p.kmap k) := by
  rcases parseLine_effect p line p' h with e | ⟨v, hs, hp, e⟩
  · rw [e]; exact ⟨fun k => sameShape_refl _, fun k _ => rfl⟩
  · rw [e]
    refine ⟨fun k => ?_, fun k hk => getVar_setEntry_ne _ _ _ _ hk⟩
    by_cases hk : k = p.keywordOf line
    · subst hk; rw [getVar_setEntry_eq _ _ _ hp]; exact hs
    · rw [getVar_setEntry_ne _ _ _ _ hk]; exact sameShape_refl _

/-! ### the call-backs -/

def dimsUpd (p : KP) (n : Nat) : KP :=
  (((p.resizeKey kLabels n).resizeKey kMatrixSize n).resizeKey kPixelSizes n 1).setKey kFirstPixel (.vInt (List.replicate n notSet))

def framesUpd (p : KP) (nd t : Nat) : KP :=
  (((p.setKey kScaling (resizeScaling (getVar p.kmap kScaling) nd)).resizeKey kOffsets nd).resizeKey kStart t).resizeKey kDuration t

def typesUpd (p : KP) (nd k : Nat) : KP :=
  ((p.setKey kScaling (resizeScaling (getVar p.kmap kScaling) nd)).resizeKey kOffsets nd).resizeKey kDescr k

def windowsUpd (p : KP) (n : Nat) : KP := (p.resizeKey kUpper n (-1)).resizeKey kLower n (-1)

theorem hdrCallback_dims (p : KP) :
    hdrCallback kNumDims p = if getInt p.kmap kNumDims < 0 then none else some (dimsUpd p (getInt p.kmap kNumDims).toNat) := by
  simp [hdrCallback, dimsUpd]

theorem hdrCallback_frames (p : KP) :
    hdrCallback kNumFrames p =
      if getInt p.kmap kNumFrames * getInt p.kmap kNumTypes < 0 || getInt p.kmap kNumFrames < 0 then none
      else some (framesUpd p (getInt p.kmap kNumFrames * getInt p.kmap kNumTypes).toNat (getInt p.kmap kNumFrames).toNat) := by
  have h1 : (kNumFrames == kNumDims) = false := by decide
  simp [hdrCallback, framesUpd, h1]

theorem hdrCallback_types (p : KP) :
    hdrCallback kNumTypes p =
      if getInt p.kmap kNumFrames * getInt p.kmap kNumTypes < 0 || getInt p.kmap kNumTypes < 0 then none
      else some (typesUpd p (getInt p.kmap kNumFrames * getInt p.kmap kNumTypes).toNat (getInt p.kmap kNumTypes).toNat) := by
  have h1 : (kNumTypes == kNumDims) = false := by decide
  have h2 : (kNumTypes == kNumFrames) = false := by decide
  simp [hdrCallback, typesUpd, h1, h2]

theorem hdrCallback_windows (p : KP) :
    hdrCallback kNumWindows p = if getInt p.kmap kNumWindows < 0 then none else some (windowsUpd p (getInt p.kmap kNumWindows).toNat) := by
  have h1 : (kNumWindows == kNumDims) = false := by decide
  have h2 : (kNumWindows == kNumFrames) = false := by decide
  have h3 : (kNumWindows == kNumTypes) = false := by decide
  simp [hdrCallback, windowsUpd, h1, h2, h3]

/-- any other keyword: the members of the three groups are not touched (`type of data` only registers keys) -/
theorem hdrCallback_other (kw : Str) (p p' : KP) (h1 : kw ≠ kNumDims) (h2 : kw ≠ kNumFrames) (h3 : kw ≠ kNumTypes) (h4 : kw ≠ kNumWindows)
    (h : hdrCallback kw p = some p') : p' = p ∨ p' = p.setKey kPetKeysRegistered (.bool true) := by
  have b1 : (kw == kNumDims) = false := by simpa using h1
  have b2 : (kw == kNumFrames) = false := by simpa using h2
  have b3 : (kw == kNumTypes) = false := by simpa using h3
  have b4 : (kw == kNumWindows) = false := by simpa using h4
  unfold hdrCallback at h
  simp only [b1, b2, b3, b4, Bool.false_eq_true, if_false] at h
  split at h
  · split at h
    · split at h
      · cases h
      · split at h
        · right; cases h; rfl
        · left; cases h; rfl
    · left; cases h; rfl
  · left; cases h; rfl

theorem getVar_dimsUpd_ne (p : KP) (n : Nat) (k : Str) (h1 : k ≠ kLabels) (h2 : k ≠ kMatrixSize) (h3 : k ≠ kPixelSizes)
    (h4 : k ≠ kFirstPixel) : getVar (dimsUpd p n).kmap k = getVar p.kmap k := by
  unfold dimsUpd
  rw [getVar_setKey_ne _ _ _ _ h4, getVar_resizeKey_ne _ _ _ _ _ h3, getVar_resizeKey_ne _ _ _ _ _ h2, getVar_resizeKey_ne _ _ _ _ _ h1]

theorem getVar_framesUpd_ne (p : KP) (nd t : Nat) (k : Str) (h1 : k ≠ kScaling) (h2 : k ≠ kOffsets) (h3 : k ≠ kStart)
    (h4 : k ≠ kDuration) : getVar (framesUpd p nd t).kmap k = getVar p.kmap k := by
  unfold framesUpd
  rw [getVar_resizeKey_ne _ _ _ _ _ h4, getVar_resizeKey_ne _ _ _ _ _ h3, getVar_resizeKey_ne _ _ _ _ _ h2, getVar_setKey_ne _ _ _ _ h1]

theorem getVar_typesUpd_ne (p : KP) (nd kk : Nat) (k : Str) (h1 : k ≠ kScaling) (h2 : k ≠ kOffsets) (h3 : k ≠ kDescr) :
    getVar (typesUpd p nd kk).kmap k = getVar p.kmap k := by
  unfold typesUpd
  rw [getVar_resizeKey_ne _ _ _ _ _ h3, getVar_resizeKey_ne _ _ _ _ _ h2, getVar_setKey_ne _ _ _ _ h1]

theorem getVar_windowsUpd_ne (p : KP) (n : Nat) (k : Str) (h1 : k ≠ kUpper) (h2 : k ≠ kLower) :
    getVar (windowsUpd p n).kmap k = getVar p.kmap k := by
  unfold windowsUpd
  rw [getVar_resizeKey_ne _ _ _ _ _ h2, getVar_resizeKey_ne _ _ _ _ _ h1]

theorem getInt_of (m : List Entry) (k : Str) (n : Int) (h : getVar m k = .int n) : getInt m k = n := by
  unfold getInt; rw [h]

/-- members outside the group of `number of dimensions` after its call-back -/
theorem dims_other (p p1 : KP) (n : Nat) (hne : ∀ k, k ≠ kNumDims → getVar p1.kmap k = getVar p.kmap k) (k : Str)
    (hk : k ≠ kNumDims ∧ k ≠ kLabels ∧ k ≠ kMatrixSize ∧ k ≠ kPixelSizes ∧ k ≠ kFirstPixel) :
    getVar (dimsUpd p1 n).kmap k = getVar p.kmap k := by
  rw [getVar_dimsUpd_ne _ _ _ hk.2.1 hk.2.2.1 hk.2.2.2.1 hk.2.2.2.2, hne _ hk.1]

theorem frames_other (p p1 : KP) (nd t : Nat) (hne : ∀ k, k ≠ kNumFrames → getVar p1.kmap k = getVar p.kmap k) (k : Str)
    (hk : k ≠ kNumFrames ∧ k ≠ kScaling ∧ k ≠ kOffsets ∧ k ≠ kStart ∧ k ≠ kDuration) :
    getVar (framesUpd p1 nd t).kmap k = getVar p.kmap k := by
  rw [getVar_framesUpd_ne _ _ _ _ hk.2.1 hk.2.2.1 hk.2.2.2.1 hk.2.2.2.2, hne _ hk.1]

theorem types_other (p p1 : KP) (nd kk : Nat) (hne : ∀ k, k ≠ kNumTypes → getVar p1.kmap k = getVar p.kmap k) (k : Str)
    (hk : k ≠ kNumTypes ∧ k ≠ kScaling ∧ k ≠ kOffsets ∧ k ≠ kDescr) :
    getVar (typesUpd p1 nd kk).kmap k = getVar p.kmap k := by
  rw [getVar_typesUpd_ne _ _ _ _ hk.2.1 hk.2.2.1 hk.2.2.2, hne _ hk.1]

theorem windows_other (p p1 : KP) (n : Nat) (hne : ∀ k, k ≠ kNumWindows → getVar p1.kmap k = getVar p.kmap k) (k : Str)
    (hk : k ≠ kNumWindows ∧ k ≠ kUpper ∧ k ≠ kLower) :
    getVar (windowsUpd p1 n).kmap k = getVar p.kmap k := by
  rw [getVar_windowsUpd_ne _ _ _ hk.2.1 hk.2.2, hne _ hk.1]

theorem resizeScaling_vInts (l : List (List Int)) (n : Nat) :
    resizeScaling (.vInts l) n = .vInts ((resizeList l n []).map fun x => resizeList x 1 1) := rfl

/-- the call-back of `number of dimensions` -/
theorem dims_step (p p1 p' : KP) (hi : HdrInv p.kmap) (hsh : ∀ k, sameShape (getVar p.kmap k) (getVar p1.kmap k))
    (hne : ∀ k, k ≠ kNumDims → getVar p1.kmap k = getVar p.kmap k) (h : hdrCallback kNumDims p1 = some p') : HdrInv p'.kmap := by
  obtain ⟨⟨d, ms, lb, ps, fp, e1, e2, e3, e4, e5, l2, l3, l4, l5⟩, hf, hw⟩ := hi
  have s1 := hsh kNumDims; rw [e1] at s1
  obtain ⟨n, en⟩ := shape_int _ _ s1
  rw [hdrCallback_dims, getInt_of _ _ _ en] at h
  by_cases hn : n < 0
  · simp [hn] at h
  · simp only [hn, if_false, Option.some.injEq] at h
    subst h
    have hnn : ((n.toNat : Nat) : Int) = n := Int.toNat_of_nonneg (by omega)
    have f2 : getVar p1.kmap kMatrixSize = .vInts ms := by rw [hne _ (by decide), e2]
    have f3 : getVar p1.kmap kLabels = .vAscii lb := by rw [hne _ (by decide), e3]
    have f4 : getVar p1.kmap kPixelSizes = .vInt ps := by rw [hne _ (by decide), e4]
    have f5 : getVar p1.kmap kFirstPixel = .vInt fp := by rw [hne _ (by decide), e5]
    refine ⟨⟨n.toNat, resizeList ms n.toNat [], resizeList lb n.toNat [], resizeList ps n.toNat 1, List.replicate n.toNat notSet,
      ?_, ?_, ?_, ?_, ?_, length_resizeList _ _ _, length_resizeList _ _ _, length_resizeList _ _ _, Or.inl (by simp)⟩, ?_, ?_⟩
    · rw [getVar_dimsUpd_ne _ _ _ (by decide) (by decide) (by decide) (by decide), en, hnn]
    · unfold dimsUpd
      rw [getVar_setKey_ne _ _ _ _ (by decide), getVar_resizeKey_ne _ _ _ _ _ (by decide),
        getVar_resizeKey_eq _ _ _ _ (by rw [getVar_resizeKey_ne _ _ _ _ _ (by decide), f2]; simp),
        getVar_resizeKey_ne _ _ _ _ _ (by decide), f2]
      rfl
    · unfold dimsUpd
      rw [getVar_setKey_ne _ _ _ _ (by decide), getVar_resizeKey_ne _ _ _ _ _ (by decide), getVar_resizeKey_ne _ _ _ _ _ (by decide),
        getVar_resizeKey_eq _ _ _ _ (by rw [f3]; simp), f3]
      rfl
    · unfold dimsUpd
      rw [getVar_setKey_ne _ _ _ _ (by decide),
        getVar_resizeKey_eq _ _ _ _ (by rw [getVar_resizeKey_ne _ _ _ _ _ (by decide), getVar_resizeKey_ne _ _ _ _ _ (by decide), f4]; simp),
        getVar_resizeKey_ne _ _ _ _ _ (by decide), getVar_resizeKey_ne _ _ _ _ _ (by decide), f4]
      rfl
    · unfold dimsUpd
      rw [getVar_setKey_eq _ _ _ (by
        rw [getVar_resizeKey_ne _ _ _ _ _ (by decide), getVar_resizeKey_ne _ _ _ _ _ (by decide), getVar_resizeKey_ne _ _ _ _ _ (by decide), f5]
        simp)]
    · refine FramesInv_shape p.kmap _ hf (dims_other p p1 _ hne _ (by decide)) (dims_other p p1 _ hne _ (by decide)) ?_
      intro k hk
      rcases hk with rfl | rfl | rfl | rfl | rfl <;> rw [dims_other p p1 _ hne _ (by decide)] <;> exact sameShape_refl _
    · refine WindowsInv_shape p.kmap _ hw (dims_other p p1 _ hne _ (by decide)) ?_
      intro k hk
      rcases hk with rfl | rfl <;> rw [dims_other p p1 _ hne _ (by decide)] <;> exact sameShape_refl _

theorem toNat_mul_cast (a k : Nat) : ((a : Int) * (k : Int)).toNat = a * k := by
  rw [← Int.natCast_mul]; exact Int.toNat_natCast _

/-- the call-back of `number of time frames` -/
theorem frames_step (p p1 p' : KP) (hi : HdrInv p.kmap) (hsh : ∀ k, sameShape (getVar p.kmap k) (getVar p1.kmap k))
    (hne : ∀ k, k ≠ kNumFrames → getVar p1.kmap k = getVar p.kmap k) (h : hdrCallback kNumFrames p1 = some p') : HdrInv p'.kmap := by
  obtain ⟨hd, ⟨t, k, isf, off, st, du, ds, e1, e2, e3, e4, e5, e6, e7, l3, l4, l7, l56⟩, hw⟩ := hi
  have s1 := hsh kNumFrames; rw [e1] at s1
  obtain ⟨n, en⟩ := shape_int _ _ s1
  have f2 : getVar p1.kmap kNumTypes = .int k := by rw [hne _ (by decide), e2]
  rw [hdrCallback_frames, getInt_of _ _ _ en, getInt_of _ _ _ f2] at h
  by_cases hn : n < 0
  · simp [hn] at h
  · obtain ⟨a, rfl⟩ : ∃ a : Nat, n = a := ⟨n.toNat, (Int.toNat_of_nonneg (by omega)).symm⟩
    have hprod : ¬ ((a : Int) * (k : Int) < 0) := by
      have := Int.mul_nonneg (Int.natCast_nonneg a) (Int.natCast_nonneg k)
      omega
    simp only [hn, hprod, Bool.or_self, decide_false, Bool.false_eq_true, if_false, Option.some.injEq, toNat_mul_cast, Int.toNat_natCast] at h
    subst h
    have f3 : getVar p1.kmap kScaling = .vInts isf := by rw [hne _ (by decide), e3]
    have f4 : getVar p1.kmap kOffsets = .vInt off := by rw [hne _ (by decide), e4]
    have f5 : getVar p1.kmap kStart = .vInt st := by rw [hne _ (by decide), e5]
    have f6 : getVar p1.kmap kDuration = .vInt du := by rw [hne _ (by decide), e6]
    have f7 : getVar p1.kmap kDescr = .vAscii ds := by rw [hne _ (by decide), e7]
    refine ⟨?_, ⟨a, k, (resizeList isf (a * k) []).map (fun x => resizeList x 1 1), resizeList off (a * k) 0, resizeList st a 0,
      resizeList du a 0, ds, ?_, ?_, ?_, ?_, ?_, ?_, ?_, by simp [length_resizeList], length_resizeList _ _ _, l7,
      Or.inl ⟨length_resizeList _ _ _, length_resizeList _ _ _⟩⟩, ?_⟩
    · refine DimsInv_shape p.kmap _ hd (frames_other p p1 _ _ hne _ (by decide)) ?_
      intro k hk
      rcases hk with rfl | rfl | rfl | rfl <;> rw [frames_other p p1 _ _ hne _ (by decide)] <;> exact sameShape_refl _
    · rw [getVar_framesUpd_ne _ _ _ _ (by decide) (by decide) (by decide) (by decide), en]
    · rw [getVar_framesUpd_ne _ _ _ _ (by decide) (by decide) (by decide) (by decide), f2]
    · unfold framesUpd
      rw [getVar_resizeKey_ne _ _ _ _ _ (by decide), getVar_resizeKey_ne _ _ _ _ _ (by decide), getVar_resizeKey_ne _ _ _ _ _ (by decide),
        getVar_setKey_eq _ _ _ (by rw [f3]; simp), f3]
      rfl
    · unfold framesUpd
      rw [getVar_resizeKey_ne _ _ _ _ _ (by decide), getVar_resizeKey_ne _ _ _ _ _ (by decide),
        getVar_resizeKey_eq _ _ _ _ (by rw [getVar_setKey_ne _ _ _ _ (by decide), f4]; simp), getVar_setKey_ne _ _ _ _ (by decide), f4]
      rfl
    · unfold framesUpd
      rw [getVar_resizeKey_ne _ _ _ _ _ (by decide),
        getVar_resizeKey_eq _ _ _ _ (by rw [getVar_resizeKey_ne _ _ _ _ _ (by decide), getVar_setKey_ne _ _ _ _ (by decide), f5]; simp),
        getVar_resizeKey_ne _ _ _ _ _ (by decide), getVar_setKey_ne _ _ _ _ (by decide), f5]
      rfl
    · unfold framesUpd
      rw [getVar_resizeKey_eq _ _ _ _ (by
          rw [getVar_resizeKey_ne _ _ _ _ _ (by decide), getVar_resizeKey_ne _ _ _ _ _ (by decide), getVar_setKey_ne _ _ _ _ (by decide), f6]
          simp),
        getVar_resizeKey_ne _ _ _ _ _ (by decide), getVar_resizeKey_ne _ _ _ _ _ (by decide), getVar_setKey_ne _ _ _ _ (by decide), f6]
      rfl
    · rw [getVar_framesUpd_ne _ _ _ _ (by decide) (by decide) (by decide) (by decide), f7]
    · refine WindowsInv_shape p.kmap _ hw (frames_other p p1 _ _ hne _ (by decide)) ?_
      intro k hk
      rcases hk with rfl | rfl <;> rw [frames_other p p1 _ _ hne _ (by decide)] <;> exact sameShape_refl _

/-- the call-back of `number of image data types` -/
theorem types_step (p p1 p' : KP) (hi : HdrInv p.kmap) (hsh : ∀ k, sameShape (getVar p.kmap k) (getVar p1.kmap k))
    (hne : ∀ k, k ≠ kNumTypes → getVar p1.kmap k = getVar p.kmap k) (h : hdrCallback kNumTypes p1 = some p') : HdrInv p'.kmap := by
  obtain ⟨hd, ⟨t, k, isf, off, st, du, ds, e1, e2, e3, e4, e5, e6, e7, l3, l4, l7, l56⟩, hw⟩ := hi
  have s2 := hsh kNumTypes; rw [e2] at s2
  obtain ⟨n, en⟩ := shape_int _ _ s2
  have f1 : getVar p1.kmap kNumFrames = .int t := by rw [hne _ (by decide), e1]
  rw [hdrCallback_types, getInt_of _ _ _ en, getInt_of _ _ _ f1] at h
  by_cases hn : n < 0
  · simp [hn] at h
  · obtain ⟨a, rfl⟩ : ∃ a : Nat, n = a := ⟨n.toNat, (Int.toNat_of_nonneg (by omega)).symm⟩
    have hprod : ¬ ((t : Int) * (a : Int) < 0) := by
      have := Int.mul_nonneg (Int.natCast_nonneg t) (Int.natCast_nonneg a)
      omega
    simp only [hn, hprod, Bool.or_self, decide_false, Bool.false_eq_true, if_false, Option.some.injEq, toNat_mul_cast, Int.toNat_natCast] at h
    subst h
    have f3 : getVar p1.kmap kScaling = .vInts isf := by rw [hne _ (by decide), e3]
    have f4 : getVar p1.kmap kOffsets = .vInt off := by rw [hne _ (by decide), e4]
    have f5 : getVar p1.kmap kStart = .vInt st := by rw [hne _ (by decide), e5]
    have f6 : getVar p1.kmap kDuration = .vInt du := by rw [hne _ (by decide), e6]
    have f7 : getVar p1.kmap kDescr = .vAscii ds := by rw [hne _ (by decide), e7]
    refine ⟨?_, ⟨t, a, (resizeList isf (t * a) []).map (fun x => resizeList x 1 1), resizeList off (t * a) 0, st, du,
      resizeList ds a [], ?_, ?_, ?_, ?_, ?_, ?_, ?_, by simp [length_resizeList], length_resizeList _ _ _, length_resizeList _ _ _, l56⟩, ?_⟩
    · refine DimsInv_shape p.kmap _ hd (types_other p p1 _ _ hne _ (by decide)) ?_
      intro k hk
      rcases hk with rfl | rfl | rfl | rfl <;> rw [types_other p p1 _ _ hne _ (by decide)] <;> exact sameShape_refl _
    · rw [getVar_typesUpd_ne _ _ _ _ (by decide) (by decide) (by decide), f1]
    · rw [getVar_typesUpd_ne _ _ _ _ (by decide) (by decide) (by decide), en]
    · unfold typesUpd
      rw [getVar_resizeKey_ne _ _ _ _ _ (by decide), getVar_resizeKey_ne _ _ _ _ _ (by decide),
        getVar_setKey_eq _ _ _ (by rw [f3]; simp), f3]
      rfl
    · unfold typesUpd
      rw [getVar_resizeKey_ne _ _ _ _ _ (by decide),
        getVar_resizeKey_eq _ _ _ _ (by rw [getVar_setKey_ne _ _ _ _ (by decide), f4]; simp), getVar_setKey_ne _ _ _ _ (by decide), f4]
      rfl
    · rw [getVar_typesUpd_ne _ _ _ _ (by decide) (by decide) (by decide), f5]
    · rw [getVar_typesUpd_ne _ _ _ _ (by decide) (by decide) (by decide), f6]
    · unfold typesUpd
      rw [getVar_resizeKey_eq _ _ _ _ (by
          rw [getVar_resizeKey_ne _ _ _ _ _ (by decide), getVar_setKey_ne _ _ _ _ (by decide), f7]
          simp),
        getVar_resizeKey_ne _ _ _ _ _ (by decide), getVar_setKey_ne _ _ _ _ (by decide), f7]
      rfl
    · refine WindowsInv_shape p.kmap _ hw (types_other p p1 _ _ hne _ (by decide)) ?_
      intro k hk
      rcases hk with rfl | rfl <;> rw [types_other p p1 _ _ hne _ (by decide)] <;> exact sameShape_refl _

/-- the call-back of `number of energy windows` -/
theorem windows_step (p p1 p' : KP) (hi : HdrInv p.kmap) (hsh : ∀ k, sameShape (getVar p.kmap k) (getVar p1.kmap k))
    (hne : ∀ k, k ≠ kNumWindows → getVar p1.kmap k = getVar p.kmap k) (h : hdrCallback kNumWindows p1 = some p') : HdrInv p'.kmap := by
  obtain ⟨hd, hf, ⟨w, lo, up, e1, e2, e3, l2, l3⟩⟩ := hi
  have s1 := hsh kNumWindows; rw [e1] at s1
  obtain ⟨n, en⟩ := shape_int _ _ s1
  rw [hdrCallback_windows, getInt_of _ _ _ en] at h
  by_cases hn : n < 0
  · simp [hn] at h
  · simp only [hn, if_false, Option.some.injEq] at h
    subst h
    have hnn : ((n.toNat : Nat) : Int) = n := Int.toNat_of_nonneg (by omega)
    have f2 : getVar p1.kmap kLower = .vInt lo := by rw [hne _ (by decide), e2]
    have f3 : getVar p1.kmap kUpper = .vInt up := by rw [hne _ (by decide), e3]
    refine ⟨?_, ?_, ⟨n.toNat, resizeList lo n.toNat (-1), resizeList up n.toNat (-1), ?_, ?_, ?_, length_resizeList _ _ _, length_resizeList _ _ _⟩⟩
    · refine DimsInv_shape p.kmap _ hd (windows_other p p1 _ hne _ (by decide)) ?_
      intro k hk
      rcases hk with rfl | rfl | rfl | rfl <;> rw [windows_other p p1 _ hne _ (by decide)] <;> exact sameShape_refl _
    · refine FramesInv_shape p.kmap _ hf (windows_other p p1 _ hne _ (by decide)) (windows_other p p1 _ hne _ (by decide)) ?_
      intro k hk
      rcases hk with rfl | rfl | rfl | rfl | rfl <;> rw [windows_other p p1 _ hne _ (by decide)] <;> exact sameShape_refl _
    · rw [getVar_windowsUpd_ne _ _ _ (by decide) (by decide), en, hnn]
    · unfold windowsUpd
      rw [getVar_resizeKey_eq _ _ _ _ (by rw [getVar_resizeKey_ne _ _ _ _ _ (by decide), f2]; simp), getVar_resizeKey_ne _ _ _ _ _ (by decide), f2]
      rfl
    · unfold windowsUpd
      rw [getVar_resizeKey_ne _ _ _ _ _ (by decide), getVar_resizeKey_eq _ _ _ _ (by rw [f3]; simp), f3]
      rfl

/-- a line whose keyword is not a count key: shapes and counts are kept -/
theorem other_step (p p1 p' : KP) (kw : Str) (hi : HdrInv p.kmap) (hsh : ∀ k, sameShape (getVar p.kmap k) (getVar p1.kmap k))
    (hne : ∀ k, k ≠ kw → getVar p1.kmap k = getVar p.kmap k)
    (h1 : kw ≠ kNumDims) (h2 : kw ≠ kNumFrames) (h3 : kw ≠ kNumTypes) (h4 : kw ≠ kNumWindows)
    (h : hdrCallback kw p1 = some p') : HdrInv p'.kmap := by
  -- the call-back sets at most the key-registration flag
  have hv : ∀ k, k ≠ kPetKeysRegistered → getVar p'.kmap k = getVar p1.kmap k := by
    intro k hk
    rcases hdrCallback_other kw p1 p' h1 h2 h3 h4 h with e | e
    · rw [e]
    · rw [e, getVar_setKey_ne _ _ _ _ hk]
  obtain ⟨hd, hf, hw⟩ := hi
  refine ⟨?_, ?_, ?_⟩
  · refine DimsInv_shape p.kmap _ hd (by rw [hv _ (by decide), hne _ (Ne.symm h1)]) ?_
    intro k hk
    have : k ≠ kPetKeysRegistered := by rcases hk with rfl | rfl | rfl | rfl <;> decide
    rw [hv _ this]; exact hsh k
  · refine FramesInv_shape p.kmap _ hf (by rw [hv _ (by decide), hne _ (Ne.symm h2)]) (by rw [hv _ (by decide), hne _ (Ne.symm h3)]) ?_
    intro k hk
    have : k ≠ kPetKeysRegistered := by rcases hk with rfl | rfl | rfl | rfl | rfl <;> decide
    rw [hv _ this]; exact hsh k
  · refine WindowsInv_shape p.kmap _ hw (by rw [hv _ (by decide), hne _ (Ne.symm h4)]) ?_
    intro k hk
    have : k ≠ kPetKeysRegistered := by rcases hk with rfl | rfl <;> decide
    rw [hv _ this]; exact hsh k

/-- **every line of every text keeps every table at the length its count key gives** -/
theorem hdrLine_inv (p : KP) (line : Str) (p' : KP) (hi : HdrInv p.kmap) (h : hdrLine p line = some p') : HdrInv p'.kmap := by
  unfold hdrLine at h
  simp only at h
  split at h
  · cases h; exact hi
  · cases hpl : p.parseLine line with
    | none => rw [hpl] at h; cases h
    | some p1 =>
      rw [hpl] at h
      simp only at h
      obtain ⟨hsh, hne⟩ := parseLine_vars p line p1 hpl
      by_cases c1 : p.keywordOf line = kNumDims
      · rw [c1] at h hne; exact dims_step p p1 p' hi hsh hne h
      · by_cases c2 : p.keywordOf line = kNumFrames
        · rw [c2] at h hne; exact frames_step p p1 p' hi hsh hne h
        · by_cases c3 : p.keywordOf line = kNumTypes
          · rw [c3] at h hne; exact types_step p p1 p' hi hsh hne h
          · by_cases c4 : p.keywordOf line = kNumWindows
            · rw [c4] at h hne; exact windows_step p p1 p' hi hsh hne h
            · exact other_step p p1 p' _ hi hsh hne c1 c2 c3 c4 h

/-- the members of a freshly constructed image header, spelled out -/
def imageKmap0 : List Entry :=
  [⟨"interfile".toList, .start, .none⟩, ⟨kImagingModality, .set, .ascii []⟩, ⟨kVersionOfKeys, .set, .ascii []⟩,
   ⟨"end of interfile".toList, .stop, .none⟩, ⟨kDataFile, .set, .ascii []⟩, ⟨"general data".toList, .ignore, .none⟩,
   ⟨"general image data".toList, .ignore, .none⟩,
   ⟨kTypeOfData, .set, .choice ["Static".toList, "Dynamic".toList, "Tomographic".toList, "Curve".toList, "ROI".toList,
                                "PET".toList, "Other".toList] 6⟩,
   ⟨kByteOrder, .set, .choice ["LITTLEENDIAN".toList, "BIGENDIAN".toList] 1⟩,
   ⟨kNumberFormat, .set, .choice ["bit".toList, "ascii".toList, "signed integer".toList, "unsigned integer".toList, "float".toList] 3⟩,
   ⟨kBytesPerPixel, .set, .int (-1)⟩, ⟨kNumDims, .set, .int 2⟩, ⟨kMatrixSize, .set, .vInts [[], []]⟩, ⟨kLabels, .set, .vAscii [[], []]⟩,
   ⟨kPixelSizes, .set, .vInt [1, 1]⟩, ⟨kNumFrames, .set, .int 1⟩, ⟨kStart, .set, .vInt []⟩, ⟨kDuration, .set, .vInt []⟩,
   ⟨kScaling, .set, .vInts [[1]]⟩, ⟨kNumWindows, .set, .int 1⟩, ⟨kLower, .set, .vInt [-1]⟩, ⟨kUpper, .set, .vInt [-1]⟩,
   ⟨kFirstPixel, .set, .vInt []⟩, ⟨kNumTypes, .set, .int 1⟩, ⟨kNesting, .set, .strs [[]]⟩, ⟨kDescr, .set, .vAscii [[]]⟩,
   ⟨kPetType, .set, .choice ["Emission".toList, "Transmission".toList, "Blank".toList, "AttenuationCorrection".toList,
                             "Normalisation".toList, "Image".toList] 5⟩,
   ⟨kOffsets, .set, .vInt [0]⟩, ⟨kPetKeysRegistered, .ignore, .bool false⟩]

set_option maxRecDepth 100000 in
theorem imageHeader0_kmap : imageHeader0.kmap = imageKmap0 := by decide

theorem hdrInv_init : HdrInv imageHeader0.kmap := by
  rw [imageHeader0_kmap]
  refine ⟨⟨2, [[], []], [[], []], [1, 1], [], ?_, ?_, ?_, ?_, ?_, rfl, rfl, rfl, Or.inr ⟨rfl, rfl⟩⟩,
    ⟨1, 1, [[1]], [0], [], [], [[]], ?_, ?_, ?_, ?_, ?_, ?_, ?_, rfl, rfl, rfl, Or.inr ⟨rfl, rfl, rfl⟩⟩,
    ⟨1, [-1], [-1], ?_, ?_, ?_, rfl, rfl⟩⟩ <;> decide

/-- the members after `parse_header` of ANY text satisfy the invariant -/
theorem hdrInv_parse (text : Str) : HdrInv (imageHeader0.parseWith hdrLine text).kp.kmap :=
  parseWith_inv HdrInv hdrLine hdrLine_inv imageHeader0 text hdrInv_init

/-! ### `post_processing` -/

theorem scalingLoop_spec (nz : Int) : ∀ (n : Nat) (l : List (List Int)),
    n ≤ l.length →
      scalingLoop nz n l = some none ∨
        ∃ r, scalingLoop nz n l = some (some r) ∧ r.length = l.length ∧ ∀ x ∈ r.take n, x.length = nz.toNat := by
  intro n
  induction n with
  | zero => intro l _; right; exact ⟨l, rfl, rfl, by simp⟩
  | succ n ih =>
    intro l hl
    cases l with
    | nil => simp at hl
    | cons x rest =>
      have hl' : n ≤ rest.length := by simpa using hl
      rw [scalingLoop]
      by_cases h1 : (x.length == 1) = true
      · simp only [h1, if_true]
        rcases ih rest hl' with e | ⟨r, e, el, ex⟩
        · left; rw [e]
        · right
          rw [e]
          refine ⟨List.replicate nz.toNat (x.headD 0) :: r, rfl, by simp [el], ?_⟩
          intro y hy
          simp only [List.take_succ_cons, List.mem_cons] at hy
          rcases hy with rfl | hy
          · simp
          · exact ex y hy
      · simp only [h1, Bool.false_eq_true, if_false]
        by_cases h2 : (x.length : Int) ≠ nz
        · left; simp [h2]
        · have h2' : (x.length : Int) = nz := by simpa using h2
          simp only [h2, if_false]
          rcases ih rest hl' with e | ⟨r, e, el, ex⟩
          · left; rw [e]
          · right
            rw [e]
            refine ⟨x :: r, rfl, by simp [el], ?_⟩
            intro y hy
            simp only [List.take_succ_cons, List.mem_cons] at hy
            rcases hy with rfl | hy
            · omega
            · exact ex y hy

/-- number of planes: first element of the last `matrix size` list -/
def planes (ms : List (List Int)) : Int := (ms.getLast?.getD []).headD 0

/-- what `post_processing` of the image header can answer for members that satisfy the invariant: it rejects, throws,
    indexes `PET_data_type_values` with an index outside the list, or accepts with one scaling factor per plane for every
    data set -/
theorem imagePost_cases (q : KP) (hq : HdrInv q.kmap) :
    imagePost q = .rejected ∨ imagePost q = .error ∨
      (imagePost q = .oob ∧ ∃ vals i, getVar q.kmap kPetType = .choice vals i ∧ (i < 0 ∨ (vals.length : Int) ≤ i)) ∨
      ∃ ms isf isf', getVar q.kmap kMatrixSize = .vInts ms ∧ getVar q.kmap kScaling = .vInts isf ∧ isf'.length = isf.length ∧
        (∀ x ∈ isf', x.length = (planes ms).toNat) ∧ imagePost q = .ok (q.setKey kScaling (.vInts isf')) := by
  obtain ⟨⟨d, ms, lb, ps, fp, d1, d2, d3, d4, d5, dl2, dl3, dl4, dl5⟩,
    ⟨t, k, isf, off, st, du, ds, f1, f2, f3, f4, f5, f6, f7, fl3, fl4, fl7, fl56⟩, ⟨w, lo, up, w1, w2, w3, wl2, wl3⟩⟩ := hq
  unfold imagePost
  simp only [d2, d3, f3]
  split
  · next vals tIdx fvals fIdx ms' isf0 pvals pIdx labels e1 e2 e3 e4 e5 e6 =>
    cases e3; cases e4; cases e6
    by_cases c1 : tIdx < 0
    · left; rw [if_pos c1]
    rw [if_neg c1]
    by_cases c2 : (fIdx < 0 || (fvals.length : Int) ≤ fIdx) = true
    · left; rw [if_pos c2]
    rw [if_neg c2]
    by_cases c3 : (fIdx != 0 && decide (getInt q.kmap kBytesPerPixel ≤ 0)) = true
    · left; rw [if_pos c3]
    rw [if_neg c3]
    by_cases c4 : ms.isEmpty = true
    · left; rw [if_pos c4]
    rw [if_neg c4]
    by_cases c5 : (ms.any fun l => l.isEmpty || l.any fun x => decide (x ≤ 0)) = true
    · left; rw [if_pos c5]
    rw [if_neg c5]
    rw [getInt_of _ _ _ f1, getInt_of _ _ _ f2]
    by_cases c6 : (t : Int) * (k : Int) < 1
    · left; rw [if_pos c6]
    rw [if_neg c6]
    have hlen : ((t : Int) * (k : Int)).toNat ≤ isf.length := by rw [toNat_mul_cast]; omega
    rcases scalingLoop_spec (planes ms) _ isf hlen with e | ⟨r, e, el, ex⟩
    · left; unfold planes at e; simp only [e]
    · unfold planes at e
      simp only [e]
      have hall : ∀ x ∈ r, x.length = (planes ms).toNat := by
        intro x hx
        apply ex
        rw [List.take_of_length_le (by rw [el, toNat_mul_cast]; omega)]
        exact hx
      -- energy windows
      rw [getInt_of _ _ _ w1]
      simp only [w2, w3, f5, f6]
      by_cases c7 : ((w : Int) > 0 && (up.isEmpty || lo.isEmpty)) = true
      · exfalso
        simp at c7
        obtain ⟨hw0, hor⟩ := c7
        rcases hor with h' | h'
        · rw [h'] at wl3; simp at wl3; omega
        · rw [h'] at wl2; simp at wl2; omega
      rw [if_neg c7]
      by_cases c8 : st.length ≠ du.length
      · right; left; rw [if_pos c8]
      rw [if_neg c8]
      by_cases c9 : (pIdx < 0 || (pvals.length : Int) ≤ pIdx) = true
      · right; right; left
        refine ⟨by rw [if_pos c9], pvals, pIdx, e5, ?_⟩
        simpa using c9
      rw [if_neg c9]
      by_cases c10 : (pvals.getD pIdx.toNat [] != "Image".toList) = true
      · left; rw [if_pos c10]
      rw [if_neg c10]
      rw [getInt_of _ _ _ d1]
      by_cases c11 : ((d : Int) != 3) = true
      · left; rw [if_pos c11]
      rw [if_neg c11]
      have hd3 : d = 3 := by
        have : (d : Int) = 3 := by simpa using c11
        omega
      by_cases c12 : (decide (ms.length < 3) || decide (lb.length < 3)) = true
      · exfalso
        simp at c12
        omega
      rw [if_neg c12]
      by_cases c13 : ((ms.take 3).any fun l => l.length != 1) = true
      · left; rw [if_pos c13]
      rw [if_neg c13]
      by_cases c14 : (!(lb.headD []).isEmpty && (lb.take 3 != ["x".toList, "y".toList, "z".toList])) = true
      · left; rw [if_pos c14]
      rw [if_neg c14]
      right; right; right
      exact ⟨ms, isf, r, rfl, rfl, el, hall, rfl⟩
  · left; rfl

/-! ### the theorems about whole header texts -/

theorem hdrInv_setScaling (q : KP) (hq : HdrInv q.kmap) (isf isf' : List (List Int)) (h3 : getVar q.kmap kScaling = .vInts isf)
    (hl : isf'.length = isf.length) : HdrInv (q.setKey kScaling (.vInts isf')).kmap := by
  obtain ⟨hd, hf, hw⟩ := hq
  have hother : ∀ k, k ≠ kScaling → getVar (q.setKey kScaling (.vInts isf')).kmap k = getVar q.kmap k :=
    fun k hk => getVar_setKey_ne _ _ _ _ hk
  refine ⟨?_, ?_, ?_⟩
  · refine DimsInv_shape q.kmap _ hd (hother _ (by decide)) ?_
    intro k hk
    rcases hk with rfl | rfl | rfl | rfl <;> rw [hother _ (by decide)] <;> exact sameShape_refl _
  · refine FramesInv_shape q.kmap _ hf (hother _ (by decide)) (hother _ (by decide)) ?_
    intro k hk
    rcases hk with rfl | rfl | rfl | rfl | rfl
    · rw [getVar_setKey_eq _ _ _ (by rw [h3]; simp), h3]
      simp [sameShape, hl]
    all_goals (rw [hother _ (by decide)]; exact sameShape_refl _)
  · refine WindowsInv_shape q.kmap _ hw (hother _ (by decide)) ?_
    intro k hk
    rcases hk with rfl | rfl <;> rw [hother _ (by decide)] <;> exact sameShape_refl _

/-- `InterfileImageHeader::parse` returns for every text -/
theorem imageHeader_total (text : Str) : parseImageHeader text ≠ .diverges := by
  unfold parseImageHeader hdrParse
  simp only
  have ht := parseWith_total hdrLine imageHeader0 text
  split
  · next e => exact absurd e ht
  · simp
  · simp
  · rcases imagePost_cases _ (hdrInv_parse text) with e | e | ⟨e, _⟩ | ⟨_, _, _, _, _, _, _, e⟩ <;> rw [e] <;> simp

/-- **an accepted image header has every table at the announced length**, whatever the order of its keys -/
theorem imageHeader_tables (text : Str) (p : KP) (h : parseImageHeader text = .ok p) :
    HdrInv p.kmap ∧
      ∃ ms isf, getVar p.kmap kMatrixSize = .vInts ms ∧ getVar p.kmap kScaling = .vInts isf ∧ ∀ x ∈ isf, x.length = (planes ms).toNat := by
  unfold parseImageHeader hdrParse at h
  simp only at h
  have hq := hdrInv_parse text
  split at h
  · cases h
  · cases h
  · cases h
  · rcases imagePost_cases _ hq with e | e | ⟨e, _⟩ | ⟨ms, isf, isf', e2, e3, el, hall, e⟩
    · rw [e] at h; cases h
    · rw [e] at h; cases h
    · rw [e] at h; cases h
    · rw [e] at h
      cases h
      refine ⟨hdrInv_setScaling _ hq isf isf' e3 el, ms, isf', ?_, ?_, hall⟩
      · rw [getVar_setKey_ne _ _ _ _ (by decide), e2]
      · rw [getVar_setKey_eq _ _ _ (by rw [e3]; simp)]

/-- `post_processing` of the image header indexes beyond the end of a table in ONE situation only: `PET_data_type_values` with
    an index that is not in the list (left at -1 by `PET data type := <unsupported value>`) -/
theorem imageHeader_oob (text : Str) (h : parseImageHeader text = .oob) :
    ∃ vals i, getVar (imageHeader0.parseWith hdrLine text).kp.kmap kPetType = .choice vals i ∧ (i < 0 ∨ (vals.length : Int) ≤ i) := by
  unfold parseImageHeader hdrParse at h
  simp only at h
  split at h
  · cases h
  · cases h
  · cases h
  · rcases imagePost_cases _ (hdrInv_parse text) with e | e | ⟨_, hv⟩ | ⟨_, _, _, _, _, _, _, e⟩
    · rw [e] at h; cases h
    · rw [e] at h; cases h
    · exact hv
    · rw [e] at h; cases h

/-! ### `MultipleDataSetHeader` -/

def MultiInv (m : List Entry) : Prop :=
  ∃ (n : Nat) (fs : List Str), getVar m kTotalSets = .int n ∧ getVar m kDataSet = .vAscii fs ∧ fs.length = n

theorem multiLine_inv (p : KP) (line : Str) (p' : KP) (hi : MultiInv p.kmap) (h : multiLine p line = some p') : MultiInv p'.kmap := by
  unfold multiLine at h
  cases hpl : p.parseLine line with
  | none => rw [hpl] at h; cases h
  | some p1 =>
    rw [hpl] at h
    simp only at h
    obtain ⟨hsh, hne⟩ := parseLine_vars p line p1 hpl
    obtain ⟨n, fs, e1, e2, l2⟩ := hi
    unfold multiCallback at h
    by_cases c : p.keywordOf line = kTotalSets
    · rw [c] at h hne
      simp only [beq_self_eq_true, if_true] at h
      have s1 := hsh kTotalSets; rw [e1] at s1
      obtain ⟨n', en⟩ := shape_int _ _ s1
      rw [getInt_of _ _ _ en] at h
      by_cases hn : n' < 0
      · simp [hn] at h
      · simp only [hn, if_false, Option.some.injEq] at h
        subst h
        have f2 : getVar p1.kmap kDataSet = .vAscii fs := by rw [hne _ (by decide), e2]
        refine ⟨n'.toNat, resizeList fs n'.toNat [], ?_, ?_, length_resizeList _ _ _⟩
        · rw [getVar_resizeKey_ne _ _ _ _ _ (by decide), en, Int.toNat_of_nonneg (by omega)]
        · rw [getVar_resizeKey_eq _ _ _ _ (by rw [f2]; simp), f2]; rfl
    · have cb : (p.keywordOf line == kTotalSets) = false := by simpa using c
      simp only [cb, Bool.false_eq_true, if_false, Option.some.injEq] at h
      subst h
      have s2 := hsh kDataSet; rw [e2] at s2
      obtain ⟨fs', ef, lf⟩ := shape_vAscii _ _ s2
      exact ⟨n, fs', by rw [hne _ (Ne.symm c), e1], ef, by omega⟩

set_option maxRecDepth 100000 in
theorem multiInv_init : MultiInv multiHeader0.kmap := ⟨0, [], by decide, by decide, rfl⟩

theorem multiHeader_total (text : Str) : parseMultiHeader text ≠ .diverges := by
  unfold parseMultiHeader hdrParse
  simp only
  have ht := parseWith_total multiLine multiHeader0 text
  split
  · next e => exact absurd e ht
  · simp
  · simp
  · unfold multiPost
    split
    · simp only
      split
      · simp
      · split <;> simp
    · simp

/-- **an accepted multiple-data-set header has as many file names as it announces, none of them empty, and its
    `post_processing` never looks beyond the table** -/
theorem multiHeader_tables (text : Str) :
    parseMultiHeader text ≠ .oob ∧
      ∀ p, parseMultiHeader text = .ok p →
        ∃ (n : Nat) (fs : List Str), getVar p.kmap kTotalSets = .int n ∧ getVar p.kmap kDataSet = .vAscii fs ∧ fs.length = n ∧
          ∀ f ∈ fs, f ≠ [] := by
  have hq := parseWith_inv MultiInv multiLine multiLine_inv multiHeader0 text multiInv_init
  obtain ⟨n, fs, e1, e2, l2⟩ := hq
  unfold parseMultiHeader hdrParse
  simp only
  split
  · exact ⟨by simp, fun p h => by cases h⟩
  · exact ⟨by simp, fun p h => by cases h⟩
  · exact ⟨by simp, fun p h => by cases h⟩
  · unfold multiPost
    simp only [e2, getInt_of _ _ _ e1, Int.toNat_natCast]
    have hlt : ¬ fs.length < n := by omega
    rw [if_neg hlt]
    split
    · exact ⟨by simp, fun p h => by cases h⟩
    · next hany =>
      refine ⟨by simp, fun p h => ?_⟩
      cases h
      refine ⟨n, fs, e1, e2, l2, ?_⟩
      intro f hf hfe
      apply hany
      rw [List.take_of_length_le (by omega)]
      simp only [List.any_eq_true]
      exact ⟨f, hf, by simp [hfe]⟩

end StirVerif.C17
