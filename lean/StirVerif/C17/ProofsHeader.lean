/-
C17 — Interfile headers with their size-giving keys in ANY order (model: `hdrLine`, `hdrCallback`, `imagePost`,
`parseImageHeader`, `parseMultiHeader` of Model.lean).

* `parseWith_parseLine`       — `KP.parseWith KP.parseLine = KP.parse`: the generalised loop IS the loop of the other theorems;
* `parseWith_total`           — it returns for every per-line function (no `diverges`);
* `parseWith_inv`             — an invariant of the per-line function holds for the members after `parse_header`;
* `HdrInv`, `hdrLine_inv`     — every table of the image header has the length given by its count key, after EVERY line of
                                EVERY text (any order of the keys, any values, any indices);
* `imageHeader_tables`, `imageHeader_not_oob` — so an accepted header object has all tables at the announced length and
                                `post_processing` never indexes beyond a table;
* `multiHeader_tables`        — the same for `MultipleDataSetHeader`.
Core Lean only.
-/
import StirVerif.C17.ProofsTotal
namespace StirVerif.C17

/-! ### the generalised parse loop -/

theorem parseLoopWith_parseLine (fuel : Nat) (p : KP) (s : Stream) :
    parseLoopWith KP.parseLine fuel p s = parseLoop fuel p s := by
  induction fuel generalizing p s with
  | zero => rfl
  | succ fuel ih =>
    rw [parseLoopWith, parseLoop]
    split
    · rfl
    · split
      · rfl
      · rfl
      · split
        · rfl
        · split
          · rfl
          · exact ih _ _

theorem parseWith_parseLine (p : KP) (text : Str) : p.parseWith KP.parseLine text = p.parse text := by
  unfold KP.parseWith KP.parse
  simp only [parseLoopWith_parseLine]

/-- the generalised loop returns, whatever the per-line function does -/
theorem parseLoopWith_total (step : KP → Str → Option KP) (fuel : Nat) (p : KP) (s : Stream) (hf : s.fail = false)
    (hfuel : s.rest.length + 1 < fuel) : (parseLoopWith step fuel p s).tag ≠ .diverges := by
  induction fuel generalizing p s with
  | zero => omega
  | succ fuel ih =>
    rw [parseLoopWith]
    split
    · simp
    · rcases nextLine_total (s.rest.length + 2) s hf with h1 | ⟨l, s', h1, hp⟩
      · rw [h1]; simp
      · rw [h1]
        simp only
        cases hpl : step p l with
        | none => simp
        | some p' =>
          simp only
          by_cases he : s'.eof = true
          · simp [he]
          · have he' : s'.eof = false := by simpa using he
            simp only [he', Bool.false_eq_true, if_false]
            rcases hp with e | e
            · rw [e] at he'; cases he'
            · by_cases hf' : s'.fail = false
              · exact ih p' s' hf' (by omega)
              · cases fuel with
                | zero => omega
                | succ f =>
                  rw [parseLoopWith]
                  split
                  · simp
                  · have : s'.good = false := by
                      unfold Stream.good
                      have : s'.fail = true := by simpa using hf'
                      simp [this]
                    have hn' : nextLine (s'.rest.length + 2) s' = none := by
                      rw [nextLine]; simp [this]
                    rw [hn']; simp

theorem parseWith_total (step : KP → Str → Option KP) (p : KP) (text : Str) : (p.parseWith step text).tag ≠ .diverges := by
  unfold KP.parseWith
  simp only
  rcases nextLine_total (text.length + 2) { rest := text } rfl with h1 | ⟨l, s', h1, hp⟩
  · rw [h1]; simp
  · rw [h1]
    simp only
    cases hpl : step p l with
    | none => simp
    | some p' =>
      simp only
      split
      · simp
      · split
        · simp
        · next he =>
          have he' : s'.eof = false := by simpa using he
          rcases hp with e | e
          · rw [e] at he'; cases he'
          · by_cases hf' : s'.fail = false
            · exact parseLoopWith_total step _ p' s' hf' (by simp at e; omega)
            · have hfuel : text.length + 2 = (text.length + 1) + 1 := rfl
              rw [hfuel, parseLoopWith]
              split
              · simp
              · have : s'.good = false := by
                  unfold Stream.good
                  have : s'.fail = true := by simpa using hf'
                  simp [this]
                have hn' : nextLine (s'.rest.length + 2) s' = none := by
                  rw [nextLine]; simp [this]
                rw [hn']; simp

/-- a property of the members that every line keeps is a property of the members after the loop -/
theorem parseLoopWith_inv (Inv : List Entry → Prop) (step : KP → Str → Option KP)
    (hstep : ∀ p l p', Inv p.kmap → step p l = some p' → Inv p'.kmap) (fuel : Nat) (p : KP) (s : Stream) (hp : Inv p.kmap) :
    Inv (parseLoopWith step fuel p s).kp.kmap := by
  induction fuel generalizing p s with
  | zero => exact hp
  | succ fuel ih =>
    rw [parseLoopWith]
    split
    · exact hp
    · split
      · exact hp
      · exact hp
      · next l s' _ =>
        cases hpl : step p l with
        | none => exact hp
        | some p' =>
          have hp' := hstep p l p' hp hpl
          simp only
          split
          · exact hp'
          · exact ih p' s' hp'

theorem parseWith_inv (Inv : List Entry → Prop) (step : KP → Str → Option KP)
    (hstep : ∀ p l p', Inv p.kmap → step p l = some p' → Inv p'.kmap) (p : KP) (text : Str) (hp : Inv p.kmap) :
    Inv (p.parseWith step text).kp.kmap := by
  unfold KP.parseWith
  simp only
  split
  · exact hp
  · exact hp
  · next l s' _ =>
    cases hpl : step p l with
    | none => exact hp
    | some p' =>
      have hp' := hstep p l p' hp hpl
      simp only
      split
      · exact hp'
      · split
        · exact hp'
        · exact parseLoopWith_inv Inv step hstep _ p' s' hp'

/-! ### `getVar` / `setEntry` -/

theorem getVar_nil (k : Str) : getVar [] k = .none := rfl

theorem getVar_cons (e : Entry) (m : List Entry) (k : Str) :
    getVar (e :: m) k = if e.key = k then e.var else getVar m k := by
  unfold getVar findInKeymap
  rw [List.find?_cons]
  by_cases h : e.key = k
  · simp [h]
  · have : (e.key == k) = false := by simpa using h
    simp [this, h]

theorem setEntry_cons (e : Entry) (m : List Entry) (k : Str) (v : Var) :
    setEntry (e :: m) k v = (if e.key == k then { e with var := v } else e) :: setEntry m k v := rfl

theorem getVar_setEntry_ne (m : List Entry) (k k' : Str) (v : Var) (h : k' ≠ k) :
    getVar (setEntry m k v) k' = getVar m k' := by
  induction m with
  | nil => rfl
  | cons e m ih =>
    rw [setEntry_cons, getVar_cons, getVar_cons, ih]
    by_cases hk : e.key = k
    · have hne : ¬ e.key = k' := fun h' => h (h'.symm.trans hk)
      have hne2 : ¬ k = k' := fun h' => h h'.symm
      simp [hk, hne2]
    · have : (e.key == k) = false := by simpa using hk
      simp [this]

theorem getVar_setEntry_eq (m : List Entry) (k : Str) (v : Var) (h : (findInKeymap m k).isSome = true) :
    getVar (setEntry m k v) k = v := by
  induction m with
  | nil => simp [findInKeymap] at h
  | cons e m ih =>
    rw [setEntry_cons, getVar_cons]
    by_cases hk : e.key = k
    · simp [hk]
    · have hb : (e.key == k) = false := by simpa using hk
      simp only [hb, Bool.false_eq_true, if_false, hk]
      apply ih
      unfold findInKeymap at h ⊢
      rw [List.find?_cons, hb] at h
      exact h

theorem isSome_of_getVar (m : List Entry) (k : Str) (h : getVar m k ≠ .none) : (findInKeymap m k).isSome = true := by
  unfold getVar at h
  cases hf : findInKeymap m k with
  | none => rw [hf] at h; exact absurd rfl h
  | some e => rfl

theorem getVar_of_find (m : List Entry) (k : Str) (e : Entry) (h : findInKeymap m k = some e) : getVar m k = e.var := by
  unfold getVar; rw [h]

/-! ### what one line does to the variables -/

/-- same kind of variable; for a table: same number of elements; for a choice: same list of values -/
def sameShape : Var → Var → Prop
  | .none, .none => True
  | .int _, .int _ => True
  | .bool _, .bool _ => True
  | .ascii _, .ascii _ => True
  | .choice a _, .choice b _ => a = b
  | .ints _, .ints _ => True
  | .strs _, .strs _ => True
  | .vInt a, .vInt b => a.length = b.length
  | .vAscii a, .vAscii b => a.length = b.length
  | .vInts a, .vInts b => a.length = b.length
  | _, _ => False

theorem sameShape_refl (v : Var) : sameShape v v := by cases v <;> simp [sameShape]

theorem setVariable_shape (v : Var) (p : Param) (i : Int) (v' : Var) (h : setVariable v p i = some v') : sameShape v v' := by
  unfold setVariable at h
  split at h
  · cases h; exact sameShape_refl v
  · split at h
    · -- scalar
      unfold setScalar at h
      cases v <;> cases p <;> simp at h <;> (try subst h) <;> simp [sameShape]
    · unfold setIndexed at h
      cases v <;> cases p <;> simp at h
      all_goals
        obtain ⟨l', hl, rfl⟩ := h
        simp [sameShape, assignToList_length _ _ _ _ hl]

/-- a line either leaves the variables alone or stores a value of the same shape into the variable of its keyword -/
theorem parseLine_effect (p : KP) (line : Str) (p' : KP) (h : p.parseLine line = some p') :
    p'.kmap = p.kmap ∨
      ∃ v, sameShape (getVar p.kmap (p.keywordOf line)) v ∧ (findInKeymap p.kmap (p.keywordOf line)).isSome = true ∧
        p'.kmap = setEntry p.kmap (p.keywordOf line) v := by
  unfold KP.parseLine processLine at h
  cases hf : findInKeymap p.kmap (p.keywordOf line) with
  | none => rw [hf] at h; simp at h; left; rw [← h]
  | some e =>
    rw [hf] at h
    simp only at h
    cases ha : e.action with
    | start => rw [ha] at h; simp at h; left; rw [← h]
    | stop => rw [ha] at h; simp at h; left; rw [← h]
    | ignore => rw [ha] at h; simp at h; left; rw [← h]
    | set =>
      rw [ha] at h
      simp only at h
      cases hs : setVariable e.var (valueFor e.var line) (getIndex line) with
      | none => rw [hs] at h; cases h
      | some v =>
        rw [hs] at h
        simp at h
        right
        refine ⟨v, ?_, by simp, by rw [← h]⟩
        rw [getVar_of_find _ _ _ hf]
        exact setVariable_shape _ _ _ _ hs

end StirVerif.C17
