/-
C17 — print → parse round trip for the value kinds of the model: integers, booleans, strings, `{…}` lists.
-/
import StirVerif.C17.ProofsLine

namespace StirVerif.C17

theorem readInt_skip_ws (ws s : Str) (h : ∀ c ∈ ws, isCSpace c = true) : readInt (ws ++ s) = readInt s := by
  simp only [readInt, dropWhile_append_all isCSpace ws s h]

theorem noDigitHead_of_head (c : Char) (t : Str) (h : c.isDigit = false) : NoDigitHead (c :: t) := by
  intro d hd
  simp at hd
  subst hd
  exact h

theorem noDigitHead_nil : NoDigitHead [] := by intro d hd; simp at hd

/-! ### `{a, b, c}` of integers -/

def sepCS : Str := [',', ' ']

theorem intercalateStr_cons_cons (sep x y : Str) (l : List Str) :
    intercalateStr sep (x :: y :: l) = x ++ sep ++ intercalateStr sep (y :: l) := rfl

theorem readIntListAux_print (l : List Int) (hl : ∀ x ∈ l, InIntRange x) (hne : l ≠ []) :
    ∀ (fuel : Nat) (ws : Str) (acc : List Int), l.length < fuel → (∀ c ∈ ws, isCSpace c = true) →
      readIntListAux fuel (ws ++ (intercalateStr sepCS (l.map showInt) ++ ['}'])) acc = some (acc ++ l) := by
  induction l with
  | nil => exact absurd rfl hne
  | cons x l' ih =>
    intro fuel ws acc hf hws
    cases fuel with
    | zero => omega
    | succ fuel =>
      have hx : InIntRange x := hl x List.mem_cons_self
      cases l' with
      | nil =>
        simp only [List.map_cons, List.map_nil, intercalateStr]
        rw [readIntListAux, readInt_skip_ws ws _ hws, readInt_showInt x hx _ (noDigitHead_of_head '}' [] (by decide))]
        have hr : readChar ['}'] = some ('}', []) := by decide
        simp [hr]
      | cons y l'' =>
        simp only [List.map_cons, intercalateStr_cons_cons]
        rw [readIntListAux, readInt_skip_ws ws _ hws]
        have e : showInt x ++ sepCS ++ intercalateStr sepCS (showInt y :: List.map showInt l'') ++ ['}']
            = showInt x ++ (',' :: ([' '] ++ (intercalateStr sepCS (List.map showInt (y :: l'')) ++ ['}']))) := by
          simp [sepCS]
        rw [e, readInt_showInt x hx _ (noDigitHead_of_head ',' _ (by decide))]
        have hr : readChar (',' :: ([' '] ++ (intercalateStr sepCS (List.map showInt (y :: l'')) ++ ['}'])))
            = some (',', [' '] ++ (intercalateStr sepCS (List.map showInt (y :: l'')) ++ ['}'])) := by
          simp [readChar, List.dropWhile_cons, isCSpace]
        simp only [hr, beq_self_eq_true, if_true]
        rw [ih (fun z hz => hl z (List.mem_cons_of_mem _ hz)) (by simp) fuel [' '] (acc ++ [x])
          (by simp at hf ⊢; omega) (by intro c hc; simp at hc; subst hc; rfl)]
        simp

theorem length_intercalate_ge (l : List Int) : l.length ≤ (intercalateStr sepCS (l.map showInt)).length := by
  induction l with
  | nil => simp [intercalateStr]
  | cons x l' ih =>
    have hx : 0 < (showInt x).length := by
      unfold showInt
      split
      · simp
      · exact List.length_pos_iff.mpr (showNat_ne_nil _)
    cases l' with
    | nil => simp [intercalateStr]; omega
    | cons y l'' =>
      simp only [List.map_cons, intercalateStr_cons_cons, List.length_append, List.length_cons] at ih ⊢
      omega

/-- `operator<<(vector<int>)` followed by `operator>>(vector<int>)` (after the `{`) is the identity -/
theorem readIntList_print (l : List Int) (hl : ∀ x ∈ l, InIntRange x) :
    readIntList (intercalateStr sepCS (l.map showInt) ++ ['}']) = some l := by
  unfold readIntList
  cases l with
  | nil => simp [intercalateStr, readIntListAux, readInt, takeSign, readChar, isCSpace]
  | cons x l' =>
    have := readIntListAux_print (x :: l') hl (by simp)
      ((intercalateStr sepCS ((x :: l').map showInt) ++ ['}']).length + 1) [] []
      (by have := length_intercalate_ge (x :: l'); simp at this ⊢; omega) (by simp)
    simpa using this

/-! ### `{a, b, c}` of strings -/

/-- a list element that survives printing and re-reading: not empty, no `,` or `}`, no blank or tab at either end
    (the reader trims both ends, like the scalar string reader) -/
def CleanElem (e : Str) : Prop :=
  (∀ c ∈ e, isBraceOrComma c = false) ∧ (∃ c t, e = c :: t ∧ isBlank c = false) ∧ dropEndWhile isBlank e = e

theorem readStringListAux_print (l : List Str) (hl : ∀ e ∈ l, CleanElem e) (hne : l ≠ []) :
    ∀ (fuel : Nat) (ws : Str) (acc : List Str), l.length < fuel → (∀ c ∈ ws, isBlank c = true) →
      readStringListAux fuel (ws ++ (intercalateStr sepCS l ++ ['}'])) acc = acc ++ l := by
  induction l with
  | nil => exact absurd rfl hne
  | cons x l' ih =>
    intro fuel ws acc hf hws
    cases fuel with
    | zero => omega
    | succ fuel =>
      obtain ⟨hx1, ⟨c, t, hxe, hcb⟩, hxt⟩ := hl x List.mem_cons_self
      have hcbr : isBraceOrComma c = false := hx1 c (by rw [hxe]; exact List.mem_cons_self)
      -- skipping of separators and blanks in front of the element
      have skip : ∀ rest : Str, ((ws ++ (x ++ rest)).dropWhile isBraceOrComma).dropWhile isBlank = c :: (t ++ rest) := by
        intro rest
        have h1 : (ws ++ (x ++ rest)).dropWhile isBraceOrComma = ws ++ (x ++ rest) := by
          cases ws with
          | nil => rw [hxe]; simp [List.dropWhile_cons, hcbr]
          | cons w ws' =>
            have hw : isBlank w = true := hws w List.mem_cons_self
            have : isBraceOrComma w = false := by
              unfold isBlank at hw; unfold isBraceOrComma
              simp only [Bool.or_eq_true, beq_iff_eq] at hw
              rcases hw with hw | hw <;> subst hw <;> decide
            simp [List.dropWhile_cons, this]
        rw [h1, dropWhile_append_all isBlank ws _ hws, hxe]
        simp [List.dropWhile_cons, hcb]
      have tk : ∀ (s : Char) (rest : Str), isBraceOrComma s = true →
          (c :: (t ++ s :: rest)).takeWhile (fun d => !isBraceOrComma d) = x ∧
          (c :: (t ++ s :: rest)).dropWhile (fun d => !isBraceOrComma d) = s :: rest := by
        intro s rest hs
        have hall : ∀ a ∈ x, (!isBraceOrComma a) = true := by intro a ha; simp [hx1 a ha]
        have e : c :: (t ++ s :: rest) = x ++ s :: rest := by rw [hxe]; simp
        rw [e, List.takeWhile_append_of_pos hall, List.dropWhile_append_of_pos hall]
        simp [List.takeWhile_cons, List.dropWhile_cons, hs]
      cases l' with
      | nil =>
        simp only [intercalateStr]
        rw [readStringListAux, skip ['}']]
        simp only
        have := tk '}' [] (by decide)
        rw [this.2]
        simp only [this.1, hxt]
        cases fuel <;> simp [readStringListAux]
      | cons y l'' =>
        have e : intercalateStr sepCS (x :: y :: l'') ++ ['}'] = x ++ (',' :: ([' '] ++ (intercalateStr sepCS (y :: l'') ++ ['}']))) := by
          simp [intercalateStr_cons_cons, sepCS]
        rw [e, readStringListAux, skip]
        simp only
        have := tk ',' ([' '] ++ (intercalateStr sepCS (y :: l'') ++ ['}'])) (by decide)
        rw [this.2]
        simp only [this.1, hxt]
        rw [ih (fun z hz => hl z (List.mem_cons_of_mem _ hz)) (by simp) fuel [' '] (acc ++ [x])
          (by simp at hf ⊢; omega) (by intro d hd; simp at hd; subst hd; rfl)]
        simp

theorem length_intercalate_ge' (l : List Str) (hl : ∀ e ∈ l, CleanElem e) : l.length ≤ (intercalateStr sepCS l).length := by
  induction l with
  | nil => simp [intercalateStr]
  | cons x l' ih =>
    obtain ⟨_, ⟨c, t, hxe, _⟩, _⟩ := hl x List.mem_cons_self
    have hx : 0 < x.length := by rw [hxe]; simp
    have ih' := ih (fun z hz => hl z (List.mem_cons_of_mem _ hz))
    cases l' with
    | nil => simp [intercalateStr]; omega
    | cons y l'' =>
      simp only [intercalateStr_cons_cons, List.length_append, List.length_cons] at ih' ⊢
      omega

/-- printing a list of strings and reading it back (after the `{`) is the identity on clean elements -/
theorem readStringList_print (l : List Str) (hl : ∀ e ∈ l, CleanElem e) :
    readStringList (intercalateStr sepCS l ++ ['}']) = l := by
  unfold readStringList
  cases l with
  | nil => simp [intercalateStr, readStringListAux, isBraceOrComma]
  | cons x l' =>
    have := readStringListAux_print (x :: l') hl (by simp)
      ((intercalateStr sepCS (x :: l') ++ ['}']).length + 1) [] []
      (by have := length_intercalate_ge' (x :: l') hl; simp at this ⊢; omega) (by simp)
    simpa using this

end StirVerif.C17
