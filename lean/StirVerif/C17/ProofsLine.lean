/-
C17 — proofs about one line `keyword[index] := value`: splitting, index extraction, storing.
-/
import StirVerif.C17.ProofsNum

namespace StirVerif.C17

/-- a keyword as it is printed: none of the characters that end a keyword or start a value -/
def PlainKey (k : Str) : Prop := ∀ c ∈ k, c ≠ ':' ∧ c ≠ '[' ∧ c ≠ '='

theorem PlainKey.tail {c : Char} {cs : Str} (h : PlainKey (c :: cs)) : PlainKey cs :=
  fun d hd => h d (List.mem_cons_of_mem _ hd)

/-- `get_keyword` stops at `:=` -/
theorem getKeyword_assign (k rest : Str) (hk : PlainKey k) : getKeyword (k ++ ':' :: '=' :: rest) = k := by
  induction k with
  | nil => simp [getKeyword]
  | cons c cs ih =>
    have h := hk c List.mem_cons_self
    have e1 : (c == '[') = false := by simp [h.2.1]
    have e2 : (c == ':') = false := by simp [h.1]
    rw [List.cons_append]
    unfold getKeyword
    simp only [e1, e2, Bool.false_eq_true, if_false]
    rw [ih hk.tail]

/-- `get_keyword` stops at `[` -/
theorem getKeyword_bracket (k rest : Str) (hk : PlainKey k) : getKeyword (k ++ '[' :: rest) = k := by
  induction k with
  | nil => simp [getKeyword]
  | cons c cs ih =>
    have h := hk c List.mem_cons_self
    have e1 : (c == '[') = false := by simp [h.2.1]
    have e2 : (c == ':') = false := by simp [h.1]
    rw [List.cons_append]
    unfold getKeyword
    simp only [e1, e2, Bool.false_eq_true, if_false]
    rw [ih hk.tail]

theorem dropWhile_plain (k rest : Str) (hk : PlainKey k) :
    (k ++ rest).dropWhile (fun c => !isColonOrBracket c) = rest.dropWhile (fun c => !isColonOrBracket c) := by
  apply List.dropWhile_append_of_pos
  intro c hc
  have h := hk c hc
  simp [isColonOrBracket, h.1, h.2.1]

/-- a line without index has index 0 -/
theorem getIndex_assign (k rest : Str) (hk : PlainKey k) : getIndex (k ++ ':' :: '=' :: rest) = 0 := by
  unfold getIndex
  rw [dropWhile_plain k _ hk]
  simp [isColonOrBracket]

/-- `key[i]…` has index `i` (as printed by `parameter_info`) -/
theorem getIndex_bracket (k rest : Str) (i : Nat) (hk : PlainKey k) (hi : i ≤ 2147483647) :
    getIndex (k ++ '[' :: (showNat i ++ ']' :: rest)) = i := by
  unfold getIndex
  rw [dropWhile_plain k _ hk]
  have hd : ∀ c ∈ showNat i, (c != ']') = true := by
    intro c hc
    have := isDigit_toNat (showNat_isDigit i c hc)
    simp only [bne_iff_ne, ne_eq]
    exact ne_of_toNat_ne (by simp; omega)
  have e1 : (showNat i ++ ']' :: rest).takeWhile (fun d => d != ']') = showNat i := by
    rw [List.takeWhile_append_of_pos hd]; simp
  have e2 : (showNat i ++ ']' :: rest).contains ']' = true := by simp
  simp [isColonOrBracket, e1, e2, atoi_showNat i hi]

theorem afterEq_assign (k rest : Str) (hk : PlainKey k) : afterEq (k ++ ':' :: '=' :: rest) = some rest := by
  unfold afterEq
  have : (k ++ ':' :: '=' :: rest).dropWhile (fun c => c != '=') = '=' :: rest := by
    rw [List.dropWhile_append_of_pos (by intro c hc; simp [(hk c hc).2.2])]
    simp
  rw [this]

/-- left and right trimming of blanks and tabs -/
def trimBlanks (v : Str) : Str := dropEndWhile isBlank (v.dropWhile isBlank)

/-- value of `key := value` for a string key: the trimmed value; no value at all if nothing but blanks follows -/
theorem getStringParam_assign (k v : Str) (hk : PlainKey k) :
    getStringParam (k ++ ':' :: '=' :: v) = if (v.dropWhile isBlank).isEmpty then none else some (trimBlanks v) := by
  unfold getStringParam trimBlanks
  rw [afterEq_assign k v hk]
  simp only
  split
  · next h => simp [h]
  · next h =>
    have : ¬ v.dropWhile isBlank = [] := fun e => h e
    simp [this]

theorem getIntParam_assign (k v : Str) (hk : PlainKey k) : getIntParam (k ++ ':' :: '=' :: v) = (readInt v).1 := by
  unfold getIntParam
  rw [afterEq_assign k v hk]

/-! ### storing -/

/-- **vectorised keys are stored at the index given** (1-based), the vector is never resized; an index outside
    `1 … size` is an `error()` -/
theorem assignToList_spec {α : Type} (l : List α) (x : α) (i : Int) (hi : i ≠ 0) :
    assignToList l x i = if 1 ≤ i ∧ i ≤ l.length then some (l.set (i.toNat - 1) x) else none := by
  unfold assignToList
  by_cases h0 : i < 0
  · rw [if_pos h0, if_neg (by omega)]
  · rw [if_neg h0]
    by_cases h1 : l.length < i.toNat
    · rw [if_pos h1, if_neg (by omega)]
    · rw [if_neg h1, if_pos (by omega)]

theorem assignToList_length {α : Type} (l l' : List α) (x : α) (i : Int) (h : assignToList l x i = some l') :
    l'.length = l.length := by
  unfold assignToList at h
  split at h
  · cases h
  · split at h
    · cases h
    · cases h; simp

theorem assignToList_get {α : Type} (l l' : List α) (x : α) (i : Int) (hi : 1 ≤ i) (h : assignToList l x i = some l') :
    l'[i.toNat - 1]? = some x ∧ ∀ j, j ≠ i.toNat - 1 → l'[j]? = l[j]? := by
  unfold assignToList at h
  split at h
  · cases h
  · split at h
    · cases h
    · cases h
      constructor
      · rw [List.getElem?_set_self]; omega
      · intro j hj; rw [List.getElem?_set_ne]; omega

end StirVerif.C17
