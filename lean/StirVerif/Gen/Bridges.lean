/-
Bridge theorems of tie (T) (DESIGN.md §2.2): every definition that `tools/c2lean.py` regenerates from the C++
source text (`StirVerif/Gen/Kernels.lean`, namespace `StirVerif.Gen`) is equal, for all inputs, to the readable
hand-written model function about which the property theorems of C01 / C06 are proved.

`Kernels.lean` is rewritten from `/repo` on every run of the checks (`tools/gen_gate.py`); this file is
hand-written and never changes.  If a kernel's semantics change in the C++, exactly the bridge of that kernel stops
checking (theorem `bridge_<kernel>`: the gate maps the failing theorem back to the kernel and then looks for a
concrete disagreeing input).

Hypotheses: none for the detector-interleaving and view/segment-symmetry kernels (the expressions agree for all
integers, including the negative ones where C `/`, `%` and `>>` differ from the mathematical operations);
`subset_num_fixed` is stated for `1 ≤ subiteration_num`, `0 ≤ start_subset_num`, `0 < num_subsets`, the domain on
which the model works in `Nat` (C `%` on a negative left operand is not the model's `%`); `ax_pos_num` takes the
segment's increment as the value of the opaque call `get_num_axial_poss_per_ring_inc(segment_num)`.

Core Lean only.
-/
import StirVerif.Gen.Kernels
import StirVerif.C01.Model
import StirVerif.C06.Model
import StirVerif.C03.Model
import StirVerif.C02.Model
import StirVerif.C20.Model

namespace StirVerif.Gen
open StirVerif

/-! ## glue -/

theorem pure_id {α : Type} (a : α) : (pure a : Id α) = a := rfl

/-- `x >> 1` is the model's `shr1` (C01) … -/
theorem shr_one_eq_shr1 (x : Int) : shr x 1 = C01.shr1 x := by
  simp [shr, C01.shr1]

/-- … and is `x / 2` with Lean's (floor, for a positive divisor) integer division (C06 writes `num_views / 2`) -/
theorem shr_one_eq_div (x : Int) : shr x 1 = x / 2 := by
  simp [shr, Int.fdiv_eq_ediv_of_nonneg]

/-- case analysis on every `if` of both sides, then arithmetic -/
macro "bridge_split" : tactic =>
  `(tactic| ((repeat' split) <;> first | rfl | omega | (simp_all; done) | (simp_all; omega)))

/-! ## C06: view/segment symmetries, subset schedule -/

/-- `DataSymmetriesForBins_PET_CartesianGrid::find_basic_view_segment_numbers` = `C06.findBasic` -/
theorem bridge_find_basic_view_segment_numbers (V : Int) (d90 d180 sw : Bool) (v s : Int) :
    find_basic_view_segment_numbers V d90 d180 sw v s =
      (let r := C06.findBasic ⟨V, d90, d180, sw⟩ ⟨v, s⟩; (r.1.view, r.1.seg, r.2)) := by
  simp only [find_basic_view_segment_numbers, C06.findBasic, shr_one_eq_div, Id.run, pure_id,
    decide_eq_true_eq, Bool.and_eq_true]
  cases d90 <;> cases d180 <;> cases sw <;> bridge_split

/-- `DataSymmetriesForBins_PET_CartesianGrid::num_related_view_segment_numbers` = `C06.numRelated` -/
theorem bridge_num_related_view_segment_numbers (V : Int) (d90 d180 sw : Bool) (v s : Int) :
    num_related_view_segment_numbers V d90 d180 sw v s = (C06.numRelated ⟨V, d90, d180, sw⟩ ⟨v, s⟩ : Nat) := by
  simp only [num_related_view_segment_numbers, C06.numRelated, Id.run, pure_id]
  bridge_split

/-- non-randomised branch of `IterativeReconstruction::get_subset_num` = `C06.subsetNum`
    (on the domain where the model's natural-number arithmetic is the C arithmetic) -/
theorem bridge_subset_num_fixed (k s n : Int) (hk : 1 ≤ k) (hs : 0 ≤ s) (hn : 0 < n) :
    subset_num_fixed k s n = (C06.subsetNum k.toNat s.toNat n.toNat : Nat) := by
  unfold subset_num_fixed C06.subsetNum
  have h : k + s - 1 = ((k.toNat + s.toNat - 1 : Nat) : Int) := by omega
  have hn' : n = (n.toNat : Int) := by omega
  rw [h, Int.tmod_eq_emod_of_nonneg (by omega)]
  conv => lhs; rw [hn']
  rfl

/-! ## C01: detector interleaving, axial position of a ring pair -/

/-- first assignment in the loop body of `initialise_uncompressed_view_tangpos_to_det1det2` -/
theorem bridge_det1 (N v tp : Int) : det1 N v tp = (C01.viewTangToDet N v tp).1 := by
  simp only [det1, C01.viewTangToDet, shr_one_eq_shr1, Id.run, pure_id]

/-- second assignment in the loop body of `initialise_uncompressed_view_tangpos_to_det1det2` -/
theorem bridge_det2 (N v tp : Int) : det2 N v tp = (C01.viewTangToDet N v tp).2 := by
  simp only [det2, C01.viewTangToDet, shr_one_eq_shr1, Id.run, pure_id]

/-- det-pair loop body of `initialise_det1det2_to_uncompressed_view_tangpos` = `C01.detToViewTang` -/
theorem bridge_det2vt (N d1 d2 : Int) : det2vt N d1 d2 = C01.detToViewTang N d1 d2 := by
  simp only [det2vt, C01.detToViewTang, shr_one_eq_shr1, Id.run, pure_id, decide_eq_true_eq]
  bridge_split

/-- axial formula of `get_segment_axial_pos_num_for_ring_pair` = `C01.Seg.axOf`; `sg.inc` is the value of
    `get_num_axial_poss_per_ring_inc(segment_num)`, `off` the value of `ax_pos_num_offset[segment_num]` -/
theorem bridge_ax_pos_num (sg : C01.Seg) (off r1 r2 inc : Int) (hinc : inc = sg.inc) :
    ax_pos_num r1 r2 off inc = sg.axOf off r1 r2 := by
  subst hinc
  simp only [ax_pos_num, C01.Seg.axOf, Id.run, pure_id]


/-! ## C03: the symmetry-operation classes of `SymmetryOperations_PET_CartesianGrid.inl`

One bridge per member function: the function body translated from the source equals the corresponding case of
`C03.SymOp.onBin` / `onVS` / `onVoxel`, for all integers and for every value of the constructor arguments the
function does not read. -/

macro "so_bridge" : tactic =>
  `(tactic| (simp only [C03.SymOp.onBin, C03.SymOp.onVS, C03.SymOp.onVoxel, Id.run, pure_id, decide_eq_true_eq, bne_iff_ne, ne_eq,
               Int.mul_neg, Int.mul_one, Int.neg_mul, Int.one_mul]
             <;> (repeat' split) <;> (first | rfl | (simp_all <;> omega) | (simp_all) | omega)))

theorem bridge_so_z_shift_bin (V a zs q seg view ax tang tof : Int) :
    so_z_shift_bin V a seg view ax tang tof =
      (let r := (⟨.z_shift, V, a, zs, q⟩ : C03.SymOp).onBin ⟨seg, view, ax, tang, tof⟩; (r.seg, r.view, r.ax, r.tang, r.tof)) := by
  unfold so_z_shift_bin; so_bridge

theorem bridge_so_z_shift_vs (V a zs q seg view : Int) :
    so_z_shift_vs V seg view = (let r := (⟨.z_shift, V, a, zs, q⟩ : C03.SymOp).onVS ⟨view, seg⟩; (r.seg, r.view)) := by
  unfold so_z_shift_vs; so_bridge

theorem bridge_so_z_shift_img (V a zs q z y x : Int) :
    so_z_shift_img zs q z y x = (let r := (⟨.z_shift, V, a, zs, q⟩ : C03.SymOp).onVoxel ⟨z, y, x⟩; (r.z, r.y, r.x)) := by
  unfold so_z_shift_img; so_bridge

theorem bridge_so_swap_xmx_zq_bin (V a zs q seg view ax tang tof : Int) :
    so_swap_xmx_zq_bin V a seg view ax tang tof =
      (let r := (⟨.swap_xmx_zq, V, a, zs, q⟩ : C03.SymOp).onBin ⟨seg, view, ax, tang, tof⟩; (r.seg, r.view, r.ax, r.tang, r.tof)) := by
  unfold so_swap_xmx_zq_bin; so_bridge

theorem bridge_so_swap_xmx_zq_vs (V a zs q seg view : Int) :
    so_swap_xmx_zq_vs V seg view = (let r := (⟨.swap_xmx_zq, V, a, zs, q⟩ : C03.SymOp).onVS ⟨view, seg⟩; (r.seg, r.view)) := by
  unfold so_swap_xmx_zq_vs; so_bridge

theorem bridge_so_swap_xmx_zq_img (V a zs q z y x : Int) :
    so_swap_xmx_zq_img zs q z y x = (let r := (⟨.swap_xmx_zq, V, a, zs, q⟩ : C03.SymOp).onVoxel ⟨z, y, x⟩; (r.z, r.y, r.x)) := by
  unfold so_swap_xmx_zq_img; so_bridge

theorem bridge_so_swap_xmy_yx_zq_bin (V a zs q seg view ax tang tof : Int) :
    so_swap_xmy_yx_zq_bin V a seg view ax tang tof =
      (let r := (⟨.swap_xmy_yx_zq, V, a, zs, q⟩ : C03.SymOp).onBin ⟨seg, view, ax, tang, tof⟩; (r.seg, r.view, r.ax, r.tang, r.tof)) := by
  unfold so_swap_xmy_yx_zq_bin; so_bridge

theorem bridge_so_swap_xmy_yx_zq_vs (V a zs q seg view : Int) :
    so_swap_xmy_yx_zq_vs V seg view = (let r := (⟨.swap_xmy_yx_zq, V, a, zs, q⟩ : C03.SymOp).onVS ⟨view, seg⟩; (r.seg, r.view)) := by
  unfold so_swap_xmy_yx_zq_vs; so_bridge

theorem bridge_so_swap_xmy_yx_zq_img (V a zs q z y x : Int) :
    so_swap_xmy_yx_zq_img zs q z y x = (let r := (⟨.swap_xmy_yx_zq, V, a, zs, q⟩ : C03.SymOp).onVoxel ⟨z, y, x⟩; (r.z, r.y, r.x)) := by
  unfold so_swap_xmy_yx_zq_img; so_bridge

theorem bridge_so_swap_xy_yx_zq_bin (V a zs q seg view ax tang tof : Int) :
    so_swap_xy_yx_zq_bin V a seg view ax tang tof =
      (let r := (⟨.swap_xy_yx_zq, V, a, zs, q⟩ : C03.SymOp).onBin ⟨seg, view, ax, tang, tof⟩; (r.seg, r.view, r.ax, r.tang, r.tof)) := by
  unfold so_swap_xy_yx_zq_bin; so_bridge

theorem bridge_so_swap_xy_yx_zq_vs (V a zs q seg view : Int) :
    so_swap_xy_yx_zq_vs V seg view = (let r := (⟨.swap_xy_yx_zq, V, a, zs, q⟩ : C03.SymOp).onVS ⟨view, seg⟩; (r.seg, r.view)) := by
  unfold so_swap_xy_yx_zq_vs; so_bridge

theorem bridge_so_swap_xy_yx_zq_img (V a zs q z y x : Int) :
    so_swap_xy_yx_zq_img zs q z y x = (let r := (⟨.swap_xy_yx_zq, V, a, zs, q⟩ : C03.SymOp).onVoxel ⟨z, y, x⟩; (r.z, r.y, r.x)) := by
  unfold so_swap_xy_yx_zq_img; so_bridge

theorem bridge_so_swap_xmy_yx_bin (V a zs q seg view ax tang tof : Int) :
    so_swap_xmy_yx_bin V a seg view ax tang tof =
      (let r := (⟨.swap_xmy_yx, V, a, zs, q⟩ : C03.SymOp).onBin ⟨seg, view, ax, tang, tof⟩; (r.seg, r.view, r.ax, r.tang, r.tof)) := by
  unfold so_swap_xmy_yx_bin; so_bridge

theorem bridge_so_swap_xmy_yx_vs (V a zs q seg view : Int) :
    so_swap_xmy_yx_vs V seg view = (let r := (⟨.swap_xmy_yx, V, a, zs, q⟩ : C03.SymOp).onVS ⟨view, seg⟩; (r.seg, r.view)) := by
  unfold so_swap_xmy_yx_vs; so_bridge

theorem bridge_so_swap_xmy_yx_img (V a zs q z y x : Int) :
    so_swap_xmy_yx_img zs q z y x = (let r := (⟨.swap_xmy_yx, V, a, zs, q⟩ : C03.SymOp).onVoxel ⟨z, y, x⟩; (r.z, r.y, r.x)) := by
  unfold so_swap_xmy_yx_img; so_bridge

theorem bridge_so_swap_xy_yx_bin (V a zs q seg view ax tang tof : Int) :
    so_swap_xy_yx_bin V a seg view ax tang tof =
      (let r := (⟨.swap_xy_yx, V, a, zs, q⟩ : C03.SymOp).onBin ⟨seg, view, ax, tang, tof⟩; (r.seg, r.view, r.ax, r.tang, r.tof)) := by
  unfold so_swap_xy_yx_bin; so_bridge

theorem bridge_so_swap_xy_yx_vs (V a zs q seg view : Int) :
    so_swap_xy_yx_vs V seg view = (let r := (⟨.swap_xy_yx, V, a, zs, q⟩ : C03.SymOp).onVS ⟨view, seg⟩; (r.seg, r.view)) := by
  unfold so_swap_xy_yx_vs; so_bridge

theorem bridge_so_swap_xy_yx_img (V a zs q z y x : Int) :
    so_swap_xy_yx_img zs q z y x = (let r := (⟨.swap_xy_yx, V, a, zs, q⟩ : C03.SymOp).onVoxel ⟨z, y, x⟩; (r.z, r.y, r.x)) := by
  unfold so_swap_xy_yx_img; so_bridge

theorem bridge_so_swap_xmx_bin (V a zs q seg view ax tang tof : Int) :
    so_swap_xmx_bin V a seg view ax tang tof =
      (let r := (⟨.swap_xmx, V, a, zs, q⟩ : C03.SymOp).onBin ⟨seg, view, ax, tang, tof⟩; (r.seg, r.view, r.ax, r.tang, r.tof)) := by
  unfold so_swap_xmx_bin; so_bridge

theorem bridge_so_swap_xmx_vs (V a zs q seg view : Int) :
    so_swap_xmx_vs V seg view = (let r := (⟨.swap_xmx, V, a, zs, q⟩ : C03.SymOp).onVS ⟨view, seg⟩; (r.seg, r.view)) := by
  unfold so_swap_xmx_vs; so_bridge

theorem bridge_so_swap_xmx_img (V a zs q z y x : Int) :
    so_swap_xmx_img zs q z y x = (let r := (⟨.swap_xmx, V, a, zs, q⟩ : C03.SymOp).onVoxel ⟨z, y, x⟩; (r.z, r.y, r.x)) := by
  unfold so_swap_xmx_img; so_bridge

theorem bridge_so_swap_ymy_bin (V a zs q seg view ax tang tof : Int) :
    so_swap_ymy_bin V a seg view ax tang tof =
      (let r := (⟨.swap_ymy, V, a, zs, q⟩ : C03.SymOp).onBin ⟨seg, view, ax, tang, tof⟩; (r.seg, r.view, r.ax, r.tang, r.tof)) := by
  unfold so_swap_ymy_bin; so_bridge

theorem bridge_so_swap_ymy_vs (V a zs q seg view : Int) :
    so_swap_ymy_vs V seg view = (let r := (⟨.swap_ymy, V, a, zs, q⟩ : C03.SymOp).onVS ⟨view, seg⟩; (r.seg, r.view)) := by
  unfold so_swap_ymy_vs; so_bridge

theorem bridge_so_swap_ymy_img (V a zs q z y x : Int) :
    so_swap_ymy_img zs q z y x = (let r := (⟨.swap_ymy, V, a, zs, q⟩ : C03.SymOp).onVoxel ⟨z, y, x⟩; (r.z, r.y, r.x)) := by
  unfold so_swap_ymy_img; so_bridge

theorem bridge_so_swap_zq_bin (V a zs q seg view ax tang tof : Int) :
    so_swap_zq_bin V a seg view ax tang tof =
      (let r := (⟨.swap_zq, V, a, zs, q⟩ : C03.SymOp).onBin ⟨seg, view, ax, tang, tof⟩; (r.seg, r.view, r.ax, r.tang, r.tof)) := by
  unfold so_swap_zq_bin; so_bridge

theorem bridge_so_swap_zq_vs (V a zs q seg view : Int) :
    so_swap_zq_vs V seg view = (let r := (⟨.swap_zq, V, a, zs, q⟩ : C03.SymOp).onVS ⟨view, seg⟩; (r.seg, r.view)) := by
  unfold so_swap_zq_vs; so_bridge

theorem bridge_so_swap_zq_img (V a zs q z y x : Int) :
    so_swap_zq_img zs q z y x = (let r := (⟨.swap_zq, V, a, zs, q⟩ : C03.SymOp).onVoxel ⟨z, y, x⟩; (r.z, r.y, r.x)) := by
  unfold so_swap_zq_img; so_bridge

theorem bridge_so_swap_xmx_ymy_zq_bin (V a zs q seg view ax tang tof : Int) :
    so_swap_xmx_ymy_zq_bin V a seg view ax tang tof =
      (let r := (⟨.swap_xmx_ymy_zq, V, a, zs, q⟩ : C03.SymOp).onBin ⟨seg, view, ax, tang, tof⟩; (r.seg, r.view, r.ax, r.tang, r.tof)) := by
  unfold so_swap_xmx_ymy_zq_bin; so_bridge

theorem bridge_so_swap_xmx_ymy_zq_vs (V a zs q seg view : Int) :
    so_swap_xmx_ymy_zq_vs V seg view = (let r := (⟨.swap_xmx_ymy_zq, V, a, zs, q⟩ : C03.SymOp).onVS ⟨view, seg⟩; (r.seg, r.view)) := by
  unfold so_swap_xmx_ymy_zq_vs; so_bridge

theorem bridge_so_swap_xmx_ymy_zq_img (V a zs q z y x : Int) :
    so_swap_xmx_ymy_zq_img zs q z y x = (let r := (⟨.swap_xmx_ymy_zq, V, a, zs, q⟩ : C03.SymOp).onVoxel ⟨z, y, x⟩; (r.z, r.y, r.x)) := by
  unfold so_swap_xmx_ymy_zq_img; so_bridge

theorem bridge_so_swap_xy_ymx_zq_bin (V a zs q seg view ax tang tof : Int) :
    so_swap_xy_ymx_zq_bin V a seg view ax tang tof =
      (let r := (⟨.swap_xy_ymx_zq, V, a, zs, q⟩ : C03.SymOp).onBin ⟨seg, view, ax, tang, tof⟩; (r.seg, r.view, r.ax, r.tang, r.tof)) := by
  unfold so_swap_xy_ymx_zq_bin; so_bridge

theorem bridge_so_swap_xy_ymx_zq_vs (V a zs q seg view : Int) :
    so_swap_xy_ymx_zq_vs V seg view = (let r := (⟨.swap_xy_ymx_zq, V, a, zs, q⟩ : C03.SymOp).onVS ⟨view, seg⟩; (r.seg, r.view)) := by
  unfold so_swap_xy_ymx_zq_vs; so_bridge

theorem bridge_so_swap_xy_ymx_zq_img (V a zs q z y x : Int) :
    so_swap_xy_ymx_zq_img zs q z y x = (let r := (⟨.swap_xy_ymx_zq, V, a, zs, q⟩ : C03.SymOp).onVoxel ⟨z, y, x⟩; (r.z, r.y, r.x)) := by
  unfold so_swap_xy_ymx_zq_img; so_bridge

theorem bridge_so_swap_xy_ymx_bin (V a zs q seg view ax tang tof : Int) :
    so_swap_xy_ymx_bin V a seg view ax tang tof =
      (let r := (⟨.swap_xy_ymx, V, a, zs, q⟩ : C03.SymOp).onBin ⟨seg, view, ax, tang, tof⟩; (r.seg, r.view, r.ax, r.tang, r.tof)) := by
  unfold so_swap_xy_ymx_bin; so_bridge

theorem bridge_so_swap_xy_ymx_vs (V a zs q seg view : Int) :
    so_swap_xy_ymx_vs V seg view = (let r := (⟨.swap_xy_ymx, V, a, zs, q⟩ : C03.SymOp).onVS ⟨view, seg⟩; (r.seg, r.view)) := by
  unfold so_swap_xy_ymx_vs; so_bridge

theorem bridge_so_swap_xy_ymx_img (V a zs q z y x : Int) :
    so_swap_xy_ymx_img zs q z y x = (let r := (⟨.swap_xy_ymx, V, a, zs, q⟩ : C03.SymOp).onVoxel ⟨z, y, x⟩; (r.z, r.y, r.x)) := by
  unfold so_swap_xy_ymx_img; so_bridge

theorem bridge_so_swap_xmy_ymx_bin (V a zs q seg view ax tang tof : Int) :
    so_swap_xmy_ymx_bin V a seg view ax tang tof =
      (let r := (⟨.swap_xmy_ymx, V, a, zs, q⟩ : C03.SymOp).onBin ⟨seg, view, ax, tang, tof⟩; (r.seg, r.view, r.ax, r.tang, r.tof)) := by
  unfold so_swap_xmy_ymx_bin; so_bridge

theorem bridge_so_swap_xmy_ymx_vs (V a zs q seg view : Int) :
    so_swap_xmy_ymx_vs V seg view = (let r := (⟨.swap_xmy_ymx, V, a, zs, q⟩ : C03.SymOp).onVS ⟨view, seg⟩; (r.seg, r.view)) := by
  unfold so_swap_xmy_ymx_vs; so_bridge

theorem bridge_so_swap_xmy_ymx_img (V a zs q z y x : Int) :
    so_swap_xmy_ymx_img zs q z y x = (let r := (⟨.swap_xmy_ymx, V, a, zs, q⟩ : C03.SymOp).onVoxel ⟨z, y, x⟩; (r.z, r.y, r.x)) := by
  unfold so_swap_xmy_ymx_img; so_bridge

theorem bridge_so_swap_ymy_zq_bin (V a zs q seg view ax tang tof : Int) :
    so_swap_ymy_zq_bin V a seg view ax tang tof =
      (let r := (⟨.swap_ymy_zq, V, a, zs, q⟩ : C03.SymOp).onBin ⟨seg, view, ax, tang, tof⟩; (r.seg, r.view, r.ax, r.tang, r.tof)) := by
  unfold so_swap_ymy_zq_bin; so_bridge

theorem bridge_so_swap_ymy_zq_vs (V a zs q seg view : Int) :
    so_swap_ymy_zq_vs V seg view = (let r := (⟨.swap_ymy_zq, V, a, zs, q⟩ : C03.SymOp).onVS ⟨view, seg⟩; (r.seg, r.view)) := by
  unfold so_swap_ymy_zq_vs; so_bridge

theorem bridge_so_swap_ymy_zq_img (V a zs q z y x : Int) :
    so_swap_ymy_zq_img zs q z y x = (let r := (⟨.swap_ymy_zq, V, a, zs, q⟩ : C03.SymOp).onVoxel ⟨z, y, x⟩; (r.z, r.y, r.x)) := by
  unfold so_swap_ymy_zq_img; so_bridge

theorem bridge_so_swap_xmx_ymy_bin (V a zs q seg view ax tang tof : Int) :
    so_swap_xmx_ymy_bin V a seg view ax tang tof =
      (let r := (⟨.swap_xmx_ymy, V, a, zs, q⟩ : C03.SymOp).onBin ⟨seg, view, ax, tang, tof⟩; (r.seg, r.view, r.ax, r.tang, r.tof)) := by
  unfold so_swap_xmx_ymy_bin; so_bridge

theorem bridge_so_swap_xmx_ymy_vs (V a zs q seg view : Int) :
    so_swap_xmx_ymy_vs V seg view = (let r := (⟨.swap_xmx_ymy, V, a, zs, q⟩ : C03.SymOp).onVS ⟨view, seg⟩; (r.seg, r.view)) := by
  unfold so_swap_xmx_ymy_vs; so_bridge

theorem bridge_so_swap_xmx_ymy_img (V a zs q z y x : Int) :
    so_swap_xmx_ymy_img zs q z y x = (let r := (⟨.swap_xmx_ymy, V, a, zs, q⟩ : C03.SymOp).onVoxel ⟨z, y, x⟩; (r.z, r.y, r.x)) := by
  unfold so_swap_xmx_ymy_img; so_bridge

theorem bridge_so_swap_xmy_ymx_zq_bin (V a zs q seg view ax tang tof : Int) :
    so_swap_xmy_ymx_zq_bin V a seg view ax tang tof =
      (let r := (⟨.swap_xmy_ymx_zq, V, a, zs, q⟩ : C03.SymOp).onBin ⟨seg, view, ax, tang, tof⟩; (r.seg, r.view, r.ax, r.tang, r.tof)) := by
  unfold so_swap_xmy_ymx_zq_bin; so_bridge

theorem bridge_so_swap_xmy_ymx_zq_vs (V a zs q seg view : Int) :
    so_swap_xmy_ymx_zq_vs V seg view = (let r := (⟨.swap_xmy_ymx_zq, V, a, zs, q⟩ : C03.SymOp).onVS ⟨view, seg⟩; (r.seg, r.view)) := by
  unfold so_swap_xmy_ymx_zq_vs; so_bridge

theorem bridge_so_swap_xmy_ymx_zq_img (V a zs q z y x : Int) :
    so_swap_xmy_ymx_zq_img zs q z y x = (let r := (⟨.swap_xmy_ymx_zq, V, a, zs, q⟩ : C03.SymOp).onVoxel ⟨z, y, x⟩; (r.z, r.y, r.x)) := by
  unfold so_swap_xmy_ymx_zq_img; so_bridge


/-! ## C03: the decision trees choosing the symmetry operation (cylindrical branch)

`find_sym_op_bin0` / `find_sym_op_general_bin` return `new <Class>(args)`; the translator renders that as
`(class index, view180, axial_pos_shift, z_shift, q)` (class index = position in `SO_CLASSES` of tools/c2lean.py, slots a
class's constructor does not take are 0).  `soOf` reads such a tuple as a model `SymOp`.  The two opaque reads of the
source are parameters: `find_transform_z(abs(segment_num), do_symmetry_shift_z ? 0 : axial_pos_num)` ↦ `Sym.transformZ …`,
`num_planes_per_axial_pos[segment_num]` ↦ `Sym.nppa seg`. -/

set_option linter.unusedSimpArgs false

/-- class index (position in `SO_CLASSES` of tools/c2lean.py) → model kind -/
def kindOfIdx (i : Int) : C03.Kind :=
  if i = 1 then .z_shift else if i = 2 then .swap_xmx_zq else if i = 3 then .swap_xmy_yx_zq else if i = 4 then .swap_xy_yx_zq
  else if i = 5 then .swap_xmy_yx else if i = 6 then .swap_xy_yx else if i = 7 then .swap_xmx else if i = 8 then .swap_ymy
  else if i = 9 then .swap_zq else if i = 10 then .swap_xmx_ymy_zq else if i = 11 then .swap_xy_ymx_zq else if i = 12 then .swap_xy_ymx
  else if i = 13 then .swap_xmy_ymx else if i = 14 then .swap_ymy_zq else if i = 15 then .swap_xmx_ymy else if i = 16 then .swap_xmy_ymx_zq
  else .trivial

def soOf (t : Int × Int × Int × Int × Int) : C03.SymOp := ⟨kindOfIdx t.1, t.2.1, t.2.2.1, t.2.2.2.1, t.2.2.2.2⟩

@[simp] theorem soOf_0 (a b c d : Int) : soOf (0, a, b, c, d) = ⟨.trivial, a, b, c, d⟩ := rfl
@[simp] theorem soOf_1 (a b c d : Int) : soOf (1, a, b, c, d) = ⟨.z_shift, a, b, c, d⟩ := rfl
@[simp] theorem soOf_2 (a b c d : Int) : soOf (2, a, b, c, d) = ⟨.swap_xmx_zq, a, b, c, d⟩ := rfl
@[simp] theorem soOf_3 (a b c d : Int) : soOf (3, a, b, c, d) = ⟨.swap_xmy_yx_zq, a, b, c, d⟩ := rfl
@[simp] theorem soOf_4 (a b c d : Int) : soOf (4, a, b, c, d) = ⟨.swap_xy_yx_zq, a, b, c, d⟩ := rfl
@[simp] theorem soOf_5 (a b c d : Int) : soOf (5, a, b, c, d) = ⟨.swap_xmy_yx, a, b, c, d⟩ := rfl
@[simp] theorem soOf_6 (a b c d : Int) : soOf (6, a, b, c, d) = ⟨.swap_xy_yx, a, b, c, d⟩ := rfl
@[simp] theorem soOf_7 (a b c d : Int) : soOf (7, a, b, c, d) = ⟨.swap_xmx, a, b, c, d⟩ := rfl
@[simp] theorem soOf_8 (a b c d : Int) : soOf (8, a, b, c, d) = ⟨.swap_ymy, a, b, c, d⟩ := rfl
@[simp] theorem soOf_9 (a b c d : Int) : soOf (9, a, b, c, d) = ⟨.swap_zq, a, b, c, d⟩ := rfl
@[simp] theorem soOf_10 (a b c d : Int) : soOf (10, a, b, c, d) = ⟨.swap_xmx_ymy_zq, a, b, c, d⟩ := rfl
@[simp] theorem soOf_11 (a b c d : Int) : soOf (11, a, b, c, d) = ⟨.swap_xy_ymx_zq, a, b, c, d⟩ := rfl
@[simp] theorem soOf_12 (a b c d : Int) : soOf (12, a, b, c, d) = ⟨.swap_xy_ymx, a, b, c, d⟩ := rfl
@[simp] theorem soOf_13 (a b c d : Int) : soOf (13, a, b, c, d) = ⟨.swap_xmy_ymx, a, b, c, d⟩ := rfl
@[simp] theorem soOf_14 (a b c d : Int) : soOf (14, a, b, c, d) = ⟨.swap_ymy_zq, a, b, c, d⟩ := rfl
@[simp] theorem soOf_15 (a b c d : Int) : soOf (15, a, b, c, d) = ⟨.swap_xmx_ymy, a, b, c, d⟩ := rfl
@[simp] theorem soOf_16 (a b c d : Int) : soOf (16, a, b, c, d) = ⟨.swap_xmy_ymx_zq, a, b, c, d⟩ := rfl

theorem bridge_find_sym_op_bin0 (y : C03.Sym) (seg view ax : Int) :
    soOf (find_sym_op_bin0 y.V y.d90 y.d180 y.swapSeg y.shiftZ
            (y.transformZ (C03.iabs seg) (if y.shiftZ = true then 0 else ax)) (y.nppa seg) seg view ax)
      = y.symOpBin0 seg view ax := by
  unfold find_sym_op_bin0 C03.Sym.symOpBin0 C03.Sym.mkShift C03.Sym.newOp C03.SymOp.triv
  simp only [Id.run, pure_id]
  cases hd90 : y.d90 <;> cases hd180 : y.d180 <;> cases hs : y.swapSeg <;> cases hz : y.shiftZ
  all_goals simp
  all_goals simp only [apply_ite soOf, soOf_0, soOf_1, soOf_2, soOf_3, soOf_4, soOf_5, soOf_6, soOf_7, soOf_8, soOf_9, soOf_10, soOf_11, soOf_12, soOf_13, soOf_14, soOf_15, soOf_16]
  all_goals first | rfl | ((repeat' split) <;> first | rfl | omega | (exfalso; omega))

theorem bridge_find_sym_op_general_bin (y : C03.Sym) (s seg view ax : Int) :
    soOf (find_sym_op_general_bin y.V y.d90 y.d180 y.swapSeg y.swapS y.shiftZ
            (y.transformZ (C03.iabs seg) (if y.shiftZ = true then 0 else ax)) (y.nppa seg) s seg view ax)
      = y.symOpGeneral s seg view ax := by
  unfold find_sym_op_general_bin C03.Sym.symOpGeneral C03.Sym.mkShift C03.Sym.newOp C03.SymOp.triv
  simp only [Id.run, pure_id]
  cases hd90 : y.d90 <;> cases hd180 : y.d180 <;> cases hs : y.swapSeg <;> cases hss : y.swapS <;> cases hz : y.shiftZ
  all_goals simp
  all_goals simp only [apply_ite soOf, soOf_0, soOf_1, soOf_2, soOf_3, soOf_4, soOf_5, soOf_6, soOf_7, soOf_8, soOf_9, soOf_10, soOf_11, soOf_12, soOf_13, soOf_14, soOf_15, soOf_16]
  all_goals first | rfl | ((repeat' split) <;> first | rfl | omega | (exfalso; omega))


/-! ## C03: `ProjMatrixByBin::cache_key`

The 64-bit packing translated from the source (every `std::uint64_t` operation reduced modulo 2^64, the three field widths read
from the in-class initialisers of `tang_pos_bits`, `axial_pos_bits`, `timing_pos_bits`) equals the model's `cacheKey` whenever the
three coordinates fit their fields — the condition `ProjMatrixByBin::set_up` guards (`C03.keyFits`). -/

theorem u64OfInt_natAbs (x : Int) (h : x.natAbs < 18446744073709551616) : u64OfInt (iabs x) = x.natAbs := by
  unfold u64OfInt iabs
  split <;> omega

theorem u64OfInt_sign (x : Int) : u64OfInt (if (decide (x ≥ 0)) then 0 else 1) = C03.signBit x := by
  unfold u64OfInt C03.signBit
  by_cases h : x ≥ 0 <;> simp [h]

theorem u64shl_of_lt (a s : Nat) (h : a * 2 ^ s < 18446744073709551616) : u64shl a s = a <<< s := by
  unfold u64shl
  rw [Nat.shiftLeft_eq]
  exact Nat.mod_eq_of_lt h

theorem bridge_cache_key (s v ax tang tof : Int) (hax : ax.natAbs < 2 ^ 28) (htg : tang.natAbs < 2 ^ 12) (htf : tof.natAbs < 2 ^ 20) :
    cache_key ax tang tof = C03.cacheKey ⟨s, v, ax, tang, tof⟩ := by
  have e1 : u64add (u64add (u64add 20 12) 28) (u64OfInt 2) = 62 := by decide
  have e2 : u64add (u64add 20 12) (u64OfInt 2) = 34 := by decide
  have e3 : u64add (u64add 20 12) (u64OfInt 1) = 33 := by decide
  have e4 : u64add 20 (u64OfInt 1) = 21 := by decide
  have sb : ∀ x : Int, C03.signBit x ≤ 1 := by intro x; unfold C03.signBit; split <;> omega
  unfold cache_key C03.cacheKey
  simp only [Id.run, pure_id, e1, e2, e3, e4, u64OfInt_sign, C03.timingPosBits, C03.tangPosBits, C03.axialPosBits]
  rw [u64OfInt_natAbs ax (by omega), u64OfInt_natAbs tang (by omega), u64OfInt_natAbs tof (by omega)]
  rw [u64shl_of_lt _ 62 (by have := sb ax; omega), u64shl_of_lt _ 34 (by omega), u64shl_of_lt _ 33 (by have := sb tang; omega),
      u64shl_of_lt _ 21 (by omega), u64shl_of_lt _ 20 (by have := sb tof; omega)]


/-! ## C02: the address arithmetic of projection data (`ProjDataInMemory::get_index`, `ProjDataFromStream::get_offset`)

The whole function bodies are translated: the five range checks (`error(...)` call number k ↦ result `(k, 0)`), the two
`std::find(...) - begin()` look-ups (`vecFind`), the loop over the segments stored before the requested one (`forRange`) and the
arithmetic of both storage orders.  The bridges say: for every layout and every bin — in range or not — the translated function
returns what the model's `getIndex` / `offsetOf` return (`resOf`), given that the accessors `get_max_*` are `min + num - 1`
(`Layout.maxAx / maxView / maxTang`, definitions of `ProjDataInfo`; exercised by tie (C)) and that the layout is one with the view
and tangential range checks the source now has.  64-bit types are unbounded `Int` here, as in the model. -/

theorem vecFind_eq (l : List Int) (a : Int) : vecFind l a = (C02.findIdx l a : Nat) := by
  induction l with
  | nil => simp [vecFind, C02.findIdx]
  | cons x xs ih =>
    simp only [vecFind, C02.findIdx, beq_iff_eq]
    split <;> simp_all

theorem findIdx_le (l : List Int) (a : Int) : C02.findIdx l a ≤ l.length := by
  induction l with
  | nil => simp [C02.findIdx]
  | cons x xs ih => simp only [C02.findIdx]; split <;> simp <;> omega

/-- the loop `for (i = k; i < k + n; i++) s += f(v[i])` adds the values of `f` on the slice `v[k .. k+n)` -/
theorem forRange_sum (l : List Int) (f : Int → Int) (n : Nat) :
    ∀ (k : Nat) (s : Int), k + n ≤ l.length →
      forRange (k : Int) n (fun i acc => acc + f (vecGet l i)) s = s + (((l.drop k).take n).map f).sum := by
  induction n with
  | zero => intro k s _; simp [forRange]
  | succ n ih =>
    intro k s h
    have hk : k < l.length := by omega
    have hd : l.drop k = l[k] :: l.drop (k + 1) := List.drop_eq_getElem_cons hk
    have hg : vecGet l (k : Int) = l[k] := by
      have : ¬ ((k : Int) < 0) := by omega
      simp [vecGet, this, List.getD_eq_getElem?_getD, List.getElem?_eq_getElem hk]
    have := ih (k + 1) (s + f (vecGet l (k : Int))) (by omega)
    simp only [forRange]
    rw [show ((k : Int) + 1) = ((k + 1 : Nat) : Int) by omega, this, hd, hg]
    simp only [List.take_succ_cons, List.map_cons, List.sum_cons]
    omega

def errCode : C02.Err → Int
  | .segRange => 1 | .axRange => 2 | .tofRange => 3 | .viewRange => 4 | .tangRange => 5

def resOf : Except C02.Err Int → Int × Int
  | .error e => (errCode e, 0)
  | .ok v => (0, v)

theorem axBefore_eq (l : C02.Layout) (seg : Int) :
    forRange 0 (C02.findIdx l.segSeq seg) (fun i acc => acc + l.numAx (vecGet l.segSeq i)) 0
      = C02.axBefore l (C02.findIdx l.segSeq seg) := by
  have h := forRange_sum l.segSeq l.numAx (C02.findIdx l.segSeq seg) 0 0 (by simpa using findIdx_le _ _)
  simpa [C02.axBefore] using h

theorem bridge_get_index (l : C02.Layout) (b : C02.Bin) (maxAx : Int → Int) (maxView maxTang : Int)
    (hax : ∀ s, maxAx s = l.maxAx s) (hv : maxView = l.maxView) (ht : maxTang = l.maxTang)
    (hcv : l.checkView = true) (hct : l.checkTang = true) :
    get_index l.segSeq l.tofSeq l.minSeg l.maxSeg l.minAx maxAx l.numAx l.minView maxView l.numViews l.minTang maxTang l.numTang
        l.minTof l.maxTof l.numTof l.offset3d b.seg b.view b.ax b.tang b.tof
      = resOf (C02.getIndex l b) := by
  subst hv ht
  simp only [get_index, C02.getIndex, Id.run, pure_id, hax, hcv, hct, resOf] at *
  simp only [vecFind_eq]
  by_cases h1 : (l.minSeg ≤ b.seg ∧ b.seg ≤ l.maxSeg) <;>
  by_cases h2 : (l.minAx b.seg ≤ b.ax ∧ b.ax ≤ l.maxAx b.seg) <;>
  by_cases h3 : (l.minTof ≤ b.tof ∧ b.tof ≤ l.maxTof) <;>
  by_cases h4 : (l.minView ≤ b.view ∧ b.view ≤ l.maxView) <;>
  by_cases h5 : (l.minTang ≤ b.tang ∧ b.tang ≤ l.maxTang) <;>
  by_cases h6 : (l.numTof > 1) <;>
  simp [h1, h2, h3, h4, h5, h6, errCode, axBefore_eq]

/-- the value of the enumerator of `ProjDataFromStream::StorageOrder` that stands for a model order, with or without the
    `Timing_` prefix (the two are handled by the same branch of the source) -/
def orderCode (o : C02.Order) (timing : Bool) : Int :=
  match o, timing with
  | .savt, false => 0 | .savt, true => 1 | .svat, false => 2 | .svat, true => 3

theorem bridge_get_offset (l : C02.Layout) (b : C02.Bin) (maxAx : Int → Int) (maxView maxTang : Int) (timing : Bool)
    (hax : ∀ s, maxAx s = l.maxAx s) (hv : maxView = l.maxView) (ht : maxTang = l.maxTang)
    (hcv : l.checkView = true) (hct : l.checkTang = true) :
    get_offset l.segSeq l.tofSeq l.minSeg l.maxSeg l.minAx maxAx l.numAx l.minView maxView l.numViews l.minTang maxTang l.numTang
        l.minTof l.maxTof l.numTof (orderCode l.order timing) l.elemSize l.offset l.offset3d b.seg b.view b.ax b.tang b.tof
      = resOf (C02.offsetOf l b) := by
  subst hv ht
  simp only [get_offset, C02.offsetOf, C02.rawOffset, Id.run, pure_id, hax, hcv, hct, resOf] at *
  simp only [vecFind_eq]
  by_cases h1 : (l.minSeg ≤ b.seg ∧ b.seg ≤ l.maxSeg) <;>
  by_cases h2 : (l.minAx b.seg ≤ b.ax ∧ b.ax ≤ l.maxAx b.seg) <;>
  by_cases h3 : (l.minTof ≤ b.tof ∧ b.tof ≤ l.maxTof) <;>
  by_cases h4 : (l.minView ≤ b.view ∧ b.view ≤ l.maxView) <;>
  by_cases h5 : (l.minTang ≤ b.tang ∧ b.tang ≤ l.maxTang) <;>
  by_cases h6 : (l.numTof > 1) <;>
  cases ho : l.order <;> cases timing <;>
  simp [h1, h2, h3, h4, h5, h6, errCode, axBefore_eq, orderCode]

/-- any other value of the storage order is the sixth `error(...)` call of the source (after the five range checks) -/
theorem bridge_get_offset_unsupported (l : C02.Layout) (b : C02.Bin) (ord : Int)
    (hord : ord ≠ 0 ∧ ord ≠ 1 ∧ ord ≠ 2 ∧ ord ≠ 3) (hok : ∃ v, C02.offsetOf l b = .ok v)
    (hcv : l.checkView = true) (hct : l.checkTang = true) :
    get_offset l.segSeq l.tofSeq l.minSeg l.maxSeg l.minAx l.maxAx l.numAx l.minView l.maxView l.numViews l.minTang l.maxTang l.numTang
        l.minTof l.maxTof l.numTof ord l.elemSize l.offset l.offset3d b.seg b.view b.ax b.tang b.tof = (6, 0) := by
  obtain ⟨v, hv⟩ := hok
  simp only [get_offset, C02.offsetOf, Id.run, pure_id, hcv, hct] at *
  by_cases h1 : (l.minSeg ≤ b.seg ∧ b.seg ≤ l.maxSeg) <;>
  by_cases h2 : (l.minAx b.seg ≤ b.ax ∧ b.ax ≤ l.maxAx b.seg) <;>
  by_cases h3 : (l.minTof ≤ b.tof ∧ b.tof ≤ l.maxTof) <;>
  by_cases h4 : (l.minView ≤ b.view ∧ b.view ≤ l.maxView) <;>
  by_cases h5 : (l.minTang ≤ b.tang ∧ b.tang ≤ l.maxTang) <;>
  simp [h1, h2, h3, h4, h5, hord.1, hord.2.1, hord.2.2.1, hord.2.2.2] at hv ⊢


/-! ## C20: `FanProjData`, `GeoData3D`, `DetPairData` of ML_norm.cxx

Which element of the underlying array an access `operator()(…)` goes to (`index_tuple` kernels: the tuple of `[]` indices of the
returned element), the membership tests `is_in_data`, `get_min_rb`, and the index ranges the constructors allocate (`call_args`
kernels: the arguments of `fan_indices[ra][a].grow(…)` and of `fan_indices[ra][a][rb] = IndexRange<1>(…)`).  `get_min_b / get_max_b`
read the allocated ranges back: that the array returns what was allocated is `IndexRange` / `Array` behaviour (C11, tie (C)). -/

/-- `FanProjData::operator()(ra, a, rb, b)`: the element of the underlying `Array<4,float>` that is accessed -/
theorem bridge_fan_key (d : C20.Dims) (ra a rb b : Int) :
    fan_key d.N d.minB ra a rb b = d.storeKey ra a rb b := by
  simp only [fan_key, C20.Dims.storeKey, Id.run, pure_id, decide_eq_true_eq]

/-- `FanProjData::is_in_data`; `(*this)[ra][a].get_min_index() / get_max_index()` are the bounds the constructor allocates
    (`bridge_fan_ctor_rb_range`) -/
theorem bridge_fan_is_in_data (d : C20.Dims) (ra a rb b : Int) :
    fan_is_in_data d.N d.minB d.maxB (d.loRb ra) (d.maxRb ra) ra a rb b = d.isInData ra a rb b := by
  simp only [fan_is_in_data, C20.Dims.isInData, Id.run, pure_id]
  bridge_split

theorem bridge_fan_min_rb (d : C20.Dims) (ra : Int) : fan_min_rb d.md ra = d.minRb ra := by
  simp only [fan_min_rb, C20.Dims.minRb, Id.run, pure_id]

/-- the `rb` range allocated for `[ra][a]` by `FanProjData::FanProjData(num_rings, num_detectors_per_ring, max_ring_diff, fan_size)` -/
theorem bridge_fan_ctor_rb_range (d : C20.Dims) (ra : Int) :
    fan_ctor_rb_range d.R d.md ra = (d.loRb ra, d.maxRb ra) := by
  simp only [fan_ctor_rb_range, C20.Dims.loRb, C20.Dims.maxRb, C20.Dims.minRb, Id.run, pure_id]

/-- the `b` range allocated for `[ra][a][rb]` by the same constructor (`half_fan_size` is the member, `fan_size / 2`) -/
theorem bridge_fan_ctor_b_range (d : C20.Dims) (a : Int) :
    fan_ctor_b_range d.N d.h a = (d.minB a, d.maxB a) := by
  simp only [fan_ctor_b_range, C20.Dims.minB, C20.Dims.maxB, Id.run, pure_id]

/-- `GeoData3D::operator()`: `get_min_b(a) = a` is the first bound of `bridge_geo_ctor_b_range` -/
theorem bridge_geo_key (g : C20.GeoDims) (ra a rb b : Int) :
    geo_key g.N (fun a => (geo_ctor_b_range g.N a).1) ra a rb b = g.storeKey ra a rb b := by
  simp only [geo_key, geo_ctor_b_range, C20.GeoDims.storeKey, Id.run, pure_id]
  by_cases h : b < a <;> simp [h]

theorem bridge_geo_ctor_b_range (g : C20.GeoDims) (a : Int) : geo_ctor_b_range g.N a = (a, a + g.N - 1) := by
  simp only [geo_ctor_b_range, Id.run, pure_id]

/-- `GeoData3D::GeoData3D`: `[ra][a]` holds `rb = ra .. num_rings - 1` (only the half `ra ≤ rb` is stored) -/
theorem bridge_geo_ctor_rb_range (g : C20.GeoDims) (ra : Int) : geo_ctor_rb_range g.R ra = (ra, g.R - 1) := by
  simp only [geo_ctor_rb_range, Id.run, pure_id]

/-- `DetPairData::operator()(a, b)`: element `[a][b']` of the `Array<2,float>`; the model's key is `(0, a, 0, b')` -/
theorem bridge_dp_key (d : C20.DPDims) (a b : Int) :
    (let r := dp_key d.N d.minB a b; ((0 : Int), r.1, (0 : Int), r.2)) = d.storeKey a b := by
  simp only [dp_key, C20.DPDims.storeKey, Id.run, pure_id, decide_eq_true_eq]

theorem bridge_dp_is_in_data (d : C20.DPDims) (a b : Int) :
    dp_is_in_data d.N d.minB d.maxB a b = d.isInData a b := by
  simp only [dp_is_in_data, C20.DPDims.isInData, Id.run, pure_id]
  bridge_split


/-! the non-const overloads `float& operator()(…)`, through which every write goes, have bodies of their own in the source -/

theorem bridge_fan_key_nc (d : C20.Dims) (ra a rb b : Int) :
    fan_key_nc d.N d.minB ra a rb b = d.storeKey ra a rb b := by
  simp only [fan_key_nc, C20.Dims.storeKey, Id.run, pure_id, decide_eq_true_eq]

theorem bridge_geo_key_nc (g : C20.GeoDims) (ra a rb b : Int) :
    geo_key_nc g.N (fun a => (geo_ctor_b_range g.N a).1) ra a rb b = g.storeKey ra a rb b := by
  simp only [geo_key_nc, geo_ctor_b_range, C20.GeoDims.storeKey, Id.run, pure_id]
  by_cases h : b < a <;> simp [h]

theorem bridge_dp_key_nc (d : C20.DPDims) (a b : Int) :
    (let r := dp_key_nc d.N d.minB a b; ((0 : Int), r.1, (0 : Int), r.2)) = d.storeKey a b := by
  simp only [dp_key_nc, C20.DPDims.storeKey, Id.run, pure_id, decide_eq_true_eq]

end StirVerif.Gen
