/-
C13 — proofs about ONE normalisation object that goes through constructors, `parse` and `set_up` (`FpdObj`, `AttenObj`,
`ChainObj`) and about the geometry `BinNormalisationFromProjData::set_up` compares for TOF data (`fromProjDataSetUpTof`).
-/
import StirVerif.C13.Proofs

namespace StirVerif.C13

set_option linter.unusedSectionVars false

variable {K : Type} [Field K] [LinearOrder K] [IsStrictOrderedRing K]

/-! ### `BinNormalisationFromProjData` through `parse` / `set_up` -/

theorem fpdObj_run_append (o : FpdObj K) (hs hs' : List (FpdStep K)) :
    FpdObj.run o (hs ++ hs') = (FpdObj.run o hs).bind fun o' => FpdObj.run o' hs' := by
  induction hs generalizing o with
  | nil => simp [FpdObj.run]
  | cons s r ih =>
    cases s with
    | parse f =>
      simp only [List.cons_append, FpdObj.run, FpdObj.parse, Option.map_some, Option.bind_some]
      exact ih _
    | setUp a =>
      simp only [List.cons_append, FpdObj.run]
      cases o.setUp a with
      | none => rfl
      | some p => simp [ih]

/-- `parse` of a readable file followed by `set_up`: the object holds the factors of THAT file and is set up, whatever it
    held before -/
theorem fpdObj_parse_setUp (o : FpdObj K) (f : (Bin → K) × Bool) (acc : Bool) :
    FpdObj.run o [.parse f, .setUp acc] = some ⟨some f, true⟩ := by
  simp [FpdObj.run, FpdObj.parse, FpdObj.setUp]

/-- `set_up` alone keeps the factors -/
theorem fpdObj_setUp_factors (o o' : FpdObj K) (acc r : Bool) (h : o.setUp acc = some (o', r)) :
    o'.factors = o.factors ∧ o'.setUpDone = true ∧ r = acc ∧ o.factors.isSome := by
  unfold FpdObj.setUp at h
  cases hf : o.factors with
  | none => simp [hf] at h
  | some f =>
    simp only [hf, Option.some.injEq, Prod.mk.injEq] at h
    obtain ⟨h1, h2⟩ := h
    subst h1
    exact ⟨by simp, rfl, h2.symm, rfl⟩

theorem fpdObj_observe (E : K → K) (floor : K) (f : (Bin → K) × Bool) (b : Bin) (v : K) :
    (⟨some f, true⟩ : FpdObj K).norm? = some (.fromProjData f.1 f.2) ∧
      (⟨some f, true⟩ : FpdObj K).undo E b v = undo E (.fromProjData f.1 f.2) b v ∧
      (⟨some f, true⟩ : FpdObj K).apply E floor b v = apply E floor (.fromProjData f.1 f.2) b v := by
  simp [FpdObj.norm?, FpdObj.undo, FpdObj.apply]

/-! ### `BinNormalisationFromAttenuationImage` through constructors / `parse` / `set_up` -/

theorem lineIntegralK_one (vx : K) (row : List (K × K)) : lineIntegralK vx 1 row = lineIntegral vx row := by
  simp [lineIntegralK, lineIntegral, rescaled]

/-- the exponent after `k` rescalings is `rescale^k` times … — here: one more rescaling multiplies the line integral by `rescale` -/
theorem lineIntegralK_succ (vx : K) (k : Nat) (row : List (K × K)) :
    lineIntegralK vx (k + 1) row = lineIntegralK vx k row * attenRescale vx := by
  unfold lineIntegralK
  have : ∀ (acc : K), List.foldl (fun acc p => acc + p.1 * rescaled vx (k + 1) p.2) (acc * attenRescale vx) row =
      List.foldl (fun acc p => acc + p.1 * rescaled vx k p.2) acc row * attenRescale vx := by
    induction row with
    | nil => intro acc; rfl
    | cons p r ih =>
      intro acc
      simp only [List.foldl_cons]
      rw [← ih]
      congr 1
      simp only [rescaled]
      ring
  simpa using this 0

/-- `post_processing` with a file name known: it reads the file and rescales once, whatever the object held -/
theorem attenObj_postProcessing_file {ι : Type} (o : AttenObj ι K) (file : ι) :
    o.postProcessing (some file) = some { o with img := some (file, 1) } := by
  simp [AttenObj.postProcessing]

/-- `post_processing` without a file name on an object that holds a rescaled image: nothing changes -/
theorem attenObj_postProcessing_held {ι : Type} (o : AttenObj ι K) (i : ι) (k : Nat) (h : o.img = some (i, k + 1)) :
    o.postProcessing none = some { o with img := some (i, k + 1) } := by
  simp [AttenObj.postProcessing, h]

theorem attenObj_setUp_observe {ι : Type} (E : K → K) (floor : K) (o o' : AttenObj ι K) (i : ι) (numTofPoss : Int)
    (images : ι → K × (Bin → List (K × K))) (hi : o.img = some (i, 1)) (h : o.setUp numTofPoss images = some o') :
    o'.img = some (i, 1) ∧ ∀ b v, o'.undo E b v = undo E (.fromAtten (images i).1 (images i).2) b v ∧
      o'.apply E b v = apply E floor (.fromAtten (images i).1 (images i).2) b v := by
  unfold AttenObj.setUp at h
  split at h
  · simp only [hi, Option.map_some, Option.some.injEq] at h
    subst h
    refine ⟨rfl, fun b v => ?_⟩
    simp [AttenObj.undo, AttenObj.apply, undo, apply, lineIntegralK_one]
  · exact absurd h (by simp)

/-! ### `ChainedBinNormalisation` through `parse` / `set_up` -/

theorem chainObj_parse_both {ι : Type} (o : ChainObj ι) (a b : Option ι) :
    o.parse (some a) (some b) true = some ⟨a, b, o.ownSetUp, false⟩ := by
  simp [ChainObj.parse, MemberKey.applyTo]

end StirVerif.C13
