/-
C13 — "Bin normalisation: apply and undo are inverse and match the bin efficiency".
Property theorems over the model of `Model.lean`, for every normalisation object (any nesting of chains), every bin,
every data value, every linearly ordered field `K` (the driver runs `K = Rat`) and every function `E : K → K` in the
place of `exp` (only `E (x + y) = E x * E y` and `0 < E x` are used, where stated).
`trueEff E n b` is the bin's efficiency as a field element; `Defined`, `AboveFloor`, `PosInputs` (Proofs.lean) are the
explicit side conditions.
-/
import StirVerif.C13.Proofs
import StirVerif.C13.ProofsHistory
import StirVerif.C13.ProofsParse
import Mathlib.Analysis.Complex.Exponential

namespace StirVerif.C13

set_option linter.unusedSectionVars false

variable {K : Type} [Field K] [LinearOrder K] [IsStrictOrderedRing K]

/-- "undoing the normalisation multiplies each bin by one fixed … factor, its efficiency": whenever `undo` returns a
    finite value at all, it is the input times `trueEff`, a factor that does not depend on the data value; and it returns
    a finite value exactly when no stored factor it divides by is zero. -/
theorem C13_undo_is_pointwise_eff (E : K → K) (n : Norm K) (b : Bin) (v : K) :
    (∀ w, undo E n b v = some w → w = v * trueEff E n b) ∧ ((undo E n b v).isSome ↔ Defined E n b) :=
  ⟨fun w h => undo_eq_some E n b v w h, undo_isSome_iff E n b v⟩

/-- the same, as an equation, under the side condition -/
theorem C13_undo_defined (E : K → K) (n : Norm K) (b : Bin) (v : K) (h : Defined E n b) :
    undo E n b v = some (v * trueEff E n b) :=
  undo_of_defined E n b v h

/-- "… one fixed positive factor": positive factor data give a positive efficiency (and then nothing is divided by 0) -/
theorem C13_eff_pos (E : K → K) (n : Norm K) (b : Bin) (h : PosInputs E n b) :
    0 < trueEff E n b ∧ Defined E n b :=
  ⟨trueEff_pos E n b h, defined_of_pos E n b h⟩

/-- "… which equals the efficiency the object reports for that bin where it reports one" -/
theorem C13_reported_is_eff (E : K → K) (n : Norm K) (b : Bin) (e : K) (h : reported n b = some e) :
    e = trueEff E n b ∧ ∀ v, undo E n b v = some (v * e) := by
  obtain ⟨he, hd⟩ := reported_eq E n b e h
  exact ⟨he, fun v => by rw [he]; exact undo_of_defined E n b v hd⟩

/-- the classes that report no efficiency (`get_bin_efficiency` calls `error`), and chains containing one -/
theorem C13_reported_none (f : Bin → K) (t : Bool) (vx : K) (row : Bin → List (K × K)) (m : Norm K) (b : Bin) :
    reported (.fromProjData f t) b = none ∧ reported (.fromAtten vx row) b = none ∧
      reported (.chained (.fromProjData f t) m) b = none ∧ reported (.chained m (.fromAtten vx row)) b = none := by
  refine ⟨rfl, rfl, rfl, ?_⟩
  simp only [reported]
  cases reported m b <;> rfl

/-- "applying divides by the same factor" — where the efficiency is at least the floor `1e-20` (objects using the
    base-class `apply`) resp. non-zero (components) -/
theorem C13_apply_is_pointwise_inv (E : K → K) (floor : K) (hf : 0 < floor) (n : Norm K) (b : Bin) (v : K)
    (hd : Defined E n b) (ha : AboveFloor E floor n b) :
    apply E floor n b v = some (v / trueEff E n b) :=
  apply_of_aboveFloor E floor hf n b v hd ha

/-- "apply followed by undo restores the data wherever the efficiency is non-zero" (here: at least the floor), in both orders -/
theorem C13_apply_undo_id (E : K → K) (floor : K) (hf : 0 < floor) (n : Norm K) (b : Bin) (v : K)
    (hd : Defined E n b) (ha : AboveFloor E floor n b) :
    (apply E floor n b v).bind (undo E n b) = some v ∧ (undo E n b v).bind (apply E floor n b) = some v ∧
      trueEff E n b ≠ 0 :=
  ⟨undo_apply_id E floor hf n b v hd ha, apply_undo_id E floor hf n b v hd ha, trueEff_ne_zero E floor hf n b hd ha⟩

/-- the exact statement of what happens below the floor (base-class `apply`): the value is divided by the floor, so
    apply-then-undo multiplies by `efficiency / floor` instead of restoring the data -/
theorem C13_apply_below_floor (E : K → K) (floor : K) (hf : 0 < floor) (e : Bin → K) (b : Bin) (v : K)
    (h : ¬ floor < e b) :
    apply E floor (.table e) b v = some (v / floor) ∧
      (undo E (.table e) b v).bind (apply E floor (.table e) b) = some (v * e b / floor) ∧
      (apply E floor (.table e) b v).bind (undo E (.table e) b) = some (v / floor * e b) :=
  apply_table_below_floor E floor hf e b v h

/-- … and at efficiency 0 for the components class (`divide` with `0/0 = 0`): zero stays zero, anything else is not finite -/
theorem C13_components_zero_eff (E : K → K) (floor : K) (c : Components K) (b : Bin) (v : K) (h : c.invnorm b = 0) :
    apply E floor (.fromComponents c) b v = (if v = 0 then some 0 else none) ∧ undo E (.fromComponents c) b v = some 0 := by
  refine ⟨apply_components_zero_eff E floor c b v h, ?_⟩
  simp [undo, h]

/-- the components class multiplies "efficiencies × geo × block factors" (inside the fan).  Since the extension of the
    harness the three per-bin tables of the `Components` structure are, for the `comphand…` cases, built by hand from the raw
    component arrays (crystal pair of the bin, symmetry class of the pair by union-find, pair of blocks; scanners with several
    blocks per bucket), so this theorem is tied to `create_proj_data` / `apply_geo_norm` / `apply_block_norm` /
    `apply_efficiencies` and not only to the multiplication -/
theorem C13_components_eff_is_product (c : Components K) (b : Bin) :
    reported (.fromComponents c) b = some (if c.inFan b then
        (match c.block with | some B => B b | none => 1) *
        (match c.eff with | some (ea, eb) => ea b * eb b | none => 1) *
        (match c.geo with | some g => g b | none => 1)
      else 0) := by
  simp only [reported]
  exact congrArg some (invnorm_eq c b)

/-- `BinNormalisationFromProjData`: `apply` multiplies by the stored factor, `undo` divides by it (efficiency = 1/factor);
    `BinNormalisationWithCalibration`: efficiency = uncalibrated efficiency / (calibration factor × branching ratio) -/
theorem C13_directions (E : K → K) (floor : K) (f u : Bin → K) (t : Bool) (c br : K) (b : Bin) (v : K) :
    apply E floor (.fromProjData f t) b v = some (v * f (factorKey t b)) ∧
      trueEff E (.fromProjData f t) b = 1 / f (factorKey t b) ∧
      trueEff E (.calib u c br) b = u b / (c * br) :=
  ⟨rfl, rfl, rfl⟩

/-- "A chain has the product of its members' efficiencies": for a chain of any length, the efficiency is the product
    of the members' efficiencies; the reported efficiency is the product of the reported ones when every member
    reports one, and nothing is reported as soon as one member reports nothing -/
theorem C13_chain_eff_prod (E : K → K) (ns : List (Norm K)) (b : Bin) :
    trueEff E (chainOf ns) b = (ns.map fun n => trueEff E n b).prod ∧
      (∀ es : List K, ns.map (fun n => reported n b) = es.map some → reported (chainOf ns) b = some es.prod) ∧
      (∀ n ∈ ns, reported n b = none → reported (chainOf ns) b = none) :=
  ⟨trueEff_chainOf E ns b, fun es h => reported_chainOf ns b es h, fun n hn h => reported_chainOf_none ns b n hn h⟩

/-- binary chains (the class itself): product, independent of the order of the members (the correspondence now also
    runs chains with a null member on either side, for which see `C13_chain_null_member`; and, since the third extension,
    nested chains that are set up again after their members' factors were changed in place / for another geometry: only the
    outer chain's `set_up` is called, the model is given the members as they are then) -/
theorem C13_chain_binary (E : K → K) (n1 n2 : Norm K) (b : Bin) :
    trueEff E (.chained n1 n2) b = trueEff E n1 b * trueEff E n2 b ∧
      trueEff E (.chained n1 n2) b = trueEff E (.chained n2 n1) b := by
  simp [trueEff, mul_comm]

/-- apply and undo of a chain of any length are inverse when this holds for every member's side conditions -/
theorem C13_chain_apply_undo (E : K → K) (floor : K) (hf : 0 < floor) (ns : List (Norm K)) (b : Bin) (v : K)
    (hd : ∀ n ∈ ns, Defined E n b) (ha : ∀ n ∈ ns, AboveFloor E floor n b) :
    (apply E floor (chainOf ns) b v).bind (undo E (chainOf ns) b) = some v ∧
      (undo E (chainOf ns) b v).bind (apply E floor (chainOf ns) b) = some v :=
  ⟨undo_apply_id E floor hf _ b v ((defined_chainOf E ns b).mpr hd) ((aboveFloor_chainOf E floor ns b).mpr ha),
   apply_undo_id E floor hf _ b v ((defined_chainOf E ns b).mpr hd) ((aboveFloor_chainOf E floor ns b).mpr ha)⟩

/-- "a normalisation that reports itself trivial changes nothing" — with the tolerance of `is_trivial` set to 0,
    for bins inside the fan, and provided the recorded min/max of each component bound its values -/
theorem C13_trivial_id_partial (E : K → K) (floor : K) (n : Norm K) (h : isTrivial 0 n = true)
    (hr : ∀ c, n = .fromComponents c → c.RangeOK) (b : Bin) (hb : ∀ c, n = .fromComponents c → c.inFan b = true) (v : K) :
    apply E floor n b v = some v ∧ undo E n b v = some v ∧ reported n b = some 1 := by
  cases n with
  | trivial => simp [apply, undo, reported]
  | fromComponents c =>
    have h1 := invnorm_of_trivial c (hr c rfl) h b (hb c rfl)
    simp [apply, undo, reported, h1, divide0, fdiv]
  | _ => simp [isTrivial] at h

/-- … and with the real tolerance (`.0001` per component array, any `0 ≤ tol ≤ 1`): a components object that reports itself
    trivial changes every in-fan bin by a factor between `(1-tol)^4` and `(1+tol)^4` (block × two crystals × geometric factor) -/
theorem C13_trivial_within_tolerance (E : K → K) (tol : K) (c : Components K) (h0 : 0 ≤ tol) (h1 : tol ≤ 1)
    (hr : c.RangeOK) (ht : isTrivial tol (.fromComponents c) = true) (b : Bin) (hb : c.inFan b = true) (v : K) (hv : 0 ≤ v) :
    ∃ w, undo E (.fromComponents c) b v = some w ∧ v * (1 - tol) ^ 4 ≤ w ∧ w ≤ v * (1 + tol) ^ 4 := by
  obtain ⟨lo, hi⟩ := invnorm_within c tol h0 h1 hr ht b hb
  exact ⟨v * c.invnorm b, rfl, mul_le_mul_of_nonneg_left lo hv, mul_le_mul_of_nonneg_left hi hv⟩

/-- "A chain has the product of its members' efficiencies" — for the partial application of a chain
    (`ChainedBinNormalisation::apply_only_first/second`, `undo_only_first/second`): each half multiplies (divides) by the
    efficiency of that member alone, the two halves one after the other are the chain, and each half is inverted by its own
    counterpart under that member's side conditions -/
theorem C13_chain_partial (E : K → K) (floor : K) (hf : 0 < floor) (n1 n2 : Norm K) (b : Bin) (v : K) :
    (applyOnlyFirst E floor n1 n2 b v).bind (applyOnlySecond E floor n1 n2 b) = apply E floor (.chained n1 n2) b v ∧
      (undoOnlyFirst E n1 n2 b v).bind (undoOnlySecond E n1 n2 b) = undo E (.chained n1 n2) b v ∧
      (∀ w, undoOnlyFirst E n1 n2 b v = some w → w = v * trueEff E n1 b) ∧
      (∀ w, undoOnlySecond E n1 n2 b v = some w → w = v * trueEff E n2 b) ∧
      trueEff E (.chained n1 n2) b = trueEff E n1 b * trueEff E n2 b ∧
      (Defined E n1 b → AboveFloor E floor n1 b →
        applyOnlyFirst E floor n1 n2 b v = some (v / trueEff E n1 b) ∧
        (applyOnlyFirst E floor n1 n2 b v).bind (undoOnlyFirst E n1 n2 b) = some v ∧
        (undoOnlyFirst E n1 n2 b v).bind (applyOnlyFirst E floor n1 n2 b) = some v) ∧
      (Defined E n2 b → AboveFloor E floor n2 b →
        applyOnlySecond E floor n1 n2 b v = some (v / trueEff E n2 b) ∧
        (applyOnlySecond E floor n1 n2 b v).bind (undoOnlySecond E n1 n2 b) = some v ∧
        (undoOnlySecond E n1 n2 b v).bind (applyOnlySecond E floor n1 n2 b) = some v) :=
  ⟨rfl, rfl, fun w h => undo_eq_some E n1 b v w h, fun w h => undo_eq_some E n2 b v w h, rfl,
   fun hd ha => ⟨apply_of_aboveFloor E floor hf n1 b v hd ha, undo_apply_id E floor hf n1 b v hd ha,
     apply_undo_id E floor hf n1 b v hd ha⟩,
   fun hd ha => ⟨apply_of_aboveFloor E floor hf n2 b v hd ha, undo_apply_id E floor hf n2 b v hd ha,
     apply_undo_id E floor hf n2 b v hd ha⟩⟩

/-- a chain with one null member (either side) is its other member: same `apply`, `undo`, efficiency and reported
    efficiency; the half that addresses the null member does nothing and `is_first/second_trivial` of it is an error -/
theorem C13_chain_null_member (E : K → K) (floor tol : K) (n : Norm K) (b : Bin) (v : K) :
    apply E floor (.chained n .null) b v = apply E floor n b v ∧ apply E floor (.chained .null n) b v = apply E floor n b v ∧
      undo E (.chained n .null) b v = undo E n b v ∧ undo E (.chained .null n) b v = undo E n b v ∧
      trueEff E (.chained n .null) b = trueEff E n b ∧ trueEff E (.chained .null n) b = trueEff E n b ∧
      reported (.chained n .null) b = reported n b ∧ reported (.chained .null n) b = reported n b ∧
      applyOnlySecond E floor n .null b v = some v ∧ undoOnlySecond E n .null b v = some v ∧
      applyOnlyFirst E floor .null n b v = some v ∧ undoOnlyFirst E .null n b v = some v ∧
      isSecondTrivial tol n .null = none ∧ isFirstTrivial tol .null n = none :=
  ⟨apply_chain_null_right E floor n b v, apply_chain_null_left E floor n b v, undo_chain_null_right E n b v,
   undo_chain_null_left E n b v, by simp [trueEff], by simp [trueEff], reported_chain_null_right n b,
   reported_chain_null_left n b, rfl, rfl, rfl, rfl, rfl, rfl⟩

/-- "a normalisation that reports itself trivial changes nothing" — for a member of a chain asked through
    `is_first_trivial()` / `is_second_trivial()`: the corresponding half of the chain changes nothing (same side
    conditions as `C13_trivial_id_partial`: tolerance 0, in-fan bins, recorded ranges bound the values) -/
theorem C13_chain_member_trivial_partial (E : K → K) (floor : K) (n1 n2 : Norm K) (b : Bin) (v : K) :
    (isFirstTrivial 0 n1 n2 = some true → (∀ c, n1 = .fromComponents c → c.RangeOK ∧ c.inFan b = true) →
        applyOnlyFirst E floor n1 n2 b v = some v ∧ undoOnlyFirst E n1 n2 b v = some v) ∧
      (isSecondTrivial 0 n1 n2 = some true → (∀ c, n2 = .fromComponents c → c.RangeOK ∧ c.inFan b = true) →
        applyOnlySecond E floor n1 n2 b v = some v ∧ undoOnlySecond E n1 n2 b v = some v) := by
  constructor
  · intro h hc
    have := C13_trivial_id_partial E floor n1 (isTrivial_of_isFirstTrivial 0 n1 n2 h) (fun c hn => (hc c hn).1) b
      (fun c hn => (hc c hn).2) v
    exact ⟨this.1, this.2.1⟩
  · intro h hc
    have := C13_trivial_id_partial E floor n2 (isTrivial_of_isSecondTrivial 0 n1 n2 h) (fun c hn => (hc c hn).1) b
      (fun c hn => (hc c hn).2) v
    exact ⟨this.1, this.2.1⟩

/-- anchor "`_already_set_up / proj_data_info_sptr`: geometry the object was set up for (checked on use)":
    `apply/undo(RelatedViewgrams&)` of any object (any nesting of chains) runs iff every member that has a check was set up for
    a geometry `>=` that of the data — the set-up state of a chain itself, of a `TrivialBinNormalisation` and of null members
    is not looked at; the whole-data versions additionally need the object's own state and equal `ExamInfo` -/
theorem C13_use_is_checked (examEq : Bool) (t : UseTree) :
    (useRV t = true ↔ t.AllSetUp) ∧
      (useWhole examEq t = true ↔ ownCheck t = true ∧ examEq = true ∧ t.AllSetUp) := by
  refine ⟨useRV_iff t, ?_⟩
  simp [useWhole, useRV_iff, and_assoc]

/-- the two refusals by `error()` in `set_up`: the attenuation class on TOF data (TOF mashing factor `> 0`: also TOF data mashed
    to ONE TOF bin — repaired code, fix C13-2; before it the test was the number of TOF positions and such data were accepted,
    known finding `atten:tof-data-with-one-tof-bin:…`), the components class on TOF data, data with view mashing or data with
    axial compression -/
theorem C13_set_up_refusals (tofMashFactor : Int) (tof mash span : Bool) :
    (fromAttenSetUp tofMashFactor = true ↔ tofMashFactor ≤ 0) ∧
      (componentsSetUp tof mash span = true ↔ tof = false ∧ mash = false ∧ span = false) := by
  constructor
  · simp [fromAttenSetUp, isTofData]
  · simp [componentsSetUp, and_assoc]

/-- "whether called on related viewgrams with any symmetries or on a whole data set": processing the data group by
    group, for ANY grouping of bins in which no bin occurs twice, normalises exactly the bins of the groups, each once … -/
theorem C13_whole_data_eq_per_viewgram (f : Bin → K → Option K) (gs : List (List Bin)) (d : Bin → Option K)
    (h : gs.flatten.Nodup) (b : Bin) :
    onGroups f gs d b = if b ∈ gs.flatten then (d b).bind (f b) else d b :=
  onGroups_eq f gs d h b

/-- … hence two such groupings of the same bins (two symmetry settings, or all bins in one group) give the same data set -/
theorem C13_grouping_irrelevant (f : Bin → K → Option K) (gs gs' : List (List Bin)) (d : Bin → Option K)
    (h : gs.flatten.Nodup) (h' : gs'.flatten.Nodup) (hsame : ∀ b, b ∈ gs.flatten ↔ b ∈ gs'.flatten) :
    onGroups f gs d = onGroups f gs' d := by
  funext b
  rw [onGroups_eq f gs d h b, onGroups_eq f gs' d h' b]
  by_cases hb : b ∈ gs.flatten
  · rw [if_pos hb, if_pos ((hsame b).mp hb)]
  · rw [if_neg hb, if_neg (fun hx => hb ((hsame b).mpr hx))]

/-- "TOF … data with non-TOF factors": the same stored factor (the one at timing position 0) for every TOF bin;
    with TOF factors the bin's own timing position is used.  (Since the fourth extension the correspondence runs this on TOF data
    with mashing factor 1, a proper divisor of the scanner's number of TOF bins, and the maximum — ONE TOF bin, whose only timing
    position is 0: the factor is the stored one there too, not a fraction of it; that `set_up` accepts all of these is
    `C13_set_up_tof_data_nontof_factors`.) -/
theorem C13_tof_data_nontof_factor (E : K → K) (floor : K) (f : Bin → K) (b : Bin) (t : Int) (v : K) :
    apply E floor (.fromProjData f false) { b with tof := t } v = some (v * f { b with tof := 0 }) ∧
      undo E (.fromProjData f false) { b with tof := t } v = undo E (.fromProjData f false) b v ∧
      apply E floor (.fromProjData f true) b v = some (v * f b) := by
  simp [apply, undo, factorKey]

/-- "the attenuation correction factors obtained from an attenuation map given in cm^-1 are the exponentials of its
    line integrals along the lines of response": `apply` multiplies by `E` of `Σ_j (a_bj · vx) · (μ_j / 10)` — the
    matrix elements `a_bj` are lengths in units of the x voxel size `vx` (mm), `μ_j / 10` is the attenuation in mm^-1.
    (The correspondence runs the class with a ray-tracing matrix projector and, since the extension, with its default
    projector `ForwardProjectorByBinUsingRayTracing`; in both cases the rows are data from a separate matrix object.
    Since the third extension the correspondence also runs attenuation images with NON-SQUARE in-plane voxels
    (x : y = 1.5 and 1.1, both ways round, z different from both): `vx` is the X voxel size, so a rescale of the map with
    the y size is a disagreement on every row; and attenuation objects that are set up again for other geometries.
    For the expectation without matrix rows see `C13_atten_box_interval` / `C13_atten_box_acf`.) -/
theorem C13_atten_is_exp_line_integral (E : K → K) (floor vx : K) (row : Bin → List (K × K)) (b : Bin) (v : K) :
    apply E floor (.fromAtten vx row) b v = some (v * E (((row b).map fun p => (p.1 * vx) * (p.2 / 10)).sum)) ∧
      trueEff E (.fromAtten vx row) b = 1 / E (((row b).map fun p => (p.1 * vx) * (p.2 / 10)).sum) := by
  simp [apply, trueEff, lineIntegral_eq]

/-- Beer–Lambert form: if `E` turns sums into products and is positive, the correction factor is the product over the
    voxels on the line of `E(length × μ)`, it is positive, and `undo` is defined -/
theorem C13_atten_beer_lambert (E : K → K) (hadd : ∀ x y, E (x + y) = E x * E y) (hpos : ∀ x, 0 < E x)
    (floor vx : K) (row : Bin → List (K × K)) (b : Bin) (v : K) :
    apply E floor (.fromAtten vx row) b v = some (v * ((row b).map fun p => E ((p.1 * vx) * (p.2 / 10))).prod) ∧
      PosInputs E (.fromAtten vx row) b := by
  constructor
  · rw [(C13_atten_is_exp_line_integral E floor vx row b v).1, E_sum hadd hpos, List.map_map]
    rfl
  · exact hpos _


/-! ### one object set up several times (the harness runs such histories on ONE object of every class) -/

/-- "undoing the normalisation multiplies each bin by … its efficiency, which equals the efficiency the object reports … a
    normalisation that reports itself trivial changes nothing" — for a `BinNormalisationPETFromComponents` object that is
    RE-USED: whatever the object held before (never set up, set up for other factors, for another geometry), `set_up` on an
    allocated object succeeds and leaves an object whose `is_trivial`, `get_bin_efficiency`, `undo` and `apply` are those of
    the component arrays as they are at that call (`c`); so every theorem above about `Norm.fromComponents c` applies to the
    re-used object.  (`set_up` recomputes `_is_trivial` AND rebuilds the efficiency data, both unconditionally.) -/
theorem C13_components_set_up_refreshes (E : K → K) (floor tol : K) (o : CompObj K) (c : Components K)
    (h : o.allocated = true) :
    ∃ o', o.setUp tol c = some o' ∧ o'.allocated = true ∧ o'.isTrivial = some (isTrivial tol (.fromComponents c)) ∧
      ∀ b v, o'.reported b = reported (.fromComponents c) b ∧ o'.undo b v = undo E (.fromComponents c) b v ∧
        o'.apply b v = apply E floor (.fromComponents c) b v := by
  have hs : o.setUp tol c = some { o with setUpDone := true, trivialFlag := c.isTrivial tol, invnorm := c.invnorm } := by
    simp [CompObj.setUp, h]
  exact ⟨_, hs, (compObj_setUp_eq tol _ _ c hs).1, compObj_observe_of_setUp E floor tol _ _ c hs⟩

/-- the same for whole histories: after ANY sequence of `allocate` / `set_up` calls on a new object that ends with a
    `set_up` for the arrays `c` (and in which no call failed), the object answers exactly as a fresh object that was
    allocated and set up once; and a `set_up` without any `allocate` before it is refused -/
theorem C13_components_history (E : K → K) (floor tol : K) (hs : List (CompStep K)) (c : Components K) (o : CompObj K)
    (h : CompObj.run tol CompObj.new (hs ++ [.setUp c]) = some o) :
    (∃ o₀, CompObj.run tol CompObj.new [.allocate, .setUp c] = some o₀ ∧ o₀.isTrivial = o.isTrivial ∧
        ∀ b v, o₀.reported b = o.reported b ∧ o₀.undo b v = o.undo b v ∧ o₀.apply b v = o.apply b v) ∧
      o.isTrivial = some (isTrivial tol (.fromComponents c)) ∧
      (∀ b v, o.reported b = reported (.fromComponents c) b ∧ o.undo b v = undo E (.fromComponents c) b v ∧
        o.apply b v = apply E floor (.fromComponents c) b v) ∧
      CompObj.run tol (CompObj.new : CompObj K) [.setUp c] = none := by
  rw [compObj_run_append] at h
  cases h1 : CompObj.run tol CompObj.new hs with
  | none => simp [h1] at h
  | some o1 =>
    simp only [h1, Option.bind_some, CompObj.run] at h
    cases h2 : o1.setUp tol c with
    | none => simp [h2] at h
    | some o2 =>
      simp only [h2, Option.bind_some, Option.some.injEq] at h
      subst h
      obtain ⟨ht, hobs⟩ := compObj_observe_of_setUp E floor tol o1 o2 c h2
      obtain ⟨o0, hs0, _, ht0, hobs0⟩ := C13_components_set_up_refreshes E floor tol (CompObj.new : CompObj K).allocate c rfl
      refine ⟨⟨o0, by simp [CompObj.run, hs0], by rw [ht0, ht], fun b v => ?_⟩, ht, hobs, by simp [CompObj.run, CompObj.setUp, CompObj.new]⟩
      obtain ⟨a1, a2, a3⟩ := hobs b v
      obtain ⟨b1, b2, b3⟩ := hobs0 b v
      exact ⟨by rw [b1, a1], by rw [b2, a2], by rw [b3, a3]⟩

/-- "a normalisation that reports itself trivial changes nothing" for a re-used components object (same side conditions as
    `C13_trivial_id_partial`: tolerance 0, the recorded min/max bound the arrays, in-fan bin) -/
theorem C13_components_history_trivial_partial (E : K → K) (floor : K) (hs : List (CompStep K)) (c : Components K)
    (o : CompObj K) (h : CompObj.run 0 CompObj.new (hs ++ [.setUp c]) = some o) (ht : o.isTrivial = some true)
    (hr : c.RangeOK) (b : Bin) (hb : c.inFan b = true) (v : K) :
    o.apply b v = some v ∧ o.undo b v = some v ∧ o.reported b = some 1 := by
  obtain ⟨_, h1, h2, _⟩ := C13_components_history E floor 0 hs c o h
  rw [h1, Option.some.injEq] at ht
  obtain ⟨a1, a2, a3⟩ := h2 b v
  have := C13_trivial_id_partial E floor (.fromComponents c) ht
    (fun c' hc => by cases hc; exact hr) b (fun c' hc => by cases hc; exact hb) v
  exact ⟨by rw [a3]; exact this.1, by rw [a2]; exact this.2.1, by rw [a1]; exact this.2.2⟩

/-- `BinNormalisationWithCalibration` re-used: after ANY history of `set_calibration_factor` / `set_radionuclide` / `set_up`
    calls, a final `set_up` leaves an object whose efficiency, `undo` and `apply` are those of `Norm.calib` with the
    calibration factor and branching ratio the object holds NOW (the product stored by an earlier `set_up` is replaced) -/
theorem C13_calibration_history (E : K → K) (floor : K) (hs : List (CalibStep K)) (u : Bin → K) (b : Bin) (v : K) :
    (CalibObj.run CalibObj.new (hs ++ [.setUp])).reported u b =
        reported (.calib u (CalibObj.run CalibObj.new hs).calibration (CalibObj.run CalibObj.new hs).branching) b ∧
      (CalibObj.run CalibObj.new (hs ++ [.setUp])).undo u b v =
        undo E (.calib u (CalibObj.run CalibObj.new hs).calibration (CalibObj.run CalibObj.new hs).branching) b v ∧
      (CalibObj.run CalibObj.new (hs ++ [.setUp])).apply floor u b v =
        apply E floor (.calib u (CalibObj.run CalibObj.new hs).calibration (CalibObj.run CalibObj.new hs).branching) b v := by
  rw [calibObj_run_append]
  exact calibObj_observe_setUp E floor _ u b v

/-- … where "holds now" means: the calibration factor is the one given to the last `set_calibration_factor`, which also
    invalidates the set-up state (`undo`/`apply`/`get_bin_efficiency` are refused until the next `set_up`); the branching
    ratio is the one of the last `set_radionuclide` (1 if unknown, i.e. `<= 0`), which does NOT invalidate anything: until the
    next `set_up` the object keeps answering with the product stored by the previous one; `set_up` changes neither -/
theorem C13_calibration_setters (floor : K) (o : CalibObj K) (c br : K) (u : Bin → K) (b : Bin) (v : K) :
    (o.setCalibration c).calibration = c ∧ (o.setCalibration c).branching = o.branching ∧
      (o.setCalibration c).reported u b = none ∧ (o.setCalibration c).undo u b v = none ∧
      (o.setCalibration c).apply floor u b v = none ∧
      (o.setRadionuclide br).branching = (if 0 < br then br else 1) ∧ (o.setRadionuclide br).calibration = o.calibration ∧
      (o.setRadionuclide br).reported u b = o.reported u b ∧
      o.setUp.calibration = o.calibration ∧ o.setUp.branching = o.branching := by
  refine ⟨rfl, rfl, ?_, ?_, ?_, rfl, rfl, rfl, rfl, rfl⟩ <;>
    simp [CalibObj.setCalibration, CalibObj.reported, CalibObj.undo, CalibObj.apply]

/-! ### the attenuation clause without matrix rows: a uniform box -/

/-- "the attenuation correction factors obtained from an attenuation map given in cm^-1 are the exponentials of its line
    integrals along the lines of response" — the expectation side used for images with NON-SQUARE voxels: for the LOR from
    `p` to `q`, the parameters `t` kept by `boxInterval` are exactly those `t ∈ [0,1]` for which the point `p + t (q - p)`
    lies in the box `[x0,x1] × [y0,y1]` (mm); no voxel size, matrix row or projector enters -/
theorem C13_atten_box_interval (px py qx qy x0 x1 y0 y1 t : K) :
    ((boxInterval px py qx qy x0 x1 y0 y1).1 ≤ t ∧ t ≤ (boxInterval px py qx qy x0 x1 y0 y1).2) ↔
      (0 ≤ t ∧ t ≤ 1 ∧ x0 ≤ px + t * (qx - px) ∧ px + t * (qx - px) ≤ x1 ∧
        y0 ≤ py + t * (qy - py) ∧ py + t * (qy - py) ≤ y1) := by
  unfold boxInterval
  rw [slab_iff]
  have hx := slab_iff px (qx - px) x0 x1 (0, 1) t
  constructor
  · rintro ⟨h1, h2, h5, h6⟩
    obtain ⟨a1, a2, a3, a4⟩ := hx.mp ⟨h1, h2⟩
    exact ⟨a1, a2, a3, a4, h5, h6⟩
  · rintro ⟨h1, h2, h3, h4, h5, h6⟩
    obtain ⟨a, b⟩ := hx.mpr ⟨h1, h2, h3, h4⟩
    exact ⟨a, b, h5, h6⟩

/-- … and the model's correction factor is `E` of `μ/10` (mm^-1) times the length (mm) of that part of the LOR:
    `len` × (length of the parameter interval), `E 0` if the LOR misses the box -/
theorem C13_atten_box_acf (E : K → K) (mu len px py qx qy x0 x1 y0 y1 : K) :
    acfBox E mu len px py qx qy x0 x1 y0 y1 =
      E (mu / 10 * (len * (if (boxInterval px py qx qy x0 x1 y0 y1).1 < (boxInterval px py qx qy x0 x1 y0 y1).2
        then (boxInterval px py qx qy x0 x1 y0 y1).2 - (boxInterval px py qx qy x0 x1 y0 y1).1 else 0))) := by
  simp [acfBox, boxFraction, ten_eq]

/-! ### TOF data mashed to any number of TOF bins, with non-TOF factors -/

/-- quantifier "TOF and non-TOF data with non-TOF factors": for factors that are not TOF data (mashing factor 0) and data that
    ARE TOF data — ANY mashing factor `≥ 1`, the scanner's maximum (a single TOF bin) included: `is_tof_data()` looks at the
    mashing factor, not at the number of TOF bins — `BinNormalisationFromProjData::set_up` decides by comparing the factors with
    the NON-TOF CLONE of the data geometry, the comparison with the data geometry as it is (which fails on the mashing factor)
    plays no role; so data whose non-TOF clone is the geometry of the factors are accepted.  In every other combination (TOF
    factors, or non-TOF data) the data geometry is compared as it is. -/
theorem C13_set_up_tof_data_nontof_factors (normMash dataMash : Int) (asIs nonTofClone : GeomCmp) :
    (normMash ≤ 0 → 0 < dataMash →
        fromProjDataSetUpTof normMash dataMash asIs nonTofClone = nonTofClone.accepts ∧
          (nonTofClone.equal = true → fromProjDataSetUpTof normMash dataMash asIs nonTofClone = true)) ∧
      ((0 < normMash ∨ dataMash ≤ 0) → fromProjDataSetUpTof normMash dataMash asIs nonTofClone = asIs.accepts) := by
  constructor
  · intro hn hd
    have h : fromProjDataUsesNonTofClone normMash dataMash = true := by
      simp [fromProjDataUsesNonTofClone, isTofData, hd, not_lt.mpr hn]
    refine ⟨by simp [fromProjDataSetUpTof, h], fun he => ?_⟩
    simp [fromProjDataSetUpTof, h, GeomCmp.accepts, fromProjDataSetUp, he]
  · intro h
    have h' : fromProjDataUsesNonTofClone normMash dataMash = false := by
      rcases h with h | h
      · simp [fromProjDataUsesNonTofClone, isTofData, h]
      · simp [fromProjDataUsesNonTofClone, isTofData, not_lt.mpr h]
    simp [fromProjDataSetUpTof, h']

/-! ### one object through constructors, `parse` and `set_up` (the harness runs such histories on ONE object of every class
    that has parsing keys) -/

/-- "undoing the normalisation multiplies each bin by one fixed positive factor … applying divides by the same factor" — for a
    `BinNormalisationFromProjData` object that is PARSED AGAIN: after ANY history of `parse` / `set_up` calls on ANY object
    (default-constructed, constructed from a file or a `ProjData`, parsed before with another file, set up or not) that ends
    with parsing the file `f` and a `set_up`, the object is set up and its `undo` and `apply` are those of the factors of THAT
    file — `parse` replaces the stored factors unconditionally; so every theorem above about `Norm.fromProjData f` applies
    (`C13_directions`, `C13_tof_data_nontof_factor`, `C13_apply_undo_id`, …).  `set_up` on its own never changes the factors,
    and an object that was never given factors cannot be set up (the C++ dereferences a null pointer). -/
theorem C13_fromProjData_parse_history (E : K → K) (floor : K) (hs : List (FpdStep K)) (o o' : FpdObj K)
    (f : (Bin → K) × Bool) (acc : Bool) (h : FpdObj.run o (hs ++ [.parse f, .setUp acc]) = some o') :
    o' = ⟨some f, true⟩ ∧ o'.norm? = some (.fromProjData f.1 f.2) ∧
      (∀ b v, o'.undo E b v = undo E (.fromProjData f.1 f.2) b v ∧
        o'.apply E floor b v = apply E floor (.fromProjData f.1 f.2) b v) ∧
      (∀ (o₁ o₂ : FpdObj K) (a r : Bool), o₁.setUp a = some (o₂, r) → o₂.factors = o₁.factors ∧ r = a) ∧
      (FpdObj.new : FpdObj K).setUp acc = none := by
  rw [fpdObj_run_append] at h
  cases h1 : FpdObj.run o hs with
  | none => simp [h1] at h
  | some o1 =>
    simp only [h1, Option.bind_some, fpdObj_parse_setUp, Option.some.injEq] at h
    subst h
    refine ⟨rfl, (fpdObj_observe E floor f ⟨0, 0, 0, 0, 0⟩ 0).1, fun b v => (fpdObj_observe E floor f b v).2,
      fun o₁ o₂ a r hs => ?_, rfl⟩
    obtain ⟨a1, _, a3, _⟩ := fpdObj_setUp_factors o₁ o₂ a r hs
    exact ⟨a1, a3⟩

/-- "the attenuation correction factors obtained from an attenuation map given in cm^-1 are the exponentials of its line
    integrals" — for a `BinNormalisationFromAttenuationImage` object that is PARSED AGAIN: whatever the object held before
    (nothing, the image of an earlier text, an image given to a constructor — rescaled or not), parsing a text that names the
    image file `file` makes it hold THAT image, rescaled once; after a `set_up` its `undo` / `apply` are those of
    `Norm.fromAtten` for that image (so `C13_atten_is_exp_line_integral` applies), and the same holds for the two constructors.
    (Repaired code, fix C13-1: before it this needed the hypothesis that the object held no image yet, and a second parse kept
    the first image, rescaled twice.) -/
theorem C13_atten_parse_history {ι : Type} (E : K → K) (floor : K) (o o₁ o₂ : AttenObj ι K) (file : ι)
    (numTofPoss : Int) (images : ι → K × (Bin → List (K × K)))
    (h1 : o.postProcessing (some file) = some o₁) (h2 : o₁.setUp numTofPoss images = some o₂) :
    (∀ b v, o₂.undo E b v = undo E (.fromAtten (images file).1 (images file).2) b v ∧
        o₂.apply E b v = apply E floor (.fromAtten (images file).1 (images file).2) b v) ∧
      (AttenObj.ofFile file : Option (AttenObj ι K)) = some ⟨some (file, 1), false, fun _ => 0⟩ ∧
      (AttenObj.ofImage file : Option (AttenObj ι K)) = some ⟨some (file, 1), false, fun _ => 0⟩ := by
  rw [attenObj_postProcessing_file o file, Option.some.injEq] at h1
  subst h1
  refine ⟨(attenObj_setUp_observe E floor _ o₂ file numTofPoss images rfl h2).2, ?_, ?_⟩
  · simp [AttenObj.ofFile, AttenObj.new, AttenObj.postProcessing]
  · simp [AttenObj.ofImage, AttenObj.postProcessing]

/-- … and a `post_processing` without a file name (an object constructed from an image, parsed with a text that names no file)
    leaves an image that was rescaled as it is: it is never rescaled twice -/
theorem C13_atten_post_processing_rescales_once {ι : Type} (o o₁ : AttenObj ι K) (i : ι) (k : Nat)
    (h0 : o.img = some (i, k + 1)) (h1 : o.postProcessing none = some o₁) : o₁.img = some (i, k + 1) := by
  rw [attenObj_postProcessing_held o i k h0, Option.some.injEq] at h1
  subst h1
  rfl

/-- "A chain has the product of its members' efficiencies" — for a `ChainedBinNormalisation` object that is PARSED AGAIN: a text
    that gives both member keys replaces both members (`None` gives a null member), whatever the object held before; after
    `set_up` the object is `Norm.chained` of the members of the LAST text (every theorem about chains applies:
    `C13_chain_binary`, `C13_chain_partial`, `C13_chain_null_member`); the new members were never set up, so until `set_up`
    the object is not usable if it has a member with a check; a text without a member key leaves that member alone -/
theorem C13_chain_parse_history {ι : Type} (o : ChainObj ι) (a b : Option ι) (resolve : ι → Norm K) :
    (∃ o₁, o.parse (some a) (some b) true = some o₁ ∧ o₁.membersSetUp = false ∧ o₁.setUp.membersSetUp = true ∧
        o₁.setUp.norm resolve = .chained ((a.map resolve).getD .null) ((b.map resolve).getD .null)) ∧
      (∃ o₁, o.parse none (some b) true = some o₁ ∧ o₁.first = o.first ∧ o₁.second = b) ∧
      o.parse (some a) (some b) false = none := by
  refine ⟨⟨_, chainObj_parse_both o a b, rfl, rfl, rfl⟩, ⟨⟨o.first, b, o.ownSetUp, false⟩, ?_, rfl, rfl⟩, by simp [ChainObj.parse]⟩
  simp [ChainObj.parse, MemberKey.applyTo]


/-! ### non-vacuity: concrete instances satisfying the hypotheses -/

/-- a TOF bin -/
def exBin : Bin := ⟨1, 2, 0, -1, 2⟩

/-- chain of: stored factors 2 (non-TOF), a table efficiency depending on the TOF position, a calibrated table -/
def exChain : Norm ℚ :=
  .chained (.fromProjData (fun b => if b.tof = 0 then 2 else 5) false)
    (.chained (.table fun b => 3 + b.tof) (.calib (fun _ => 4) 2 (1 / 2)))

def exFloor : ℚ := 1 / 10 ^ 20

example : Defined (fun _ => (1 : ℚ)) exChain exBin ∧ AboveFloor (fun _ => (1 : ℚ)) exFloor exChain exBin ∧
    PosInputs (fun _ => (1 : ℚ)) exChain exBin := by
  simp only [exChain, exBin, exFloor, Defined, AboveFloor, PosInputs, factorKey]
  norm_num

/-- the efficiency of `exChain` at `exBin` is `(1/2) · 5 · 4 = 10` (non-TOF factor 2, not the TOF one) -/
example : trueEff (fun _ => (1 : ℚ)) exChain exBin = 10 ∧ undo (fun _ => (1 : ℚ)) exChain exBin 3 = some 30 ∧
    apply (fun _ => (1 : ℚ)) exFloor exChain exBin 3 = some (3 / 10) := by
  refine ⟨?_, ?_, ?_⟩
  · simp only [exChain, exBin, trueEff, factorKey]; norm_num
  · simp only [exChain, exBin, undo, factorKey, fdiv, Option.bind]; norm_num
  · simp only [exChain, exBin, exFloor, apply, factorKey, fdiv, cmax, Option.bind]; norm_num

/-- a chain with a null member, partial application: the first half of `exChain` multiplies by `1/2`, the second by `20` -/
example : undoOnlyFirst (fun _ => (1 : ℚ)) (.fromProjData (fun b => if b.tof = 0 then 2 else 5) false)
      (.chained (.table fun b => 3 + b.tof) (.calib (fun _ => 4) 2 (1 / 2))) exBin 3 = some (3 / 2) ∧
    undoOnlySecond (fun _ => (1 : ℚ)) (.fromProjData (fun b => if b.tof = 0 then 2 else 5) false)
      (.chained (.table fun b => 3 + b.tof) (.calib (fun _ => 4) 2 (1 / 2))) exBin 3 = some 60 ∧
    undo (fun _ => (1 : ℚ)) (.chained (.table fun _ => 7) .null) exBin 3 = some 21 ∧
    isFirstTrivial (0 : ℚ) .trivial (.table fun _ => 7) = some true ∧ isSecondTrivial (0 : ℚ) .trivial (.table fun _ => 7) = some false := by
  refine ⟨?_, ?_, ?_, rfl, rfl⟩
  · simp only [undoOnlyFirst, exBin, undo, factorKey, fdiv]; norm_num
  · simp only [undoOnlySecond, exBin, undo, fdiv, Option.bind]; norm_num
  · simp only [undo, Option.bind]; norm_num

/-- set-up states: a chain that was never set up whose members were (accepted on related viewgrams, refused on whole data);
    a member set up for a smaller geometry (refused); refusals of `set_up` -/
example : useRV (.chain false true (.checked true true) (.chain false true (.noCheck false true) .null)) = true ∧
    useWhole true (.chain false true (.checked true true) (.checked true true)) = false ∧
    useRV (.chain true true (.checked true true) (.checked true false)) = false ∧
    useWhole false (.checked true true) = false ∧ useWhole true (.checked true true) = true ∧
    fromAttenSetUp 5 = false ∧ fromAttenSetUp 0 = true ∧ componentsSetUp true false false = false ∧
    componentsSetUp false false false = true := by
  decide

/-- `Real.exp` satisfies the hypotheses on `E` -/
example : (∀ x y : ℝ, Real.exp (x + y) = Real.exp x * Real.exp y) ∧ ∀ x : ℝ, 0 < Real.exp x :=
  ⟨Real.exp_add, Real.exp_pos⟩

/-- an attenuation row of two voxels (lengths 1 and 2 voxels of 2.5 mm, μ = 0.1 and 0.2 cm^-1): line integral 0.125 -/
example : lineIntegral (5 / 2 : ℚ) [(1, 1 / 10), (2, 2 / 10)] = 1 / 8 := by
  simp only [lineIntegral, attenRescale, ten, List.foldl]; norm_num

/-- a components object with all factors 1: trivial, range OK, in-fan bins unchanged -/
def exComp (fan : Bin → Bool) : Components ℚ :=
  { inFan := fan, eff := some (fun _ => 1, fun _ => 1), geo := none, block := some fun _ => 1,
    effRange := (1, 1), geoRange := (1, 1), blockRange := (1, 1) }

example (fan : Bin → Bool) : (exComp fan).isTrivial 0 = true ∧ (exComp fan).RangeOK := by
  constructor
  · simp [exComp, Components.isTrivial, nearOne]
  · refine ⟨?_, ?_, ?_⟩
    · intro ea eb h b
      simp only [exComp, Option.some.injEq, Prod.mk.injEq] at h
      obtain ⟨rfl, rfl⟩ := h
      simp [exComp]
    · intro g h
      simp [exComp] at h
    · intro B h b
      simp only [exComp, Option.some.injEq] at h
      subst h
      simp [exComp]

/-- … and one with all factors within 1e-4 of 1 is trivial at the real tolerance -/
example : ({ inFan := fun _ => true, eff := some (fun _ => 1 + 1 / 20000, fun _ => 1 - 1 / 20000), geo := none, block := none,
             effRange := (1 - 1 / 20000, 1 + 1 / 20000), geoRange := (1, 1), blockRange := (1, 1) } : Components ℚ).isTrivial (1 / 10000) = true := by
  simp only [Components.isTrivial, nearOne]; norm_num

/-- a components object re-used: allocated, set up with crystal efficiencies 2 and 3 (efficiency 6 per bin), then — the arrays
    having been overwritten with ones — set up again: it now reports itself trivial and changes nothing; the hypotheses of
    `C13_components_history` hold for this history; without `allocate` the first `set_up` is refused -/
def exCompRandom : Components ℚ :=
  { inFan := fun _ => true, eff := some (fun _ => 2, fun _ => 3), geo := none, block := none,
    effRange := (2, 3), geoRange := (1, 1), blockRange := (1, 1) }

example : ∃ o : CompObj ℚ,
    CompObj.run 0 CompObj.new ([.allocate, .setUp exCompRandom] ++ [.setUp (exComp fun _ => true)]) = some o ∧
      o.isTrivial = some true ∧ o.undo exBin 5 = some 5 ∧ o.apply exBin 5 = some 5 ∧ o.reported exBin = some 1 := by
  refine ⟨_, rfl, ?_, ?_, ?_, ?_⟩ <;>
    simp [CompObj.isTrivial, CompObj.undo, CompObj.apply, CompObj.reported, exComp,
      Components.isTrivial, Components.invnorm, nearOne, mulSkip, divide0, fdiv]

example : ∃ o : CompObj ℚ, CompObj.run 0 CompObj.new [.allocate, .setUp exCompRandom] = some o ∧
    o.isTrivial = some false ∧ o.undo exBin 5 = some 30 ∧ o.reported exBin = some 6 ∧
    CompObj.run 0 (CompObj.new : CompObj ℚ) [.setUp exCompRandom, .allocate] = none := by
  refine ⟨_, rfl, ?_, ?_, ?_, rfl⟩ <;>
    simp [CompObj.isTrivial, CompObj.undo, CompObj.reported, exCompRandom,
      Components.isTrivial, Components.invnorm, nearOne, mulSkip] <;> norm_num

/-- a calibrated object re-used: calibration 2, branching ratio 1/2, set up (efficiency `u/1`); the radionuclide is changed to
    branching ratio 1/4: still `u/1` (not invalidated) until the next `set_up`, then `u/(1/2)`; after
    `set_calibration_factor` the object is refused until it is set up again -/
example :
    (CalibObj.run (CalibObj.new : CalibObj ℚ) [.setCalibration 2, .setRadionuclide (1 / 2), .setUp]).reported (fun _ => 3) exBin = some 3 ∧
      (CalibObj.run (CalibObj.new : CalibObj ℚ) [.setCalibration 2, .setRadionuclide (1 / 2), .setUp, .setRadionuclide (1 / 4)]).reported
        (fun _ => 3) exBin = some 3 ∧
      (CalibObj.run (CalibObj.new : CalibObj ℚ) [.setCalibration 2, .setRadionuclide (1 / 2), .setUp, .setRadionuclide (1 / 4), .setUp]).reported
        (fun _ => 3) exBin = some 6 ∧
      (CalibObj.run (CalibObj.new : CalibObj ℚ) [.setCalibration 2, .setUp, .setCalibration 5]).undo (fun _ => 3) exBin 1 = none ∧
      (CalibObj.run (CalibObj.new : CalibObj ℚ) [.setRadionuclide (-1), .setCalibration 4, .setUp]).undo (fun _ => 3) exBin 8 = some 6 := by
  refine ⟨?_, ?_, ?_, ?_, ?_⟩ <;>
    simp [CalibObj.run, CalibObj.new, CalibObj.setCalibration, CalibObj.setRadionuclide, CalibObj.setUp, CalibObj.reported,
      CalibObj.undo, fdiv] <;> norm_num

/-- a LOR from (-10, 0) to (10, 0) through the box [-2,3] × [-1,1]: parameters 8/20 … 13/20, a quarter of its length;
    a LOR parallel to it outside the box, and one parallel to the y axis (`d = 0` in x): nothing / the y extent -/
example : boxInterval (-10 : ℚ) 0 10 0 (-2) 3 (-1) 1 = (2 / 5, 13 / 20) ∧
    boxFraction (-10 : ℚ) 0 10 0 (-2) 3 (-1) 1 = 1 / 4 ∧
    boxFraction (-10 : ℚ) 2 10 2 (-2) 3 (-1) 1 = 0 ∧
    boxFraction (1 : ℚ) (-10) 1 10 (-2) 3 (-1) 1 = 1 / 10 ∧
    acfBox (fun x => 1 + x) (1 / 10 : ℚ) 20 (-10) 0 10 0 (-2) 3 (-1) 1 = 1 + 1 / 20 := by
  refine ⟨?_, ?_, ?_, ?_, ?_⟩ <;>
    simp [acfBox, boxFraction, boxInterval, slab, cmax, cmin, ten] <;> norm_num

/-- two groupings of the same four bins -/
example : ([[(⟨0, 0, 0, 0, 0⟩ : Bin), ⟨0, 1, 0, 0, 0⟩], [⟨0, 2, 0, 0, 0⟩, ⟨0, 3, 0, 0, 0⟩]] : List (List Bin)).flatten.Nodup ∧
    ([[(⟨0, 0, 0, 0, 0⟩ : Bin), ⟨0, 3, 0, 0, 0⟩, ⟨0, 2, 0, 0, 0⟩, ⟨0, 1, 0, 0, 0⟩]] : List (List Bin)).flatten.Nodup := by
  decide

/-- TOF data with one TOF bin (5 TOF bins mashed by 5) and non-TOF factors of the geometry of its non-TOF clone: the geometries as
    they are differ (mashing factor), the clone is equal: accepted; with the roles exchanged (TOF factors, non-TOF data): refused -/
example : fromProjDataSetUpTof 0 5 ⟨false, false, true, true, true⟩ ⟨true, true, true, true, true⟩ = true ∧
    fromProjDataSetUpTof 5 0 ⟨false, false, true, true, true⟩ ⟨true, true, true, true, true⟩ = false ∧ isTofData 5 = true := by
  decide

/-- a `BinNormalisationFromProjData` object: default-constructed, parsed with a file of factors 2, set up, parsed with a file of
    factors 5 (TOF), set up: it multiplies by 5 -/
example : ∃ o : FpdObj ℚ,
    FpdObj.run FpdObj.new ([.parse (fun _ => 2, false), .setUp true] ++ [.parse (fun _ => 5, true), .setUp true]) = some o ∧
      o.apply (fun _ => 1) exFloor exBin 3 = some 15 ∧ o.undo (fun _ => 1) exBin 15 = some 3 := by
  refine ⟨⟨some (fun _ => 5, true), true⟩, by simp [FpdObj.run, FpdObj.parse, FpdObj.setUp, FpdObj.new], ?_, ?_⟩
  · simp [FpdObj.apply, FpdObj.norm?, apply]; norm_num
  · simp [FpdObj.undo, FpdObj.norm?, undo, fdiv]; norm_num

/-- two attenuation images (`false`: one voxel of 2 cm^-1, `true`: 4 cm^-1; x voxel size 5 mm, row element 1) -/
def exImages : Bool → ℚ × (Bin → List (ℚ × ℚ)) := fun i => (5, fun _ => [(1, if i then 4 else 2)])

/-- what `AttenObj.setUp` is told about non-TOF data: TOF mashing factor 0 -/
def exNonTof : Int := 0

/-- parsed once with image `true`: the exponent is 1 · 4 · 5/10 = 2 -/
example : ∃ o₁ o₂ : AttenObj Bool ℚ, (AttenObj.new : AttenObj Bool ℚ).postProcessing (some true) = some o₁ ∧
    o₁.setUp exNonTof exImages = some o₂ ∧ o₂.li exBin = 2 ∧ o₂.apply id exBin 3 = some 6 := by
  refine ⟨_, _, rfl, rfl, ?_, ?_⟩
  · simp [exImages, lineIntegralK, rescaled, attenRescale, ten]; norm_num
  · simp [AttenObj.apply, exImages, lineIntegralK, rescaled, attenRescale, ten]; norm_num

/-- a chain object parsed with members `1`, `2`, then with (`None`, `3`): it is the chain (null, member 3) -/
example : ∃ o₁ o₂ : ChainObj Nat, (ChainObj.new : ChainObj Nat).parse (some (some 1)) (some (some 2)) true = some o₁ ∧
    o₁.setUp.parse (some none) (some (some 3)) true = some o₂ ∧ o₂.membersSetUp = false ∧
    o₂.setUp.norm (fun m => (.table fun _ => (m : ℚ)) : Nat → Norm ℚ) = .chained .null (.table fun _ => 3) := by
  exact ⟨_, _, rfl, rfl, rfl, rfl⟩

/-! ### negative witnesses (what the code does outside the hypotheses) -/

/-- below the floor apply-then-undo does NOT restore the data: efficiency 0 gives 0, efficiency `1e-25` scales by `1e-5` -/
theorem C13_apply_undo_below_floor_fails :
    (apply (fun _ => (1 : ℚ)) exFloor (.table fun _ => 0) exBin 3).bind (undo (fun _ => (1 : ℚ)) (.table fun _ => 0) exBin) = some 0 ∧
      (apply (fun _ => (1 : ℚ)) exFloor (.table fun _ => 1 / 10 ^ 25) exBin 3).bind
          (undo (fun _ => (1 : ℚ)) (.table fun _ => 1 / 10 ^ 25) exBin) = some (3 / 10 ^ 5) := by
  constructor
  · simp only [exFloor, apply, undo, fdiv, cmax, Option.bind]; norm_num
  · simp only [exFloor, apply, undo, fdiv, cmax, Option.bind]; norm_num

/-- a components object with all factors 1 reports itself trivial, but a bin outside the fan (data with an even number
    of tangential positions) is set to 0 by `undo` and made non-finite by `apply` (replayed on the implementation:
    known-finding key `components:even-number-of-tangential-positions:…`) -/
theorem C13_trivial_id_fails :
    (exComp fun b => decide (b.tang ≠ -3)).isTrivial 0 = true ∧
      undo (fun _ => (1 : ℚ)) (.fromComponents (exComp fun b => decide (b.tang ≠ -3))) ⟨0, 0, 0, -3, 0⟩ 3 = some 0 ∧
      apply (fun _ => (1 : ℚ)) exFloor (.fromComponents (exComp fun b => decide (b.tang ≠ -3))) ⟨0, 0, 0, -3, 0⟩ 3 = none := by
  refine ⟨?_, ?_, ?_⟩
  · simp [exComp, Components.isTrivial, nearOne]
  · simp [undo, exComp, Components.invnorm]
  · simp [apply, exComp, Components.invnorm, divide0, fdiv]

/-- if a bin occurs in two groups it is normalised twice (why the groups must partition the data, C06) -/
theorem C13_overlapping_groups_fail :
    onGroups (fun _ (v : ℚ) => some (v * 2)) [[exBin], [exBin]] (fun _ => some 1) exBin = some 4 := by
  simp [onGroups, onGroup]; norm_num

/-- ONE `BinNormalisationFromAttenuationImage` object parsed twice (repaired code; before `fix: BinNormalisationFromAttenuationImage
    reads the image again when parsed again` the second parse kept image `false`, rescaled twice: exponent 1/2, known finding
    `atten:post_processing-twice-on-one-object:…`): default-constructed, parsed with image `false` (2 cm^-1), parsed with image
    `true` (4 cm^-1), set up: the exponent is the line integral 1 · 4 · 5/10 = 2 of the image named by the last text -/
theorem C13_atten_second_parse :
    ∃ o₁ o₂ o₃ : AttenObj Bool ℚ, (AttenObj.new : AttenObj Bool ℚ).postProcessing (some false) = some o₁ ∧
      o₁.postProcessing (some true) = some o₂ ∧ o₂.setUp exNonTof exImages = some o₃ ∧ o₃.img = some (true, 1) ∧
      o₃.li exBin = 2 ∧ lineIntegral (exImages true).1 ((exImages true).2 exBin) = 2 := by
  refine ⟨_, _, _, rfl, rfl, rfl, rfl, ?_, ?_⟩
  · simp [exImages, lineIntegralK, rescaled, attenRescale, ten]; norm_num
  · simp [exImages, lineIntegral, attenRescale, ten]; norm_num

end StirVerif.C13
