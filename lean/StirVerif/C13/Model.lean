/-
C13 — executable model of bin normalisation (apply / undo / get_bin_efficiency / is_trivial).

One constructor of `Norm` per normalisation class, one `def` per C++ function that matters:

* `Norm.table`           any class that implements only `get_bin_efficiency` and inherits
                         `BinNormalisation::apply/undo(RelatedViewgrams&)`
                         (src/recon_buildblock/BinNormalisation.cxx:91-120): `undo` multiplies by
                         `get_bin_efficiency(bin)`, `apply` divides by `std::max(1.E-20F, get_bin_efficiency(bin))`.
* `Norm.calib`           `BinNormalisationWithCalibration` (src/include/stir/recon_buildblock/BinNormalisationWithCalibration.h:66,
                         src/recon_buildblock/BinNormalisationWithCalibration.cxx:57-65):
                         `get_bin_efficiency = get_uncalibrated_bin_efficiency / (calibration_factor * branching_ratio)`, apply/undo inherited.
* `Norm.fromProjData`    `BinNormalisationFromProjData::{apply,undo,get_bin_efficiency}`
                         (src/recon_buildblock/BinNormalisationFromProjData.cxx:129-157): `apply` MULTIPLIES by the stored factor,
                         `undo` divides; the factor is looked up at timing position 0 unless the stored data are TOF;
                         `get_bin_efficiency` calls `error`.  `fromProjDataSetUp` transcribes the decision of `set_up` (:81-121).
* `Norm.fromAtten`       `BinNormalisationFromAttenuationImage` (src/recon_buildblock/BinNormalisationFromAttenuationImage.cxx:56-97
                         `post_processing`: image (cm^-1) `*= grid_spacing.x()/10`; :139-170 `apply`: forward project, `in_place_exp`,
                         multiply; `undo`: divide; :173 `get_bin_efficiency` calls `error`).  The forward projection is
                         `Σ_j a_bj · μ̃_j` with the matrix row `a_b.` given as data (rows are C03/C04's business); `E` is `exp`.
* `Norm.fromComponents`  `BinNormalisationPETFromComponents` (src/recon_buildblock/BinNormalisationPETFromComponents.cxx:
                         `create_proj_data` :177-202, `apply` :205-222 with `divide(…, 0.F)` (src/include/stir/numerics/divide.inl),
                         `undo` :224-231, `get_bin_efficiency` :233-239, `is_trivial` flag computed in `set_up` :100-104).
                         The crystal pair of a bin and the symmetry expansion of the geometric factors are data (C01 / C20).
* `Norm.chained`         `ChainedBinNormalisation::{apply,undo,get_bin_efficiency}` (src/recon_buildblock/ChainedBinNormalisation.cxx:91-98, :137-144, :186-190; constructor check :49-54),
                         `Norm.null` is a null `shared_ptr` member (skipped, efficiency 1).
                         `applyOnlyFirst/Second`, `undoOnlyFirst/Second` (:110-136, :159-185), `isFirstTrivial`, `isSecondTrivial`
                         (:194-208): the partial application of a chain with members `n1 n2`.
* `fromAttenSetUp`       the TOF refusal of `BinNormalisationFromAttenuationImage::set_up` (:123-131);
  `componentsSetUp`      what `BinNormalisationPETFromComponents::set_up` → `create_proj_data` → `make_fan_data_remove_gaps` /
                         `get_fan_info` (src/buildblock/ML_norm.cxx:974-995, :1138-1146) refuse with `error`.
* `UseTree`, `useRV`, `useWhole`  which set-up states are checked before any data are touched (`BinNormalisation::check`,
                         called by `apply/undo` of every class except `TrivialBinNormalisation` and `ChainedBinNormalisation`
                         on related viewgrams, and by the whole-data loops of all of them).
* `Norm.trivial`         `TrivialBinNormalisation` (src/include/stir/recon_buildblock/TrivialBinNormalisation.h).
* `CompObj`, `CompStep`  ONE `BinNormalisationPETFromComponents` object through several `allocate()` / `set_up()` calls
                         (src/recon_buildblock/BinNormalisationPETFromComponents.cxx:69-108 `set_up`: `error` without allocation, base-class
                         `set_up`, `_is_trivial = …`, `create_proj_data()` — both UNCONDITIONALLY at every call; :118-175 `allocate`;
                         :110-115 `is_trivial`): the state is what `apply/undo/get_bin_efficiency/is_trivial` read
                         (`_already_allocated`, `_already_set_up`, `_is_trivial`, `invnorm_proj_data_sptr`).
* `CalibObj`             ONE `BinNormalisationWithCalibration` object through `set_calibration_factor` (resets `_already_set_up`,
                         src/recon_buildblock/BinNormalisationWithCalibration.cxx:86-91), `set_radionuclide` (:105-109, does not) and
                         `set_up` (:57-65: `_calib_decay_branching_ratio = calibration_factor * get_branching_ratio()`,
                         `get_branching_ratio` :93-103 gives 1 for a ratio `<= 0`).
* `isTofData`, `GeomCmp`, `fromProjDataUsesNonTofClone`, `fromProjDataSetUpTof`  WHICH geometry `BinNormalisationFromProjData::set_up`
                         compares the factors with (src/recon_buildblock/BinNormalisationFromProjData.cxx:88-96): the non-TOF clone of the
                         data geometry iff the factors are not TOF data and the data are — `is_tof_data()`, i.e. the TOF mashing factor,
                         so also for data mashed to ONE TOF bin; `fromProjDataIsTofOnly` = `is_TOF_only_norm()` (:73-79).
* `FpdObj`, `FpdStep`    ONE `BinNormalisationFromProjData` object through constructors / `parse` / `set_up` (`post_processing` :51-58
                         replaces the stored factors unconditionally; `ParsingObject::parse`, src/buildblock/ParsingObject.cxx:65-85, does
                         not call `set_defaults`; `set_up` calls the base class before it compares).
* `AttenObj`             ONE `BinNormalisationFromAttenuationImage` object: which image it holds and how many times `post_processing`
                         (src/recon_buildblock/BinNormalisationFromAttenuationImage.cxx:56-97) has rescaled it — the file is read only while
                         the object holds no image, the rescaling happens at every call (as the code is; finding, see Props).
* `ChainObj`, `MemberKey`  ONE `ChainedBinNormalisation` object: members replaced per parsing key (`None` = null pointer), new members
                         are not set up until the chain's `set_up`.
* `slab`, `boxInterval`, `acfBox`  the expectation side of the clause "attenuation correction factors … are the exponentials of its line
                         integrals": for a uniform box-shaped attenuation map (all planes) the line integral along the LOR from `p` to `q`
                         is `μ × (length of the part of the LOR inside the box)`, computed by clipping the parameter interval `[0,1]` of
                         `p + t (q - p)` against the two slabs.  No matrix rows, no projector, no voxel size enter.
* `applyData`, `applyGroups`, … the whole-`ProjData` loops `BinNormalisation::apply/undo(ProjData&, symmetries)`
                         (src/recon_buildblock/BinNormalisation.cxx:123-226): for every basic view/segment and TOF position get the
                         related viewgrams, normalise them, write them back.

Numbers: the definitions are written once for a type `K` with `+ - * / 0 1 <`; the driver runs them at `K = Rat`
(every `float` is a dyadic rational; `exp` enters only through the parameter `E`), the theorems are for an arbitrary
linearly ordered field.  A result that is not a finite number in IEEE arithmetic (division by zero) is `none`.
Float rounding is not modelled (see the comparison rule in checks/c13.py).  Core Lean only.
-/
namespace StirVerif.C13

/-- `stir::Bin` indices -/
structure Bin where
  seg : Int
  view : Int
  ax : Int
  tang : Int
  tof : Int
  deriving DecidableEq, Hashable, Repr, Inhabited

section
variable {K : Type} [Add K] [Sub K] [Mul K] [Div K] [Zero K] [One K] [LT K] [DecidableEq K] [DecidableLT K]

/-- `std::max(a, b)` is `(a < b) ? b : a` -/
def cmax (a b : K) : K := if a < b then b else a

/-- `x / y` in IEEE arithmetic, `none` if the result is not finite (`y == 0`) -/
def fdiv (x y : K) : Option K := if y = 0 then none else some (x / y)

/-- `stir::divide(num_begin, num_end, den_begin, small_num = 0)` for one element
    (src/include/stir/numerics/divide.inl:26-47; with `small_num = 0` the threshold `small_value` is 0):
    `0/0 = 0`, everything else is the IEEE quotient -/
def divide0 (x y : K) : Option K := if y = 0 ∧ x = 0 then some 0 else fdiv x y

/-- the literal `10` (mm per cm) of `BinNormalisationFromAttenuationImage::post_processing` -/
def ten : K := (1 + 1) * ((1 + 1) * (1 + 1) + 1)

/-- `post_processing`: `rescale = get_grid_spacing()[3] / 10` (x voxel size in mm; the projectors return lengths in
    units of the x voxel size) -/
def attenRescale (vx : K) : K := vx / ten

/-- forward projection of the rescaled attenuation image along one matrix row: the row is a list of
    (matrix element `a_bj`, original voxel value `μ_j` in cm^-1) -/
def lineIntegral (vx : K) (row : List (K × K)) : K :=
  row.foldl (fun acc p => acc + p.1 * (p.2 * attenRescale vx)) 0

/-- the three optional components of `BinNormalisationPETFromComponents`, already looked up for the crystal pair
    `(ra,a),(rb,b)` of each bin, and the min / max of each component array (used by `is_trivial`) -/
structure Components (K : Type) where
  /-- the bin is written by `set_fan_data_add_gaps` (|tangential_pos| ≤ half fan size, no virtual crystal) -/
  inFan : Bin → Bool
  /-- `efficiencies[ra][a]`, `efficiencies[rb][b]` -/
  eff : Option ((Bin → K) × (Bin → K))
  /-- geometric factor of the pair after symmetry expansion (`apply_geo_norm`) -/
  geo : Option (Bin → K)
  /-- `block_data(ra/…, a/…, rb/…, b/…)` -/
  block : Option (Bin → K)
  effRange : K × K
  geoRange : K × K
  blockRange : K × K

/-- `if (fan_data(..) == 0) continue; fan_data(..) *= x` (apply_block_norm / apply_efficiencies / apply_geo_norm) -/
def mulSkip (v x : K) : K := if v = 0 then v else v * x

/-- `create_proj_data`: fill with 1, multiply by block, crystal-pair and geometric factors, zero outside the fan -/
def Components.invnorm (c : Components K) (b : Bin) : K :=
  if c.inFan b then
    let v : K := 1
    let v := match c.block with
      | some B => mulSkip v (B b)
      | none => v
    let v := match c.eff with
      | some (ea, eb) => mulSkip v (ea b * eb b)
      | none => v
    match c.geo with
      | some g => mulSkip v (g b)
      | none => v
  else 0

/-- `fabs(min - 1) <= tol && fabs(max - 1) <= tol` -/
def nearOne (tol : K) (r : K × K) : Bool :=
  !(decide (tol < r.1 - 1)) && !(decide (tol < 1 - r.1)) && !(decide (tol < r.2 - 1)) && !(decide (tol < 1 - r.2))

/-- the `_is_trivial` flag computed by `BinNormalisationPETFromComponents::set_up` (`tol` = `.0001`) -/
def Components.isTrivial (tol : K) (c : Components K) : Bool :=
  (c.eff.isNone || nearOne tol c.effRange) && (c.geo.isNone || nearOne tol c.geoRange)
    && (c.block.isNone || nearOne tol c.blockRange)

/-- a bin normalisation object after `set_up` -/
inductive Norm (K : Type) where
  /-- a null `shared_ptr<BinNormalisation>` member of a chain -/
  | null
  | trivial
  /-- `get_bin_efficiency(bin) = e bin`, apply/undo inherited from `BinNormalisation` -/
  | table (e : Bin → K)
  /-- `BinNormalisationWithCalibration`: uncalibrated efficiency, calibration factor, branching ratio -/
  | calib (u : Bin → K) (calibration branching : K)
  /-- stored factors and whether the stored projection data are TOF -/
  | fromProjData (f : Bin → K) (normIsTof : Bool)
  /-- x voxel size in mm and, for every bin, the matrix row paired with the voxel values (cm^-1) -/
  | fromAtten (vx : K) (row : Bin → List (K × K))
  | fromComponents (c : Components K)
  | chained (first second : Norm K)

/-- `timing_pos_num = norm is TOF ? viewgrams.get_basic_timing_pos_num() : 0` -/
def factorKey (normIsTof : Bool) (b : Bin) : Bin := if normIsTof then b else { b with tof := 0 }

/-- `get_bin_efficiency(bin)`; `none` where the class calls `error` (or the quotient is not finite) -/
def reported : Norm K → Bin → Option K
  | .null, _ => some 1
  | .trivial, _ => some 1
  | .table e, b => some (e b)
  | .calib u c br, b => fdiv (u b) (c * br)
  | .fromProjData _ _, _ => none
  | .fromAtten _ _, _ => none
  | .fromComponents c, b => some (c.invnorm b)
  | .chained n1 n2, b =>
    match reported n1 b, reported n2 b with
    | some x, some y => some (x * y)
    | _, _ => none

/-- `undo(RelatedViewgrams&)` for one bin holding the value `v` (`E` = `exp`) -/
def undo (E : K → K) : Norm K → Bin → K → Option K
  | .null, _, v => some v
  | .trivial, _, v => some v
  | .table e, b, v => some (v * e b)
  | .calib u c br, b, v => (fdiv (u b) (c * br)).bind fun e => some (v * e)
  | .fromProjData f t, b, v => fdiv v (f (factorKey t b))
  | .fromAtten vx row, b, v => fdiv v (E (lineIntegral vx (row b)))
  | .fromComponents c, b, v => some (v * c.invnorm b)
  | .chained n1 n2, b, v => (undo E n1 b v).bind (undo E n2 b)

/-- `apply(RelatedViewgrams&)` for one bin holding the value `v` (`floor` = `1.E-20F`) -/
def apply (E : K → K) (floor : K) : Norm K → Bin → K → Option K
  | .null, _, v => some v
  | .trivial, _, v => some v
  | .table e, b, v => fdiv v (cmax floor (e b))
  | .calib u c br, b, v => (fdiv (u b) (c * br)).bind fun e => fdiv v (cmax floor e)
  | .fromProjData f t, b, v => some (v * f (factorKey t b))
  | .fromAtten vx row, b, v => some (v * E (lineIntegral vx (row b)))
  | .fromComponents c, b, v => divide0 v (c.invnorm b)
  | .chained n1 n2, b, v => (apply E floor n1 b v).bind (apply E floor n2 b)

/-- `is_trivial()` (`tol` = `.0001`); `ChainedBinNormalisation` does not override the base class (`false`) -/
def isTrivial (tol : K) : Norm K → Bool
  | .trivial => true
  | .fromComponents c => c.isTrivial tol
  | _ => false

/-- the factor by which `undo` multiplies (the bin's efficiency), as an element of the field
    (`x / 0` is Lean's junk value 0 here; `Defined` says when no such quotient occurs) -/
def trueEff (E : K → K) : Norm K → Bin → K
  | .null, _ => 1
  | .trivial, _ => 1
  | .table e, b => e b
  | .calib u c br, b => u b / (c * br)
  | .fromProjData f t, b => 1 / f (factorKey t b)
  | .fromAtten vx row, b => 1 / E (lineIntegral vx (row b))
  | .fromComponents c, b => c.invnorm b
  | .chained n1 n2, b => trueEff E n1 b * trueEff E n2 b

/-- right-nested chain of a list of members: `[a,b,c] ↦ Chained(a, Chained(b, Chained(c, null)))` -/
def chainOf : List (Norm K) → Norm K
  | [] => .null
  | n :: ns => .chained n (chainOf ns)

/-- `ChainedBinNormalisation::post_processing`: `error` iff both members have a calibration factor `> 0`
    (`get_calibration_factor()` is `-1` for classes without one) -/
def chainCtorOk (cal1 cal2 : K) : Bool := !(decide (0 < cal1) && decide (0 < cal2))

/-- the decision of `BinNormalisationFromProjData::set_up` (:88-120) given the results of the `ProjDataInfo`
    comparisons on (norm info, emission info made non-TOF if the norm is not TOF) -/
def fromProjDataSetUp (equal ge tangMinEq tangMaxEq axialRangesEq : Bool) : Bool :=
  if equal then true else ge && tangMinEq && tangMaxEq && axialRangesEq

/-! ### `ChainedBinNormalisation`: partial application (the chain has members `n1 n2`, either may be `Norm.null`) -/

/-- `apply_only_first(RelatedViewgrams&)` (:110-115; the `ProjData&` version :117-122 is the same per bin): `if (!is_null_ptr(apply_first)) apply_first->apply(viewgrams)` -/
def applyOnlyFirst (E : K → K) (floor : K) (n1 _n2 : Norm K) (b : Bin) (v : K) : Option K := apply E floor n1 b v
/-- `apply_only_second(RelatedViewgrams&)` (:124-129, :131-136) -/
def applyOnlySecond (E : K → K) (floor : K) (_n1 n2 : Norm K) (b : Bin) (v : K) : Option K := apply E floor n2 b v
/-- `undo_only_first(RelatedViewgrams&)` (:159-164, :166-171) -/
def undoOnlyFirst (E : K → K) (n1 _n2 : Norm K) (b : Bin) (v : K) : Option K := undo E n1 b v
/-- `undo_only_second(RelatedViewgrams&)` (:173-178, :180-185) -/
def undoOnlySecond (E : K → K) (_n1 n2 : Norm K) (b : Bin) (v : K) : Option K := undo E n2 b v

/-- `is_first_trivial()` (:194-200): `error` (here `none`) if the member is null, else the member's `is_trivial()` -/
def isFirstTrivial (tol : K) (n1 _n2 : Norm K) : Option Bool :=
  match n1 with
  | .null => none
  | n => some (isTrivial tol n)
/-- `is_second_trivial()` (:202-208) -/
def isSecondTrivial (tol : K) (_n1 n2 : Norm K) : Option Bool :=
  match n2 with
  | .null => none
  | n => some (isTrivial tol n)

/-! ### set-up decisions and the check on use -/

/-- `BinNormalisation::check(const ProjDataInfo&)` (src/recon_buildblock/BinNormalisation.cxx:70-78), called by every
    `apply`/`undo`: `error` unless `set_up` was called and the geometry of `set_up` is `>=` the geometry of the data -/
def checkUse (alreadySetUp setUpGeometryGE : Bool) : Bool := alreadySetUp && setUpGeometryGE

/-- `ProjDataInfo::is_tof_data()` (src/include/stir/ProjDataInfo.inl:180-198) for consistent data: TOF data are the data with a
    TOF mashing factor `> 0` — whatever the number of TOF bins; data mashed by the maximum number of TOF bins of the scanner
    are TOF data with ONE TOF bin -/
def isTofData (tofMashFactor : Int) : Bool := decide (0 < tofMashFactor)

/-- `BinNormalisationFromAttenuationImage::set_up`: `error` iff `proj_data_info_ptr->is_tof_data()` (repaired code, fix C13-2:
    before it the test was `get_num_tof_poss() > 1`, which let TOF data mashed to one TOF bin pass); the argument is the TOF
    mashing factor of the data -/
def fromAttenSetUp (tofMashFactor : Int) : Bool := !(isTofData tofMashFactor)

/-- `BinNormalisationPETFromComponents::set_up` (:69-108): the comparison with the geometry given to `allocate` comes after
    the base class has overwritten `proj_data_info_sptr` (so it cannot fail); then `create_proj_data` calls
    `make_fan_data_remove_gaps`, which calls `error` for TOF data, view mashing, or axial compression (span > 1) -/
def componentsSetUp (tofData viewMashing axialCompression : Bool) : Bool :=
  !tofData && !viewMashing && !axialCompression

/-- the set-up state of an object (tree for chains), as far as `check` looks at it:
    `setUp` = `_already_set_up`, `ge` = (geometry given to `set_up`) `>=` (geometry of the data) -/
inductive UseTree where
  /-- a null member of a chain -/
  | null
  /-- `TrivialBinNormalisation`: `apply/undo(RelatedViewgrams&)` are empty (no check) -/
  | noCheck (setUp ge : Bool)
  /-- every class whose `apply/undo(RelatedViewgrams&)` starts with `this->check(...)` -/
  | checked (setUp ge : Bool)
  /-- `ChainedBinNormalisation`: `apply/undo(RelatedViewgrams&)` only call the members -/
  | chain (setUp ge : Bool) (first second : UseTree)

/-- does `apply/undo(RelatedViewgrams&)` run without `error`? -/
def useRV : UseTree → Bool
  | .null => true
  | .noCheck _ _ => true
  | .checked su ge => checkUse su ge
  | .chain _ _ f s => useRV f && useRV s

/-- the object's own `_already_set_up` / geometry (what `BinNormalisation::apply/undo(ProjData&, …)` checks first;
    a null pointer has no such call) -/
def ownCheck : UseTree → Bool
  | .null => true
  | .noCheck su ge => checkUse su ge
  | .checked su ge => checkUse su ge
  | .chain su ge _ _ => checkUse su ge

/-- does `apply/undo(ProjData&, symmetries)` run without `error`?  (`check(ProjDataInfo)`, `check(ExamInfo)`, then the
    related-viewgrams version for every group) -/
def useWhole (examEq : Bool) (t : UseTree) : Bool := ownCheck t && examEq && useRV t

/-! ### one object through several `set_up` calls -/

/-- what `apply/undo/get_bin_efficiency/is_trivial` of ONE `BinNormalisationPETFromComponents` object read:
    `_already_allocated`, `_already_set_up`, `_is_trivial`, and the efficiency data `invnorm_proj_data_sptr` built by
    `create_proj_data` (meaningless before the first `set_up`).  The component arrays themselves are not part of this state:
    nothing but `set_up` reads them, and `set_up` is given them (as they are at the moment of the call, looked up for the
    geometry of the call) as a `Components` value. -/
structure CompObj (K : Type) where
  allocated : Bool
  setUpDone : Bool
  trivialFlag : Bool
  invnorm : Bin → K

/-- the default constructor (`set_defaults`) -/
def CompObj.new : CompObj K := ⟨false, false, false, fun _ => 0⟩

/-- `allocate(…)` (:118-175): (re)sizes the arrays, `_already_allocated = true`; neither `_already_set_up` nor the efficiency
    data of a previous `set_up` are touched -/
def CompObj.allocate (o : CompObj K) : CompObj K := { o with allocated := true }

/-- `set_up(exam_info, proj_data_info)` (:69-108) for a geometry that `create_proj_data` accepts (`componentsSetUp`):
    `error` without allocation (nothing changed); otherwise `_already_set_up = true`, `_is_trivial` is recomputed from the
    arrays and `create_proj_data()` rebuilds the efficiency data from them — whatever the object held before -/
def CompObj.setUp (tol : K) (o : CompObj K) (c : Components K) : Option (CompObj K) :=
  if o.allocated then some { o with setUpDone := true, trivialFlag := c.isTrivial tol, invnorm := c.invnorm } else none

/-- `is_trivial()` (:110-115): `error` before `set_up` -/
def CompObj.isTrivial (o : CompObj K) : Option Bool := if o.setUpDone then some o.trivialFlag else none

/-- `get_bin_efficiency(bin)` (:233-239) (before the first `set_up` the C++ dereferences a null pointer; `none` here) -/
def CompObj.reported (o : CompObj K) (b : Bin) : Option K := if o.setUpDone then some (o.invnorm b) else none

/-- `undo(RelatedViewgrams&)` (:224-231) for one bin: `check()` then multiply with the stored efficiency data -/
def CompObj.undo (o : CompObj K) (b : Bin) (v : K) : Option K := if o.setUpDone then some (v * o.invnorm b) else none

/-- `apply(RelatedViewgrams&)` (:205-222) for one bin: `check()` then `divide(…, 0.F)` by the stored efficiency data -/
def CompObj.apply (o : CompObj K) (b : Bin) (v : K) : Option K := if o.setUpDone then divide0 v (o.invnorm b) else none

/-- the calls that change such an object (writing into `crystal_efficiencies()` / `geometric_factors()` / `block_factors()`
    changes only what the next `setUp` is given) -/
inductive CompStep (K : Type) where
  | allocate
  | setUp (c : Components K)

/-- a history of calls; `none` as soon as one of them calls `error` -/
def CompObj.run (tol : K) : CompObj K → List (CompStep K) → Option (CompObj K)
  | o, [] => some o
  | o, .allocate :: r => CompObj.run tol o.allocate r
  | o, .setUp c :: r => (o.setUp tol c).bind fun o' => CompObj.run tol o' r

/-- ONE `BinNormalisationWithCalibration` object: `calibration_factor`, the branching ratio of `radionuclide`,
    `_already_set_up`, and `_calib_decay_branching_ratio` (computed by `set_up` only) -/
structure CalibObj (K : Type) where
  calibration : K
  branching : K
  setUpDone : Bool
  stored : K

/-- `set_defaults`: calibration factor 1; a default `Radionuclide` has no known branching ratio (→ 1) -/
def CalibObj.new : CalibObj K := ⟨1, 1, false, 0⟩

/-- `set_calibration_factor` (:86-91): also resets `_already_set_up` -/
def CalibObj.setCalibration (o : CalibObj K) (c : K) : CalibObj K := { o with calibration := c, setUpDone := false }

/-- `set_radionuclide` (:105-109) as seen through `get_branching_ratio` (:93-103: a ratio `<= 0` counts as 1);
    `_already_set_up` and the stored product are NOT touched -/
def CalibObj.setRadionuclide (o : CalibObj K) (br : K) : CalibObj K := { o with branching := if 0 < br then br else 1 }

/-- `set_up` (:57-65) -/
def CalibObj.setUp (o : CalibObj K) : CalibObj K := { o with setUpDone := true, stored := o.calibration * o.branching }

/-- `get_bin_efficiency` (BinNormalisationWithCalibration.h:66) with the uncalibrated efficiency `u` of the subclass:
    `get_calib_decay_branching_ratio_factor` calls `error` unless set up -/
def CalibObj.reported (o : CalibObj K) (u : Bin → K) (b : Bin) : Option K := if o.setUpDone then fdiv (u b) o.stored else none

/-- base-class `undo` (BinNormalisation.cxx:107-120) -/
def CalibObj.undo (o : CalibObj K) (u : Bin → K) (b : Bin) (v : K) : Option K :=
  (o.reported u b).bind fun e => some (v * e)

/-- base-class `apply` (BinNormalisation.cxx:91-105) -/
def CalibObj.apply (floor : K) (o : CalibObj K) (u : Bin → K) (b : Bin) (v : K) : Option K :=
  (o.reported u b).bind fun e => fdiv v (cmax floor e)

/-- the calls that change such an object -/
inductive CalibStep (K : Type) where
  | setCalibration (c : K)
  | setRadionuclide (br : K)
  | setUp

/-- a history of calls (none of them can fail) -/
def CalibObj.run : CalibObj K → List (CalibStep K) → CalibObj K
  | o, [] => o
  | o, .setCalibration c :: r => CalibObj.run (o.setCalibration c) r
  | o, .setRadionuclide br :: r => CalibObj.run (o.setRadionuclide br) r
  | o, .setUp :: r => CalibObj.run o.setUp r

/-! ### TOF data with non-TOF factors: which geometry `BinNormalisationFromProjData::set_up` compares -/

/-- the five comparisons `set_up` makes between the geometry of the factors and a data geometry
    (`==`, `>=`, min / max tangential position equal, axial ranges of the data's segments equal) -/
structure GeomCmp where
  equal : Bool
  ge : Bool
  tangMinEq : Bool
  tangMaxEq : Bool
  axialRangesEq : Bool

/-- `fromProjDataSetUp` on a `GeomCmp` -/
def GeomCmp.accepts (c : GeomCmp) : Bool := fromProjDataSetUp c.equal c.ge c.tangMinEq c.tangMaxEq c.axialRangesEq

/-- `BinNormalisationFromProjData::set_up` (:88-94): `if (!norm_proj.is_tof_data() && proj_data_info_sptr->is_tof_data())
    proj_to_check_sptr = proj_data_info_sptr->create_non_tof_clone();` — the condition looks at `is_tof_data()` of both
    geometries (the mashing factors), NOT at the numbers of TOF bins -/
def fromProjDataUsesNonTofClone (normTofMash dataTofMash : Int) : Bool := !isTofData normTofMash && isTofData dataTofMash

/-- the decision of `BinNormalisationFromProjData::set_up` (:81-121) given the comparisons of the factor geometry with the data
    geometry as it is (`asIs`) and with its non-TOF clone (`nonTofClone`) -/
def fromProjDataSetUpTof (normTofMash dataTofMash : Int) (asIs nonTofClone : GeomCmp) : Bool :=
  if fromProjDataUsesNonTofClone normTofMash dataTofMash then nonTofClone.accepts else asIs.accepts

/-- `BinNormalisationFromProjData::is_TOF_only_norm()` (:73-79): `get_num_tof_poss() > 1` of the factors -/
def fromProjDataIsTofOnly (normNumTofPoss : Int) : Bool := decide (1 < normNumTofPoss)

/-! ### one object through constructors, `parse` and `set_up`

`ParsingObject::parse` (src/buildblock/ParsingObject.cxx:65-85) is `initialise_keymap` (first time only), `set_key_values`,
`parser.parse`, `post_processing`: it does NOT call `set_defaults`, so whatever the object held before stays unless a key of the
text or `post_processing` replaces it; in particular `_already_set_up` is not reset. -/

/-- ONE `BinNormalisationFromProjData` object: `norm_proj_data_ptr` (the stored factors and whether they are TOF data; null after
    the default constructor) and `_already_set_up` -/
structure FpdObj (K : Type) where
  factors : Option ((Bin → K) × Bool)
  setUpDone : Bool

/-- the default constructor (`set_defaults`, :36-41: the pointer is default-constructed, i.e. null) -/
def FpdObj.new : FpdObj K := ⟨none, false⟩

/-- the constructors from a file name / from a `shared_ptr<ProjData>` (:63-69) -/
def FpdObj.ofData (f : Bin → K) (isTof : Bool) : FpdObj K := ⟨some (f, isTof), false⟩

/-- `parse` → `post_processing` (:51-58): `norm_proj_data_ptr = ProjData::read_from_file(normalisation_projdata_filename)` —
    UNCONDITIONALLY, whatever the object held before (`file` = the content of the file named in the text; `none`: it cannot be
    read, `error`) -/
def FpdObj.parse (o : FpdObj K) (file : Option ((Bin → K) × Bool)) : Option (FpdObj K) :=
  file.map fun f => { o with factors := some f }

/-- `set_up` (:81-121) with the decision `accepted` of the geometry comparison: the base class is called FIRST
    (`_already_set_up = true` also when `Succeeded::no` is returned afterwards); without factors the C++ dereferences a null
    pointer (`none`).  Returns the new state and what `set_up` returned. -/
def FpdObj.setUp (o : FpdObj K) (accepted : Bool) : Option (FpdObj K × Bool) :=
  match o.factors with
  | none => none
  | some _ => some ({ o with setUpDone := true }, accepted)

/-- the `Norm` such an object is, once it holds factors -/
def FpdObj.norm? (o : FpdObj K) : Option (Norm K) :=
  if o.setUpDone then o.factors.map fun f => .fromProjData f.1 f.2 else none

/-- `undo` / `apply(RelatedViewgrams&)` (:129-151) for one bin: `check()` (set up?) and then the stored factors AS THEY ARE NOW -/
def FpdObj.undo (E : K → K) (o : FpdObj K) (b : Bin) (v : K) : Option K := o.norm?.bind fun n => C13.undo E n b v
def FpdObj.apply (E : K → K) (floor : K) (o : FpdObj K) (b : Bin) (v : K) : Option K := o.norm?.bind fun n => C13.apply E floor n b v

/-- the calls that change such an object -/
inductive FpdStep (K : Type) where
  | parse (file : (Bin → K) × Bool)
  | setUp (accepted : Bool)

/-- a history of calls (`none` as soon as one of them is undefined behaviour: `set_up` without factors) -/
def FpdObj.run : FpdObj K → List (FpdStep K) → Option (FpdObj K)
  | o, [] => some o
  | o, .parse f :: r => (o.parse (some f)).bind fun o' => FpdObj.run o' r
  | o, .setUp a :: r => (o.setUp a).bind fun p => FpdObj.run p.1 r

/-- ONE `BinNormalisationFromAttenuationImage` object.  `img`: which attenuation image `attenuation_image_ptr` holds (an
    identifier of type `ι`: the images exist outside the object, as files or as objects given to a constructor) and HOW MANY
    TIMES `post_processing` has multiplied the object's copy by `rescale = voxel_size_x / 10` (:86-95); `li`: the forward
    projection of the object's copy for the geometry of the last `set_up`. -/
structure AttenObj (ι K : Type) where
  img : Option (ι × Nat)
  setUpDone : Bool
  li : Bin → K

/-- the default constructor (`set_defaults`, :37-44: both pointers null) -/
def AttenObj.new {ι : Type} : AttenObj ι K := ⟨none, false, fun _ => 0⟩

/-- `post_processing()`, called by `parse` AND by the two constructors (`file`: the image in the file named by
    `attenuation_image_filename`, `none` if no file name is known — the constructor from an image object).  Repaired code
    (fix C13-1; before it the file was read only while the object held no image, and whatever the object held was rescaled at
    every call): `if (!attenuation_image_filename.empty()) { attenuation_image_ptr = read_from_file(...); _image_is_rescaled =
    false; }` — the file is read WHENEVER a file name is known; then `if (_image_is_rescaled) return …;` and otherwise
    `attenuation_image_ptr = clone * rescale; _image_is_rescaled = true`.
    `none`: no image (the function returns `true`, `parse` fails). -/
def AttenObj.postProcessing {ι : Type} (o : AttenObj ι K) (file : Option ι) : Option (AttenObj ι K) :=
  let held : Option (ι × Nat) :=
    match file with
    | some f => some (f, 0)
    | none => o.img
  held.map fun h => { o with img := some (h.1, if h.2 = 0 then 1 else h.2) }

/-- the constructor from a file name: `attenuation_image_ptr.reset(); post_processing();` -/
def AttenObj.ofFile {ι : Type} (file : ι) : Option (AttenObj ι K) := (AttenObj.new (K := K)).postProcessing (some file)

/-- the constructor from an image object (:113-121): the pointer is a clone of the image given; `post_processing()` -/
def AttenObj.ofImage {ι : Type} (image : ι) : Option (AttenObj ι K) :=
  (⟨some (image, 0), false, fun _ => 0⟩ : AttenObj ι K).postProcessing none

/-- `x * rescale^k` -/
def rescaled (vx : K) : Nat → K → K
  | 0, x => x
  | k + 1, x => rescaled vx k x * attenRescale vx

/-- forward projection of the object's copy along one matrix row (elements paired with the voxel values of the image as it was
    read / given, cm^-1), after `k` rescalings -/
def lineIntegralK (vx : K) (k : Nat) (row : List (K × K)) : K :=
  row.foldl (fun acc p => acc + p.1 * rescaled vx k p.2) 0

/-- `set_up` (:123-136): `error` for TOF data; the forward projector is set up for the image the object
    holds (null pointer: `none`).  `images i` = (x voxel size of image `i`, its matrix rows for the geometry of this call). -/
def AttenObj.setUp {ι : Type} (o : AttenObj ι K) (tofMashFactor : Int) (images : ι → K × (Bin → List (K × K))) :
    Option (AttenObj ι K) :=
  if fromAttenSetUp tofMashFactor then
    o.img.map fun h => { o with setUpDone := true, li := fun b => lineIntegralK (images h.1).1 h.2 ((images h.1).2 b) }
  else none

/-- `undo` / `apply(RelatedViewgrams&)` (:138-170) for one bin -/
def AttenObj.undo {ι : Type} (E : K → K) (o : AttenObj ι K) (b : Bin) (v : K) : Option K :=
  if o.setUpDone then fdiv v (E (o.li b)) else none
def AttenObj.apply {ι : Type} (E : K → K) (o : AttenObj ι K) (b : Bin) (v : K) : Option K :=
  if o.setUpDone then some (v * E (o.li b)) else none

/-- ONE `ChainedBinNormalisation` object: which members it holds (identifiers of type `ι`: the members are objects of their
    own, made by the parser from the text of the block / given to the constructor; `none` = null pointer), the chain's own
    `_already_set_up`, and whether the members it holds NOW have been set up (`set_up` of the chain sets up its members;
    a member made by the parser is a new object that was never set up) -/
structure ChainObj (ι : Type) where
  first : Option ι
  second : Option ι
  ownSetUp : Bool
  membersSetUp : Bool

/-- the default constructor (`set_defaults`, :30-36) -/
def ChainObj.new {ι : Type} : ChainObj ι := ⟨none, none, false, false⟩

/-- what a text says about one member: the parsing key does not occur (`none`: the member is left alone), or it occurs and
    REPLACES the member — by a null pointer for the value `None` (`some none`: the registry's default entry, factory 0), else by
    a new object made by the parser (`some (some m)`) -/
abbrev MemberKey (ι : Type) := Option (Option ι)

/-- the member after parsing a text that says `k` about it -/
def MemberKey.applyTo {ι : Type} (k : MemberKey ι) (old : Option ι) : Option ι :=
  match k with
  | none => old
  | some m => m

/-- `parse` (:38-56): the parsing keys of the text, then `post_processing`: `error` iff both members have a calibration factor
    `> 0` (`okCal`).  New member objects were never set up. -/
def ChainObj.parse {ι : Type} (o : ChainObj ι) (first second : MemberKey ι) (okCal : Bool) : Option (ChainObj ι) :=
  if okCal then
    some { o with first := first.applyTo o.first, second := second.applyTo o.second,
                  membersSetUp := o.membersSetUp && first.isNone && second.isNone }
  else none

/-- `set_up` (:78-89) for a geometry all members accept -/
def ChainObj.setUp {ι : Type} (o : ChainObj ι) : ChainObj ι := { o with ownSetUp := true, membersSetUp := true }

/-- the `Norm` such an object is for the geometry of its last `set_up`, `resolve m` being what member `m` is for that geometry -/
def ChainObj.norm {ι : Type} (o : ChainObj ι) (resolve : ι → Norm K) : Norm K :=
  .chained ((o.first.map resolve).getD .null) ((o.second.map resolve).getD .null)

/-! ### line integral of a uniform box along a line of response (no matrix rows) -/

/-- `std::min(a, b)` is `(b < a) ? b : a` -/
def cmin (a b : K) : K := if b < a then b else a

/-- restrict the parameter interval `I` of the line `p + t·d` (one coordinate) to `lo ≤ p + t·d ≤ hi`;
    `(1, 0)` is the empty interval -/
def slab (p d lo hi : K) (I : K × K) : K × K :=
  if 0 < d then (cmax I.1 ((lo - p) / d), cmin I.2 ((hi - p) / d))
  else if d < 0 then (cmax I.1 ((hi - p) / d), cmin I.2 ((lo - p) / d))
  else if p < lo ∨ hi < p then (1, 0) else I

/-- the parameters `t ∈ [0,1]` for which the point `p + t (q - p)` of the LOR lies in `[x0,x1] × [y0,y1]` -/
def boxInterval (px py qx qy x0 x1 y0 y1 : K) : K × K :=
  slab py (qy - py) y0 y1 (slab px (qx - px) x0 x1 (0, 1))

/-- fraction of the LOR from `p` to `q` that lies inside the box -/
def boxFraction (px py qx qy x0 x1 y0 y1 : K) : K :=
  let I := boxInterval px py qx qy x0 x1 y0 y1
  if I.1 < I.2 then I.2 - I.1 else 0

/-- attenuation correction factor of a map that is `μ` (cm^-1) inside the box (all planes) and 0 outside, for the LOR from
    `p` to `q` of length `len` (mm, in 3D): `E (μ/10 × len × fraction inside)` -/
def acfBox (E : K → K) (mu len px py qx qy x0 x1 y0 y1 : K) : K :=
  E (mu / ten * (len * boxFraction px py qx qy x0 x1 y0 y1))

/-! ### whole data sets -/

/-- one call of `undo`/`apply` on a group of bins (the bins of one set of related viewgrams) of a data set:
    the bins of the group are normalised, all others are left alone -/
def onGroup (f : Bin → K → Option K) (g : List Bin) (d : Bin → Option K) : Bin → Option K :=
  fun b => if b ∈ g then (d b).bind (f b) else d b

/-- the loop of `BinNormalisation::apply/undo(ProjData&, symmetries)`: one group after the other
    (get_related_viewgrams, normalise, set_related_viewgrams) -/
def onGroups (f : Bin → K → Option K) (gs : List (List Bin)) (d : Bin → Option K) : Bin → Option K :=
  gs.foldl (fun d g => onGroup f g d) d

end
end StirVerif.C13
